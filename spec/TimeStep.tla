------------------------------ MODULE TimeStep ------------------------------
(* C12 -- the time-step controllers and Newton's method of pyiga/solvers.py, over exact rationals.

   Code-shaped side (hand-written actions, one per loop iteration / exit of the anchored code):
     Mode = "adaptive"   _adaptive_step_method._method, lines `while t < t_end: ...` :
                         every call of the stepper is one action Try(e); the scaled error ratio r the
                         controller computes from (xnew, xhat) is chosen NONDETERMINISTICALLY (adversary)
                         from a finite alphabet, including r = 0 (replaced by 1e-15 in the code) and a
                         Newton failure (NoConvergenceError -> tau *= 0.5).  The error order q is 1 or 2;
                         the alphabet is given by the q-th ROOT s of r (r = s^q) so that
                         fac = step_factor * r^(-1/q) = step_factor / s stays rational.
     Mode = "model"      the same loop under the deterministic error model the property presupposes,
                         r = C * tau^(q+1) with q = 1  (liveness: the end time is reached).
     Mode = "constant"   _constant_step_method._method: num_iter = ceil((t_end - t0)/tau) steps,
                         a Newton failure at a scripted step returns the partial lists.
     Mode = "newton"     newton(F, J, x0, atol, rtol, maxiter, freeze_jac) with a scripted sequence of
                         residual norms; J is re-evaluated iff num_it % freeze_jac = 0.

   Declarative side = the predicates of the property, checked as invariants on every reachable state:
     accepted times strictly increase and differ by the step that was tried; a step is accepted iff
     r <= 1; consecutive step sizes change by a factor in [1/5, 5] (exactly 1/2 after a Newton failure);
     when the loop ends t >= t_end and all earlier times are < t_end; constant-step times are
     t0 + k*tau, one state per time, and reach t_end unless Newton failed; Newton returns only in a
     state with |res| < max(atol, rtol*|res0|) and raises otherwise after exactly maxiter iterations.

   Every terminated behaviour (and every behaviour cut at MaxCalls) is emitted with tag "BEH" and
   replayed on the real code with a scripted stepper / scripted F, J (harness/drivers/c12.py).      *)
EXTENDS Integers, Sequences, SequencesExt, FiniteSets, TLC, Rat, Emit

CONSTANTS Mode,       \* "adaptive" | "model" | "constant" | "newton"
          Grid,       \* 1 = quick parameter grid, 2 = thorough
          MaxCalls,   \* adaptive: bound on stepper calls per behaviour; model: runaway guard
          NumBound,   \* > 0 (random deep behaviours): stop extending a behaviour once t or tau needs a numerator
                      \* or denominator above this bound (TLC integers are 32 bit); 0 = no such cut
          DoEmit

VARIABLES pc,    \* control state
          par,   \* parameters of this behaviour (never change)
          st,    \* mode specific state (record)
          hist   \* sequence of events (one per stepper call / F call)
vars == <<pc, par, st, hist>>

Half == Q(1, 2)
Five == R(5)
Fifth == Q(1, 5)

\* comparisons through the sign of the difference (Rat!Add cancels the common denominator first;
\* Rat!Lt cross-multiplies and overflows 32 bits for denominators such as 40000)
LtS(a, b) == Sub(a, b)[1] < 0
LeS(a, b) == Sub(a, b)[1] <= 0
MinS(a, b) == IF LtS(a, b) THEN a ELSE b
MaxS(a, b) == IF LtS(a, b) THEN b ELSE a

RCeil(a) == -((-a[1]) \div a[2])          \* ceiling of a rational (\div rounds towards -infinity)

-----------------------------------------------------------------------------
(* ------------------------------ adaptive controller ------------------------------ *)

\* q-th roots of the error ratios the adversary may present; "zero" is r = 0, "fail" a Newton failure
Roots == IF Grid = 1
         THEN {Q(1, 8), Q(1, 2), One, Q(17, 16), R(2), R(8)}
         ELSE {Q(1, 64), Q(1, 8), Q(1, 2), One, Q(17, 16), R(2), R(8), R(64)}
Alphabet == {[k |-> "r", s |-> s] : s \in Roots} \cup {[k |-> "zero", s |-> Zero], [k |-> "fail", s |-> Zero]}

AdaptiveParams ==
  LET setups == IF Grid = 1
                THEN { [t0 |-> Zero,  tend |-> One,  tau0 |-> Q(1, 4)],
                       [t0 |-> Half,  tend |-> R(2), tau0 |-> Half] }
                ELSE { [t0 |-> Zero,  tend |-> One,  tau0 |-> Q(1, 4)],
                       [t0 |-> Half,  tend |-> R(2), tau0 |-> Half],
                       [t0 |-> R(-1), tend |-> Q(1, 4), tau0 |-> Q(1, 16)],
                       [t0 |-> Zero,  tend |-> One,  tau0 |-> R(2)] }
  IN { [t0 |-> u.t0, tend |-> u.tend, tau0 |-> u.tau0, sf |-> sf, q |-> q] :
         u \in setups, q \in {1, 2},
         sf \in (IF Grid = 1 THEN {Half, Q(9, 10), One} ELSE {Half, Q(3, 4), Q(9, 10), One}) }

\* lines 509-527 for one stepper call that returned normally with error-ratio root s (r = s^q)
\*   if r == 0: r = 1e-15        -> fac = step_factor * 1e15^(1/q) > 5 for every admissible step_factor
\*   if r <= 1: t += tau ...
\*   fac = min(5.0, max(0.2, step_factor * r**(-1/err_order)));  tau *= fac
RatioOf(e, q)  == PowR(e.s, q)
Accepts(e, q)  == e.k = "zero" \/ (e.k = "r" /\ LeS(RatioOf(e, q), One))
Factor(e, sf)  == IF e.k = "zero" THEN Five ELSE MinS(Five, MaxS(Fifth, Div(sf, e.s)))

Small(x) == NumBound = 0 \/ (x[1] <= NumBound /\ -x[1] <= NumBound /\ x[2] <= NumBound)

Try(e) ==
  /\ pc = "loop"
  /\ LtS(st.t, par.tend)                       \* while t < t_end
  /\ st.ncalls < MaxCalls
  /\ Small(st.t) /\ Small(st.tau)
  /\ LET acc  == Accepts(e, par.q)
         tnew == IF acc THEN Add(st.t, st.tau) ELSE st.t
         taun == IF e.k = "fail" THEN Mul(st.tau, Half) ELSE Mul(st.tau, Factor(e, par.sf))
     IN /\ st' = [st EXCEPT !.t = tnew, !.tau = taun, !.ncalls = @ + 1,
                            !.times = IF acc THEN Append(@, tnew) ELSE @]
        /\ hist' = Append(hist, [k |-> e.k, s |-> e.s, tau |-> st.tau, acc |-> acc])
  /\ UNCHANGED <<pc, par>>

ExitLoop ==
  /\ pc = "loop" /\ ~LtS(st.t, par.tend)
  /\ pc' = "done" /\ UNCHANGED <<par, st, hist>>

\* deterministic error model r = C tau^2 (q = 1): the controller is a function of tau
ModelParams ==
  { [t0 |-> Zero, tend |-> te, tau0 |-> tau0, sf |-> sf, q |-> 1, C |-> C] :
      te \in {One, R(3)}, tau0 \in {Q(1, 64), Q(1, 4), R(2)}, sf \in {Half, Q(3, 4), Q(9, 10), One},
      C \in (IF Grid = 1 THEN {Q(1, 4), R(1), R(16)} ELSE {Q(1, 4), R(1), R(3), R(16), R(100)}) }

TryModel ==
  LET r == Mul(par.C, Mul(st.tau, st.tau)) IN Try([k |-> "r", s |-> r])

-----------------------------------------------------------------------------
(* ------------------------------ constant steps ------------------------------ *)

ConstParams ==
  LET base == { [t0 |-> Zero, tend |-> One, tau |-> Q(1, 4)],     \* tau divides the interval
                [t0 |-> Zero, tend |-> One, tau |-> Q(3, 8)],     \* last step oversteps t_end
                [t0 |-> Half, tend |-> R(2), tau |-> Half],
                [t0 |-> R(-1), tend |-> Q(-1, 4), tau |-> Q(1, 4)],
                [t0 |-> Zero, tend |-> One, tau |-> R(2)],        \* one step
                [t0 |-> One, tend |-> One, tau |-> Half],         \* empty interval: no step
                [t0 |-> Zero, tend |-> Q(5, 8), tau |-> Q(1, 8)] }
  IN { [t0 |-> u.t0, tend |-> u.tend, tau |-> u.tau, failat |-> f] : u \in base, f \in 0..6 }
      \* failat = j > 0: the j-th stepper call raises NoConvergenceError (never reached if j > num_iter)

ConstStep ==
  /\ pc = "loop" /\ st.i < st.numiter
  /\ IF par.failat = st.i + 1
     THEN /\ pc' = "partial"                                    \* return times, solutions
          /\ st' = [st EXCEPT !.ncalls = @ + 1]
     ELSE /\ st' = [st EXCEPT !.i = @ + 1, !.ncalls = @ + 1, !.nsol = @ + 1,
                              !.times = Append(@, Add(par.t0, Mul(R(st.i + 1), par.tau)))]
          /\ pc' = pc
  /\ UNCHANGED <<par, hist>>

ConstExit ==
  /\ pc = "loop" /\ st.i >= st.numiter
  /\ pc' = "done" /\ UNCHANGED <<par, st, hist>>

-----------------------------------------------------------------------------
(* ------------------------------ Newton ------------------------------ *)

ResAlphabet == {Zero, Q(1, 1024), Q(1, 16), Half, One, R(4)}

NewtonParams ==
  { [atol |-> a, rtol |-> r, maxiter |-> m, freeze |-> f] :
      a \in {Q(1, 64), Zero}, r \in {Q(1, 4), Q(1, 1024)},
      m \in (IF Grid = 1 THEN {1, 2, 3} ELSE {0, 1, 2, 3, 4}), f \in {1, 2, 3} }

\* for num_it in range(maxiter):  if norm(res) < target: return x
NewtonTest ==
  /\ pc = "test" /\ st.it < par.maxiter
  /\ IF LtS(st.res, st.target) THEN pc' = "returned" ELSE pc' = "update"
  /\ UNCHANGED <<par, st, hist>>

\*   if num_it % freeze_jac == 0: jac = J(x) ...;  x -= jac_inv.dot(res);  res = F(x)
\* the k-th evaluation of J returns the 1x1 matrix (2^(k-1)), so the iterate shows which Jacobian was used
NewtonUpdate(rho) ==
  /\ pc = "update"
  /\ LET newj == (st.it % par.freeze) = 0
         nj   == IF newj THEN st.nJ + 1 ELSE st.nJ
         jac  == PowR(R(2), nj - 1)
     IN st' = [st EXCEPT !.it = @ + 1, !.nJ = nj, !.nF = @ + 1, !.res = rho,
                         !.x = Sub(@, Div(st.res, jac)),
                         !.jacAt = IF newj THEN Append(@, st.it) ELSE @]
  /\ hist' = Append(hist, rho)
  /\ pc' = "test"
  /\ UNCHANGED par

\* raise NoConvergenceError('newton', maxiter, x)
NewtonRaise ==
  /\ pc = "test" /\ st.it >= par.maxiter
  /\ pc' = "raised" /\ UNCHANGED <<par, st, hist>>

-----------------------------------------------------------------------------
Init ==
  /\ hist = <<>>
  /\ \/ /\ Mode = "adaptive"
        /\ par \in AdaptiveParams /\ pc = "loop"
        /\ st = [t |-> par.t0, tau |-> par.tau0, ncalls |-> 0, times |-> <<par.t0>>]
     \/ /\ Mode = "model"
        /\ par \in ModelParams /\ pc = "loop"
        /\ st = [t |-> par.t0, tau |-> par.tau0, ncalls |-> 0, times |-> <<par.t0>>]
     \/ /\ Mode = "constant"
        /\ par \in ConstParams /\ pc = "loop"
        /\ st = [i |-> 0, ncalls |-> 0, nsol |-> 1, times |-> <<par.t0>>,
                 numiter |-> RCeil(Div(Sub(par.tend, par.t0), par.tau))]
     \/ /\ Mode = "newton"
        /\ par \in NewtonParams /\ pc = "test"
        /\ \E rho \in ResAlphabet :        \* res = F(x);  target = max(atol, rtol * norm(res))
             st = [it |-> 0, nF |-> 1, nJ |-> 0, res |-> rho, res0 |-> rho, x |-> One,
                   target |-> MaxS(par.atol, Mul(par.rtol, rho)), jacAt |-> <<>>]

Next ==
  \/ Mode = "adaptive" /\ ((\E e \in Alphabet : Try(e)) \/ ExitLoop)
  \/ Mode = "model"    /\ (TryModel \/ ExitLoop)
  \/ Mode = "constant" /\ (ConstStep \/ ConstExit)
  \/ Mode = "newton"   /\ (NewtonTest \/ (\E rho \in ResAlphabet : NewtonUpdate(rho)) \/ NewtonRaise)

Spec     == Init /\ [][Next]_vars
LiveSpec == Init /\ [][Next]_vars /\ WF_vars(Next)

-----------------------------------------------------------------------------
(* ------------------------------ the property, declaratively ------------------------------ *)
Adaptive == Mode \in {"adaptive", "model"}

\* accepted times strictly increase; consecutive accepted times differ by the step size that was tried
TimesIncrease ==
  Adaptive => \A k \in 1..(Len(st.times) - 1) : LtS(st.times[k], st.times[k + 1])

TimesAreSteps ==
  Adaptive =>
    LET accs == SelectSeq(hist, LAMBDA h : h.acc) IN
    /\ Len(st.times) = Len(accs) + 1
    /\ \A k \in 1..Len(accs) : st.times[k + 1] = Add(st.times[k], accs[k].tau)
    /\ st.times[Len(st.times)] = st.t

\* a step is accepted iff the scaled error ratio is <= 1 (a Newton failure is never accepted)
AcceptIffRatioLeOne ==
  Adaptive => \A k \in 1..Len(hist) :
     hist[k].acc <=> (hist[k].k # "fail" /\ (hist[k].k = "zero" \/ LeS(PowR(hist[k].s, par.q), One)))

\* the step changes by a factor within the safety bounds [1/5, 5]; exactly 1/2 after a Newton failure
NextTau(k) == IF k < Len(hist) THEN hist[k + 1].tau ELSE st.tau
RatioBounds ==
  Adaptive => \A k \in 1..Len(hist) :
     LET ratio == Div(NextTau(k), hist[k].tau) IN
     /\ LeS(Fifth, ratio) /\ LeS(ratio, Five)
     /\ hist[k].k = "fail" => ratio = Half
     /\ LtS(Zero, NextTau(k))

\* when the loop ends the end time has been reached, and only the last time may be >= t_end
EndReached ==
  (Adaptive /\ pc = "done") =>
     /\ LeS(par.tend, st.t)
     /\ \A k \in 1..(Len(st.times) - 1) : LtS(st.times[k], par.tend)

\* liveness under the error model: bounded number of calls (runaway guard) and termination
ModelBounded == Mode = "model" => st.ncalls < MaxCalls
Termination  == <>(pc = "done")

\* constant steps: times t0 + k tau, one state per time; normal exit reaches t_end with the minimal
\* number of steps; a Newton failure at call j returns exactly j-1 steps
ConstTimes ==
  Mode = "constant" =>
    /\ \A k \in 1..Len(st.times) : st.times[k] = Add(par.t0, Mul(R(k - 1), par.tau))
    /\ st.nsol = Len(st.times)
    /\ pc = "done" => /\ LeS(par.tend, st.times[Len(st.times)])
                      /\ \A k \in 1..(Len(st.times) - 1) : LtS(st.times[k], par.tend)
                      /\ ~(par.failat \in 1..st.numiter)
    /\ pc = "partial" => Len(st.times) = par.failat /\ st.ncalls = par.failat

\* Newton returns only points whose residual meets the tolerance, otherwise raises after maxiter steps
NewtonPost ==
  Mode = "newton" =>
    /\ pc = "returned" => /\ LtS(st.res, MaxS(par.atol, Mul(par.rtol, st.res0)))
                          /\ st.it < par.maxiter
    /\ pc = "raised"   => /\ st.it = par.maxiter /\ st.nF = par.maxiter + 1
                          /\ \A k \in 1..Len(hist) :       \* no earlier residual (that was tested) met it
                               k < Len(hist) => ~LtS(hist[k], st.target)
                          /\ ~LtS(st.res0, st.target) \/ par.maxiter = 0
    /\ st.nF = st.it + 1
    /\ st.jacAt = SelectSeq([k \in 1..st.it |-> k - 1], LAMBDA n : (n % par.freeze) = 0)
    /\ st.nJ = Len(st.jacAt)

-----------------------------------------------------------------------------
(* ------------------------------ emission for replay ------------------------------ *)
EvJ(h) == [k |-> h.k, s |-> h.s, tau |-> h.tau, acc |-> h.acc]

EmitBeh ==
  DoEmit =>
   CASE Adaptive ->
          (pc = "done" \/ (st.ncalls = MaxCalls /\ LtS(st.t, par.tend))) =>
            Emit("BEH", [mode |-> Mode, par |-> par, done |-> (pc = "done"),
                         events |-> [k \in 1..Len(hist) |-> EvJ(hist[k])],
                         times |-> st.times, tau |-> st.tau])
     [] Mode = "constant" ->
          (pc \in {"done", "partial"}) =>
            Emit("BEH", [mode |-> Mode, par |-> par, outcome |-> pc, times |-> st.times,
                         ncalls |-> st.ncalls])
     [] Mode = "newton" ->
          (pc \in {"returned", "raised"}) =>
            Emit("BEH", [mode |-> Mode, par |-> par, outcome |-> pc, res0 |-> st.res0,
                         script |-> hist, nF |-> st.nF, jacAt |-> st.jacAt, x |-> st.x])
=============================================================================
