------------------------------- MODULE Emit -------------------------------
(* Emission of cases/behaviours to the harness: one JSON object per line on stdout,
   {"tag": ..., "v": ...}.  PrintT of a string prints it quoted and escaped; the harness
   un-escapes it (harness/common.py). *)
EXTENDS TLC, Json
Emit(tag, v) == PrintT(ToJson([tag |-> tag, v |-> v]))
=============================================================================
