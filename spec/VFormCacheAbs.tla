---------------------------- MODULE VFormCacheAbs ----------------------------
(* Abstract universe for VFormCache: a base form and its one-token mutants along every attribute
   the property names; the generated source depends on every attribute and on the mode.
   KeyIgnores = {} and ModeInKey = TRUE is the repaired key; KeyIgnores = {"fn","bdry"} is what
   VForm.hash() saw before the fix (BuiltinFuncExpr had no hash_key, the boundary flag was not
   hashed); ModeInKey = FALSE drops on_demand from the key.  Both are negative controls.        *)
EXTENDS Integers, Sequences, FiniteSets, TLC, SequencesExt, FiniteSetsExt

CONSTANTS KeyIgnores, ModeInKey, MaxLen, EmitBeh, SameKeyOnly

AttrNames == {"op", "fn", "const", "shape", "deriv", "measure", "bdry", "arity", "comps", "space", "upd", "phys"}
Base == [op |-> "+", fn |-> "sin", const |-> 2, shape |-> 0, deriv |-> 0, measure |-> "dx", bdry |-> FALSE,
         arity |-> 2, comps |-> 1, space |-> 0, upd |-> FALSE, phys |-> TRUE]
Alt  == [op |-> "-", fn |-> "cos", const |-> 3, shape |-> 1, deriv |-> 1, measure |-> "ds", bdry |-> TRUE,
         arity |-> 1, comps |-> 2, space |-> 1, upd |-> TRUE, phys |-> FALSE]
FormSet == {Base} \cup {[Base EXCEPT ![a] = Alt[a]] : a \in AttrNames}
FormSeq == SetToSeq(FormSet)
NFv     == Len(FormSeq)

AbsKey(f)    == [a \in (AttrNames \ KeyIgnores) |-> FormSeq[f][a]]
AbsSrc(f, m) == 2 * f + m      \* every attribute and the mode change the generated source: one class per (form, mode)
AbsModeKey(m) == IF ModeInKey THEN m ELSE 0

VARIABLES cache, hist, bad
INSTANCE VFormCache WITH NF <- NFv, KeyOf <- AbsKey, SrcOf <- AbsSrc, ModeKey <- AbsModeKey, Preseed <- {}
=============================================================================
