---------------------------- MODULE TensorAlgNum ----------------------------
(* C18, numeric part: the inputs on which the harness evaluates the numeric predicates of the
   property (compress/truncate tolerance, HOSVD exactness + orthonormality, exact-rank recovery by
   cross approximation, monotone error histories of the greedy algorithms).  The specification
   decides only what it can decide exactly: the shape, the integer rank-one terms, the decade by
   which every term is scaled, the requested tolerance decade and -- by exact elimination over
   the rationals -- the rank of the matrices handed to ACA.  One state per case.               *)
EXTENDS Integers, Sequences, FiniteSets, SequencesExt, TLC, Emit, Rat

CONSTANTS Family,    \* "tucker" | "aca" | "aca3d" | "greedy" | "all"
          NCase,     \* number of pseudo-random cases
          Salt

VARIABLE c

Hash(s, i) ==
  LET h1 == ((s % 32749) * 7919 + (i % 32749) * 10007 + 12345) % 32749
      h2 == (h1 * h1 + 7 * h1 + 3) % 32749
  IN  (h2 * 31 + i + 11) % 32749
Val5(s, i) == (Hash(s, i) % 5) - 2
Vec(n, s, base) == [i \in 1..n |-> Val5(s, base + i)]
NonZeroVec(n, s, base) == LET v == Vec(n, s, base) IN IF \A i \in 1..n : v[i] = 0 THEN [i \in 1..n |-> 1] ELSE v

\* r rank-one terms of order Len(sh): terms[j][k] is a vector of length sh[k]
Terms(sh, r, s) == [j \in 1..r |-> [k \in 1..Len(sh) |-> NonZeroVec(sh[k], s, 50 * j + 10 * k)]]

\* vectors without zero entries (values -4..-1, 1..4): used where generic position is wanted
GVec(n, s, base) == [i \in 1..n |-> LET v == (Hash(s, base + i) % 8) - 4 IN IF v >= 0 THEN v + 1 ELSE v]
GTerms(sh, r, s) == [j \in 1..r |-> [k \in 1..Len(sh) |-> GVec(sh[k], s, 50 * j + 10 * k)]]
IntMat(terms, n1, n2) ==
  [i \in 1..n1 |-> [l \in 1..n2 |-> FoldLeft(LAMBDA a, j : a + terms[j][1][i] * terms[j][2][l], 0,
                                             [j \in 1..Len(terms) |-> j])]]
\* a matrix of rank r is in generic position when none of its minors of order <= r vanishes: then, in exact
\* arithmetic, cross approximation with any pivoting rule meets a non-zero residual in every unused row
\* and column and terminates after exactly r crosses with the matrix itself
Det2(M, i1, i2, j1, j2) == M[i1][j1] * M[i2][j2] - M[i1][j2] * M[i2][j1]
Det3(M, I, J) ==
    M[I[1]][J[1]] * Det2(M, I[2], I[3], J[2], J[3])
  - M[I[1]][J[2]] * Det2(M, I[2], I[3], J[1], J[3])
  + M[I[1]][J[3]] * Det2(M, I[2], I[3], J[1], J[2])
Generic(M, n1, n2, r) ==
  /\ \A i \in 1..n1, j \in 1..n2 : M[i][j] # 0
  /\ r >= 2 => \A i1 \in 1..n1, i2 \in 1..n1, j1 \in 1..n2, j2 \in 1..n2 :
                  (i1 < i2 /\ j1 < j2) => Det2(M, i1, i2, j1, j2) # 0
  /\ r >= 3 => \A I \in {t \in (1..n1) \X (1..n1) \X (1..n1) : t[1] < t[2] /\ t[2] < t[3]} :
                \A J \in {t \in (1..n2) \X (1..n2) \X (1..n2) : t[1] < t[2] /\ t[2] < t[3]} : Det3(M, I, J) # 0

\* matrix  sum_j terms[j][1] (x) terms[j][2]  as rationals, and its exact rank
MatOf(terms, n1, n2) ==
  [i \in 1..n1 |-> [l \in 1..n2 |-> R(FoldLeft(LAMBDA a, j : a + terms[j][1][i] * terms[j][2][l], 0,
                                              [j \in 1..Len(terms) |-> j]))]]

TuckerCase(q) ==
  LET s   == Hash(Salt * 13 + q, 1)
      d   == 2 + (Hash(s, 2) % 3)
      sh  == [k \in 1..d |-> 2 + (Hash(s, 3 + k) % 3)]
      r   == Hash(s, 8) % 4
      dec == [j \in 1..r |-> 2 * (Hash(s, 9 + j) % 6)]
  IN [fam |-> "tucker", q |-> q, sh |-> sh, r |-> r, terms |-> Terms(sh, r, s), dec |-> dec,
      tolexp |-> 1 + (Hash(s, 20) % 12), rel |-> (Hash(s, 21) % 2 = 0), rank |-> 0, generic |-> FALSE]
AcaCase(q) ==
  LET s  == Hash(Salt * 13 + q, 2)
      n1 == 2 + (Hash(s, 2) % 5)
      n2 == 2 + (Hash(s, 3) % 5)
      r  == 1 + (Hash(s, 4) % 3)
      t  == IF Hash(s, 5) % 3 = 0 THEN Terms(<<n1, n2>>, r, s) ELSE GTerms(<<n1, n2>>, r, s)
      rk == Rank(MatOf(t, n1, n2))
  IN [fam |-> "aca", q |-> q, sh |-> <<n1, n2>>, r |-> r, terms |-> t, dec |-> [j \in 1..r |-> 0],
      tolexp |-> 10, rel |-> FALSE, rank |-> rk, generic |-> Generic(IntMat(t, n1, n2), n1, n2, rk)]
\* 3-D: aca_3d is a cross approximation of the unfolding  A_(1)  (n1 x n2*n3) whose rows, the matrix slices
\* A[i,:,:], are themselves recovered by the 2-D algorithm.  "generic" = proven generic position: at most two
\* terms, no zero entry, and no vanishing 2-minor in the unfolding or in any slice (anything else: FALSE).
Entry3(t, i, j, k) == FoldLeft(LAMBDA a, q : a + t[q][1][i] * t[q][2][j] * t[q][3][k], 0, [q \in 1..Len(t) |-> q])
Generic3(t, sh, r) ==
  LET n1 == sh[1]  n2 == sh[2]  n3 == sh[3]
      U  == [i \in 1..n1 |-> [cc \in 1..(n2 * n3) |-> Entry3(t, i, ((cc - 1) \div n3) + 1, ((cc - 1) % n3) + 1)]]
      rk == Rank([i \in 1..n1 |-> [cc \in 1..(n2 * n3) |-> R(U[i][cc])]])
  IN /\ r <= 2 /\ rk = r
     /\ Generic(U, n1, n2 * n3, IF rk > 2 THEN 2 ELSE rk)
     /\ \A i \in 1..n1 : Generic([j \in 1..n2 |-> [k \in 1..n3 |-> U[i][(j - 1) * n3 + k]]], n2, n3, IF rk > 2 THEN 2 ELSE rk)
Aca3dCase(q) ==
  LET s  == Hash(Salt * 13 + q, 3)
      sh == [k \in 1..3 |-> 2 + (Hash(s, 3 + k) % 4)]
      r  == 1 + (Hash(s, 4) % 3)
      t  == GTerms(sh, r, s)
  IN [fam |-> "aca3d", q |-> q, sh |-> sh, r |-> r, terms |-> t, dec |-> [j \in 1..r |-> 0],
      tolexp |-> 10, rel |-> FALSE, rank |-> 0, generic |-> Generic3(t, sh, r)]
GreedyCase(q) ==
  LET s  == Hash(Salt * 13 + q, 4)
      d  == 2 + (Hash(s, 2) % 2)
      sh == [k \in 1..d |-> 2 + (Hash(s, 3 + k) % 3)]
      r  == IF Hash(s, 7) % 16 = 0 THEN 0 ELSE 1 + (Hash(s, 8) % 3)     \* now and then the zero tensor
  IN [fam |-> "greedy", q |-> q, sh |-> sh, r |-> r, terms |-> Terms(sh, r, s),
      dec |-> [j \in 1..r |-> Hash(s, 9 + j) % 3],
      tolexp |-> 2 + (Hash(s, 20) % 11), rel |-> FALSE, rank |-> 1 + (Hash(s, 22) % 4),   \* rank = rank limit R
      generic |-> FALSE]

Case(f, q) == CASE f = "tucker" -> TuckerCase(q)
                [] f = "aca"    -> AcaCase(q)
                [] f = "aca3d"  -> Aca3dCase(q)
                [] f = "greedy" -> GreedyCase(q)
Families == IF Family = "all" THEN {"tucker", "aca", "aca3d", "greedy"} ELSE {Family}

\* the greedy algorithms are slow (and the ones that may not terminate): a quarter of the cases
Init == \E f \in Families : \E q \in 1..(IF f = "greedy" THEN (NCase \div 4) + 5 ELSE NCase) : c = Case(f, q)
Next == UNCHANGED c
Spec == Init /\ [][Next]_c

\* what the specification guarantees about a case
WellFormed ==
  /\ Len(c.terms) = c.r
  /\ \A j \in 1..c.r : \A k \in 1..Len(c.sh) : Len(c.terms[j][k]) = c.sh[k]
  /\ c.fam = "aca" => (c.rank >= 0 /\ c.rank <= c.r)
EmitCase == Emit("NUM", c)
=============================================================================
