---------------------------- MODULE VFormCacheData ----------------------------
(* VFormCache instantiated with tables measured on the real code (M2 direction): for every form of the
   harness universe the class of vf.hash() (key), the class of compile.generate(vf, on_demand) per mode
   (0 = the generator raises) and the pre-seeded shipped assemblers <<key, 0, source class>> where the
   source class of a shipped assembler equals the class of its form's mode-0 source iff the shipped
   text is what the generator produces today (freshness).                                      *)
EXTENDS Integers, Sequences, FiniteSets, TLC, Json, IOUtils

CONSTANTS MaxLen, EmitBeh, SameKeyOnly

Data == JsonDeserialize(IOEnv.CACHE_DATA)     \* [nf, key: seq, src: seq of <<s0,s1>>, preseed: seq of <<key,src>>]
DKey(f)     == Data.key[f]
DSrc(f, m)  == Data.src[f][m + 1]
DModeKey(m) == m
DPreseed    == {<<Data.preseed[i][1], 0, Data.preseed[i][2]>> : i \in 1..Len(Data.preseed)}

VARIABLES cache, hist, bad
INSTANCE VFormCache WITH NF <- Data.nf, KeyOf <- DKey, SrcOf <- DSrc, ModeKey <- DModeKey, Preseed <- DPreseed
=============================================================================
