---------------------------- MODULE GeoFuncNamed ----------------------------
(* C07 -- named shapes whose data are irrational (sin pi/3, cos pi/4, rotation by angles without rational sine/cosine):
   TLC cannot evaluate them exactly.  This module only GENERATES the cases (shape, radii, opening / rotation angle,
   rational parameter points) and states, per case, the predicates that must hold; the harness evaluates the predicates
   numerically on the real objects ("numeric predicate on spec-generated cases", tolerance 1e-12 relative):

     "radius"    |G(t)| = r at every parameter point t
     "annulus"   |G(x, y)| = r1 + x (r2 - r1)  and the polar angle of G(x, y) does not depend on x
     "range"     the polar angle of G(t) increases strictly with t from a0 to a1 (unwrapped), G(0), G(1) at a0, a1
     "inside"    |G(x, y)| <= r for interior parameter points, = r on the four sides
     "rotation"  G' = rotate_2d(phi)(G):  |G'(t)| = |G(t)|,  G'(t) = R(phi) G(t)  with the exact G(t) of GeoFunc!Sheet
     "corners"   the four corner points of bspline_quarter_annulus
     "noise"     perturbed_square: |G(x,y) - (x,y)|_inf <= noise

   Angles are given as [num, den, ispi]: num/den radians, or num/den * pi if ispi = 1.                               *)
EXTENDS GeoFunc, Emit

CONSTANTS Thorough, Seed
VARIABLE cid

Radii == IF Thorough THEN <<One, R(2), Q(1, 2), Q(3, 2), Q(7, 3), R(10)>> ELSE <<One, R(2), Q(3, 2)>>
Ts(n) == Tab(n + 1, LAMBDA j : Q(j - 1, n))                      \* 0, 1/n, .., 1
Ang(n, d, ispi) == <<n, d, ispi>>

ArcAngles ==      \* opening angles alpha in (0, 2 pi]
  << Ang(1, 1, 0), Ang(5, 2, 0), Ang(3, 1, 0), Ang(4, 1, 0), Ang(6, 1, 0), Ang(1, 3, 1), Ang(1, 2, 1), Ang(1, 1, 1), Ang(3, 2, 1), Ang(2, 1, 1) >>
  \o (IF Thorough THEN << Ang(1, 100, 0), Ang(31, 10, 0), Ang(63, 10, 0), Ang(7, 4, 1), Ang(1, 6, 1) >> ELSE <<>>)
RotAngles == << Ang(1, 1, 0), Ang(-11, 5, 0), Ang(1, 6, 1), Ang(3, 10, 0), Ang(-1, 4, 1), Ang(5, 1, 0) >>

RotObjs ==        \* curves / surfaces with two components to be rotated
  LET kv1 == <<0,0,0,1,3,3,3>>  kv2 == <<0,0,1,2,2>>
      co(n, sd, c) == Tab(n, LAMBDA I : R((((I + 1) * (I + 3) * 5 + 11 * c + 3 * I + sd + Seed) % 7) - 3))
  IN << MkBsp(<<kv1>>, <<1>>, <<2>>, <<2>>, <<co(4, 1, 1), co(4, 1, 2)>>),
        MkNurbs(<<kv1>>, <<1>>, <<2>>, <<2>>, <<co(4, 2, 1), co(4, 2, 2)>>, <<One, Q(1, 2), R(2), One>>),
        MkBsp(<<kv2, kv1>>, <<1, 1>>, <<1, 2>>, <<2>>, <<co(12, 3, 1), co(12, 3, 2)>>),
        MkNurbs(<<kv2, kv1>>, <<1, 1>>, <<1, 2>>, <<2>>, <<co(12, 4, 1), co(12, 4, 2)>>,
                Tab(12, LAMBDA I : Q((I % 3) + 1, 2))) >>

Cases ==
  LET nT == IF Thorough THEN 24 ELSE 12
      arcs == FlattenSeq(Tab(Len(ArcAngles), LAMBDA k : Tab(Len(Radii), LAMBDA q :
                 [shape |-> "circular_arc", alpha |-> ArcAngles[k], r |-> Radii[q], ts |-> Ts(nT), preds |-> <<"radius", "range">>])))
      circ == FlattenSeq(Tab(Len(Radii), LAMBDA q :
                 << [shape |-> "circle", r |-> Radii[q], ts |-> Ts(nT), preds |-> <<"radius", "range">>],
                    [shape |-> "semicircle", r |-> Radii[q], ts |-> Ts(nT), preds |-> <<"radius", "range">>],
                    [shape |-> "disk", r |-> Radii[q], ts |-> Ts(8), preds |-> <<"inside">>] >>))
      ann  == FlattenSeq(Tab(Len(Radii), LAMBDA q : Tab(2, LAMBDA w :
                 [shape |-> "quarter_annulus", r |-> Radii[q], r2 |-> Add(Radii[q], Q(w, 2)), ts |-> Ts(8),
                  preds |-> <<"annulus", "range">>])))
      bqa  == Tab(Len(Radii), LAMBDA q : [shape |-> "bspline_quarter_annulus", r |-> Radii[q], r2 |-> Add(Radii[q], One),
                                           ts |-> Ts(4), preds |-> <<"corners">>])
      rot  == FlattenSeq(Tab(Len(RotObjs), LAMBDA o :
                 LET G == RotObjs[o]
                     grid == Tab(SDim(G), LAMBDA a : LET hp == IF SDim(G) = 1 THEN SamplePoints(G.kvs[a]) ELSE HalfPoints(G.kvs[a])
                                                     IN Tab(Len(hp), LAMBDA j : hp[j]))
                     S == SheetD(G, grid, 1)
                 IN Tab(Len(RotAngles), LAMBDA k :
                      [shape |-> "rotate_2d", obj |-> G, phi |-> RotAngles[k], grid |-> grid, val |-> S.val, jac |-> S.jac,
                       preds |-> <<"rotation">>])))
      pert == << [shape |-> "perturbed_square", n |-> 3, noise |-> Q(1, 50), ts |-> Ts(6), preds |-> <<"noise">>],
                 [shape |-> "perturbed_square", n |-> 5, noise |-> Q(1, 10), ts |-> Ts(6), preds |-> <<"noise">>] >>
  IN arcs \o circ \o ann \o bqa \o rot \o pert

Init == cid = 0
Next == cid = 0 /\ cid' \in 1..Len(Cases)
Spec == Init /\ [][Next]_cid

CaseOK == cid # 0 => Emit("NAMED", [id |-> cid] @@ Cases[cid])
===============================================================================
