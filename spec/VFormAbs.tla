------------------------------- MODULE VFormAbs -------------------------------
(* Abstract denotation of a VFormGen token program over an arbitrary field: the tensor algebra of the
   vform operators and 1-jets (value, gradient) for the differentiable scalars "D".  The field
   operations and the values of the leaves are parameters, so that the same definitions are used
     * over GF(p) by VFormIR   (value preservation of the rewriting passes, C06), and
     * over the rationals by VFormSemRat (exact matrix entries of compiled assemblers, C01).        *)
EXTENDS Integers, Sequences, SequencesExt

CONSTANTS FAdd(_, _), FSub(_, _), FMul(_, _), FDiv(_, _), FNeg(_), FFn(_, _), FZero, FOne, FTwo

FSum(s) == FoldLeft(FAdd, FZero, s)

ADet(A) ==
  LET n == Len(A) IN
  IF n = 1 THEN A[1][1]
  ELSE IF n = 2 THEN FSub(FMul(A[1][1], A[2][2]), FMul(A[1][2], A[2][1]))
  ELSE FSub(FAdd(FAdd(FMul(A[1][1], FMul(A[2][2], A[3][3])), FMul(A[1][2], FMul(A[2][3], A[3][1]))),
                 FMul(A[1][3], FMul(A[2][1], A[3][2]))),
            FAdd(FAdd(FMul(A[1][3], FMul(A[2][2], A[3][1])), FMul(A[1][2], FMul(A[2][1], A[3][3]))),
                 FMul(A[1][1], FMul(A[2][3], A[3][2]))))
AMinor(A, i, j) ==
  LET n == Len(A)
      rows == SelectSeq([r \in 1..n |-> r], LAMBDA r : r # i)
      cols == SelectSeq([c \in 1..n |-> c], LAMBDA c : c # j)
  IN [r \in 1..(n - 1) |-> [c \in 1..(n - 1) |-> A[rows[r]][cols[c]]]]
AInverse(A) ==
  LET n == Len(A)  id == FDiv(FOne, ADet(A)) IN
  IF n = 1 THEN <<<<id>>>>
  ELSE [i \in 1..n |-> [j \in 1..n |->
          LET cof == ADet(AMinor(A, j, i)) IN
          FMul(id, IF (i + j) % 2 = 0 THEN cof ELSE FNeg(cof))]]

LeafTokens == {"u","v","ux","uy","vx","vy","uxp","vyp","uxx","uxy","c","two","three","half","hpar","hx","gw",
               "f","f2","cD","twoD","gu","gv","gup","gh","g","x","Hu","Hv","A","J","Gg","Ainv","Jinv",
               "u0","u1","w0","w1","divu","divv","uvec","vvec","Gu","Gv",
               "B", "nrm", "tiny", "near1"}                                                             \* (Dim+1) x Dim input field      \* vector-valued basis functions
UnaryTokens == {"neg","sin","cos","exp","log","sqrt","abs","tan","sq","cube","negD","sqD","dx0","dx1","val","gradD",
                "norm","v0","v1","det","tr","m01","T","inv"}
IsLeaf(t)  == t \in LeafTokens
IsUnary(t) == t \in UnaryTokens

Op2(op, a, b) == CASE op = "+" -> FAdd(a, b) [] op = "-" -> FSub(a, b) [] op = "*" -> FMul(a, b) [] op = "/" -> FDiv(a, b)
VecOp(op, x, y) == [q \in 1..Len(x) |-> Op2(op, x[q], y[q])]

Unary(t, a) ==
  CASE t = "neg" -> FNeg(a)  [] t \in {"sin","cos","exp","log","sqrt","abs","tan"} -> FFn(t, a)
    [] t = "sq" -> FMul(a, a)  [] t = "cube" -> FMul(FMul(a, a), a)
    [] t = "negD" -> [v |-> FNeg(a.v), g |-> [q \in 1..Len(a.g) |-> FNeg(a.g[q])]]
    [] t = "sqD"  -> [v |-> FMul(a.v, a.v), g |-> [q \in 1..Len(a.g) |-> FMul(FTwo, FMul(a.v, a.g[q]))]]
    [] t = "dx0" -> a.g[1]  [] t = "dx1" -> a.g[2]  [] t = "val" -> a.v  [] t = "gradD" -> a.g
    [] t = "norm" -> FFn("sqrt", FSum([q \in 1..Len(a) |-> FMul(a[q], a[q])]))
    [] t = "v0" -> a[1]  [] t = "v1" -> a[2]
    [] t = "det" -> ADet(a)  [] t = "tr" -> FSum([q \in 1..Len(a) |-> a[q][q]])  [] t = "m01" -> a[1][2]
    [] t = "T" -> [i \in 1..Len(a[1]) |-> [j \in 1..Len(a) |-> a[j][i]]]
    [] t = "inv" -> AInverse(a)

Binary(t, a, b) ==
  CASE t \in {"+", "-", "*", "/"} -> Op2(t, a, b)
    [] t = "+D" -> [v |-> FAdd(a.v, b.v), g |-> VecOp("+", a.g, b.g)]
    [] t = "-D" -> [v |-> FSub(a.v, b.v), g |-> VecOp("-", a.g, b.g)]
    [] t = "*D" -> [v |-> FMul(a.v, b.v), g |-> [q \in 1..Len(a.g) |-> FAdd(FMul(a.g[q], b.v), FMul(a.v, b.g[q]))]]
    [] t = "/D" -> [v |-> FDiv(a.v, b.v),
                    g |-> [q \in 1..Len(a.g) |-> FDiv(FSub(FMul(a.g[q], b.v), FMul(a.v, b.g[q])), FMul(b.v, b.v))]]
    [] t = "inner" -> FSum([q \in 1..Len(a) |-> FMul(a[q], b[q])])
    [] t = "v+" -> VecOp("+", a, b)  [] t = "v-" -> VecOp("-", a, b)
    [] t = "cross" -> <<FSub(FMul(a[2], b[3]), FMul(a[3], b[2])), FSub(FMul(a[3], b[1]), FMul(a[1], b[3])),
                        FSub(FMul(a[1], b[2]), FMul(a[2], b[1]))>>
    [] t = "sv*" -> [q \in 1..Len(b) |-> FMul(a, b[q])]
    [] t = "matvec" -> [r \in 1..Len(a) |-> FSum([c \in 1..Len(b) |-> FMul(a[r][c], b[c])])]
    [] t = "matmat" -> [r \in 1..Len(a) |-> [c \in 1..Len(b[1]) |-> FSum([m \in 1..Len(b) |-> FMul(a[r][m], b[m][c])])]]
    [] t = "m+" -> [r \in 1..Len(a) |-> VecOp("+", a[r], b[r])]
    [] t = "minner" -> FSum([q \in 1..(Len(a) * Len(a[1])) |->
                              LET r == ((q - 1) \div Len(a[1])) + 1  c == ((q - 1) % Len(a[1])) + 1 IN FMul(a[r][c], b[r][c])])
    [] t = "outer" -> [r \in 1..Len(a) |-> [c \in 1..Len(b) |-> FMul(a[r], b[c])]]

\* value of the expression denoted by the postfix program; lv = function from the leaf tokens to their values
AbsEval(tokens, lv) ==
  LET st == FoldLeft(LAMBDA stk, t :
                IF IsLeaf(t) THEN Append(stk, lv[t])
                ELSE IF IsUnary(t) THEN Append(SubSeq(stk, 1, Len(stk) - 1), Unary(t, stk[Len(stk)]))
                ELSE Append(SubSeq(stk, 1, Len(stk) - 2), Binary(t, stk[Len(stk) - 1], stk[Len(stk)])),
              <<>>, tokens)
  IN st[1]
=============================================================================
