---------------------------- MODULE GeoFuncCases ----------------------------
(* C07 -- enumeration of geometry cases.  One state per case:  a RECIPE (expression over constructors and operations,
   leaves = explicit control nets) is built by the control-net models of GeoFunc (layer (b)), checked against the
   declarative meaning of its top-level operation (layer (a), CaseOK) and emitted together with the exact values,
   Jacobians and Hessians on a tensor grid (Emit "CASE").  The driver rebuilds the recipe with the real constructors /
   operations and replays every evaluation route on the result.                                                    *)
EXTENDS GeoFunc, Emit

CONSTANTS Fam,        \* family of cases: "base" "unary" "binary" "ctor"
          Thorough,   \* BOOLEAN: larger pools
          NParts, Part, \* this run handles the cases with index = Part (mod NParts)
          Seed,       \* varies the coefficients
          Mut,        \* 0; negative controls: 1 = tensor_product with operands exchanged, 2 = boundary takes the opposite side
          MaxD        \* 2: Hessians everywhere possible; 1: fallback without Hessians (32-bit overflow of the exact arithmetic)

VARIABLE cid

-------------------------------------------------------------------------------
(* pools *)
KV(i) ==     \* [kv, den, p]
  CASE i = 1 -> [kv |-> <<0,0,2,2>>,             den |-> 1, p |-> 1]
    [] i = 2 -> [kv |-> <<0,0,0,1,3,3,3>>,       den |-> 1, p |-> 2]
    [] i = 3 -> [kv |-> <<0,0,1,2,2>>,           den |-> 1, p |-> 1]
    [] i = 4 -> [kv |-> <<0,0,0,2,2,3,3,3>>,     den |-> 1, p |-> 2]
    [] i = 5 -> [kv |-> <<1,1,1,3,3,3>>,         den |-> 2, p |-> 2]      \* [1/2, 3/2]
    [] i = 6 -> [kv |-> <<0,0,0,0,1,1,1,1>>,     den |-> 1, p |-> 3]
    [] i = 7 -> [kv |-> <<0,0,0,0,2,3,3,3,3>>,   den |-> 1, p |-> 3]
    [] i = 8 -> [kv |-> <<0,1,2>>,               den |-> 1, p |-> 0]
    [] i = 9 -> [kv |-> <<-1,-1,0,2,2>>,         den |-> 1, p |-> 1]      \* negative parameters

Hash(a, b, c) == ((a + 1) * (a + 3) * 5 + 11 * b + 3 * a + 7 * c * c + c + Seed) % 7
CoefInt(sd, I, c) == Hash(I, c, sd) - 3                                 \* -3..3
WeightQ(sd, I)    == Q((Hash(I, 5, sd + 2) % 4) + 1, 2)                 \* 1/2, 1, 3/2, 2

BaseObj(kind, sel, osh, sd) ==     \* sel: pool indices per axis
  LET D   == Len(sel)
      kvs == Tab(D, LAMBDA a : KV(sel[a]).kv)
      dns == Tab(D, LAMBDA a : KV(sel[a]).den)
      ps  == Tab(D, LAMBDA a : KV(sel[a]).p)
      n   == ShapeSize(Tab(D, LAMBDA a : NumDofs(kvs[a], ps[a])))
      P   == Tab(NComp(osh), LAMBDA c : Tab(n, LAMBDA I : R(CoefInt(sd, I, c))))
  IN IF kind = "bsp" THEN MkBsp(kvs, dns, ps, osh, P)
     ELSE MkNurbs(kvs, dns, ps, osh, P, Tab(n, LAMBDA I : WeightQ(sd, I)))

Leaf(kind, sel, osh, sd) == [op |-> "obj", obj |-> BaseObj(kind, sel, osh, sd)]

-------------------------------------------------------------------------------
-------------------------------------------------------------------------------
(* grids: per axis a subset of the sample points (breakpoints, quarter points, mid points) of the knot vector *)
AxisGrid(kv, den, mode, a) ==
  LET sp == IF mode \in {"h", "f"} THEN HalfPoints(kv) ELSE SamplePoints(kv)
      L  == Len(sp)
      S  == IF mode = "f" THEN {1, 2 + (a % (L - 2)), L}
            ELSE IF mode = "g" THEN {1, 2 + (a % 2), L - 1 - ((a + 1) % 2), L} \cup {m \in 1..L : (m % 4) = (a % 4)}
            ELSE 1..L
      ix == SortedSeq(S)
  IN Tab(Len(ix), LAMBDA j : Div(sp[ix[j]], R(den)))
GridFor(G, mode) == Tab(SDim(G), LAMBDA a : AxisGrid(G.kvs[a], G.dens[a], mode, a))

-------------------------------------------------------------------------------
(* (a) declarative meaning of the top-level operation, stated on sheets *)
\* derivative spline of a B-spline function w.r.t. axis ax (1-based): degree p-1, coefficients p (C_{i+1}-C_i)/(t_{i+p+1}-t_{i+1})
DiffObj(G, ax) ==
  LET kv  == G.kvs[ax]   p == G.ps[ax]   den == G.dens[ax]
      sh  == GShape(G)
      shd == [sh EXCEPT ![ax] = sh[ax] - 1]
      mid == MultiIndices(shd)
      co(row, I) == LET mi == mid[I]  i == mi[ax]
                        hi == row[FlatOf([mi EXCEPT ![ax] = i + 1], sh)]
                        lo == row[FlatOf(mi, sh)]
                    IN Mul(Sub(hi, lo), Q(p * den, Kn(kv, i + p + 1) - Kn(kv, i + 1)))
  IN [G EXCEPT !.kvs[ax] = SubSeq(kv, 2, Len(kv) - 1), !.ps[ax] = p - 1,
               !.C = Tab(Len(G.C), LAMBDA c : Tab(Len(mid), LAMBDA I : co(G.C[c], I)))]

BaseDecl(G, grid, S, md) ==
  LET D == SDim(G) IN
  IF IsNurbs(G)
  THEN \* the quotient is the function with G w = N; equal weights reduce a NURBS to the B-spline of its control points
       LET raw == RawSheet(G, grid)  nc == Len(G.C) IN
       /\ \A c \in 1..nc : \A J \in 1..S.npts : Mul(S.val[c][J], raw.d0[nc + 1][J]) = raw.d0[c][J]
       /\ \A J \in 1..S.npts : Sign(raw.d0[nc + 1][J]) = 1
       /\ LET U == MkNurbs(G.kvs, G.dens, G.ps, G.osh, Ctrl(G), Tab(GN(G), LAMBDA I : Q(3, 2)))
              B == MkBsp(G.kvs, G.dens, G.ps, G.osh, Ctrl(G))
              g1 == Tab(D, LAMBDA a : <<grid[a][(Len(grid[a]) + 1) \div 2]>>)
              SU == SheetD(U, g1, md)  SB == SheetD(B, g1, md)
          IN SU.val = SB.val /\ SU.jac = SB.jac /\ SU.hess = SB.hess
  ELSE \* Jacobian / Hessian = values of the derivative splines (difference coefficients, degree p - 1)
       /\ \A b \in 1..D : LET ax == D - b + 1 IN
            G.ps[ax] >= 1 =>
              LET dG == DiffObj(G, ax)  Sd == SheetD(dG, grid, 1) IN
              /\ Sd.val = S.jac[b]
              /\ md >= 2 => \A b2 \in 1..D : Sd.jac[b2] = S.hess[HessIndex(D, b, b2)]
       /\ \A b \in 1..D : G.ps[D - b + 1] = 0 => \A c \in 1..Len(G.C) : \A J \in 1..S.npts : IsZero(S.jac[b][c][J])

(* exact circle predicates that avoid squaring large numerators (32-bit integers): with s = tan(phi/2) = y/(r+x),
   (x, y) = r ((1-s^2)/(1+s^2), 2s/(1+s^2)) is the rational parametrisation of the circle of radius r *)
HalfTan(x, y, r) == Div(y, Add(r, x))
OnCircle(x, y, r) ==
  IF IsZero(Add(r, x)) THEN IsZero(y)
  ELSE LET s == HalfTan(x, y, r)  s2 == Mul(s, s)  den == Add(One, s2) IN
       /\ x = Div(Mul(r, Sub(One, s2)), den)
       /\ y = Div(Mul(R(2), Mul(r, s)), den)
AngleClass(p) == IF Sign(p[2]) = 1 \/ (Sign(p[2]) = 0 /\ Sign(p[1]) = 1) THEN 0 ELSE IF Sign(p[2]) = 0 THEN 1 ELSE 2
AngleLt(p, q, r) ==       \* polar angle of p < polar angle of q, angles in [0, 2 pi), both on the circle of radius r
  \/ AngleClass(p) < AngleClass(q)
  \/ /\ AngleClass(p) = AngleClass(q) /\ AngleClass(p) # 1
     /\ Lt(HalfTan(p[1], p[2], r), HalfTan(q[1], q[2], r))

AllZero(rows) == \A c \in 1..Len(rows) : \A J \in 1..Len(rows[c]) : IsZero(rows[c][J])

LinearDecl(S, Sa, nc, f(_, _, _)) ==     \* every derivative of the result = f(derivative rows of the operand, c, J)
  /\ \A b \in 1..Len(S.jac) : \A c \in 1..nc : \A J \in 1..S.npts : S.jac[b][c][J] = f(Sa.jac[b], c, J)
  /\ \A h \in 1..Len(S.hess) : \A c \in 1..nc : \A J \in 1..S.npts : S.hess[h][c][J] = f(Sa.hess[h], c, J)

Decl(r, G, grid, S, md) ==
  LET D == SDim(G)  nc == Len(G.C)  np == S.npts
      Sh(X, g) == SheetD(X, g, md) IN
  CASE r.op = "obj" -> BaseDecl(G, grid, S, md)
    [] r.op = "translate" ->
         LET Sa == Sh(Build(r.a), grid) IN
         /\ \A c \in 1..nc : \A J \in 1..np : S.val[c][J] = Add(Sa.val[c][J], ArgAt(r.arg, c))
         /\ S.jac = Sa.jac /\ S.hess = Sa.hess
    [] r.op = "scale" ->
         LET Sa == Sh(Build(r.a), grid)  f(rows, c, J) == Mul(rows[c][J], ArgAt(r.arg, c)) IN
         /\ \A c \in 1..nc : \A J \in 1..np : S.val[c][J] = f(Sa.val, c, J)
         /\ LinearDecl(S, Sa, nc, f)
    [] r.op \in {"matrix", "rotate"} ->
         LET Sa == Sh(Build(r.a), grid)
             A  == IF r.op = "matrix" THEN r.A ELSE RotMat(r.cs)
             f(rows, c, J) == FoldLeft(LAMBDA acc, k : Add(acc, Mul(A[c][k], rows[k][J])), Zero, Ints(Len(rows)))
         IN /\ nc = Len(A) /\ G.osh = <<Len(A)>>
            /\ \A c \in 1..nc : \A J \in 1..np : S.val[c][J] = f(Sa.val, c, J)
            /\ LinearDecl(S, Sa, nc, f)
            /\ r.op = "rotate" => IsCS(r.cs)
    [] r.op = "getint" ->
         LET Sa == Sh(Build(r.a), grid)  f(rows, c, J) == rows[r.i + 1][J] IN
         /\ G.osh = <<>> /\ S.val[1] = Sa.val[r.i + 1] /\ LinearDecl(S, Sa, 1, f)
    [] r.op = "getlist" ->
         LET Sa == Sh(Build(r.a), grid)  f(rows, c, J) == rows[r.is[c] + 1][J] IN
         /\ G.osh = <<Len(r.is)>> /\ \A c \in 1..nc : S.val[c] = Sa.val[r.is[c] + 1] /\ LinearDecl(S, Sa, nc, f)
    [] r.op \in {"asnurbs", "asvector", "copy"} ->
         LET Ga == Build(r.a)  Sa == Sh(Ga, grid) IN
         /\ S.val = Sa.val /\ S.jac = Sa.jac /\ S.hess = Sa.hess
         /\ r.op = "asnurbs" => IsNurbs(G) /\ G.osh = Ga.osh
         /\ r.op = "asvector" => G.osh = (IF Ga.osh = <<>> THEN <<1>> ELSE Ga.osh)
         /\ r.op = "copy" => G = Ga
    [] r.op = "boundary" ->       \* = the operand on the face: grid of the operand = grid with the end point inserted
         LET Ga  == Build(r.a)
             ax  == r.ax + 1
             Da  == SDim(Ga)
             sup == SupportOf(Ga)[ax]
             ga  == InsertAt(grid, ax, <<IF r.side = 0 THEN sup[1] ELSE sup[2]>>)
             Sa  == Sh(Ga, ga)
             bn  == Da - ax + 1                       \* the normal coordinate of the operand
             up(b) == IF b < bn THEN b ELSE b + 1     \* coordinate of the face -> coordinate of the operand
         IN /\ D = Da - 1 /\ G.osh = Ga.osh /\ G.kind = Ga.kind
            /\ S.val = Sa.val
            /\ \A b \in 1..D : S.jac[b] = Sa.jac[up(b)]
            /\ md >= 2 => \A b1 \in 1..D : \A b2 \in b1..D : S.hess[HessIndex(D, b1, b2)] = Sa.hess[HessIndex(Da, up(b1), up(b2))]
    [] r.op \in {"tp", "osum", "oprod", "cyl"} ->
         LET G1 == IF r.op = "cyl" THEN LineSegment(<<r.z0>>, <<r.z1>>, r.s0, r.s1, 1)
                   ELSE IF r.op = "tp" THEN AsVector(Build(r.a)) ELSE Build(r.a)
             G2 == IF r.op = "cyl" THEN AsVector(Build(r.a))
                   ELSE IF r.op = "tp" THEN AsVector(Build(r.b)) ELSE Build(r.b)
             D1 == SDim(G1)  D2 == SDim(G2)
             S1 == Sh(G1, SubSeq(grid, 1, D1))
             S2 == Sh(G2, SubSeq(grid, D1 + 1, D))
             n2 == S2.npts
             c1 == Len(G1.C)  c2 == Len(G2.C)
             \* coordinates 1..D2 belong to G2 (x part), D2+1..D to G1
             v1(c, J) == S1.val[IF c1 = 1 THEN 1 ELSE c][I1Of(J, n2)]
             v2(c, J) == S2.val[IF c2 = 1 THEN 1 ELSE c][I2Of(J, n2)]
             j1(b, c, J) == IF b <= D2 THEN Zero ELSE S1.jac[b - D2][IF c1 = 1 THEN 1 ELSE c][I1Of(J, n2)]
             j2(b, c, J) == IF b > D2 THEN Zero ELSE S2.jac[b][IF c2 = 1 THEN 1 ELSE c][I2Of(J, n2)]
         IN /\ D = D1 + D2 /\ np = S1.npts * n2
            /\ IsNurbs(G) = (IsNurbs(G1) \/ IsNurbs(G2))
            /\ IF r.op \in {"tp", "cyl"}
               THEN /\ G.osh = <<c1 + c2>>
                    /\ \A c \in 1..nc : \A J \in 1..np :
                         /\ S.val[c][J] = (IF c <= c2 THEN S2.val[c][I2Of(J, n2)] ELSE S1.val[c - c2][I1Of(J, n2)])
                         /\ \A b \in 1..D : S.jac[b][c][J] =
                              (IF c <= c2 THEN (IF b <= D2 THEN S2.jac[b][c][I2Of(J, n2)] ELSE Zero)
                               ELSE (IF b > D2 THEN S1.jac[b - D2][c - c2][I1Of(J, n2)] ELSE Zero))
               ELSE IF r.op = "osum"
               THEN \A c \in 1..nc : \A J \in 1..np :
                         /\ S.val[c][J] = Add(v1(c, J), v2(c, J))
                         /\ \A b \in 1..D : S.jac[b][c][J] = Add(j1(b, c, J), j2(b, c, J))
               ELSE \A c \in 1..nc : \A J \in 1..np :
                         /\ S.val[c][J] = Mul(v1(c, J), v2(c, J))
                         /\ \A b \in 1..D : S.jac[b][c][J] = Add(Mul(j1(b, c, J), v2(c, J)), Mul(v1(c, J), j2(b, c, J)))
    [] r.op = "line" ->           \* x0 + (t - s0)/(s1 - s0) (x1 - x0)
         /\ D = 1 /\ ~IsNurbs(G) /\ G.osh = <<Len(r.x0)>> /\ SupportOf(G) = << <<r.s0, r.s1>> >>
         /\ NumSpans(G.kvs[1]) = r.n /\ G.ps = <<1>>
         /\ \A c \in 1..nc : \A J \in 1..np :
              LET t == grid[1][J]  sl == Div(Sub(r.x1[c], r.x0[c]), Sub(r.s1, r.s0)) IN
              /\ S.val[c][J] = Add(r.x0[c], Mul(Sub(t, r.s0), sl))
              /\ S.jac[1][c][J] = sl /\ (md >= 2 => IsZero(S.hess[1][c][J]))
    [] r.op \in {"unitcube", "identity"} ->      \* the identity map of the box; all second derivatives vanish
         /\ ~IsNurbs(G) /\ G.osh = <<D>> /\ \A a \in 1..D : G.ps[a] = 1
         /\ r.op = "unitcube" => D = r.dim /\ \A a \in 1..D : NumSpans(G.kvs[a]) = r.n /\ SupportOf(G)[a] = <<Zero, One>>
         /\ r.op = "identity" => D = Len(r.ext) /\ SupportOf(G) = r.ext
         /\ \A J \in 1..np : LET X == GridPoint(grid, J) IN
              \A c \in 1..D : /\ S.val[c][J] = X[c]
                              /\ \A b \in 1..D : S.jac[b][c][J] = (IF b = c THEN One ELSE Zero)
         /\ \A h \in 1..Len(S.hess) : AllZero(S.hess[h])
    [] r.op = "arc" ->            \* on the circle of radius r; knots and span mid points at the angles k theta; ccw
         LET m == r.m
             P(J) == <<S.val[1][J], S.val[2][J]>>
         IN /\ IsCS(r.cs) /\ Sign(r.cs[1]) = 1 /\ Sign(r.cs[2]) = 1 /\ D = 1
            /\ SupportOf(G) = << <<Zero, One>> >>
            /\ \A J \in 1..np : OnCircle(P(J)[1], P(J)[2], r.r)                                 \* x^2 + y^2 = r^2
            /\ \A J \in 1..np :                                   \* tangent orthogonal to the radius
                 LET dx == S.jac[1][1][J]  dy == S.jac[1][2][J] IN      \* x x' + y y' = 0 without large products
                 IF IsZero(dy) THEN IsZero(P(J)[1]) \/ IsZero(dx)
                 ELSE IF IsZero(P(J)[1]) THEN IsZero(P(J)[2])
                 ELSE Div(dx, dy) = Neg(Div(P(J)[2], P(J)[1]))
            /\ \A J \in 1..np : \A k \in 0..(2 * m) :             \* t = k/(2m)  |->  angle k theta
                 grid[1][J] = Q(k, 2 * m) =>
                    LET a == MultCS(r.cs, k) IN P(J) = <<Mul(r.r, a[1]), Mul(r.r, a[2])>>
            /\ \E J \in 1..np : grid[1][J] = Zero
            /\ \E J \in 1..np : grid[1][J] = One
            /\ \A J \in 1..(np - 1) : AngleLt(P(J), P(J + 1), r.r)        \* the angle increases strictly within [0, 2 pi)

-------------------------------------------------------------------------------
(* case tables *)
Kinds == <<"bsp", "nurbs">>
SeqProd2(A, B) == FlattenSeq(Tab(Len(A), LAMBDA i : Tab(Len(B), LAMBDA j : <<A[i], B[j]>>)))

BaseSels == IF Thorough
            THEN << <<2>>, <<4>>, <<1>>, <<3>>, <<5>>, <<6>>, <<7>>, <<8>>, <<9>>,
                    <<3,2>>, <<5,1>>, <<2,4>>, <<1,7>>, <<9,5>>, <<8,2>>,
                    <<1,5,3>>, <<3,2,1>>, <<5,1,4>> >>
            ELSE << <<2>>, <<4>>, <<3,2>>, <<5,1>>, <<1,5,3>> >>
BaseOshs == << <<>>, <<1>>, <<2>>, <<3>>, <<2,2>>, <<2,3>> >>
GridModeFor(D) == IF D = 1 THEN "q" ELSE IF D = 2 THEN "g" ELSE "f"

BaseCases ==
  LET combos == SeqProd2(BaseSels, SeqProd2(BaseOshs, Kinds))
      ok(x)  == x[2][2] = "bsp" \/ Len(x[2][1]) <= 1
      sel    == SelectSeq(combos, ok)
  IN Tab(Len(sel), LAMBDA i : [recipe |-> Leaf(sel[i][2][2], sel[i][1], sel[i][2][1], i), gm |-> "x"])

(* unary operations on an operand space `sel`; sd varies the coefficients *)
Half == Q(1, 2)
UnaryFor(kind, sel, sd) ==
  LET s  == Leaf(kind, sel, <<>>, sd)
      v1 == Leaf(kind, sel, <<1>>, sd + 3)
      v2 == Leaf(kind, sel, <<2>>, sd + 1)
      v3 == Leaf(kind, sel, <<3>>, sd + 2)
      mm == Leaf("bsp", sel, <<2,2>>, sd + 4)
      D  == Len(sel)
      bds(x) == FlattenSeq(Tab(D, LAMBDA a : << [op |-> "boundary", a |-> x, ax |-> a - 1, side |-> 0, byname |-> (a % 2 = 0)],
                                                [op |-> "boundary", a |-> x, ax |-> a - 1, side |-> 1, byname |-> (a % 2 = 1)] >>))
  IN << [op |-> "translate", a |-> s,  arg |-> <<Q(3, 2)>>, sc |-> TRUE],
        [op |-> "translate", a |-> v2, arg |-> <<R(-2)>>, sc |-> TRUE],
        [op |-> "translate", a |-> v2, arg |-> <<Half, R(-3)>>, sc |-> FALSE],
        [op |-> "translate", a |-> v3, arg |-> <<One, R(2), Q(-1, 3)>>, sc |-> FALSE],
        [op |-> "scale",     a |-> s,  arg |-> <<R(-2)>>, sc |-> TRUE],
        [op |-> "scale",     a |-> v2, arg |-> <<Q(3, 2)>>, sc |-> TRUE],
        [op |-> "scale",     a |-> v2, arg |-> <<R(2), Q(-1, 2)>>, sc |-> FALSE],
        [op |-> "scale",     a |-> v3, arg |-> <<R(-1), Half, R(3)>>, sc |-> FALSE],
        [op |-> "matrix",    a |-> v2, A |-> << <<One, R(2)>>, <<R(-1), Half>> >>],
        [op |-> "matrix",    a |-> v2, A |-> << <<One, Zero>>, <<R(2), One>>, <<R(-1), R(3)>> >>],
        [op |-> "matrix",    a |-> v3, A |-> << <<One, R(-2), Zero>>, <<Half, One, R(2)>> >>],
        [op |-> "rotate",    a |-> v2, cs |-> <<Q(3, 5), Q(4, 5)>>],
        [op |-> "rotate",    a |-> v2, cs |-> <<Zero, One>>],
        [op |-> "rotate",    a |-> v2, cs |-> <<Q(-4, 5), Q(-3, 5)>>],
        [op |-> "getint",    a |-> v2, i |-> 0],
        [op |-> "getint",    a |-> v2, i |-> 1],
        [op |-> "getint",    a |-> v3, i |-> 2],
        [op |-> "getlist",   a |-> v3, is |-> <<0, 1>>],
        [op |-> "getlist",   a |-> v3, is |-> <<2, 0>>],
        [op |-> "getlist",   a |-> v3, is |-> <<1>>],
        [op |-> "getlist",   a |-> v3, is |-> <<0, 1, 2>>],       \* written G[:] / G[-3:] by the driver
        [op |-> "getlist",   a |-> v3, is |-> <<1, 2>>],          \* G[1:] / G[-2:]
        [op |-> "getlist",   a |-> v3, is |-> <<2, 1, 0>>],       \* G[::-1]
        [op |-> "getlist",   a |-> v2, is |-> <<0, 1>>],
        [op |-> "getlist",   a |-> v2, is |-> <<1, 0>>],
        [op |-> "asnurbs",   a |-> s],
        [op |-> "asnurbs",   a |-> v2],
        [op |-> "asvector",  a |-> s],
        [op |-> "asvector",  a |-> v2],
        [op |-> "asvector",  a |-> v1],
        [op |-> "copy",      a |-> s],
        [op |-> "copy",      a |-> v3] >>
     \o bds(s) \o bds(v2)
     \o (IF kind = "bsp"
         THEN << [op |-> "translate", a |-> mm, arg |-> <<R(2)>>, sc |-> TRUE],
                 [op |-> "translate", a |-> mm, arg |-> <<One, R(-1)>>, sc |-> FALSE],
                 [op |-> "scale",     a |-> mm, arg |-> <<R(2), Q(1, 3)>>, sc |-> FALSE],
                 [op |-> "copy",      a |-> mm],
                 [op |-> "asnurbs",   a |-> v1] >>
         ELSE <<>>)

UnarySels == IF Thorough THEN << <<2>>, <<4>>, <<7>>, <<3,2>>, <<5,1>>, <<9,4>>, <<1,5,3>> >> ELSE << <<2>>, <<3,2>> >>
UnaryCases ==
  LET ks  == SeqProd2(UnarySels, Kinds)
      all == FlattenSeq(Tab(Len(ks), LAMBDA i : UnaryFor(ks[i][2], ks[i][1], 10 * i)))
      extra3 == \* a few operations on a 3-D operand also in the quick tier
        IF Thorough THEN <<>> ELSE
        LET v == Leaf("nurbs", <<1,5,3>>, <<3>>, 77)  b == Leaf("bsp", <<1,5,3>>, <<2>>, 78) IN
        << [op |-> "translate", a |-> v, arg |-> <<One, R(-2), R(3)>>, sc |-> FALSE],
           [op |-> "matrix", a |-> v, A |-> << <<Zero, One, Zero>>, <<Zero, Zero, R(2)>>, <<R(-1), Zero, One>> >>],
           [op |-> "boundary", a |-> v, ax |-> 0, side |-> 1, byname |-> TRUE],
           [op |-> "boundary", a |-> v, ax |-> 1, side |-> 0, byname |-> FALSE],
           [op |-> "boundary", a |-> b, ax |-> 2, side |-> 1, byname |-> TRUE],
           [op |-> "rotate", a |-> b, cs |-> <<Q(4, 5), Q(-3, 5)>>] >>
      rs == all \o extra3
  IN Tab(Len(rs), LAMBDA i : [recipe |-> rs[i], gm |-> "x"])

(* binary operations: G1 on the slow axes (y / z), G2 on the fast axes (x) *)
BinaryFor(sel1, sel2, k1, k2, sd, full) ==
  LET L(k, sel, osh, d) == Leaf(k, sel, osh, sd + d)
      s1 == L(k1, sel1, <<>>, 0)   s2 == L(k2, sel2, <<>>, 1)
      v1 == L(k1, sel1, <<2>>, 2)  v2 == L(k2, sel2, <<2>>, 3)
      w1 == L(k1, sel1, <<1>>, 4)  w2 == L(k2, sel2, <<3>>, 5)
      pairs == IF full THEN << <<s1, s2>>, <<v1, v2>>, <<s1, v2>>, <<v1, s2>>, <<w1, v2>> >> ELSE << <<s1, s2>>, <<v1, v2>> >>
      tps   == IF full THEN << <<s1, s2>>, <<v1, v2>>, <<s1, v2>>, <<v1, s2>>, <<w1, w2>> >> ELSE << <<v1, s2>> >>
  IN FlattenSeq(Tab(Len(pairs), LAMBDA i : << [op |-> "osum", a |-> pairs[i][1], b |-> pairs[i][2]],
                                              [op |-> "oprod", a |-> pairs[i][1], b |-> pairs[i][2]] >>))
     \o Tab(Len(tps), LAMBDA i : [op |-> "tp", a |-> tps[i][1], b |-> tps[i][2]])

CylFor(kind, sel, sd) ==
  << [op |-> "cyl", a |-> Leaf(kind, sel, <<2>>, sd), z0 |-> Zero, z1 |-> One, s0 |-> Zero, s1 |-> One, defaults |-> TRUE],
     [op |-> "cyl", a |-> Leaf(kind, sel, <<2>>, sd + 1), z0 |-> R(-1), z1 |-> Q(3, 2), s0 |-> R(1), s1 |-> R(3), defaults |-> FALSE],
     [op |-> "cyl", a |-> Leaf(kind, sel, <<>>, sd + 2), z0 |-> R(2), z1 |-> Half, s0 |-> Q(-1, 2), s1 |-> R(1), defaults |-> FALSE] >>

KindPairs == SeqProd2(Kinds, Kinds)
BinaryCases ==
  LET sp2 == IF Thorough THEN << <<<<2>>, <<3>>>>, <<<<4>>, <<5>>>>, <<<<7>>, <<1>>>> >> ELSE << <<<<2>>, <<3>>>> >>
      sp3 == IF Thorough THEN << <<<<1>>, <<3,2>>>>, <<<<3,2>>, <<1>>>>, <<<<5>>, <<1,3>>>> >> ELSE << <<<<1>>, <<3,5>>>>, <<<<3,5>>, <<1>>>> >>
      c2 == FlattenSeq(Tab(Len(sp2), LAMBDA i : FlattenSeq(Tab(4, LAMBDA k :
               BinaryFor(sp2[i][1], sp2[i][2], KindPairs[k][1], KindPairs[k][2], 20 * i + 5 * k, TRUE)))))
      c3 == FlattenSeq(Tab(Len(sp3), LAMBDA i : FlattenSeq(Tab(4, LAMBDA k :
               BinaryFor(sp3[i][1], sp3[i][2], KindPairs[k][1], KindPairs[k][2], 30 * i + 7 * k, Thorough /\ k = 2)))))
      cy == CylFor("bsp", <<2>>, 40) \o CylFor("bsp", <<3,5>>, 50)      \* only BSplineFunc offers cylinderize()
      rs == c2 \o c3 \o cy
  IN Tab(Len(rs), LAMBDA i : [recipe |-> rs[i], gm |-> "x"])

(* constructors *)
PythCS == << <<Q(3, 5), Q(4, 5)>>, <<Q(4, 5), Q(3, 5)>> >> \o (IF Thorough THEN << <<Q(12, 13), Q(5, 13)>>, <<Q(15, 17), Q(8, 17)>> >> ELSE <<>>)
CtorCases ==
  LET lines ==
        << [op |-> "line", x0 |-> <<Zero>>, x1 |-> <<One>>, s0 |-> Zero, s1 |-> One, n |-> 1, sc |-> TRUE, defsup |-> TRUE],
           [op |-> "line", x0 |-> <<R(2)>>, x1 |-> <<R(-1)>>, s0 |-> R(2), s1 |-> R(4), n |-> 2, sc |-> TRUE, defsup |-> FALSE],
           [op |-> "line", x0 |-> <<One, Zero>>, x1 |-> <<R(3), One>>, s0 |-> Zero, s1 |-> One, n |-> 1, sc |-> FALSE, defsup |-> TRUE],
           [op |-> "line", x0 |-> <<One, R(-2)>>, x1 |-> <<Half, R(2)>>, s0 |-> R(-1), s1 |-> Half, n |-> 3, sc |-> FALSE, defsup |-> FALSE],
           [op |-> "line", x0 |-> <<Zero, One, R(2)>>, x1 |-> <<R(3), R(3), R(-3)>>, s0 |-> One, s1 |-> R(3), n |-> 2, sc |-> FALSE, defsup |-> FALSE],
           [op |-> "line", x0 |-> <<Q(1, 3)>>, x1 |-> <<Q(5, 2)>>, s0 |-> Zero, s1 |-> One, n |-> 4, sc |-> FALSE, defsup |-> TRUE] >>
      cubes == FlattenSeq(Tab(3, LAMBDA d : Tab(IF Thorough THEN 3 ELSE 2, LAMBDA n :
                   [op |-> "unitcube", dim |-> d, n |-> n, square |-> FALSE])))
               \o << [op |-> "unitcube", dim |-> 2, n |-> 1, square |-> TRUE], [op |-> "unitcube", dim |-> 2, n |-> 3, square |-> TRUE] >>
      ids == << [op |-> "identity", ext |-> << <<One, R(2)>> >>, askv |-> FALSE],
                [op |-> "identity", ext |-> << <<Zero, R(2)>>, <<R(-1), One>> >>, askv |-> FALSE],
                [op |-> "identity", ext |-> << <<Half, R(2)>>, <<R(3), R(5)>> >>, askv |-> TRUE],
                [op |-> "identity", ext |-> << <<Zero, One>>, <<One, R(3)>>, <<R(2), Q(5, 2)>> >>, askv |-> FALSE],
                [op |-> "identity", ext |-> << <<R(-2), R(-1)>>, <<Zero, R(3)>>, <<One, R(2)>> >>, askv |-> TRUE] >>
      radii == << One, R(2), Q(3, 2) >>
      arcs == FlattenSeq(Tab(3, LAMBDA m : FlattenSeq(Tab(IF m = 3 THEN 2 ELSE Len(PythCS), LAMBDA k : Tab(Len(radii), LAMBDA q :
                   [op |-> "arc", m |-> m, cs |-> PythCS[k], r |-> radii[q], auto |-> (m # 2 /\ q = 2)])))))
      rs == lines \o cubes \o ids \o arcs
  IN Tab(Len(rs), LAMBDA i : [recipe |-> rs[i], gm |-> "x", md |-> IF rs[i].op = "arc" /\ (rs[i].m = 3 \/ (rs[i].m = 2 /\ rs[i].cs[1][2] > 5)) THEN 1 ELSE 2])

Cases == CASE Fam = "base"   -> BaseCases
           [] Fam = "unary"  -> UnaryCases
           [] Fam = "binary" -> BinaryCases
           [] Fam = "ctor"   -> CtorCases

-------------------------------------------------------------------------------
Init == cid = 0
Next == cid = 0 /\ cid' \in {i \in 1..Len(Cases) : (i % NParts) = Part}
Spec == Init /\ [][Next]_cid

ResDesc(G) == [kind |-> G.kind, sdim |-> SDim(G), osh |-> G.osh, kvs |-> G.kvs, dens |-> G.dens, ps |-> G.ps,
               support |-> SupportOf(G)]

MutBuild(r) ==      \* wrong control-net models (negative controls: CaseOK must reject them)
  IF Mut = 1 /\ r.op = "tp" THEN TensorProduct(AsVector(Build(r.b)), AsVector(Build(r.a)))
  ELSE IF Mut = 2 /\ r.op = "boundary" THEN Boundary(Build(r.a), r.ax, 1 - r.side)
  ELSE Build(r)

CaseOK ==
  cid # 0 =>
  LET cs   == Cases[cid]
      G    == IF Mut = 0 THEN Build(cs.recipe) ELSE MutBuild(cs.recipe)
      grid == GridFor(G, IF cs.gm # "x" THEN cs.gm
                             ELSE IF IsNurbs(G) /\ (SDim(G) = 2 \/ \E a \in 1..SDim(G) : G.ps[a] >= 3) THEN "h"   \* (32-bit rationals)
                             ELSE GridModeFor(SDim(G)))
      md   == IF ("md" \in DOMAIN cs /\ cs.md = 1) \/ (Fam # "base" /\ SDim(G) = 3 /\ IsNurbs(G)) THEN 1 ELSE MaxD
      S    == SheetD(G, grid, md)
  IN /\ WellFormed(G)
     /\ Decl(cs.recipe, G, grid, S, md)
     /\ Emit("CASE", [id |-> cid, fam |-> Fam, recipe |-> cs.recipe, res |-> ResDesc(G), grid |-> grid,
                      val |-> S.val, jac |-> S.jac, hess |-> S.hess])
NCases == Len(Cases)
===============================================================================
