---------------------------- MODULE GeoFuncCases ----------------------------
(* C07 -- enumeration of geometry cases.  One state per case:  a RECIPE (expression over constructors and operations,
   leaves = explicit control nets) is built by the control-net models of GeoFunc (layer (b)), checked against the
   declarative meaning of its top-level operation (layer (a), CaseOK) and emitted together with the exact values,
   Jacobians and Hessians on a tensor grid (Emit "CASE").  The driver rebuilds the recipe with the real constructors /
   operations and replays every evaluation route on the result.                                                    *)
EXTENDS GeoFunc, Emit

CONSTANTS Fam,        \* family of cases: "base" "unary" "binary" "ctor"
          Thorough,   \* BOOLEAN: larger pools
          NParts, Part, \* this run handles the cases with index = Part (mod NParts)
          Seed        \* varies the coefficients

VARIABLE cid

-------------------------------------------------------------------------------
(* pools *)
KV(i) ==     \* [kv, den, p]
  CASE i = 1 -> [kv |-> <<0,0,2,2>>,             den |-> 1, p |-> 1]
    [] i = 2 -> [kv |-> <<0,0,0,1,3,3,3>>,       den |-> 1, p |-> 2]
    [] i = 3 -> [kv |-> <<0,0,1,2,2>>,           den |-> 1, p |-> 1]
    [] i = 4 -> [kv |-> <<0,0,0,2,2,3,3,3>>,     den |-> 1, p |-> 2]
    [] i = 5 -> [kv |-> <<1,1,1,3,3,3>>,         den |-> 2, p |-> 2]      \* [1/2, 3/2]
    [] i = 6 -> [kv |-> <<0,0,0,0,1,1,1,1>>,     den |-> 1, p |-> 3]
    [] i = 7 -> [kv |-> <<0,0,0,0,2,3,3,3,3>>,   den |-> 1, p |-> 3]
    [] i = 8 -> [kv |-> <<0,1,2>>,               den |-> 1, p |-> 0]
    [] i = 9 -> [kv |-> <<-1,-1,0,2,2>>,         den |-> 1, p |-> 1]      \* negative parameters

Hash(a, b, c) == ((a + 1) * (a + 3) * 5 + 11 * b + 3 * a + 7 * c * c + c + Seed) % 7
CoefInt(sd, I, c) == Hash(I, c, sd) - 3                                 \* -3..3
WeightQ(sd, I)    == Q((Hash(I, 5, sd + 2) % 4) + 1, 2)                 \* 1/2, 1, 3/2, 2

BaseObj(kind, sel, osh, sd) ==     \* sel: pool indices per axis
  LET D   == Len(sel)
      kvs == Tab(D, LAMBDA a : KV(sel[a]).kv)
      dns == Tab(D, LAMBDA a : KV(sel[a]).den)
      ps  == Tab(D, LAMBDA a : KV(sel[a]).p)
      n   == ShapeSize(Tab(D, LAMBDA a : NumDofs(kvs[a], ps[a])))
      P   == Tab(NComp(osh), LAMBDA c : Tab(n, LAMBDA I : R(CoefInt(sd, I, c))))
  IN IF kind = "bsp" THEN MkBsp(kvs, dns, ps, osh, P)
     ELSE MkNurbs(kvs, dns, ps, osh, P, Tab(n, LAMBDA I : WeightQ(sd, I)))

Leaf(kind, sel, osh, sd) == [op |-> "obj", obj |-> BaseObj(kind, sel, osh, sd)]

-------------------------------------------------------------------------------
(* recipes *)
ArgAt(arg, c) == IF Len(arg) = 1 THEN arg[1] ELSE arg[((c - 1) % Len(arg)) + 1]     \* numpy broadcasting (last axis)
ArgVec(arg, nc) == Tab(nc, LAMBDA c : ArgAt(arg, c))

RECURSIVE Build(_)
Build(r) ==
  CASE r.op = "obj"       -> r.obj
    [] r.op = "translate" -> LET G == Build(r.a) IN Translate(G, ArgVec(r.arg, Len(G.C)))
    [] r.op = "scale"     -> LET G == Build(r.a) IN Scale(G, ArgVec(r.arg, Len(G.C)))
    [] r.op = "matrix"    -> ApplyMatrix(Build(r.a), r.A)
    [] r.op = "rotate"    -> Rotate2D(Build(r.a), r.cs)
    [] r.op = "getint"    -> GetItemInt(Build(r.a), r.i)
    [] r.op = "getlist"   -> GetItemList(Build(r.a), r.is)
    [] r.op = "asnurbs"   -> AsNurbs(Build(r.a))
    [] r.op = "asvector"  -> AsVector(Build(r.a))
    [] r.op = "copy"      -> CopyOf(Build(r.a))
    [] r.op = "boundary"  -> Boundary(Build(r.a), r.ax, r.side)
    [] r.op = "tp"        -> TensorProduct(AsVector(Build(r.a)), AsVector(Build(r.b)))
    [] r.op = "osum"      -> OuterSum(Build(r.a), Build(r.b))
    [] r.op = "oprod"     -> OuterProduct(Build(r.a), Build(r.b))
    [] r.op = "cyl"       -> Cylinderize(AsVector(Build(r.a)), r.z0, r.z1, r.s0, r.s1)
    [] r.op = "line"      -> LET L == LineSegment(r.x0, r.x1, r.s0, r.s1, r.n) IN L
    [] r.op = "unitcube"  -> UnitCube(r.dim, r.n)
    [] r.op = "identity"  -> Identity(r.ext)
    [] r.op = "arc"       -> Arc(r.m, r.cs, r.r)

-------------------------------------------------------------------------------
(* grids: per axis a subset of the sample points (breakpoints, quarter points, mid points) of the knot vector *)
AxisGrid(kv, den, mode, a) ==
  LET sp == IF mode = "h" THEN HalfPoints(kv) ELSE SamplePoints(kv)
      L  == Len(sp)
      S  == IF mode = "f" THEN {1, 2 + ((2 * a + 1) % (L - 2)), L}
            ELSE IF mode = "g" THEN {1, 2 + (a % 2), L - 1 - ((a + 1) % 2), L} \cup {m \in 1..L : (m % 4) = (a % 4)}
            ELSE 1..L
      ix == SortedSeq(S)
  IN Tab(Len(ix), LAMBDA j : Div(sp[ix[j]], R(den)))
GridFor(G, mode) == Tab(SDim(G), LAMBDA a : AxisGrid(G.kvs[a], G.dens[a], mode, a))

ZeroSheetOK(S) == TRUE
SeqAll(s, P(_)) == \A i \in 1..Len(s) : P(s[i])

-------------------------------------------------------------------------------
(* (a) declarative meaning of the top-level operation, stated on sheets *)
SameVals(X, Y) == X = Y

\* derivative spline of a B-spline function w.r.t. axis ax (1-based): degree p-1, coefficients p (C_{i+1}-C_i)/(t_{i+p+1}-t_{i+1})
DiffObj(G, ax) ==
  LET kv  == G.kvs[ax]   p == G.ps[ax]   den == G.dens[ax]
      sh  == GShape(G)
      shd == [sh EXCEPT ![ax] = sh[ax] - 1]
      mid == MultiIndices(shd)
      co(row, I) == LET mi == mid[I]  i == mi[ax]
                        hi == row[FlatOf([mi EXCEPT ![ax] = i + 1], sh)]
                        lo == row[FlatOf(mi, sh)]
                    IN Mul(Sub(hi, lo), Q(p * den, Kn(kv, i + p + 1) - Kn(kv, i + 1)))
  IN [G EXCEPT !.kvs[ax] = SubSeq(kv, 2, Len(kv) - 1), !.ps[ax] = p - 1,
               !.C = Tab(Len(G.C), LAMBDA c : Tab(Len(mid), LAMBDA I : co(G.C[c], I)))]

BaseDecl(G, grid, S) ==
  LET D == SDim(G) IN
  IF IsNurbs(G)
  THEN \* the quotient is the function with G w = N; equal weights reduce a NURBS to the B-spline of its control points
       LET raw == RawSheet(G, grid)  nc == Len(G.C) IN
       /\ \A c \in 1..nc : \A J \in 1..S.npts : Mul(S.val[c][J], raw.d0[nc + 1][J]) = raw.d0[c][J]
       /\ \A J \in 1..S.npts : Sign(raw.d0[nc + 1][J]) = 1
       /\ LET U == MkNurbs(G.kvs, G.dens, G.ps, G.osh, Ctrl(G), Tab(GN(G), LAMBDA I : Q(3, 2)))
              B == MkBsp(G.kvs, G.dens, G.ps, G.osh, Ctrl(G))
              g1 == Tab(D, LAMBDA a : <<grid[a][(Len(grid[a]) + 1) \div 2]>>)
              SU == Sheet(U, g1)  SB == Sheet(B, g1)
          IN SU.val = SB.val /\ SU.jac = SB.jac /\ SU.hess = SB.hess
  ELSE \* Jacobian / Hessian = values of the derivative splines (difference coefficients, degree p - 1)
       /\ \A b \in 1..D : LET ax == D - b + 1 IN
            G.ps[ax] >= 1 =>
              LET dG == DiffObj(G, ax)  Sd == Sheet(dG, grid) IN
              /\ Sd.val = S.jac[b]
              /\ \A b2 \in 1..D : Sd.jac[b2] = S.hess[HessIndex(D, b, b2)]
       /\ \A b \in 1..D : G.ps[D - b + 1] = 0 => \A c \in 1..Len(G.C) : \A J \in 1..S.npts : IsZero(S.jac[b][c][J])

AllZero(rows) == \A c \in 1..Len(rows) : \A J \in 1..Len(rows[c]) : IsZero(rows[c][J])

LinearDecl(S, Sa, nc, f(_, _, _)) ==     \* every derivative of the result = f(derivative rows of the operand, c, J)
  /\ \A b \in 1..Len(S.jac) : \A c \in 1..nc : \A J \in 1..S.npts : S.jac[b][c][J] = f(Sa.jac[b], c, J)
  /\ \A h \in 1..Len(S.hess) : \A c \in 1..nc : \A J \in 1..S.npts : S.hess[h][c][J] = f(Sa.hess[h], c, J)

Decl(r, G, grid, S) ==
  LET D == SDim(G)  nc == Len(G.C)  np == S.npts IN
  CASE r.op = "obj" -> BaseDecl(G, grid, S)
    [] r.op = "translate" ->
         LET Sa == Sheet(Build(r.a), grid) IN
         /\ \A c \in 1..nc : \A J \in 1..np : S.val[c][J] = Add(Sa.val[c][J], ArgAt(r.arg, c))
         /\ S.jac = Sa.jac /\ S.hess = Sa.hess
    [] r.op = "scale" ->
         LET Sa == Sheet(Build(r.a), grid)  f(rows, c, J) == Mul(rows[c][J], ArgAt(r.arg, c)) IN
         /\ \A c \in 1..nc : \A J \in 1..np : S.val[c][J] = f(Sa.val, c, J)
         /\ LinearDecl(S, Sa, nc, f)
    [] r.op \in {"matrix", "rotate"} ->
         LET Sa == Sheet(Build(r.a), grid)
             A  == IF r.op = "matrix" THEN r.A ELSE RotMat(r.cs)
             f(rows, c, J) == FoldLeft(LAMBDA acc, k : Add(acc, Mul(A[c][k], rows[k][J])), Zero, Ints(Len(rows)))
         IN /\ nc = Len(A) /\ G.osh = <<Len(A)>>
            /\ \A c \in 1..nc : \A J \in 1..np : S.val[c][J] = f(Sa.val, c, J)
            /\ LinearDecl(S, Sa, nc, f)
            /\ r.op = "rotate" => IsCS(r.cs)
    [] r.op = "getint" ->
         LET Sa == Sheet(Build(r.a), grid)  f(rows, c, J) == rows[r.i + 1][J] IN
         /\ G.osh = <<>> /\ S.val[1] = Sa.val[r.i + 1] /\ LinearDecl(S, Sa, 1, f)
    [] r.op = "getlist" ->
         LET Sa == Sheet(Build(r.a), grid)  f(rows, c, J) == rows[r.is[c] + 1][J] IN
         /\ G.osh = <<Len(r.is)>> /\ \A c \in 1..nc : S.val[c] = Sa.val[r.is[c] + 1] /\ LinearDecl(S, Sa, nc, f)
    [] r.op \in {"asnurbs", "asvector", "copy"} ->
         LET Ga == Build(r.a)  Sa == Sheet(Ga, grid) IN
         /\ S.val = Sa.val /\ S.jac = Sa.jac /\ S.hess = Sa.hess
         /\ r.op = "asnurbs" => IsNurbs(G) /\ G.osh = Ga.osh
         /\ r.op = "asvector" => G.osh = (IF Ga.osh = <<>> THEN <<1>> ELSE Ga.osh)
         /\ r.op = "copy" => G = Ga
    [] r.op = "boundary" ->       \* = the operand on the face: grid of the operand = grid with the end point inserted
         LET Ga  == Build(r.a)
             ax  == r.ax + 1
             Da  == SDim(Ga)
             sup == SupportOf(Ga)[ax]
             ga  == InsertAt(grid, ax, <<IF r.side = 0 THEN sup[1] ELSE sup[2]>>)
             Sa  == Sheet(Ga, ga)
             bn  == Da - ax + 1                       \* the normal coordinate of the operand
             up(b) == IF b < bn THEN b ELSE b + 1     \* coordinate of the face -> coordinate of the operand
         IN /\ D = Da - 1 /\ G.osh = Ga.osh /\ G.kind = Ga.kind
            /\ S.val = Sa.val
            /\ \A b \in 1..D : S.jac[b] = Sa.jac[up(b)]
            /\ \A b1 \in 1..D : \A b2 \in b1..D : S.hess[HessIndex(D, b1, b2)] = Sa.hess[HessIndex(Da, up(b1), up(b2))]
    [] r.op \in {"tp", "osum", "oprod", "cyl"} ->
         LET G1 == IF r.op = "cyl" THEN LineSegment(<<r.z0>>, <<r.z1>>, r.s0, r.s1, 1)
                   ELSE IF r.op = "tp" THEN AsVector(Build(r.a)) ELSE Build(r.a)
             G2 == IF r.op = "cyl" THEN AsVector(Build(r.a))
                   ELSE IF r.op = "tp" THEN AsVector(Build(r.b)) ELSE Build(r.b)
             D1 == SDim(G1)  D2 == SDim(G2)
             S1 == Sheet(G1, SubSeq(grid, 1, D1))
             S2 == Sheet(G2, SubSeq(grid, D1 + 1, D))
             n2 == S2.npts
             c1 == Len(G1.C)  c2 == Len(G2.C)
             \* coordinates 1..D2 belong to G2 (x part), D2+1..D to G1
             v1(c, J) == S1.val[IF c1 = 1 THEN 1 ELSE c][I1Of(J, n2)]
             v2(c, J) == S2.val[IF c2 = 1 THEN 1 ELSE c][I2Of(J, n2)]
             j1(b, c, J) == IF b <= D2 THEN Zero ELSE S1.jac[b - D2][IF c1 = 1 THEN 1 ELSE c][I1Of(J, n2)]
             j2(b, c, J) == IF b > D2 THEN Zero ELSE S2.jac[b][IF c2 = 1 THEN 1 ELSE c][I2Of(J, n2)]
         IN /\ D = D1 + D2 /\ np = S1.npts * n2
            /\ IsNurbs(G) = (IsNurbs(G1) \/ IsNurbs(G2))
            /\ IF r.op \in {"tp", "cyl"}
               THEN /\ G.osh = <<c1 + c2>>
                    /\ \A c \in 1..nc : \A J \in 1..np :
                         /\ S.val[c][J] = (IF c <= c2 THEN S2.val[c][I2Of(J, n2)] ELSE S1.val[c - c2][I1Of(J, n2)])
                         /\ \A b \in 1..D : S.jac[b][c][J] =
                              (IF c <= c2 THEN (IF b <= D2 THEN S2.jac[b][c][I2Of(J, n2)] ELSE Zero)
                               ELSE (IF b > D2 THEN S1.jac[b - D2][c - c2][I1Of(J, n2)] ELSE Zero))
               ELSE IF r.op = "osum"
               THEN \A c \in 1..nc : \A J \in 1..np :
                         /\ S.val[c][J] = Add(v1(c, J), v2(c, J))
                         /\ \A b \in 1..D : S.jac[b][c][J] = Add(j1(b, c, J), j2(b, c, J))
               ELSE \A c \in 1..nc : \A J \in 1..np :
                         /\ S.val[c][J] = Mul(v1(c, J), v2(c, J))
                         /\ \A b \in 1..D : S.jac[b][c][J] = Add(Mul(j1(b, c, J), v2(c, J)), Mul(v1(c, J), j2(b, c, J)))
    [] r.op = "line" ->           \* x0 + (t - s0)/(s1 - s0) (x1 - x0)
         /\ D = 1 /\ ~IsNurbs(G) /\ G.osh = <<Len(r.x0)>> /\ SupportOf(G) = << <<r.s0, r.s1>> >>
         /\ NumSpans(G.kvs[1]) = r.n /\ G.ps = <<1>>
         /\ \A c \in 1..nc : \A J \in 1..np :
              LET t == grid[1][J]  sl == Div(Sub(r.x1[c], r.x0[c]), Sub(r.s1, r.s0)) IN
              /\ S.val[c][J] = Add(r.x0[c], Mul(Sub(t, r.s0), sl))
              /\ S.jac[1][c][J] = sl /\ IsZero(S.hess[1][c][J])
    [] r.op \in {"unitcube", "identity"} ->      \* the identity map of the box; all second derivatives vanish
         /\ ~IsNurbs(G) /\ G.osh = <<D>> /\ \A a \in 1..D : G.ps[a] = 1
         /\ r.op = "unitcube" => D = r.dim /\ \A a \in 1..D : NumSpans(G.kvs[a]) = r.n /\ SupportOf(G)[a] = <<Zero, One>>
         /\ r.op = "identity" => D = Len(r.ext) /\ SupportOf(G) = r.ext
         /\ \A J \in 1..np : LET X == GridPoint(grid, J) IN
              \A c \in 1..D : /\ S.val[c][J] = X[c]
                              /\ \A b \in 1..D : S.jac[b][c][J] = (IF b = c THEN One ELSE Zero)
         /\ \A h \in 1..Len(S.hess) : AllZero(S.hess[h])
    [] r.op = "arc" ->            \* on the circle of radius r; knots and span mid points at the angles k theta; ccw
         LET m == r.m
             P(J) == <<S.val[1][J], S.val[2][J]>>
             cross(p, q) == Sub(Mul(p[1], q[2]), Mul(p[2], q[1]))
             r2 == Mul(r.r, r.r)
         IN /\ IsCS(r.cs) /\ Sign(r.cs[1]) = 1 /\ Sign(r.cs[2]) = 1 /\ D = 1
            /\ SupportOf(G) = << <<Zero, One>> >>
            /\ \A J \in 1..np : Add(Mul(P(J)[1], P(J)[1]), Mul(P(J)[2], P(J)[2])) = r2          \* x^2 + y^2 = r^2
            /\ \A J \in 1..np :                                   \* tangent orthogonal to the radius
                 IsZero(Add(Mul(P(J)[1], S.jac[1][1][J]), Mul(P(J)[2], S.jac[1][2][J])))
            /\ \A J \in 1..np : \A k \in 0..(2 * m) :             \* t = k/(2m)  |->  angle k theta
                 grid[1][J] = Q(k, 2 * m) =>
                    LET a == MultCS(r.cs, k) IN P(J) = <<Mul(r.r, a[1]), Mul(r.r, a[2])>>
            /\ \E J \in 1..np : grid[1][J] = Zero
            /\ \E J \in 1..np : grid[1][J] = One
            /\ \A J \in 1..(np - 1) : Sign(cross(P(J), P(J + 1))) = 1     \* counterclockwise, steps < pi

-------------------------------------------------------------------------------
(* case tables *)
Kinds == <<"bsp", "nurbs">>
SeqProd2(A, B) == FlattenSeq(Tab(Len(A), LAMBDA i : Tab(Len(B), LAMBDA j : <<A[i], B[j]>>)))

BaseSels == IF Thorough
            THEN << <<2>>, <<4>>, <<1>>, <<3>>, <<5>>, <<6>>, <<7>>, <<8>>, <<9>>,
                    <<3,2>>, <<5,1>>, <<2,4>>, <<1,7>>, <<9,5>>, <<8,2>>,
                    <<1,5,3>>, <<3,2,1>>, <<5,1,4>> >>
            ELSE << <<2>>, <<4>>, <<3,2>>, <<5,1>>, <<1,5,3>> >>
BaseOshs == << <<>>, <<1>>, <<2>>, <<3>>, <<2,2>>, <<2,3>> >>
GridModeFor(D) == IF D = 1 THEN "q" ELSE IF D = 2 THEN "g" ELSE "f"

BaseCases ==
  LET combos == SeqProd2(BaseSels, SeqProd2(BaseOshs, Kinds))
      ok(x)  == x[2][2] = "bsp" \/ Len(x[2][1]) <= 1
      sel    == SelectSeq(combos, ok)
  IN Tab(Len(sel), LAMBDA i : [recipe |-> Leaf(sel[i][2][2], sel[i][1], sel[i][2][1], i), gm |-> GridModeFor(Len(sel[i][1]))])

Cases == CASE Fam = "base" -> BaseCases

-------------------------------------------------------------------------------
Init == cid = 0
Next == cid = 0 /\ cid' \in {i \in 1..Len(Cases) : (i % NParts) = Part}
Spec == Init /\ [][Next]_cid

ResDesc(G) == [kind |-> G.kind, sdim |-> SDim(G), osh |-> G.osh, kvs |-> G.kvs, dens |-> G.dens, ps |-> G.ps,
               support |-> SupportOf(G)]

CaseOK ==
  cid # 0 =>
  LET cs   == Cases[cid]
      G    == Build(cs.recipe)
      grid == GridFor(G, cs.gm)
      S    == Sheet(G, grid)
  IN /\ WellFormed(G)
     /\ Decl(cs.recipe, G, grid, S)
     /\ Emit("CASE", [id |-> cid, fam |-> Fam, recipe |-> cs.recipe, res |-> ResDesc(G), grid |-> grid,
                      val |-> S.val, jac |-> S.jac, hess |-> S.hess])
NCases == Len(Cases)
===============================================================================
