------------------------------ MODULE RKStage ------------------------------
(* C12 -- "one step of each DIRK and Rosenbrock integrator satisfies the stage equations of its
   coefficient tableau", for the linear test family   M y' = L y + c   solved EXACTLY in rationals.

   Reference (declarative):
     DIRK        stages Y_i with   M Y_i = M x + tau * SUM_{j<=i} a_ij F(Y_j),   F(y) = L y + c
                 result  x + tau * M^-1 SUM b_i F(Y_i),  estimate the same with b_hat
     Rosenbrock  (M - tau gamma J) k_i = F(x + tau SUM_{j<i} alpha_ij k_j) + tau J SUM_{j<i} gamma_ij k_j,
                 J = L,  result x + tau SUM b_i k_i, estimate with b_hat
   Code-shaped (pyiga.solvers.dirk_step): explicit first stage iff a_11 = 0, one linear solve with
   (M - tau a_ii L) per implicit stage, and the STIFFLY-ACCURATE SHORTCUT  x_new = Y_s  when the weights
   equal the last row of A.  Invariants checked by TLC on every enumerated case:
     StageEqsHold        the constructed stages satisfy the implicit stage equations (independent re-check)
     ShortcutIsRK        stiffly accurate  =>  Y_s = x + tau M^-1 SUM b_i F(Y_i)
     RosIsDirkOnLinear   on a linear problem a Rosenbrock scheme coincides with the DIRK scheme whose
                         tableau is beta = alpha + Gamma (cross-validation of the two reference definitions)
     ConstExact          L = 0 and SUM b = 1  =>  the step is exact:  x + tau M^-1 c
   Each case is emitted (tag "CASE") with the exact expected x_new / x_est and replayed on the real
   dirk_step / rosenbrock_step with dense, sparse and None mass matrices (harness/drivers/c12.py). *)
EXTENDS Integers, Sequences, SequencesExt, TLC, Rat, Emit

CONSTANTS Grid, DoEmit

VARIABLE case

Force(x) == x \o <<>>
VAdd(u, v)   == Force([k \in 1..Len(u) |-> Add(u[k], v[k])])
VSub(u, v)   == Force([k \in 1..Len(u) |-> Sub(u[k], v[k])])
VScale(a, u) == Force([k \in 1..Len(u) |-> Mul(a, u[k])])
VZero(n)     == [k \in 1..n |-> Zero]
MV(M, v)     == Force(MatVec(M, v))
MScale(a, M) == Force([r \in 1..Len(M) |-> VScale(a, M[r])])
MSub(A, B)   == Force([r \in 1..Len(A) |-> VSub(A[r], B[r])])
MAddM(A, B)  == Force([r \in 1..Len(A) |-> VAdd(A[r], B[r])])
SolveF(A, b) == Force(Solve(A, b))
\* SUM_{j in 1..m} w[j] * vs[j]   (vectors of length n)
LinComb(w, vs, m, n) == FoldLeft(LAMBDA acc, j : VAdd(acc, VScale(w[j], vs[j])), VZero(n), [j \in 1..m |-> j])

-----------------------------------------------------------------------------
(* tableaux: rational, written as integer numerators over a common denominator *)
RM(rows, den) == [r \in 1..Len(rows) |-> [c \in 1..Len(rows[r]) |-> Q(rows[r][c], den)]]
RV(v, den)    == [c \in 1..Len(v) |-> Q(v[c], den)]

Dirk(name, A, b, bhat) == [name |-> name, kind |-> "dirk", s |-> Len(A), A |-> A, G |-> <<>>, b |-> b, bhat |-> bhat]
Ros(name, A, G, b, bhat) == [name |-> name, kind |-> "ros", s |-> Len(A), A |-> A, G |-> G, b |-> b, bhat |-> bhat]

Tableaux == <<
  Dirk("implicit_euler",   RM(<< <<1>> >>, 1), RV(<<1>>, 1), <<>>),
  Dirk("implicit_midpoint", RM(<< <<1>> >>, 2), RV(<<1>>, 1), <<>>),                       \* not stiffly accurate
  Dirk("crank_nicolson",   RM(<< <<0, 0>>, <<1, 1>> >>, 2), RV(<<1, 1>>, 2), <<>>),        \* explicit first stage
  Dirk("sdirk2_quarter",   RM(<< <<1, 0>>, <<2, 1>> >>, 4), RV(<<1, 1>>, 2), RV(<<1, 0>>, 1)),   \* not SA, embedded
  Dirk("sdirk2_sa_emb",    RM(<< <<1, 0>>, <<3, 1>> >>, 4), RV(<<3, 1>>, 4), RV(<<1, 1>>, 2)),   \* SA, embedded
  Dirk("esdirk3_emb",      RM(<< <<0, 0, 0>>, <<3, 3, 0>>, <<4, 2, 6>> >>, 12), RV(<<4, 2, 6>>, 12),
                           RV(<<1, 2, 1>>, 4)),                                            \* ESDIRK, SA, unequal diagonal
  Dirk("esdirk3_nonsa",    RM(<< <<0, 0, 0>>, <<1, 1, 0>>, <<1, 1, 2>> >>, 4), RV(<<1, 4, 1>>, 6), <<>>),
  Ros("ros_euler",  RM(<< <<0>> >>, 1), RM(<< <<1>> >>, 1), RV(<<1>>, 1), <<>>),
  Ros("ros2_half",  RM(<< <<0, 0>>, <<2, 0>> >>, 2), RM(<< <<1, 0>>, <<-2, 1>> >>, 2), RV(<<1, 1>>, 2), RV(<<1, 0>>, 1)),
  Ros("ros3_quarter", RM(<< <<0, 0, 0>>, <<4, 0, 0>>, <<2, 6, 0>> >>, 8),
                      RM(<< <<2, 0, 0>>, <<-4, 2, 0>>, <<1, -2, 2>> >>, 8),
                      RV(<<1, 1, 2>>, 4), RV(<<1, 1, 1>>, 3))
>>

(* problems M y' = L y + c, x the state; n = 1 or 2 *)
IM(rows) == [r \in 1..Len(rows) |-> [c \in 1..Len(rows[r]) |-> R(rows[r][c])]]
IV(v)    == [c \in 1..Len(v) |-> R(v[c])]
Prob(name, M, L, c, x) == [name |-> name, n |-> Len(x), M |-> M, L |-> L, c |-> c, x |-> x]

Problems == <<
  Prob("const2",   IM(<< <<2, 1>>, <<1, 2>> >>),  IM(<< <<0, 0>>, <<0, 0>> >>),   IV(<<1, -2>>), IV(<<1, 2>>)),
  Prob("decay2",   IM(<< <<1, 0>>, <<0, 1>> >>),  IM(<< <<-1, 0>>, <<0, -4>> >>), IV(<<0, 0>>),  IV(<<1, -1>>)),
  Prob("coupled2", IM(<< <<2, 1>>, <<1, 2>> >>),  IM(<< <<-2, 1>>, <<1, -3>> >>), IV(<<1, -2>>), IV(<<1, 2>>)),
  Prob("osc2",     IM(<< <<1, 0>>, <<0, 4>> >>),  IM(<< <<0, 1>>, <<-4, 0>> >>),  IV(<<0, 1>>),  IV(<<1, 0>>)),
  Prob("scalar",   IM(<< <<2>> >>),               IM(<< <<-3>> >>),               IV(<<1>>),     IV(<<-1>>)),
  Prob("stiff1",   IM(<< <<1>> >>),               IM(<< <<-64>> >>),              IV(<<0>>),     IV(<<1>>))
>>

Taus == IF Grid = 1 THEN <<One, Q(1, 8)>> ELSE <<One, Q(1, 2), Q(1, 8), Q(1, 64)>>

\* the (tableau, problem, tau) combinations whose exact values fit TLC's 32-bit integers
\* (determined by running every combination separately: only tau = 1/64 on the coupled 2x2 problems with the
\* embedded 2-stage and the 3-stage schemes overflows)
Fits(ti, pi, ki) ==
  LET T == Tableaux[ti]  P == Problems[pi]  tau == Taus[ki] IN
  \/ tau[2] <= 8
  \/ P.name \notin {"coupled2", "osc2"}
  \/ T.name \in {"implicit_euler", "implicit_midpoint", "crank_nicolson", "ros_euler", "ros2_half"}

Cases == {c \in (1..Len(Tableaux)) \X (1..Len(Problems)) \X (1..Len(Taus)) : Fits(c[1], c[2], c[3])}

-----------------------------------------------------------------------------
F(P, y) == VAdd(MV(P.L, y), P.c)

\* --- code-shaped DIRK stage loop: acc = <<ys, Fs>>
DirkStages(T, P, tau) ==
  LET Mx == MV(P.M, P.x)
      step(acc, i) ==
        LET aii == T.A[i][i] IN
        IF IsZero(aii)
        THEN <<Append(acc[1], P.x), Append(acc[2], F(P, P.x))>>          \* explicit stage (only i = 1)
        ELSE LET rhs == VAdd(VAdd(Mx, VScale(tau, LinComb(T.A[i], acc[2], i - 1, P.n))),
                             VScale(Mul(tau, aii), P.c))
                 y   == SolveF(MSub(P.M, MScale(Mul(tau, aii), P.L)), rhs)
             IN <<Append(acc[1], y), Append(acc[2], F(P, y))>>
  IN FoldLeft(step, <<<<>>, <<>>>>, [i \in 1..T.s |-> i])

\* x + tau M^-1 SUM w_i F_i
Combine(P, tau, w, Fs) ==
  VAdd(P.x, VScale(tau, SolveF(P.M, LinComb(w, Fs, Len(w), P.n))))

IsSA(T) == T.b = T.A[T.s]

DirkRef(T, P, tau)  == LET st == DirkStages(T, P, tau) IN Combine(P, tau, T.b, st[2])       \* declarative result
DirkCode(T, P, tau) == LET st == DirkStages(T, P, tau) IN                                     \* code-shaped result
                       IF IsSA(T) THEN st[1][T.s] ELSE Combine(P, tau, T.b, st[2])
DirkEst(T, P, tau)  == LET st == DirkStages(T, P, tau) IN Combine(P, tau, T.bhat, st[2])

\* --- Rosenbrock
RosStages(T, P, tau) ==
  LET gamma == T.G[1][1]
      C     == MSub(P.M, MScale(Mul(tau, gamma), P.L))
      step(ks, i) ==
        LET yi  == VAdd(P.x, VScale(tau, LinComb(T.A[i], ks, i - 1, P.n)))
            wi  == LinComb(T.G[i], ks, i - 1, P.n)
            rhs == VAdd(F(P, yi), VScale(tau, MV(P.L, wi)))
        IN Append(ks, SolveF(C, rhs))
  IN FoldLeft(step, <<>>, [i \in 1..T.s |-> i])

RosNew(T, P, tau) == LET ks == RosStages(T, P, tau) IN VAdd(P.x, VScale(tau, LinComb(T.b, ks, T.s, P.n)))
RosEst(T, P, tau) == LET ks == RosStages(T, P, tau) IN VAdd(P.x, VScale(tau, LinComb(T.bhat, ks, T.s, P.n)))

XNew(T, P, tau) == IF T.kind = "dirk" THEN DirkCode(T, P, tau) ELSE RosNew(T, P, tau)
XEst(T, P, tau) == IF T.kind = "dirk" THEN DirkEst(T, P, tau) ELSE RosEst(T, P, tau)

-----------------------------------------------------------------------------
TC == Tableaux[case[1]]
PC == Problems[case[2]]
TauC == Taus[case[3]]

StageEqsHold ==
  TC.kind = "dirk" =>
    LET st == DirkStages(TC, PC, TauC) IN
    \A i \in 1..TC.s :
       MV(PC.M, st[1][i]) = VAdd(MV(PC.M, PC.x), VScale(TauC, LinComb(TC.A[i], st[2], i, PC.n)))

ShortcutIsRK ==
  TC.kind = "dirk" => DirkCode(TC, PC, TauC) = DirkRef(TC, PC, TauC)

RosIsDirkOnLinear ==
  TC.kind = "ros" =>
    LET beta == MAddM(TC.A, TC.G)
        D    == [name |-> "beta", kind |-> "dirk", s |-> TC.s, A |-> beta, G |-> <<>>, b |-> TC.b, bhat |-> TC.bhat]
    IN /\ RosNew(TC, PC, TauC) = DirkRef(D, PC, TauC)
       /\ Len(TC.bhat) > 0 => RosEst(TC, PC, TauC) = DirkEst(D, PC, TauC)

ConstExact ==
  ((\A r \in 1..PC.n : \A c \in 1..PC.n : IsZero(PC.L[r][c])) /\ SumSeq(TC.b) = One) =>
     XNew(TC, PC, TauC) = VAdd(PC.x, VScale(TauC, SolveF(PC.M, PC.c)))

EmitCase ==
  DoEmit =>
    Emit("CASE", [tableau |-> TC, problem |-> PC, tau |-> TauC,
                  xnew |-> XNew(TC, PC, TauC),
                  xest |-> IF Len(TC.bhat) > 0 THEN XEst(TC, PC, TauC) ELSE <<>>,
                  sa |-> (TC.kind = "dirk" /\ IsSA(TC))])

Init == case \in Cases
Next == UNCHANGED case
Spec == Init /\ [][Next]_case
=============================================================================
