---------------------------- MODULE CompileTrace ----------------------------
(* M2 for C20: per-process event logs recorded by the hooks in pyiga/compile.py (PYIGA_VERIF=1) from
   real concurrent compilations are accepted iff SOME interleaving consistent with the per-process
   orders is a behaviour of CompileCache (fixed protocol).  No cross-process clock is used.
   Process-private steps commute with everything, so they are consumed eagerly in a canonical
   order; only the steps that read or write the shared directory branch.
   Acceptance is signalled by violating the "invariant" NotAllConsumed (TLC stops at the first witness). *)
EXTENDS CompileCache, Json, IOUtils

Trace == JsonDeserialize(IOEnv.TRACE_FILE)      \* [procs |-> << <<event,...>>, ... >>]
TP    == Trace.procs

VARIABLE idx                                     \* per process: number of events consumed
tvars == <<vars, idx>>

Ev(p)      == TP[p][idx[p] + 1]
HasNext(p) == idx[p] < Len(TP[p])
Private    == {"BuildDir", "PyxWritten", "Cythonized", "Built", "Cleaned"}
IsPrivate(p) == HasNext(p) /\ Ev(p).ev \in Private

Consume(p) == idx' = [idx EXCEPT ![p] = @ + 1]

PyxOpenWrite(p) ==                 \* the hook reports the .pyx once it is written: two spec steps
  /\ pc[p] = "pyx_open"
  /\ pc' = [pc EXCEPT ![p] = "cythonize"]
  /\ priv' = [priv EXCEPT ![p] = "pyx"]
  /\ UNCHANGED <<want, fin, readok, loaded, crashes, dead, failed, reqs>>

RequestAgain(p, m) ==              \* one interpreter may request several modules in sequence (Restart . Request)
  /\ pc[p] \in {"idle", "done"}
  /\ want' = [want EXCEPT ![p] = m]
  /\ pc' = [pc EXCEPT ![p] = "import1"]
  /\ reqs' = [reqs EXCEPT ![p] = @ + 1]
  /\ loaded' = [loaded EXCEPT ![p] = "none"]
  /\ readok' = [readok EXCEPT ![p] = TRUE]
  /\ UNCHANGED <<fin, priv, crashes, dead, failed>>

TraceStep(p) ==
  /\ HasNext(p)
  /\ Consume(p)
  /\ LET e == Ev(p) IN
     CASE e.ev = "Request"    -> RequestAgain(p, e.mod)
       [] e.ev = "ImportFail" -> Import1(p) /\ pc'[p] = "mkdir" /\ want[p] = e.mod
       [] e.ev = "ImportOk"   -> /\ want[p] = e.mod
                                 /\ IF e.how = "cached" THEN Import1(p) ELSE Import2(p)
                                 /\ pc'[p] = "done"
       [] e.ev = "BuildDir"   -> MkDir(p)
       [] e.ev = "PyxWritten" -> PyxOpenWrite(p)
       [] e.ev = "Cythonized" -> Cythonize(p)
       [] e.ev = "Built"      -> Build(p)
       [] e.ev = "Published"  -> /\ Publish(p)
                                 /\ (e.how = "link")   => fin[want[p]]["so"] = Absent
                                 /\ (e.how = "exists") => fin[want[p]]["so"] = Complete
       [] e.ev = "Cleaned"    -> Cleanup(p)
       [] e.ev = "Fault"      -> Crash(p)
       [] OTHER               -> FALSE

TraceNext ==
  IF \E p \in Procs : IsPrivate(p)
  THEN LET p == CHOOSE q \in Procs : IsPrivate(q) /\ \A r \in Procs : IsPrivate(r) => q <= r IN TraceStep(p)
  ELSE \E p \in Procs : TraceStep(p)

TraceInit == Init /\ idx = [p \in Procs |-> 0]
TraceSpec == TraceInit /\ [][TraceNext]_tvars

AllConsumed    == \A p \in Procs : idx[p] = Len(TP[p])
NotAllConsumed == ~AllConsumed
\* safety of the shared state along every explored interleaving prefix
TraceSafe == NoPartialVisible /\ NoInterpreterDeath /\ NoFailedRequest /\ LoadedRight
\* progress diagnostic for rejected traces: emitted for the deepest states
Progress == [p \in Procs |-> idx[p]]
=============================================================================
