-------------------------------- MODULE Boehm --------------------------------
(* Exact knot insertion (Boehm) and prolongation between nested knot vectors, over Rat.
   A knot vector is a sequence of INTEGERS (1-indexed); p is the degree; n = Len(kv) - p - 1.     *)
EXTENDS Rat

\* Boehm: insert t (kv[k] <= t < kv[k+1]) into kv of degree p: (n+1) x n matrix
InsMat(kv, p, t) ==
  LET n == Len(kv) - p - 1
      k == CHOOSE i \in 1..(Len(kv) - 1) : kv[i] <= t /\ t < kv[i + 1]
      alpha(i) == IF i <= k - p THEN One ELSE IF i >= k + 1 THEN Zero
                  ELSE Q(t - kv[i], kv[i + p] - kv[i])
  IN [i \in 1..(n + 1) |-> [j \in 1..n |->
        IF j = i THEN alpha(i) ELSE IF j = i - 1 THEN Sub(One, alpha(i)) ELSE Zero]]
InsKnot(kv, t) ==
  LET k == CHOOSE i \in 1..(Len(kv) - 1) : kv[i] <= t /\ t < kv[i + 1] IN
  SubSeq(kv, 1, k) \o <<t>> \o SubSeq(kv, k + 1, Len(kv))

\* sparse product of an insertion matrix (two entries per row) with a dense matrix
InsApply(A, B) == [i \in 1..Len(A) |-> [j \in 1..Len(B[1]) |->
     Add(IF i <= Len(B) THEN Mul(A[i][i], B[i][j]) ELSE Zero,
         IF i >= 2 THEN Mul(A[i][i - 1], B[i - 1][j]) ELSE Zero)]]


\* insert the knots of `ts` (ascending) one after the other: the matrix maps coefficients on kv to
\* coefficients on the refined knot vector
InsertAll(kv, p, ts) ==
  FoldLeft(LAMBDA s, t : [kv |-> InsKnot(s.kv, t), T |-> InsApply(InsMat(s.kv, p, t), s.T)],
           [kv |-> kv, T |-> IdMat(Len(kv) - p - 1)], ts)
=============================================================================
