---------------------------- MODULE ChunksProof ----------------------------
(* C08 -- chunk_tasks(tasks, num_chunks) of pyiga/assemble_tools_cy.pyx, for ALL lengths and chunk counts.

       n = len(tasks) // num_chunks + 1
       for i in range(0, len(tasks), n): yield tasks[i:i+n]

   The TLC model (AsmSched.tla, Mode = "chunks") checks IsPartition(Chunks(len, k), len, k) for len <= 64, k <= 16.
   Here the arithmetic core is proved without bounds with TLAPS (SMT back end): the step is positive, at most k
   chunks are produced, every task index lies in exactly the chunk j \div n, chunks are non-empty and consecutive. *)
EXTENDS Integers

CONSTANTS len, k
ASSUME Dom == len \in Nat /\ k \in Nat /\ k >= 1

q == len \div k
n == q + 1
Lo(i) == i * n                                      \* first index of chunk i (0-based)
Hi(i) == IF (i + 1) * n < len THEN (i + 1) * n ELSE len
IsChunk(i) == i \in Nat /\ Lo(i) < len              \* range(0, len, n) yields exactly these i

LEMMA DivFacts == q \in Nat /\ k * q <= len /\ len < k * q + k
  BY Dom DEF q

THEOREM StepPositive == n \in Nat /\ n >= 1
  BY DivFacts DEF n

LEMMA ProdNat == \A a, b \in Nat : a * b \in Nat
  OBVIOUS

THEOREM AtMostK == \A i \in Nat : IsChunk(i) => i < k
  <1> TAKE i \in Nat
  <1> HAVE IsChunk(i)
  <1> SUFFICES ASSUME i >= k PROVE FALSE
    BY Dom
  <1> DEFINE d == i - k
  <1>0. d \in Nat /\ i = k + d
    BY Dom
  <1>1. k * n = k * q + k
    BY Dom, DivFacts DEF n
  <1>2. i * n = k * n + d * n
    BY <1>0, Dom, StepPositive
  <1>3. d * n \in Nat
    BY <1>0, StepPositive, ProdNat
  <1>4. i * n < len
    BY DEF IsChunk, Lo
  <1>t. i * n \in Nat /\ k * n \in Nat /\ k * q \in Nat
    BY Dom, StepPositive, DivFacts, ProdNat
  <1>5. i * n >= k * n
    BY <1>2, <1>3, <1>t
  <1>6. k * n > len
    BY <1>1, <1>t, DivFacts, Dom
  <1> QED BY <1>4, <1>5, <1>6, <1>t, Dom

THEOREM NonEmptyConsecutive == \A i \in Nat : IsChunk(i) => Lo(i) < Hi(i) /\ Hi(i) <= len /\ (IsChunk(i + 1) => Hi(i) = Lo(i + 1))
  <1> TAKE i \in Nat
  <1> HAVE IsChunk(i)
  <1>1. (i + 1) * n = i * n + n
    BY StepPositive
  <1>2. i * n \in Nat
    BY StepPositive, ProdNat
  <1>3. i * n < len
    BY DEF IsChunk, Lo
  <1>4. Lo(i) < Hi(i) /\ Hi(i) <= len
    BY <1>1, <1>2, <1>3, StepPositive, Dom DEF Lo, Hi
  <1>5. IsChunk(i + 1) => Hi(i) = Lo(i + 1)
    BY <1>1, <1>2 DEF IsChunk, Lo, Hi
  <1> QED BY <1>4, <1>5

THEOREM Covers == \A j \in Nat : j < len => \E i \in Nat : IsChunk(i) /\ Lo(i) <= j /\ j < Hi(i)
  <1> TAKE j \in Nat
  <1>0. HAVE j < len
  <1> DEFINE i == j \div n
  <1>1. i \in Nat /\ n * i <= j /\ j < n * i + n
    BY StepPositive
  <1>2. i * n = n * i /\ (i + 1) * n = n * i + n
    BY StepPositive, <1>1
  <1>t. n * i \in Nat
    BY <1>1, StepPositive, ProdNat
  <1>3. Lo(i) <= j /\ Lo(i) < len
    BY <1>0, <1>1, <1>2, <1>t, Dom DEF Lo
  <1>4. j < Hi(i)
    BY <1>0, <1>1, <1>2, <1>t, Dom, StepPositive DEF Hi
  <1> HIDE DEF i
  <1> QED BY <1>1, <1>3, <1>4 DEF IsChunk
=============================================================================
