----------------------------- MODULE VFormCache -----------------------------
(* C13 -- the in-process form -> assembler cache of pyiga/compile.py (compile_vform).

   cache : set of <<key, mode, source>> entries (the dict __vform_asm_cache, pre-seeded with the
           assemblers shipped in pyiga/assemblers.pyx for mode 0);
   Request(f, m) : compile_vform(form f, on_demand = m): look up (KeyOf(f), m); on a hit return the
           cached assembler, otherwise generate SrcOf(f, m) (0 = the generator raises), "compile" it
           and remember it.
   Sound : every response is exactly the source the requested form generates in the requested mode.

   KeyOf / SrcOf / Preseed are parameters: VFormCacheAbs instantiates them with an abstract universe
   of attribute records (design check + negative controls), VFormCacheData with tables measured on the
   real code (vf.hash(), compile.generate()).                                                    *)
EXTENDS Integers, Sequences, FiniteSets, TLC, Emit

CONSTANTS NF, MaxLen, KeyOf(_), SrcOf(_, _), ModeKey(_), Preseed, EmitBeh,
          SameKeyOnly     \* TRUE: after the first request only forms with the same key are requested (large universes)

VARIABLES cache, hist, bad
vars == <<cache, hist, bad>>
View == <<cache, bad, Len(hist), IF SameKeyOnly /\ Len(hist) > 0 THEN KeyOf(hist[1].f) ELSE 0>>   \* everything the enabling conditions read

Forms == 1..NF
Modes == {0, 1}

Init == cache = Preseed /\ hist = <<>> /\ bad = FALSE

Request(f, m) ==
  /\ Len(hist) < MaxLen
  /\ IF SameKeyOnly /\ Len(hist) > 0 THEN KeyOf(f) = KeyOf(hist[1].f) ELSE TRUE
  /\ LET k    == KeyOf(f)
         mk   == ModeKey(m)
         hit  == {e \in cache : e[1] = k /\ e[2] = mk}
         want == SrcOf(f, m)
         resp == IF hit # {} THEN (CHOOSE e \in hit : TRUE)[3] ELSE want
     IN /\ cache' = IF hit = {} /\ want # 0 THEN cache \cup {<<k, mk, resp>>} ELSE cache
        /\ hist' = Append(hist, [f |-> f, m |-> m, resp |-> resp, want |-> want, hit |-> hit # {}])
        /\ bad' = (resp # want)

Next == \E f \in Forms, m \in Modes : Request(f, m)
Spec == Init /\ [][Next]_vars

Sound == ~bad
\* at most one source per (key, mode): the cache is a function
Functional == \A e1, e2 \in cache : (e1[1] = e2[1] /\ e1[2] = e2[2]) => e1[3] = e2[3]

\* generation: every transition that exercises the cache (a hit) or is unsound is emitted for replay
EmitAction ==
  (EmitBeh /\ (bad' \/ hist'[Len(hist')].hit)) => Emit(IF bad' THEN "UNSOUND" ELSE "BEH", hist')
=============================================================================
