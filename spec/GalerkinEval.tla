------------------------------ MODULE GalerkinEval ------------------------------
(* C09 -- enumeration, closed-form identities (TLC) and expected matrices / vectors (emitted) for module Galerkin1D.

   root -> "sym"  one state per (degree, open knot vector) of the tier's profile:
                  all bilinear forms int D^du B_i D^dv B_j (du, dv <= min(p, MaxD)), weighted mass / stiffness with
                  polynomial weights, load vectors and integrals of polynomial data;
        -> "asym" one state per pair (trial space kv1/p1, test space kv2/p2, quadrature grid) derived from a knot vector:
                  other degree on the same mesh, coarser test space, finer test space on a custom grid, halved grid;
        -> "tp"   one state per tensor-product case (2-D / 3-D, mixed degrees) x affine geometry matrix.
   Invariants (SymOK / AsymOK / TpOK): the local Taylor pieces reproduce the B-splines; symmetry; sum of the mass matrix
   = measure (or integral of the weight); forms with a derivative annihilate constants; integration by parts; rank of the
   stiffness matrix = n - 1 (elimination modulo a prime, a lower bound, plus the exact null vector); independence of the quadrature grid; consistency with the prolongation matrix; Kronecker
   structure: sum M = |det A| |Omega^|, K 1 = 0, symmetric div-div.                                                   *)
EXTENDS Galerkin1D, TLC, Emit

CONSTANTS Tier,        \* "quick" | "thorough"
          Degrees,     \* degrees explored by this run
          Phases,      \* subset of {"sym", "asym", "tp"}
          TpIds        \* tensor-product cases explored by this run

VARIABLES ph, deg, kv, sel
vars == <<ph, deg, kv, sel>>

Prof(pp, bmax, spans, maxd) == [p |-> pp, bmax |-> bmax, spans |-> spans, maxd |-> maxd]
Profiles ==
  CASE Tier = "quick"    -> <<Prof(0, 3, 3, 0), Prof(1, 3, 3, 1), Prof(2, 3, 2, 2), Prof(3, 2, 2, 2)>>
    [] Tier = "thorough" -> <<Prof(0, 4, 4, 0), Prof(1, 4, 4, 1), Prof(2, 4, 3, 2), Prof(3, 4, 3, 3), Prof(4, 3, 2, 2)>>
PF(pp)  == Profiles[pp + 1]
KVS(pp) == OpenKVs(pp, PF(pp).bmax, 3, PF(pp).spans, 9)

(* polynomial weights / right-hand sides (coefficients of 1, x, x^2, ..) *)
Weights == << <<One, One>>, <<R(2), R(-1), Q(1, 2)>> >>                      \* 1 + x ;  2 - x + x^2/2
Datas   == << <<R(3)>>, <<One, R(-2)>>, <<R(-1), Q(1, 2), One>> >>           \* 3 ;  1 - 2x ;  -1 + x/2 + x^2

-------------------------------------------------------------------------------
(* pairs of spaces derived from (kv, deg): [kv1, p1, kv2, p2, grid] -- kv1 trial, kv2 test *)
Remult(v, pold, pnew) ==      \* same breakpoints, degree pnew, interior multiplicities clipped to 1..max(pnew,1)
  LET ms == Mesh(v) IN
  KVFrom(ms, [m \in 1..(Len(ms) - 2) |-> IntMin(IntMax(pnew, 1), KMult(v, ms[m + 1]))], pnew)
DropBreak(v, p, t) == SelectSeq(v, LAMBDA x : x # t)
Pairs ==
  LET p    == deg
      g    == MeshGrid(kv)
      same == <<[kv1 |-> kv, p1 |-> p, kv2 |-> kv, p2 |-> p, grid |-> HalfGrid(g), name |-> "same/halfgrid"]>>
      up   == <<[kv1 |-> kv, p1 |-> p, kv2 |-> Remult(kv, p, p + 1), p2 |-> p + 1, grid |-> g, name |-> "p+1"]>>
      dn   == IF p >= 1 THEN <<[kv1 |-> kv, p1 |-> p, kv2 |-> Remult(kv, p, p - 1), p2 |-> p - 1, grid |-> g, name |-> "p-1"]>>
              ELSE <<>>
      ints == {t \in SeqSet(kv) : t # KFirst(kv) /\ t # KLast(kv)}
      co   == IF ints # {} THEN LET t == CHOOSE x \in ints : \A y \in ints : x <= y IN
                <<[kv1 |-> kv, p1 |-> p, kv2 |-> DropBreak(kv, p, t), p2 |-> p, grid |-> g, name |-> "coarser test"],
                  [kv1 |-> DropBreak(kv, p, t), p1 |-> p, kv2 |-> kv, p2 |-> p, grid |-> g, name |-> "finer test/custom grid"]>>
              ELSE <<>>
  IN same \o up \o dn \o co

-------------------------------------------------------------------------------
(* tensor-product cases; geometry matrices in x-first coordinate order, integer entries *)
TpCases == <<
  [kvs |-> << <<0,0,1,3,3>>, <<0,0,0,1,2,2,2>> >>,                     ps |-> <<1,2>>],
  [kvs |-> << <<0,0,0,2,2,3,3,3>>, <<0,0,1,2,2>> >>,                   ps |-> <<2,1>>],
  [kvs |-> << <<0,1,3>>, <<0,0,0,0,1,2,2,2,2>> >>,                     ps |-> <<0,3>>],
  [kvs |-> << <<0,0,2,2>>, <<0,0,0,1,1,1>>, <<0,0,1,3,3>> >>,          ps |-> <<1,2,1>>],
  [kvs |-> << <<0,0,0,1,2,2,2>>, <<0,0,1,1>>, <<0,0,0,0,2,2,2,2>> >>,  ps |-> <<2,1,3>>],
  [kvs |-> << <<0,0,0,1,1,1>>, <<0,0,0,1,1,1>> >>,                     ps |-> <<2,2>>],
  [kvs |-> << <<0,0,1,2,2>>, <<0,0,1,1>>, <<0,0,1,1>> >>,              ps |-> <<1,1,1>>],
  [kvs |-> << <<0,0,1,2,2>>, <<0,0,1,2,3,3>> >>,                       ps |-> <<1,1>>],
  [kvs |-> << <<0,0,1,2,2>>, <<0,0,1,2,2>>, <<0,0,1,2,3,3>> >>,        ps |-> <<1,1,1>>],
  \* twins: equal degree and number of knots in every direction, different breakpoints
  [kvs |-> << <<0,0,1,3,3>>, <<0,0,2,3,3>> >>,                         ps |-> <<1,1>>],
  [kvs |-> << <<0,0,0,1,3,3,3>>, <<0,0,0,2,3,3,3>>, <<0,0,0,1,2,2,2>> >>, ps |-> <<2,2,2>>]
>>
IdA(d) == [i \in 1..d |-> [j \in 1..d |-> IF i = j THEN One ELSE Zero]]
IntMat(M) == [i \in 1..Len(M) |-> [j \in 1..Len(M[i]) |-> R(M[i][j])]]
Geos(d) ==
  IF d = 2 THEN << IdA(2), IntMat(<< <<2, 0>>, <<0, 3>> >>), IntMat(<< <<2, 1>>, <<0, 3>> >>), IntMat(<< <<1, 2>>, <<3, 1>> >>) >>
  ELSE << IdA(3), IntMat(<< <<2, 0, 0>>, <<0, 1, 0>>, <<0, 0, 3>> >>), IntMat(<< <<1, 1, 0>>, <<0, 2, 0>>, <<0, 1, 1>> >>),
          \* full matrices: every entry takes part in the determinant / cofactors (det = 16 and det = -8)
          IntMat(<< <<2, 1, 1>>, <<1, 3, 1>>, <<1, 2, 4>> >>), IntMat(<< <<1, 2, 0>>, <<3, 1, 1>>, <<1, 0, 2>> >>) >>
IsDiag(A) == \A i \in 1..Len(A) : \A j \in 1..Len(A) : i # j => IsZero(A[i][j])

-------------------------------------------------------------------------------
Init == ph = "root" /\ deg = 0 /\ kv = <<>> /\ sel = 0
PickSym  == ph = "root" /\ "sym" \in Phases /\ \E pp \in Degrees : \E v \in KVS(pp) :
              ph' = "sym" /\ deg' = pp /\ kv' = v /\ sel' = 0
PickAsym == ph = "sym" /\ "asym" \in Phases /\ \E m \in 1..Len(Pairs) : ph' = "asym" /\ sel' = m /\ UNCHANGED <<deg, kv>>
PickTp   == ph = "root" /\ "tp" \in Phases /\ \E c \in TpIds : \E gm \in 1..Len(Geos(Len(TpCases[c].kvs))) :
              ph' = "tp" /\ deg' = c /\ sel' = gm /\ kv' = <<>>
Next == PickSym \/ PickAsym \/ PickTp
Spec == Init /\ [][Next]_vars

-------------------------------------------------------------------------------
MaxD == IntMin(deg, PF(deg).maxd)
nn   == NumDofs(kv, deg)

PiecesOK(v, p) ==      \* the Taylor pieces are the B-splines: agreement at p+1 interior points of every cell
  LET g == MeshGrid(v) IN
  \A c \in 1..(Len(g) - 1) :
     LET P1 == Pieces(v, p, g[c])  h == Sub(g[c + 1], g[c]) IN
     \A m \in 1..(p + 1) :
        LET t == Mul(h, Q(m, p + 2))
            row == BasisRow(v, p, Add(g[c], t))
        IN \A r \in 1..(p + 1) : PolyEval(P1.poly[r], t) = row[P1.first + r]

SymOK ==
  ph = "sym" =>
  LET p   == deg
      F   == Tab(MaxD + 1, LAMBDA x : Tab(MaxD + 1, LAMBDA y : Biform(kv, p, x - 1, y - 1)))     \* F[du+1][dv+1]
      len == R(KLast(kv) - KFirst(kv))
      WM  == Tab(Len(Weights), LAMBDA m : BiformW(kv, p, 0, 0, Weights[m]))
      WK  == IF p >= 1 THEN Tab(Len(Weights), LAMBDA m : BiformW(kv, p, 1, 1, Weights[m])) ELSE <<>>
      LD  == Tab(Len(Datas), LAMBDA m : Load1D(kv, p, Datas[m]))
  IN /\ PiecesOK(kv, p)
     /\ \A x \in 1..(MaxD + 1) : \A y \in 1..(MaxD + 1) :
          /\ Len(F[x][y]) = nn /\ Len(F[x][y][1]) = nn
          /\ F[x][y] = MatT(F[y][x])                                             \* swapping du, dv transposes
          /\ x >= 2 => RowSumsZero(F[x][y])                                      \* sum_i D^du B_i = 0
     /\ MatSum(F[1][1]) = len                                                    \* sum M = |Omega|
     /\ \A i \in 1..nn : Sign(F[1][1][i][i]) > 0 /\ \A j \in 1..nn : Sign(F[1][1][i][j]) >= 0
     /\ \A m \in 1..Len(Weights) : /\ MatSum(WM[m]) = Integral1D(kv, Weights[m]) /\ IsSymmetric(WM[m])
     /\ p >= 1 =>
          /\ \A i \in 1..nn : Sign(F[2][2][i][i]) > 0
          /\ RankModP(F[2][2]) = nn - 1                                          \* with K 1 = 0: kernel of K = constants
          /\ \A m \in 1..Len(Weights) : IsSymmetric(WK[m]) /\ RowSumsZero(WK[m])
          \* integration by parts: int B_i' B_j + int B_i B_j' = [B_i B_j] at the two ends
          /\ \A i \in 1..nn : \A j \in 1..nn :
               Add(F[2][1][j][i], F[1][2][j][i]) = (IF i = nn /\ j = nn THEN One ELSE IF i = 1 /\ j = 1 THEN R(-1) ELSE Zero)
     /\ \A m \in 1..Len(Datas) : SumSeq(LD[m]) = Integral1D(kv, Datas[m])         \* partition of unity
     /\ Emit("SYM", [kv |-> kv, p |-> p,
                     forms  |-> [m \in 1..((MaxD + 1) * (MaxD + 1)) |->
                                   LET x == ((m - 1) \div (MaxD + 1)) + 1  y == ((m - 1) % (MaxD + 1)) + 1 IN
                                   [du |-> x - 1, dv |-> y - 1, M |-> F[x][y]]],
                     wmass  |-> [m \in 1..Len(Weights) |-> [w |-> Weights[m], M |-> WM[m]]],
                     wstiff |-> [m \in 1..Len(WK) |-> [w |-> Weights[m], M |-> WK[m]]],
                     loads  |-> [m \in 1..Len(Datas) |-> [f |-> Datas[m], L |-> LD[m], I |-> Integral1D(kv, Datas[m])]]])

AsymOK ==
  ph = "asym" =>
  LET pr  == Pairs[sel]
      md  == IntMin(1, IntMin(pr.p1, pr.p2))
      F   == Tab(md + 1, LAMBDA x : Tab(md + 1, LAMBDA y : BiformGrid(pr.kv1, pr.p1, pr.kv2, pr.p2, x - 1, y - 1, PolyOne, pr.grid)))
      n1  == NumDofs(pr.kv1, pr.p1)
      n2  == NumDofs(pr.kv2, pr.p2)
      ug  == UnionGrid(MeshGrid(pr.kv1), MeshGrid(pr.kv2))
  IN /\ IsOpen(pr.kv1, pr.p1) /\ IsOpen(pr.kv2, pr.p2)
     /\ IsQuadGrid(pr.grid, pr.kv1) /\ IsQuadGrid(pr.grid, pr.kv2)
     /\ Len(F[1][1]) = n2 /\ Len(F[1][1][1]) = n1
     /\ MatSum(F[1][1]) = R(KLast(kv) - KFirst(kv))
     /\ \A x \in 1..(md + 1) : \A y \in 1..(md + 1) :
          /\ F[x][y] = MatT(BiformGrid(pr.kv2, pr.p2, pr.kv1, pr.p1, y - 1, x - 1, PolyOne, pr.grid))   \* roles swapped
          /\ F[x][y] = BiformGrid(pr.kv1, pr.p1, pr.kv2, pr.p2, x - 1, y - 1, PolyOne, ug)             \* grid independent
     /\ (pr.p1 = pr.p2 /\ IsRefinement(pr.kv1, pr.kv2)) =>        \* trial space coarser: A(kv1, kv2) = A(kv2, kv2) P
          F[1][1] = MatMulT(Biform(pr.kv2, pr.p2, 0, 0), Prolong(pr.kv1, pr.kv2, pr.p1))
     /\ Emit("ASYM", [name |-> pr.name, kv1 |-> pr.kv1, p1 |-> pr.p1, kv2 |-> pr.kv2, p2 |-> pr.p2, grid |-> pr.grid,
                      defaultgrid |-> (pr.grid = MeshGrid(pr.kv1)),
                      forms |-> [m \in 1..((md + 1) * (md + 1)) |->
                                   LET x == ((m - 1) \div (md + 1)) + 1  y == ((m - 1) % (md + 1)) + 1 IN
                                   [du |-> x - 1, dv |-> y - 1, M |-> F[x][y]]]])

TpOK ==
  ph = "tp" =>
  LET C    == TpCases[deg]
      d    == Len(C.kvs)
      A    == Geos(d)[sel]
      tab  == BiTab(C.kvs, C.ps)
      NN   == TPNumDofs(C.kvs, C.ps)
      vol  == FoldLeft(LAMBDA acc, a : acc * (KLast(C.kvs[a]) - KFirst(C.kvs[a])), 1, Ints(d))
      M    == MassAffine(tab, A)
      K    == StiffAffine(tab, A)
      dd   == d = 2 \/ IsDiag(A)                       \* div-div blocks (3-D: diagonal geometries only, cost)
      DD   == IF dd THEN Tab(d, LAMBDA cv : Tab(d, LAMBDA cu : DivDivBlock(tab, A, cv, cu))) ELSE <<>>
      LDa  == Tab(d, LAMBDA a : Tab(Len(Datas), LAMBDA m : Load1D(C.kvs[a], C.ps[a], Datas[m])))
      \* separable data f(xi) = prod_a Datas[m_a](xi_a) with m_a = ((a + t) mod 3) + 1, terms t = 0, 1 summed
      term(t) == KronSeq(Tab(d, LAMBDA a : Tab(Len(LDa[a][((a + t) % 3) + 1]), LAMBDA i : <<LDa[a][((a + t) % 3) + 1][i]>>)))
      LV   == Tab(NN, LAMBDA I : Add(term(0)[I][1], term(1)[I][1]))
      ival == Add(FoldLeft(LAMBDA acc, a : Mul(acc, Integral1D(C.kvs[a], Datas[((a + 0) % 3) + 1])), One, Ints(d)),
                  FoldLeft(LAMBDA acc, a : Mul(acc, Integral1D(C.kvs[a], Datas[((a + 1) % 3) + 1])), One, Ints(d)))
  IN /\ \A a \in 1..d : IsOpen(C.kvs[a], C.ps[a])
     /\ Len(M) = NN /\ IsSymmetric(M) /\ IsSymmetric(K)
     /\ MatSum(M) = Mul(AbsR(Det(A)), R(vol))                                      \* sum M = |Omega|
     /\ RowSumsZero(K)                                                             \* K 1 = 0
     /\ (\A a \in 1..d : C.ps[a] >= 1) => RankModP(K) = NN - 1                        \* with K 1 = 0: kernel = constants
     /\ dd => \A cv \in 1..d : \A cu \in 1..d : DD[cv][cu] = MatT(DD[cu][cv])
     /\ SumSeq(LV) = ival
     /\ Emit("TP", [id |-> deg, geo |-> sel, kvs |-> C.kvs, ps |-> C.ps, A |-> A, N |-> NN,
                    mass |-> M, stiff |-> K, divdiv |-> DD,
                    datas |-> [t \in 1..2 |-> [a \in 1..d |-> Datas[((a + t - 1) % 3) + 1]]],
                    load |-> LV, integral |-> ival])
===============================================================================
