------------------------------ MODULE BSplineTP ------------------------------
(* C02 -- tensor-product evaluation (BSplineFunc.grid_eval / grid_jacobian / grid_hessian / eval and the pointwise
   evaluators tp_bsp_*_pointwise) against the exact reference of BSplineRef.

   One state per case: a tensor-product space (1-3 axes, pyiga axis order: LAST axis = x, different degrees and sizes
   per axis so that any axis mix-up changes the numbers), an integer coefficient array with VD components, and a
   tensor grid of sample points per axis.  Emitted: for every derivative multi-index ks (per axis) with |ks| <= 2 the
   exact values on the whole grid.  TLC checks: partition of unity of the tensor-product basis (all coefficients 1 give
   1, every derivative 0) and the row-wise contraction = the declarative sum  sum_I c_I prod_a D^{ks_a} N_{I_a}.      *)
EXTENDS BSplineRef, TLC, Emit

CONSTANTS CaseIds,     \* set of indices into Cases
          Seed         \* varies the coefficients

VARIABLE cid

Cases == <<
  [kvs |-> << <<0,0,0,1,3,3,3>> >>,                                          ps |-> <<2>>,     vd |-> 2],
  [kvs |-> << <<0,0,1,3,3>>, <<0,0,0,1,2,2,2>> >>,                           ps |-> <<1,2>>,   vd |-> 1],
  [kvs |-> << <<0,0,0,2,2,3,3,3>>, <<0,0,0,0,1,4,4,4,4>> >>,                 ps |-> <<2,3>>,   vd |-> 2],
  [kvs |-> << <<0,0,2,2>>, <<0,0,0,1,2,2,2>>, <<0,0,1,3,3>> >>,              ps |-> <<1,2,1>>, vd |-> 2],
  [kvs |-> << <<0,0,0,1,1,1>>, <<0,0,1,2,2>>, <<0,0,0,0,2,2,2,2>> >>,        ps |-> <<2,1,3>>, vd |-> 1],
  [kvs |-> << <<0,0,0,0,1,2,2,3,3,3,3>>, <<0,0,0,1,1,4,4,4>> >>,             ps |-> <<3,2>>,   vd |-> 1],
  [kvs |-> << <<0,1,2,4>>, <<0,0,0,0,1,1,1,1>> >>,                           ps |-> <<0,3>>,   vd |-> 1],
  [kvs |-> << <<0,0,0,0,0,1,3,3,3,3,3>> >>,                                  ps |-> <<4>>,     vd |-> 1]
>>

Init == cid = 0                       \* root; one successor per case (so that several workers share the cases)
Next == cid = 0 /\ cid' \in CaseIds
Spec == Init /\ [][Next]_cid

C      == Cases[cid]
D      == Len(C.kvs)
Shape  == TPShape(C.kvs, C.ps)
NN     == ShapeSize(Shape)

(* integer coefficients in -3..3; component c (1-based) of flat index I (1-based) *)
Coef(I, c)  == (((I + 1) * (I + 3) * 5 + 11 * c + 3 * I + Seed) % 7) - 3
CoefSeq(c)  == Tab(NN, LAMBDA I : R(Coef(I, c)))

(* grid points per axis: every third sample point starting at an axis dependent offset, plus both ends *)
AxisGrid(a) ==
  LET sp == SamplePoints(C.kvs[a])
      S  == {m \in 1..Len(sp) : m = 1 \/ m = Len(sp) \/ (m % 3) = (a % 3)}
      ix == SortedSeq(S)
  IN [j \in 1..Len(ix) |-> sp[ix[j]]]

(* derivative multi-indices (per axis) of total order <= 2 *)
KSet == {ks \in [1..D -> 0..2] : FoldLeft(LAMBDA acc, a : acc + ks[a], 0, Ints(D)) <= 2}
KSeq == SetToSortSeq(KSet, LAMBDA x, y : \E a \in 1..D : x[a] < y[a] /\ \A b \in 1..(a - 1) : x[b] = y[b])

TPOK ==
  cid # 0 =>
  LET G     == Tab(D, LAMBDA a : AxisGrid(a))
      gs    == Tab(D, LAMBDA a : Len(G[a]))
      AxT   == Tab(D, LAMBDA a : PointTables(C.kvs[a], C.ps[a], 2, G[a]))     \* AxT[a][pt][k+1][i+1]
      coefs == Tab(C.vd, LAMBDA c : CoefSeq(c))
      ones  == Tab(NN, LAMBDA I : One)
      mis   == MultiIndices(Shape)
      npts  == ShapeSize(gs)
      gmi   == MultiIndices(gs)                                                \* grid point J -> per-axis point index
      rowsAt(J, ks) == Tab(D, LAMBDA a : AxT[a][gmi[J][a] + 1][ks[a] + 1])
      val(J, ks, c) == TPContractMI(rowsAt(J, ks), mis, coefs[c])
      vals(ks)      == LET RW == Tab(npts, LAMBDA J : rowsAt(J, ks)) IN
                       Tab(C.vd, LAMBDA c : Tab(npts, LAMBDA J : TPContractMI(RW[J], mis, coefs[c])))
      \* declarative value at grid point J
      decl(J, ks, c) ==
        LET us == [a \in 1..D |-> G[a][gmi[J][a] + 1]] IN
        SumSeq([I \in 1..NN |-> Mul(coefs[c][I], TPBasis(C.kvs, C.ps, mis[I], ks, us))])
      mid == (npts + 1) \div 2
  IN /\ \A a \in 1..D : IsOpen(C.kvs[a], C.ps[a])
     \* partition of unity: per axis at every grid point, and of the tensor-product basis at two grid points
     /\ \A a \in 1..D : \A m \in 1..gs[a] : \A k \in 0..2 : SumSeq(AxT[a][m][k + 1]) = (IF k = 0 THEN One ELSE Zero)
     /\ \A J \in {1, mid} : \A m \in 1..Len(KSeq) :
           TPContractMI(rowsAt(J, KSeq[m]), mis, ones) = (IF \A a \in 1..D : KSeq[m][a] = 0 THEN One ELSE Zero)
     /\ \A m \in 1..Len(KSeq) : val(mid, KSeq[m], 1) = decl(mid, KSeq[m], 1)
     /\ Emit("TP", [id |-> cid, kvs |-> C.kvs, ps |-> C.ps, vd |-> C.vd, shape |-> Shape,
                    coeffs |-> [c \in 1..C.vd |-> [I \in 1..NN |-> Coef(I, c)]],
                    grid |-> G,
                    derivs |-> [m \in 1..Len(KSeq) |-> [ks |-> KSeq[m], vals |-> vals(KSeq[m])]]])
===============================================================================
