------------------------------- MODULE HSpace -------------------------------
(* C04 -- hierarchical spline spaces under refinement (pyiga/hierarchical.py: HMesh.refine,
   HSpace.refine, _mark_recursive, _cell_neighborhood, cell_support_extension,
   _functions_to_deactivate).

   Tensor-product levels: level l has N[a] * 2^l cells along axis a, degree P[a], open knot vectors
   with simple interior knots, i.e. N[a]*2^l + P[a] functions along axis a; function j lives on the
   cells j-P .. j (clipped).  Cells and functions are D-tuples (D = 1 or 2).

   Two layers:
     * declarative definitions the property talks about (Omega, FunChar, Tiling, DisparityOK);
     * a code-shaped model of refine(): the anchored lines in their order
       (EnsureLevels, MarkRecursive, HMesh.refine, FunctionsToDeactivate, ActivateCandidates).
   TLC checks that the code-shaped state satisfies the declarative characterisation in every
   reachable state, i.e. the algorithm is history independent and the properties hold.         *)
EXTENDS Integers, Sequences, FiniteSets, SequencesExt, FiniteSetsExt, TLC, Emit

CONSTANTS D, P1, P2, N1, N2,
          MaxLev,      \* levels 0..MaxLev-1 exist in the model; marks only on levels <= MaxLev-2
          Disp,        \* mesh level disparity; 0 encodes infinity
          TruncMark,   \* the `truncate` flag of refine() (truncated-basis marking neighbourhood)
          MaxCalls,    \* bound on the number of refine calls
          MarkCap,     \* a call marks at most MarkCap cells in total, or one whole level (0 = all subsets;
                       \* 90 = an interval of the active cells of one level, D = 1;
                       \* 91 = the same chosen by RandomElement, one successor per state, for -simulate)
          DoEmit

VARIABLES active, deact, actfun, deactfun,   \* per level (index l+1): sets of tuples
          L,                                  \* number of levels the implementation has created
          hist                                \* sequence of calls: each a sequence (per level) of sets of cells

vars == <<active, deact, actfun, deactfun, L, hist>>
View == <<active, deact, actfun, deactfun, L, Len(hist)>>   \* the call bound depends on Len(hist): it must be part of the view,
                                                             \* or a multi-worker (non-strict BFS) run prunes states first reached by a longer history

Levels == 0..(MaxLev - 1)
PP == <<P1, P2>>
NN == <<N1, N2>>
Axes == 1..D

RECURSIVE Pow2(_)
Pow2(e) == IF e = 0 THEN 1 ELSE 2 * Pow2(e - 1)
NC(l, a) == NN[a] * Pow2(l)                 \* cells along axis a on level l
NF(l, a) == NC(l, a) + PP[a]                \* functions along axis a on level l

Box(lo, hi) ==                              \* all D-tuples t with lo[a] <= t[a] <= hi[a]
  IF D = 1 THEN {<<x>> : x \in lo[1]..hi[1]}
  ELSE {<<x, y>> : x \in lo[1]..hi[1], y \in lo[2]..hi[2]}

Cells(l) == Box([a \in Axes |-> 0], [a \in Axes |-> NC(l, a) - 1])
Funs(l)  == Box([a \in Axes |-> 0], [a \in Axes |-> NF(l, a) - 1])

MaxI(x, y) == IF x > y THEN x ELSE y
MinI(x, y) == IF x < y THEN x ELSE y

Supp(l, j) == Box([a \in Axes |-> MaxI(0, j[a] - PP[a])], [a \in Axes |-> MinI(NC(l, a) - 1, j[a])])
SuppOf(l, F) == UNION {Supp(l, j) : j \in F}                 \* TPMesh.support
FunsOn(l, c) == Box(c, [a \in Axes |-> c[a] + PP[a]])         \* functions whose support contains cell c
SuppIn(l, C) == UNION {FunsOn(l, c) : c \in C}                \* TPMesh.supported_in

Children(C) == UNION {Box([a \in Axes |-> 2 * c[a]], [a \in Axes |-> 2 * c[a] + 1]) : c \in C}
Anc(l, C, k) == {[a \in Axes |-> c[a] \div Pow2(l - k)] : c \in C}     \* cell_grandparent (k <= l)

-----------------------------------------------------------------------------
(* declarative side *)
Exists(l) == active[l + 1] \cup deact[l + 1]      \* Omega^l in units of level-l cells

FunChar ==
  \A l \in Levels :
    /\ actfun[l + 1]   = {j \in Funs(l) : Supp(l, j) \subseteq Exists(l) /\ ~(Supp(l, j) \subseteq deact[l + 1])}
    /\ deactfun[l + 1] = {j \in Funs(l) : Supp(l, j) \subseteq deact[l + 1]}

Disjoint == \A l \in Levels : active[l + 1] \cap deact[l + 1] = {}

Nested ==   \* level l+1 exists exactly on the children of the refined cells of level l
  /\ Exists(0) = Cells(0)
  /\ \A l \in 0..(MaxLev - 2) : Exists(l + 1) = Children(deact[l + 1])
  /\ deact[MaxLev] = {}

Tiling ==   \* every cell of the finest level has exactly one active ancestor-or-self
  \A c \in Cells(MaxLev - 1) :
    Cardinality({l \in Levels : Anc(MaxLev - 1, {c}, l) \subseteq active[l + 1]}) = 1

DisparityOK ==     \* stated for the default marking; with the truncated-basis marking (TruncMark) the
                   \* neighbourhood is one level tighter and the bound concerns truncated supports -- not claimed
  (Disp > 0 /\ ~TruncMark) =>
    \A k \in Levels : \A l \in Levels : l > k + Disp =>
      \A c \in active[l + 1] : SuppIn(k, Anc(l, {c}, k)) \cap actfun[k + 1] = {}

LevelsOK == \A l \in Levels : l >= L => (active[l + 1] = {} /\ deact[l + 1] = {} /\ actfun[l + 1] = {})

-----------------------------------------------------------------------------
(* code-shaped side *)
CSE(l, C, k) == SuppOf(k, SuppIn(k, Anc(l, C, k)))                 \* cell_support_extension

Nbhd(l, C) ==                                                      \* _cell_neighborhood
  IF Disp = 0 \/ l - Disp < 0 THEN {}
  ELSE IF TruncMark
       THEN active[l - Disp + 1] \cap Anc(l - Disp + 1, CSE(l, C, l - Disp + 1), l - Disp)
       ELSE active[l - Disp + 1] \cap CSE(l, C, l - Disp)

RECURSIVE MarkRec(_, _)
MarkRec(l, m) ==                                                   \* _mark_recursive
  LET nb == Nbhd(l, m[l + 1]) IN
  IF nb = {} THEN m
  ELSE MarkRec(l - Disp, [m EXCEPT ![l - Disp + 1] = @ \cup nb])

MarkAll(m0, Lnew) ==                                               \* for l in range(numlevels): _mark_recursive
  IF Disp = 0 THEN m0
  ELSE FoldLeft(LAMBDA m, l : MarkRec(l, m), m0, [i \in 1..Lnew |-> i - 1])

MaxMarked(m) == CHOOSE l \in Levels : m[l + 1] # {} /\ \A k \in Levels : k > l => m[k + 1] = {}

RefineResult(m0) ==
  LET Lnew == MaxI(L, MaxMarked(m0) + 2)                           \* _ensure_levels(max_lv + 2)
      m    == MarkAll(m0, Lnew)
      \* HMesh.refine
      newc == [i \in 1..MaxLev |-> IF i = 1 \/ i > Lnew THEN {} ELSE Children(m[i - 1])]
      act1 == [i \in 1..MaxLev |-> IF i < Lnew THEN (active[i] \ m[i]) \cup newc[i] ELSE active[i] \cup newc[i]]
      dea1 == [i \in 1..MaxLev |-> IF i < Lnew THEN deact[i] \cup m[i] ELSE deact[i]]
      \* _functions_to_deactivate (evaluated after the mesh update)
      mf   == [i \in 1..MaxLev |-> {f \in SuppIn(i - 1, m[i]) \cap actfun[i] : Supp(i - 1, f) \cap act1[i] = {}}]
      \* the loop over lv = 0 .. numlevels-2
      step(st, lv) ==
        LET i    == lv + 1
            af   == [st.af EXCEPT ![i] = @ \ mf[i]]
            df   == [st.df EXCEPT ![i] = @ \cup mf[i]]
            cand == SuppIn(lv + 1, newc[i + 1]) \ af[i + 1]
            fine == act1[i + 1] \cup dea1[i + 1]
            nf   == {f \in cand : Supp(lv + 1, f) \subseteq fine}
        IN [af |-> [af EXCEPT ![i + 1] = @ \cup nf], df |-> df]
      fin  == FoldLeft(step, [af |-> actfun, df |-> deactfun], [i \in 1..(Lnew - 1) |-> i - 1])
  IN [L |-> Lnew, m |-> m, active |-> act1, deact |-> dea1, actfun |-> fin.af, deactfun |-> fin.df]

\* admissible user marks: per level a set of currently active cells, not all empty, levels <= MaxLev-2
Interval(S, a, b) == {c \in S : a <= c[1] /\ c[1] <= b}             \* 1-D: contiguous run of cells (by index)
MarkSets(l) ==
  IF l > MaxLev - 2 THEN {{}}
  ELSE IF MarkCap = 0 THEN SUBSET active[l + 1]
  ELSE IF MarkCap = 90 THEN         \* (cfg files cannot hold negative numbers: 90 encodes this mode) D = 1 only: intervals of active cells of ONE level (adaptive refinement towards a region)
       {{}} \cup {Interval(active[l + 1], a[1], b[1]) : a \in active[l + 1], b \in active[l + 1]}
  ELSE {S \in SUBSET active[l + 1] : Cardinality(S) <= MarkCap} \cup {active[l + 1]}

TotalOK(m) ==
  /\ \E i \in 1..MaxLev : m[i] # {}
  /\ MarkCap = 90 => Cardinality({i \in 1..MaxLev : m[i] # {}}) = 1
  /\ (MarkCap > 0 /\ MarkCap < 90) =>
       \/ FoldLeft(LAMBDA s, i : s + Cardinality(m[i]), 0, [i \in 1..MaxLev |-> i]) <= MarkCap
       \/ \E i \in 1..MaxLev : m[i] = active[i] /\ \A k \in 1..MaxLev : k # i => m[k] = {}

Apply(m0) ==
  LET r == RefineResult(m0) IN
  /\ active' = r.active /\ deact' = r.deact /\ actfun' = r.actfun /\ deactfun' = r.deactfun /\ L' = r.L
  /\ hist' = Append(hist, [marks |-> [i \in 1..MaxLev |-> SetToSeq(m0[i])],
                            closure |-> [i \in 1..MaxLev |-> SetToSeq(r.m[i])]])

Refine ==
  /\ Len(hist) < MaxCalls
  /\ IF MaxLev = 2 THEN \E s0 \in MarkSets(0) :
                         LET m == <<s0, {}>> IN TotalOK(m) /\ Apply(m)
     ELSE IF MaxLev = 3 THEN \E s0 \in MarkSets(0), s1 \in MarkSets(1) :
                         LET m == <<s0, s1, {}>> IN TotalOK(m) /\ Apply(m)
     ELSE IF MaxLev = 4 THEN \E s0 \in MarkSets(0), s1 \in MarkSets(1), s2 \in MarkSets(2) :
                         LET m == <<s0, s1, s2, {}>> IN TotalOK(m) /\ Apply(m)
     ELSE IF MarkCap = 91 THEN       \* random deep histories (-simulate): ONE successor per state, chosen with RandomElement
          \* (bound through singleton sets so that every RandomElement is evaluated exactly once)
          LET lvls == {l \in 0..(MaxLev - 2) : active[l + 1] # {}}
              deep == CHOOSE l \in lvls : \A q \in lvls : q <= l
          IN \E coin \in {RandomElement(1..3)} :
             \E lv \in {IF coin = 1 THEN RandomElement(lvls) ELSE RandomElement({l \in lvls : l >= deep - 1})} :
             \E sl \in {RandomElement({Interval(active[lv + 1], x[1], y[1]) : x \in active[lv + 1], y \in active[lv + 1]} \ {{}})} :
                LET m == [i \in 1..MaxLev |-> IF i = lv + 1 THEN sl ELSE {}] IN Apply(m)
     ELSE \* deeper hierarchies: one marked level per call
          \E lv \in 0..(MaxLev - 2) : \E sl \in MarkSets(lv) :
                         LET m == [i \in 1..MaxLev |-> IF i = lv + 1 THEN sl ELSE {}] IN TotalOK(m) /\ Apply(m)

Init ==
  /\ active   = [i \in 1..MaxLev |-> IF i = 1 THEN Cells(0) ELSE {}]
  /\ deact    = [i \in 1..MaxLev |-> {}]
  /\ actfun   = [i \in 1..MaxLev |-> IF i = 1 THEN Funs(0) ELSE {}]
  /\ deactfun = [i \in 1..MaxLev |-> {}]
  /\ L = 1
  /\ hist = <<>>

Next == Refine
Spec == Init /\ [][Next]_vars

\* canonical order and the function/cell incidence the queries must agree with
LexLt(a, b) == \E i \in Axes : a[i] < b[i] /\ \A h \in 1..(i - 1) : a[h] = b[h]
Canon(S) == FoldLeft(LAMBDA acc, i : acc \o [n \in 1..Cardinality(S[i]) |-> [l |-> i - 1, x |-> SetToSortSeq(S[i], LexLt)[n]]],
                     <<>>, [i \in 1..MaxLev |-> i])
Overlap(lf, j, lc, c) ==     \* does cell c of level lc meet the support of function j of level lf ?
  IF lc >= lf THEN Anc(lc, {c}, lf) \subseteq Supp(lf, j)
  ELSE c \in Anc(lf, Supp(lf, j), lc)
Incidence ==
  LET F == Canon(actfun)  C == Canon(active) IN
  [canonF |-> F, canonC |-> C,
   pairs |-> SelectSeq([n \in 1..(Len(C) * Len(F)) |-> <<((n - 1) \div Len(F)) + 1, ((n - 1) % Len(F)) + 1>>],
                       LAMBDA pr : Overlap(F[pr[2]].l, F[pr[2]].x, C[pr[1]].l, C[pr[1]].x))]

\* one record per distinct state: its BFS history and the state the code must be in (sets as sequences)
EmitState ==
  (DoEmit /\ Len(hist) > 0) =>
     Emit("ST", [hist |-> hist, L |-> L,
                 active   |-> [i \in 1..MaxLev |-> SetToSeq(active[i])],
                 deact    |-> [i \in 1..MaxLev |-> SetToSeq(deact[i])],
                 actfun   |-> [i \in 1..MaxLev |-> SetToSeq(actfun[i])],
                 deactfun |-> [i \in 1..MaxLev |-> SetToSeq(deactfun[i])],
                 inc |-> Incidence])
=============================================================================
