------------------------------- MODULE Rat -------------------------------
(* Exact rational arithmetic for TLC: a rational is a normalised pair <<n,d>>, d > 0,
   gcd(|n|,d) = 1.  TLC integers are 32 bit and TLC raises on overflow, so every operator
   cancels common factors before multiplying. *)
EXTENDS Integers, Sequences, SequencesExt

RAbs(x) == IF x < 0 THEN -x ELSE x

RECURSIVE GCD(_, _)
GCD(a, b) == IF b = 0 THEN a ELSE GCD(b, a % b)

Norm(n, d) ==
  IF n = 0 THEN <<0, 1>>
  ELSE LET g == GCD(RAbs(n), RAbs(d))
           s == IF d < 0 THEN -1 ELSE 1
       IN <<s * (n \div g), s * (d \div g)>>

R(i)  == <<i, 1>>
Zero  == <<0, 1>>
One   == <<1, 1>>
Q(n, d) == Norm(n, d)

Add(a, b) ==
  IF a[1] = 0 THEN b ELSE IF b[1] = 0 THEN a ELSE
  LET g == GCD(a[2], b[2]) IN
    Norm(a[1] * (b[2] \div g) + b[1] * (a[2] \div g), (a[2] \div g) * b[2])

Neg(a)    == <<-a[1], a[2]>>
Sub(a, b) == Add(a, Neg(b))

Mul(a, b) ==
  IF a[1] = 0 \/ b[1] = 0 THEN Zero ELSE
  LET g1 == GCD(RAbs(a[1]), b[2])
      g2 == GCD(RAbs(b[1]), a[2])
  IN <<(a[1] \div g1) * (b[1] \div g2), (a[2] \div g2) * (b[2] \div g1)>>

Inv(a)    == IF a[1] < 0 THEN <<-a[2], -a[1]>> ELSE <<a[2], a[1]>>
Div(a, b) == Mul(a, Inv(b))

Lt(a, b)  == a[1] * b[2] < b[1] * a[2]
Le(a, b)  == a[1] * b[2] <= b[1] * a[2]
IsZero(a) == a[1] = 0
Sign(a)   == IF a[1] > 0 THEN 1 ELSE IF a[1] < 0 THEN -1 ELSE 0
AbsR(a)   == <<RAbs(a[1]), a[2]>>
MaxR(a, b) == IF Lt(a, b) THEN b ELSE a
MinR(a, b) == IF Lt(a, b) THEN a ELSE b

RECURSIVE PowR(_, _)
PowR(a, k) == IF k = 0 THEN One ELSE Mul(a, PowR(a, k - 1))

SumSeq(s)  == FoldLeft(Add, Zero, s)
ProdSeq(s) == FoldLeft(Mul, One, s)
Dot(u, v)  == SumSeq([i \in 1..Len(u) |-> Mul(u[i], v[i])])

\* dense matrices: sequences of rows
MatVec(M, x) == [i \in 1..Len(M) |-> Dot(M[i], x)]
Transpose(M) == IF Len(M) = 0 THEN <<>> ELSE [j \in 1..Len(M[1]) |-> [i \in 1..Len(M) |-> M[i][j]]]
MatMul(A, B) == LET BT == Transpose(B) IN [i \in 1..Len(A) |-> [j \in 1..Len(BT) |-> Dot(A[i], BT[j])]]
IdMat(n)     == [i \in 1..n |-> [j \in 1..n |-> IF i = j THEN One ELSE Zero]]
KronMat(A, B) ==  \* Kronecker product, A outer
  LET ra == Len(A)  ca == Len(A[1])  rb == Len(B)  cb == Len(B[1]) IN
  [i \in 1..(ra * rb) |-> [j \in 1..(ca * cb) |->
      Mul(A[((i - 1) \div rb) + 1][((j - 1) \div cb) + 1], B[((i - 1) % rb) + 1][((j - 1) % cb) + 1])]]

\* Gaussian elimination: solve A x = b for regular square A (exact)
RECURSIVE ElimCol(_, _, _)
ElimCol(M, k, n) ==   \* M is the augmented n x (n+1) matrix, k the current column
  IF k > n THEN M ELSE
  LET piv == CHOOSE r \in k..n : ~IsZero(M[r][k])
      M1  == [M EXCEPT ![k] = M[piv], ![piv] = M[k]]
      pr  == [j \in 1..(n + 1) |-> Div(M1[k][j], M1[k][k])]
      M2  == [i \in 1..n |-> IF i = k THEN pr
                             ELSE [j \in 1..(n + 1) |-> Sub(M1[i][j], Mul(M1[i][k], pr[j]))]]
  IN ElimCol(M2, k + 1, n)

Solve(A, b) ==
  LET n == Len(A)
      M == [i \in 1..n |-> [j \in 1..(n + 1) |-> IF j <= n THEN A[i][j] ELSE b[i]]]
      E == ElimCol(M, 1, n)
  IN [i \in 1..n |-> E[i][n + 1]]

\* rank by elimination
RECURSIVE RankFrom(_, _, _, _)
RankFrom(M, r, c, acc) ==   \* rows from r, columns from c
  IF r > Len(M) \/ c > Len(M[1]) THEN acc
  ELSE IF \A i \in r..Len(M) : IsZero(M[i][c]) THEN RankFrom(M, r, c + 1, acc)
  ELSE LET piv == CHOOSE i \in r..Len(M) : ~IsZero(M[i][c])
           M1  == [M EXCEPT ![r] = M[piv], ![piv] = M[r]]
           M2  == [i \in 1..Len(M) |-> IF i <= r THEN M1[i]
                    ELSE LET f == Div(M1[i][c], M1[r][c]) IN
                         [j \in 1..Len(M[1]) |-> Sub(M1[i][j], Mul(f, M1[r][j]))]]
       IN RankFrom(M2, r + 1, c + 1, acc + 1)
Rank(M) == IF Len(M) = 0 THEN 0 ELSE RankFrom(M, 1, 1, 0)

RatJ(a) == a   \* JSON: a rational is the array [n,d]
=============================================================================
