----------------------------- MODULE DirichletBC -----------------------------
(* C10, second part -- which dofs a boundary condition constrains and with which value
   (pyiga/assemble.py: slice_indices, boundary_dofs, boundary_cells, compute_dirichlet_bc(s),
   combine_bcs, compute_initial_condition_01, Multipatch.compute_dirichlet_bcs).

   Tensor-product space: D axes (axis D-1 is x, as in pyiga), shape[a] dofs and degree deg[a]
   along axis a, dofs numbered by C-order ravel.  A boundary specification is a pair
   (axis, side) or one of the names left/right (x), bottom/top (y), front/back (z).

   Boundary data are taken IN the trace space: function number f is the spline with the integer
   coefficients Coef(f, i) (i = global dof), so its interpolant on a face has exactly the
   coefficients Coef(f, i) of the face dofs i -- the expected values are integers.

   Families of cases (constant Parts selects the families of a TLC run):
     faces    slice_indices / boundary_dofs (with every flip) / boundary_cells, compute_dirichlet_bc
              for scalar, constant and vector data (blocked numbering i + j*prod(shape))
     bcs      compute_dirichlet_bcs on every list of <= 2 conditions (faces may repeat, corners and
              edges are shared), the "all" shorthand, three faces meeting in a corner
     combine  combine_bcs on arbitrary (index sequence, values) lists with conflicts
     init     compute_initial_condition_01: two boundary slices of the time axis carrying value and
              time derivative
     reject   boundary specifications that must be refused (ValueError)                      *)
EXTENDS Integers, Sequences, FiniteSets, SequencesExt, FiniteSetsExt, TLC, Rat, Emit

CONSTANTS Tier,     \* "quick" | "thorough"
          Dims,     \* set of dimensions explored in this run
          Parts     \* subset of {"faces", "bcs", "combine", "init", "reject"}

VARIABLES phase, sp, c
vars == <<phase, sp, c>>

-----------------------------------------------------------------------------
Prod(s) == FoldLeft(LAMBDA acc, v : acc * v, 1, s)
SeqRange(s) == {s[k] : k \in 1..Len(s)}
Injective(s) == \A a, b \in 1..Len(s) : a # b => s[a] # s[b]
SortedSeq(S) == SetToSortSeq(S, <)
\* TLC keeps [k \in 1..n |-> e] as a closure and re-evaluates e at every application; SubSeq turns it
\* into an explicit tuple once
Force(s) == SubSeq(s, 1, Len(s))

\* C-order unravel / ravel, axis 1 (TLA+ numbering) slowest
Unravel(i, shape) ==
  [a \in 1..Len(shape) |->
     (i \div Prod([b \in 1..(Len(shape) - a) |-> shape[a + b]])) % shape[a]]
Ravel(mi, shape) == FoldLeft(LAMBDA acc, a : acc * shape[a] + mi[a], 0, [a \in 1..Len(shape) |-> a])
DropAxis(s, ax) == [a \in 1..(Len(s) - 1) |-> IF a < ax THEN s[a] ELSE s[a + 1]]

(* slice of a tensor-product index set: axis ax (1-based) fixed at position pos (0-based); the
   other axes run in C order, reversed where flip (one entry per REMAINING axis) says so *)
SliceMulti(ax, pos, shape, flip) ==
  LET rs == DropAxis(shape, ax)
      M  == Prod(rs)
  IN Force([k \in 1..M |->
        LET r == Force(Unravel(k - 1, rs)) IN
        Force([a \in 1..Len(shape) |->
           IF a = ax THEN pos
           ELSE LET b == IF a < ax THEN a ELSE a - 1 IN
                IF flip[b] THEN shape[a] - 1 - r[b] ELSE r[b]])])
SliceDofs(ax, pos, shape, flip) ==
  LET m == SliceMulti(ax, pos, shape, flip) IN Force([k \in 1..Len(m) |-> Ravel(m[k], shape)])
NoFlip(D) == [b \in 1..(D - 1) |-> FALSE]

\* names
Names == <<"left", "right", "bottom", "top", "front", "back">>
NameRank(nm) == CHOOSE k \in 1..6 : Names[k] = nm
NameAx0(nm, D) == D - ((NameRank(nm) + 1) \div 2)          \* 0-based axis; negative = invalid
NameSide(nm) == (NameRank(nm) + 1) % 2
ValidNames(D) == {Names[k] : k \in 1..(2 * D)}
BdSpecs(D) ==
  {[name |-> "", ax |-> a, side |-> s] : a \in 0..(D - 1), s \in {0, 1}}
  \cup {[name |-> nm, ax |-> NameAx0(nm, D), side |-> NameSide(nm)] : nm \in ValidNames(D)}
PairSpecs(D) == {[name |-> "", ax |-> a, side |-> s] : a \in 0..(D - 1), s \in {0, 1}}

\* integer coefficients of boundary-data function number f
Coef(f, i) == ((((i * i) + (7 * i * (f + 1))) + (3 * f)) % 17) - 8

-----------------------------------------------------------------------------
AxisOpts == IF Tier = "quick" THEN {<<2, 1>>, <<3, 2>>, <<4, 2>>}
            ELSE {<<2, 1>>, <<3, 1>>, <<3, 2>>, <<4, 1>>, <<4, 2>>, <<4, 3>>, <<5, 2>>}
AxisOpts3 == IF Tier = "quick" THEN {<<2, 1>>, <<3, 2>>, <<4, 2>>}
             ELSE {<<2, 1>>, <<3, 1>>, <<3, 2>>, <<4, 2>>, <<4, 3>>}
Spaces(D) == {[D |-> D, shape |-> [a \in 1..D |-> o[a][1]], deg |-> [a \in 1..D |-> o[a][2]]] :
                o \in [1..D -> (IF D = 3 THEN AxisOpts3 ELSE AxisOpts)]}
NDofs(s) == Prod(s.shape)
Spans(s) == [a \in 1..s.D |-> s.shape[a] - s.deg[a]]

FaceSide(s, ax1, side) == IF side = 0 THEN 0 ELSE s.shape[ax1] - 1
FaceDofs(s, bd) == SliceDofs(bd.ax + 1, FaceSide(s, bd.ax + 1, bd.side), s.shape, NoFlip(s.D))

-----------------------------------------------------------------------------
Init == phase = "start" /\ sp = <<>> /\ c = <<>>

PickSpace ==
  /\ phase = "start" /\ Parts \cap {"faces", "bcs", "init", "reject"} # {}
  /\ \E D \in Dims : sp' \in Spaces(D)
  /\ phase' = "space" /\ c' = <<>>
  /\ Emit("SPACE", [D |-> sp'.D, shape |-> sp'.shape, deg |-> sp'.deg,
                    coef |-> [f \in 1..6 |-> [i \in 1..NDofs(sp') |-> Coef(f, i - 1)]]])

(* --- faces --------------------------------------------------------------- *)
Blocked(s, dofs, nc) ==      \* component j of vector data lives on dofs i + j * N, data function 3 + j
  [q \in 1..(nc * Len(dofs)) |->
     LET j == (q - 1) \div Len(dofs)  k == ((q - 1) % Len(dofs)) + 1 IN
     [dof |-> dofs[k] + j * NDofs(s), val |-> Coef(4 + j, dofs[k])]]

FaceCase(s, bd, hasflip, flip) ==
  LET ax1  == bd.ax + 1
      pos  == FaceSide(s, ax1, bd.side)
      m    == SliceMulti(ax1, pos, s.shape, flip)
      dofs == Force([k \in 1..Len(m) |-> Ravel(m[k], s.shape)])
      spn  == Force(Spans(s))
      cm   == SliceMulti(ax1, IF bd.side = 0 THEN 0 ELSE spn[ax1] - 1, spn, NoFlip(s.D))
  IN [kind |-> "face", D |-> s.D, shape |-> s.shape, deg |-> s.deg, bd |-> bd,
      hasflip |-> hasflip, flip |-> flip, multi |-> m, dofs |-> dofs,
      cellmulti |-> cm, cells |-> [k \in 1..Len(cm) |-> Ravel(cm[k], spn)],
      vals |-> [k \in 1..Len(dofs) |-> Coef(1, dofs[k])],
      vec2 |-> Blocked(s, dofs, 2), vec3 |-> Blocked(s, dofs, 3)]

Face ==
  /\ phase = "space" /\ "faces" \in Parts
  /\ \E bd \in BdSpecs(sp.D) :
       \/ c' = FaceCase(sp, bd, FALSE, NoFlip(sp.D))
       \/ \E fl \in [1..(sp.D - 1) -> BOOLEAN] : c' = FaceCase(sp, bd, TRUE, fl)
  /\ phase' = "case" /\ UNCHANGED sp
  /\ Emit("FACE", c')

\* slice_indices proper: every axis, every position incl. negative ones (wrap-around)
Slice ==
  /\ phase = "space" /\ "faces" \in Parts
  /\ \E ax \in 1..sp.D : \E pos \in (-sp.shape[ax])..(sp.shape[ax] - 1) :
       LET p0 == IF pos < 0 THEN pos + sp.shape[ax] ELSE pos
           m  == SliceMulti(ax, p0, sp.shape, NoFlip(sp.D)) IN
       c' = [kind |-> "slice", D |-> sp.D, shape |-> sp.shape, deg |-> sp.deg, ax |-> ax - 1, pos |-> pos,
             multi |-> m, dofs |-> [k \in 1..Len(m) |-> Ravel(m[k], sp.shape)]]
  /\ phase' = "case" /\ UNCHANGED sp
  /\ Emit("SLICE", c')

(* --- several conditions -------------------------------------------------- *)
\* conds: sequence of [bd, f]; a dof on several faces may take the value of any of them
BcsCase(s, conds, shorthand) ==
  LET faces == Force([q \in 1..Len(conds) |-> SeqRange(FaceDofs(s, conds[q].bd))])
      U     == UNION {faces[q] : q \in 1..Len(conds)}
      us    == SortedSeq(U)
      ents  == Force([k \in 1..Len(us) |->
                  LET d  == us[k]
                      qs == {q \in 1..Len(conds) : d \in faces[q]}
                      q0 == CHOOSE q \in qs : \A r \in qs : q <= r IN
                  [dof |-> d, adm |-> SortedSeq({Coef(conds[q].f, d) : q \in qs}),
                   first |-> Coef(conds[q0].f, d), nfaces |-> Cardinality(qs)]])
  IN [kind |-> "bcs", D |-> s.D, shape |-> s.shape, deg |-> s.deg, conds |-> conds,
      shorthand |-> shorthand, entries |-> ents]

AllFaces(D) == [q \in 1..(2 * D) |-> [name |-> "", ax |-> (q - 1) \div 2, side |-> (q - 1) % 2]]
Bcs ==
  /\ phase = "space" /\ "bcs" \in Parts
  /\ \/ \E b1 \in BdSpecs(sp.D), f1 \in {1, 2} :
          c' = BcsCase(sp, <<[bd |-> b1, f |-> f1]>>, FALSE)
     \/ \E b1 \in (IF Tier = "quick" THEN PairSpecs(sp.D) ELSE BdSpecs(sp.D)), b2 \in PairSpecs(sp.D), f2 \in {1, 2} :
          c' = BcsCase(sp, <<[bd |-> b1, f |-> 1], [bd |-> b2, f |-> f2]>>, FALSE)
     \/ \E f1 \in {1, 2} :         \* ("all", g)
          c' = BcsCase(sp, [q \in 1..(2 * sp.D) |-> [bd |-> AllFaces(sp.D)[q], f |-> f1]], TRUE)
     \/ /\ sp.D >= 2               \* one face per axis, three different data: corners see all of them
        /\ \E sides \in [1..sp.D -> {0, 1}] :
             c' = BcsCase(sp, [a \in 1..sp.D |-> [bd |-> [name |-> "", ax |-> a - 1, side |-> sides[a]],
                                                   f |-> a]], FALSE)
  /\ phase' = "case" /\ UNCHANGED sp
  /\ Emit("BCS", c')

(* --- combine_bcs on arbitrary data --------------------------------------- *)
CU == 0..3
CSeqs(maxlen) == UNION {{s \in [1..m -> CU] : Injective(s)} : m \in 0..maxlen}
CombineCase(bcs) ==      \* bcs: sequence of index sequences; value of entry k of bc q is 10 q + k
  LET U == UNION {SeqRange(bcs[q]) : q \in 1..Len(bcs)}
      us == SortedSeq(U)
      ents == [k \in 1..Len(us) |->
                 LET d == us[k] IN
                 [dof |-> d,
                  adm |-> SortedSeq(UNION {{10 * q + j : j \in {i \in 1..Len(bcs[q]) : bcs[q][i] = d}} :
                                           q \in 1..Len(bcs)})]]
  IN [kind |-> "combine", bcs |-> bcs,
      vals |-> [q \in 1..Len(bcs) |-> [j \in 1..Len(bcs[q]) |-> 10 * q + j]], entries |-> ents]
Combine ==
  /\ phase = "start" /\ "combine" \in Parts
  /\ \/ \E b1 \in CSeqs(3) : c' = CombineCase(<<b1>>)
     \/ \E b1 \in CSeqs(3), b2 \in CSeqs(3) : c' = CombineCase(<<b1, b2>>)
     \/ \E b1 \in CSeqs(2), b2 \in CSeqs(2), b3 \in CSeqs(2) : c' = CombineCase(<<b1, b2, b3>>)
  /\ phase' = "case" /\ UNCHANGED sp
  /\ Emit("COMBINE", c')

(* --- space-time initial condition ---------------------------------------- *)
\* the time axis carries an open knot vector of degree p with nsp = n - p spans on [ta, tb]: uniform, or (graded) with
\* the breakpoints ta + (tb - ta) k (k + 1) / (nsp (nsp + 1)), so that the first and the last span differ in width;
\* the derivative at an end involves the width of the span AT THAT END only
Intervals == <<<<0, 1>>, <<0, 2>>, <<1, 3>>>>
InitCase(s, tax, side, iv, physical, graded) ==
  LET ax1 == tax + 1
      n   == s.shape[ax1]
      p   == s.deg[ax1]
      ta  == Intervals[iv][1]
      tb  == Intervals[iv][2]
      nsp == n - p
      h   == IF ~graded THEN Q(tb - ta, nsp)         \* width of the knot span at the face
             ELSE IF side = 0 THEN Q(2 * (tb - ta), nsp * (nsp + 1)) ELSE Q(2 * (tb - ta), nsp + 1)
      hp  == Div(h, R(p))
      first == IF side = 0 THEN 0 ELSE n - 2
      s0  == SliceDofs(ax1, first, s.shape, NoFlip(s.D))
      s1  == SliceDofs(ax1, first + 1, s.shape, NoFlip(s.D))
      M   == Len(s0)
      g0  == [k \in 1..M |-> R(Coef(1, k - 1))]      \* coefficients on the FACE basis
      g1  == [k \in 1..M |-> R(Coef(2, k - 1))]
      v0  == [k \in 1..M |-> IF side = 0 THEN g0[k] ELSE Sub(g0[k], Mul(hp, g1[k]))]
      v1  == [k \in 1..M |-> IF side = 0 THEN Add(g0[k], Mul(hp, g1[k])) ELSE g0[k]]
  IN [kind |-> "init", D |-> s.D, shape |-> s.shape, deg |-> s.deg, tax |-> tax, side |-> side,
      ta |-> ta, tb |-> tb, physical |-> physical, graded |-> graded, p |-> p, h |-> h,
      g0 |-> [k \in 1..M |-> g0[k][1]], g1 |-> [k \in 1..M |-> g1[k][1]],
      entries |-> [q \in 1..(2 * M) |-> IF q <= M THEN [dof |-> s0[q], val |-> v0[q]]
                                        ELSE [dof |-> s1[q - M], val |-> v1[q - M]]]]
InitCond ==
  /\ phase = "space" /\ "init" \in Parts /\ sp.D >= 2
  /\ \E tax \in 0..(sp.D - 1), side \in {0, 1}, iv \in 1..Len(Intervals), ph \in BOOLEAN, gr \in BOOLEAN :
       /\ ph => tax = 0                         \* G(x,t) = (G~(x), t): time is the last physical coordinate
       /\ gr => (sp.shape[tax + 1] - sp.deg[tax + 1] >= 2 /\ iv = 2)    \* grading needs >= 2 spans; one interval suffices
       /\ c' = InitCase(sp, tax, side, iv, ph, gr)
  /\ phase' = "case" /\ UNCHANGED sp
  /\ Emit("INIT", c')

(* --- specifications that must be refused --------------------------------- *)
Reject ==
  /\ phase = "space" /\ "reject" \in Parts
  /\ \/ \E nm \in SeqRange(Names) \ ValidNames(sp.D) :
          c' = [kind |-> "reject", D |-> sp.D, shape |-> sp.shape, deg |-> sp.deg,
                bd |-> [name |-> nm, ax |-> 0, side |-> 0]]
     \/ \E a \in {-1, sp.D, sp.D + 1}, s \in {0, 1} :
          c' = [kind |-> "reject", D |-> sp.D, shape |-> sp.shape, deg |-> sp.deg,
                bd |-> [name |-> "", ax |-> a, side |-> s]]
     \/ \E a \in 0..(sp.D - 1), s \in {-1, 2} :
          c' = [kind |-> "reject", D |-> sp.D, shape |-> sp.shape, deg |-> sp.deg,
                bd |-> [name |-> "", ax |-> a, side |-> s]]
  /\ phase' = "case" /\ UNCHANGED sp
  /\ Emit("REJECT", c')

Next == PickSpace \/ Face \/ Slice \/ Bcs \/ Combine \/ InitCond \/ Reject
Spec == Init /\ [][Next]_vars

-----------------------------------------------------------------------------
(* the property, evaluated on the reference itself *)
IsCase(k) == phase = "case" /\ c.kind = k

\* every dof of the face exactly once, nothing else; without flip in ascending order
FaceOK == IsCase("face") =>
  LET ax1 == c.bd.ax + 1
      want == IF c.bd.side = 0 THEN 0 ELSE c.shape[ax1] - 1
      onface == {i \in 0..(Prod(c.shape) - 1) : Unravel(i, c.shape)[ax1] = want}
      plainAll == SliceMulti(ax1, want, c.shape, NoFlip(c.D)) IN
  /\ Injective(c.dofs) /\ SeqRange(c.dofs) = onface
  /\ \A k \in 1..Len(c.dofs) : Unravel(c.dofs[k], c.shape) = c.multi[k]
  /\ ~c.hasflip => c.dofs = SortedSeq(onface)
  /\ c.bd.name # "" => c.bd.ax = c.D - ((NameRank(c.bd.name) + 1) \div 2)
  \* a flip reverses the traversal along exactly the flipped face axes
  /\ \A k \in 1..Len(c.dofs) :
       LET plain == plainAll[k] IN
       \A a \in 1..c.D : a # ax1 =>
          LET b == IF a < ax1 THEN a ELSE a - 1 IN
          c.multi[k][a] = IF c.flip[b] THEN c.shape[a] - 1 - plain[a] ELSE plain[a]
  \* blocked numbering: one dof per component, component j in block j
  /\ Injective([q \in 1..Len(c.vec3) |-> c.vec3[q].dof])
  /\ \A q \in 1..Len(c.vec3) : (c.vec3[q].dof % Prod(c.shape)) \in onface
                                /\ c.vec3[q].dof \div Prod(c.shape) \in 0..2
  /\ Len(c.vec3) = 3 * Cardinality(onface) /\ Len(c.vec2) = 2 * Cardinality(onface)
  /\ Injective(c.cells) /\ Len(c.cells) * (c.shape[ax1] - c.deg[ax1]) = Prod([a \in 1..c.D |-> c.shape[a] - c.deg[a]])

SliceOK == IsCase("slice") =>
  LET p0 == IF c.pos < 0 THEN c.pos + c.shape[c.ax + 1] ELSE c.pos IN
  /\ Injective(c.dofs)
  /\ SeqRange(c.dofs) = {i \in 0..(Prod(c.shape) - 1) : Unravel(i, c.shape)[c.ax + 1] = p0}

\* one value per dof, the dofs are exactly the union of the faces
BcsOK == IsCase("bcs") =>
  LET onfaces == {i \in 0..(Prod(c.shape) - 1) :
                    \E q \in 1..Len(c.conds) :
                       Unravel(i, c.shape)[c.conds[q].bd.ax + 1] =
                         (IF c.conds[q].bd.side = 0 THEN 0 ELSE c.shape[c.conds[q].bd.ax + 1] - 1)} IN
  /\ Injective([k \in 1..Len(c.entries) |-> c.entries[k].dof])
  /\ {c.entries[k].dof : k \in 1..Len(c.entries)} = onfaces
  /\ \A k \in 1..Len(c.entries) : Len(c.entries[k].adm) >= 1 /\ c.entries[k].first \in SeqRange(c.entries[k].adm)
  /\ c.shorthand => \A k \in 1..Len(c.entries) : Len(c.entries[k].adm) = 1

CombineOK == IsCase("combine") =>
  /\ Injective([k \in 1..Len(c.entries) |-> c.entries[k].dof])
  /\ {c.entries[k].dof : k \in 1..Len(c.entries)} = UNION {SeqRange(c.bcs[q]) : q \in 1..Len(c.bcs)}
  /\ \A k \in 1..Len(c.entries) :
       /\ Len(c.entries[k].adm) >= 1
       /\ \A v \in SeqRange(c.entries[k].adm) : c.bcs[v \div 10][v % 10] = c.entries[k].dof

\* value and time derivative on the initial face are reproduced: with an open knot vector only the
\* first (last) basis function is non-zero at the end, and the derivative there is p (c1 - c0) / h
InitOK == IsCase("init") =>
  LET M == Len(c.entries) \div 2
      pr == Div(R(c.p), c.h) IN
  /\ Injective([k \in 1..Len(c.entries) |-> c.entries[k].dof])
  /\ \A k \in 1..M :
       LET inner == IF c.side = 0 THEN c.entries[M + k].val ELSE c.entries[k].val
           outer == IF c.side = 0 THEN c.entries[k].val ELSE c.entries[M + k].val IN
       /\ outer = R(c.g0[k])
       /\ (IF c.side = 0 THEN Mul(pr, Sub(inner, outer)) ELSE Mul(pr, Sub(outer, inner))) = R(c.g1[k])
  /\ \A k \in 1..Len(c.entries) :
       LET t == Unravel(c.entries[k].dof, c.shape)[c.tax + 1] IN
       IF c.side = 0 THEN t \in {0, 1} ELSE t \in {c.shape[c.tax + 1] - 2, c.shape[c.tax + 1] - 1}
=============================================================================
