----------------------------- MODULE VFormSemRat -----------------------------
(* C01 -- exact value of the matrix / vector entries a variational form DENOTES, for the polynomial
   fragment (VFormGen with Poly = TRUE) on affine geometries.

   Entry(i, j) = INTEGRAL over the parameter domain of   E(u := B_j, v := B_i)(xi) * |det A|   d xi
   where E is the abstract denotation of the token program (module VFormAbs), B the tensor-product
   B-splines of BSplineRef, physical derivatives are defined by the chain rule for the affine map
   x = A xi + t, and the coefficient fields are linear.

   The integrand is manipulated SYMBOLICALLY: VFormAbs is instantiated over the ring of polynomials in
   the cell-local parameters t = xi - (cell corner) with rational coefficients (on a cell every B-spline
   is a polynomial: Galerkin1D!Pieces), and the result is integrated monomial by monomial.  Because the
   degree bookkeeping of VFormGen bounds the integrand by degree 2p+1 per direction and cell, this exact
   integral equals the (p+1)-point Gauss-Legendre sum the property speaks about.
   (A first version evaluated the integrand at rational quadrature nodes; the denominators 7^k of the
   nodes overflowed TLC's 32-bit integers.)                                                         *)
EXTENDS BSplineRef, TLC, Json, IOUtils, Emit

CONSTANT DIM                                  \* dimension of all cases of the batch

G == INSTANCE Galerkin1D

MDEG == 5                                     \* maximal degree per direction (2p+1 for p <= 2)

Cases == JsonDeserialize(IOEnv.SEM_FILE).cases
RQ(x) == Q(x[1], x[2])                        \* JSON pair -> normalised rational
RVec(v) == Tab(Len(v), LAMBDA q : RQ(v[q]))
RMat(m) == Tab(Len(m), LAMBDA r : RVec(m[r]))

-----------------------------------------------------------------------------
(* dense polynomials in DIM variables (x-first order), exponents 0..MDEG per variable, flat C order *)
MShape == Tab(DIM, LAMBDA q : MDEG + 1)
MSize  == ShapeSize(MShape)
MExps  == Tab(MSize, LAMBDA k : UnravelC(k - 1, MShape))                  \* exponent tuple of flat index k (cached)
MIdx(e) == RavelC(e, MShape) + 1
MConst(c) == Tab(MSize, LAMBDA k : IF k = 1 THEN c ELSE Zero)
MAdd(a, b) == Tab(MSize, LAMBDA k : Add(a[k], b[k]))
MSub(a, b) == Tab(MSize, LAMBDA k : Sub(a[k], b[k]))
MNeg(a)    == Tab(MSize, LAMBDA k : Neg(a[k]))
MNonZero(a) == SelectSeq(Ints(MSize), LAMBDA k : ~IsZero(a[k]))
MMul(a, b) ==
  LET na == MNonZero(a)  nb == MNonZero(b)
      fits == \A i \in SeqSet(na) : \A j \in SeqSet(nb) : \A q \in 1..DIM : MExps[i][q] + MExps[j][q] <= MDEG
  IN IF ~fits THEN Assert(FALSE, "polynomial degree bound exceeded") ELSE
     Tab(MSize, LAMBDA k :
        LET ek == MExps[k] IN
        FoldLeft(LAMBDA acc, i :
                   LET ei == MExps[i] IN
                   IF \A q \in 1..DIM : ei[q] <= ek[q]
                   THEN LET j == MIdx(Tab(DIM, LAMBDA q : ek[q] - ei[q])) IN
                        IF IsZero(b[j]) THEN acc ELSE Add(acc, Mul(a[i], b[j]))
                   ELSE acc,
                 Zero, na))
MIsConst(a) == \A k \in 2..MSize : IsZero(a[k])
MDiv(a, b) == IF MIsConst(b) /\ ~IsZero(b[1]) THEN Tab(MSize, LAMBDA k : Div(a[k], b[1]))
              ELSE Assert(FALSE, "division by a non-constant polynomial")
MTensor(ps1) ==             \* ps1[c] = 1-D coefficient sequence in variable c:  prod_c ps1[c](t_c)
  Tab(MSize, LAMBDA k : LET e == MExps[k] IN
      FoldLeft(LAMBDA acc, c : IF IsZero(acc) THEN acc
                               ELSE IF e[c] + 1 <= Len(ps1[c]) THEN Mul(acc, ps1[c][e[c] + 1]) ELSE Zero, One, Ints(DIM)))
MVar(c, a0) ==              \* the polynomial  a0 + t_c
  Tab(MSize, LAMBDA k : IF k = 1 THEN a0 ELSE IF MExps[k] = Tab(DIM, LAMBDA q : IF q = c THEN 1 ELSE 0) THEN One ELSE Zero)
MScale(s, a) == Tab(MSize, LAMBDA k : Mul(s, a[k]))
MSum(ps) == FoldLeft(MAdd, MConst(Zero), ps)
MIntegrate(a, h) ==         \* integral over the box [0,h_1] x .. x [0,h_DIM]
  FoldLeft(LAMBDA acc, k : IF IsZero(a[k]) THEN acc ELSE
             LET e == MExps[k] IN
             Add(acc, Mul(a[k], FoldLeft(LAMBDA pr, c : Mul(pr, Div(PowR(R(h[c]), e[c] + 1), R(e[c] + 1))), One, Ints(DIM)))),
           Zero, Ints(MSize))

MIntegrateBd(a, h, c0, side) ==    \* integral over the face t_c0 = 0 (side 0) or t_c0 = h_c0 (side 1) of the box
  FoldLeft(LAMBDA acc, k : IF IsZero(a[k]) THEN acc ELSE
             LET e == MExps[k] IN
             Add(acc, Mul(a[k], FoldLeft(LAMBDA pr, c :
                                   IF c = c0 THEN (IF side = 0 THEN (IF e[c] = 0 THEN pr ELSE Zero) ELSE Mul(pr, PowR(R(h[c]), e[c])))
                                   ELSE Mul(pr, Div(PowR(R(h[c]), e[c] + 1), R(e[c] + 1))), One, Ints(DIM)))),
           Zero, Ints(MSize))

NoFn(f, x) == Assert(FALSE, "builtin function in the polynomial fragment")
AB == INSTANCE VFormAbs WITH FAdd <- MAdd, FSub <- MSub, FMul <- MMul, FDiv <- MDiv, FNeg <- MNeg, FFn <- NoFn,
                            FZero <- MConst(Zero), FOne <- MConst(One), FTwo <- MConst(R(2))

-----------------------------------------------------------------------------
Inv23(A) ==    \* inverse of a 2x2 / 3x3 rational matrix by the adjugate
  LET n == Len(A)
      det2(B) == Sub(Mul(B[1][1], B[2][2]), Mul(B[1][2], B[2][1]))
      minor(i, j) == LET rows == SelectSeq(Ints(n), LAMBDA r : r # i)  cols == SelectSeq(Ints(n), LAMBDA c : c # j) IN
                     Tab(n - 1, LAMBDA r : Tab(n - 1, LAMBDA c : A[rows[r]][cols[c]]))
      det == IF n = 1 THEN A[1][1] ELSE IF n = 2 THEN det2(A)
             ELSE SumSeq(Tab(3, LAMBDA j : Mul(IF j = 2 THEN Neg(A[1][j]) ELSE A[1][j], det2(minor(1, j)))))
      cof(i, j) == LET m == minor(i, j)  v == IF n = 2 THEN m[1][1] ELSE det2(m) IN IF (i + j) % 2 = 0 THEN v ELSE Neg(v)
  IN [inv |-> IF n = 1 THEN <<<<Div(One, det)>>>> ELSE Tab(n, LAMBDA i : Tab(n, LAMBDA j : Div(cof(j, i), det))), det |-> det]

EvalCase(cs) ==
  LET d      == DIM
      kvs    == cs.kvs
      ps     == cs.ps
      shape  == TPShape(kvs, ps)
      kvsV   == cs.kvs1                                  \* space 1: the TEST functions (Petrov-Galerkin forms; = space 0 otherwise)
      psV    == cs.ps1
      shapeV == TPShape(kvsV, psV)
      A      == RMat(cs.A)                               \* x-first:  A[i][k] = d x_i / d xi_k
      tv     == RVec(cs.t)
      AI     == Inv23(A)
      JI     == AI.inv
      absdet == AbsR(AI.det)
      meshes == Tab(d, LAMBDA a : Mesh(kvs[a]))
      ncell  == Tab(d, LAMBDA a : Len(meshes[a]) - 1)
      pieces == Tab(d, LAMBDA a : Tab(ncell[a], LAMBDA m : G!Pieces(kvs[a], ps[a], R(meshes[a][m]))))
      piecesV == Tab(d, LAMBDA a : Tab(ncell[a], LAMBDA m : G!Pieces(kvsV[a], psV[a], R(meshes[a][m]))))   \* same mesh
      fl     == cs.fields
      fC == RVec(fl.f)  f2C == RVec(fl.f2)  hC == RVec(fl.h)  gC == RMat(fl.g)  AF == RMat(fl.A)  cP == RQ(fl.c)
      AFI    == Inv23(AF).inv
      K(c)   == MConst(c)
      KVec(v) == Tab(Len(v), LAMBDA q : K(v[q]))
      KMat(m) == Tab(Len(m), LAMBDA r : KVec(m[r]))
      (* boundary integrals (2-D): face  xi_bax = first / last breakpoint.  In x-first parameter order the fixed
         parameter has index bc; the tangent of the face is  t = J * Jac_to_boundary  with the sign conventions of
         assemble._Jac_to_boundary_matrix, the surface weight is |t| (passed in as cs.tnorm and checked), the unit
         normal is (-t_2, t_1) / |t|. *)
      bax == cs.bax   bside == cs.bside
      bc  == d + 1 - bax                                  \* x-first coordinate index of the fixed parameter
      tang == IF bax = 0 THEN <<Zero, Zero>>
              ELSE IF bc = 1 THEN (IF bside = 0 THEN <<A[1][2], A[2][2]>> ELSE <<Neg(A[1][2]), Neg(A[2][2])>>)
              ELSE (IF bside = 0 THEN <<Neg(A[1][1]), Neg(A[2][1])>> ELSE <<A[1][1], A[2][1]>>)
      tn  == RQ(cs.tnorm)
      tnOK == bax = 0 \/ (Mul(tn, tn) = Add(Mul(tang[1], tang[1]), Mul(tang[2], tang[2])) /\ Sign(tn) = 1)
      ncu == cs.ncu   ncv == cs.ncv                     \* components of the trial / test functions (blocked layout:
      nU  == ShapeSize(shape)   nV == ShapeSize(shapeV)          \* flat index = component * (number of functions) + function)
      CellVal(cell, I, J, cu, cv) ==  \* cell: 0-based cell index per AXIS; polynomial integrand integrated over the cell
        LET h   == Tab(d, LAMBDA c : meshes[AxisOfCoord(d, c)][cell[AxisOfCoord(d, c)] + 2] - meshes[AxisOfCoord(d, c)][cell[AxisOfCoord(d, c)] + 1])
            xi  == Tab(d, LAMBDA c : MVar(c, R(meshes[AxisOfCoord(d, c)][cell[AxisOfCoord(d, c)] + 1])))   \* xi_c = corner + t_c
            x   == Tab(d, LAMBDA i : MAdd(K(tv[i]), MSum(Tab(d, LAMBDA m : MScale(A[i][m], xi[m])))))
            \* 1-D polynomial (in t) of D^r of B-spline mi on this cell along axis a (zero if not active)
            P1(sp, a, mi, r) == LET pc == (IF sp = 1 THEN piecesV ELSE pieces)[a][cell[a] + 1]  w == mi - pc.first + 1 IN
                            IF w >= 1 /\ w <= (IF sp = 1 THEN psV ELSE ps)[a] + 1 THEN G!PolyDerK(pc.poly[w], r) ELSE <<Zero>>
            BFD(sf, D) ==       \* sf = <<space, flat index>>;  D in x-first parametric order
              LET mi == UnravelC(sf[2], IF sf[1] = 1 THEN shapeV ELSE shape) IN
              MTensor(Tab(d, LAMBDA c : P1(sf[1], AxisOfCoord(d, c), mi[AxisOfCoord(d, c)], D[c])))
            E0  == Tab(d, LAMBDA q : 0)
            U(k) == Tab(d, LAMBDA q : IF q = k THEN 1 ELSE 0)
            U2(a, b) == Tab(d, LAMBDA q : (IF q = a THEN 1 ELSE 0) + (IF q = b THEN 1 ELSE 0))
            jet(fl0)  == Tab(d, LAMBDA m : BFD(fl0, U(m)))
            hes(fl0)  == Tab(d, LAMBDA a : Tab(d, LAMBDA b : BFD(fl0, U2(a, b))))
            PG(gp) == Tab(d, LAMBDA k : MSum(Tab(d, LAMBDA m : MScale(JI[m][k], gp[m]))))        \* physical gradient
            PH(hp) == Tab(d, LAMBDA i : Tab(d, LAMBDA j :                                       \* physical Hessian (affine map)
                         MSum(Tab(d * d, LAMBDA q : LET a == ((q - 1) \div d) + 1  b == ((q - 1) % d) + 1 IN
                                                     MScale(Mul(JI[a][i], JI[b][j]), hp[a][b])))))
            Lin(c, vars) == MAdd(K(c[1]), MSum(Tab(d, LAMBDA q : MScale(c[q + 1], vars[q]))))
            ub  == <<0, IF cs.bilinear THEN J ELSE I>>      \* trial function: space 0, column index
            vb  == <<1, I>>                                 \* test function: space 1, row index
            hgrad == KVec(Tab(d, LAMBDA m : hC[m + 1]))
            \* vector-valued basis functions: component cu (cv) carries the scalar B-spline, the others vanish
            UVec == Tab(ncu, LAMBDA q : IF q = cu + 1 THEN BFD(ub, E0) ELSE K(Zero))
            VVec == Tab(ncv, LAMBDA q : IF q = cv + 1 THEN BFD(vb, E0) ELSE K(Zero))
            UJac == Tab(ncu, LAMBDA q : IF q = cu + 1 THEN PG(jet(ub)) ELSE KVec(Tab(d, LAMBDA m : Zero)))   \* [component][x_k]
            VJac == Tab(ncv, LAMBDA q : IF q = cv + 1 THEN PG(jet(vb)) ELSE KVec(Tab(d, LAMBDA m : Zero)))
            lv  == [t \in AB!LeafTokens |->
                     CASE t = "u" -> BFD(ub, E0)  [] t = "v" -> BFD(vb, E0)
                       [] t = "ux" -> PG(jet(ub))[1]  [] t = "uy" -> PG(jet(ub))[2]
                       [] t = "vx" -> PG(jet(vb))[1]  [] t = "vy" -> PG(jet(vb))[2]
                       [] t = "uxp" -> BFD(ub, U(1))  [] t = "vyp" -> BFD(vb, U(2))
                       [] t = "uxx" -> PH(hes(ub))[1][1]  [] t = "uxy" -> PH(hes(ub))[1][2]
                       [] t = "c" -> K(cP)  [] t = "two" -> K(R(2))  [] t = "three" -> K(R(3))  [] t = "half" -> K(Q(1, 2))
                       [] t = "hpar" -> Lin(hC, xi)  [] t = "hx" -> PG(hgrad)[1]
                       [] t = "f"  -> [v |-> Lin(fC, x),  g |-> KVec(Tab(d, LAMBDA m : fC[m + 1]))]
                       [] t = "f2" -> [v |-> Lin(f2C, x), g |-> KVec(Tab(d, LAMBDA m : f2C[m + 1]))]
                       [] t = "cD" -> [v |-> K(cP), g |-> KVec(Tab(d, LAMBDA m : Zero))]
                       [] t = "twoD" -> [v |-> K(R(2)), g |-> KVec(Tab(d, LAMBDA m : Zero))]
                       [] t = "gu" -> PG(jet(ub))  [] t = "gv" -> PG(jet(vb))  [] t = "gup" -> jet(ub)
                       [] t = "gh" -> PG(hgrad)
                       [] t = "g" -> Tab(d, LAMBDA i : Lin(gC[i], x))  [] t = "x" -> x
                       [] t = "Hu" -> PH(hes(ub))  [] t = "Hv" -> PH(hes(vb))
                       [] t = "uvec" -> UVec  [] t = "vvec" -> VVec
                       [] t = "u0" -> UVec[1]  [] t = "u1" -> UVec[2]  [] t = "w0" -> VVec[1]  [] t = "w1" -> VVec[2]
                       [] t = "Gu" -> UJac  [] t = "Gv" -> VJac
                       [] t = "divu" -> MSum(Tab(d, LAMBDA q : UJac[q][q]))  [] t = "divv" -> MSum(Tab(d, LAMBDA q : VJac[q][q]))
                       [] t = "nrm" -> KVec(<<Div(Neg(tang[2]), tn), Div(tang[1], tn)>>)
                       [] t = "B" -> KMat(RMat(fl.B))
                       [] t = "A" -> KMat(AF)  [] t = "J" -> KMat(A)  [] t = "Ainv" -> KMat(AFI)  [] t = "Jinv" -> KMat(JI)
                       [] OTHER -> K(Zero)]
        IN IF bax = 0 THEN MIntegrate(AB!AbsEval(cs.tokens, lv), h)
           ELSE MIntegrateBd(AB!AbsEval(cs.tokens, lv), h, bc, bside)
      Active(a, mi, c) == LET f == pieces[a][c + 1].first IN mi >= f /\ mi <= f + ps[a]     \* B-spline mi lives on cell c
      ActiveV(a, mi, c) == LET f == piecesV[a][c + 1].first IN mi >= f /\ mi <= f + psV[a]
      Entry(pr) ==
        LET cv == pr[1] \div nV  I == pr[1] % nV
            cu == IF cs.bilinear THEN pr[2] \div nU ELSE 0   J == IF cs.bilinear THEN pr[2] % nU ELSE 0
            mI == UnravelC(I, shapeV)
            cells == SelectSeq(MultiIndices(ncell),
                               LAMBDA c : \A a \in 1..d : /\ (a = bax => c[a] = (IF bside = 0 THEN 0 ELSE ncell[a] - 1))
                                                          /\ ActiveV(a, mI[a], c[a])
                                                          /\ cs.bilinear => Active(a, UnravelC(J, shape)[a], c[a]))
        IN Mul(IF bax = 0 THEN absdet ELSE IF tnOK THEN tn ELSE Assert(FALSE, "tnorm is not the length of the tangent"),
               FoldLeft(LAMBDA acc, c : Add(acc, CellVal(c, I, J, cu, cv)), Zero, cells))
  IN Tab(Len(cs.pairs), LAMBDA q : Entry(cs.pairs[q]))

VARIABLE k
Init == k \in 1..Len(Cases)
Next == UNCHANGED k
Spec == Init /\ [][Next]_k

Verdict == Emit("SEM", [id |-> Cases[k].id, vals |-> EvalCase(Cases[k])])
=============================================================================
