----------------------------- MODULE Multipatch -----------------------------
(* C14 -- multipatch gluing (pyiga/assemble.py, class Multipatch).

   Declarative side: the equivalence closure of the dof identifications declared so far.
   Code-shaped side: shared_per_patch / shared_dofs and the loop body of join_dofs, one TLA+
   action per public call (JoinBoundaries(k), Finalize).  Legacy = TRUE is the loop body as it
   stood before the "fix:" commit (no merging of two existing classes) -- kept as negative control.

   Patch complexes:
     lattice  D-dimensional arrangement W[1] x .. x W[D] of patches (axis order as in pyiga: the
              LAST axis is x), every patch an NN^D grid of dofs, every patch optionally reflected
              along each axis (bits of ReflSeed) -- reflections are what makes `flip` non-trivial;
     ring     K patches around a common vertex (local dof 0 of every patch).
   Dofs are integers  p * N + i  (i = C-order ravel of the local multi-index).                 *)
EXTENDS Integers, Sequences, FiniteSets, SequencesExt, FiniteSetsExt, Functions, TLC, Emit

CONSTANTS Kind,       \* "lattice" | "ring" | "band" (K patches closed to an annulus: for K = 2 two patches share TWO faces)
          D,          \* dimension of a patch (2 or 3)
          W1, W2, W3, \* lattice extents along axes 1..3 (unused trailing ones = 1)
          NN,         \* dofs per direction in each patch
          ReflSeed,   \* bit (p*D + a-1) set  <=>  patch p reflected along axis a
          K,          \* ring size
          Legacy,     \* TRUE: join_dofs without class merging
          MaxJoins,   \* bound on the number of join calls in a history
          MaxRep,     \* how often one interface may be joined
          DoEmit      \* emit one replay case per Finalize transition

VARIABLES spp,        \* dof -> shared-dof id or -1          (shared_per_patch)
          sdofs,      \* sequence of sets of dofs            (shared_dofs)
          cnt,        \* interface id -> number of times joined
          fin,        \* finalized?
          hist        \* sequence of interface ids (history variable, hidden by VIEW)

vars == <<spp, sdofs, cnt, fin, hist>>
View == <<spp, sdofs, cnt, fin, Len(hist)>>    \* the join bound depends on Len(hist) (see HSpace.tla)

W   == <<W1, W2, W3>>
NP  == IF Kind \in {"ring", "band"} THEN K ELSE FoldLeft(LAMBDA a, i : a * W[i], 1, [i \in 1..D |-> i])
N   == FoldLeft(LAMBDA a, i : a * NN, 1, [i \in 1..D |-> i])
Dofs == 0..(NP * N - 1)
PatchOf(d) == d \div N
LocOf(d)   == d % N

RECURSIVE Pow(_, _)
Pow(b, e) == IF e = 0 THEN 1 ELSE b * Pow(b, e - 1)

\* C-order unravel: axis 1 is the slowest
Unravel(i, shape) ==
  [a \in 1..Len(shape) |->
     (i \div FoldLeft(LAMBDA acc, b : acc * shape[b], 1, [b \in 1..(Len(shape) - a) |-> a + b])) % shape[a]]
Ravel(mi, shape) == FoldLeft(LAMBDA acc, a : acc * shape[a] + mi[a], 0, [a \in 1..Len(shape) |-> a])

Shape == [a \in 1..D |-> NN]
WD    == [a \in 1..D |-> W[a]]
Refl(p, a) == ((ReflSeed \div Pow(2, p * D + a - 1)) % 2) = 1

\* geometric lattice point of a dof (lattice complexes)
Point(d) ==
  LET p == PatchOf(d)  mi == Unravel(LocOf(d), Shape)  c == Unravel(p, WD) IN
  [a \in 1..D |-> c[a] * (NN - 1) + (IF Refl(p, a) THEN NN - 1 - mi[a] ELSE mi[a])]

\* local dofs on a face, ascending local index (= C order of the remaining axes), as in slice_indices
FaceSeq(p, ax, side) ==
  LET want == IF side = 0 THEN 0 ELSE NN - 1
      S == {i \in 0..(N - 1) : Unravel(i, Shape)[ax] = want}
  IN SetToSortSeq(S, <)

\* an interface: [p1, ax1, s1, p2, ax2, s2, flip (seq of BOOLEAN over the face axes), pairs (seq of <<d1,d2>>)]
LatticeInterfaces ==
  LET cand == {<<p1, ax, s1, p2, s2>> \in (0..(NP-1)) \X (1..D) \X {0,1} \X (0..(NP-1)) \X {0,1} :
                 /\ p1 < p2
                 /\ {Point(p1 * N + i) : i \in Range(FaceSeq(p1, ax, s1))}
                      = {Point(p2 * N + i) : i \in Range(FaceSeq(p2, ax, s2))}}
      mk(c) == LET p1 == c[1]  ax == c[2]  s1 == c[3]  p2 == c[4]  s2 == c[5]
                   f1 == FaceSeq(p1, ax, s1)
                   f2 == Range(FaceSeq(p2, ax, s2))
               IN [p1 |-> p1, ax1 |-> ax - 1, s1 |-> s1, p2 |-> p2, ax2 |-> ax - 1, s2 |-> s2,
                   flip |-> [b \in 1..(D - 1) |->
                               LET a == IF b < ax THEN b ELSE b + 1 IN Refl(p1, a) # Refl(p2, a)],
                   pairs |-> [k \in 1..Len(f1) |->
                               <<p1 * N + f1[k],
                                 p2 * N + (CHOOSE j \in f2 : Point(p2 * N + j) = Point(p1 * N + f1[k]))>>]]
  IN SetToSortSeq({mk(c) : c \in cand},
                  LAMBDA x, y : <<x.p1, x.p2, x.ax1, x.s1>> # <<y.p1, y.p2, y.ax1, y.s1>> /\
                     (x.p1 < y.p1 \/ (x.p1 = y.p1 /\ (x.p2 < y.p2 \/ (x.p2 = y.p2 /\
                        (x.ax1 < y.ax1 \/ (x.ax1 = y.ax1 /\ x.s1 < y.s1)))))))

\* ring: patch k's x-low face ('left': axis D, side 0) is glued to patch k+1's y-low face ('bottom')
\* both traversed away from the common vertex: no flip.  (D = 2 only.)
RingInterfaces ==
  [k \in 1..K |->
     LET p1 == k - 1  p2 == k % K
         f1 == FaceSeq(p1, 2, 0)      \* ix = 0, ordered by iy
         f2 == FaceSeq(p2, 1, 0)      \* iy = 0, ordered by ix
     IN [p1 |-> p1, ax1 |-> 1, s1 |-> 0, p2 |-> p2, ax2 |-> 0, s2 |-> 0, flip |-> <<FALSE>>,
         pairs |-> [j \in 1..Len(f1) |-> <<p1 * N + f1[j], p2 * N + f2[j]>>]]]

\* band: patch k's x-high face ('right': axis D, side 1) is glued to patch k+1's x-low face ('left'), cyclically; no flip.
\* (D = 2 only.)  For K = 2 the two patches share two faces; interface 2 goes from patch 1 back to patch 0.
BandInterfaces ==
  [k \in 1..K |->
     LET p1 == k - 1  p2 == k % K
         f1 == FaceSeq(p1, 2, 1)
         f2 == FaceSeq(p2, 2, 0)
     IN [p1 |-> p1, ax1 |-> 1, s1 |-> 1, p2 |-> p2, ax2 |-> 1, s2 |-> 0, flip |-> <<FALSE>>,
         pairs |-> [j \in 1..Len(f1) |-> <<p1 * N + f1[j], p2 * N + f2[j]>>]]]

Interfaces == IF Kind = "ring" THEN RingInterfaces ELSE IF Kind = "band" THEN BandInterfaces ELSE LatticeInterfaces
NI == Len(Interfaces)

-----------------------------------------------------------------------------
(* the loop body of join_dofs for one pair (i1 of p1, i2 of p2) *)
PairLegacy(st, pr) ==
  LET d1 == pr[1]  d2 == pr[2] IN
  IF st.spp[d1] # -1 THEN
       LET sd == st.spp[d1] IN
       [spp |-> [st.spp EXCEPT ![d2] = sd], sdofs |-> [st.sdofs EXCEPT ![sd + 1] = @ \cup {d2}]]
  ELSE IF st.spp[d2] # -1 THEN
       LET sd == st.spp[d2] IN
       [spp |-> [st.spp EXCEPT ![d1] = sd], sdofs |-> [st.sdofs EXCEPT ![sd + 1] = @ \cup {d1}]]
  ELSE LET sd == Len(st.sdofs) IN
       [spp |-> [st.spp EXCEPT ![d1] = sd, ![d2] = sd], sdofs |-> Append(st.sdofs, {d1, d2})]

(* merge of two existing classes as in the repaired code: the lower id survives, the last class
   is moved into the freed slot so that ids stay 0..len-1 *)
Merge(st, sa, sb) ==
  IF sa = sb THEN st ELSE
  LET keep == IF sa < sb THEN sa ELSE sb
      drop == IF sa < sb THEN sb ELSE sa
      last == Len(st.sdofs) - 1
      spp1 == [d \in Dofs |-> IF st.spp[d] = drop THEN keep ELSE st.spp[d]]
      sd1  == [st.sdofs EXCEPT ![keep + 1] = @ \cup st.sdofs[drop + 1]]
      spp2 == IF drop = last THEN spp1 ELSE [d \in Dofs |-> IF spp1[d] = last THEN drop ELSE spp1[d]]
      sd2  == IF drop = last THEN sd1 ELSE [sd1 EXCEPT ![drop + 1] = sd1[last + 1]]
  IN [spp |-> spp2, sdofs |-> SubSeq(sd2, 1, last)]

PairFixed(st, pr) ==
  LET d1 == pr[1]  d2 == pr[2] IN
  IF st.spp[d1] # -1 /\ st.spp[d2] # -1 THEN Merge(st, st.spp[d1], st.spp[d2])
  ELSE PairLegacy(st, pr)

Pair(st, pr) == IF Legacy THEN PairLegacy(st, pr) ELSE PairFixed(st, pr)

-----------------------------------------------------------------------------
Init ==
  /\ spp = [d \in Dofs |-> -1]
  /\ sdofs = <<>>
  /\ cnt = [k \in 1..NI |-> 0]
  /\ fin = FALSE
  /\ hist = <<>>

JoinBoundaries(k) ==
  /\ ~fin
  /\ cnt[k] < MaxRep
  /\ Len(hist) < MaxJoins
  /\ LET r == FoldLeft(Pair, [spp |-> spp, sdofs |-> sdofs], Interfaces[k].pairs) IN
       /\ spp' = r.spp
       /\ sdofs' = r.sdofs
  /\ cnt' = [cnt EXCEPT ![k] = @ + 1]
  /\ hist' = Append(hist, k)
  /\ UNCHANGED fin

-----------------------------------------------------------------------------
(* what finalize / patch_to_global_idx compute from the state *)
\* everything below is computed once per state through LET-bound (lazily cached) functions
FinState ==
  LET shared == [p \in 0..(NP - 1) |-> Cardinality({d \in Dofs : PatchOf(d) = p /\ spp[d] # -1})]
      mofs   == [p \in 0..NP |-> FoldLeft(LAMBDA a, q : a + (N - shared[q - 1]), 0, [q \in 1..p |-> q])]
      gidx   == [d \in Dofs |->
                   IF spp[d] # -1 THEN mofs[NP] + spp[d]
                   ELSE mofs[PatchOf(d)]
                        + Cardinality({e \in Dofs : PatchOf(e) = PatchOf(d) /\ spp[e] = -1 /\ e < d})]
  IN [gidx |-> gidx, numdofs |-> mofs[NP] + Len(sdofs)]

(* declarative: equivalence closure of everything declared so far, as min-label propagation *)
Edges == UNION {Range(Interfaces[k].pairs) : k \in {j \in 1..NI : cnt[j] > 0}}
RECURSIVE Propagate(_, _)
Propagate(lab, adj) ==
  LET nl == [d \in Dofs |-> Min({lab[d]} \cup {lab[e] : e \in adj[d]})] IN
  IF nl = lab THEN lab ELSE Propagate(nl, adj)
ClassLabel ==
  LET E == Edges
      adj == [d \in Dofs |-> {e \in Dofs : <<d, e>> \in E \/ <<e, d>> \in E}]
  IN Propagate([d \in Dofs |-> d], adj)

\* the properties, evaluated whenever finalize may be called, i.e. in every reachable state
ClosureOK == LET lab == ClassLabel  g == FinState.gidx IN
             \A d1, d2 \in Dofs : (g[d1] = g[d2]) <=> (lab[d1] = lab[d2])
GapFree   == LET f == FinState IN
             /\ {f.gidx[d] : d \in Dofs} = 0..(f.numdofs - 1)
             /\ f.numdofs = Cardinality(Range(ClassLabel))
SdofsConsistent ==
  /\ \A s \in 1..Len(sdofs) : sdofs[s] = {d \in Dofs : spp[d] = s - 1}
  /\ \A s \in 1..Len(sdofs) : Cardinality(sdofs[s]) >= 2

Finalize ==
  /\ ~fin
  /\ fin' = TRUE
  /\ UNCHANGED <<spp, sdofs, cnt, hist>>
  /\ DoEmit => (LET lab == ClassLabel IN
                 Emit("FIN", [hist |-> hist, numdofs |-> Cardinality(Range(lab)),
                              label |-> [i \in 1..(NP * N) |-> lab[i - 1]]]))

Next == (\E k \in 1..NI : JoinBoundaries(k)) \/ Finalize
Spec == Init /\ [][Next]_vars

\* emitted once (initial state) so that the harness knows the complex
EmitComplex == (DoEmit /\ hist = <<>> /\ ~fin) =>
  Emit("COMPLEX", [kind |-> Kind, D |-> D, W |-> WD, NN |-> NN, NP |-> NP,
                   refl |-> [p \in 1..NP |-> [a \in 1..D |-> Refl(p - 1, a)]],
                   interfaces |-> Interfaces])
=============================================================================
