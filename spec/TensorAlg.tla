------------------------------ MODULE TensorAlg ------------------------------
(* C18 -- low-rank tensor formats (pyiga/tensor.py, lowrank.py).

   A state machine.  The abstract state `val` is the dense integer tensor the current object
   denotes: a record [sh, e] = shape (sequence of extents) + entries in C order, i.e. the
   function  multi-index |-> e[Ravel(multi-index)+1]  (operators Mk/At below).  Everything
   under "declarative side" is defined on that function only (numpy semantics of + - neg,
   indexing, squeeze, mode products, padding, outer product, matrices of operators).

   The variable `rep` is the code-shaped side: the low-rank *representation* as pyiga stores it
   (factor matrices of a CanonicalTensor, bases + core of a TuckerTensor, terms of a TensorSum,
   factors of a TensorProd, Kronecker terms of a CanonicalOperator) and every action transforms
   it the way the anchored methods do (hstack of factors, join_tucker_bases, row selection +
   squeeze, nway_prod per term ...).  Invariant RepOK: expanding `rep` gives `val` in every
   reachable state -- "every operation commutes with expansion to a full array".

   hist (hidden by VIEW) records action, arguments and the tensor the spec expects after the
   step; the harness replays it on the real classes.

   Legacy = TRUE models squeeze() as shipped (negative axes are not normalised): negative control. *)
EXTENDS Integers, Sequences, FiniteSets, SequencesExt, TLC, Emit

CONSTANTS Mode,      \* "bfs": emit hist' at every transition;  "sim": emit hist at the end of a behaviour
          MaxLen,    \* maximal number of steps
          Orders,    \* orders of the initial tensors (tensor mode); {} = none
          OpDims,    \* dimensions of the initial operators (operator mode); {} = none
          Alpha,     \* "seed" | "tiny" | "small" | "full": argument alphabet of the actions
          NSeeds,    \* seeds per action ("seed" alphabet) / operands per kind (enumerating alphabets)
          NInit,     \* initial representations per (shape, kind)
          Salt,      \* mixes into every pseudo-random choice (from the harness seed)
          Legacy

VARIABLES val, rep, exact, hist
vars == <<val, rep, exact, hist>>
View == <<val, rep, exact, Len(hist)>>

NONE == 99          \* stands for Python's None inside slices / squeeze arguments
EBound == 2000      \* |entry| bound of dense values (keeps sums of squares inside 32 bit)
FBound == 60        \* |entry| bound of factor matrices
MaxExt == 4         \* extents stay <= 4 (initial ones are 1..3, padding may add)
MaxOrd == 4
MaxSize == 256

-----------------------------------------------------------------------------
(* small arithmetic *)
Abs(x)  == IF x < 0 THEN -x ELSE x
Ix(n)   == [i \in 1..n |-> i]
SSum(s) == FoldLeft(LAMBDA a, b : a + b, 0, s)
SProd(s) == FoldLeft(LAMBDA a, b : a * b, 1, s)
Clamp(x, lo, hi) == IF x < lo THEN lo ELSE IF x > hi THEN hi ELSE x
SeqMaxAbs(s) == FoldLeft(LAMBDA a, b : IF Abs(b) > a THEN Abs(b) ELSE a, 0, s)

Hash(s, i) ==
  LET h1 == ((s % 32749) * 7919 + (i % 32749) * 10007 + 12345) % 32749
      h2 == (h1 * h1 + 7 * h1 + 3) % 32749
  IN  (h2 * 31 + i + 11) % 32749
Val5(s, i) == (Hash(s, i) % 5) - 2           \* entries in -2..2

-----------------------------------------------------------------------------
(* dense tensors: the reference *)
Unravel(i, sh) == TLCEval([a \in 1..Len(sh) |-> (i \div SProd(SubSeq(sh, a + 1, Len(sh)))) % sh[a]])
RavelIx(mi, sh) == FoldLeft(LAMBDA acc, a : acc * sh[a] + mi[a], 0, Ix(Len(sh)))
Mk(sh, F(_)) == LET s == TLCEval(sh) IN [sh |-> s, e |-> TLCEval([i \in 1..SProd(s) |-> F(Unravel(i - 1, s))])]
At(T, mi)    == T.e[RavelIx(mi, T.sh) + 1]
Scalar(x)    == [sh |-> <<>>, e |-> <<x>>]
NormSq(T)    == SSum([i \in 1..Len(T.e) |-> T.e[i] * T.e[i]])
Bounded(T)   == /\ Len(T.sh) <= MaxOrd
                /\ \A k \in 1..Len(T.sh) : T.sh[k] <= MaxExt
                /\ Len(T.e) <= MaxSize
                /\ SeqMaxAbs(T.e) <= EBound

DAdd(A, B) == [sh |-> A.sh, e |-> TLCEval([i \in 1..Len(A.e) |-> A.e[i] + B.e[i]])]
DSub(A, B) == [sh |-> A.sh, e |-> TLCEval([i \in 1..Len(A.e) |-> A.e[i] - B.e[i]])]
DNeg(A)    == [sh |-> A.sh, e |-> TLCEval([i \in 1..Len(A.e) |-> -A.e[i]])]
DRavel(A)  == [sh |-> <<Len(A.e)>>, e |-> A.e]
DOuter(A, B) ==
  LET nb == Len(B.e) IN
  [sh |-> A.sh \o B.sh,
   e  |-> TLCEval([i \in 1..(Len(A.e) * nb) |-> A.e[((i - 1) \div nb) + 1] * B.e[((i - 1) % nb) + 1]])]

\* matrices are sequences of rows; <<>> stands for "no operator" (Python None)
IsNone(B)  == Len(B) = 0
\* mode-k product with the matrix B (rows x sh[k])
DMode(A, k, B) ==
  Mk([A.sh EXCEPT ![k] = Len(B)],
     LAMBDA mi : SSum([j \in 1..A.sh[k] |-> B[mi[k] + 1][j] * At(A, [mi EXCEPT ![k] = j - 1])]))
\* apply_tprod: Bs may be shorter than the order; missing / None = identity
DNway(A, Bs) == FoldLeft(LAMBDA T, k : IF IsNone(Bs[k]) THEN T ELSE DMode(T, k, Bs[k]), A, Ix(Len(Bs)))

\* zero padding: pw[k] = <<before, after>> or <<>> (None)
PwB(pw, k) == IF Len(pw[k]) = 0 THEN 0 ELSE pw[k][1]
PwA(pw, k) == IF Len(pw[k]) = 0 THEN 0 ELSE pw[k][2]
DPad(A, pw) ==
  LET d == Len(A.sh) IN
  Mk([k \in 1..d |-> A.sh[k] + PwB(pw, k) + PwA(pw, k)],
     LAMBDA mi : IF \A k \in 1..d : mi[k] >= PwB(pw, k) /\ mi[k] < PwB(pw, k) + A.sh[k]
                 THEN At(A, [k \in 1..d |-> mi[k] - PwB(pw, k)]) ELSE 0)

\* numpy.squeeze over the (1-based, normalised) axes in the set S
DSqueeze(A, S) == [sh |-> SelectSeq([k \in 1..Len(A.sh) |-> IF k \in S THEN 0 ELSE A.sh[k]], LAMBDA x : x # 0),
                   e  |-> A.e]

-----------------------------------------------------------------------------
(* Python index expressions.  An item is a record [t, i, lo, hi, st, l]:
     t = "i": the integer i (negative counts from the end)          -> axis dropped
     t = "s": slice(lo, hi, st), NONE = omitted                    -> axis kept
     t = "l": list l of integers                                    -> axis kept (orthogonal selection)
   an expression is a sequence of at most `order` items; missing trailing items are full slices. *)
Item(t, i, lo, hi, st, l) == [t |-> t, i |-> i, lo |-> lo, hi |-> hi, st |-> st, l |-> l]
IInt(i)            == Item("i", i, 0, 0, 0, <<>>)
ISlice(lo, hi, st) == Item("s", 0, lo, hi, st, <<>>)
IList(l)           == Item("l", 0, 0, 0, 0, l)
FullSlice          == ISlice(NONE, NONE, NONE)

\* range(n)[slice(lo,hi,st)]  (slice.indices of CPython)
SliceSel(n, it) ==
  LET step == IF it.st = NONE THEN 1 ELSE it.st
      nrm(x) == IF x < 0 THEN x + n ELSE x
  IN IF step > 0 THEN
       LET lo  == IF it.lo = NONE THEN 0 ELSE Clamp(nrm(it.lo), 0, n)
           hi  == IF it.hi = NONE THEN n ELSE Clamp(nrm(it.hi), 0, n)
           len == IF hi > lo THEN ((hi - lo - 1) \div step) + 1 ELSE 0
       IN [k \in 1..len |-> lo + (k - 1) * step]
     ELSE
       LET lo  == IF it.lo = NONE THEN n - 1 ELSE Clamp(nrm(it.lo), -1, n - 1)
           hi  == IF it.hi = NONE THEN -1 ELSE Clamp(nrm(it.hi), -1, n - 1)
           len == IF lo > hi THEN ((lo - hi - 1) \div (-step)) + 1 ELSE 0
       IN [k \in 1..len |-> lo + (k - 1) * step]

ItemValid(n, it) ==
  CASE it.t = "i" -> it.i >= -n /\ it.i < n
    [] it.t = "s" -> it.st # 0
    [] it.t = "l" -> \A k \in 1..Len(it.l) : it.l[k] >= -n /\ it.l[k] < n
AxisSel(n, it) ==
  CASE it.t = "i" -> <<IF it.i < 0 THEN it.i + n ELSE it.i>>
    [] it.t = "s" -> SliceSel(n, it)
    [] it.t = "l" -> [k \in 1..Len(it.l) |-> IF it.l[k] < 0 THEN it.l[k] + n ELSE it.l[k]]
PadIx(ix, d) == ix \o [k \in 1..(d - Len(ix)) |-> FullSlice]
IxValid(ix, sh) ==
  /\ Len(ix) <= Len(sh)
  /\ \A k \in 1..Len(ix) : ItemValid(sh[k], ix[k])
  /\ Cardinality({k \in 1..Len(ix) : ix[k].t = "l"}) <= 1
\* numpy pairs "advanced" indices (ints count as advanced as soon as a list is present); the orthogonal
\* reading coincides with numpy's iff the advanced indices are adjacent
NumpyAgrees(ix) ==
  LET adv == {k \in 1..Len(ix) : ix[k].t # "s"} IN
  (\E k \in 1..Len(ix) : ix[k].t = "l") =>
     \A a, b \in adv : \A c \in a..b : c \in adv
IxSels(ix, sh)  == LET I == PadIx(ix, Len(sh)) IN [k \in 1..Len(sh) |-> AxisSel(sh[k], I[k])]
IxEmpty(ix, sh) == \E k \in 1..Len(sh) : Len(IxSels(ix, sh)[k]) = 0

DGetItem(A, ix) ==
  LET d    == Len(A.sh)
      I    == PadIx(ix, d)
      sels == IxSels(ix, A.sh)
      keep == SelectSeq(Ix(d), LAMBDA k : I[k].t # "i")
      pos  == [k \in 1..d |-> Cardinality({j \in 1..k : I[j].t # "i"})]
  IN Mk([j \in 1..Len(keep) |-> Len(sels[keep[j]])],
        LAMBDA mi : At(A, [k \in 1..d |-> IF I[k].t = "i" THEN sels[k][1] ELSE sels[k][mi[pos[k]] + 1]]))

-----------------------------------------------------------------------------
(* matrices *)
MatMul(B, X) ==    \* B: m x n, X: n x r (r may be 0)
  LET r == IF Len(X) = 0 THEN 0 ELSE Len(X[1]) IN
  TLCEval([i \in 1..Len(B) |-> [c \in 1..r |-> SSum([j \in 1..Len(X) |-> B[i][j] * X[j][c]])]])
MatT(B) == TLCEval([j \in 1..Len(B[1]) |-> [i \in 1..Len(B) |-> B[i][j]]])
MatNeg(B) == TLCEval([i \in 1..Len(B) |-> [j \in 1..Len(B[i]) |-> -B[i][j]]])
MatMaxAbs(B) == FoldLeft(LAMBDA a, row : LET m == SeqMaxAbs(row) IN IF m > a THEN m ELSE a, 0, B)
IdMat(n) == TLCEval([i \in 1..n |-> [j \in 1..n |-> IF i = j THEN 1 ELSE 0]])
PadMat(n, b, a) == TLCEval([i \in 1..(n + b + a) |-> [j \in 1..n |-> IF i = j + b THEN 1 ELSE 0]])   \* tensor.pad
SelRows(X, sel) == TLCEval([i \in 1..Len(sel) |-> X[sel[i] + 1]])
HStack(X, Y) == TLCEval([i \in 1..Len(X) |-> X[i] \o Y[i]])

-----------------------------------------------------------------------------
(* representations (code-shaped side)
     [k |-> "can",  R, Xs]        CanonicalTensor: Xs[j] is n_j x R
     [k |-> "tuck", Us, X]        TuckerTensor: Us[j] is n_j x m_j, X dense core of shape m
     [k |-> "full", A]            numpy.ndarray
     [k |-> "scal", v]            a scalar (result of indexing every axis with an integer)
     [k |-> "sum",  ts]           TensorSum of the terms ts
     [k |-> "prod", fs]           TensorProd of the factors fs
     [k |-> "op", ts]             CanonicalOperator(ts), ts[r][j] a matrix
     [k |-> "empty", of]          an empty tensor (some extent 0) of format `of`: terminal            *)
RECURSIVE ShapeOf(_)
ShapeOf(r) ==
  CASE r.k = "can"  -> [j \in 1..Len(r.Xs) |-> Len(r.Xs[j])]
    [] r.k = "tuck" -> [j \in 1..Len(r.Us) |-> Len(r.Us[j])]
    [] r.k = "full" -> r.A.sh
    [] r.k = "scal" -> <<>>
    [] r.k = "sum"  -> ShapeOf(r.ts[1])
    [] r.k = "prod" -> FoldLeft(LAMBDA acc, f : acc \o ShapeOf(f), <<>>, r.fs)

RECURSIVE Dense(_)
Dense(r) ==
  CASE r.k = "can"  ->
         Mk(ShapeOf(r), LAMBDA mi : SSum([c \in 1..r.R |-> SProd([j \in 1..Len(r.Xs) |-> r.Xs[j][mi[j] + 1][c]])]))
    [] r.k = "tuck" ->
         LET cs == r.X.sh IN
         Mk(ShapeOf(r), LAMBDA mi :
              SSum([q \in 1..Len(r.X.e) |->
                      LET cj == Unravel(q - 1, cs) IN
                      r.X.e[q] * SProd([j \in 1..Len(r.Us) |-> r.Us[j][mi[j] + 1][cj[j] + 1]])]))
    [] r.k = "full" -> r.A
    [] r.k = "scal" -> Scalar(r.v)
    [] r.k = "sum"  -> FoldLeft(LAMBDA acc, t : DAdd(acc, Dense(t)), Dense(r.ts[1]), Tail(r.ts))
    [] r.k = "prod" -> FoldLeft(LAMBDA acc, f : DOuter(acc, Dense(f)), Dense(r.fs[1]), Tail(r.fs))

RECURSIVE HasFull(_)
HasFull(r) ==
  CASE r.k = "full" -> TRUE
    [] r.k = "sum"  -> \E i \in 1..Len(r.ts) : HasFull(r.ts[i])
    [] r.k = "prod" -> \E i \in 1..Len(r.fs) : HasFull(r.fs[i])
    [] OTHER -> FALSE

RECURSIVE RepBounded(_)
RepBounded(r) ==
  CASE r.k = "can"  -> \A j \in 1..Len(r.Xs) : MatMaxAbs(r.Xs[j]) <= FBound
    [] r.k = "tuck" -> (\A j \in 1..Len(r.Us) : MatMaxAbs(r.Us[j]) <= FBound) /\ SeqMaxAbs(r.X.e) <= EBound
                       /\ Len(r.X.e) <= MaxSize
    [] r.k = "full" -> SeqMaxAbs(r.A.e) <= EBound
    [] r.k = "scal" -> Abs(r.v) <= EBound
    [] r.k = "sum"  -> Len(r.ts) <= 12 /\ \A i \in 1..Len(r.ts) : RepBounded(r.ts[i])
    [] r.k = "prod" -> \A i \in 1..Len(r.fs) : RepBounded(r.fs[i])
    [] r.k = "op"   -> Len(r.ts) <= 8 /\ \A t \in 1..Len(r.ts) : \A j \in 1..Len(r.ts[t]) : MatMaxAbs(r.ts[t][j]) <= FBound
    [] r.k = "empty" -> TRUE

Can(R, Xs)  == [k |-> "can", R |-> R, Xs |-> Xs]
Tuck(Us, X) == [k |-> "tuck", Us |-> Us, X |-> X]
Full(A)     == [k |-> "full", A |-> A]
Scal(v)     == [k |-> "scal", v |-> v]
SumR(ts)    == [k |-> "sum", ts |-> ts]
ProdR(fs)   == [k |-> "prod", fs |-> fs]
OpR(ts)     == [k |-> "op", ts |-> ts]

\* ---- squeeze (tensor.py:816-838, 1002-1021).  axraw: 0-based axes as passed (may be negative)
NormAx(a, d) == IF a < 0 THEN a + d ELSE a
SqueezeCan(r, axraw) ==
  LET d    == Len(r.Xs)
      gone == IF Legacy THEN {axraw[i] : i \in 1..Len(axraw)} ELSE {NormAx(axraw[i], d) : i \in 1..Len(axraw)}
      rem  == SelectSeq([j \in 1..d |-> j - 1], LAMBDA j : j \notin gone)
      fac  == [c \in 1..r.R |-> SProd([i \in 1..Len(axraw) |-> r.Xs[NormAx(axraw[i], d) + 1][1][c]])]
  IN IF Len(axraw) = 0 THEN r
     ELSE IF Len(axraw) = d THEN Scal(Dense(r).e[1])
     ELSE Can(r.R, [i \in 1..Len(rem) |->
                      IF i = 1 THEN [row \in 1..Len(r.Xs[rem[1] + 1]) |-> [c \in 1..r.R |-> r.Xs[rem[1] + 1][row][c] * fac[c]]]
                      ELSE r.Xs[rem[i] + 1]])

\* contraction of axis a (1-based, extent of U is 1 x m_a) of the core X with the row vector u
Contract(X, a, u) ==
  Mk([j \in 1..(Len(X.sh) - 1) |-> IF j < a THEN X.sh[j] ELSE X.sh[j + 1]],
     LAMBDA mi : SSum([q \in 1..X.sh[a] |->
                         u[q] * At(X, [j \in 1..Len(X.sh) |-> IF j < a THEN mi[j] ELSE IF j = a THEN q - 1 ELSE mi[j - 1]])]))
SqueezeTuck(r, axraw) ==
  LET d    == Len(r.Us)
      gone == {NormAx(axraw[i], d) + 1 : i \in 1..Len(axraw)}
      desc == SetToSortSeq(gone, LAMBDA x, y : x > y)
      rem  == SelectSeq(Ix(d), LAMBDA j : j \notin gone)
  IN IF Len(axraw) = 0 THEN r
     ELSE IF Len(axraw) = d THEN Scal(Dense(r).e[1])
     ELSE Tuck([i \in 1..Len(rem) |-> r.Us[rem[i]]],
               FoldLeft(LAMBDA X, a : Contract(X, a, r.Us[a][1]), r.X, desc))

\* ---- conversions (tensor.py:732-747, 890-902)
Superdiag(d, R) == Mk([j \in 1..d |-> R], LAMBDA mi : IF \A j \in 1..d : mi[j] = mi[1] THEN 1 ELSE 0)
ToTuckR(r) ==
  CASE r.k = "can"  -> Tuck(r.Xs, Superdiag(Len(r.Xs), r.R))
    [] r.k = "tuck" -> r
    [] OTHER -> LET A == Dense(r) IN Tuck([j \in 1..Len(A.sh) |-> IdMat(A.sh[j])], A)
ToCanR(r) ==   \* from Tucker: one term per non-zero core entry, in C order
  LET nz == SelectSeq(Ix(Len(r.X.e)), LAMBDA q : r.X.e[q] # 0)
      d  == Len(r.Us)
  IN Can(Len(nz), [j \in 1..d |-> [row \in 1..Len(r.Us[j]) |-> [c \in 1..Len(nz) |->
             LET cj == Unravel(nz[c] - 1, r.X.sh) IN
             IF j = 1 THEN r.X.e[nz[c]] * r.Us[1][row][cj[1] + 1] ELSE r.Us[j][row][cj[j] + 1]]]])

\* ---- join_tucker_bases (tensor.py:1030-1046)
JoinU(a, b)  == [j \in 1..Len(a.Us) |-> HStack(a.Us[j], b.Us[j])]
JoinX1(a, b) == DPad(a.X, [j \in 1..Len(a.Us) |-> <<0, b.X.sh[j]>>])
JoinX2(a, b) == DPad(b.X, [j \in 1..Len(a.Us) |-> <<a.X.sh[j], 0>>])

\* ---- negation
RECURSIVE NegR(_)
NegR(r) ==
  CASE r.k = "can"  -> Can(r.R, [j \in 1..Len(r.Xs) |-> IF j = 1 THEN MatNeg(r.Xs[1]) ELSE r.Xs[j]])
    [] r.k = "tuck" -> Tuck(r.Us, DNeg(r.X))
    [] r.k = "full" -> Full(DNeg(r.A))
    [] r.k = "scal" -> Scal(-r.v)
    [] r.k = "sum"  -> SumR([i \in 1..Len(r.ts) |-> NegR(r.ts[i])])
    [] r.k = "prod" -> ProdR([i \in 1..Len(r.fs) |-> IF i = 1 THEN NegR(r.fs[1]) ELSE r.fs[i]])

\* ---- addition / subtraction: which operand formats the classes accept, and what they build
Addable(a, b) ==
  CASE a.k = "can"  -> b.k \in {"can", "tuck", "full"}
    [] a.k = "tuck" -> b.k \in {"can", "tuck", "full"}
    [] a.k = "sum"  -> TRUE
    [] a.k = "prod" -> TRUE
    [] a.k = "full" -> b.k = "full"
    [] OTHER -> FALSE
RECURSIVE AddR(_, _)
AddR(a, b) ==
  CASE a.k = "can" /\ b.k = "can"   -> Can(a.R + b.R, [j \in 1..Len(a.Xs) |-> HStack(a.Xs[j], b.Xs[j])])
    [] a.k = "can" /\ b.k = "tuck"  -> AddR(ToTuckR(a), b)
    [] a.k = "tuck" /\ b.k = "tuck" -> Tuck(JoinU(a, b), DAdd(JoinX1(a, b), JoinX2(a, b)))
    [] a.k = "tuck" /\ b.k = "can"  -> AddR(a, ToTuckR(b))
    [] a.k \in {"can", "tuck", "full"} /\ b.k = "full" -> Full(DAdd(Dense(a), b.A))
    [] a.k = "sum"  -> SumR(Append(a.ts, b))
    [] a.k = "prod" -> SumR(<<a, b>>)
SubR(a, b) ==
  CASE a.k = "tuck" /\ b.k = "tuck" -> Tuck(JoinU(a, b), DSub(JoinX1(a, b), JoinX2(a, b)))
    [] a.k = "sum"  -> SumR(Append(a.ts, NegR(b)))
    [] a.k = "prod" -> SumR(<<a, NegR(b)>>)
    [] OTHER -> AddR(a, NegR(b))

\* ---- apply_tprod / nway_prod (tensor.py:97-128, 772-791, 954-973, 1072-1078, 1123-1130)
BsAt(Bs, j) == IF j <= Len(Bs) THEN Bs[j] ELSE <<>>
RECURSIVE NwayR(_, _)
NwayR(r, Bs) ==
  CASE r.k = "can"  -> Can(r.R, [j \in 1..Len(r.Xs) |-> IF IsNone(BsAt(Bs, j)) THEN r.Xs[j] ELSE MatMul(Bs[j], r.Xs[j])])
    [] r.k = "tuck" -> Tuck([j \in 1..Len(r.Us) |-> IF IsNone(BsAt(Bs, j)) THEN r.Us[j] ELSE MatMul(Bs[j], r.Us[j])], r.X)
    [] r.k = "full" -> Full(DNway(r.A, Bs))
    [] r.k = "scal" -> r
    [] r.k = "sum"  -> SumR([i \in 1..Len(r.ts) |-> NwayR(r.ts[i], Bs)])
    [] r.k = "prod" ->
         LET ofs == [i \in 1..Len(r.fs) |-> SSum([q \in 1..(i - 1) |-> Len(ShapeOf(r.fs[q]))])] IN
         ProdR([i \in 1..Len(r.fs) |->
                  LET lo == ofs[i] + 1
                      hi == ofs[i] + Len(ShapeOf(r.fs[i]))
                  IN NwayR(r.fs[i], SubSeq(Bs, lo, IF hi > Len(Bs) THEN Len(Bs) ELSE hi))])
PadR(r, pw) == NwayR(r, [j \in 1..Len(pw) |-> IF Len(pw[j]) = 0 THEN <<>> ELSE PadMat(ShapeOf(r)[j], pw[j][1], pw[j][2])])

\* ---- indexing (tensor.py:66-94, 840-844, 1023-1027, 1089-1094, 1141-1152); non-empty results only
RECURSIVE GetItemR(_, _)
GetItemR(r, ix) ==
  LET sh   == ShapeOf(r)
      d    == Len(sh)
      I    == PadIx(ix, d)
      sels == IxSels(ix, sh)
      sing == SelectSeq([j \in 1..d |-> j - 1], LAMBDA j : I[j + 1].t = "i")
  IN
  CASE r.k = "can"  -> SqueezeCan(Can(r.R, [j \in 1..d |-> SelRows(r.Xs[j], sels[j])]), sing)
    [] r.k = "tuck" -> SqueezeTuck(Tuck([j \in 1..d |-> SelRows(r.Us[j], sels[j])], r.X), sing)
    [] r.k = "full" -> LET A == DGetItem(r.A, ix) IN IF Len(A.sh) = 0 THEN Scal(A.e[1]) ELSE Full(A)
    [] r.k = "scal" -> r
    [] r.k = "sum"  ->
         LET ys == [i \in 1..Len(r.ts) |-> GetItemR(r.ts[i], ix)] IN
         IF \A i \in 1..Len(ys) : ys[i].k = "scal" THEN Scal(SSum([i \in 1..Len(ys) |-> ys[i].v])) ELSE SumR(ys)
    [] r.k = "prod" ->
         LET ofs == [i \in 1..Len(r.fs) |-> SSum([q \in 1..(i - 1) |-> Len(ShapeOf(r.fs[q]))])]
             ys  == [i \in 1..Len(r.fs) |-> GetItemR(r.fs[i], SubSeq(I, ofs[i] + 1, ofs[i] + Len(ShapeOf(r.fs[i]))))]
         IN IF \A i \in 1..Len(ys) : ys[i].k = "scal" THEN Scal(SProd([i \in 1..Len(ys) |-> ys[i].v])) ELSE ProdR(ys)

\* ---- CanonicalOperator.apply: reduce(add, (apply_tprod(t, X) for t in terms))
ApplyR(op, r) == FoldLeft(LAMBDA acc, t : AddR(acc, NwayR(r, t)), NwayR(r, op.ts[1]), Tail(op.ts))

-----------------------------------------------------------------------------
(* operators: value = matrix of the operator w.r.t. C-order vectorisation, [sh = <<rows, cols>>, e, out, inn] *)
OpOut(r) == [j \in 1..Len(r.ts[1]) |-> Len(r.ts[1][j])]
OpIn(r)  == [j \in 1..Len(r.ts[1]) |-> Len(r.ts[1][j][1])]
MkOp(out, inn, F(_, _)) ==
  LET nr == SProd(out)  nc == SProd(inn) IN
  [sh |-> <<nr, nc>>, out |-> out, inn |-> inn,
   e |-> TLCEval([i \in 1..(nr * nc) |-> F(Unravel((i - 1) \div nc, out), Unravel((i - 1) % nc, inn))])]
OAt(M, I, J) == M.e[RavelIx(I, M.out) * M.sh[2] + RavelIx(J, M.inn) + 1]
\* asmatrix (tensor.py:1197-1202): sum over the terms of the Kronecker product of their matrices
KronM(A, B) ==
  LET rb == Len(B)  cb == Len(B[1]) IN
  TLCEval([i \in 1..(Len(A) * rb) |-> [j \in 1..(Len(A[1]) * cb) |->
             A[((i - 1) \div rb) + 1][((j - 1) \div cb) + 1] * B[((i - 1) % rb) + 1][((j - 1) % cb) + 1]]])
OpDense(r) ==
  LET Ms == TLCEval([t \in 1..Len(r.ts) |-> FoldLeft(KronM, r.ts[t][1], Tail(r.ts[t]))])
      nr == Len(Ms[1])  nc == Len(Ms[1][1])
  IN [sh |-> <<nr, nc>>, out |-> OpOut(r), inn |-> OpIn(r),
      e |-> TLCEval([i \in 1..(nr * nc) |-> SSum([t \in 1..Len(Ms) |-> Ms[t][((i - 1) \div nc) + 1][((i - 1) % nc) + 1]])])]
OBounded(M) == SeqMaxAbs(M.e) <= EBound /\ Len(M.e) <= 256 /\ Len(M.out) <= 3
MAdd(A, B) == [A EXCEPT !.e = TLCEval([i \in 1..Len(A.e) |-> A.e[i] + B.e[i]])]
MSub(A, B) == [A EXCEPT !.e = TLCEval([i \in 1..Len(A.e) |-> A.e[i] - B.e[i]])]
MNeg(A)    == [A EXCEPT !.e = TLCEval([i \in 1..Len(A.e) |-> -A.e[i]])]
MMul(A, B) ==   \* composition: A after B
  LET nk == A.sh[2] IN
  [sh |-> <<A.sh[1], B.sh[2]>>, out |-> A.out, inn |-> B.inn,
   e |-> TLCEval([i \in 1..(A.sh[1] * B.sh[2]) |->
            LET row == (i - 1) \div B.sh[2]  col == (i - 1) % B.sh[2] IN
            SSum([q \in 1..nk |-> A.e[row * nk + q] * B.e[(q - 1) * B.sh[2] + col + 1]])])]
MTr(A) == [sh |-> <<A.sh[2], A.sh[1]>>, out |-> A.inn, inn |-> A.out,
           e |-> TLCEval([i \in 1..Len(A.e) |-> A.e[((i - 1) % A.sh[1]) * A.sh[2] + ((i - 1) \div A.sh[1]) + 1]])]
MKron(A, B) ==
  MkOp(A.out \o B.out, A.inn \o B.inn, LAMBDA I, J :
         OAt(A, SubSeq(I, 1, Len(A.out)), SubSeq(J, 1, Len(A.inn)))
         * OAt(B, SubSeq(I, Len(A.out) + 1, Len(I)), SubSeq(J, Len(A.inn) + 1, Len(J))))
MSlice(A, lim) ==   \* the principal sub-block: per axis indices lim[j][1] .. lim[j][2]-1
  LET nsh == [j \in 1..Len(lim) |-> lim[j][2] - lim[j][1]] IN
  MkOp(nsh, nsh, LAMBDA I, J : OAt(A, [j \in 1..Len(lim) |-> I[j] + lim[j][1]], [j \in 1..Len(lim) |-> J[j] + lim[j][1]]))
MApply(A, T) ==     \* matrix times vec(T), reshaped to the output shape
  [sh |-> A.out, e |-> TLCEval([i \in 1..A.sh[1] |-> SSum([q \in 1..A.sh[2] |-> A.e[(i - 1) * A.sh[2] + q] * T.e[q]])])]

OpNegR(r)      == OpR([t \in 1..Len(r.ts) |-> [j \in 1..Len(r.ts[t]) |-> IF j = 1 THEN MatNeg(r.ts[t][1]) ELSE r.ts[t][j]]])
OpAddR(a, b)   == OpR(a.ts \o b.ts)
OpMulR(a, b)   == OpR([q \in 1..(Len(a.ts) * Len(b.ts)) |->
                        LET t1 == a.ts[((q - 1) \div Len(b.ts)) + 1]  t2 == b.ts[((q - 1) % Len(b.ts)) + 1] IN
                        [j \in 1..Len(t1) |-> MatMul(t1[j], t2[j])]])
OpTrR(r)       == OpR([t \in 1..Len(r.ts) |-> [j \in 1..Len(r.ts[t]) |-> MatT(r.ts[t][j])]])
OpKronR(a, b)  == OpR([q \in 1..(Len(a.ts) * Len(b.ts)) |->
                        a.ts[((q - 1) \div Len(b.ts)) + 1] \o b.ts[((q - 1) % Len(b.ts)) + 1]])
OpSliceR(r, lim) == OpR([t \in 1..Len(r.ts) |-> [j \in 1..Len(r.ts[t]) |->
                        [row \in 1..(lim[j][2] - lim[j][1]) |-> SubSeq(r.ts[t][j][row + lim[j][1]], lim[j][1] + 1, lim[j][2])]]])

-----------------------------------------------------------------------------
(* generated operands: everything is a function of (kind, shape, seed) *)
GenMat(m, n, s, base) == TLCEval([i \in 1..m |-> [j \in 1..n |-> Val5(s, base + i * 7 + j)]])
GenDense(sh, s, base) == [sh |-> TLCEval(sh), e |-> TLCEval([i \in 1..SProd(sh) |-> Val5(s, base + i)])]
GenCan(sh, s) ==
  LET R == Hash(s, 1) % 3 IN Can(R, [j \in 1..Len(sh) |-> GenMat(sh[j], R, s, 40 * j)])
GenTuck(sh, s) ==
  LET zero == (Hash(s, 2) % 7) = 0
      m    == [j \in 1..Len(sh) |-> IF zero THEN 0 ELSE 1 + (Hash(s, 2 + j) % 2)]
  IN Tuck([j \in 1..Len(sh) |-> GenMat(sh[j], m[j], s, 40 * j)], GenDense(m, s, 300))
GenLeaf(sh, s) ==
  LET c == Hash(s, 9) % 3 IN
  IF c = 0 THEN GenCan(sh, s + 1) ELSE IF c = 1 THEN GenTuck(sh, s + 1) ELSE Full(GenDense(sh, s + 1, 500))
GenRep(kind, sh, s) ==
  CASE kind = "can"  -> GenCan(sh, s)
    [] kind = "tuck" -> GenTuck(sh, s)
    [] kind = "full" -> Full(GenDense(sh, s, 500))
    [] kind = "sum"  -> IF Hash(s, 3) % 2 = 0 THEN SumR(<<GenCan(sh, s + 1), GenTuck(sh, s + 2)>>)
                        ELSE SumR(<<GenLeaf(sh, s + 3), Full(GenDense(sh, s + 4, 500)), GenCan(sh, s + 5)>>)
    [] kind = "prod" ->
         IF Len(sh) = 1 THEN ProdR(<<GenLeaf(sh, s + 1)>>)
         ELSE LET p == 1 + (Hash(s, 4) % (Len(sh) - 1)) IN
              ProdR(<<GenLeaf(SubSeq(sh, 1, p), s + 1), GenLeaf(SubSeq(sh, p + 1, Len(sh)), s + 2)>>)
\* operator with output shape out and input shape inn, Kronecker rank 1..2
EyeOp(ns) == [k |-> "op", eye |-> TRUE, ts |-> <<[j \in 1..Len(ns) |-> IdMat(ns[j])]>>]   \* CanonicalOperator.eye(ns)
GenOp(out, inn, s) ==
  IF out = inn /\ Hash(s, 6) % 4 = 0 THEN EyeOp(out) ELSE
  OpR([t \in 1..(1 + (Hash(s, 5) % 2)) |-> [j \in 1..Len(inn) |-> GenMat(out[j], inn[j], s + t, 40 * j)]])

Kinds == {"can", "tuck", "sum", "prod", "full"}
Seeds == 1..NSeeds
Chk(T) == SSum([i \in 1..Len(T.e) |-> (T.e[i] % 97) * i]) % 1000
StepSeed(sd, act) == Hash(Salt * 131 + sd * 17 + act, Len(hist) * 7 + Chk(val))

\* ---- index expressions offered in a state
TinyItems(n) ==
  {IInt(0), IInt(-1), FullSlice, ISlice(NONE, NONE, -1), ISlice(1, NONE, NONE), IList(<<n - 1, 0>>)}
SmallItems(n) ==
  {IInt(i) : i \in (-n)..(n - 1)} \cup
  {FullSlice, ISlice(1, NONE, NONE), ISlice(NONE, -1, NONE), ISlice(NONE, NONE, 2), ISlice(NONE, NONE, -1),
   ISlice(-1, 0, -1), ISlice(-2, NONE, -2), ISlice(1, n + 2, NONE), ISlice(4, 1, NONE), ISlice(NONE, NONE, 3),
   ISlice(-n - 1, 2, 1)} \cup
  {IList(<<n - 1, 0>>), IList(<<0, 0, -1>>), IList(<<>>)}
SlB(n) == {NONE} \cup ((-n - 1)..(n + 1))
FullItems(n) ==
  {IInt(i) : i \in (-n)..(n - 1)} \cup
  {ISlice(lo, hi, st) : lo \in SlB(n), hi \in SlB(n), st \in {NONE, 1, 2, -1, -2}} \cup
  {IList(<<>>), IList(<<0, n - 1, 0>>)} \cup {IList(<<a>>) : a \in (-n)..(n - 1)} \cup
  {IList(<<a, b>>) : a \in (-n)..(n - 1), b \in (-n)..(n - 1)}
BigItems(n)   == IF Alpha = "full" THEN FullItems(n) ELSE IF Alpha = "small" THEN SmallItems(n) ELSE TinyItems(n)
OtherItems(n) == IF Alpha = "small" THEN SmallItems(n) ELSE TinyItems(n)
RECURSIVE Tuples(_, _)
Tuples(sets, m) == IF m = 0 THEN {<<>>} ELSE {Append(t, x) : t \in Tuples(sets, m - 1), x \in sets[m]}
IxEnum(sh) ==
  LET d == Len(sh) IN
  UNION {UNION {Tuples([a \in 1..m |-> IF a = f THEN BigItems(sh[a]) ELSE OtherItems(sh[a])], m) : m \in 0..d} : f \in 1..d}

GenItem(n, s, k, allowList) ==
  LET c  == Hash(s, 20 + k) % 10
      b(i) == LET v == Hash(s, 30 + 5 * k + i) % (2 * n + 4) IN IF v = 2 * n + 3 THEN NONE ELSE v - (n + 1)
      stp == <<NONE, 1, 2, 3, -1, -2, -3, -1>>[(Hash(s, 60 + k) % 8) + 1]
      sl  == ISlice(b(1), b(2), stp)
  IN IF allowList THEN IList([i \in 1..(Hash(s, 70 + k) % 4) |-> (Hash(s, 80 + 4 * k + i) % (2 * n)) - n])
     ELSE IF c <= 2 THEN IInt((Hash(s, 90 + k) % (2 * n)) - n)
     ELSE IF c <= 7 THEN (IF Len(SliceSel(n, sl)) = 0 /\ Hash(s, 95 + k) % 5 # 0 THEN ISlice(NONE, NONE, stp) ELSE sl)
     ELSE FullSlice
GenIx(sh, s) ==
  LET d    == Len(sh)
      lpos == (Hash(s, 10) % (d + 2)) + 1          \* axis of the index list (> d: none)
      len  == IF Hash(s, 11) % 3 = 0 THEN Hash(s, 12) % (d + 1) ELSE d
  IN [k \in 1..len |-> GenItem(sh[k], s, k, k = lpos)]
IxChoices(sh) == IF Alpha = "seed" THEN {GenIx(sh, StepSeed(sd, 3)) : sd \in 1..(2 * NSeeds)} ELSE IxEnum(sh)

\* ---- matrices for mode products: rows 1..3, None with some probability
GenBs(sh, s) ==
  LET len == IF Hash(s, 13) % 3 = 0 THEN Hash(s, 14) % (Len(sh) + 1) ELSE Len(sh) IN
  [k \in 1..len |-> IF Hash(s, 15 + k) % 3 = 0 THEN <<>>
                    ELSE GenMat(1 + (Hash(s, 20 + k) % 3), sh[k], s, 100 + 30 * k)]
GenPw(sh, s) ==
  [k \in 1..Len(sh) |-> IF Hash(s, 16 + k) % 3 = 0 THEN <<>> ELSE <<Hash(s, 25 + k) % 2, Hash(s, 35 + k) % 3>>]

\* ---- squeeze arguments: [all, ax]: all axes of extent one / the 0-based axes ax (int if Len = 1 and int = TRUE)
SqArgs(sh) ==
  LET d    == Len(sh)
      ones == {j \in 0..(d - 1) : sh[j + 1] = 1}
      sq(all, ax, int) == [all |-> all, ax |-> ax, int |-> int]
  IN {sq(TRUE, <<>>, FALSE)} \cup
     {sq(FALSE, <<j>>, TRUE) : j \in ones} \cup {sq(FALSE, <<j - d>>, TRUE) : j \in ones} \cup
     {sq(FALSE, <<j>>, FALSE) : j \in ones} \cup
     {sq(FALSE, <<p[1], p[2]>>, FALSE) : p \in {q \in ones \X ones : q[1] < q[2]}} \cup
     {sq(FALSE, <<p[2], p[1] - d>>, FALSE) : p \in {q \in ones \X ones : q[1] < q[2]}} \cup
     {sq(FALSE, SetToSortSeq(ones, <), FALSE)} \cup {sq(FALSE, <<>>, FALSE)}
SqChoices(sh) ==
  IF Alpha # "seed" THEN SqArgs(sh) ELSE
  LET all == SetToSeq(SqArgs(sh)) IN {all[(Hash(StepSeed(sd, 4), 79) % Len(all)) + 1] : sd \in Seeds}
SqAxes(a, sh) == IF a.all THEN SelectSeq([j \in 1..Len(sh) |-> j - 1], LAMBDA j : sh[j + 1] = 1) ELSE a.ax

-----------------------------------------------------------------------------
(* initial states *)
RECURSIVE Shapes0(_)
Shapes0(d) == IF d = 0 THEN {<<>>} ELSE {Append(s, n) : s \in Shapes0(d - 1), n \in 1..3}
SeqShapes(d) == IF d = 1 THEN {<<3>>, <<1>>, <<2>>}
                ELSE IF d = 2 THEN {<<2, 3>>, <<1, 3>>, <<3, 1>>, <<1, 1>>}
                ELSE IF d = 3 THEN {<<2, 1, 3>>, <<1, 2, 1>>, <<3, 2, 2>>}
                ELSE {<<2, 1, 2, 3>>, <<1, 1, 2, 1>>}
\* simulation: all shapes with extents 1..3 up to order 3; order 4: extents 1..2 and a few shapes with a 3
SimShapes(d) == IF d <= 3 THEN Shapes0(d)
                ELSE {s \in Shapes0(4) : \A k \in 1..4 : s[k] <= 2} \cup
                     {<<3, 1, 2, 1>>, <<1, 3, 1, 2>>, <<2, 1, 3, 1>>, <<1, 2, 1, 3>>, <<3, 1, 1, 3>>, <<1, 3, 3, 1>>,
                      <<2, 2, 1, 3>>, <<3, 2, 1, 2>>}
SimMult(d) == IF d = 1 THEN 9 ELSE IF d = 2 THEN 3 ELSE 1     \* keeps the orders balanced among the initial states
InitShapes(d) == IF Alpha = "seed" THEN SimShapes(d) ELSE SeqShapes(d)

InitRec(r, v) == [a |-> "Init", rep |-> r, kind |-> r.k, sh |-> v.sh, e |-> v.e, n2 |-> NormSq(v), exact |-> TRUE]
OpInitRec(r, v) == [a |-> "Init", rep |-> r, kind |-> "op", sh |-> v.sh, e |-> v.e, n2 |-> 0, exact |-> TRUE,
                    out |-> v.out, inn |-> v.inn]
InitT ==
  \E d \in Orders : \E sh \in InitShapes(d) : \E kd \in Kinds :
  \E q \in 1..(IF Alpha = "seed" THEN NInit * SimMult(d) ELSE NInit) :
    LET r == GenRep(kd, sh, Hash(Salt * 7 + q, 3 + Len(sh) + 11 * SSum(sh)))
        v == Dense(r)
    IN /\ rep = r /\ val = v /\ exact = TRUE /\ hist = <<InitRec(r, v)>>
OpShapes(d) == IF d = 1 THEN {<<<<2>>, <<2>>>>, <<<<3>>, <<2>>>>}
               ELSE IF d = 2 THEN {<<<<2, 3>>, <<2, 3>>>>, <<<<1, 2>>, <<3, 2>>>>}
               ELSE {<<<<2, 1, 2>>, <<2, 1, 2>>>>}
InitO ==
  \E d \in OpDims : \E oi \in OpShapes(d) : \E q \in 0..NInit :
    LET r == IF q = 0 THEN EyeOp(oi[2]) ELSE GenOp(oi[1], oi[2], Hash(Salt * 7 + q, 5 + d))
        v == OpDense(r)
    IN /\ rep = r /\ val = v /\ exact = TRUE /\ hist = <<OpInitRec(r, v)>>
Init == InitT \/ InitO

-----------------------------------------------------------------------------
(* actions.  The new value is always computed on the declarative side from `val`, the new
   representation on the code-shaped side from `rep`. *)
IsT == rep.k \in Kinds
IsO == rep.k = "op"
Steps == Len(hist) - 1

StepT(name, args, nrep, nval, nexact) ==
  /\ Steps < MaxLen
  /\ Bounded(nval) /\ RepBounded(nrep)
  /\ val' = nval /\ rep' = nrep /\ exact' = nexact
  /\ hist' = Append(hist, [a |-> name, args |-> args, kind |-> nrep.k, sh |-> nval.sh, e |-> nval.e,
                           n2 |-> NormSq(nval), exact |-> nexact])
  /\ (Mode = "bfs" => Emit("H", hist'))
StepO(name, args, nrep, nval) ==
  /\ Steps < MaxLen
  /\ OBounded(nval) /\ RepBounded(nrep)
  /\ val' = nval /\ rep' = nrep /\ exact' = exact
  /\ hist' = Append(hist, [a |-> name, args |-> args, kind |-> "op", sh |-> nval.sh, e |-> nval.e,
                           n2 |-> 0, exact |-> exact, out |-> nval.out, inn |-> nval.inn])
  /\ (Mode = "bfs" => Emit("H", hist'))

Operand(kd, sd, act) == GenRep(kd, val.sh, StepSeed(sd, act))
\* operand formats offered: all of them when enumerating, one pseudo-random per seed when simulating
KindSeq == <<"can", "tuck", "sum", "prod", "full">>
KindsFor(sd, act, n) == IF Alpha = "seed" THEN {KindSeq[(Hash(StepSeed(sd, act), 77) % n) + 1]} ELSE {KindSeq[i] : i \in 1..n}

Add == /\ IsT
       /\ \E sd \in Seeds : \E kd \in KindsFor(sd, 1, 5) :
            LET b == Operand(kd, sd, 1) IN
            /\ Addable(rep, b)
            /\ StepT("Add", [b |-> b], AddR(rep, b), DAdd(val, Dense(b)), exact)
Sub == /\ IsT
       /\ \E sd \in Seeds : \E kd \in KindsFor(sd, 2, 5) :
            LET b == Operand(kd, sd, 2) IN
            /\ Addable(rep, b)
            /\ StepT("Sub", [b |-> b], SubR(rep, b), DSub(val, Dense(b)), exact)
Neg == /\ IsT /\ rep.k # "full"
       /\ StepT("Neg", [x |-> 0], NegR(rep), DNeg(val), exact)

GetItem ==
  /\ IsT /\ rep.k # "full"
  /\ \E ix \in IxChoices(val.sh) :
       /\ IxValid(ix, val.sh)
       /\ HasFull(rep) => NumpyAgrees(PadIx(ix, Len(val.sh)))
       /\ IF IxEmpty(ix, val.sh)
          THEN StepT("GetItem", [ix |-> ix], [k |-> "empty", of |-> rep.k], DGetItem(val, ix), exact)
          ELSE StepT("GetItem", [ix |-> ix], GetItemR(rep, ix), DGetItem(val, ix), exact)

Squeeze ==
  /\ IsT /\ rep.k \in {"can", "tuck"}
  /\ \E a \in SqChoices(val.sh) :
       LET ax == SqAxes(a, val.sh)
           S  == {NormAx(ax[i], Len(val.sh)) + 1 : i \in 1..Len(ax)}
       IN StepT("Squeeze", a, IF rep.k = "can" THEN SqueezeCan(rep, ax) ELSE SqueezeTuck(rep, ax),
                   DSqueeze(val, S), exact)

NwayProd ==
  /\ IsT
  /\ \E sd \in Seeds :
       LET Bs == GenBs(val.sh, StepSeed(sd, 5)) IN
       StepT("NwayProd", [Bs |-> Bs], NwayR(rep, Bs), DNway(val, Bs), exact)
Pad ==
  /\ IsT
  /\ \E sd \in Seeds :
       LET pw == GenPw(val.sh, StepSeed(sd, 6)) IN
       StepT("Pad", [pw |-> pw], PadR(rep, pw), DPad(val, pw), exact)
Ravel ==
  /\ IsT /\ rep.k # "full"
  /\ StepT("Ravel", [x |-> 0], Full(DRavel(Dense(rep))), DRavel(val), exact)
JoinBases ==
  /\ IsT /\ rep.k = "tuck"
  /\ \E sd \in Seeds :
       LET b == GenTuck(val.sh, StepSeed(sd, 7)) IN
       StepT("JoinBases", [b |-> b, X2 |-> JoinX2(rep, b), second |-> Dense(b)],
             Tuck(JoinU(rep, b), JoinX1(rep, b)), val, exact)
ToCanonical == /\ IsT /\ rep.k = "tuck"
               /\ StepT("ToCanonical", [x |-> 0], ToCanR(rep), val, exact)
ToTucker    == /\ IsT
               /\ StepT("ToTucker", [x |-> 0], ToTuckR(rep), val, exact)
Orthogonalize == /\ IsT /\ rep.k = "tuck"
                 /\ StepT("Orthogonalize", [x |-> 0], rep, val, FALSE)
WrapSum == /\ IsT /\ rep.k # "sum"
           /\ StepT("WrapSum", [x |-> 0], SumR(<<rep>>), val, exact)
Outer ==
  /\ IsT /\ Len(val.sh) < MaxOrd
  /\ \E sd \in Seeds : \E kd \in (KindsFor(sd, 8, 5) \cap {"can", "tuck", "full"}) :
     \E left \in (IF Alpha = "seed" THEN {Hash(StepSeed(sd, 8), 78) % 2 = 0} ELSE BOOLEAN) :
       LET s  == StepSeed(sd, 8)
           b  == GenRep(kd, <<1 + (Hash(s, 6) % 3)>>, s)
       IN IF left THEN StepT("Outer", [b |-> b, left |-> TRUE], ProdR(<<b, rep>>), DOuter(Dense(b), val), exact)
          ELSE StepT("Outer", [b |-> b, left |-> FALSE], ProdR(<<rep, b>>), DOuter(val, Dense(b)), exact)
ApplyOp ==
  /\ IsT /\ Len(val.sh) <= 3
  /\ \E sd \in Seeds :
       LET s   == StepSeed(sd, 9)
           out == [j \in 1..Len(val.sh) |-> IF Hash(s, 7 + j) % 2 = 0 THEN val.sh[j] ELSE 1 + (Hash(s, 17 + j) % 3)]
           op  == GenOp(out, val.sh, s)
       IN StepT("ApplyOp", [op |-> op], ApplyR(op, rep), MApply(OpDense(op), val), exact)

\* ---- operator mode
OOperand(out, inn, sd, act) == GenOp(out, inn, StepSeed(sd, act))
OpAdd == /\ IsO /\ \E sd \in Seeds : LET b == OOperand(val.out, val.inn, sd, 11) IN
                     StepO("OpAdd", [b |-> b], OpAddR(rep, b), MAdd(val, OpDense(b)))
OpSub == /\ IsO /\ \E sd \in Seeds : LET b == OOperand(val.out, val.inn, sd, 12) IN
                     StepO("OpSub", [b |-> b], OpAddR(rep, OpNegR(b)), MSub(val, OpDense(b)))
OpNeg == /\ IsO /\ StepO("OpNeg", [x |-> 0], OpNegR(rep), MNeg(val))
Compose ==
  /\ IsO
  /\ \E sd \in Seeds :
       LET s   == StepSeed(sd, 13)
           inn == [j \in 1..Len(val.inn) |-> IF Hash(s, 7 + j) % 2 = 0 THEN val.inn[j] ELSE 1 + (Hash(s, 17 + j) % 3)]
           b   == GenOp(val.inn, inn, s)
       IN StepO("Compose", [b |-> b], OpMulR(rep, b), MMul(val, OpDense(b)))
Transpose == /\ IsO /\ StepO("Transpose", [x |-> 0], OpTrR(rep), MTr(val))
KronExtend ==
  /\ IsO /\ Len(val.out) <= 2
  /\ \E sd \in Seeds :
       LET s == StepSeed(sd, 14)
           b == GenOp(<<1 + (Hash(s, 6) % 2)>>, <<1 + (Hash(s, 8) % 2)>>, s)
       IN StepO("KronExtend", [b |-> b], OpKronR(rep, b), MKron(val, OpDense(b)))
OpSlice ==
  /\ IsO /\ val.out = val.inn
  /\ \E sd \in Seeds :
       LET s   == StepSeed(sd, 15)
           lim == [j \in 1..Len(val.out) |->
                     LET n == val.out[j]  l0 == Hash(s, 7 + j) % n  IN <<l0, l0 + 1 + (Hash(s, 17 + j) % (n - l0))>>]
       IN StepO("OpSlice", [lim |-> lim], OpSliceR(rep, lim), MSlice(val, lim))
OpApply ==    \* leaves operator mode: the result is a tensor in the format of the argument
  /\ IsO /\ Steps < MaxLen
  /\ \E sd \in Seeds : \E kd \in KindsFor(sd, 16, 5) :
       LET x  == GenRep(kd, val.inn, StepSeed(sd, 16))
           nv == MApply(val, Dense(x))
           nr == ApplyR(rep, x)
       IN /\ Bounded(nv) /\ RepBounded(nr)
          /\ val' = nv /\ rep' = nr /\ exact' = exact
          /\ hist' = Append(hist, [a |-> "OpApply", args |-> [x |-> x], kind |-> nr.k, sh |-> nv.sh, e |-> nv.e,
                                   n2 |-> NormSq(nv), exact |-> exact])
          /\ (Mode = "bfs" => Emit("H", hist'))

\* "sim" mode: the history is emitted once, by the last transition of the behaviour (TLC evaluates the
\* invariants on every candidate successor, an action only from the state it actually reached)
IsDone == hist[Len(hist)].a = "Done"
Done == /\ Mode = "sim" /\ ~IsDone
        /\ Steps = MaxLen \/ rep.k \in {"scal", "empty"}
        /\ Emit("H", hist)
        /\ hist' = Append(hist, [a |-> "Done"])
        /\ UNCHANGED <<val, rep, exact>>
Work == \/ Add \/ Sub \/ Neg \/ GetItem \/ Squeeze \/ NwayProd \/ Pad \/ Ravel \/ JoinBases
        \/ ToCanonical \/ ToTucker \/ Orthogonalize \/ WrapSum \/ Outer \/ ApplyOp
        \/ OpAdd \/ OpSub \/ OpNeg \/ Compose \/ Transpose \/ KronExtend \/ OpSlice \/ OpApply
Next == Done \/ (Steps < MaxLen /\ ~IsDone /\ Work)
Spec == Init /\ [][Next]_vars

-----------------------------------------------------------------------------
(* invariants *)
RepOK ==      \* expansion of the representation = the value: every operation commutes with expansion
  CASE rep.k = "empty" -> TRUE
    [] rep.k = "op"    -> OpDense(rep) = val
    [] rep.k = "scal"  -> val = Scalar(rep.v)
    [] OTHER           -> Dense(rep) = val
ShapeOK ==
  /\ Len(val.e) = SProd(val.sh)
  /\ rep.k \in Kinds => ShapeOf(rep) = val.sh
  /\ rep.k = "empty" => SProd(val.sh) = 0
\* CanonicalTensor.norm: sqrt(sum_{r,s} prod_j <x_r^j, x_s^j>) is the Frobenius norm of the expansion
CanNormOK ==
  rep.k = "can" =>
    SSum([q \in 1..(rep.R * rep.R) |->
            LET r == ((q - 1) \div rep.R) + 1  s == ((q - 1) % rep.R) + 1 IN
            SProd([j \in 1..Len(rep.Xs) |-> SSum([i \in 1..Len(rep.Xs[j]) |-> rep.Xs[j][i][r] * rep.Xs[j][i][s]])])])
      = NormSq(val)
=============================================================================
