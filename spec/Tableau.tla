------------------------------ MODULE Tableau ------------------------------
(* C12 -- "each shipped tableau satisfies the algebraic order conditions for the order it is
   documented to have, for main and embedded weights".

   Direction M2 (code -> spec): the harness calls the real pyiga.solvers.coeffs_*() (and reads the
   literal Crank-Nicolson table through the public stepper), converts every coefficient with
   repr(float) to a DecLimb number and writes them to the JSON file named by the environment variable
   TABLEAU_FILE.  TLC evaluates the order-condition residuals EXACTLY on these decimal numbers (no
   floating point anywhere) and decides  |residual| < 10^-8  per condition; one record per condition is
   emitted (tag "COND").  The orders claimed for each method are part of the input (they come from the
   source comments / the cited papers, see the driver).

   Conditions (rooted trees up to order 4).  For a DIRK scheme alpha = beta = A, for a Rosenbrock
   scheme beta = alpha + Gamma (Hairer/Wanner IV.7); alpha_i, beta_i are the row sums:
       order 1   sum b_i                                   = 1
       order 2   sum b_i beta_i                            = 1/2
       order 3   sum b_i alpha_i^2                         = 1/3      sum b_i beta_ij beta_j           = 1/6
       order 4   sum b_i alpha_i^3                         = 1/4      sum b_i alpha_i alpha_ij beta_j  = 1/8
                 sum b_i beta_ij alpha_j^2                 = 1/12     sum b_i beta_ij beta_jk beta_k   = 1/24
   Structural conditions the step functions rely on: A (alpha) lower triangular (strictly for
   Rosenbrock), Gamma lower triangular with constant diagonal (rosenbrock_step reads Gamma[0,0] only). *)
EXTENDS Integers, Sequences, SequencesExt, FiniteSetsExt, TLC, Json, IOUtils, DecLimb, Emit

Input   == JsonDeserialize(IOEnv.TABLEAU_FILE)
Methods == Input.methods
NM      == Len(Methods)

VARIABLE i        \* index of the method being examined (NM + 1 = finished)

Tol == DTol(2)    \* 1e-8

\* TLC evaluates [k \in S |-> e] lazily and re-evaluates e on every application; concatenation with
\* the empty sequence turns the value into an explicit tuple so that every entry is computed once
Force(x)  == x \o <<>>
RowSum(M) == Force([r \in 1..Len(M) |-> DSum(M[r])])
Had(u, v) == Force([k \in 1..Len(u) |-> DMul(u[k], v[k])])
MV(M, v)  == Force(DMatVec(M, v))
MatAdd(A, B) == Force([r \in 1..Len(A) |-> Force([c \in 1..Len(A[r]) |-> DAdd(A[r][c], B[r][c])])])

\* residuals of all conditions of exactly order p, as a sequence of <<name, residual>>
CondsOfOrder(kind, al, be, b, p) ==
  LET a   == RowSum(al)
      bt  == RowSum(be)
      nm(d, r) == IF kind = "dirk" THEN d ELSE r
  IN CASE p = 1 -> << <<"sum_b", DSub(DSum(b), DInt(1))>> >>
       [] p = 2 -> << <<nm("b_c", "b_beta"), DSub(DDot(b, bt), DRecip(2))>> >>
       [] p = 3 -> << <<nm("b_c2", "b_alpha2"), DSub(DDot(b, Had(a, a)), DRecip(3))>>,
                      <<nm("b_A_c", "b_beta_beta"), DSub(DDot(b, MV(be, bt)), DRecip(6))>> >>
       [] p = 4 -> << <<nm("b_c3", "b_alpha3"), DSub(DDot(b, Had(a, Had(a, a))), DRecip(4))>>,
                      <<nm("b_c_A_c", "b_alpha_alpha_beta"), DSub(DDot(b, Had(a, MV(al, bt))), DRecip(8))>>,
                      <<nm("b_A_c2", "b_beta_alpha2"), DSub(DDot(b, MV(be, Had(a, a))), DRecip(12))>>,
                      <<nm("b_A_A_c", "b_beta_beta_beta"), DSub(DDot(b, MV(be, MV(be, bt))), DRecip(24))>> >>

AllConds(kind, al, be, b, order) ==
  FoldLeft(LAMBDA acc, p : LET cs == CondsOfOrder(kind, al, be, b, p)
                           IN acc \o [k \in 1..Len(cs) |-> <<cs[k][1], p, cs[k][2]>>],
           <<>>, [p \in 1..order |-> p])

IsZeroD(x) == MagIsZero(x.d)

StructOK(m) ==
  LET s == m.s IN
  IF m.kind = "dirk"
  THEN \A r \in 1..s : \A c \in (r + 1)..s : IsZeroD(m.A[r][c])
  ELSE /\ \A r \in 1..s : \A c \in r..s : IsZeroD(m.A[r][c])
       /\ \A r \in 1..s : \A c \in (r + 1)..s : IsZeroD(m.G[r][c])
       /\ \A r \in 1..s : m.G[r][r] = m.G[1][1]

WellFormed(m) ==
  /\ m.kind \in {"dirk", "ros"}
  /\ Len(m.A) = m.s /\ \A r \in 1..m.s : Len(m.A[r]) = m.s /\ \A c \in 1..m.s : IsDec(m.A[r][c])
  /\ Len(m.b) = m.s /\ \A c \in 1..m.s : IsDec(m.b[c])
  /\ Len(m.bhat) \in {0, m.s} /\ \A c \in 1..Len(m.bhat) : IsDec(m.bhat[c])
  /\ m.kind = "ros" => Len(m.G) = m.s /\ \A r \in 1..m.s : Len(m.G[r]) = m.s /\ \A c \in 1..m.s : IsDec(m.G[r][c])

Examine(m) ==
  LET al == m.A
      be == IF m.kind = "dirk" THEN m.A ELSE MatAdd(m.A, m.G)
      main == AllConds(m.kind, al, be, m.b, m.order)
      emb  == IF Len(m.bhat) = 0 THEN <<>> ELSE AllConds(m.kind, al, be, m.bhat, m.eorder)
      rec(w, c) == [tableau |-> m.name, weights |-> w, condition |-> c[1], order |-> c[2],
                    ok |-> DLt(DAbs(c[3]), Tol), sign |-> c[3].s, limbs |-> c[3].d]
  IN /\ Emit("STRUCT", [tableau |-> m.name, ok |-> StructOK(m)])
     /\ \A k \in 1..Len(main) : Emit("COND", rec("main", main[k]))
     /\ \A k \in 1..Len(emb)  : Emit("COND", rec("embedded", emb[k]))

Init == i = 1
Next == /\ i <= NM
        /\ Assert(WellFormed(Methods[i]), <<"malformed tableau input", i>>)
        /\ Examine(Methods[i])
        /\ i' = i + 1
Spec == Init /\ [][Next]_i

TypeOK == i \in 1..(NM + 1)
=============================================================================
