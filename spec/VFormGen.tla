------------------------------- MODULE VFormGen -------------------------------
(* Generator of well-typed variational-form expressions (C06, C01, C13): a stack machine over the
   documented vform grammar.  A program is a postfix token sequence; the stack holds the TYPES of the
   partial expressions:  "S" scalar, "D" differentiable scalar (built from scalar fields, constants and
   parameters only: its gradient is known symbolically), "V" vector (length Dim), "M" Dim x Dim matrix.
   Push(t) pushes a leaf, Un(t) / Bin(t) apply an operator if the operand types fit, Finish closes a
   program whose stack is a single scalar that contains the test function v.  TLC enumerates all
   programs up to MaxTok tokens (BFS) or samples longer ones (-simulate); every finished program is
   emitted once.  The harness renders the tokens through the public string interface (parse_vf).     *)
EXTENDS Integers, Sequences, FiniteSets, TLC, Emit

CONSTANTS Dim, MaxTok, MaxStack, Rich,    \* Rich = FALSE: core alphabet (exhaustive runs); TRUE: full alphabet
          Poly,                             \* TRUE: polynomial fragment only (C01): no builtin functions, no division,
                                            \* degree bookkeeping <<du, dv, df>> (trial, test, coefficient fields)
          Bnd,                              \* TRUE: boundary integrals (the unit normal "nrm" is available; measure ds)
          NcU, NcV                          \* number of components of the trial / test functions (1 = scalar; 2 = vector-
                                            \* valued: the leaves are then the vector, its components, divergence and
                                            \* Jacobian instead of the scalar function and its derivatives)

VARIABLES stack, prog, hasv, hasu, done, dg,
          pcst      \* per stack entry: is it a POSITIVE CONSTANT (built from c, 2, 3, 0.5 with + and *)?  In the polynomial
                    \* fragment a division is offered only by such a divisor (constant, and certainly not zero)
vars == <<stack, prog, hasv, hasu, done, dg, pcst>>

\* leaves: token |-> type
USc == NcU = 1   VSc == NcV = 1
UTokS == IF USc THEN {"u", "ux"} \cup (IF Rich THEN {"uy", "uxp", "uxx", "uxy"} ELSE {}) ELSE {"u0", "u1", "divu"}
VTokS == IF VSc THEN {"v", "vy"} \cup (IF Rich THEN {"vx", "vyp"} ELSE {}) ELSE {"w0", "w1", "divv"}
UTokV == IF USc THEN {"gu"} \cup (IF Rich THEN {"gup"} ELSE {}) ELSE {"uvec"}
VTokV == IF VSc THEN {"gv"} ELSE {"vvec"}
UTokM == IF USc THEN (IF Rich THEN {"Hu"} ELSE {}) ELSE {"Gu"}
VTokM == IF VSc THEN (IF Rich THEN {"Hv"} ELSE {}) ELSE {"Gv"}
UToks == {"u", "ux", "uy", "uxp", "uxx", "uxy", "gu", "gup", "Hu", "u0", "u1", "divu", "uvec", "Gu"}
VToks == {"v", "vx", "vy", "vyp", "gv", "Hv", "w0", "w1", "divv", "vvec", "Gv"}
LeafS == UTokS \cup VTokS \cup {"c", "two"} \cup
         (IF Rich THEN {"half", "three", "hpar", "hx"} \cup (IF Poly THEN {} ELSE {"gw", "tiny", "near1"}) ELSE {})
         \* "tiny" = 2^-27 and "near1" = 1 + 2^-18: literals that a tolerance-based "is this constant 0 / 1?" would fold away
LeafD == {"f"} \cup (IF Rich THEN {"f2", "cD", "twoD"} ELSE {})
LeafV == UTokV \cup VTokV \cup (IF Rich THEN {"g", "x", "gh"} ELSE {}) \cup (IF Bnd THEN {"nrm"} ELSE {})
LeafM == UTokM \cup VTokM \cup (IF Rich THEN {"A", "J", "Ainv", "Jinv"} \cup (IF Poly THEN {} ELSE {"Gg"}) ELSE {"A"})

UnSS == IF Poly THEN {"neg"} \cup (IF Rich THEN {"sq"} ELSE {})
        ELSE {"neg", "sin"} \cup (IF Rich THEN {"cos", "exp", "log", "sqrt", "abs", "tan", "sq", "cube"} ELSE {})
UnDD == {"negD"} \cup (IF Rich THEN {"sqD"} ELSE {})
UnDS == {"dx0"} \cup (IF Rich THEN {"dx1", "val"} ELSE {"val"})          \* derivative / plain value of a D
UnDV == {"gradD"}
UnVS == IF Rich THEN (IF Poly THEN {} ELSE {"norm"}) \cup {"v0", "v1"} ELSE {"v0"}
UnMS == {"det", "tr"} \cup (IF Rich THEN {"m01"} ELSE {})
UnMM == IF Rich /\ ~Poly THEN {"T", "inv"} ELSE {"T"}
BinSSS == {"+", "*"} \cup (IF Rich THEN {"-", "/"} ELSE {})
BinDDD == {"*D"} \cup (IF Rich THEN {"+D", "-D"} \cup (IF Poly THEN {} ELSE {"/D"}) ELSE {})
BinVVS == {"inner"}
BinVVV == IF Rich THEN {"v+", "v-"} \cup (IF Dim = 3 THEN {"cross"} ELSE {}) ELSE {}
BinSVV == IF Rich THEN {"sv*"} ELSE {}
BinMVV == {"matvec"}
BinMMM == IF Rich THEN {"matmat", "m+"} ELSE {}
BinMMS == IF Rich THEN {"minner"} ELSE {}
BinVVM == IF Rich THEN {"outer"} ELSE {}

\* degree bookkeeping <<du, dv, df>>
LeafDeg(t) == IF t \in UToks THEN <<1, 0, 0>>
              ELSE IF t \in VToks THEN <<0, 1, 0>>
              ELSE IF t \in {"hpar", "f", "f2", "g", "x"} THEN <<0, 0, 1>>
              ELSE <<0, 0, 0>>
DMax(a, b) == [q \in 1..3 |-> IF a[q] > b[q] THEN a[q] ELSE b[q]]
DSum(a, b) == [q \in 1..3 |-> a[q] + b[q]]
DTimes(n, a) == [q \in 1..3 |-> n * a[q]]
UnDeg(t, a) == IF t \in {"sq", "sqD"} THEN DTimes(2, a) ELSE IF t = "cube" THEN DTimes(3, a)
               ELSE IF t = "det" THEN DTimes(Dim, a) ELSE a
BinDeg(t, a, b) == IF t \in {"+", "-", "+D", "-D", "v+", "v-", "m+"} THEN DMax(a, b) ELSE DSum(a, b)
DegOK(a) == ~Poly \/ (a[1] <= 1 /\ a[2] <= 1 /\ a[3] <= 1)
DTop(n) == dg[Len(dg) - n + 1]

Top(n) == stack[Len(stack) - n + 1]
Pop(n) == SubSeq(stack, 1, Len(stack) - n)

Init == stack = <<>> /\ prog = <<>> /\ hasv = FALSE /\ hasu = FALSE /\ done = FALSE /\ dg = <<>> /\ pcst = <<>>
PTop(n) == pcst[Len(pcst) - n + 1]

Push(t, ty) ==
  /\ ~done /\ Len(prog) < MaxTok /\ Len(stack) < MaxStack
  /\ stack' = Append(stack, ty)
  /\ prog' = Append(prog, t)
  /\ hasv' = (hasv \/ t \in VToks)
  /\ hasu' = (hasu \/ t \in UToks)
  /\ dg' = Append(dg, LeafDeg(t))
  /\ pcst' = Append(pcst, t \in {"c", "two", "three", "half"})
  /\ UNCHANGED done

Un(t, from, to) ==
  /\ ~done /\ Len(prog) < MaxTok /\ Len(stack) >= 1 /\ Top(1) = from
  /\ stack' = Append(Pop(1), to)
  /\ prog' = Append(prog, t)
  /\ DegOK(UnDeg(t, DTop(1)))
  /\ dg' = Append(SubSeq(dg, 1, Len(dg) - 1), UnDeg(t, DTop(1)))
  /\ pcst' = Append(SubSeq(pcst, 1, Len(pcst) - 1), t = "sq" /\ PTop(1))
  /\ UNCHANGED <<hasv, hasu, done>>

Bin(t, a, b, to) ==       \* a is the deeper operand
  /\ ~done /\ Len(prog) < MaxTok /\ Len(stack) >= 2 /\ Top(2) = a /\ Top(1) = b
  /\ stack' = Append(Pop(2), to)
  /\ prog' = Append(prog, t)
  /\ DegOK(BinDeg(t, DTop(2), DTop(1)))
  /\ (Poly /\ t = "/") => PTop(1)                    \* polynomial fragment: divide by positive constants only
  /\ dg' = Append(SubSeq(dg, 1, Len(dg) - 2), BinDeg(t, DTop(2), DTop(1)))
  /\ pcst' = Append(SubSeq(pcst, 1, Len(pcst) - 2), t \in {"+", "*", "/"} /\ PTop(2) /\ PTop(1))
  /\ UNCHANGED <<hasv, hasu, done>>

(* non-square matrices: the input field B of shape (Dim+1) x Dim ("Tl" tall), its transpose ("Wd" wide), and the
   products that bring them back to square matrices ("M": Dim x Dim, "Q": (Dim+1) x (Dim+1)) or scalars *)
Rect ==
  /\ Rich
  /\ \/ Push("B", "Tl")
     \/ Un("T", "Tl", "Wd") \/ Un("T", "Wd", "Tl")
     \/ Bin("matmat", "Wd", "Tl", "M") \/ Bin("matmat", "Tl", "Wd", "Q")
     \/ Bin("matmat", "M", "Wd", "Wd") \/ Bin("matmat", "Tl", "M", "Tl")
     \/ Un("tr", "Q", "S") \/ Un("m01", "Q", "S") \/ Un("m01", "Wd", "S") \/ Un("m01", "Tl", "S")
     \/ Bin("minner", "Tl", "Tl", "S") \/ Bin("minner", "Wd", "Wd", "S") \/ Bin("m+", "Tl", "Tl", "Tl")
     \/ Bin("matvec", "Wd", "VQ", "V") \/ Bin("matvec", "Tl", "V", "VQ") \/ Bin("inner", "VQ", "VQ", "S")

Finish ==
  /\ ~done /\ stack = <<"S">> /\ hasv
  /\ done' = TRUE
  /\ Emit("FORM", [tokens |-> prog, dim |-> Dim, bilinear |-> hasu, deg |-> dg[1]])
  /\ UNCHANGED <<stack, prog, hasv, hasu, dg, pcst>>

Next ==
  \/ \E t \in LeafS : Push(t, "S")
  \/ \E t \in LeafD : Push(t, "D")
  \/ \E t \in LeafV : Push(t, "V")
  \/ \E t \in LeafM : Push(t, "M")
  \/ \E t \in UnSS : Un(t, "S", "S")
  \/ \E t \in UnDD : Un(t, "D", "D")
  \/ \E t \in UnDS : Un(t, "D", "S")
  \/ \E t \in UnDV : Un(t, "D", "V")
  \/ \E t \in UnVS : Un(t, "V", "S")
  \/ \E t \in UnMS : Un(t, "M", "S")
  \/ \E t \in UnMM : Un(t, "M", "M")
  \/ \E t \in BinSSS : Bin(t, "S", "S", "S")
  \/ \E t \in BinDDD : Bin(t, "D", "D", "D")
  \/ \E t \in BinVVS : Bin(t, "V", "V", "S")
  \/ \E t \in BinVVV : Bin(t, "V", "V", "V")
  \/ \E t \in BinSVV : Bin(t, "S", "V", "V")
  \/ \E t \in BinMVV : Bin(t, "M", "V", "V")
  \/ \E t \in BinMMM : Bin(t, "M", "M", "M")
  \/ \E t \in BinMMS : Bin(t, "M", "M", "S")
  \/ \E t \in BinVVM : Bin(t, "V", "V", "M")
  \/ Rect
  \/ Finish

Spec == Init /\ [][Next]_vars

\* every reachable stack is well-typed and bounded; a finished program is a single scalar containing v
TypeOK == /\ \A i \in 1..Len(stack) : stack[i] \in {"S", "D", "V", "M", "Tl", "Wd", "Q", "VQ"}
          /\ Len(stack) <= MaxStack /\ Len(prog) <= MaxTok
          /\ done => (stack = <<"S">> /\ hasv)
          /\ Len(dg) = Len(stack) /\ Len(pcst) = Len(stack)
          /\ Poly => \A i \in 1..Len(dg) : DegOK(dg[i])
=============================================================================
