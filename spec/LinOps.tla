------------------------------- MODULE LinOps -------------------------------
(* C16 -- linear-operator building blocks (pyiga/operators.py, kronecker.py, tensor.apply_tprod /
   modek_tprod, solvers.fastdiag_solver, utils.CSRRowSlice / CSRRowSubset).

   Everything is exact integer arithmetic.  A matrix is a sequence of rows; dimensions are carried
   explicitly.  One case = one initial state (variable c = case descriptor, a tuple of small
   integers / strings); all matrix entries are derived from a hash of the descriptor and Seed.

   Declarative side: explicit Kronecker product (blockwise), block matrix assembled entry by entry,
   diagonal / identity / zero matrices, Sum_j P_j B_j P_j^T, transposes, row slices; solver cases
   are built backwards (b := A x for a chosen integer x, A nonsingular by construction).
   Code-shaped side (checked against the declarative one on every case):
     SweepKron      the column-major sweeps of kronecker._apply_kronecker_linops
     TprodSweep     the mode-by-mode contractions (+ axis rotation) of tensor.apply_tprod
     BlockApply     the accumulation loop of BaseBlockOperator over (ran_out, ran_in)
     SubspaceApply  the accumulation loop of SubspaceOperator._matvec                         *)
EXTENDS Integers, Sequences, FiniteSets, SequencesExt, FiniteSetsExt, Functions, TLC, Emit

CONSTANTS Suite,        \* which families (see Cases)
          Part, NParts, \* a case d is explored iff Hash(d) % NParts = Part
          Keep,         \* sampling of the large families: one case in Keep (1 = all)
          BugSweep,     \* negative control: the sweeps of _apply_kronecker_linops in forward order
          Seed, DoEmit

VARIABLE c
vars == <<c>>

-----------------------------------------------------------------------------
(* integers, matrices *)
Idx(n) == [a \in 1..n |-> a]
Prod(s) == FoldLeft(LAMBDA a, x : a * x, 1, s)
SumSeq(s) == FoldLeft(LAMBDA a, x : a + x, 0, s)
Ravel(mi, shape) == FoldLeft(LAMBDA acc, a : (acc * shape[a]) + mi[a], 0, Idx(Len(shape)))
Unravel(i, shape) ==
  [a \in 1..Len(shape) |-> (i \div Prod(SubSeq(shape, a + 1, Len(shape)))) % shape[a]]

\* deterministic small integers in -3..3 from up to four small non-negative integers
Mix(s, a, b, d) == ((((((s % 1009) * 31) + a) * 17 + b) * 13 + d) * 7) % 1013
Val(s, a, b, d) == (Mix(s, a, b, d) % 7) - 3
ValNZ(s, a, b, d) == LET v == Val(s, a, b, d) IN IF v = 0 THEN 2 ELSE v

Zero(m, n) == [i \in 1..m |-> [j \in 1..n |-> 0]]
Ident(n) == [i \in 1..n |-> [j \in 1..n |-> IF i = j THEN 1 ELSE 0]]
Tr(A, m, n) == [j \in 1..n |-> [i \in 1..m |-> A[i][j]]]
MatMul(A, B, m, k, n) ==
  [i \in 1..m |-> [j \in 1..n |-> FoldLeft(LAMBDA a, t : a + (A[i][t] * B[t][j]), 0, Idx(k))]]
MatAdd(A, B, m, n) == [i \in 1..m |-> [j \in 1..n |-> A[i][j] + B[i][j]]]
\* (A (x) B)[(i1-1)*mb + i2, (j1-1)*nb + j2] = A[i1,j1] * B[i2,j2]
Kron2(A, ma, na, B, mb, nb) ==
  [I \in 1..(ma * mb) |-> [J \in 1..(na * nb) |->
     A[((I - 1) \div mb) + 1][((J - 1) \div nb) + 1] * B[((I - 1) % mb) + 1][((J - 1) % nb) + 1]]]
\* Kronecker product of a sequence of matrices with shapes sh[k] = <<m_k, n_k>>
KronAll(As, sh) ==
  FoldLeft(LAMBDA acc, k : [mat |-> Kron2(acc.mat, acc.m, acc.n, As[k], sh[k][1], sh[k][2]),
                            m |-> acc.m * sh[k][1], n |-> acc.n * sh[k][2]],
           [mat |-> <<<<1>>>>, m |-> 1, n |-> 1], Idx(Len(As)))
RandMat(s, m, n) == [i \in 1..m |-> [j \in 1..n |-> Val(s, i, j, m + (3 * n))]]
\* argument with cc columns (1 for a vector / an (n,1) array, 2 for a two-column matrix)
ArgMat(s, n, cc) == [i \in 1..n |-> [j \in 1..cc |-> Val(s + 5, i, j, 11)]]
NCols(arg) == IF arg = "mat" THEN 2 ELSE 1
Kinds == <<"dense", "sparse", "linop">>
Args == {"vec", "col", "mat"}

-----------------------------------------------------------------------------
(* code-shaped: kronecker._apply_kronecker_linops (square operators).  Arrays are flat sequences in
   Fortran (column-major) order, 0-based positions p stored at p+1. *)
SweepKron(As, sh, X, n) ==
  LET sz == Prod([k \in 1..Len(As) |-> sh[k][1]])
      q00 == [p \in 1..(sz * n) |-> X[((p - 1) % sz) + 1][((p - 1) \div sz) + 1]]     \* q0[:] = x
      sweep(q0, ii) ==
        LET i == IF BugSweep THEN ii ELSE Len(As) + 1 - ii      \* for i in reversed(range(len(ops)))
            szi == sh[i][2]
            ri == sz \div szi
        IN \* q0 viewed as (sz_i, n*r_i); q1 of shape (r_i, n*sz_i); q1[a, k*sz_i + b] = (op q0[:, k*r_i + a])[b]
           [p \in 1..(sz * n) |->
              LET col == (p - 1) \div ri   a == (p - 1) % ri
                  kc == col \div szi       b == col % szi
              IN FoldLeft(LAMBDA acc, t : acc + (As[i][b + 1][t] * q0[(((kc * ri) + a) * szi) + t]), 0, Idx(szi))]
      qf == FoldLeft(sweep, q00, Idx(Len(As)))
  IN [r \in 1..sz |-> [cc \in 1..n |-> qf[((cc - 1) * sz) + r]]]              \* reshape(orig_shape, order='F')

(* code-shaped: tensor.apply_tprod.  A tensor is [shape, dat] with dat the C-order ravel. The tensor has
   nn = Len(ops) leading axes and possibly one trailing axis.  For i = nn..1: contract axis nn (1-based)
   of the current tensor with ops[i] (None = identity: rollaxis), the new axis comes first. *)
Contract(T, B, mb, axis) ==
  LET s == T.shape  d == Len(s)
      rest == [a \in 1..(d - 1) |-> IF a < axis THEN s[a] ELSE s[a + 1]]
      ns == <<mb>> \o rest
  IN [shape |-> ns,
      dat |-> [p \in 1..Prod(ns) |->
                 LET mi == Unravel(p - 1, ns) IN
                 FoldLeft(LAMBDA acc, t :
                     acc + (B[mi[1] + 1][t] *
                            T.dat[Ravel([a \in 1..d |-> IF a < axis THEN mi[a + 1]
                                                         ELSE IF a = axis THEN t - 1 ELSE mi[a]], s) + 1]),
                   0, Idx(s[axis]))]]
TprodSweep(As, sh, T0) ==
  FoldLeft(LAMBDA T, ii : LET i == Len(As) + 1 - ii IN Contract(T, As[i], sh[i][1], Len(As)), T0, Idx(Len(As)))

-----------------------------------------------------------------------------
(* families of cases.  Descriptors are tuples whose first component names the family. *)
Sz13 == (1..3) \X (1..3)
Sz12 == (1..2) \X (1..2)
SeqsOver(S, lo, hi) == UNION {[1..n -> S] : n \in lo..hi}
K3 == 0..2                               \* operand kinds, index into Kinds (0-based)

\* a hash of a descriptor: flatten it into a sequence of integers first
StrI(x) == CASE x = "vec" -> 0 [] x = "col" -> 1 [] x = "mat" -> 2 [] x = "gen" -> 3 [] x = "sym" -> 4
             [] x = "spd" -> 5 [] x = "none" -> 6 [] x = "symmetric" -> 7 [] x = "dense" -> 8 [] x = "csr" -> 9
             [] x = "csc" -> 10 [] OTHER -> 11
FlatPairs(sh) == [k \in 1..(2 * Len(sh)) |-> sh[(k + 1) \div 2][((k - 1) % 2) + 1]]
Key(d) ==
  CASE d[1] = "kron"     -> <<1>> \o FlatPairs(d[2]) \o <<d[3], StrI(d[4])>>
    [] d[1] = "tprod"    -> <<2>> \o FlatPairs(d[2]) \o <<d[3], StrI(d[4]), d[5]>>
    [] d[1] = "block"    -> <<3>> \o d[2] \o <<9>> \o d[3] \o <<d[4], d[5], StrI(d[6])>>
    [] d[1] = "bdiag"    -> <<4>> \o FlatPairs(d[2]) \o <<d[3], StrI(d[4])>>
    [] d[1] = "diag"     -> <<5, d[2], StrI(d[3])>>
    [] d[1] = "ident"    -> <<6, d[2], StrI(d[3])>>
    [] d[1] = "null"     -> <<7, d[2][1], d[2][2], StrI(d[3])>>
    [] d[1] = "subspace" -> <<8, d[2]>> \o d[3] \o <<d[4], StrI(d[5])>>
    [] d[1] = "solve"    -> <<9, d[2], StrI(d[3]), StrI(d[4]), StrI(d[5]), d[6], StrI(d[7])>>
    [] d[1] = "ksolve"   -> <<10>> \o d[2] \o <<d[3], d[4], StrI(d[5])>>
    [] d[1] = "fastdiag" -> <<11>> \o d[2] \o <<StrI(d[3]), d[4], StrI(d[5])>>
    [] d[1] = "csr"      -> <<12, d[2][1], d[2][2], d[3]>>
HashD(d) == FoldLeft(LAMBDA a, v : ((a * 37) + v + 3) % 1009, 5, Key(d))

KronCases ==
  {<<"kron", sh, kd, arg>> : sh \in SeqsOver(Sz13, 1, 1), kd \in K3, arg \in Args}
  \cup {d \in {<<"kron", sh, kd, arg>> : sh \in SeqsOver(Sz13, 2, 2), kd \in 0..8, arg \in Args} :
          (HashD(d) % Keep) = 0}
  \cup {d \in {<<"kron", sh, kd, arg>> : sh \in SeqsOver(Sz13, 3, 3), kd \in 0..8, arg \in Args} :
          (HashD(d) % (9 * Keep)) = 0}
  \cup {d \in {<<"kron", sh, kd, arg>> : sh \in SeqsOver(Sz12, 4, 4), kd \in 0..8, arg \in Args} :
          (HashD(d) % (3 * Keep)) = 0}
\* kinds of the operands of a kron/tprod case: digit k of kd in base 3 (+ rotation), so that all
\* combinations of kinds occur for <= 2 factors and a spread of them beyond
KindOf(d, k) == ((d[3] \div (IF k % 2 = 1 THEN 1 ELSE 3)) + (k \div 3)) % 3
\* tensor-product application with identity placeholders: mask of the None positions (not all)
TprodCases ==
  {d \in {<<"tprod", sh, kd, arg, none>> : sh \in SeqsOver(Sz13, 1, 3), kd \in K3, arg \in {"vec", "mat"},
                                           none \in 1..6} :
      /\ d[5] <= (2 ^ Len(d[2])) - 2
      /\ (Len(d[2]) < 3 \/ (HashD(d) % (4 * Keep)) = 0)}
IsNone(d, k) == d[1] = "tprod" /\ ((d[5] \div (2 ^ (k - 1))) % 2) = 1

BlockCases ==
  {d \in {<<"block", hs, ws, nm, kd, arg>> : hs \in SeqsOver(1..2, 1, 2), ws \in SeqsOver(1..2, 1, 3),
                                             nm \in 0..63, kd \in K3, arg \in Args} :
      /\ d[4] < 2 ^ (Len(d[2]) * Len(d[3]))
      /\ (Len(d[2]) * Len(d[3]) <= 2 \/ (HashD(d) % (6 * Keep)) = 0)}
BdiagCases ==
  {d \in {<<"bdiag", sh, kd, arg>> : sh \in SeqsOver(Sz13, 1, 3), kd \in K3, arg \in Args} :
      Len(d[2]) = 1 \/ (Len(d[2]) = 2 /\ (HashD(d) % (2 * Keep)) = 0) \/ (HashD(d) % (12 * Keep)) = 0}
SimpleCases ==
  {<<"diag", n, arg>> : n \in 1..4, arg \in Args} \cup {<<"ident", n, arg>> : n \in 1..3, arg \in Args}
  \cup {<<"null", sh, arg>> : sh \in Sz13, arg \in Args}
SubspaceCases ==
  {<<"subspace", n, ns, kd, arg>> : n \in 1..4, ns \in SeqsOver(1..2, 1, 3), kd \in K3, arg \in Args}
\* solver factories: type of matrix x flags passed x storage
SolveCases ==
  {d \in {<<"solve", n, ty, fl, fmt, v, arg>> : n \in 1..4, ty \in {"gen", "sym", "spd"},
             fl \in {"none", "symmetric", "spd"}, fmt \in {"dense", "csr", "csc"}, v \in 0..2, arg \in Args} :
      /\ (d[3] = "gen" => d[4] = "none") /\ (d[3] = "sym" => d[4] # "spd")
      /\ (d[2] >= 2 \/ d[6] = 0)
      /\ (d[3] = "sym" => d[2] >= 2)}
KsolveCases ==
  {d \in {<<"ksolve", ns, kd, v, arg>> : ns \in SeqsOver(1..3, 1, 3), kd \in K3, v \in 0..1, arg \in Args} :
      Len(d[2]) <= 2 \/ (HashD(d) % (3 * Keep)) = 0}
FastdiagCases ==
  {d \in {<<"fastdiag", ns, fmt, v, arg>> : ns \in SeqsOver(1..3, 1, 3), fmt \in {"dense", "csr"}, v \in 0..1,
                                            arg \in Args} :
      Len(d[2]) <= 2 \/ (HashD(d) % (2 * Keep)) = 0}
CsrCases == {<<"csr", sh, v>> : sh \in (1..4) \X (1..3), v \in 0..3}

Cases ==
  CASE Suite = "kron"   -> KronCases \cup TprodCases
    [] Suite = "block"  -> BlockCases \cup BdiagCases \cup SimpleCases \cup SubspaceCases
    [] Suite = "solve"  -> SolveCases \cup KsolveCases \cup FastdiagCases \cup CsrCases
    [] Suite = "neg"    -> {<<"kron", <<<<2, 2>>, <<3, 3>>>>, kd, arg>> : kd \in {4, 8}, arg \in Args}
    [] Suite = "all"    -> KronCases \cup TprodCases \cup BlockCases \cup BdiagCases \cup SimpleCases
                           \cup SubspaceCases \cup SolveCases \cup KsolveCases \cup FastdiagCases \cup CsrCases

Fam == c[1]
H == (HashD(c) + Seed) % 1009

-----------------------------------------------------------------------------
(* kron / tprod *)
KSh == IF Fam = "tprod" THEN [k \in 1..Len(c[2]) |-> IF IsNone(c, k) THEN <<c[2][k][2], c[2][k][2]>> ELSE c[2][k]]
       ELSE c[2]
KMats == [k \in 1..Len(KSh) |-> IF IsNone(c, k) THEN Ident(KSh[k][1]) ELSE RandMat(H + (11 * k), KSh[k][1], KSh[k][2])]
KKinds == [k \in 1..Len(KSh) |-> IF IsNone(c, k) THEN "none" ELSE Kinds[KindOf(c, k) + 1]]
KArg == c[4]
KronOK == (Fam \in {"kron", "tprod"}) =>
  LET sh == KSh  As == KMats  K == KronAll(As, sh)  cc == NCols(KArg)
      X == ArgMat(H, K.n, cc)
      Y == MatMul(K.mat, X, K.m, K.n, cc)
      AsT == [k \in 1..Len(As) |-> Tr(As[k], sh[k][1], sh[k][2])]
      shT == [k \in 1..Len(sh) |-> <<sh[k][2], sh[k][1]>>]
      square == \A k \in 1..Len(sh) : sh[k][1] = sh[k][2]
      \* the vectorised tensor, one trailing axis of size cc
      T0 == [shape |-> [k \in 1..Len(sh) |-> sh[k][2]] \o <<cc>>,
             dat |-> [p \in 1..(K.n * cc) |-> X[((p - 1) \div cc) + 1][((p - 1) % cc) + 1]]]
      TY == TprodSweep(As, sh, T0)
  IN /\ Tr(K.mat, K.m, K.n) = KronAll(AsT, shT).mat                          \* _transpose is right
     /\ square => SweepKron(As, sh, X, cc) = Y                                \* _apply_kronecker_linops
     /\ TY.shape = [k \in 1..Len(sh) |-> sh[k][1]] \o <<cc>>                  \* apply_tprod
     /\ TY.dat = [p \in 1..(K.m * cc) |-> Y[((p - 1) \div cc) + 1][((p - 1) % cc) + 1]]
EmitKron == (DoEmit /\ Fam \in {"kron", "tprod"}) =>
  LET sh == KSh  As == KMats  K == KronAll(As, sh)  cc == NCols(KArg)
      X == ArgMat(H, K.n, cc)  XT == ArgMat(H + 1, K.m, cc)
  IN Emit("KRON", [fam |-> Fam, d |-> c, shapes |-> sh, kinds |-> KKinds, mats |-> As, arg |-> KArg,
                   M |-> K.m, N |-> K.n, X |-> X, Y |-> MatMul(K.mat, X, K.m, K.n, cc),
                   XT |-> XT, YT |-> MatMul(Tr(K.mat, K.m, K.n), XT, K.n, K.m, cc)])

-----------------------------------------------------------------------------
(* block / block-diagonal *)
\* a layout: heights hs, widths ws, blocks[i][j] = [null, kind, mat]
BlockLayout ==
  IF Fam = "block" THEN
    LET hs == c[2]  ws == c[3]  nw == Len(ws) IN
    [hs |-> hs, ws |-> ws,
     blocks |-> [i \in 1..Len(hs) |-> [j \in 1..nw |->
        LET isnull == ((c[4] \div (2 ^ (((i - 1) * nw) + (j - 1)))) % 2) = 1 IN
        [null |-> isnull, kind |-> Kinds[((c[5] + i + (2 * j)) % 3) + 1],
         mat |-> IF isnull THEN Zero(hs[i], ws[j]) ELSE RandMat(H + (7 * i) + (3 * j), hs[i], ws[j])]]]]
  ELSE \* block diagonal: off-diagonal blocks are structural zeros
    LET sh == c[2]  n == Len(sh) IN
    [hs |-> [i \in 1..n |-> sh[i][1]], ws |-> [j \in 1..n |-> sh[j][2]],
     blocks |-> [i \in 1..n |-> [j \in 1..n |->
        [null |-> i # j, kind |-> Kinds[((c[3] + i) % 3) + 1],
         mat |-> IF i # j THEN Zero(sh[i][1], sh[j][2]) ELSE RandMat(H + (7 * i), sh[i][1], sh[i][2])]]]]
Offsets(s) == [k \in 1..(Len(s) + 1) |-> SumSeq(SubSeq(s, 1, k - 1))]
BlockDense(Lay) ==
  LET ro == Offsets(Lay.hs)  co == Offsets(Lay.ws)
      M == ro[Len(Lay.hs) + 1]  N == co[Len(Lay.ws) + 1]
      bi(I) == CHOOSE i \in 1..Len(Lay.hs) : ro[i] < I /\ I <= ro[i + 1]
      bj(J) == CHOOSE j \in 1..Len(Lay.ws) : co[j] < J /\ J <= co[j + 1]
  IN [mat |-> [I \in 1..M |-> [J \in 1..N |-> Lay.blocks[bi(I)][bj(J)].mat[I - ro[bi(I)]][J - co[bj(J)]]]],
      m |-> M, n |-> N]
\* code-shaped: y[ran_out[i]] += ops[i].dot(x[ran_in[i]]) over the non-null blocks
BlockApply(Lay, X, cc) ==
  LET ro == Offsets(Lay.hs)  co == Offsets(Lay.ws)  M == ro[Len(Lay.hs) + 1]
      live == {q \in (1..Len(Lay.hs)) \X (1..Len(Lay.ws)) : ~Lay.blocks[q[1]][q[2]].null}
  IN FoldLeft(LAMBDA y, q :
        LET i == q[1]  j == q[2]  h == Lay.hs[i]  w == Lay.ws[j]
            xs == [t \in 1..w |-> X[co[j] + t]]
            part == MatMul(Lay.blocks[i][j].mat, xs, h, w, cc)
        IN [I \in 1..M |-> IF ro[i] < I /\ I <= ro[i + 1]
                           THEN [k \in 1..cc |-> y[I][k] + part[I - ro[i]][k]] ELSE y[I]],
      Zero(M, cc), SetToSeq(live))
BlockOK == (Fam \in {"block", "bdiag"}) =>
  LET Lay == BlockLayout  D == BlockDense(Lay)  cc == NCols(c[Len(c)])
      X == ArgMat(H, D.n, cc) IN
  BlockApply(Lay, X, cc) = MatMul(D.mat, X, D.m, D.n, cc)
EmitBlock == (DoEmit /\ Fam \in {"block", "bdiag"}) =>
  LET Lay == BlockLayout  D == BlockDense(Lay)  arg == c[Len(c)]  cc == NCols(arg)
      X == ArgMat(H, D.n, cc)  XT == ArgMat(H + 1, D.m, cc)
  IN Emit("BLOCK", [fam |-> Fam, d |-> c, hs |-> Lay.hs, ws |-> Lay.ws, blocks |-> Lay.blocks, arg |-> arg,
                    M |-> D.m, N |-> D.n, X |-> X, Y |-> MatMul(D.mat, X, D.m, D.n, cc),
                    XT |-> XT, YT |-> MatMul(Tr(D.mat, D.m, D.n), XT, D.n, D.m, cc)])

-----------------------------------------------------------------------------
(* diagonal / identity / null *)
SimpleMat ==
  CASE Fam = "diag"  -> [mat |-> [i \in 1..c[2] |-> [j \in 1..c[2] |-> IF i = j THEN ValNZ(H, i, 1, 1) ELSE 0]],
                         m |-> c[2], n |-> c[2]]
    [] Fam = "ident" -> [mat |-> Ident(c[2]), m |-> c[2], n |-> c[2]]
    [] Fam = "null"  -> [mat |-> Zero(c[2][1], c[2][2]), m |-> c[2][1], n |-> c[2][2]]
EmitSimple == (DoEmit /\ Fam \in {"diag", "ident", "null"}) =>
  LET D == SimpleMat  arg == c[3]  cc == NCols(arg)
      X == ArgMat(H, D.n, cc)  XT == ArgMat(H + 1, D.m, cc)
  IN Emit("SIMPLE", [fam |-> Fam, d |-> c, mat |-> D.mat, arg |-> arg, M |-> D.m, N |-> D.n,
                     X |-> X, Y |-> MatMul(D.mat, X, D.m, D.n, cc),
                     XT |-> XT, YT |-> MatMul(Tr(D.mat, D.m, D.n), XT, D.n, D.m, cc)])

-----------------------------------------------------------------------------
(* subspace correction  L = Sum_j P_j B_j P_j^T *)
SubP(j) == [i \in 1..c[2] |-> [t \in 1..c[3][j] |-> (Mix(H + j, i, t, 3) % 3) - 1]]        \* entries -1..1
SubB(j) == RandMat(H + (5 * j), c[3][j], c[3][j])                                            \* not symmetric
SubDense(tr) ==
  LET n == c[2] IN
  FoldLeft(LAMBDA acc, j :
      LET nj == c[3][j]  P == SubP(j)  B == IF tr THEN Tr(SubB(j), nj, nj) ELSE SubB(j) IN
      MatAdd(acc, MatMul(MatMul(P, B, n, nj, nj), Tr(P, n, nj), n, nj, n), n, n),
    Zero(n, n), Idx(Len(c[3])))
\* code-shaped: y += P_j (B_j (P_j^T x)) accumulated over j
SubspaceApply(X, cc) ==
  LET n == c[2] IN
  FoldLeft(LAMBDA y, j :
      LET nj == c[3][j]  P == SubP(j) IN
      MatAdd(y, MatMul(P, MatMul(SubB(j), MatMul(Tr(P, n, nj), X, nj, n, cc), nj, nj, cc), n, nj, cc), n, cc),
    Zero(n, cc), Idx(Len(c[3])))
SubspaceOK == (Fam = "subspace") =>
  LET n == c[2]  cc == NCols(c[5])  X == ArgMat(H, n, cc) IN
  /\ SubspaceApply(X, cc) = MatMul(SubDense(FALSE), X, n, n, cc)
  /\ Tr(SubDense(FALSE), n, n) = SubDense(TRUE)                          \* _transpose: B_j -> B_j^T
EmitSubspace == (DoEmit /\ Fam = "subspace") =>
  LET n == c[2]  arg == c[5]  cc == NCols(arg)  X == ArgMat(H, n, cc)  S == SubDense(FALSE) IN
  Emit("SUBSPACE", [d |-> c, n |-> n, Ps |-> [j \in 1..Len(c[3]) |-> SubP(j)], Bs |-> [j \in 1..Len(c[3]) |-> SubB(j)],
                    ns |-> c[3], pkind |-> [j \in 1..Len(c[3]) |-> Kinds[((c[4] + j) % 2) + 1]],
                    bkind |-> [j \in 1..Len(c[3]) |-> Kinds[((c[4] + (2 * j)) % 3) + 1]],
                    arg |-> arg, X |-> X, Y |-> MatMul(S, X, n, n, cc), YT |-> MatMul(Tr(S, n, n), X, n, n, cc)])

-----------------------------------------------------------------------------
(* solver factories: matrices nonsingular by construction, right-hand side b := A x *)
UnitLower(s, n) == [i \in 1..n |-> [j \in 1..n |-> IF i = j THEN 1 ELSE IF j < i THEN (Mix(s, i, j, 2) % 3) - 1 ELSE 0]]
Upper(s, n) == [i \in 1..n |-> [j \in 1..n |->
                  IF i = j THEN <<1, 2, -1>>[(Mix(s, i, 1, 7) % 3) + 1] ELSE IF j > i THEN (Mix(s, i, j, 5) % 4) - 1 ELSE 0]]
DiagM(n, f(_)) == [i \in 1..n |-> [j \in 1..n |-> IF i = j THEN f(i) ELSE 0]]
SolveMat(ty, s, n) ==
  LET Lo == UnitLower(s, n) IN
  CASE ty = "gen" -> MatMul(Lo, Upper(s, n), n, n, n)
    [] ty = "sym" -> \* L D L^T with a negative entry in D: symmetric, indefinite, nonsingular
         MatMul(MatMul(Lo, DiagM(n, LAMBDA i : IF i = 2 THEN -1 ELSE (Mix(s, i, 3, 1) % 2) + 1), n, n, n), Tr(Lo, n, n), n, n, n)
    [] ty = "spd" ->
         MatMul(MatMul(Lo, DiagM(n, LAMBDA i : (Mix(s, i, 3, 1) % 3) + 1), n, n, n), Tr(Lo, n, n), n, n, n)
SolveOK == (Fam = "solve") =>
  LET n == c[2]  A == SolveMat(c[3], H + c[6], n) IN
  /\ (c[3] # "gen") => Tr(A, n, n) = A
  /\ (c[3] = "sym") => \E i \in 1..n : A[i][i] <= 0 \/ n >= 2       \* (indefiniteness is by construction)
EmitSolve == (DoEmit /\ Fam = "solve") =>
  LET n == c[2]  A == SolveMat(c[3], H + c[6], n)  arg == c[7]  cc == NCols(arg)  x == ArgMat(H, n, cc) IN
  Emit("SOLVE", [d |-> c, n |-> n, type |-> c[3], flags |-> c[4], fmt |-> c[5], A |-> A, arg |-> arg,
                 x |-> x, b |-> MatMul(A, x, n, n, cc)])
KsMats == [k \in 1..Len(c[2]) |-> SolveMat("gen", H + c[4] + (3 * k), c[2][k])]
EmitKsolve == (DoEmit /\ Fam = "ksolve") =>
  LET sh == [k \in 1..Len(c[2]) |-> <<c[2][k], c[2][k]>>]  K == KronAll(KsMats, sh)
      arg == c[5]  cc == NCols(arg)  x == ArgMat(H, K.n, cc) IN
  Emit("KSOLVE", [d |-> c, ns |-> c[2], mats |-> KsMats,
                  fmts |-> [k \in 1..Len(c[2]) |-> <<"dense", "csr", "csc">>[((c[3] + k) % 3) + 1]],
                  arg |-> arg, x |-> x, b |-> MatMul(K.mat, x, K.n, K.n, cc)])
\* fast diagonalisation: A = Sum_d M_1 (x) .. K_d .. (x) M_dim with SPD tridiagonal K_d, M_d
TriDiag(n, dg, off) == [i \in 1..n |-> [j \in 1..n |-> IF i = j THEN dg ELSE IF i - j \in {-1, 1} THEN off ELSE 0]]
FdK(k) == TriDiag(c[2][k], 2 + ((H + k + c[4]) % 2), -1)
FdM(k) == TriDiag(c[2][k], 4 + ((H + (2 * k)) % 2), 1)
FdMat ==
  LET dim == Len(c[2])  sh == [k \in 1..dim |-> <<c[2][k], c[2][k]>>]
      N == Prod(c[2])
      term(dd) == KronAll([k \in 1..dim |-> IF k = dd THEN FdK(k) ELSE FdM(k)], sh).mat
  IN FoldLeft(LAMBDA acc, dd : MatAdd(acc, term(dd), N, N), Zero(N, N), Idx(dim))
EmitFastdiag == (DoEmit /\ Fam = "fastdiag") =>
  LET N == Prod(c[2])  arg == c[5]  cc == NCols(arg)  x == ArgMat(H, N, cc) IN
  Emit("FASTDIAG", [d |-> c, ns |-> c[2], fmt |-> c[3], Ks |-> [k \in 1..Len(c[2]) |-> FdK(k)],
                    Ms |-> [k \in 1..Len(c[2]) |-> FdM(k)], arg |-> arg, x |-> x, b |-> MatMul(FdMat, x, N, N, cc)])
FastdiagOK == (Fam = "fastdiag") => LET N == Prod(c[2]) IN Tr(FdMat, N, N) = FdMat

-----------------------------------------------------------------------------
(* CSR row slices / row subsets *)
CsrMat == LET m == c[2][1]  n == c[2][2] IN
  [i \in 1..m |-> [j \in 1..n |-> IF (Mix(H + c[3], i, j, 9) % 5) < 2 THEN 0 ELSE Val(H + c[3], i, j, 4)]]
RowSel(A, rows) == [t \in 1..Len(rows) |-> A[rows[t] + 1]]
EmitCsr == (DoEmit /\ Fam = "csr") =>
  LET m == c[2][1]  n == c[2][2]  A == CsrMat
      X1 == ArgMat(H, n, 1)  X2 == ArgMat(H, n, 2)
      subsets == {<<>>, [t \in 1..m |-> m - t], <<0>>, <<m - 1, 0>>, <<(H % m), (H % m)>>}
                 \cup {[t \in 1..m |-> t - 1]}
  IN Emit("CSR", [d |-> c, m |-> m, n |-> n, A |-> A, X1 |-> X1, X2 |-> X2,
                  slices |-> SetToSeq({[r0 |-> r[1], r1 |-> r[2],
                                        Y1 |-> MatMul(RowSel(A, [t \in 1..(r[2] - r[1]) |-> r[1] + t - 1]), X1, r[2] - r[1], n, 1),
                                        Y2 |-> MatMul(RowSel(A, [t \in 1..(r[2] - r[1]) |-> r[1] + t - 1]), X2, r[2] - r[1], n, 2)]
                                       : r \in {q \in (0..m) \X (0..m) : q[1] <= q[2]}}),
                  subsets |-> SetToSeq({[rows |-> rs, Y1 |-> MatMul(RowSel(A, rs), X1, Len(rs), n, 1)] : rs \in subsets})])

-----------------------------------------------------------------------------
Init == c \in {d \in Cases : ((HashD(d) \div 9) % NParts) = Part}
Next == FALSE /\ UNCHANGED c
Spec == Init /\ [][Next]_vars
=============================================================================
