------------------------------- MODULE Approx -------------------------------
(* C17 -- interpolation and L2 projection are projections onto the spline space
   (pyiga/approx.py interpolate / project_L2, pyiga/bspline.py interpolate / project_L2).

   Self-contained exact reference, all numbers rationals <<n, d>> of module Rat:
     * B-splines on an open knot vector with integer knots: on every span the Cox-de Boor recursion is
       carried out on polynomial coefficient sequences (local variable t = x - left end of the span), so
       values at rational points and integrals are both exact;
     * Greville abscissae, collocation matrices, mass matrices, moments  int x^k B_i dx;
     * Marsden's identity gives the spline coefficients of a polynomial without solving anything.
   One state = one case.  A case is a tensor-product space (1 to 3 directions), node grids, data and,
   optionally, an affine geometry map.  What the property requires is computed here and emitted:
     - data IN the space given by integer coefficients c: the value array V = (C_1 x .. x C_d) c at the
       nodes; interpolating V must return c;
     - polynomial data of per-direction degree <= p (in the space), in physical coordinates, pulled back
       through the geometry: interpolation and L2 projection must both return the Marsden coefficients;
     - polynomial data of degree p + 1 (outside the space): the exact normal equations  M c = b
       (M = Kronecker product of the emitted 1-D mass matrices, b emitted): the L2 projection must
       satisfy them, i.e. its residual is orthogonal to the space.
   Invariants (evaluated on every case): partition of unity and Schoenberg-Whitney at the nodes,
   Marsden coefficients reproduce the polynomial pointwise, symmetry / row sums of the mass matrix,
   moments sum to the integral of the monomial, and M * (Marsden coefficients) = moments, i.e. the
   normal equations hold exactly for data in the space (idempotence of the L2 projection).        *)
EXTENDS Integers, Sequences, FiniteSets, SequencesExt, TLC, Emit, Rat

CONSTANTS Dims,      \* set of space dimensions to enumerate (subset of 1..3)
          Vars,      \* set of data variants (positive integers) per space tuple
          Salt,
          Big        \* TRUE: larger families of direction tuples (thorough tier)

VARIABLE cs
-----------------------------------------------------------------------------
Ix(n)    == [i \in 1..n |-> i]
ISum(s)  == FoldLeft(LAMBDA a, b : a + b, 0, s)
IProd(s) == FoldLeft(LAMBDA a, b : a * b, 1, s)
Hash(s, i) ==
  LET h1 == ((s % 32749) * 7919 + (i % 32749) * 10007 + 12345) % 32749
      h2 == (h1 * h1 + 7 * h1 + 3) % 32749
  IN  (h2 * 31 + i + 11) % 32749
Val5(s, i) == (Hash(s, i) % 5) - 2

\* ---- polynomials: sequences of rational coefficients, index k+1 <-> t^k
PZero == <<Zero>>
PCoef(a, k) == IF k + 1 <= Len(a) THEN a[k + 1] ELSE Zero
PAdd(a, b) == [k \in 1..(IF Len(a) > Len(b) THEN Len(a) ELSE Len(b)) |-> Add(PCoef(a, k - 1), PCoef(b, k - 1))]
PScale(a, r) == [k \in 1..Len(a) |-> Mul(a[k], r)]
PMul(a, b) == [k \in 1..(Len(a) + Len(b) - 1) |->
                 SumSeq([i \in 1..k |-> IF i <= Len(a) /\ k - i + 1 <= Len(b) THEN Mul(a[i], b[k - i + 1]) ELSE Zero])]
PEval(a, t) == FoldLeft(LAMBDA acc, k : Add(Mul(acc, t), a[Len(a) + 1 - k]), Zero, Ix(Len(a)))   \* Horner
PInt(a, h) == SumSeq([k \in 1..Len(a) |-> Mul(a[k], Q(IProd([j \in 1..k |-> h]), k))])      \* int_0^h
RECURSIVE Binom(_, _)
Binom(n, k) == IF k = 0 \/ k = n THEN 1 ELSE Binom(n - 1, k - 1) + Binom(n - 1, k)
IPow(a, k) == IProd([j \in 1..k |-> a])
PShiftMono(a, k) == [l \in 1..(k + 1) |-> R(Binom(k, l - 1) * IPow(a, k - l + 1))]           \* (a + t)^k

\* ---- B-splines on the open knot vector kv (sequence of integers), degree p
NDofs(kv, p) == Len(kv) - p - 1
Breaks(kv)   == SetToSortSeq({kv[i] : i \in 1..Len(kv)}, <)
RECURSIVE Piece(_, _, _, _)
Piece(kv, i, q, a) ==      \* N_{i,q} restricted to the span starting at the breakpoint a, in t = x - a
  IF q = 0 THEN (IF kv[i] <= a /\ a < kv[i + 1] THEN <<One>> ELSE PZero)
  ELSE LET L == IF kv[i + q] > kv[i]
                THEN PScale(PMul(Piece(kv, i, q - 1, a), <<R(a - kv[i]), One>>), Q(1, kv[i + q] - kv[i]))
                ELSE PZero
           U == IF kv[i + q + 1] > kv[i + 1]
                THEN PScale(PMul(Piece(kv, i + 1, q - 1, a), <<R(kv[i + q + 1] - a), R(-1)>>), Q(1, kv[i + q + 1] - kv[i + 1]))
                ELSE PZero
       IN PAdd(L, U)
Pieces(kv, p) ==           \* [basis function][span]
  LET bp == Breaks(kv) IN
  TLCEval([i \in 1..NDofs(kv, p) |-> [s \in 1..(Len(bp) - 1) |-> Piece(kv, i, p, bp[s])]])
SpanOf(bp, u) ==           \* right-continuous, the right end of the domain belongs to the last span
  IF ~Lt(u, R(bp[Len(bp)])) THEN Len(bp) - 1
  ELSE CHOOSE s \in 1..(Len(bp) - 1) : Le(R(bp[s]), u) /\ Lt(u, R(bp[s + 1]))
BVal(P, bp, i, u) == LET s == SpanOf(bp, u) IN PEval(P[i][s], Sub(u, R(bp[s])))

Greville(kv, p) ==
  IF p = 0 THEN [j \in 1..NDofs(kv, 0) |-> Q(kv[j] + kv[j + 1], 2)]
  ELSE [j \in 1..NDofs(kv, p) |-> Q(ISum([l \in 1..p |-> kv[j + l]]), p)]
Colloc(kv, p, P, nodes) ==
  LET bp == Breaks(kv) IN
  TLCEval([r \in 1..Len(nodes) |-> [j \in 1..NDofs(kv, p) |-> BVal(P, bp, j, nodes[r])]])
MassMat(kv, p, P) ==
  LET bp == Breaks(kv)  n == NDofs(kv, p) IN
  TLCEval([i \in 1..n |-> [j \in 1..n |->
     SumSeq([s \in 1..(Len(bp) - 1) |-> PInt(PMul(P[i][s], P[j][s]), bp[s + 1] - bp[s])])]])
Moments(kv, p, P, m) ==     \* [i][k+1] = int x^k B_i(x) dx,  k = 0..m
  LET bp == Breaks(kv) IN
  TLCEval([i \in 1..NDofs(kv, p) |-> [k \in 1..(m + 1) |->
     SumSeq([s \in 1..(Len(bp) - 1) |-> PInt(PMul(PShiftMono(bp[s], k - 1), P[i][s]), bp[s + 1] - bp[s])])]])
\* Marsden: x^k = sum_j  e_k(kv[j+1..j+p]) / binom(p,k)  B_j(x)   (0 <= k <= p)
ElemSym(kv, j, p) == FoldLeft(LAMBDA acc, l : PMul(acc, <<One, R(kv[j + l])>>), <<One>>, Ix(p))   \* prod (1 + t_l z)
Marsden(kv, p, m) ==        \* [j][k+1], k = 0..m, m <= p
  TLCEval([j \in 1..NDofs(kv, p) |-> [k \in 1..(m + 1) |-> Div(PCoef(ElemSym(kv, j, p), k - 1), R(Binom(p, k - 1)))]])

\* ---- the directions offered.  <<p, kv>>
DirSeq == <<
  <<1, <<0, 0, 1, 2, 3, 3>>>>,                  \*  1  linear, uniform
  <<2, <<0, 0, 0, 1, 2, 2, 2>>>>,               \*  2  quadratic
  <<2, <<0, 0, 0, 1, 1, 3, 3, 3>>>>,            \*  3  quadratic, double interior knot (C^0), non-uniform
  <<3, <<0, 0, 0, 0, 1, 2, 2, 2, 2>>>>,         \*  4  cubic
  <<1, <<0, 0, 1, 3, 4, 4>>>>,                  \*  5  linear, non-uniform
  <<0, <<0, 1, 3, 4>>>>,                        \*  6  piecewise constants
  <<3, <<0, 0, 0, 0, 1, 1, 2, 2, 2, 2>>>>,      \*  7  cubic, double knot
  <<2, <<1, 1, 1, 2, 4, 4, 4>>>>,               \*  8  quadratic, domain [1,4]
  <<1, <<0, 0, 1, 1>>>>,                        \*  9  one linear element
  <<3, <<0, 0, 0, 0, 2, 2, 2, 2>>>>,            \* 10  cubic Bezier on [0,2]
  <<4, <<0, 0, 0, 0, 0, 1, 1, 1, 1, 1>>>>,      \* 11  quartic Bezier
  <<2, <<0, 0, 0, 1, 2, 3, 4, 4, 4>>>>,         \* 12  quadratic, 4 spans, 6 dofs
  <<2, <<0, 0, 0, 1, 1, 2, 3, 3, 3>>>>,         \* 13  twins: same degree, same breakpoints, same dimension --
  <<2, <<0, 0, 0, 1, 2, 2, 3, 3, 3>>>>          \* 14  the double knot sits at a different breakpoint
>>
DirTuples(d) ==
  IF d = 1 THEN {<<i>> : i \in 1..Len(DirSeq)}
  ELSE IF d = 2 THEN (IF Big THEN {<<i, j>> : i \in {1, 2, 3, 4, 6, 8}, j \in {1, 2, 3, 4, 5, 10}}
                      ELSE {<<2, 1>>, <<3, 4>>, <<1, 3>>, <<8, 2>>, <<6, 2>>, <<4, 10>>, <<2, 2>>})   \* <<2,2>>: the same knot vector twice
  ELSE (IF Big THEN {<<i, j, k>> : i \in {1, 2, 9}, j \in {2, 9, 5}, k \in {1, 2, 10}}
        ELSE {<<9, 2, 1>>, <<2, 9, 10>>, <<1, 2, 9>>})

\* custom nodes: the Greville points moved a third of the way towards their right neighbour (the last one
\* stays); Schoenberg-Whitney is checked by the invariant NodesOK
Shifted(g) == [j \in 1..Len(g) |-> IF j = Len(g) THEN g[j] ELSE Add(g[j], Div(Sub(g[j + 1], g[j]), R(3)))]

\* ---- tensors of rationals / integers: [sh, e] in C order
Unravel(i, sh) == TLCEval([a \in 1..Len(sh) |-> (i \div IProd(SubSeq(sh, a + 1, Len(sh)))) % sh[a]])
RavelIx(mi, sh) == FoldLeft(LAMBDA acc, a : acc * sh[a] + mi[a], 0, Ix(Len(sh)))
Mk(sh, F(_)) == [sh |-> sh, e |-> TLCEval([i \in 1..IProd(sh) |-> F(Unravel(i - 1, sh))])]
At(T, mi) == T.e[RavelIx(mi, T.sh) + 1]
\* mode product along axis k with the rational matrix A (rows x sh[k]); entries of T rational
Mode(T, k, A) ==
  Mk([T.sh EXCEPT ![k] = Len(A)],
     LAMBDA mi : SumSeq([j \in 1..T.sh[k] |-> Mul(A[mi[k] + 1][j], At(T, [mi EXCEPT ![k] = j - 1]))]))
ModeAll(T, As) == FoldLeft(LAMBDA acc, k : Mode(acc, k, As[k]), T, Ix(Len(As)))
RatT(T) == [sh |-> T.sh, e |-> [i \in 1..Len(T.e) |-> R(T.e[i])]]

\* ---- polynomials in d variables with integer coefficients: tensor a of shape (m+1)^d, a[e_1..e_d]
PolyEval(a, x) ==      \* x: sequence of d rationals
  SumSeq([q \in 1..Len(a.e) |->
            LET ex == Unravel(q - 1, a.sh) IN
            Mul(R(a.e[q]), ProdSeq([c \in 1..Len(x) |-> PowR(x[c], ex[c])]))])
\* interpolation grid for polynomials of degree m per variable: m + 1 integers around 0 (small values keep the
\* numbers inside TLC's 32-bit integers); inverse of its Vandermonde matrix
GridNode(m, r) == r - 1 - (m \div 2)
VInv(m) ==
  LET V == [r \in 1..(m + 1) |-> [k \in 1..(m + 1) |-> R(IPow(GridNode(m, r), k - 1))]]
      cols == [c \in 1..(m + 1) |-> Solve(V, [r \in 1..(m + 1) |-> IF r = c THEN One ELSE Zero])]
  IN TLCEval([r \in 1..(m + 1) |-> [c \in 1..(m + 1) |-> cols[c][r]]])

-----------------------------------------------------------------------------
(* a case *)
\* geometry: physical coordinate c (c = 1 is x, the FIRST argument of a function of physical coordinates)
\*           X_c = sum_k A[c][k] * xi_k + b[c],   xi_k the parameter of knot-vector axis k.
\* Without geometry a function of the parameters receives them in reversed axis order (x = last axis).
\* Bilinear maps add  B[c] * xi_1 * xi_2  to X_c (non-constant Jacobian determinant: the weight of the L2 product).
Geo(A, b, B) == [A |-> A, b |-> b, B |-> B, id |-> FALSE]
IdGeo(d) == [A |-> [c \in 1..d |-> [k \in 1..d |-> IF k = d + 1 - c THEN 1 ELSE 0]], b |-> [c \in 1..d |-> 0],
             B |-> [c \in 1..d |-> 0], id |-> TRUE]
GeoChoices(d) ==
  IF d = 1 THEN <<IdGeo(1), Geo(<<<<2>>>>, <<-1>>, <<0>>), Geo(<<<<-1>>>>, <<3>>, <<0>>)>>
  ELSE IF d = 2 THEN
     <<IdGeo(2),
       Geo(<<<<1, 1>>, <<1, 0>>>>, <<0, 1>>, <<0, 0>>),        \* shear  (x = xi_1 + xi_2, y = xi_1 + 1)
       Geo(<<<<0, 2>>, <<1, 0>>>>, <<1, 0>>, <<0, 0>>),        \* anisotropic scaling + shift
       Geo(<<<<1, 2>>, <<-1, 1>>>>, <<0, 2>>, <<0, 0>>),       \* det = 3
       Geo(<<<<0, 2>>, <<3, 0>>>>, <<0, 0>>, <<0, 1>>),        \* bilinear: x = 2 xi_2, y = 3 xi_1 + xi_1 xi_2
       Geo(<<<<1, 2>>, <<2, 0>>>>, <<1, 0>>, <<1, 0>>),        \* bilinear: x = xi_1 + 2 xi_2 + 1 + xi_1 xi_2, y = 2 xi_1
       Geo(<<<<1, 0>>, <<1, 2>>>>, <<0, 0>>, <<0, 0>>),        \* the other orientation (x along the first axis)
       Geo(<<<<2, 0>>, <<0, 3>>>>, <<0, 0>>, <<1, 0>>)>>       \* bilinear, other orientation: x = 2 xi_1 + xi_1 xi_2, y = 3 xi_2
  ELSE
     <<IdGeo(3),
       Geo(<<<<0, 0, 1>>, <<0, 1, 1>>, <<1, 0, 0>>>>, <<0, 0, 1>>, <<0, 0, 0>>),
       Geo(<<<<0, 1, 2>>, <<0, 1, 0>>, <<2, 0, 0>>>>, <<1, 0, 0>>, <<0, 0, 0>>),
       Geo(<<<<0, 0, 1>>, <<0, 2, 0>>, <<2, 0, 0>>>>, <<0, 0, 0>>, <<0, 0, 1>>),    \* z = 2 xi_1 + xi_1 xi_2
       Geo(<<<<1, 0, 0>>, <<0, 1, 0>>, <<0, 0, 2>>>>, <<0, 1, 0>>, <<0, 0, 0>>),    \* the other orientation
       Geo(<<<<1, 0, 0>>, <<0, 2, 0>>, <<0, 0, 1>>>>, <<0, 0, 0>>, <<1, 0, 0>>)>>   \* x = xi_1 + xi_1 xi_2, other orientation
Det(A) == IF Len(A) = 1 THEN A[1][1]
          ELSE IF Len(A) = 2 THEN A[1][1] * A[2][2] - A[1][2] * A[2][1]
          ELSE A[1][1] * (A[2][2] * A[3][3] - A[2][3] * A[3][2]) - A[1][2] * (A[2][1] * A[3][3] - A[2][3] * A[3][1])
               + A[1][3] * (A[2][1] * A[3][2] - A[2][2] * A[3][1])
\* the map and its Jacobian at an integer parameter point xi (sequence over the axes)
GeoX(geo, xi) == [c \in 1..Len(geo.b) |->
                   ISum([k \in 1..Len(xi) |-> geo.A[c][k] * xi[k]]) + geo.b[c]
                   + (IF Len(xi) >= 2 THEN geo.B[c] * xi[1] * xi[2] ELSE 0)]
GeoJac(geo, xi) == [c \in 1..Len(geo.b) |-> [k \in 1..Len(xi) |->
                   geo.A[c][k] + (IF Len(xi) >= 2 /\ k = 1 THEN geo.B[c] * xi[2]
                                  ELSE IF Len(xi) >= 2 /\ k = 2 THEN geo.B[c] * xi[1] ELSE 0)]]
\* |det J| is a polynomial of degree <= 1 per variable whose sign is constant iff it is at the corners
Corners(dirs) == LET RECURSIVE Cs(_)
                     Cs(k) == IF k = 0 THEN {<<>>} ELSE {Append(t, x) : t \in Cs(k - 1), x \in {dirs[k].kv[1], dirs[k].kv[Len(dirs[k].kv)]}}
                 IN Cs(Len(dirs))
GeoSign(geo, dirs) == LET c0 == CHOOSE t \in Corners(dirs) : TRUE IN IF Det(GeoJac(geo, c0)) > 0 THEN 1 ELSE -1

\* integer polynomial of total degree <= m in d variables (coefficient tensor of shape (m+1)^d)
GenPoly(d, m, s) ==
  Mk([c \in 1..d |-> m + 1],
     LAMBDA ex : IF ISum(ex) <= m THEN (IF ISum(ex) = m /\ ex[1] = m THEN 1 + (Hash(s, 7) % 2) ELSE Val5(s, 11 + RavelIx(ex, [c \in 1..d |-> m + 1]))) ELSE 0)
\* pull-back  g(xi) = f(X(xi)):  coefficient tensor (rational) of shape (m+1)^d by interpolation on {0..m}^d
PullBack(a, geo, m) ==
  LET d  == Len(geo.b)
      Vi == VInv(m)
      vals == Mk([k \in 1..d |-> m + 1],
                 LAMBDA mi : LET X == GeoX(geo, [k \in 1..d |-> GridNode(m, mi[k] + 1)]) IN PolyEval(a, [c \in 1..d |-> R(X[c])]))
  IN ModeAll(vals, [k \in 1..d |-> Vi])
\* coefficient tensor (shape (m+2)^d) of  |det J| * (f o X)
WeightedPullBack(a, geo, sgn, m) ==
  LET d  == Len(geo.b)
      Vi == VInv(m + 1)
      vals == Mk([k \in 1..d |-> m + 2],
                 LAMBDA mi : LET xi == [k \in 1..d |-> GridNode(m + 1, mi[k] + 1)]
                                 X  == GeoX(geo, xi) IN
                             Mul(R(sgn * Det(GeoJac(geo, xi))), PolyEval(a, [c \in 1..d |-> R(X[c])])))
  IN IF \A c \in 1..d : geo.B[c] = 0
     THEN \* constant weight: scale the pull-back (embedded in the larger coefficient tensor)
          LET g == PullBack(a, geo, m)  w == R(sgn * Det(geo.A)) IN
          Mk([k \in 1..d |-> m + 2], LAMBDA ex : IF \A k \in 1..d : ex[k] <= m THEN Mul(w, At(g, ex)) ELSE Zero)
     ELSE ModeAll(vals, [k \in 1..d |-> Vi])
\* coefficient tensor (shape 2^d) of |det J|
WeightPoly(geo, sgn) ==
  LET d == Len(geo.b) IN
  ModeAll(Mk([k \in 1..d |-> 2], LAMBDA mi : R(sgn * Det(GeoJac(geo, [k \in 1..d |-> GridNode(1, mi[k] + 1)])))),
          [k \in 1..d |-> VInv(1)])
\* int xi^q B_i B_j
WMass(kv, p, P, q) ==
  LET bp == Breaks(kv)  n == NDofs(kv, p) IN
  TLCEval([i \in 1..n |-> [j \in 1..n |->
     SumSeq([s \in 1..(Len(bp) - 1) |-> PInt(PMul(PShiftMono(bp[s], q), PMul(P[i][s], P[j][s])), bp[s + 1] - bp[s])])]])

MkCase(dt, v) ==
  LET d    == Len(dt)
      s    == Hash(Salt * 17 + v, 3 + ISum(dt) + 31 * d)
      dirs == [k \in 1..d |->
                 LET p == DirSeq[dt[k]][1]  kv == DirSeq[dt[k]][2]
                     P == Pieces(kv, p)
                     g == Greville(kv, p)
                     \* the same knot vector on the first two axes: custom nodes on the first axis only, so that
                     \* whatever is shared between axes with equal knot vectors must not include the nodes
                     custom == IF d >= 2 /\ k <= 2 /\ dt[1] = dt[2] THEN (k = 1 /\ p > 0)
                               ELSE (Hash(s, 40 + k) % 3 = 0) /\ p > 0
                     nodes == IF custom THEN Shifted(g) ELSE g
                 IN [p |-> p, kv |-> kv, n |-> NDofs(kv, p), custom |-> custom, nodes |-> nodes,
                     P |-> P, C |-> Colloc(kv, p, P, nodes), M |-> MassMat(kv, p, P), M1 |-> WMass(kv, p, P, 1)]]
      ns   == [k \in 1..d |-> dirs[k].n]
      pmin == FoldLeft(LAMBDA a, k : IF dirs[k].p < a THEN dirs[k].p ELSE a, 9, Ix(d))
      \* (1) data in the space by coefficients: scalar / vector / matrix valued
      vsh  == <<<<>>, <<2>>, <<2, 2>>>>[(Hash(s, 5) % 3) + 1]
      c    == Mk(ns \o vsh, LAMBDA mi : Val5(s, 100 + RavelIx(mi, ns \o vsh)))
      V    == ModeAll(RatT(c), [k \in 1..d |-> dirs[k].C])
      \* (2) polynomial data in physical coordinates + geometry
      geo  == GeoChoices(d)[((v + Hash(Salt + ISum(dt), 6)) % Len(GeoChoices(d))) + 1]   \* consecutive variants cycle
      bilin == \E cc \in 1..d : geo.B[cc] # 0
      mcap == IF bilin THEN 2 ELSE 3            \* keeps the numbers inside 32 bit
      mIn  == IF pmin > mcap THEN mcap ELSE pmin
      ncmp == 1 + (Hash(s, 8) % 2)
      fin  == [q \in 1..ncmp |-> GenPoly(d, mIn, s + 50 * q)]
      gin  == [q \in 1..ncmp |-> PullBack(fin[q], geo, mIn)]
      cin  == [q \in 1..ncmp |-> ModeAll(gin[q], [k \in 1..d |-> Marsden(dirs[k].kv, dirs[k].p, mIn)])]
      \* (3) polynomial data outside the space: degree pmin + 1
      mOut == mIn + 1
      fout == GenPoly(d, mOut, s + 7)
      gout == PullBack(fout, geo, mOut)
      mom  == [k \in 1..d |-> Moments(dirs[k].kv, dirs[k].p, dirs[k].P, mOut + 1)]
      momTo(m) == [k \in 1..d |-> [i \in 1..dirs[k].n |-> SubSeq(mom[k][i], 1, m + 1)]]
      bout == ModeAll(gout, momTo(mOut))
      \* (4) the geometry-weighted inner product: weight |det J| (a polynomial), weighted right-hand sides
      sgn  == GeoSign(geo, dirs)
      W    == WeightPoly(geo, sgn)
      hin  == WeightedPullBack(fin[1], geo, sgn, mIn)
      bwin == ModeAll(hin, momTo(mIn + 1))
      hout == WeightedPullBack(fout, geo, sgn, mOut)
      bwout == ModeAll(hout, momTo(mOut + 1))
      \* the library integrates with max(p)+1 Gauss points per direction (exact up to degree 2 max(p) + 1): the
      \* weighted right-hand side is integrated exactly iff  deg_k(|det J| * f o X) + p_k <= 2 max(p) + 1  for all k
      pmax == FoldLeft(LAMBDA a, k : IF dirs[k].p > a THEN dirs[k].p ELSE a, 0, Ix(d))
      degk(T, k) == FoldLeft(LAMBDA a, q : IF T.e[q] # Zero /\ Unravel(q - 1, T.sh)[k] > a THEN Unravel(q - 1, T.sh)[k] ELSE a,
                             0, Ix(Len(T.e)))
      wexact == \A k \in 1..d : degk(hout, k) + dirs[k].p <= 2 * pmax + 1
  IN [built |-> FALSE, dt |-> dt, v |-> v, d |-> d, dirs |-> dirs, ns |-> ns, vsh |-> vsh, c |-> c, V |-> V,
      geo |-> geo, sgn |-> sgn, W |-> W, mIn |-> mIn, fin |-> fin, gin |-> gin, cin |-> cin,
      mOut |-> mOut, fout |-> fout, gout |-> gout, mom |-> mom, bout |-> bout, bwin |-> bwin, bwout |-> bwout,
      wexact |-> wexact]

\* two steps per case, so that TLC's workers share the construction of the cases (initial states are
\* computed by one thread): the initial state names the case, Build constructs it
Init  == \E d \in Dims : \E dt \in DirTuples(d) : \E v \in Vars : cs = [built |-> FALSE, dt |-> dt, v |-> v]
Build == ~cs.built /\ cs' = [MkCase(cs.dt, cs.v) EXCEPT !.built = TRUE]
Next  == Build
Spec  == Init /\ [][Next]_cs

-----------------------------------------------------------------------------
(* invariants *)
BasisOK ==      \* non-negative partition of unity at the nodes; Schoenberg-Whitney: B_j(node_j) > 0
  cs.built => \A k \in 1..cs.d :
    LET D == cs.dirs[k] IN
    /\ Len(D.nodes) = D.n
    /\ \A r \in 1..D.n : SumSeq(D.C[r]) = One /\ \A j \in 1..D.n : ~Lt(D.C[r][j], Zero)
    /\ \A j \in 1..D.n : Lt(Zero, D.C[j][j])
    /\ \A j \in 1..(D.n - 1) : Lt(D.nodes[j], D.nodes[j + 1])
MassOK ==       \* symmetric, row sums = int B_i = (t_{i+p+1} - t_i) / (p+1)
  cs.built => \A k \in 1..cs.d :
    LET D == cs.dirs[k] IN
    /\ \A i, j \in 1..D.n : D.M[i][j] = D.M[j][i]
    /\ \A i \in 1..D.n : SumSeq(D.M[i]) = Q(D.kv[i + D.p + 1] - D.kv[i], D.p + 1)
MomentOK ==     \* sum_i int x^k B_i = int x^k over the domain
  cs.built => \A k \in 1..cs.d :
    LET D == cs.dirs[k]  a == D.kv[1]  b == D.kv[Len(D.kv)] IN
    \A q \in 0..cs.mOut :
      SumSeq([i \in 1..D.n |-> cs.mom[k][i][q + 1]]) = Q(IPow(b, q + 1) - IPow(a, q + 1), q + 1)
MarsdenOK ==    \* the Marsden coefficients reproduce the monomials at every node
  cs.built => \A k \in 1..cs.d :
    LET D == cs.dirs[k]  Mc == Marsden(D.kv, D.p, cs.mIn) IN
    \A q \in 0..cs.mIn : \A r \in 1..D.n :
      SumSeq([j \in 1..D.n |-> Mul(Mc[j][q + 1], D.C[r][j])]) = PowR(D.nodes[r], q)
InSpaceOK ==    \* data in the space: interpolation conditions and normal equations hold exactly for cin
  cs.built => \A q \in 1..Len(cs.fin) :
    LET cin == cs.cin[q]
        atNodes == ModeAll(cin, [k \in 1..cs.d |-> cs.dirs[k].C])
        Mc   == ModeAll(cin, [k \in 1..cs.d |-> cs.dirs[k].M])
        rhs  == ModeAll(cs.gin[q], [k \in 1..cs.d |-> [i \in 1..cs.dirs[k].n |-> SubSeq(cs.mom[k][i], 1, cs.mIn + 1)]])
    IN /\ Mc = rhs
       /\ \A i \in 1..Len(atNodes.e) :
            LET mi == Unravel(i - 1, atNodes.sh)
                xi == [k \in 1..cs.d |-> cs.dirs[k].nodes[mi[k] + 1]]
                X  == [cc \in 1..cs.d |-> Add(Add(SumSeq([k \in 1..cs.d |-> Mul(R(cs.geo.A[cc][k]), xi[k])]), R(cs.geo.b[cc])),
                                              IF cs.d >= 2 THEN Mul(R(cs.geo.B[cc]), Mul(xi[1], xi[2])) ELSE Zero)]
            IN atNodes.e[i] = PolyEval(cs.fin[q], X)

\* the same for the geometry-weighted inner product:  sum_e W_e (M^(e_1) x .. x M^(e_d)) cin = int |det J| (f o X) B
TAdd(S, T) == [sh |-> S.sh, e |-> [i \in 1..Len(S.e) |-> Add(S.e[i], T.e[i])]]
TScale(T, r) == [sh |-> T.sh, e |-> [i \in 1..Len(T.e) |-> Mul(T.e[i], r)]]
WeightedApply(T) ==
  FoldLeft(LAMBDA acc, q :
             LET ex == Unravel(q - 1, cs.W.sh) IN
             TAdd(acc, TScale(ModeAll(T, [k \in 1..cs.d |-> IF ex[k] = 0 THEN cs.dirs[k].M ELSE cs.dirs[k].M1]), cs.W.e[q])),
           [sh |-> T.sh, e |-> [i \in 1..Len(T.e) |-> Zero]], Ix(Len(cs.W.e)))
WeightedOK ==
  cs.built =>
    /\ WeightedApply(cs.cin[1]) = cs.bwin
    /\ \A t \in Corners(cs.dirs) : cs.sgn * Det(GeoJac(cs.geo, t)) > 0      \* the map is regular, orientation constant
    /\ cs.geo.B = [c \in 1..cs.d |-> 0] => \A q \in 2..Len(cs.W.e) : cs.W.e[q] = Zero

EmitCase ==
  cs.built => Emit("CASE", [dt |-> cs.dt, v |-> cs.v, d |-> cs.d, ns |-> cs.ns, vsh |-> cs.vsh,
                dirs |-> [k \in 1..cs.d |-> [p |-> cs.dirs[k].p, kv |-> cs.dirs[k].kv, n |-> cs.dirs[k].n,
                                             custom |-> cs.dirs[k].custom, nodes |-> cs.dirs[k].nodes,
                                             M |-> cs.dirs[k].M, M1 |-> cs.dirs[k].M1]],
                c |-> cs.c, V |-> cs.V, geo |-> cs.geo, W |-> cs.W, mIn |-> cs.mIn, mOut |-> cs.mOut,
                fin |-> cs.fin, cin |-> cs.cin, fout |-> cs.fout, bout |-> cs.bout, bwout |-> cs.bwout, wexact |-> cs.wexact])
=============================================================================
