------------------------------- MODULE AsmSched -------------------------------
(* C08 -- assembly is independent of symmetry flag, format, layout, subset and thread count.
   (pyiga/assemble.py assemble_entries / assemble_entries_vec / Assembler, assemble_tools_cy.pyx chunk_tasks +
    thread pool, genericasm.pxi multi_entries / multi_blocks / generic_assemble_core_vec_{1,2,3}d,
    mlmatrix.py MLStructure / MLMatrix.reorder, mlmatrix_cy.pyx get_transpose_idx_for_bidx)

   Modes (constant Mode), every mode explores a SUITE of problems chosen in the initial state:

   "chunks"  (a)  Chunks(len,k) = the ranges chunk_tasks produces; ChunksOK: consecutive, non-empty, cover
                  0..len-1, at most k of them.  One initial state per (len,k), emitted for the harness.
   "pool"    (b)  multi_entries / multi_blocks: ONE PROCESS PER CHUNK, one step per entry (block); process c
                  reads idxchunk[k] = idx_arr[lo_c + k] and writes out[k] = result[lo_c + k] (both arrays are cut by
                  the same chunk_tasks call).  Every interleaving is explored.
   "sym"     (c)  generic_assemble_core_vec_Nd: ONE PROCESS PER OUTER INDEX mu0 (this contains every prange
                  schedule with any number of threads), nested loops with the `diag` tests of the kernel; two steps
                  per executed iteration: Body (entry_impl writes the block entries[mu]) and Mirror (if off the
                  diagonal: reads entries[mu][row*nc0+col], writes entries[transp(mu)][col*nc0+row]).
   "post"    (d)  index maps of the post-processing: lower-triangular nonzeros + mirrored off-diagonals
                  (assemble_entries), block-COO -> BSR permutation and block transposition (packed/bsr path),
                  blocked <-> packed permutation (MLMatrix.reorder), with bijection invariants.  Emits one PROB
                  record per problem: the configurations, thread counts, subsets, row sets, bounding boxes, layout
                  permutations and structures the harness replays on the real assemblers.
   "upd"          update sequences of one updatable field and one parameter, repeated assemble(): the operator
                  assembled after a history equals the one constructed afresh from the current values.

   Values are symbolic: entry_impl(i,j) writes <<I, J, k>> = component k (flat, k = row*nc0 + col, row < nc1 = number
   of test components, col < nc0 = number of trial components) of the block B(I,J).  Under the hypothesis of the
   property, B(J,I) = B(I,J)^T, a value is normalised by Norm (the representative with the larger row index).

   Variant = "ok" | "racy" (chunk ranges overlapping by one; in "sym": the test `diag0 > 0: return` dropped, so the
   process of the mirrored block computes and mirrors as well) | "racy-inner" (the inner `continue` tests dropped)
   | "legacy" ("post": multi_blocks' result shaped numcomp[0] x numcomp[1] as the code has it today).          *)
EXTENDS Integers, Sequences, FiniteSets, SequencesExt, FiniteSetsExt, Functions, TLC, Emit

CONSTANTS Mode, Suite, Variant, DoEmit,
          MaxLen, MaxK       \* "chunks": all len <= MaxLen, k <= MaxK

VARIABLES prob,    \* the problem (record, constant along a behaviour; carries the precomputed static tables)
          pcs,     \* per process: program counter
          mem,     \* the shared output array: mem[pos][k] (pos = position in the index list / data tensor, 1-based)
          wl,      \* per location: sequence of the processes that wrote it
          safe,    \* FALSE once a process read a location it did not write itself exactly once, or wrote out of bounds
          hist     \* "upd": the operations so far

vars == <<prob, pcs, mem, wl, safe, hist>>

-----------------------------------------------------------------------------
(* integers, index arithmetic *)
Max2(a, b) == IF a >= b THEN a ELSE b
Min2(a, b) == IF a <= b THEN a ELSE b
Rep(v, n) == [i \in 1..n |-> v]
Idx(n) == [a \in 1..n |-> a]
Force(s) == SubSeq(s, 1, Len(s))
Prod(s) == FoldLeft(LAMBDA a, x : a * x, 1, s)
\* C-order ravel / unravel of 0-based multi-indices held in 1-based sequences
Ravel(mi, shape) == FoldLeft(LAMBDA acc, a : (acc * shape[a]) + mi[a], 0, Idx(Len(shape)))
Unravel(i, shape) ==
  [a \in 1..Len(shape) |-> (i \div Prod(SubSeq(shape, a + 1, Len(shape)))) % shape[a]]
CellsRow(m, n) == [t \in 1..(m * n) |-> <<(t - 1) \div n, (t - 1) % n>>]

-----------------------------------------------------------------------------
(* (a) chunk_tasks (assemble_tools_cy.pyx 387-391):
       n = len(tasks) // num_chunks + 1;  for i in range(0, len(tasks), n): yield tasks[i:i+n]
   as a sequence of half-open ranges <<lo, hi>> *)
ChunkStep(len, k) == (len \div k) + 1
Chunks(len, k) ==
  LET n == ChunkStep(len, k)
      cnt == (len + n - 1) \div n                        \* |range(0, len, n)|
      ov == IF Variant = "racy" THEN 1 ELSE 0
  IN [c \in 1..cnt |-> <<(c - 1) * n, Min2(((c - 1) * n) + n + ov, len)>>]

\* the property of a chunking, stated without reference to the formula
IsPartition(ch, len, k) ==
  /\ Len(ch) <= k
  /\ \A c \in 1..Len(ch) : ch[c][1] < ch[c][2]                                  \* non-empty
  /\ (len = 0) => Len(ch) = 0
  /\ (len > 0) => Len(ch) >= 1 /\ ch[1][1] = 0 /\ ch[Len(ch)][2] = len
  /\ \A c \in 1..(Len(ch) - 1) : ch[c][2] = ch[c + 1][1]                        \* consecutive: disjoint and gap-free
  /\ \A x \in 0..(len - 1) : Cardinality({c \in 1..Len(ch) : ch[c][1] <= x /\ x < ch[c][2]}) = 1

-----------------------------------------------------------------------------
(* knot vectors: code p*1000 + a*100 + b*10 + c = degree p, open on [0,4], interior breakpoints 1,2,3 with
   multiplicities a,b,c (0 = absent) *)
KVId(code) == <<code \div 1000, (code \div 100) % 10, (code \div 10) % 10, code % 10>>
Knots(id) == Rep(0, id[1] + 1) \o Rep(1, id[2]) \o Rep(2, id[3]) \o Rep(3, id[4]) \o Rep(4, id[1] + 1)
NumDofs(id) == Len(Knots(id)) - id[1] - 1
Supp(id, i) == <<Knots(id)[i + 1], Knots(id)[i + id[1] + 2]>>          \* i 0-based, knot VALUES
Overlap(s, t) == Max2(s[1], t[1]) < Min2(s[2], t[2])
MeshSeq(id) == SetToSortSeq({Knots(id)[i] : i \in 1..Len(Knots(id))}, <)
NumCells(id) == Len(MeshSeq(id)) - 1
MeshIdx(id, v) == Cardinality({w \in Range(MeshSeq(id)) : w < v})
MeshSupp(id, i) == <<MeshIdx(id, Supp(id, i)[1]), MeshIdx(id, Supp(id, i)[2])>>     \* cells [a, b)

\* level pattern of MLStructure.from_kvs(kvs0, kvs1) with kvs1 = kvs0: rows = test, columns = trial, row-major
LevelOf(id) ==
  LET n == NumDofs(id) IN
  [m |-> n, n |-> n, bidx |-> SelectSeq(CellsRow(n, n), LAMBDA q : Overlap(Supp(id, q[1]), Supp(id, q[2])))]
DenseLevel(m, n) == [m |-> m, n |-> n, bidx |-> CellsRow(m, n)]
BaseS(kv) == [k \in 1..Len(kv) |-> LevelOf(KVId(kv[k]))]

-----------------------------------------------------------------------------
(* multi-level structures (declarative; same definitions as module MLStructure) *)
Ms(S)  == [k \in 1..Len(S) |-> S[k].m]
Ns(S)  == [k \in 1..Len(S) |-> S[k].n]
NNs(S) == [k \in 1..Len(S) |-> Len(S[k].bidx)]
MM(S) == Prod(Ms(S))
NC(S) == Prod(Ns(S))
Strides(S) == LET nn == NNs(S) IN [k \in 1..Len(S) |-> Prod(SubSeq(nn, k + 1, Len(S)))]
\* entries <<I, J, off>> of the Kronecker product of the levels ord[1], ord[2], ...; off = C-order offset of the
\* entry's multi-position in the compact data tensor of S
KronPos(S, ord) ==
  LET str == Strides(S) IN
  FoldLeft(LAMBDA acc, j :
      LET lv == S[ord[j]]  b == lv.bidx  nk == Len(b)  sk == str[ord[j]] IN
      Force([t \in 1..(Len(acc) * nk) |->
          LET e == acc[((t - 1) \div nk) + 1]  p == ((t - 1) % nk) + 1 IN
          <<(e[1] * lv.m) + b[p][1], (e[2] * lv.n) + b[p][2], e[3] + ((p - 1) * sk)>>]),
    <<<<0, 0, 0>>>>, Idx(Len(ord)))
NonzeroAll(S) == LET kp == KronPos(S, Idx(Len(S))) IN Force([t \in 1..Len(kp) |-> <<kp[t][1], kp[t][2]>>])
LowerOnly(s) == SelectSeq(s, LAMBDA e : e[2] <= e[1])
Nonzero(S, lw) == IF lw THEN LowerOnly(NonzeroAll(S)) ELSE NonzeroAll(S)
Den(S, dat) == {<<e[1], e[2], dat[e[3] + 1]>> : e \in Range(KronPos(S, Idx(Len(S))))}
PosOf(D) == {<<e[1], e[2]>> : e \in D}
\* multi-position (1-based per level) -> row / column index
EntryI(S, mu) == Ravel([k \in 1..Len(S) |-> S[k].bidx[mu[k]][1]], Ms(S))
EntryJ(S, mu) == Ravel([k \in 1..Len(S) |-> S[k].bidx[mu[k]][2]], Ns(S))
Pos0(S, mu) == Ravel([k \in 1..Len(S) |-> mu[k] - 1], NNs(S))
\* MLStructure.reorder / MLMatrix.reorder: levels permuted, data = np.transpose(data, axes)
ReorderS(S, ax) == [j \in 1..Len(S) |-> S[ax[j]]]
ReorderData(S, dat, ax) ==
  LET nn == NNs(S)
      nn2 == [j \in 1..Len(S) |-> nn[ax[j]]]
      inv == [k \in 1..Len(S) |-> CHOOSE j \in 1..Len(S) : ax[j] = k]
  IN Force([t \in 1..Len(dat) |-> LET q == Unravel(t - 1, nn2) IN
        dat[Ravel([k \in 1..Len(S) |-> q[inv[k]]], nn) + 1]])
\* nonzeros_for_rows: columns of row r, level lists in bidx order, lexicographic product
RowCols(lv, i) == LET sel == SelectSeq(lv.bidx, LAMBDA e : e[1] = i) IN [p \in 1..Len(sel) |-> sel[p][2]]
ForRow(S, r) ==
  LET ri == Unravel(r, Ms(S)) IN
  FoldLeft(LAMBDA acc, k :
      LET lst == RowCols(S[k], ri[k])  c == Len(lst)  n == S[k].n IN
      Force([t \in 1..(Len(acc) * c) |-> (acc[((t - 1) \div c) + 1] * n) + lst[((t - 1) % c) + 1]]),
    <<0>>, Idx(Len(S)))
\* get_transpose_idx_for_bidx (0-based values)
TranspIdx(b) == [p \in 1..Len(b) |-> (CHOOSE q \in 1..Len(b) : b[q] = <<b[p][2], b[p][1]>>) - 1]

-----------------------------------------------------------------------------
(* symbolic values *)
Val(I, J, k) == <<I, J, k>>
\* representative under B(J,I) = B(I,J)^T; nc0 = nc1 = nc, k = row*nc + col
Norm(v, nc) ==
  LET row == v[3] \div nc  col == v[3] % nc IN
  IF v[2] < v[1] \/ (v[2] = v[1] /\ col <= row) THEN <<v[1], v[2], row, col>> ELSE <<v[2], v[1], col, row>>

-----------------------------------------------------------------------------
(* problems *)
PB(name, kv, nc0, nc1) == [name |-> name, kv |-> kv, nc0 |-> nc0, nc1 |-> nc1]
IsVec(p) == p.nc0 > 0
Square(p) == p.nc0 = p.nc1

PoolBase ==
  CASE Suite = "quick" ->
         {PB("e1-tri3", <<1010>>, 0, 0), PB("e2-d2.tri3", <<1000, 1010>>, 0, 0),
          PB("b2-d2.d2-2x2", <<1000, 1000>>, 2, 2), PB("b2-tri3.d2-2x1", <<1010, 1000>>, 2, 1)}
    [] Suite = "thorough" ->
         {PB("e1-tri3", <<1010>>, 0, 0), PB("e2-d2.tri3", <<1000, 1010>>, 0, 0),
          PB("e2-tri4.d3", <<1101, 2000>>, 0, 0),
          PB("e3-d2.d2.d2", <<1000, 1000, 1000>>, 0, 0),
          PB("b2-d2.d2-2x2", <<1000, 1000>>, 2, 2), PB("b2-tri3.d2-2x1", <<1010, 1000>>, 2, 1),
          PB("b2-tri3.tri3-1x2", <<1010, 1010>>, 1, 2), PB("b3-d2.d2.d2-3x3", <<1000, 1000, 1000>>, 3, 3)}
    [] Suite = "neg" -> {PB("e2-d2.tri3", <<1000, 1010>>, 0, 0)}
PoolThreads(p) == IF Suite = "thorough" /\ Len(p.kv) = 3 /\ ~IsVec(p) THEN {1, 2, 3} ELSE 1..4

PK(name, kv, nc0, nc1, syms) == [name |-> name, kv |-> kv, nc0 |-> nc0, nc1 |-> nc1, syms |-> syms]
KernBase ==
  CASE Suite = "quick" ->
         {PK("k1-tri3-2x2", <<1010>>, 2, 2, BOOLEAN), PK("k2-d2.tri3-2x2", <<1000, 1010>>, 2, 2, BOOLEAN),
          PK("k2-tri3.d2-1x1", <<1010, 1000>>, 1, 1, {TRUE}), PK("k3-d2.d2.d2-2x2", <<1000, 1000, 1000>>, 2, 2, {TRUE}),
          PK("k2-d2.d2-2x1", <<1000, 1000>>, 2, 1, {FALSE})}
    [] Suite = "thorough" ->
         {PK("k1-tri4-3x3", <<1101>>, 3, 3, BOOLEAN), PK("k2-d2.tri3-2x2", <<1000, 1010>>, 2, 2, BOOLEAN),
          PK("k2-tri3.d2-3x3", <<1010, 1000>>, 3, 3, BOOLEAN), PK("k2-tri3.tri3-2x2", <<1010, 1010>>, 2, 2, {TRUE}),
          PK("k2-tri4.d2-2x2", <<1101, 1000>>, 2, 2, {TRUE}),
          PK("k3-d2.d2.d2-3x3", <<1000, 1000, 1000>>, 3, 3, BOOLEAN),
          PK("k3-d2.tri3.d2-1x1", <<1000, 1010, 1000>>, 1, 1, {TRUE}),
          PK("k2-d2.d3-2x1", <<1000, 2000>>, 2, 1, {FALSE}), PK("k2-d2.d3-1x2", <<1000, 2000>>, 1, 2, {FALSE})}
    [] Suite = "neg" -> {PK("k2-d2.tri3-2x2", <<1000, 1010>>, 2, 2, {TRUE})}

Comps(dim) == {<<0, 0>>, <<2, 2>>, <<2, 1>>, <<1, 2>>, <<3, 3>>}
PostKVs ==
  CASE Suite = "quick" ->
         {<<1101, 2120>>, <<2010, 1000>>, <<1010, 1000, 2000>>}
    [] Suite = "thorough" ->
         {<<1010>>, <<2120>>, <<3011>>,
          <<1101, 2120>>, <<2010, 1000>>, <<3010, 2101>>, <<1111, 1111>>, <<2000, 3000>>,
          <<1010, 1000, 2000>>, <<2010, 1101, 1010>>, <<2100, 2001, 3000>>}
    [] Suite = "neg" -> {<<1010, 1000>>}
PostBase == {PB("post", kv, c[1], c[2]) : kv \in PostKVs, c \in Comps(0)}

-----------------------------------------------------------------------------
(* (b) the thread pool of multi_entries / multi_blocks (genericasm.pxi 89-125, 177-215) *)
PoolProb(p, sym, t) ==
  LET S == BaseS(p.kv)
      ij == Nonzero(S, sym)
      n == Len(ij)
      ch == IF t <= 1 THEN (IF n = 0 THEN <<>> ELSE <<<<0, n>>>>) ELSE Chunks(n, t)   \* num_threads <= 1: serial
  IN [name |-> p.name, kv |-> p.kv, nc0 |-> p.nc0, nc1 |-> p.nc1, sym |-> sym, t |-> t,
      S |-> S, ij |-> ij, n |-> n, bsz |-> IF IsVec(p) THEN p.nc0 * p.nc1 ELSE 1,
      ich |-> ch,      \* chunk_tasks(idx_arr, num_threads)
      och |-> ch]      \* chunk_tasks(result, num_threads): same length, same k => same ranges
InitPool ==
  /\ prob \in UNION {{PoolProb(p, sym, t) : sym \in BOOLEAN, t \in PoolThreads(p)} : p \in PoolBase}
  /\ pcs = [c \in 1..Len(prob.ich) |-> 0]
  /\ mem = [g \in 1..prob.n |-> Rep(<<>>, prob.bsz)]          \* np.zeros
  /\ wl = [g \in 1..prob.n |-> Rep(<<>>, prob.bsz)]
  /\ safe = TRUE /\ hist = <<>>

\* one iteration of the loop of multi_entries_chunk / multi_blocks_chunk in process c
PoolStep(c) ==
  /\ pcs[c] < prob.ich[c][2] - prob.ich[c][1]
  /\ LET k == pcs[c]
         g == prob.ich[c][1] + k          \* idxchunk_[k]  is  idx_arr[lo + k]
         o == prob.och[c][1] + k          \* out_[k]       is  result[lo + k]
         e == prob.ij[g + 1]
     IN IF o < prob.och[c][2] /\ o < prob.n
        THEN /\ mem' = [mem EXCEPT ![o + 1] = [r \in 1..prob.bsz |-> Val(e[1], e[2], r - 1)]]
             /\ wl' = [wl EXCEPT ![o + 1] = [r \in 1..prob.bsz |-> Append(@[r], c)]]
             /\ UNCHANGED safe
        ELSE safe' = FALSE /\ UNCHANGED <<mem, wl>>
  /\ pcs' = [pcs EXCEPT ![c] = @ + 1]
  /\ UNCHANGED <<prob, hist>>
NextPool == \E c \in DOMAIN pcs : PoolStep(c)
PoolDone == \A c \in DOMAIN pcs : pcs[c] = prob.ich[c][2] - prob.ich[c][1]
ExpectedPool == [g \in 1..prob.n |-> [r \in 1..prob.bsz |-> Val(prob.ij[g][1], prob.ij[g][2], r - 1)]]

-----------------------------------------------------------------------------
(* (c) the vector kernel (genericasm.pxi 240-305, 549-624, 873-958) *)
Diag(S, lv, p) == S[lv].bidx[p][2] - S[lv].bidx[p][1]                     \* <int>j[lv] - <int>i[lv]
\* the iterations whose body process a executes, in program order; the `diag` tests are those of the kernel
Sched(S, sym, a) ==
  LET D == Len(S)
      d0 == Diag(S, 1, a)
      top == sym /\ d0 > 0 /\ Variant # "racy"                            \* if diag0 > 0: return
      inner == Variant # "racy-inner"
  IN IF top THEN <<>>
     ELSE IF D = 1 THEN <<<<a>>>>
     ELSE FoldLeft(LAMBDA acc, b :
            LET d1 == Diag(S, 2, b) IN
            IF sym /\ inner /\ d0 = 0 /\ d1 > 0 THEN acc                    \* if diag0 == 0 and diag1 > 0: continue
            ELSE IF D = 2 THEN Append(acc, <<a, b>>)
            ELSE FoldLeft(LAMBDA acc2, c :
                   LET d2 == Diag(S, 3, c) IN
                   IF sym /\ inner /\ d0 = 0 /\ d1 = 0 /\ d2 > 0 THEN acc2  \* ... and diag2 > 0: continue
                   ELSE Append(acc2, <<a, b, c>>),
                 acc, Idx(Len(S[3].bidx))),
          <<>>, Idx(Len(S[2].bidx)))
KernProb(p, sym) ==
  LET S == BaseS(p.kv) IN
  [name |-> p.name, kv |-> p.kv, nc0 |-> p.nc0, nc1 |-> p.nc1, sym |-> sym, t |-> 0,
   S |-> S, n |-> Prod(NNs(S)), bsz |-> p.nc0 * p.nc1,
   sched |-> [a \in 1..Len(S[1].bidx) |-> Sched(S, sym, a)],
   tr |-> [k \in 1..Len(S) |-> TranspIdx(S[k].bidx)]]
InitKern ==
  /\ prob \in UNION {{KernProb(p, sym) : sym \in p.syms} : p \in KernBase}
  /\ pcs = [a \in 1..Len(prob.S[1].bidx) |-> <<1, 0>>]
  /\ mem = [g \in 1..prob.n |-> Rep(<<>>, prob.bsz)]          \* np.zeros
  /\ wl = [g \in 1..prob.n |-> Rep(<<>>, prob.bsz)]
  /\ safe = TRUE /\ hist = <<>>

CurMu(a) == prob.sched[a][pcs[a][1]]
OffDiag(mu) == prob.sym /\ \E lv \in 1..Len(prob.S) : Diag(prob.S, lv, mu[lv]) # 0
\* asm.entry_impl(i, j, &entries[mu..., 0])
KernBody(a) ==
  /\ pcs[a][1] <= Len(prob.sched[a]) /\ pcs[a][2] = 0
  /\ LET mu == CurMu(a)  g == Pos0(prob.S, mu) + 1
         I == EntryI(prob.S, mu)  J == EntryJ(prob.S, mu)
     IN /\ mem' = [mem EXCEPT ![g] = [r \in 1..prob.bsz |-> Val(I, J, r - 1)]]
        /\ wl' = [wl EXCEPT ![g] = [r \in 1..prob.bsz |-> Append(@[r], a)]]
        \* the test `symmetric and (diag0 != 0 or ...)` touches no shared memory: when it fails the iteration ends here
        /\ pcs' = [pcs EXCEPT ![a] = IF OffDiag(mu) THEN <<@[1], 1>> ELSE <<@[1] + 1, 0>>]
  /\ UNCHANGED <<prob, safe, hist>>
\* if symmetric and (diag0 != 0 or ...): entries[transp(mu), col*nc0 + row] = entries[mu, row*nc0 + col]
KernMirror(a) ==
  /\ pcs[a][1] <= Len(prob.sched[a]) /\ pcs[a][2] = 1
  /\ LET S == prob.S  mu == CurMu(a)  g == Pos0(S, mu) + 1
         off == OffDiag(mu)
         tg == Pos0(S, [lv \in 1..Len(S) |-> prob.tr[lv][mu[lv]] + 1]) + 1
         nc0 == prob.nc0  nc1 == prob.nc1
         pairs == (0..(nc1 - 1)) \X (0..(nc0 - 1))                      \* (row, col)
         dst(q) == (q[2] * nc0) + q[1]
         src(q) == (q[1] * nc0) + q[2]
     IN IF off
        THEN /\ mem' = [mem EXCEPT ![tg] = [r \in 1..prob.bsz |->
                          IF \E q \in pairs : dst(q) = r - 1
                          THEN mem[g][src(CHOOSE q \in pairs : dst(q) = r - 1) + 1] ELSE @[r]]]
             /\ wl' = [wl EXCEPT ![tg] = [r \in 1..prob.bsz |->
                          IF \E q \in pairs : dst(q) = r - 1 THEN Append(@[r], a) ELSE @[r]]]
             /\ safe' = (safe /\ (\A q \in pairs : dst(q) < prob.bsz /\ wl[g][src(q) + 1] = <<a>>)
                              /\ Cardinality({dst(q) : q \in pairs}) = Cardinality(pairs))
        ELSE UNCHANGED <<mem, wl, safe>>
  /\ pcs' = [pcs EXCEPT ![a] = <<@[1] + 1, 0>>]
  /\ UNCHANGED <<prob, hist>>
NextKern == \E a \in DOMAIN pcs : KernBody(a) \/ KernMirror(a)
KernDone == \A a \in DOMAIN pcs : pcs[a][1] > Len(prob.sched[a])

\* declarative: which blocks are computed directly, and what every location finally holds
AllMu(S) == LET nn == NNs(S) IN {[k \in 1..Len(S) |-> Unravel(t, nn)[k] + 1] : t \in 0..(Prod(nn) - 1)}
ExpectedKern ==
  LET S == prob.S  nn == NNs(S)  nc0 == prob.nc0 IN
  [g \in 1..prob.n |->
     LET mu == [k \in 1..Len(S) |-> Unravel(g - 1, nn)[k] + 1]
         I == EntryI(S, mu)  J == EntryJ(S, mu) IN
     [r \in 1..prob.bsz |->
        IF ~prob.sym \/ J <= I THEN Val(I, J, r - 1)
        ELSE Val(J, I, (((r - 1) % nc0) * nc0) + ((r - 1) \div nc0))]]     \* the transposed block of (J,I)
FullKern ==
  LET S == prob.S  nn == NNs(S) IN
  [g \in 1..prob.n |->
     LET mu == [k \in 1..Len(S) |-> Unravel(g - 1, nn)[k] + 1] IN
     [r \in 1..prob.bsz |-> Val(EntryI(S, mu), EntryJ(S, mu), r - 1)]]
NormArr(arr, nc) == [g \in DOMAIN arr |-> [r \in DOMAIN arr[g] |-> Norm(arr[g][r], nc)]]

-----------------------------------------------------------------------------
(* invariants of the two machines *)
Machine == Mode \in {"pool", "sym"}
Done == IF Mode = "pool" THEN PoolDone ELSE KernDone
\* no location is written by two different processes
Disjoint == Machine =>
  \A g \in DOMAIN wl : \A r \in DOMAIN wl[g] : \A x, y \in 1..Len(wl[g][r]) : wl[g][r][x] = wl[g][r][y]
AtMostOnce == Machine => \A g \in DOMAIN wl : \A r \in DOMAIN wl[g] : Len(wl[g][r]) <= 1
ReadOwn == Machine => safe
\* every location of the structure is written exactly once and the array is the same in every terminal state
Final == (Machine /\ Done) =>
  /\ \A g \in DOMAIN wl : \A r \in DOMAIN wl[g] : Len(wl[g][r]) = 1
  /\ mem = (IF Mode = "pool" THEN ExpectedPool ELSE ExpectedKern)
\* the symmetric result equals the full one whenever B(J,I) = B(I,J)^T
SymEqualsFull == (Mode = "sym" /\ KernDone /\ prob.sym) =>
  NormArr(mem, prob.nc0) = NormArr(FullKern, prob.nc0)
\* the `diag` tests select exactly the blocks on or below the diagonal of the raveled indices, in lexicographic order
Initial == \A a \in DOMAIN pcs : pcs[a] = <<1, 0>>
SchedOK == (Mode = "sym" /\ Initial) =>
  LET S == prob.S IN
  \A a \in DOMAIN prob.sched :
    LET want == {mu \in AllMu(S) : mu[1] = a /\ (~prob.sym \/ EntryJ(S, mu) <= EntryI(S, mu))}
        sc == prob.sched[a] IN
    /\ Range(sc) = want /\ Len(sc) = Cardinality(want)
    /\ \A x \in 1..(Len(sc) - 1) : Pos0(S, sc[x]) < Pos0(S, sc[x + 1])
\* the transposition index is an involution on a symmetric pattern
TranspOK == (Mode = "sym" /\ Initial) =>
  \A lv \in DOMAIN prob.tr : \A p \in DOMAIN prob.tr[lv] : prob.tr[lv][prob.tr[lv][p] + 1] = p - 1
EmitDone == (Machine /\ Done /\ DoEmit) =>
  Emit("DONE", [mode |-> Mode, name |-> prob.name, sym |-> prob.sym, t |-> prob.t, n |-> prob.n, bsz |-> prob.bsz,
                procs |-> Len(pcs)])

-----------------------------------------------------------------------------
(* "chunks" *)
InitChunks ==
  /\ prob \in {[len |-> l, k |-> k] : l \in 0..MaxLen, k \in 1..MaxK}
  /\ pcs = <<>> /\ mem = <<>> /\ wl = <<>> /\ safe = TRUE /\ hist = <<>>
ChunksOK == (Mode = "chunks") => IsPartition(Chunks(prob.len, prob.k), prob.len, prob.k)
(* link to the unbounded TLAPS proof (ChunksProof.tla: StepPositive, AtMostK, NonEmptyConsecutive, Covers for ALL len, k):
   the ranges of this model are exactly the chunks Lo(i)..Hi(i), i = 0, 1, ... while IsChunk(i), of that module *)
CP(l, kk) == INSTANCE ChunksProof WITH len <- l, k <- kk
ChunksAsProved ==
  (Mode = "chunks" /\ Variant # "racy") =>
     LET l == prob.len  kk == prob.k  ch == Chunks(l, kk) IN
     /\ \A c \in 1..Len(ch) : CP(l, kk)!IsChunk(c - 1) /\ ch[c] = <<CP(l, kk)!Lo(c - 1), CP(l, kk)!Hi(c - 1)>>
     /\ ~CP(l, kk)!IsChunk(Len(ch))
EmitChunks == (Mode = "chunks" /\ DoEmit) =>
  Emit("CHUNK", [len |-> prob.len, k |-> prob.k, ranges |-> Chunks(prob.len, prob.k)])

-----------------------------------------------------------------------------
(* (d) "post": the index maps of assemble_entries / assemble_entries_vec *)
PostProb(p) ==
  LET S == BaseS(p.kv) IN
  [name |-> p.name, kv |-> p.kv, nc0 |-> p.nc0, nc1 |-> p.nc1, S |-> S,
   nz |-> NonzeroAll(S), nzl |-> LowerOnly(NonzeroAll(S))]
InitPost ==
  /\ prob \in {PostProb(p) : p \in PostBase}
  /\ pcs = <<>> /\ mem = <<>> /\ wl = <<>> /\ safe = TRUE /\ hist = <<>>
Post == Mode = "post"
PVec == prob.nc0 > 0
PSq == prob.nc0 = prob.nc1
PBsz == IF PVec THEN prob.nc0 * prob.nc1 ELSE 1
PNc == IF PVec THEN prob.nc0 ELSE 1
\* the structure of a stiffness matrix over one space is symmetric
StructSymOK == Post => PosOf(Range(prob.nz)) = {<<e[2], e[1]>> : e \in Range(prob.nz)}
                       /\ Cardinality(Range(prob.nz)) = Len(prob.nz)

\* assemble.py 743-755: entries on IJ = nonzero(lower_tri=symmetric), A = coo(entries, IJ); if symmetric:
\* A += coo(entries[off_diag], (J[off_diag], I[off_diag]))
ScalarDen(sym) ==
  LET ij == IF sym THEN prob.nzl ELSE prob.nz
      e == [g \in 1..Len(ij) |-> Val(ij[g][1], ij[g][2], 0)]                           \* multi_entries
      A == {<<ij[g][1], ij[g][2], e[g]>> : g \in 1..Len(ij)}
      offd == {g \in 1..Len(ij) : ij[g][1] # ij[g][2]}
      U == IF sym THEN {<<ij[g][2], ij[g][1], e[g]>> : g \in offd} ELSE {}
  IN [A |-> A, U |-> U, n |-> Len(ij)]
PostEntriesOK == (Post /\ ~PVec) =>
  LET full == {<<e[1], e[2], Norm(Val(e[1], e[2], 0), 1)>> : e \in Range(prob.nz)}
      r0 == ScalarDen(FALSE) IN
  /\ {<<e[1], e[2], Norm(e[3], 1)>> : e \in r0.A} = full
  /\ LET r1 == ScalarDen(TRUE) IN
       /\ Cardinality(PosOf(r1.A)) = r1.n                      \* COO without duplicates: nothing is summed
       /\ PosOf(r1.A) \cap PosOf(r1.U) = {}                    \* `A += A_upper` never adds to a stored entry
       /\ PosOf(r1.A) \cup PosOf(r1.U) = PosOf(full)           \* every position of the structure, exactly once
       /\ {<<e[1], e[2], Norm(e[3], 1)>> : e \in r1.A \cup r1.U} = full

\* _coo_to_csr_indices: X = coo(arange(N), IJ).tocsr() -> (indices, indptr, data = permutation), stable by row
CsrPerm(IJ) == SortSeq(Idx(Len(IJ)), LAMBDA x, y : IJ[x][1] < IJ[y][1] \/ (IJ[x][1] = IJ[y][1] /\ x < y))
IndPtr(IJ, m) == [r \in 1..(m + 1) |-> Cardinality({g \in 1..Len(IJ) : IJ[g][1] < r - 1})]
\* the dense matrix denoted by bsr_matrix((blocks[perm], indices, indptr), blocksize = (R, C)); block = [row][col]
BsrDen(blocks, IJ, R, C) ==
  LET perm == CsrPerm(IJ)  M == MM(prob.S)  ptr == IndPtr(IJ, M) IN
  UNION {UNION {{<<(br * R) + r, (IJ[perm[t]][2] * C) + c, blocks[perm[t]][r + 1][c + 1]>> :
                    r \in 0..(R - 1), c \in 0..(C - 1)} : t \in (ptr[br + 1] + 1)..ptr[br + 2]} : br \in 0..(M - 1)}
\* shape of the blocks returned by multi_blocks and how the flat kernel output k = row*nc0 + col is viewed through it
BlockRows == IF Variant = "legacy" THEN prob.nc0 ELSE prob.nc1
BlockCols == IF Variant = "legacy" THEN prob.nc1 ELSE prob.nc0
BlockOf(I, J) == [r \in 1..BlockRows |-> [c \in 1..BlockCols |-> Val(I, J, ((r - 1) * BlockCols) + (c - 1))]]
BsrShapeOK == (Post /\ PVec) => <<BlockRows, BlockCols>> = <<prob.nc1, prob.nc0>>        \* blocksize = nc
PackedFull(sym) ==      \* the operator in packed layout: entry (I*nc1 + row, J*nc0 + col) = B(I,J)[row][col]
  UNION {{<<(e[1] * prob.nc1) + row, (e[2] * prob.nc0) + col,
            IF sym THEN Norm(Val(e[1], e[2], (row * prob.nc0) + col), prob.nc0) ELSE Val(e[1], e[2], (row * prob.nc0) + col)>> :
             row \in 0..(prob.nc1 - 1), col \in 0..(prob.nc0 - 1)} : e \in Range(prob.nz)}
PostBsrOK == (Post /\ PVec /\ <<BlockRows, BlockCols>> = <<prob.nc1, prob.nc0>>) =>
  LET R == prob.nc1  C == prob.nc0
      ij0 == prob.nz
      b0 == [g \in 1..Len(ij0) |-> BlockOf(ij0[g][1], ij0[g][2])]
      perm0 == CsrPerm(ij0)
  IN /\ Range(perm0) = 1..Len(ij0)                                                    \* bijection
     /\ \A t \in 1..(Len(perm0) - 1) : ij0[perm0[t]][1] <= ij0[perm0[t + 1]][1]       \* rows grouped
     /\ BsrDen(b0, ij0, R, C) = PackedFull(FALSE)
     /\ PSq =>
          LET ij1 == prob.nzl
              b1 == [g \in 1..Len(ij1) |-> BlockOf(ij1[g][1], ij1[g][2])]
              offd == SelectSeq(Idx(Len(ij1)), LAMBDA g : ij1[g][1] # ij1[g][2])
              ijT == [x \in 1..Len(offd) |-> <<ij1[offd[x]][2], ij1[offd[x]][1]>>]
              bT == [x \in 1..Len(offd) |-> [r \in 1..C |-> [c \in 1..R |-> b1[offd[x]][c][r]]]]   \* swapaxes(-1,-2)
              lowD == BsrDen(b1, ij1, R, C)
              upD == BsrDen(bT, ijT, R, C)
          IN /\ PosOf(lowD) \cap PosOf(upD) = {}
             /\ {<<e[1], e[2], Norm(e[3], C)>> : e \in lowD \cup upD} = PackedFull(TRUE)

\* general path: X = S_base.join(dense(nc)) with data from the kernel; layout = 'blocked': X.reorder((dim, 0..dim-1))
FullS == prob.S \o <<DenseLevel(prob.nc1, prob.nc0)>>
KernData == LET nz == prob.nz IN
  Force([t \in 1..(Len(nz) * PBsz) |-> Val(nz[((t - 1) \div PBsz) + 1][1], nz[((t - 1) \div PBsz) + 1][2], (t - 1) % PBsz)])
BlockedAx == LET D == Len(prob.S) IN [j \in 1..(D + 1) |-> IF j = 1 THEN D + 1 ELSE j - 1]
\* packed index -> blocked index (rows: nc1 test components; columns: nc0 trial components)
PRow(I) == ((I % prob.nc1) * MM(prob.S)) + (I \div prob.nc1)
PCol(J) == ((J % prob.nc0) * NC(prob.S)) + (J \div prob.nc0)
LayoutOK == (Post /\ PVec) =>
  LET Sf == FullS  dat == KernData  ax == BlockedAx
      packed == Den(Sf, dat)
      blocked == Den(ReorderS(Sf, ax), ReorderData(Sf, dat, ax))
      M == MM(Sf)  N == NC(Sf)
  IN /\ packed = PackedFull(FALSE)
     /\ blocked = {<<PRow(e[1]), PCol(e[2]), e[3]>> : e \in packed}
     /\ {PRow(I) : I \in 0..(M - 1)} = 0..(M - 1)                                       \* bijections
     /\ {PCol(J) : J \in 0..(N - 1)} = 0..(N - 1)
     \* blocked = k1 x k2 block matrix: block (row comp, col comp) holds the scalar operator of that component pair
     /\ \A e \in packed : PRow(e[1]) \div MM(prob.S) = e[3][3] \div prob.nc0
                          /\ PCol(e[2]) \div NC(prob.S) = e[3][3] % prob.nc0

\* subsets replayed by the harness
Variant3(s, v) == IF Len(s) < 2 \/ v = 0 THEN s ELSE IF v = 1 THEN Reverse(s) ELSE Tail(s) \o <<Head(s)>>
AscSeq(Tset) == SetToSortSeq(Tset, <)
RowSets ==
  LET M == MM(prob.S) IN
  {<<0>>, <<M - 1, 0>>, [t \in 1..M |-> M - t]}
  \cup {Variant3(AscSeq({r \in 0..(M - 1) : (((r * ((2 * a) + 1)) + a) % 7) < 3}), a) : a \in 0..2}
\* functions of axis k whose support lies inside the cells [lo, hi)
FunsIn(id, lo, hi) == {i \in 0..(NumDofs(id) - 1) : lo <= MeshSupp(id, i)[1] /\ MeshSupp(id, i)[2] <= hi}
BBoxes ==
  LET D == Len(prob.kv)
      nc == [k \in 1..D |-> NumCells(KVId(prob.kv[k]))] IN
  {[k \in 1..D |-> <<0, nc[k]>>],
   [k \in 1..D |-> <<0, Max2(1, nc[k] - 1)>>],
   [k \in 1..D |-> <<Min2(1, nc[k] - 1), nc[k]>>],
   [k \in 1..D |-> IF k = 1 THEN <<0, nc[k]>> ELSE <<Min2(1, nc[k] - 1), Max2(Min2(1, nc[k] - 1) + 1, nc[k] - 1)>>]}
BBoxRows(bb) ==
  LET D == Len(prob.kv)
      sets == [k \in 1..D |-> FunsIn(KVId(prob.kv[k]), bb[k][1], bb[k][2])]
      all == 0..(MM(prob.S) - 1) IN
  AscSeq({r \in all : \A k \in 1..D : Unravel(r, Ms(prob.S))[k] \in sets[k]})
RowIJ(R) == FoldLeft(LAMBDA acc, t : acc \o [x \in 1..Len(ForRow(prob.S, R[t])) |-> <<R[t], ForRow(prob.S, R[t])[x]>>],
                     <<>>, Idx(Len(R)))
RowsOK == Post =>
  \A r \in 0..(MM(prob.S) - 1) : LET f == ForRow(prob.S, r) IN
     Range(f) = {e[2] : e \in {q \in Range(prob.nz) : q[1] = r}} /\ Cardinality(Range(f)) = Len(f)
IdxSubsets ==
  LET nz == prob.nz  n == Len(nz)  M == MM(prob.S)
      pick(a, b) == SelectSeq(nz, LAMBDA e : (((e[1] * a) + (e[2] * b)) % 5) < 2)
      outside == SelectSeq(<<<<0, M - 1>>, <<M - 1, 0>>, <<M \div 2, 0>>>>, LAMBDA q : q \notin Range(nz))
  IN {Reverse(nz), pick(3, 1) \o outside, <<nz[1], nz[n], nz[1]>> \o outside, pick(1, 2)}
Configs ==
  LET syms == IF (PVec /\ ~PSq) THEN {FALSE} ELSE BOOLEAN IN
  {[sym |-> s, fmt |-> f, lay |-> l] : s \in syms, f \in {"csr", "csc", "coo", "bsr", "mlb"},
                                       l \in (IF PVec THEN {"blocked", "packed"} ELSE {"blocked"})}
EmitProb == (Post /\ DoEmit) =>
  LET D == Len(prob.kv)  n == Len(prob.nz) IN
  Emit("PROB",
    [d |-> D, codes |-> prob.kv,
     kvs |-> [k \in 1..D |-> [p |-> KVId(prob.kv[k])[1], knots |-> Knots(KVId(prob.kv[k])),
                              n |-> NumDofs(KVId(prob.kv[k]))]],
     nc0 |-> prob.nc0, nc1 |-> prob.nc1, vec |-> PVec,
     M |-> MM(prob.S), N |-> NC(prob.S),
     nz |-> prob.nz, nzl |-> prob.nzl,
     prow |-> IF PVec THEN [I \in 1..(MM(prob.S) * prob.nc1) |-> PRow(I - 1)] ELSE <<>>,
     pcol |-> IF PVec THEN [J \in 1..(NC(prob.S) * prob.nc0) |-> PCol(J - 1)] ELSE <<>>,
     cfgs |-> SetToSeq(Configs),
     threads |-> [t \in 1..16 |-> t],
     chunks |-> [t \in 1..16 |-> Chunks(n, t)],
     rowsets |-> SetToSeq({[R |-> R, ij |-> RowIJ(R)] : R \in RowSets}),
     bboxes |-> SetToSeq({[bb |-> bb, rows |-> BBoxRows(bb), ij |-> RowIJ(BBoxRows(bb))] : bb \in BBoxes}),
     subsets |-> SetToSeq(IdxSubsets)])

-----------------------------------------------------------------------------
(* "upd": an Assembler with one updatable field f and one parameter c; values are small integers (0 = the value
   given at construction).  update(f=x) replaces the field, update_params(c=y) the constant, assemble() neither. *)
UpdVals == 1..2
MaxOps == IF Suite = "quick" THEN 3 ELSE 4
InitUpd ==
  /\ prob = [f |-> 0, c |-> 0]
  /\ pcs = <<>> /\ mem = <<>> /\ wl = <<>> /\ safe = TRUE /\ hist = <<>>
UpdF(x) == /\ Len(hist) < MaxOps - 1
           /\ prob' = [prob EXCEPT !.f = x] /\ hist' = Append(hist, [op |-> "f", v |-> x, f |-> x, c |-> prob.c])
           /\ UNCHANGED <<pcs, mem, wl, safe>>
UpdC(y) == /\ Len(hist) < MaxOps - 1
           /\ prob' = [prob EXCEPT !.c = y] /\ hist' = Append(hist, [op |-> "c", v |-> y, f |-> prob.f, c |-> y])
           /\ UNCHANGED <<pcs, mem, wl, safe>>
Asm == /\ Len(hist) < MaxOps
       /\ hist' = Append(hist, [op |-> "asm", v |-> 0, f |-> prob.f, c |-> prob.c])
       /\ UNCHANGED <<prob, pcs, mem, wl, safe>>
NextUpd == (\E x \in UpdVals : UpdF(x) \/ UpdC(x)) \/ Asm
\* the operator assembled at an "asm" step is the one of a fresh assembler with the last values written
LastOf(h, name, t) ==
  LET w == {s \in 1..t : h[s].op = name} IN IF w = {} THEN 0 ELSE h[CHOOSE s \in w : \A s2 \in w : s2 <= s].v
UpdOK == (Mode = "upd") =>
  \A t \in 1..Len(hist) : hist[t].f = LastOf(hist, "f", t) /\ hist[t].c = LastOf(hist, "c", t)
EmitUpd == (Mode = "upd" /\ DoEmit /\ Len(hist) > 0 /\ hist[Len(hist)].op = "asm") => Emit("HIST", hist)

-----------------------------------------------------------------------------
Init == CASE Mode = "chunks" -> InitChunks [] Mode = "pool" -> InitPool [] Mode = "sym" -> InitKern
          [] Mode = "post" -> InitPost [] OTHER -> InitUpd
Next == \/ Mode = "pool" /\ NextPool
        \/ Mode = "sym" /\ NextKern
        \/ Mode = "upd" /\ NextUpd
Spec == Init /\ [][Next]_vars
=============================================================================
