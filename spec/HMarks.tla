------------------------------- MODULE HMarks -------------------------------
(* C11 (smoothing sets / local multigrid) -- a deliberately tiny generator of refinement histories.

   This is NOT the specification of HSpace (that is spec/HSpace.tla, property C04).  It only enumerates valid
   1-D mark sequences for the harness: a dyadic hierarchical mesh over N0 level-0 cells, state = the set of
   active cells per level; one step marks a non-empty set of ACTIVE cells of one level (an interval, as an
   adaptive loop would) and replaces them by their two children.  One history per distinct mesh is emitted
   (tag "HIST"); drivers/c11.py builds real pyiga HSpace objects from them (1-D, and 2-D by tensorising two
   histories) and evaluates the smoothing-set / fixed-point / energy predicates NUMERICALLY on those spaces
   ("numeric predicate on spec-generated cases").                                                        *)
EXTENDS Integers, Sequences, SequencesExt, FiniteSets, TLC, Emit

CONSTANTS N0,        \* cells on level 0
          MaxLevel,  \* finest level that may receive cells
          MaxSteps,  \* refine calls per history
          DoEmit

VARIABLES active,    \* level -> set of active cells (function on 0..MaxLevel)
          hist       \* sequence of [lv |-> l, cells |-> sorted sequence of marked cells]
vars == <<active, hist>>
View == <<active, Len(hist)>>     \* the step bound depends on the history length

Intervals(S) == {T \in SUBSET S : T # {} /\ \A a \in T, b \in T : \A c \in S : (a < c /\ c < b) => c \in T}

SortedSeq(T) == SetToSortSeq(T, <)

Init == /\ active = [l \in 0..MaxLevel |-> IF l = 0 THEN 0..(N0 - 1) ELSE {}]
        /\ hist = <<>>

Refine(l, T) ==
  /\ Len(hist) < MaxSteps /\ l < MaxLevel
  /\ active' = [active EXCEPT ![l] = @ \ T, ![l + 1] = @ \cup {2 * c : c \in T} \cup {2 * c + 1 : c \in T}]
  /\ hist' = Append(hist, [lv |-> l, cells |-> SortedSeq(T)])

Next == \E l \in 0..(MaxLevel - 1) : \E T \in Intervals(active[l]) : Refine(l, T)
Spec == Init /\ [][Next]_vars

\* the meshes are partitions of the domain: every level-MaxLevel position is covered by exactly one active cell
RECURSIVE Pow2(_)
Pow2(k) == IF k = 0 THEN 1 ELSE 2 * Pow2(k - 1)
Covers(l, c, p) == p \div Pow2(MaxLevel - l) = c
Partition ==
  \A p \in 0..(N0 * Pow2(MaxLevel) - 1) :
     Cardinality({lc \in UNION {{<<l, c>> : c \in active[l]} : l \in 0..MaxLevel} : Covers(lc[1], lc[2], p)}) = 1

EmitHist == (DoEmit /\ Len(hist) > 0) => Emit("HIST", hist)
=============================================================================
