------------------------------- MODULE TLAPS --------------------------------

(* Backend pragmas. *)


(***************************************************************************)
(* Each of these pragmas can be cited with a BY or a USE.  The pragma that *)
(* is added to the context of an obligation most recently is the one whose *)
(* effects are triggered.                                                  *)
(***************************************************************************)

(***************************************************************************)
(* The following pragmas should be used only as a last resource.  They are *)
(* dependent upon the particular backend provers, and are unlikely to have *)
(* any effect if the set of backend provers changes.  Moreover, they are   *)
(* meaningless to a reader of the proof.                                   *)
(***************************************************************************)


(**************************************************************************)
(* Backend pragma: use the SMT solver for arithmetic.                     *)
(*                                                                        *)
(* This method exists under this name for historical reasons.             *)
(**************************************************************************)

SimpleArithmetic == TRUE (*{ by (prover:"smt3") }*)


(**************************************************************************)
(* Backend pragma: SMT solver                                             *)
(*                                                                        *)
(* This method translates the proof obligation to SMTLIB2. The supported  *)
(* fragment includes first-order logic, set theory, functions and         *)
(* records.                                                               *)
(* SMT calls the smt-solver with the default timeout of 5 seconds         *)
(* while SMTT(n) calls the smt-solver with a timeout of n seconds.        *)
(*                                                                        *)
(* SMTT also accepts a string argument of the form "rN" to bound the      *)
(* underlying Z3 solver by a deterministic `rlimit` budget instead of a    *)
(* wall-clock timeout, e.g. SMTT("r5"). N is a multiple of a fixed base    *)
(* resource count, so a small readable budget like "r5" is meaningful.     *)
(* Unlike a wall-clock timeout, an `rlimit` budget does not depend on CPU  *)
(* speed or load, so the proof's pass/fail outcome reproduces on any       *)
(* machine and every rerun (for a fixed Z3 build); how long it takes to    *)
(* consume the budget still varies by machine. This is Z3-specific.        *)
(**************************************************************************)

SMT == TRUE (*{ by (prover:"smt3") }*)
SMTT(X) == TRUE (*{ by (prover:"smt3"; timeout:@) }*)


(**************************************************************************)
(* Backend pragma: CVC4 SMT solver                                        *)
(*                                                                        *)
(* These methods translate the proof obligation to SMTLIB2 and call CVC4. *)
(**************************************************************************)

(* The CVC3* methods are here for backward compatibility. They call CVC4. *)
CVC3 == TRUE (*{ by (prover: "cvc33") }*)
CVC3T(X) == TRUE (*{ by (prover:"cvc33"; timeout:@) }*)

CVC4 == TRUE (*{ by (prover: "cvc33") }*)
CVC4T(X) == TRUE (*{ by (prover:"cvc33"; timeout:@) }*)


(**************************************************************************)
(* Backend pragma: Yices SMT solver                                       *)
(*                                                                        *)
(* This method translates the proof obligation to Yices native language.  *)
(**************************************************************************)

Yices == TRUE (*{ by (prover: "yices3") }*)
YicesT(X) == TRUE (*{ by (prover:"yices3"; timeout:@) }*)

(**************************************************************************)
(* Backend pragma: veriT SMT solver                                       *)
(*                                                                        *)
(* This method translates the proof obligation to SMTLIB2 and calls veriT.*)
(**************************************************************************)

veriT == TRUE (*{ by (prover: "verit") }*)
veriTT(X) == TRUE (*{ by (prover:"verit"; timeout:@) }*)

(**************************************************************************)
(* Backend pragma: Zipperposition solver                                  *)
(*                                                                        *)
(* This method translates the proof obligation to TPTP and                *)
(* calls Zipperposition.                                                  *)
(**************************************************************************)

Zipper == TRUE (*{ by (prover: "zipper") }*)
ZipperT(X) == TRUE (*{ by (prover:"zipper"; timeout:@) }*)

(**************************************************************************)
(* Backend pragma: Z3 SMT solver                                          *)
(*                                                                        *)
(* This method translates the proof obligation to SMTLIB2 and calls Z3.   *)
(* Z3 is used by default but you can also explicitly call it.             *)
(* Z3T(n) bounds Z3 by a wall-clock timeout of n seconds, while Z3T("rN")  *)
(* bounds it by a deterministic `rlimit` budget of N base units, which      *)
(* reproduces the same outcome on any machine (see SMTT).                   *)
(**************************************************************************)

Z3 == TRUE (*{ by (prover: "z33") }*)
Z3T(X) == TRUE (*{ by (prover:"z33"; timeout:@) }*)

(**************************************************************************)
(* Backend pragma: SPASS superposition prover                             *)
(*                                                                        *)
(* This method translates the proof obligation to the DFG format language *)
(* supported by the ATP SPASS. The translation is based on the SMT one.   *)
(**************************************************************************)

Spass == TRUE (*{ by (prover: "spass") }*)
SpassT(X) == TRUE (*{ by (prover:"spass"; timeout:@) }*)

(**************************************************************************)
(* Backend pragma: The PTL propositional linear time temporal logic       *)
(* prover.  It currently is the LS4 backend.                              *)
(*                                                                        *)
(* This method translates the negetation of the proof obligation to       *)
(* Seperated Normal Form (TRP++ format) and checks for unsatisfiability   *)
(**************************************************************************)

LS4 == TRUE (*{ by (prover: "ls4") }*)
LS4T(X) == TRUE (*{ by (prover: "ls4"; timeout:@) }*)
PTL == TRUE (*{ by (prover: "ls4") }*)

(**************************************************************************)
(* Backend pragma: Zenon with different timeouts (default is 10 seconds)  *)
(*                                                                        *)
(**************************************************************************)

Zenon == TRUE (*{ by (prover:"zenon") }*)
ZenonT(X) == TRUE (*{ by (prover:"zenon"; timeout:@) }*)

(********************************************************************)
(* Backend pragma: Isabelle with different timeouts and tactics     *)
(*  (default is 30 seconds/auto)                                    *)
(********************************************************************)

Isa == TRUE (*{ by (prover:"isabelle") }*)
IsaT(X) ==  TRUE (*{ by (prover:"isabelle"; timeout:@) }*)
IsaM(X) ==  TRUE (*{ by (prover:"isabelle"; tactic:@) }*)
IsaMT(X,Y) ==  TRUE (*{ by (prover:"isabelle"; tactic:@; timeout:@) }*)

(***************************************************************************)
(* The following theorem expresses the (useful implication of the) law of  *)
(* set extensionality, which can be written as                             *)
(*                                                                         *)
(*    THEOREM  \A S, T : (S = T) <=> (\A x : (x \in S) <=> (x \in T))      *)
(*                                                                         *)
(* Theorem SetExtensionality is sometimes required by the SMT backend for  *)
(* reasoning about sets. It is usually counterproductive to include        *)
(* theorem SetExtensionality in a BY clause for the Zenon or Isabelle      *)
(* backends. Instead, use the pragma IsaWithSetExtensionality to instruct  *)
(* the Isabelle backend to use the rule of set extensionality.             *)
(***************************************************************************)
IsaWithSetExtensionality == TRUE
           (*{ by (prover:"isabelle"; tactic:"(auto intro: setEqualI)")}*)

THEOREM SetExtensionality == \A S,T : (\A x : x \in S <=> x \in T) => S = T
OBVIOUS

(***************************************************************************)
(* The following theorem is needed to deduce NotInSetS \notin SetS from    *)
(* the definition                                                          *)
(*                                                                         *)
(*   NotInSetS == CHOOSE v : v \notin SetS                                 *)
(***************************************************************************)
THEOREM NoSetContainsEverything == \A S : \E x : x \notin S
OBVIOUS (*{by (isabelle "(auto intro: inIrrefl)")}*)
-----------------------------------------------------------------------------



(********************************************************************)
(********************************************************************)
(********************************************************************)


(********************************************************************)
(* Old versions of Zenon and Isabelle pragmas below                 *)
(* (kept for compatibility)                                         *)
(********************************************************************)


(**************************************************************************)
(* Backend pragma: Zenon with different timeouts (default is 10 seconds)  *)
(*                                                                        *)
(**************************************************************************)

SlowZenon == TRUE (*{ by (prover:"zenon"; timeout:20) }*)
SlowerZenon == TRUE (*{ by (prover:"zenon"; timeout:40) }*)
VerySlowZenon == TRUE (*{ by (prover:"zenon"; timeout:80) }*)
SlowestZenon == TRUE (*{ by (prover:"zenon"; timeout:160) }*)



(********************************************************************)
(* Backend pragma: Isabelle's automatic search ("auto")             *)
(*                                                                  *)
(* This pragma bypasses Zenon. It is useful in situations involving *)
(* essentially simplification and equational reasoning.             *)
(* Default imeout for all isabelle tactics is 30 seconds.           *)
(********************************************************************)
Auto == TRUE (*{ by (prover:"isabelle"; tactic:"auto") }*)
SlowAuto == TRUE (*{ by (prover:"isabelle"; tactic:"auto"; timeout:120) }*)
SlowerAuto == TRUE (*{ by (prover:"isabelle"; tactic:"auto"; timeout:480) }*)
SlowestAuto == TRUE (*{ by (prover:"isabelle"; tactic:"auto"; timeout:960) }*)

(********************************************************************)
(* Backend pragma: Isabelle's "force" tactic                        *)
(*                                                                  *)
(* This pragma bypasses Zenon. It is useful in situations involving *)
(* quantifier reasoning.                                            *)
(********************************************************************)
Force == TRUE (*{ by (prover:"isabelle"; tactic:"force") }*)
SlowForce == TRUE (*{ by (prover:"isabelle"; tactic:"force"; timeout:120) }*)
SlowerForce == TRUE (*{ by (prover:"isabelle"; tactic:"force"; timeout:480) }*)
SlowestForce == TRUE (*{ by (prover:"isabelle"; tactic:"force"; timeout:960) }*)

(***********************************************************************)
(* Backend pragma: Isabelle's "simplification" tactics                 *)
(*                                                                     *)
(* These tactics simplify the goal before running one of the automated *)
(* tactics. They are often necessary for obligations involving record  *)
(* or tuple projections. Use the SimplfyAndSolve tactic unless you're  *)
(* sure you can get away with just Simplification                      *)
(***********************************************************************)
SimplifyAndSolve        == TRUE
    (*{ by (prover:"isabelle"; tactic:"clarsimp auto?") }*)
SlowSimplifyAndSolve    == TRUE
    (*{ by (prover:"isabelle"; tactic:"clarsimp auto?"; timeout:120) }*)
SlowerSimplifyAndSolve  == TRUE
    (*{ by (prover:"isabelle"; tactic:"clarsimp auto?"; timeout:480) }*)
SlowestSimplifyAndSolve == TRUE
    (*{ by (prover:"isabelle"; tactic:"clarsimp auto?"; timeout:960) }*)

Simplification == TRUE (*{ by (prover:"isabelle"; tactic:"clarsimp") }*)
SlowSimplification == TRUE
    (*{ by (prover:"isabelle"; tactic:"clarsimp"; timeout:120) }*)
SlowerSimplification  == TRUE
    (*{ by (prover:"isabelle"; tactic:"clarsimp"; timeout:480) }*)
SlowestSimplification == TRUE
    (*{ by (prover:"isabelle"; tactic:"clarsimp"; timeout:960) }*)

(**************************************************************************)
(* Backend pragma: Isabelle's tableau prover ("blast")                    *)
(*                                                                        *)
(* This pragma bypasses Zenon and uses Isabelle's built-in theorem        *)
(* prover, Blast. It is almost never better than Zenon by itself, but     *)
(* becomes very useful in combination with the Auto pragma above. The     *)
(* AutoBlast pragma first attempts Auto and then uses Blast to prove what *)
(* Auto could not prove. (There is currently no way to use Zenon on the   *)
(* results left over from Auto.)                                          *)
(**************************************************************************)
Blast == TRUE (*{ by (prover:"isabelle"; tactic:"blast") }*)
SlowBlast == TRUE (*{ by (prover:"isabelle"; tactic:"blast"; timeout:120) }*)
SlowerBlast == TRUE (*{ by (prover:"isabelle"; tactic:"blast"; timeout:480) }*)
SlowestBlast == TRUE (*{ by (prover:"isabelle"; tactic:"blast"; timeout:960) }*)

AutoBlast == TRUE (*{ by (prover:"isabelle"; tactic:"auto, blast") }*)


(**************************************************************************)
(* Backend pragmas: multi-back-ends                                       *)
(*                                                                        *)
(* These pragmas just run a bunch of back-ends one after the other in the *)
(* hope that one will succeed. This saves time and effort for the user at *)
(* the expense of computation time.                                       *)
(**************************************************************************)

(* CVC3 goes first because it's bundled with TLAPS, then the other SMT
   solvers are unlikely to succeed if CVC3 fails, so we run zenon and
   Isabelle before them. *)
AllProvers == TRUE (*{
    by (prover:"cvc33")
    by (prover:"zenon")
    by (prover:"isabelle"; tactic:"auto")
    by (prover:"spass")
    by (prover:"smt3")
    by (prover:"yices3")
    by (prover:"verit")
    by (prover:"z33")
    by (prover:"isabelle"; tactic:"force")
    by (prover:"isabelle"; tactic:"(auto intro: setEqualI)")
    by (prover:"isabelle"; tactic:"clarsimp auto?")
    by (prover:"isabelle"; tactic:"clarsimp")
    by (prover:"isabelle"; tactic:"auto, blast")
  }*)
AllProversT(X) == TRUE (*{
    by (prover:"cvc33"; timeout:@)
    by (prover:"zenon"; timeout:@)
    by (prover:"isabelle"; tactic:"auto"; timeout:@)
    by (prover:"spass"; timeout:@)
    by (prover:"smt3"; timeout:@)
    by (prover:"yices3"; timeout:@)
    by (prover:"verit"; timeout:@)
    by (prover:"z33"; timeout:@)
    by (prover:"isabelle"; tactic:"force"; timeout:@)
    by (prover:"isabelle"; tactic:"(auto intro: setEqualI)"; timeout:@)
    by (prover:"isabelle"; tactic:"clarsimp auto?"; timeout:@)
    by (prover:"isabelle"; tactic:"clarsimp"; timeout:@)
    by (prover:"isabelle"; tactic:"auto, blast"; timeout:@)
  }*)

AllSMT == TRUE (*{
    by (prover:"cvc33")
    by (prover:"smt3")
    by (prover:"yices3")
    by (prover:"verit")
    by (prover:"z33")
  }*)
AllSMTT(X) == TRUE (*{
    by (prover:"cvc33"; timeout:@)
    by (prover:"smt3"; timeout:@)
    by (prover:"yices3"; timeout:@)
    by (prover:"verit"; timeout:@)
    by (prover:"z33"; timeout:@)
  }*)

AllIsa == TRUE (*{
    by (prover:"isabelle"; tactic:"auto")
    by (prover:"isabelle"; tactic:"force")
    by (prover:"isabelle"; tactic:"(auto intro: setEqualI)")
    by (prover:"isabelle"; tactic:"clarsimp auto?")
    by (prover:"isabelle"; tactic:"clarsimp")
    by (prover:"isabelle"; tactic:"auto, blast")
  }*)
AllIsaT(X) == TRUE (*{
    by (prover:"isabelle"; tactic:"auto"; timeout:@)
    by (prover:"isabelle"; tactic:"force"; timeout:@)
    by (prover:"isabelle"; tactic:"(auto intro: setEqualI)"; timeout:@)
    by (prover:"isabelle"; tactic:"clarsimp auto?"; timeout:@)
    by (prover:"isabelle"; tactic:"clarsimp"; timeout:@)
    by (prover:"isabelle"; tactic:"auto, blast"; timeout:@)
  }*)


(**************************************************************************)
(* The pragma ExpandEnabled invokes expansion of the operator ENABLED.    *)
(*                                                                        *)
(* The pragma ExpandCdot invokes expansion of the operator \cdot.         *)
(*                                                                        *)
(* The pragma AutoUSE invokes automated expansion of definitions,         *)
(* for both of ExpandEnabled and ExpandCdot, when each is present.        *)
(*                                                                        *)
(* The pragma Lambdify invokes expansion of the operators                 *)
(* ENABLED and \cdot to an intermediate form with bound VARIABLES,        *)
(* which is a form before introducing rigid quantifiers.                  *)
(* The pragma Lambdify is sound for occurrences of ENABLED and \cdot      *)
(* that are not nested.                                                   *)
(**************************************************************************)
ExpandENABLED == TRUE  (*{ by (prover:"expandenabled") }*)
ExpandCdot == TRUE  (*{ by (prover:"expandcdot") }*)
AutoUSE == TRUE  (*{ by (prover:"autouse") }*)
Lambdify == TRUE  (*{ by (prover:"lambdify") }*)
ENABLEDaxioms == TRUE  (*{ by (prover:"enabledaxioms") }*)
LevelComparison == TRUE  (*{ by (prover:"levelcomparison") }*)

(* The operators EnabledWrapper and CdotWrapper occur in an intermediate  *)
(* representation within TLAPM.                                           *)
EnabledWrapper(Op(_)) == FALSE
CdotWrapper(Op(_)) == FALSE

(***************************************************************************)
(* The following may be used in a `BY ONLY ThmName` for unit testing the   *)
(* triviality checks in TLAPM.                                             *)
(***************************************************************************)
Trivial == TRUE  (*{ by (prover:"trivial") }*)


=============================================================================

The material below is obsolete: the TLA proof rules below are superseded by
the PTL decision procedure, and their formulation is unsound for the semantics
of temporal reasoning that TLAPS adopts.

----------------------------------------------------------------------------
(***************************************************************************)
(*                           TEMPORAL LOGIC                                *)
(*                                                                         *)
(* The following rules are intended to be used when TLAPS handles temporal *)
(* logic.  They will not work now.  Moreover when temporal reasoning is    *)
(* implemented, these rules may be changed or omitted, and additional      *)
(* rules will probably be added.  However, they are included mainly so     *)
(* their names will be defined, preventing the use of identifiers that are *)
(* likely to produce name clashes with future versions of this module.     *)
(***************************************************************************)


(***************************************************************************)
(* The following proof rules (and their names) are from the paper "The     *)
(* Temporal Logic of Actions".                                             *)
(***************************************************************************)
THEOREM RuleTLA1 == ASSUME STATE P, STATE f,
                           P /\ (f' = f) => P'
                    PROVE  []P <=> P /\ [][P => P']_f

THEOREM RuleTLA2 == ASSUME STATE P, STATE Q, STATE f, STATE g,
                           ACTION A, ACTION B,
                           P /\ [A]_f => Q /\ [B]_g
                    PROVE  []P /\ [][A]_f => []Q /\ [][B]_g

THEOREM RuleINV1 == ASSUME STATE I, STATE F,  ACTION N,
                           I /\ [N]_F => I'
                    PROVE  I /\ [][N]_F => []I

THEOREM RuleINV2 == ASSUME STATE I, STATE f, ACTION N
                    PROVE  []I => ([][N]_f <=> [][N /\ I /\ I']_f)

THEOREM RuleWF1 == ASSUME STATE P, STATE Q, STATE f, ACTION N, ACTION A,
                          P /\ [N]_f => (P' \/ Q'),
                          P /\ <<N /\ A>>_f => Q',
                          P => ENABLED <<A>>_f
                   PROVE  [][N]_f /\ WF_f(A) => (P ~> Q)

THEOREM RuleSF1 == ASSUME STATE P, STATE Q, STATE f,
                          ACTION N, ACTION A, TEMPORAL F,
                          P /\ [N]_f => (P' \/ Q'),
                          P /\ <<N /\ A>>_f => Q',
                          []P /\ [][N]_f /\ []F => <> ENABLED <<A>>_f
                   PROVE  [][N]_f /\ SF_f(A) /\ []F => (P ~> Q)

(***************************************************************************)
(* The rules WF2 and SF2 in "The Temporal Logic of Actions" are obtained   *)
(* from the following two rules by the following substitutions: `.         *)
(*                                                                         *)
(*          ___        ___         _______________                         *)
(*      M <- M ,   g <- g ,  EM <- ENABLED <<M>>_g       .'                *)
(***************************************************************************)
THEOREM RuleWF2 == ASSUME STATE P, STATE f, STATE g, STATE EM,
                          ACTION A, ACTION B, ACTION N, ACTION M,
                          TEMPORAL F,
                          <<N /\ B>>_f => <<M>>_g,
                          P /\ P' /\ <<N /\ A>>_f /\ EM => B,
                          P /\ EM => ENABLED A,
                          [][N /\ ~B]_f /\ WF_f(A) /\ []F /\ <>[]EM => <>[]P
                   PROVE  [][N]_f /\ WF_f(A) /\ []F => []<><<M>>_g \/ []<>(~EM)

THEOREM RuleSF2 == ASSUME STATE P, STATE f, STATE g, STATE EM,
                          ACTION A, ACTION B, ACTION N, ACTION M,
                          TEMPORAL F,
                          <<N /\ B>>_f => <<M>>_g,
                          P /\ P' /\ <<N /\ A>>_f /\ EM => B,
                          P /\ EM => ENABLED A,
                          [][N /\ ~B]_f /\ SF_f(A) /\ []F /\ []<>EM => <>[]P
                   PROVE  [][N]_f /\ SF_f(A) /\ []F => []<><<M>>_g \/ <>[](~EM)


(***************************************************************************)
(* The following rule is a special case of the general temporal logic      *)
(* proof rule STL4 from the paper "The Temporal Logic of Actions".  The    *)
(* general rule is for arbitrary temporal formulas F and G, but it cannot  *)
(* yet be handled by TLAPS.                                                *)
(***************************************************************************)
THEOREM RuleInvImplication ==
  ASSUME STATE F, STATE G,
         F => G
  PROVE  []F => []G
PROOF OMITTED

(***************************************************************************)
(* The following rule is a special case of rule TLA2 from the paper "The   *)
(* Temporal Logic of Actions".                                             *)
(***************************************************************************)
THEOREM RuleStepSimulation ==
  ASSUME STATE I, STATE f, STATE g,
         ACTION M, ACTION N,
         I /\ I' /\ [M]_f => [N]_g
  PROVE  []I /\ [][M]_f => [][N]_g
PROOF OMITTED

(***************************************************************************)
(* The following may be used to invoke a decision procedure for            *)
(* propositional temporal logic.                                           *)
(***************************************************************************)
PropositionalTemporalLogic == TRUE
=============================================================================
