----------------------------- MODULE DirichletMP -----------------------------
(* C10 -- Multipatch.compute_dirichlet_bcs (pyiga/assemble.py 1388-1408): boundary conditions on a
   glued multipatch space.  The patch complex, its interfaces and the equivalence closure of the dof
   identifications are those of spec/Multipatch.tla (C14), instantiated on a 2-D lattice with ALL
   interfaces joined.  A global dof is a class of the closure (ClassLabel); the numbering itself is
   C14's business, here a global dof is identified by its class.

   Boundary data number f is the continuous piecewise Bernstein polynomial with the integer control
   value FP(f, pt) at lattice point pt, so its trace on any patch face has the coefficients
   FP(f, Point(d)) of the face dofs d.

   One case = a list of conditions (patch, axis, side, f).  Expected: every class met by one of the
   faces exactly once, with a value of one of the conditions covering it.                       *)
EXTENDS Integers, Sequences, FiniteSets, SequencesExt, FiniteSetsExt, TLC, Emit

CONSTANTS MW1, MW2,   \* lattice extents (axis 0 = y, axis 1 = x)
          MNN,        \* dofs per direction and patch
          MRefl,      \* reflection bits as in Multipatch.tla
          MaxConds    \* all condition lists up to this length (plus the whole outer boundary)

VARIABLES phase, c,
          sys          \* the complex, computed once in Init (operators of an instance are not cached by TLC)
vars == <<phase, c, sys>>

MP == INSTANCE Multipatch WITH
        Kind <- "lattice", D <- 2, W1 <- MW1, W2 <- MW2, W3 <- 1, NN <- MNN, ReflSeed <- MRefl, K <- 0,
        Legacy <- FALSE, MaxJoins <- 0, MaxRep <- 0, DoEmit <- FALSE,
        spp <- <<>>, sdofs <- <<>>, cnt <- [k \in 1..64 |-> 1], fin <- FALSE, hist <- <<>>

NP == MW1 * MW2
N  == MNN * MNN
SeqRange(s) == {s[k] : k \in 1..Len(s)}
SortedSeq(S) == SetToSortSeq(S, <)

AllDofs == 0..(NP * N - 1)
Faces == (0..(NP - 1)) \X {1, 2} \X {0, 1}
SysDef == [label |-> MP!ClassLabel,           \* dof -> representative of its class (all interfaces joined)
           point |-> [d \in AllDofs |-> MP!Point(d)],
           face  |-> [fc \in Faces |-> MP!FaceSeq(fc[1], fc[2], fc[3])]]
Label == sys.label
PointOf(d) == sys.point[d]
FaceSeqOf(p, ax, side) == sys.face[<<p, ax, side>>]
FP(f, pt) == (((((5 * pt[1]) + (3 * pt[2])) + (pt[1] * pt[2]) + f) * (f + 2)) % 13) - 6
CoefOf(f, d) == FP(f, PointOf(d))

\* faces of the outer boundary: the face's lattice points lie on the border of the whole lattice
Outer(p, ax, side) ==
  LET pts == {PointOf(p * N + i) : i \in SeqRange(FaceSeqOf(p, ax, side))}
      hi  == IF ax = 1 THEN MW1 * (MNN - 1) ELSE MW2 * (MNN - 1) IN
  (\A pt \in pts : pt[ax] = 0) \/ (\A pt \in pts : pt[ax] = hi)
OuterFaces == {fc \in Faces : Outer(fc[1], fc[2], fc[3])}

Case(conds) ==
  LET lab   == Label
      cover == [q \in 1..Len(conds) |->
                  {conds[q].p * N + i : i \in SeqRange(FaceSeqOf(conds[q].p, conds[q].ax + 1, conds[q].side))}]
      labs  == SortedSeq({lab[d] : d \in UNION {cover[q] : q \in 1..Len(conds)}})
  IN [conds |-> conds,
      entries |-> [k \in 1..Len(labs) |->
         [label |-> labs[k],
          adm |-> SortedSeq({CoefOf(conds[q].f, d) : <<q, d>> \in
                     {<<q, d>> \in (1..Len(conds)) \X (0..(NP * N - 1)) : d \in cover[q] /\ lab[d] = labs[k]}})]]]

Cond(fc, f) == [p |-> fc[1], ax |-> fc[2] - 1, side |-> fc[3], f |-> f]

Init == phase = "start" /\ c = <<>> /\ sys = SysDef
Pick ==
  /\ phase = "start"
  /\ \/ \E f1 \in Faces, g1 \in {1, 2} : c' = Case(<<Cond(f1, g1)>>)
     \/ /\ MaxConds >= 2
        /\ \E f1 \in Faces, f2 \in Faces, g2 \in {1, 2} : c' = Case(<<Cond(f1, 1), Cond(f2, g2)>>)
     \/ \E g1 \in {1, 2} :       \* the whole outer boundary, one condition per outer face
          LET fs == SetToSortSeq(OuterFaces, LAMBDA x, y :
                       x[1] < y[1] \/ (x[1] = y[1] /\ (x[2] < y[2] \/ (x[2] = y[2] /\ x[3] < y[3])))) IN
          c' = Case([k \in 1..Len(fs) |-> Cond(fs[k], g1)])
  /\ phase' = "case" /\ UNCHANGED sys
  /\ Emit("MPBC", c')
Next == Pick
Spec == Init /\ [][Next]_vars

\* the property on the reference: one entry per class met, every member's data value admissible,
\* a single continuous datum gives a single value per class
MPOK == phase = "case" =>
  /\ \A k1, k2 \in 1..Len(c.entries) : k1 # k2 => c.entries[k1].label # c.entries[k2].label
  /\ \A k \in 1..Len(c.entries) : Len(c.entries[k].adm) >= 1
  /\ (\A q \in 1..Len(c.conds) : c.conds[q].f = c.conds[1].f) =>
        \A k \in 1..Len(c.entries) : Len(c.entries[k].adm) = 1

EmitSys == phase = "start" =>
  Emit("MPSYS", [W |-> <<MW1, MW2>>, NN |-> MNN, NP |-> NP, reflseed |-> MRefl,
                 refl |-> [p \in 1..NP |-> [a \in 1..2 |-> MP!Refl(p - 1, a)]],
                 label |-> [i \in 1..(NP * N) |-> Label[i - 1]],
                 point |-> [i \in 1..(NP * N) |-> PointOf(i - 1)],
                 coef |-> [f \in 1..2 |-> [i \in 1..(NP * N) |-> CoefOf(f, i - 1)]]])
=============================================================================
