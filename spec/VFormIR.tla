------------------------------- MODULE VFormIR -------------------------------
(* C06 -- rewriting passes of the form compiler preserve the value (pyiga/vform.py, VForm.finalize()).

   A batch file (IOEnv.IR_FILE) contains, per form, the expression DAG of the form as the user built it
   ("raw") and after finalize() ("fin"), both exported by harness/vf_export.py as flat SSA programs, and
   K random environments over the prime field GF(32749): Gauss weights, jets of the basis functions,
   values / gradients / packed Hessians of every input field (the geometry is the input field "geo"),
   parameters.  This module gives every node kind its MEANING, independently of the library:
     * physical derivatives by the chain rule  (J^-T grad ;  J^-T (H - sum_k dphys_k u * H_geo_k) J^-1),
     * measures  dx = prod(gw) * abs(det J),  ds = prod(gw) * sqrt(|n|^2)  with abs/sqrt and all other
       builtin functions UNINTERPRETED (distinct fixed polynomial tables): a compiler middle-end must
       not rely on any identity of sin, cos, ...; merging sin(a) with cos(a) changes the value,
     * tensor nodes (vector/matrix literals, elementwise operations, cross, outer, matrix products),
     * variables: expression-defined, input-field-sourced at derivative level 0/1/2 (symmetric
       packing of Hessians), parameters.
   Value preservation:  Run(raw, env) = Run(fin, env)  for every environment in which both are defined
   (polynomial/rational identity testing a la Schwartz-Zippel).
   Emission order: the finalized program is also replayed as a two-phase state machine
   (precompute, then kernel); DefineVar(v) is enabled only if everything v reads is already defined
   in its phase, and a precomputed variable may not read a basis function.                          *)
EXTENDS Integers, Sequences, FiniteSets, SequencesExt, TLC, Json, IOUtils, Emit

P == 32749
UNDEF == -1                                   \* division by zero in this environment: result undefined

Batch == JsonDeserialize(IOEnv.IR_FILE)       \* [progs |-> << [id, raw, fin, envs], ... >>]
Progs == Batch.progs

-----------------------------------------------------------------------------
(* the field *)
ModP(x)   == x % P
AddP(a, b) == IF a = UNDEF \/ b = UNDEF THEN UNDEF ELSE (a + b) % P
SubP(a, b) == IF a = UNDEF \/ b = UNDEF THEN UNDEF ELSE (a - b + P) % P
MulP(a, b) == IF a = UNDEF \/ b = UNDEF THEN UNDEF ELSE (a * b) % P
NegP(a)    == IF a = UNDEF THEN UNDEF ELSE (P - a) % P
RECURSIVE PowP(_, _)
PowP(a, e) == IF e = 0 THEN 1
              ELSE LET h == PowP(a, e \div 2)  s == (h * h) % P IN IF e % 2 = 1 THEN (s * a) % P ELSE s
InvP(a)    == IF a = UNDEF \/ a = 0 THEN UNDEF ELSE PowP(a, P - 2)
DivP(a, b) == MulP(a, InvP(b))
SumP(s)    == FoldLeft(AddP, 0, s)
ProdP(s)   == FoldLeft(MulP, 1, s)
RatP(n, d) == MulP(n % P, InvP(d % P))

\* uninterpreted unary functions: x |-> A x^3 + B x + C with constants depending on the name only
FnCoef(f) == CASE f = "abs"  -> <<3, 7, 11>>    [] f = "sqrt" -> <<5, 13, 17>>  [] f = "exp" -> <<7, 19, 23>>
               [] f = "log"  -> <<11, 29, 31>>  [] f = "sin"  -> <<13, 37, 41>>  [] f = "cos" -> <<17, 43, 47>>
               [] f = "tan"  -> <<19, 53, 59>>  [] OTHER      -> <<23, 61, 67>>
Fn(f, x) == IF x = UNDEF THEN UNDEF
            ELSE LET c == FnCoef(f) IN (c[1] * ((((x * x) % P) * x) % P) + c[2] * x + c[3]) % P

-----------------------------------------------------------------------------
(* small dense linear algebra over the field (n <= 3) *)
Det(A) ==
  LET n == Len(A) IN
  IF n = 1 THEN A[1][1]
  ELSE IF n = 2 THEN SubP(MulP(A[1][1], A[2][2]), MulP(A[1][2], A[2][1]))
  ELSE SubP(AddP(AddP(MulP(A[1][1], MulP(A[2][2], A[3][3])), MulP(A[1][2], MulP(A[2][3], A[3][1]))),
                 MulP(A[1][3], MulP(A[2][1], A[3][2]))),
            AddP(AddP(MulP(A[1][3], MulP(A[2][2], A[3][1])), MulP(A[1][2], MulP(A[2][1], A[3][3]))),
                 MulP(A[1][1], MulP(A[2][3], A[3][2]))))
Minor(A, i, j) ==
  LET n == Len(A)
      rows == SelectSeq([r \in 1..n |-> r], LAMBDA r : r # i)
      cols == SelectSeq([c \in 1..n |-> c], LAMBDA c : c # j)
  IN [r \in 1..(n - 1) |-> [c \in 1..(n - 1) |-> A[rows[r]][cols[c]]]]
InverseM(A) ==
  LET n == Len(A)  id == InvP(Det(A)) IN
  IF n = 1 THEN <<<<id>>>>
  ELSE [i \in 1..n |-> [j \in 1..n |->
          MulP(id, MulP(IF (i + j) % 2 = 0 THEN 1 ELSE P - 1, Det(Minor(A, j, i))))]]

\* symmetric packing of Hessians: (i,j) 0-based, i <= j after swapping  ->  0-based sequential index
SymIdx(n, i0, j0) ==
  LET i == IF i0 > j0 THEN j0 ELSE i0   j == IF i0 > j0 THEN i0 ELSE j0 IN
  FoldLeft(LAMBDA acc, k : acc + (n - k), 0, [q \in 1..i |-> q - 1]) + (j - i)
NPack(n) == (n * (n + 1)) \div 2

RavelIdx(I, shape) == FoldLeft(LAMBDA acc, a : acc * shape[a] + I[a], 0, [a \in 1..Len(shape) |-> a])
SumD(D) == FoldLeft(LAMBDA a, b : a + b, 0, D)
DIndices(D) ==    \* derivative multi-index -> ascending list of 0-based directions (with repetition)
  FoldLeft(LAMBDA acc, k : acc \o [x \in 1..D[k] |-> k - 1], <<>>, [k \in 1..Len(D) |-> k])
DKey(D) == FoldLeft(LAMBDA s, k : s \o ToString(D[k]), "", [k \in 1..Len(D) |-> k])
UnitD(n, k) == [q \in 1..n |-> IF q = k + 1 THEN 1 ELSE 0]
AddD(D1, D2) == [q \in 1..Len(D1) |-> D1[q] + D2[q]]

-----------------------------------------------------------------------------
(* meaning of the leaves, given program header `pr` and environment `env` *)
VarOf(pr, nm) == LET S == {i \in 1..Len(pr.vars) : pr.vars[i].name = nm} IN pr.vars[CHOOSE i \in S : TRUE]

Geo(env) == env.inp["geo"]
Jac(pr, env) ==           \* geo_dim x dim:  J[i][k] = d geo_i / d xi_k
  [i \in 1..pr.geo_dim |-> [k \in 1..pr.dim |-> Geo(env).g[(i - 1) * pr.dim + k]]]
GeoH(pr, env, k, a, b) == Geo(env).h[k * NPack(pr.dim) + SymIdx(pr.dim, a, b) + 1]    \* d^2 geo_k / d xi_a d xi_b (0-based)
JacInv(pr, env) == InverseM(Jac(pr, env))
GW(pr, env) == ProdP([a \in 1..pr.dim |-> env.gw[a]])

PhysGrad(pr, env, gp) ==  \* gp: parametric gradient (1..dim)  ->  physical gradient
  LET JI == JacInv(pr, env) IN
  [k \in 1..pr.dim |-> SumP([m \in 1..pr.dim |-> MulP(JI[m][k], gp[m])])]
PhysHess(pr, env, gp, hp, i, j) ==   \* (i,j) 0-based; hp[a][b] parametric Hessian (1-based)
  LET JI == JacInv(pr, env)  pg == PhysGrad(pr, env, gp)  d == pr.dim IN
  SumP([q \in 1..(d * d) |->
     LET a == ((q - 1) \div d) + 1  b == ((q - 1) % d) + 1
         corr == SumP([k \in 1..d |-> MulP(pg[k], GeoH(pr, env, k - 1, a - 1, b - 1))])
     IN MulP(MulP(JI[a][i + 1], SubP(hp[a][b], corr)), JI[b][j + 1])])

BF(env, bf, D) == env.bf[bf][DKey(D)]

EvalPD(pr, env, nd) ==
  LET D == nd.y  ord == SumD(D)  d == pr.dim IN
  IF ord = 0 \/ ~nd.p THEN BF(env, nd.s, D)
  ELSE IF pr.spacetime THEN
       \* space-time cylinder: time (last direction) derivatives stay parametric, one space derivative is physical
       LET Dt == [q \in 1..d |-> IF q = d THEN D[d] ELSE 0]
           Dx == [q \in 1..d |-> IF q = d THEN 0 ELSE D[q]] IN
       IF SumD(Dx) = 0 THEN BF(env, nd.s, D)
       ELSE IF SumD(Dx) = 1 THEN
            LET k == DIndices(Dx)[1]  JI == JacInv(pr, env) IN
            SumP([m \in 1..(d - 1) |-> MulP(JI[m][k + 1], BF(env, nd.s, AddD(UnitD(d, m - 1), Dt)))])
       ELSE UNDEF
  ELSE IF ord = 1 THEN
       PhysGrad(pr, env, [m \in 1..d |-> BF(env, nd.s, UnitD(d, m - 1))])[DIndices(D)[1] + 1]
  ELSE IF ord = 2 THEN
       LET ij == DIndices(D) IN
       PhysHess(pr, env, [m \in 1..d |-> BF(env, nd.s, UnitD(d, m - 1))],
                [a \in 1..d |-> [b \in 1..d |-> BF(env, nd.s, AddD(UnitD(d, a - 1), UnitD(d, b - 1)))]], ij[1], ij[2])
  ELSE UNDEF

Pick(val, I) == IF Len(I) = 0 THEN val ELSE IF Len(I) = 1 THEN val[I[1] + 1] ELSE val[I[1] + 1][I[2] + 1]

EvalVar(pr, env, vals, nd) ==
  LET v == VarOf(pr, nd.s)  D == nd.y  ord == SumD(D)  d == pr.dim IN
  IF v.kind = "expr" THEN Pick(vals[v.root], nd.x)
  ELSE IF v.kind = "param" THEN env.par[v.src][RavelIdx(nd.x, v.shape) + 1]
  ELSE IF v.kind = "input" THEN
       LET f == env.inp[v.src] IN
       IF v.deriv = 1 THEN f.g[RavelIdx(nd.x, v.shape) + 1]
       ELSE IF v.deriv = 2 THEN f.h[RavelIdx(nd.x, v.shape) + 1]
       ELSE LET c == RavelIdx(nd.x, v.shape)                        \* component of the field
                gp == [m \in 1..d |-> f.g[c * d + m]]
                hp == [a \in 1..d |-> [b \in 1..d |-> f.h[c * NPack(d) + SymIdx(d, a - 1, b - 1) + 1]]]
                direct == v.phys = ~nd.p                             \* derivative in the field's own coordinates
            IN IF ord = 0 THEN f.v[c + 1]
               ELSE IF v.phys /\ nd.p THEN UNDEF                     \* parametric derivative of a physical field: rejected
               ELSE IF ord = 1 THEN (IF direct THEN gp[DIndices(D)[1] + 1] ELSE PhysGrad(pr, env, gp)[DIndices(D)[1] + 1])
               ELSE IF ord = 2 THEN (IF direct THEN hp[DIndices(D)[1] + 1][DIndices(D)[2] + 1]
                                     ELSE PhysHess(pr, env, gp, hp, DIndices(D)[1], DIndices(D)[2]))
               ELSE UNDEF
  ELSE UNDEF

BJac(pr, env) ==          \* (k+1) x k Jacobian of the surface / boundary parametrisation
  IF pr.boundary
  THEN LET J == Jac(pr, env)  B == env.par["Jac_to_boundary"]  d == pr.dim IN
       [i \in 1..d |-> [c \in 1..(d - 1) |-> SumP([m \in 1..d |-> MulP(J[i][m], B[(m - 1) * (d - 1) + c])])]]
  ELSE Jac(pr, env)
UnscaledNormal(BJ) ==
  IF Len(BJ) = 2 THEN <<NegP(BJ[2][1]), BJ[1][1]>>
  ELSE <<SubP(MulP(BJ[2][1], BJ[3][2]), MulP(BJ[3][1], BJ[2][2])),
         SubP(MulP(BJ[3][1], BJ[1][2]), MulP(BJ[1][1], BJ[3][2])),
         SubP(MulP(BJ[1][1], BJ[2][2]), MulP(BJ[2][1], BJ[1][2]))>>

-----------------------------------------------------------------------------
(* tensor helpers: a value is an integer, a sequence of integers, or a sequence of sequences *)
\* ranks (0 scalar, 1 vector, 2 matrix) are determined by the node kind and carried alongside the values
Op2(op, a, b) == CASE op = "+" -> AddP(a, b) [] op = "-" -> SubP(a, b) [] op = "*" -> MulP(a, b) [] op = "/" -> DivP(a, b)
TOp(op, x, y, rank) ==
  IF rank = 1 THEN [i \in 1..Len(x) |-> Op2(op, x[i], y[i])]
  ELSE [i \in 1..Len(x) |-> [j \in 1..Len(x[i]) |-> Op2(op, x[i][j], y[i][j])]]
RankOf(rk, nd) ==
  CASE nd.o \in {"vec", "cross", "matvec"} -> 1
    [] nd.o \in {"mat", "outer", "matmat"} -> 2
    [] nd.o = "top" -> rk[nd.i]
    [] OTHER -> 0

EvalNode(pr, env, vals, rk, nd) ==
  CASE nd.o = "c"      -> RatP(nd.i, nd.j)
    [] nd.o = "vec"    -> [q \in 1..Len(nd.x) |-> vals[nd.x[q]]]
    [] nd.o = "mat"    -> [r \in 1..nd.i |-> [c \in 1..nd.j |-> vals[nd.x[(r - 1) * nd.j + c]]]]
    [] nd.o = "var"    -> EvalVar(pr, env, vals, nd)
    [] nd.o = "neg"    -> NegP(vals[nd.i])
    [] nd.o = "fn"     -> Fn(nd.s, vals[nd.i])
    [] nd.o = "sop"    -> Op2(nd.s, vals[nd.i], vals[nd.j])
    [] nd.o = "top"    -> TOp(nd.s, vals[nd.i], vals[nd.j], rk[nd.i])
    [] nd.o = "cross"  -> LET x == vals[nd.i]  y == vals[nd.j] IN
                          <<SubP(MulP(x[2], y[3]), MulP(x[3], y[2])), SubP(MulP(x[3], y[1]), MulP(x[1], y[3])),
                            SubP(MulP(x[1], y[2]), MulP(x[2], y[1]))>>
    [] nd.o = "outer"  -> LET x == vals[nd.i]  y == vals[nd.j] IN [r \in 1..Len(x) |-> [c \in 1..Len(y) |-> MulP(x[r], y[c])]]
    [] nd.o = "matvec" -> LET A == vals[nd.i]  x == vals[nd.j] IN
                          [r \in 1..Len(A) |-> SumP([c \in 1..Len(x) |-> MulP(A[r][c], x[c])])]
    [] nd.o = "matmat" -> LET A == vals[nd.i]  B == vals[nd.j] IN
                          [r \in 1..Len(A) |-> [c \in 1..Len(B[1]) |-> SumP([m \in 1..Len(B) |-> MulP(A[r][m], B[m][c])])]]
    [] nd.o = "pd"     -> EvalPD(pr, env, nd)
    [] nd.o = "gw"     -> env.gw[nd.i + 1]
    [] nd.o = "dx"     -> MulP(GW(pr, env), Fn("abs", Det(Jac(pr, env))))
    [] nd.o = "ds"     -> LET n == UnscaledNormal(BJac(pr, env)) IN
                          MulP(GW(pr, env), Fn("sqrt", SumP([q \in 1..Len(n) |-> MulP(n[q], n[q])])))

Flat(v, rank) == IF rank = 0 THEN <<v>> ELSE IF rank = 1 THEN v ELSE FoldLeft(LAMBDA acc, row : acc \o row, <<>>, v)

Run(pr, env) ==          \* flat sequence of all output components
  LET st == FoldLeft(LAMBDA acc, nd : [vals |-> Append(acc.vals, EvalNode(pr, env, acc.vals, acc.rk, nd)),
                                       rk   |-> Append(acc.rk, RankOf(acc.rk, nd))],
                     [vals |-> <<>>, rk |-> <<>>], pr.nodes) IN
  FoldLeft(LAMBDA acc, o : acc \o Flat(st.vals[o], st.rk[o]), <<>>, pr.outs)

Defined(fl) == \A q \in 1..Len(fl) : fl[q] # UNDEF

-----------------------------------------------------------------------------
(* emission order of the finalized program as a two-phase state machine *)
DepRec(pr, nm) == LET S == {i \in 1..Len(pr.deps) : pr.deps[i].name = nm} IN
                  IF S = {} THEN [name |-> nm, deps |-> <<>>, usesbf |-> FALSE, kind |-> "missing"]
                  ELSE pr.deps[CHOOSE i \in S : TRUE]
SeqSet(s) == {s[i] : i \in 1..Len(s)}

OrderOK(pr) ==
  LET pre == FoldLeft(LAMBDA st, nm :
                 LET r == DepRec(pr, nm)
                     enabled == r.kind # "expr" \/ (~r.usesbf /\ SeqSet(r.deps) \subseteq st.def)
                 IN [def |-> st.def \cup {nm}, ok |-> st.ok /\ enabled],
               [def |-> {}, ok |-> TRUE], pr.precomp)
      ker == FoldLeft(LAMBDA st, nm :
                 LET r == DepRec(pr, nm)
                     global == nm \in pre.def \/ r.kind = "input"
                     enabled == global \/ (r.kind = "expr" /\ SeqSet(r.deps) \subseteq st.def)
                 IN [def |-> st.def \cup {nm}, ok |-> st.ok /\ enabled],
               [def |-> {}, ok |-> TRUE], pr.kernel)
  IN [precompute |-> pre.ok, kernel |-> ker.ok, outputs |-> SeqSet(pr.outdeps) \subseteq ker.def]

-----------------------------------------------------------------------------
(* abstract denotation of a generated program (postfix tokens of VFormGen): tensor algebra on leaf values,
   1-jets (value, physical gradient) for the differentiable scalars "D".  This is the mathematical meaning
   of the form as written by the user; the raw tree the library builds from it must evaluate to the same. *)
UJet(pr, env, bf) == [m \in 1..pr.dim |-> BF(env, bf, UnitD(pr.dim, m - 1))]
UHess(pr, env, bf) == [a \in 1..pr.dim |-> [b \in 1..pr.dim |-> BF(env, bf, AddD(UnitD(pr.dim, a - 1), UnitD(pr.dim, b - 1)))]]
PGradBF(pr, env, bf) == PhysGrad(pr, env, UJet(pr, env, bf))
PHessBF(pr, env, bf) == [i \in 1..pr.dim |-> [j \in 1..pr.dim |-> PhysHess(pr, env, UJet(pr, env, bf), UHess(pr, env, bf), i - 1, j - 1)]]
FieldVec(env, nm, n) == [q \in 1..n |-> env.inp[nm].v[q]]
FieldMat(env, nm, n) == [r \in 1..n |-> [c \in 1..n |-> env.inp[nm].v[(r - 1) * n + c]]]
FieldGrad(pr, env, nm, comp) == [m \in 1..pr.dim |-> env.inp[nm].g[comp * pr.dim + m]]
ZeroVec(n) == [q \in 1..n |-> 0]

Leaf(pr, env, t, vn) ==      \* vn: library name of the test function ("v"; "u" for linear forms)
  LET d == pr.dim IN
  CASE t = "u" -> BF(env, "u", ZeroVec(d))  [] t = "v" -> BF(env, vn, ZeroVec(d))
    [] t = "ux" -> PGradBF(pr, env, "u")[1]  [] t = "uy" -> PGradBF(pr, env, "u")[2]
    [] t = "vx" -> PGradBF(pr, env, vn)[1]  [] t = "vy" -> PGradBF(pr, env, vn)[2]
    [] t = "uxp" -> BF(env, "u", UnitD(d, 0))  [] t = "vyp" -> BF(env, vn, UnitD(d, 1))
    [] t = "uxx" -> PHessBF(pr, env, "u")[1][1]  [] t = "uxy" -> PHessBF(pr, env, "u")[1][2]
    [] t = "c" -> env.par["c"][1]  [] t = "two" -> 2  [] t = "three" -> 3  [] t = "half" -> RatP(1, 2)
    [] t = "tiny" -> RatP(1, 134217728)  [] t = "near1" -> RatP(262145, 262144)
    [] t = "hpar" -> env.inp["h"].v[1]  [] t = "hx" -> PhysGrad(pr, env, FieldGrad(pr, env, "h", 0))[1]
    [] t = "gw" -> GW(pr, env)
    [] t = "f"  -> [v |-> env.inp["f"].v[1],  g |-> FieldGrad(pr, env, "f", 0)]
    [] t = "f2" -> [v |-> env.inp["f2"].v[1], g |-> FieldGrad(pr, env, "f2", 0)]
    [] t = "cD" -> [v |-> env.par["c"][1], g |-> ZeroVec(d)]  [] t = "twoD" -> [v |-> 2, g |-> ZeroVec(d)]
    [] t = "gu" -> PGradBF(pr, env, "u")  [] t = "gv" -> PGradBF(pr, env, vn)
    [] t = "gup" -> UJet(pr, env, "u")    [] t = "gh" -> PhysGrad(pr, env, FieldGrad(pr, env, "h", 0))
    [] t = "g" -> FieldVec(env, "g", d)   [] t = "x" -> FieldVec(env, "geo", d)
    [] t = "Hu" -> PHessBF(pr, env, "u")  [] t = "Hv" -> PHessBF(pr, env, vn)
    [] t = "A" -> FieldMat(env, "A", d)   [] t = "J" -> Jac(pr, env)
    [] t = "B" -> [r \in 1..(d + 1) |-> [c \in 1..d |-> env.inp["B"].v[(r - 1) * d + c]]]
    [] t = "Gg" -> [i \in 1..d |-> FieldGrad(pr, env, "g", i - 1)]
    [] t = "Ainv" -> InverseM(FieldMat(env, "A", d))  [] t = "Jinv" -> JacInv(pr, env)

AB == INSTANCE VFormAbs WITH FAdd <- AddP, FSub <- SubP, FMul <- MulP, FDiv <- DivP, FNeg <- NegP, FFn <- Fn,
                            FZero <- 0, FOne <- 1, FTwo <- 2

AbsRun(tokens, pr, env, vn) ==      \* value of  (expression) * dx
  LET lv == [t \in AB!LeafTokens |-> Leaf(pr, env, t, vn)] IN
  <<MulP(AB!AbsEval(tokens, lv), MulP(GW(pr, env), Fn("abs", Det(Jac(pr, env)))))>>

-----------------------------------------------------------------------------
VARIABLE k
Init == k \in 1..Len(Progs)
Next == UNCHANGED k
Spec == Init /\ [][Next]_k

Verdict ==
  LET pg == Progs[k]
      res == [e \in 1..Len(pg.envs) |->
                LET r == Run(pg.raw, pg.envs[e])  f == Run(pg.fin, pg.envs[e]) IN
                [defined |-> Defined(r) /\ Defined(f), equal |-> r = f, raw |-> r, fin |-> f,
                 \* the denotation the raw tree is compared with: a generated token program, or a second raw program
                 \* built differently through the API that must mean the same (e.g. a `let` variable inlined), or none
                 abs |-> IF Len(pg.abs) > 0 THEN AbsRun(pg.abs, pg.raw, pg.envs[e], pg.vname)
                         ELSE IF Len(pg.alt.nodes) > 0 THEN Run(pg.alt, pg.envs[e]) ELSE r]]
      ord == OrderOK(pg.fin)
  IN Emit("IR", [id |-> pg.id,
                 envs |-> [e \in 1..Len(res) |-> [defined |-> res[e].defined /\ Defined(res[e].abs), equal |-> res[e].equal,
                                                   absequal |-> res[e].abs = res[e].raw,
                                                   abs |-> IF res[e].abs = res[e].raw THEN <<>> ELSE res[e].abs,
                                                   raw |-> IF res[e].equal /\ res[e].abs = res[e].raw THEN <<>> ELSE res[e].raw,
                                                   fin |-> IF res[e].equal THEN <<>> ELSE res[e].fin]],
                 order |-> ord])
=============================================================================
