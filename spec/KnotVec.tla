------------------------------- MODULE KnotVec -------------------------------
(* C19 -- knot vectors (pyiga/bspline.py: make_knots, class KnotVector; bspline_cy.pyx: pyx_findspan;
   spline.py: Spline.derivative).

   Declarative side.  A knot vector is a record [p, t]: degree p and a non-decreasing sequence t of knots.
   In the SMALL families the knots are integers scaled by SC = 4 (real knot = t / 4), so quarter points are
   representable and everything stays exact; rational results (Greville points, derivative coefficients,
   breakpoints of make_knots) are Rat pairs.
     MakeKnots contract  multiplicity profile <<p+1, mult, .., mult, p+1>> over the n+1 breakpoints
                         a + i (b-a)/n, run-length encoded <<[p+1,1],[mult,n-1],[p+1,1]>>;
                         numdofs = p + 1 + mult (n-1); span of breakpoint i has knot index p + i mult
     SpanDecl(k, u)      the unique non-empty span containing u (the last one at the right end)
     Mesh, K2M, Support, MeshSupportIdx, MeshSpanIndices, FirstActive, Greville, Refine, Eq, Derivative

   Code-shaped side.  The cursor loop of pyx_findspan (lines 13-27) is transcribed in PlusCal
   (labels Start/Loop/Ret); TLC checks on every reachable state the loop invariant and at the end
   res = SpanDecl.

   The algorithm below is at the same time the case generator: constant Family selects what a behaviour
   is (one findspan call, one knot vector with all its queries, one refine call, one comparison, one
   derivative, one make_knots call); the finished case sits in `out` and is emitted by EmitOut.     *)
EXTENDS Integers, Sequences, FiniteSets, SequencesExt, FiniteSetsExt, TLC, Rat, Emit

CONSTANTS Family,   \* "findspan" | "queries" | "refine" | "eq" | "deriv" | "mksmall" | "sweep"
          MaxP,     \* small families: degrees 0..MaxP;  sweep: degrees 0..MaxP
          MaxB,     \* small families: breakpoints are subsets of 0..MaxB
          Ns,       \* sweep: the span counts
          IvSet,    \* sweep: indices into the list Intervals
          BuggyCmp  \* negative control: the comparison of the loop as >= instead of >

SC == 4   \* scale of the integer knots in the small families

-----------------------------------------------------------------------------
SeqRange(s) == {s[i] : i \in 1..Len(s)}
SortedSeq(S) == SetToSortSeq(S, <)
Force(s) == SubSeq(s, 1, Len(s))          \* make a closure [i \in 1..n |-> e] an explicit tuple
Rep(v, m) == [i \in 1..m |-> v]
Concat(ss) == FoldLeft(LAMBDA acc, s : acc \o s, <<>>, ss)
MaxOf(x, y) == IF x < y THEN y ELSE x

(* knot vector from a multiplicity profile: breakpoints bs (increasing), multiplicities ms *)
FromProfile(bs, ms) == Concat([i \in 1..Len(bs) |-> Rep(bs[i], ms[i])])
OpenProfile(p, k, im) == [i \in 1..k |-> IF i = 1 \/ i = k THEN p + 1 ELSE im[i]]

(* the small family: every open knot vector of degree <= MaxP over a subset of {0..MaxB} (times SC)
   with interior multiplicities 1..max(p,1) *)
KVsOf(q, B) ==
  LET bs == SortedSeq(B)  nb == Len(bs) IN
  {[p |-> q, t |-> Force(FromProfile([i \in 1..nb |-> SC * bs[i]], OpenProfile(q, nb, im)))] :
      im \in [1..nb -> 1..MaxOf(q, 1)]}     \* (entries 1 and nb of im are ignored)
KVSet == UNION {KVsOf(q, B) : q \in 0..MaxP, B \in {S \in SUBSET (0..MaxB) : Cardinality(S) >= 2}}

NumKnots(k) == Len(k.t)
NumDofs(k)  == Len(k.t) - k.p - 1
T(k, i)     == k.t[i + 1]                 \* 0-based access as in the code
First(k)    == k.t[1]
LastK(k)    == k.t[Len(k.t)]
Mesh(k)     == SortedSeq(SeqRange(k.t))
NumSpans(k) == Len(Mesh(k)) - 1
K2M(k)      == LET m == Mesh(k) IN [i \in 1..Len(k.t) |-> (CHOOSE j \in 1..Len(m) : m[j] = k.t[i]) - 1]
Support(k, j)       == <<T(k, j), T(k, j + k.p + 1)>>
MeshSupportIdx(k, j) == LET km == K2M(k) IN <<km[j + 1], km[j + k.p + 2]>>
MeshSpanIndices(k)  == SortedSeq({i \in 0..(Len(k.t) - 2) : T(k, i) < T(k, i + 1)})
FirstActive(k, i)   == i - k.p
PointsOf(k) == First(k)..LastK(k)         \* all quarter points of the domain, both ends included

\* the unique non-empty span containing u; the last one at the right end
SpanDecl(k, u) ==
  IF u = LastK(k) THEN CHOOSE i \in 0..(Len(k.t) - 2) :
                         T(k, i) < T(k, i + 1) /\ \A j \in (i + 1)..(Len(k.t) - 2) : T(k, j) = T(k, j + 1)
  ELSE CHOOSE i \in 0..(Len(k.t) - 2) : T(k, i) <= u /\ u < T(k, i + 1)
SpanUnique(k, u) == Cardinality({i \in 0..(Len(k.t) - 2) : T(k, i) <= u /\ u < T(k, i + 1)}) = 1

\* Greville abscissae as rationals of REAL knots (t / SC)
Greville(k) ==
  IF k.p = 0 THEN [j \in 1..NumDofs(k) |-> Q(k.t[j] + k.t[j + 1], 2 * SC)]
  ELSE [j \in 1..NumDofs(k) |-> Q(FoldLeft(LAMBDA acc, i : acc + k.t[j + i], 0, [i \in 1..k.p |-> i]), k.p * SC)]

\* B-spline values by Cox-de Boor (right-continuous, left-continuous at the right end); i 0-based
InSpan(k, i, u) == T(k, i) < T(k, i + 1) /\ T(k, i) <= u
                   /\ (u < T(k, i + 1) \/ (u = LastK(k) /\ T(k, i + 1) = LastK(k)))
RECURSIVE NVal(_, _, _, _)
NVal(k, i, q, u) ==
  IF q = 0 THEN (IF InSpan(k, i, u) THEN One ELSE Zero)
  ELSE Add(IF T(k, i + q) > T(k, i)
             THEN Mul(Q(u - T(k, i), T(k, i + q) - T(k, i)), NVal(k, i, q - 1, u)) ELSE Zero,
           IF T(k, i + q + 1) > T(k, i + 1)
             THEN Mul(Q(T(k, i + q + 1) - u, T(k, i + q + 1) - T(k, i + 1)), NVal(k, i + 1, q - 1, u)) ELSE Zero)
SplineVal(k, cs, u) == SumSeq([j \in 1..NumDofs(k) |-> Mul(cs[j], NVal(k, j - 1, k.p, u))])

\* derivative of the spline with coefficients cs (rationals): coefficients in REAL units, new knot vector
DerivCoeffs(k, cs) ==
  [j \in 1..(NumDofs(k) - 1) |->
     Mul(Q(k.p * SC, k.t[j + k.p + 1] - k.t[j + 1]), Sub(cs[j + 1], cs[j]))]
DerivKV(k) == [p |-> k.p - 1, t |-> SubSeq(k.t, 2, Len(k.t) - 1)]

\* sorted multiset union
RECURSIVE InsertSorted(_, _)
InsertSorted(s, v) == IF s = <<>> THEN <<v>>
                      ELSE IF v < Head(s) THEN <<v>> \o s ELSE <<Head(s)>> \o InsertSorted(Tail(s), v)
Refine(k, new) == [p |-> k.p, t |-> FoldLeft(InsertSorted, k.t, new)]
Midpoints(k) == LET m == Mesh(k) IN [i \in 1..(Len(m) - 1) |-> (m[i] + m[i + 1]) \div 2]
Count(s, v) == Cardinality({i \in 1..Len(s) : s[i] = v})

-----------------------------------------------------------------------------
(* make_knots *)
Intervals == <<<<R(0), R(1)>>, <<R(0), R(2)>>, <<R(-1), R(1)>>, <<R(1), R(3)>>, <<Q(9, 10), R(1)>>,
               <<R(0), Q(1, 10)>>, <<Q(1, 3), Q(2, 3)>>, <<Q(-5, 2), Q(7, 4)>>, <<R(0), R(1000)>>,
               <<Q(1, 1000), Q(1, 500)>>, <<R(10), Q(201, 20)>>, <<Q(-1, 7), Q(22, 7)>>>>
RLE(p, n, mult) == IF n = 1 \/ mult = p + 1 THEN <<<<p + 1, n + 1>>>>     \* equal neighbouring runs merge
                   ELSE <<<<p + 1, 1>>, <<mult, n - 1>>, <<p + 1, 1>>>>
MKNumDofs(p, n, mult) == p + 1 + mult * (n - 1)
Break(a, b, n, i) == Add(a, Mul(Q(i, n), Sub(b, a)))
SweepCase(p, n, mult, iv) ==
  LET a == Intervals[iv][1]  b == Intervals[iv][2] IN
  [kind |-> "sweep", p |-> p, n |-> n, mult |-> mult, iv |-> iv, a |-> a, b |-> b,
   rle |-> RLE(p, n, mult), numdofs |-> MKNumDofs(p, n, mult), numknots |-> 2 * (p + 1) + mult * (n - 1),
   numspans |-> n, span0 |-> p, stride |-> mult,
   samples |-> [s \in 1..3 |-> LET i == IF s = 1 THEN 1 ELSE IF s = 2 THEN (n + 1) \div 2 ELSE n - 1 IN
                               [i |-> i, x |-> Break(a, b, n, i)]]]

\* explicit small instance on the integer interval [a, b]: knots as rationals
MKSmall(p, n, mult, a, b) ==
  LET prof == [i \in 1..(n + 1) |-> IF i = 1 \/ i = n + 1 THEN p + 1 ELSE mult]
      kn   == Force(FromProfile([i \in 1..(n + 1) |-> Break(R(a), R(b), n, i - 1)], prof))
  IN [kind |-> "mksmall", p |-> p, n |-> n, mult |-> mult, a |-> a, b |-> b, knots |-> kn,
      rle |-> RLE(p, n, mult), numdofs |-> MKNumDofs(p, n, mult),
      spans |-> [i \in 1..n |-> p + (i - 1) * mult]]

-----------------------------------------------------------------------------
(* the cases of the small families *)
CoefInt(j) == (((j * j) + (3 * j)) % 7) - 3
QueryCase(k) ==
  LET nd == NumDofs(k)  msi == MeshSpanIndices(k) IN
  [kind |-> "queries", p |-> k.p, t |-> k.t, sc |-> SC,
   numknots |-> NumKnots(k), numdofs |-> nd, numspans |-> NumSpans(k), mesh |-> Mesh(k),
   support |-> <<First(k), LastK(k)>>,
   supports |-> [j \in 1..nd |-> Support(k, j - 1)],
   support_idx |-> [j \in 1..nd |-> <<j - 1, j + k.p>>],
   mesh_support_idx |-> [j \in 1..nd |-> MeshSupportIdx(k, j - 1)],
   mesh_span_indices |-> msi,
   first_active |-> [i \in 1..Len(msi) |-> FirstActive(k, msi[i])],
   greville |-> Greville(k),
   meshsize_avg |-> Q(LastK(k) - First(k), SC * NumSpans(k))]

RefineCase(k, uniform, new) ==
  LET nk == IF uniform THEN Midpoints(k) ELSE new
      r  == Refine(k, nk) IN
  [kind |-> "refine", p |-> k.p, t |-> k.t, sc |-> SC, uniform |-> uniform, new |-> nk, result |-> r.t]

DerivCase(k, fam) ==
  LET nd == NumDofs(k)
      g  == Greville(k)
      cs == IF fam = "ints" THEN [j \in 1..nd |-> R(CoefInt(j))]
            ELSE IF fam = "linear" THEN g            \* the spline is the identity x
            ELSE \* "quadratic": blossom of x^2 = average of the products of two distinct knots of the p
                 [j \in 1..nd |->
                    Q(FoldLeft(LAMBDA acc, pr : acc + k.t[j + pr[1]] * k.t[j + pr[2]], 0,
                               SetToSeq({pr \in (1..k.p) \X (1..k.p) : pr[1] < pr[2]})),
                      ((k.p * (k.p - 1)) \div 2) * SC * SC)]
      dk == DerivKV(k)
      ds == DerivCoeffs(k, cs)
      us == SortedSeq({u \in PointsOf(k) : (u % SC) # 0})      \* sample points strictly between grid knots
  IN [kind |-> "deriv", p |-> k.p, t |-> k.t, sc |-> SC, fam |-> fam, coeffs |-> cs,
      dp |-> dk.p, dt |-> dk.t, dcoeffs |-> ds,
      samples |-> [i \in 1..Len(us) |-> [u |-> us[i], v |-> SplineVal(k, cs, us[i]),
                                         dv |-> SplineVal(dk, ds, us[i])]]]

NewKnotSeqs(k) ==    \* up to two new knots (non-decreasing, repetition allowed) anywhere in the domain
  {<<>>} \cup {<<x>> : x \in PointsOf(k)} \cup {pr \in PointsOf(k) \X PointsOf(k) : pr[2] >= pr[1]}

-----------------------------------------------------------------------------
(* --fair algorithm KnotVec {
  variables kvr = [p |-> 0, t |-> <<>>],      \* knot vector of the current findspan call
            uq = 0,                            \* its parameter value (scaled)
            lo = 0, hi = 0, mid = 0, res = -1, \* cursors of pyx_findspan
            out = <<>>;                        \* the finished case
  {
  Pick:
    if (Family = "findspan") {
        with (kk \in KVSet, xx \in PointsOf(kk)) { kvr := kk; uq := xx };
  Start:                                       \* pyx_findspan, line 16
        if (uq >= T(kvr, Len(kvr.t) - kvr.p - 1)) {
            res := Len(kvr.t) - kvr.p - 2;     \* last interval
            goto Fin;
        } else {
            lo := 0; hi := Len(kvr.t) - 1;
        };
  Loop:                                        \* lines 21-26
        while (hi - lo > 1) {
            mid := lo + ((hi - lo) \div 2);
            if ((~BuggyCmp /\ T(kvr, mid) > uq) \/ (BuggyCmp /\ T(kvr, mid) >= uq)) { hi := mid } else { lo := mid };
        };
  Ret:  res := lo;
  Fin:  out := [kind |-> "findspan", p |-> kvr.p, t |-> kvr.t, sc |-> SC, u |-> uq, span |-> res];
    } else if (Family = "queries") {
        with (kk \in KVSet) { out := QueryCase(kk) };
    } else if (Family = "refine") {
        with (kk \in KVSet) {
          either { out := RefineCase(kk, TRUE, <<>>) }
          or     { with (nn \in NewKnotSeqs(kk)) { out := RefineCase(kk, FALSE, nn) } }
        };
    } else if (Family = "eq") {
        either {
          with (k1 \in KVSet, k2 \in KVSet) {
            out := [kind |-> "eq", p1 |-> k1.p, t1 |-> k1.t, p2 |-> k2.p, t2 |-> k2.t, sc |-> SC,
                    equal |-> (k1.p = k2.p /\ k1.t = k2.t)];
          }
        } or {      \* the same knots declared with another degree are a different knot vector
          with (k1 \in KVSet, dp \in {-1, 1}) {
            await k1.p + dp >= 0;
            out := [kind |-> "eq", p1 |-> k1.p, t1 |-> k1.t, p2 |-> k1.p + dp, t2 |-> k1.t, sc |-> SC,
                    equal |-> FALSE];
          }
        };
    } else if (Family = "deriv") {
        with (kk \in {k0 \in KVSet : k0.p >= 1}, ff \in {"ints", "linear", "quadratic"}) {
          await ff = "quadratic" => kk.p >= 2;
          out := DerivCase(kk, ff);
        };
    } else if (Family = "mksmall") {
        with (pp \in 0..MaxP, nn \in 1..(MaxB + 2), mm \in 1..MaxOf(MaxP, 1), aa \in {-1, 0, 2}, ln \in {1, 2, 3}) {
          await mm <= MaxOf(pp, 1);
          out := MKSmall(pp, nn, mm, aa, aa + ln);
        };
    } else {
        with (pp \in 0..MaxP, nn \in Ns, mm \in 1..MaxOf(MaxP, 1), iv \in IvSet) {
          await mm <= MaxOf(pp, 1);
          out := SweepCase(pp, nn, mm, iv);
        };
    }
  }
} *)
\* BEGIN TRANSLATION (chksum(pcal) = "7c28162a" /\ chksum(tla) = "935f42b2")
VARIABLES pc, kvr, uq, lo, hi, mid, res, out

vars == << pc, kvr, uq, lo, hi, mid, res, out >>

Init == (* Global variables *)
        /\ kvr = [p |-> 0, t |-> <<>>]
        /\ uq = 0
        /\ lo = 0
        /\ hi = 0
        /\ mid = 0
        /\ res = -1
        /\ out = <<>>
        /\ pc = "Pick"

Pick == /\ pc = "Pick"
        /\ IF Family = "findspan"
              THEN /\ \E kk \in KVSet:
                        \E xx \in PointsOf(kk):
                          /\ kvr' = kk
                          /\ uq' = xx
                   /\ pc' = "Start"
                   /\ out' = out
              ELSE /\ IF Family = "queries"
                         THEN /\ \E kk \in KVSet:
                                   out' = QueryCase(kk)
                         ELSE /\ IF Family = "refine"
                                    THEN /\ \E kk \in KVSet:
                                              \/ /\ out' = RefineCase(kk, TRUE, <<>>)
                                              \/ /\ \E nn \in NewKnotSeqs(kk):
                                                      out' = RefineCase(kk, FALSE, nn)
                                    ELSE /\ IF Family = "eq"
                                               THEN /\ \/ /\ \E k1 \in KVSet:
                                                               \E k2 \in KVSet:
                                                                 out' = [kind |-> "eq", p1 |-> k1.p, t1 |-> k1.t, p2 |-> k2.p, t2 |-> k2.t, sc |-> SC,
                                                                         equal |-> (k1.p = k2.p /\ k1.t = k2.t)]
                                                       \/ /\ \E k1 \in KVSet:
                                                               \E dp \in {-1, 1}:
                                                                 /\ k1.p + dp >= 0
                                                                 /\ out' = [kind |-> "eq", p1 |-> k1.p, t1 |-> k1.t, p2 |-> k1.p + dp, t2 |-> k1.t, sc |-> SC,
                                                                            equal |-> FALSE]
                                               ELSE /\ IF Family = "deriv"
                                                          THEN /\ \E kk \in {k0 \in KVSet : k0.p >= 1}:
                                                                    \E ff \in {"ints", "linear", "quadratic"}:
                                                                      /\ ff = "quadratic" => kk.p >= 2
                                                                      /\ out' = DerivCase(kk, ff)
                                                          ELSE /\ IF Family = "mksmall"
                                                                     THEN /\ \E pp \in 0..MaxP:
                                                                               \E nn \in 1..(MaxB + 2):
                                                                                 \E mm \in 1..MaxOf(MaxP, 1):
                                                                                   \E aa \in {-1, 0, 2}:
                                                                                     \E ln \in {1, 2, 3}:
                                                                                       /\ mm <= MaxOf(pp, 1)
                                                                                       /\ out' = MKSmall(pp, nn, mm, aa, aa + ln)
                                                                     ELSE /\ \E pp \in 0..MaxP:
                                                                               \E nn \in Ns:
                                                                                 \E mm \in 1..MaxOf(MaxP, 1):
                                                                                   \E iv \in IvSet:
                                                                                     /\ mm <= MaxOf(pp, 1)
                                                                                     /\ out' = SweepCase(pp, nn, mm, iv)
                   /\ pc' = "Done"
                   /\ UNCHANGED << kvr, uq >>
        /\ UNCHANGED << lo, hi, mid, res >>

Start == /\ pc = "Start"
         /\ IF uq >= T(kvr, Len(kvr.t) - kvr.p - 1)
               THEN /\ res' = Len(kvr.t) - kvr.p - 2
                    /\ pc' = "Fin"
                    /\ UNCHANGED << lo, hi >>
               ELSE /\ lo' = 0
                    /\ hi' = Len(kvr.t) - 1
                    /\ pc' = "Loop"
                    /\ res' = res
         /\ UNCHANGED << kvr, uq, mid, out >>

Loop == /\ pc = "Loop"
        /\ IF hi - lo > 1
              THEN /\ mid' = lo + ((hi - lo) \div 2)
                   /\ IF (~BuggyCmp /\ T(kvr, mid') > uq) \/ (BuggyCmp /\ T(kvr, mid') >= uq)
                         THEN /\ hi' = mid'
                              /\ lo' = lo
                         ELSE /\ lo' = mid'
                              /\ hi' = hi
                   /\ pc' = "Loop"
              ELSE /\ pc' = "Ret"
                   /\ UNCHANGED << lo, hi, mid >>
        /\ UNCHANGED << kvr, uq, res, out >>

Ret == /\ pc = "Ret"
       /\ res' = lo
       /\ pc' = "Fin"
       /\ UNCHANGED << kvr, uq, lo, hi, mid, out >>

Fin == /\ pc = "Fin"
       /\ out' = [kind |-> "findspan", p |-> kvr.p, t |-> kvr.t, sc |-> SC, u |-> uq, span |-> res]
       /\ pc' = "Done"
       /\ UNCHANGED << kvr, uq, lo, hi, mid, res >>

(* Allow infinite stuttering to prevent deadlock on termination. *)
Terminating == pc = "Done" /\ UNCHANGED vars

Next == Pick \/ Start \/ Loop \/ Ret \/ Fin
           \/ Terminating

Spec == /\ Init /\ [][Next]_vars
        /\ WF_vars(Next)

Termination == <>(pc = "Done")

\* END TRANSLATION 

-----------------------------------------------------------------------------
(* invariants *)
Finished == pc = "Done"

\* the cursor loop: kv[lo] <= u < kv[hi] and the cursors stay inside the array
LoopInv == (pc \in {"Loop", "Ret"}) =>
             /\ 0 <= lo /\ lo < hi /\ hi <= Len(kvr.t) - 1
             /\ T(kvr, lo) <= uq /\ uq < T(kvr, hi)
\* link to the unbounded TLAPS proof (spec/FindSpanProof.tla): the proved inductive invariant, read through the
\* refinement mapping below (Ret still belongs to the loop, Fin and Done are past it), holds in every reachable state
ProvedKV == INSTANCE FindSpanProof WITH len <- Len(kvr.t), p <- kvr.p,
                                        kv <- [i \in 0 .. (Len(kvr.t) - 1) |-> T(kvr, i)], u <- uq,
                                        pc <- (IF pc = "Start" THEN "Start" ELSE IF pc \in {"Loop", "Ret"} THEN "Loop" ELSE "Done")
AsProved == (Family = "findspan" /\ pc # "Pick" /\ ~BuggyCmp) => ProvedKV!Inv
\* the binary search returns the declarative span, which is a non-empty span with p <= i < len-1-p
FindSpanOK == (Finished /\ Family = "findspan") =>
                /\ out.span = SpanDecl(kvr, uq)
                /\ T(kvr, out.span) < T(kvr, out.span + 1)
                /\ kvr.p <= out.span /\ out.span < Len(kvr.t) - 1 - kvr.p
                /\ (uq < LastK(kvr) => SpanUnique(kvr, uq))

QueriesOK == (Finished /\ Family = "queries") =>
  LET k == [p |-> out.p, t |-> out.t]  nd == out.numdofs  m == out.mesh IN
  /\ nd = FoldLeft(LAMBDA acc, v : acc + Count(k.t, v), 0, m) - k.p - 1       \* sum of multiplicities - p - 1
  /\ Len(out.mesh_span_indices) = out.numspans
  /\ \A q \in 1..Len(m) - 1 : m[q] < m[q + 1]
  /\ \A i \in SeqRange(out.mesh_span_indices) : T(k, i) < T(k, i + 1)
  /\ \A j \in 1..nd :                       \* mesh support indices point at the support's end points
       /\ m[out.mesh_support_idx[j][1] + 1] = out.supports[j][1]
       /\ m[out.mesh_support_idx[j][2] + 1] = out.supports[j][2]
       /\ out.supports[j][1] < out.supports[j][2]
  /\ \A q \in 1..Len(out.mesh_span_indices) :      \* exactly p+1 functions live on a span: first_active..+p
       LET i == out.mesh_span_indices[q] IN
       {j \in 0..(nd - 1) : Support(k, j)[1] <= T(k, i) /\ T(k, i + 1) <= Support(k, j)[2]}
         = out.first_active[q]..(out.first_active[q] + k.p)
  /\ \A j \in 1..nd :                       \* Greville points inside the domain, non-decreasing, in the support
       /\ Le(Q(First(k), SC), out.greville[j]) /\ Le(out.greville[j], Q(LastK(k), SC))
       /\ Le(Q(out.supports[j][1], SC), out.greville[j]) /\ Le(out.greville[j], Q(out.supports[j][2], SC))
       /\ j < nd => Le(out.greville[j], out.greville[j + 1])

RefineOK == (Finished /\ Family = "refine") =>
  /\ \A i \in 1..(Len(out.result) - 1) : out.result[i] <= out.result[i + 1]
  /\ Len(out.result) = Len(out.t) + Len(out.new)
  /\ \A v \in SeqRange(out.result) : Count(out.result, v) = Count(out.t, v) + Count(out.new, v)
  /\ out.uniform =>      \* every span is halved
       LET m == SortedSeq(SeqRange(out.t))  m2 == SortedSeq(SeqRange(out.result)) IN
       /\ Len(m2) = 2 * Len(m) - 1
       /\ \A i \in 1..(Len(m2) - 1) : 2 * (m2[i + 1] - m2[i]) = m[((i + 1) \div 2) + 1] - m[(i + 1) \div 2]

EqOK == (Finished /\ Family = "eq") =>
  (out.equal <=> (out.p1 = out.p2 /\ out.t1 = out.t2))

\* derivative of x is 1, of x^2 is 2x (whose B-spline coefficients are twice the Greville points of the
\* derivative's knot vector); values by the spec's own Cox-de Boor evaluation
DerivOK == (Finished /\ Family = "deriv") =>
  LET dk == [p |-> out.dp, t |-> out.dt] IN
  /\ Len(out.dcoeffs) = NumDofs(dk)
  /\ out.fam = "linear" => (\A j \in 1..Len(out.dcoeffs) : out.dcoeffs[j] = One)
                           /\ (\A s \in 1..Len(out.samples) : out.samples[s].v = Q(out.samples[s].u, SC))
  /\ out.fam = "quadratic" =>
        /\ \A j \in 1..Len(out.dcoeffs) : out.dcoeffs[j] = Mul(R(2), Greville(dk)[j])
        /\ \A s \in 1..Len(out.samples) :
             /\ out.samples[s].v = Mul(Q(out.samples[s].u, SC), Q(out.samples[s].u, SC))
             /\ out.samples[s].dv = Mul(R(2), Q(out.samples[s].u, SC))

MKSmallOK == (Finished /\ Family = "mksmall") =>
  LET kn == out.knots IN
  /\ Len(kn) - out.p - 1 = out.numdofs
  /\ \A i \in 1..(Len(kn) - 1) : Le(kn[i], kn[i + 1])
  /\ kn[1] = R(out.a) /\ kn[Len(kn)] = R(out.b)
  /\ Cardinality(SeqRange(kn)) = out.n + 1
  /\ \A i \in 1..out.n : Lt(kn[out.spans[i] + 1], kn[out.spans[i] + 2])     \* span0 + i*stride is the i-th span
  /\ Cardinality({i \in 1..(Len(kn) - 1) : Lt(kn[i], kn[i + 1])}) = out.n

SweepOK == (Finished /\ Family = "sweep") =>
  /\ FoldLeft(LAMBDA acc, r : acc + r[1] * r[2], 0, out.rle) = out.numknots
  /\ FoldLeft(LAMBDA acc, r : acc + r[2], 0, out.rle) = out.numspans + 1
  /\ out.numdofs = out.numknots - out.p - 1
  /\ out.span0 + (out.numspans - 1) * out.stride = out.numknots - out.p - 2

EmitOut == (Finished /\ out # <<>>) => Emit("KV", out)
=============================================================================
