------------------------------ MODULE Relax ------------------------------
(* C11 -- Gauss-Seidel relaxation (pyiga.solvers.gauss_seidel, relaxation_cy.gauss_seidel[_indexed]).

   Reference (declarative): the textbook update of one unknown
        x_i  :=  ( b_i - SUM_{j # i} a_ij x_j ) / a_ii
   applied sequentially in the stated order:
        forward    0, 1, .., n-1             (or the index list as given)
        backward   n-1, .., 0                (or the index list reversed)
        symmetric  forward then backward, per iteration
   repeated `iterations` times.
   Code-shaped: the dense branch computes  z = A[i].x ;  z -= a_ii x_i ;  x_i = (b_i - z)/a_ii ; the sparse
   kernels accumulate rsum over the stored entries with j # i and pick up diag where j = i.
   TLC checks on every enumerated case: the two code shapes equal the reference update (CodeShapesAgree);
   an exact solution is a fixed point of every sweep kind / index list (FixedPoint); for symmetric positive
   definite A every single update, hence every sweep, does not increase the energy norm of the error
   (EnergyMonotone; SPD decided exactly by Sylvester's criterion).

   Matrix family: n x n, off-diagonal entries in -2..2, diagonal in {1,2,4} (so every float operation of the
   real code is exact as long as 53 bits suffice), n = 2 exhaustively over a grid, n = 3,4 from a seeded
   linear congruential generator, half of them symmetric.  b = A x* for an integer x*, integer start x0.
   One record per case (tag "GS") with the exact result; harness/drivers/c11.py renders A as ndarray, CSR,
   CSC, COO, CSR with explicit zeros, CSR with unsorted column indices and compares.                      *)
EXTENDS Integers, Sequences, SequencesExt, TLC, Rat, Emit

CONSTANTS N,        \* matrix size
          Kind,     \* "grid" (n = 2, structured enumeration) | "lcg" (seeded)
          NSeeds,   \* number of seeds for Kind = "lcg"
          DoEmit

VARIABLE case
Force(x) == x \o <<>>
\* comparisons by the sign of the difference (Rat!Lt cross-multiplies and may overflow 32 bits)
LeS(a, b) == Sub(a, b)[1] <= 0
LtS(a, b) == Sub(a, b)[1] < 0
MaxS(a, b) == IF LtS(a, b) THEN b ELSE a

-----------------------------------------------------------------------------
(* ---- the reference *)
RowRest(A, x, i) == SumSeq([j \in 1..Len(x) |-> IF j = i THEN Zero ELSE Mul(A[i][j], x[j])])
Update(A, x, b, i) == [x EXCEPT ![i] = Div(Sub(b[i], RowRest(A, x, i)), A[i][i])]

\* code shapes (indices 1-based here, 0-based in the code)
UpdateDense(A, x, b, i) ==
  LET z  == Dot(A[i], x)
      z2 == Sub(z, Mul(A[i][i], x[i]))
  IN [x EXCEPT ![i] = Div(Sub(b[i], z2), A[i][i])]
UpdateSparse(A, x, b, i) ==     \* stored entries = the non-zero ones, visited in column order
  LET st == FoldLeft(LAMBDA acc, j :
                       IF IsZero(A[i][j]) THEN acc
                       ELSE IF j = i THEN <<acc[1], A[i][j]>>
                       ELSE <<Add(acc[1], Mul(A[i][j], x[j])), acc[2]>>,
                     <<Zero, Zero>>, [j \in 1..Len(x) |-> j])
  IN IF IsZero(st[2]) THEN x ELSE [x EXCEPT ![i] = Div(Sub(b[i], st[1]), st[2])]

\* the order in which unknowns are visited in ONE iteration
Order(n, idx, sweep) ==
  LET base == IF idx = <<>> THEN [k \in 1..n |-> k] ELSE idx IN
  CASE sweep = "forward"   -> base
    [] sweep = "backward"  -> Reverse(base)
    [] sweep = "symmetric" -> base \o Reverse(base)

FullOrder(n, idx, sweep, iters) ==
  FoldLeft(LAMBDA acc, k : acc \o Order(n, idx, sweep), <<>>, [k \in 1..iters |-> k])

Sweep(A, x, b, ord) == FoldLeft(LAMBDA xx, i : Force(Update(A, xx, b, i)), x, ord)

-----------------------------------------------------------------------------
(* ---- the enumerated family *)
Diags == <<1, 2, 4>>

\* linear congruential generator (numerical recipes constants reduced to stay below 2^31)
Lcg(s) == (s * 1103 + 12345) % 65536
RECURSIVE LcgSeq(_, _)
LcgSeq(s, k) == IF k = 0 THEN <<>> ELSE LET t == Lcg(s) IN <<t>> \o LcgSeq(t, k - 1)

\* pseudo-random case from a seed: matrix (symmetric for even seeds, diagonally dominant for seeds divisible by 4), x*, x0, sweep, iterations, index list
LcgCase(seed) ==
  LET r   == LcgSeq((seed * 7919 + 13) % 65536, N * N + 2 * N + 8)
      sym == (seed % 2) = 0
      dom == (seed % 4) = 0          \* every fourth case: diagonal 4, off-diagonal in -1..1 (diagonally dominant, SPD)
      ent(i, j) == IF i = j THEN (IF dom THEN 4 ELSE Diags[((r[(i - 1) * N + j] \div 7) % 3) + 1])
                   ELSE LET a == IF sym /\ j < i THEN (j - 1) * N + i ELSE (i - 1) * N + j
                        IN IF dom THEN ((r[a] \div 7) % 3) - 1 ELSE ((r[a] \div 7) % 5) - 2
      A   == [i \in 1..N |-> [j \in 1..N |-> R(ent(i, j))]]
      xs  == [i \in 1..N |-> R(((r[N * N + i] \div 7) % 5) - 2)]
      x0  == [i \in 1..N |-> R(((r[N * N + N + i] \div 7) % 7) - 3)]
      o   == N * N + 2 * N
      sw  == <<"forward", "backward", "symmetric">>[((r[o + 1] \div 7) % 3) + 1]
      it  == ((r[o + 2] \div 7) % 2) + 1
      il  == (r[o + 3] \div 7) % 4          \* 0: no index list, 1..3: list of that length
      idx == [k \in 1..il |-> ((r[o + 3 + k] \div 7) % N) + 1]
  IN [A |-> A, xs |-> xs, x0 |-> x0, sweep |-> sw, iters |-> it, idx |-> idx]

GridCases ==      \* n = 2: all off-diagonal pairs x all diagonals x sweeps x (iterations, index list)
  { [A |-> << <<R(d1), R(a)>>, <<R(c), R(d2)>> >>, xs |-> <<R(1), R(-2)>>, x0 |-> <<R(3), R(1)>>,
     sweep |-> sw, iters |-> ii[1], idx |-> ii[2]] :
       a \in -2..2, c \in -2..2, d1 \in {1, 2, 4}, d2 \in {1, 4},
       sw \in {"forward", "backward", "symmetric"},
       ii \in {<<1, <<>>>>, <<2, <<>>>>, <<1, <<2>>>>, <<1, <<2, 1>>>>, <<2, <<1, 1, 2>>>>} }

\* Static size bounds so that the exact values fit TLC's 32-bit integers (TLC raises on overflow):
\* DenBound = product of the diagonal entries along the visiting order (the iterates are dyadic with at most
\* this denominator), MagBound = bound of |x_i| along the sweep; both saturate at CAP.
CAP == 16777216
SatMul(a, b) == IF a > CAP \div b THEN CAP ELSE a * b
AbsI(q) == IF q[1] < 0 THEN -q[1] ELSE q[1]             \* |q| for an integer-valued rational
OrdOf(c) == FullOrder(Len(c.A), c.idx, c.sweep, c.iters)
DenBound(c) == FoldLeft(LAMBDA acc, i : SatMul(acc, c.A[i][i][1]), 1, OrdOf(c))
MagBound(c) ==
  LET n  == Len(c.A)
      b  == MatVec(c.A, c.xs)
      m0 == FoldLeft(LAMBDA m, i : IF AbsI(c.x0[i]) > m THEN AbsI(c.x0[i]) ELSE m, 2, [i \in 1..n |-> i])
      rowabs(i) == FoldLeft(LAMBDA a, j : IF j = i THEN a ELSE a + AbsI(c.A[i][j]), 0, [j \in 1..n |-> j])
  IN FoldLeft(LAMBDA m, i : LET t == (AbsI(b[i]) + SatMul(rowabs(i), m)) \div c.A[i][i][1] + 1
                            IN IF t > CAP THEN CAP ELSE IF t > m THEN t ELSE m,
              m0, OrdOf(c))
SizeProduct(c) == SatMul(DenBound(c), MagBound(c))
Fits(c)        == SizeProduct(c) <= 4194304        \* 2^22: products of two such numbers' parts stay below 2^31 after cancellation
EnergyFits(c)  == SizeProduct(c) <= 16384          \* 2^14: squares of numerators stay below 2^31

Cases == {c \in (IF Kind = "grid" THEN GridCases ELSE {LcgCase(s) : s \in 1..NSeeds}) : Fits(c)}

-----------------------------------------------------------------------------
A0 == case.A
n0 == Len(A0)
B0 == Force(MatVec(A0, case.xs))                  \* right-hand side b = A x*
Ord0 == FullOrder(n0, case.idx, case.sweep, case.iters)
Result == Sweep(A0, case.x0, B0, Ord0)

\* Sylvester: symmetric and all leading principal minors positive (n <= 4: Laplace expansion)
RECURSIVE Det(_)
Minor(M, r, c) == [i \in 1..(Len(M) - 1) |-> [j \in 1..(Len(M) - 1) |->
                     M[IF i < r THEN i ELSE i + 1][IF j < c THEN j ELSE j + 1]]]
Det(M) == IF Len(M) = 1 THEN M[1][1]
          ELSE SumSeq([j \in 1..Len(M) |->
                  Mul(IF j % 2 = 1 THEN M[1][j] ELSE Neg(M[1][j]), Det(Minor(M, 1, j)))])
Leading(M, k) == [i \in 1..k |-> [j \in 1..k |-> M[i][j]]]
IsSPD(M) == /\ \A i \in 1..Len(M) : \A j \in 1..Len(M) : M[i][j] = M[j][i]
            /\ \A k \in 1..Len(M) : Sign(Det(Leading(M, k))) = 1

Energy(A, e) == Dot(e, MatVec(A, e))
Err(x) == [i \in 1..n0 |-> Sub(x[i], case.xs[i])]

CodeShapesAgree ==
  \A i \in 1..n0 : LET x == case.x0 IN
     /\ UpdateDense(A0, x, B0, i) = Update(A0, x, B0, i)
     /\ UpdateSparse(A0, x, B0, i) = Update(A0, x, B0, i)

FixedPoint == Sweep(A0, case.xs, B0, Ord0) = case.xs

\* every single update is energy non-increasing; acc = <<x, ok>>
EnergyMonotone ==
  (IsSPD(A0) /\ EnergyFits(case)) =>
    LET st == FoldLeft(LAMBDA acc, i :
                  LET xn == Force(Update(A0, acc[1], B0, i))
                  IN <<xn, acc[2] /\ LeS(Energy(A0, Err(xn)), Energy(A0, Err(acc[1])))>>,
                <<case.x0, TRUE>>, Ord0)
    IN st[2]

MaxAbs(x) == FoldLeft(LAMBDA m, i : IF LtS(m, AbsR(x[i])) THEN AbsR(x[i]) ELSE m, Zero, [i \in 1..Len(x) |-> i])

EmitCase ==
  DoEmit =>
    LET traj == FoldLeft(LAMBDA acc, i : LET xn == Force(Update(A0, acc[1], B0, i))
                                          IN <<xn, MaxS(acc[2], MaxAbs(xn))>>,
                         <<case.x0, MaxAbs(case.x0)>>, Ord0)
    IN Emit("GS", [A |-> A0, b |-> B0, x0 |-> case.x0, xs |-> case.xs, sweep |-> case.sweep,
                   iters |-> case.iters, idx |-> [k \in 1..Len(case.idx) |-> case.idx[k] - 1],
                   nupd |-> Len(Ord0), spd |-> IsSPD(A0), energy |-> (IsSPD(A0) /\ EnergyFits(case)), x |-> traj[1], maxabs |-> traj[2]])

Init == case \in Cases
Next == UNCHANGED case
Spec == Init /\ [][Next]_case
=============================================================================
