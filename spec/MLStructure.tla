------------------------------ MODULE MLStructure ------------------------------
(* C15 -- multi-level structured matrices (pyiga/mlmatrix.py, mlmatrix_cy.pyx, utils.kron_partial).

   A structure is a sequence of L level records [m, n, bidx]; bidx is the sequence of the
   (i,j) positions of the nonzeros of the k-th Kronecker factor (0-based, any order, no
   duplicates).  The compact data tensor has shape (Len(bidx_1), ..., Len(bidx_L)), C order.

   Declarative side (independent of the code), in two formulations that are cross-checked (DefsAgree):
     KronPos / NonzeroAll / Nonzero   the Kronecker recursion (A (x) B)[i1*m2+i2, j1*n2+j2], enumerated with the
                            last level fastest = compact-layout order (+ lower-triangular filter)
     DenOrd / Den           the matrix denoted by (structure, data) as a set of <<I,J,v>>, levels in any order
     NonzeroDigits, KronDense, DenPerm   the same by index digits / explicit dense Kronecker product /
                            permutation of the digits of the row and column index
     ForRow, Transpose, MatVec, ToML/FromML, FromReordered,
     SparsityIJ (support overlap of two knot vectors by knot VALUES), Banded, dense index lists.
   Code-shaped side:
     the odometer loop of ml_nonzero_nd as actions Begin / EmitStep / CarryStep
     (Buggy = TRUE: initial column cursor bidx_ptr[0][1] as the code had it),
     Nonzero2D / Nonzero3D / Matvec2D / Matvec3D as nested folds (BuggyY = TRUE: y allocated
     with len(x) entries as MLMatrix._matvec did), ReorderS/ReorderData, SparsityCode = the
     mesh-index searchsorted loop of compute_sparsity_ij, SeqBidx.
   Buggy / BuggyY = TRUE and the invariant KVAnyMeshOK are negative controls: TLC must report a violation.

   A run explores a SUITE (constant Suite) = a set of families; the family is chosen in the initial
   state (variable fam) and fixes mode, number of levels, block shapes, pattern alphabet, bidx order,
   which row/column subsets and level permutations are emitted, and whether the odometer machine runs.
   Modes:
     "ml"     Init = empty structure; AddLevel(p) appends a level pattern (BFS: every structure
              over the alphabet; -simulate: random structures).  Complete structures are
              checked (invariants below) and emitted (EmitCase); with loop = TRUE the
              odometer machine is run on every complete structure for both lower_tri values.
     "kv"     one initial state per ordered pair of knot vectors
     "reidx"  one initial state per tuple of block sizes
     "pat"    one initial state per (n, symmetric pattern), banded (n, bw), dense (m, n)      *)
EXTENDS Integers, Sequences, FiniteSets, SequencesExt, FiniteSetsExt, Functions, TLC, Emit

CONSTANTS Suite,      \* name of the set of families explored by this run (see Families)
          Buggy,      \* ml_nonzero_nd initial column cursor from level 0 (today's code)
          BuggyY,     \* _matvec output allocated with len(x) entries (today's code)
          DoEmit,     \* emit CASE/KV/REIDX/PAT records
          Part, NParts, \* split of the structure space by the first-level pattern
          Seed

VARIABLES fam,        \* the family (record), constant along a behaviour
          st,         \* "ml": the structure built so far; other modes: the case descriptor
          pc,         \* "build" | "emit" | "carry" | "done" | Mode
          lower,      \* lower_tri flag of the running odometer
          cur,        \* cur_idx
          bi, bj,     \* block_i, block_j
          kk,         \* loop variable of the carry loop (k+1)
          out         \* results written so far: sequence of <<I,J>>

vars == <<fam, st, pc, lower, cur, bi, bj, kk, out>>

\* the parameters of the family
Mode      == fam.mode       \* "ml" | "kv" | "reidx" | "pat"
L         == fam.L          \* number of levels ("ml")
ShapeRows == fam.rows       \* decimal digits, from the left: rows of the blocks on level 1..L
ShapeCols == fam.cols       \* same for the columns
Alpha     == fam.alpha      \* "all" | "reduced": pattern alphabet per level (kv: all / degree 1..2)
Order     == fam.order      \* "row" | "col" | "rev": order in which bidx lists a level pattern
Subsets   == fam.subsets    \* "perm" | "all" | "sample" | "few": row/column subsets per structure
Perms     == fam.perms      \* "all" (every permutation for L <= 3, four beyond) | "few" (reversal only)
RunLoop   == fam.loop       \* run the odometer machine on complete structures

ML(name, l, rows, cols, alpha, order, subsets, perms) ==
  [name |-> name, mode |-> "ml", L |-> l, rows |-> rows, cols |-> cols, alpha |-> alpha, order |-> order,
   subsets |-> subsets, perms |-> perms, loop |-> FALSE]
Loop(f) == [f EXCEPT !.loop = TRUE]
Other(mode, alpha) == [ML(mode, 1, 1, 1, alpha, "row", "few", "few") EXCEPT !.mode = mode]

F2x2L1 == ML("2x2-L1", 1, 2, 2, "all", "row", "perm", "all")
F2x2L2 == ML("2x2-L2", 2, 22, 22, "all", "row", "perm", "all")
F2x2L3(sub) == ML("2x2-L3", 3, 222, 222, "all", "row", sub, "all")
F2x2L4(alpha, sub, perms) == ML("2x2-L4", 4, 2222, 2222, alpha, "row", sub, perms)
TwoLevel(sub, perms) ==
  {ML("2x3.3x2", 2, 23, 32, "all", "row", sub, perms), ML("3x2.3x2", 2, 33, 22, "all", "row", sub, perms),
   ML("2x3.2x3", 2, 22, 33, "all", "row", sub, perms), ML("3x3.2x2", 2, 32, 32, "all", "row", sub, perms),
   ML("3x2.2x3", 2, 32, 23, "all", "row", sub, perms), ML("2x2.3x2", 2, 23, 22, "all", "row", sub, perms),
   ML("2x3.2x2", 2, 22, 32, "all", "row", sub, perms)}
F3x3L2 == ML("3x3.3x3", 2, 33, 33, "all", "row", "few", "few")
SimFamilies ==
  {F2x2L4("all", "sample", "all"),
   ML("2x2-L4-col", 4, 2222, 2222, "all", "col", "sample", "all"),
   ML("2x2-L3-rev", 3, 222, 222, "all", "rev", "sample", "all"),
   ML("mixed-L4", 4, 2312, 3221, "all", "row", "sample", "all"),
   ML("2x2-L5", 5, 22222, 22222, "all", "row", "sample", "all"),
   ML("mixed-L5", 5, 21322, 22231, "all", "row", "sample", "all"),
   ML("2x2-L6", 6, 222222, 222222, "all", "row", "few", "few"),
   ML("mixed-L6", 6, 221322, 232212, "all", "row", "few", "few"),
   ML("mixed-L3", 3, 232, 323, "all", "row", "sample", "all"),
   ML("tall-L3", 3, 322, 221, "all", "row", "sample", "all")}
SmallFamilies ==
  {F2x2L1, F2x2L2, ML("2x3-L1", 1, 2, 3, "all", "row", "perm", "all"), ML("3x2-L1", 1, 3, 2, "all", "row", "perm", "all"),
   ML("3x3-L1", 1, 3, 3, "all", "row", "perm", "all"), ML("2x2-L2-col", 2, 22, 22, "all", "col", "perm", "all"),
   ML("2x2-L2-rev", 2, 22, 22, "all", "rev", "perm", "all"), Other("reidx", "all"), Other("pat", "all"),
   \* symmetric patterns listed column-major (what MLStructure.transpose() produces) and in reversed order
   [Other("pat", "all") EXCEPT !.name = "pat-col", !.order = "col"],
   [Other("pat", "all") EXCEPT !.name = "pat-rev", !.order = "rev"]}

Families ==
  CASE Suite = "small"        -> SmallFamilies
    [] Suite = "kv"           -> {Other("kv", "all")}
    [] Suite = "kv-reduced"   -> {Other("kv", "reduced")}
    [] Suite = "L3-sample"    -> {F2x2L3("sample")}
    [] Suite = "L3-all"       -> {F2x2L3("all")}
    [] Suite = "L3-orders"    -> {ML("2x2-L3-col", 3, 222, 222, "all", "col", "sample", "all"),
                                  ML("2x2-L3-rev", 3, 222, 222, "all", "rev", "sample", "all")}
    [] Suite = "L4-reduced"   -> {F2x2L4("reduced", "sample", "all")}
    [] Suite = "L4-orders"    -> {ML("2x2-L4-col", 4, 2222, 2222, "reduced", "col", "few", "few"),
                                  ML("2x2-L4-rev", 4, 2222, 2222, "reduced", "rev", "few", "few")}
    [] Suite = "L4-all"       -> {F2x2L4("all", "few", "few")}
    [] Suite = "two-level"    -> TwoLevel("sample", "all")
    [] Suite = "two-level-sim" -> TwoLevel("sample", "all") \cup {F3x3L2}
    [] Suite = "3x3.3x3"      -> {F3x3L2}
    [] Suite = "sim"          -> SimFamilies
    [] Suite = "odo-quick"    -> {Loop(ML("2x2-L3", 3, 222, 222, "reduced", "row", "few", "few")),
                                  Loop(ML("2x3.3x2", 2, 23, 32, "reduced", "row", "few", "few")),
                                  Loop(ML("2x2-L2", 2, 22, 22, "all", "rev", "few", "few"))}
    [] Suite = "odo-L4"       -> {Loop(F2x2L4("reduced", "few", "few"))}
    [] Suite = "odo-thorough" -> {Loop(F2x2L3("few")), Loop(F2x2L2),
                                  Loop(ML("2x3.3x2", 2, 23, 32, "all", "row", "few", "few")),
                                  Loop(ML("mixed-L4", 4, 2312, 3221, "reduced", "row", "few", "few"))}
    [] Suite = "defs-quick"   -> {ML("2x2-L3", 3, 222, 222, "reduced", "row", "sample", "all"),
                                  ML("2x3.3x2", 2, 23, 32, "reduced", "row", "sample", "all"),
                                  ML("3x2.2x2", 2, 32, 22, "reduced", "row", "sample", "all")}
    [] Suite = "defs-thorough" -> {F2x2L3("sample"), F2x2L4("reduced", "sample", "all")} \cup TwoLevel("sample", "all")
    [] Suite = "neg-matvec"   -> {ML("3x2.2x2", 2, 32, 22, "reduced", "row", "few", "few")}

-----------------------------------------------------------------------------
(* integers, index arithmetic *)
Pow2  == <<1, 2, 4, 8, 16, 32, 64, 128, 256, 512, 1024>>
Pow10 == <<1, 10, 100, 1000, 10000, 100000, 1000000, 10000000>>
Bit(mask, b) == (mask \div Pow2[b + 1]) % 2
Max2(a, b) == IF a >= b THEN a ELSE b
Min2(a, b) == IF a <= b THEN a ELSE b
Prod(s) == FoldLeft(LAMBDA a, x : a * x, 1, s)
Idx(n) == [a \in 1..n |-> a]
\* C-order ravel / unravel (first axis slowest), 0-based indices in 1-based sequences
Ravel(mi, shape) == FoldLeft(LAMBDA acc, a : (acc * shape[a]) + mi[a], 0, Idx(Len(shape)))
Unravel(i, shape) ==
  [a \in 1..Len(shape) |-> (i \div Prod(SubSeq(shape, a + 1, Len(shape)))) % shape[a]]
Rep(v, n) == [i \in 1..n |-> v]

-----------------------------------------------------------------------------
(* level patterns *)
RowsOf(k) == (ShapeRows \div Pow10[L - k + 1]) % 10
ColsOf(k) == (ShapeCols \div Pow10[L - k + 1]) % 10
CellsRow(m, n) == [t \in 1..(m * n) |-> <<(t - 1) \div n, (t - 1) % n>>]
CellsOrd(m, n) == CASE Order = "row" -> CellsRow(m, n)
                    [] Order = "col" -> [t \in 1..(m * n) |-> <<(t - 1) % m, (t - 1) \div m>>]
                    [] Order = "rev" -> Reverse(CellsRow(m, n))
PatBidx(m, n, mask) == SelectSeq(CellsOrd(m, n), LAMBDA c : Bit(mask, (c[1] * n) + c[2]) = 1)
Level(k, mask) == [m |-> RowsOf(k), n |-> ColsOf(k), bidx |-> PatBidx(RowsOf(k), ColsOf(k), mask)]
AllMasks(m, n) == 1..(Pow2[(m * n) + 1] - 1)
AlphaSet(k) ==
  LET m == RowsOf(k)  n == ColsOf(k) IN
  IF Alpha = "all" THEN AllMasks(m, n)
  ELSE IF m = 2 /\ n = 2 THEN {1, 2, 6, 9, 13, 15}
  ELSE {x \in AllMasks(m, n) : (x % 5) = 1 \/ x = Pow2[(m * n) + 1] - 1 \/ x = 2}

-----------------------------------------------------------------------------
(* the declarative definitions *)
Ms(S)  == [k \in 1..Len(S) |-> S[k].m]
Ns(S)  == [k \in 1..Len(S) |-> S[k].n]
NNs(S) == [k \in 1..Len(S) |-> Len(S[k].bidx)]
NNZ(S) == Prod(NNs(S))
MM(S) == Prod(Ms(S))
NC(S) == Prod(Ns(S))
\* C-order strides of the compact data tensor
Strides(S) == LET nn == NNs(S) IN [k \in 1..Len(S) |-> Prod(SubSeq(nn, k + 1, Len(S)))]

(* Kronecker recursion.  KronPos(S, ord) = the entries <<I, J, off>> of the Kronecker product of the
   levels ord[1], ord[2], ... (in that order; (A (x) B)[i1*m2+i2, j1*n2+j2] = A[i1,j1] B[i2,j2]),
   enumerated with the last factor running fastest; off = C-order offset of the entry's
   multi-position in the data tensor of S.  For ord = identity the enumeration order IS the
   compact-layout order (off = t-1, invariant OffsetOK). *)
KronPos(S, ord) ==
  LET str == Strides(S) IN
  FoldLeft(LAMBDA acc, j :
      LET lv == S[ord[j]]  b == lv.bidx  nk == Len(b)  sk == str[ord[j]] IN
      [t \in 1..(Len(acc) * nk) |->
          LET e == acc[((t - 1) \div nk) + 1]  p == ((t - 1) % nk) + 1 IN
          <<(e[1] * lv.m) + b[p][1], (e[2] * lv.n) + b[p][2], e[3] + ((p - 1) * sk)>>],
    <<<<0, 0, 0>>>>, Idx(Len(ord)))
NonzeroAll(S) == LET kp == KronPos(S, Idx(Len(S))) IN [t \in 1..Len(kp) |-> <<kp[t][1], kp[t][2]>>]
LowerOnly(s) == SelectSeq(s, LAMBDA e : e[2] <= e[1])
Nonzero(S, lw) == IF lw THEN LowerOnly(NonzeroAll(S)) ELSE NonzeroAll(S)

\* the denoted matrix as a set of <<I,J,v>>; dat = flat data (1-based sequence over the C-order
\* ravel of the tensor); DenOrd: the Kronecker product with the levels taken in the order ax
DenOrd(S, dat, ax) == {<<e[1], e[2], dat[e[3] + 1]>> : e \in Range(KronPos(S, ax))}
Den(S, dat) == DenOrd(S, dat, Idx(Len(S)))
DenT(D) == {<<e[2], e[1], e[3]>> : e \in D}
\* rank-1 data: the Kronecker product of the factor matrices with values av[k][p] at bidx_k[p]
KronVals(S, av) ==
  FoldLeft(LAMBDA acc, k :
      LET lv == S[k]  b == lv.bidx  nk == Len(b) IN
      [t \in 1..(Len(acc) * nk) |->
          LET e == acc[((t - 1) \div nk) + 1]  p == ((t - 1) % nk) + 1 IN
          <<(e[1] * lv.m) + b[p][1], (e[2] * lv.n) + b[p][2], e[3] * av[k][p]>>],
    <<<<0, 0, 1>>>>, Idx(Len(S)))

(* the same notions by index digits / dense matrices (cross-checked against the recursion) *)
\* pos = 0-based multi-position in the data tensor
EntryI(S, pos) == Ravel([k \in 1..Len(S) |-> S[k].bidx[pos[k] + 1][1]], Ms(S))
EntryJ(S, pos) == Ravel([k \in 1..Len(S) |-> S[k].bidx[pos[k] + 1][2]], Ns(S))
NonzeroDigits(S) == LET nn == NNs(S) IN
  [t \in 1..Prod(nn) |-> LET pos == Unravel(t - 1, nn) IN <<EntryI(S, pos), EntryJ(S, pos)>>]
\* explicit Kronecker product of dense factor matrices (functions on 0-based index pairs)
FactorDense(lv, av) ==
  [i \in 0..(lv.m - 1) |-> [j \in 0..(lv.n - 1) |->
     LET hits == {p \in 1..Len(lv.bidx) : lv.bidx[p] = <<i, j>>} IN
     IF hits = {} THEN 0 ELSE av[CHOOSE p \in hits : TRUE]]]
Kron2(A, ma, na, B, mb, nb) ==
  [I \in 0..((ma * mb) - 1) |-> [J \in 0..((na * nb) - 1) |->
     A[I \div mb][J \div nb] * B[I % mb][J % nb]]]
KronDense(S, avals) ==
  LET step(acc, k) == [mat |-> Kron2(acc.mat, acc.m, acc.n, FactorDense(S[k], avals[k]), S[k].m, S[k].n),
                       m |-> acc.m * S[k].m, n |-> acc.n * S[k].n]
  IN FoldLeft(step, [mat |-> [i \in {0} |-> [j \in {0} |-> 1]], m |-> 1, n |-> 1], Idx(Len(S))).mat
Triples(A, m, n) == {<<q[1], q[2], A[q[1]][q[2]]>> : q \in {q \in (0..(m - 1)) \X (0..(n - 1)) : A[q[1]][q[2]] # 0}}

\* matrix-vector product with a matrix given as a sequence of <<I,J,v>>
MatVecSeq(es, m, x) ==
  FoldLeft(LAMBDA acc, e : [acc EXCEPT ![e[1] + 1] = @ + (e[3] * x[e[2] + 1])], Rep(0, m), es)
MatVec(D, m, x) == MatVecSeq(SetToSeq(D), m, x)

\* transposition / join / slice
Transpose(S) == [k \in 1..Len(S) |->
  [m |-> S[k].n, n |-> S[k].m, bidx |-> [p \in 1..Len(S[k].bidx) |-> <<S[k].bidx[p][2], S[k].bidx[p][1]>>]]]
Slice(S, a, b) == SubSeq(S, a + 1, b)        \* levels a..b-1 (0-based, as MLStructure.slice)

\* per-row query: columns of the nonzeros in row r, level lists in bidx order, lexicographic product
RowCols(lv, i) == LET sel == SelectSeq(lv.bidx, LAMBDA e : e[1] = i) IN [p \in 1..Len(sel) |-> sel[p][2]]
ForRow(S, r) ==
  LET ri == Unravel(r, Ms(S)) IN
  FoldLeft(LAMBDA acc, k :
      LET lst == RowCols(S[k], ri[k])  c == Len(lst)  n == S[k].n IN
      [t \in 1..(Len(acc) * c) |-> (acc[((t - 1) \div c) + 1] * n) + lst[((t - 1) % c) + 1]],
    <<0>>, Idx(Len(S)))

\* level reordering, declaratively: permute the digits of the row and of the column index
PermIndex(I, shape, ax) == LET d == Unravel(I, shape) IN
  Ravel([j \in 1..Len(shape) |-> d[ax[j]]], [j \in 1..Len(shape) |-> shape[ax[j]]])
DenPerm(S, D, ax) == {<<PermIndex(e[1], Ms(S), ax), PermIndex(e[2], Ns(S), ax), e[3]>> : e \in D}

\* multilevel <-> sequential numbering
ToML(i, j, ms, ns) == LET I == Unravel(i, ms)  J == Unravel(j, ns) IN
  [k \in 1..Len(ms) |-> (I[k] * ns[k]) + J[k]]
FromML(Mi, ms, ns) == <<Ravel([k \in 1..Len(ms) |-> Mi[k] \div ns[k]], ms),
                        Ravel([k \in 1..Len(ms) |-> Mi[k] % ns[k]], ns)>>

-----------------------------------------------------------------------------
(* code-shaped: nested loops of ml_nonzero_2d / _3d, ml_matvec_2d / _3d, reorder, sequential_bidx *)
Nonzero2D(S, lw) ==
  LET b1 == S[1].bidx  b2 == S[2].bidx  m2 == S[2].m  n2 == S[2].n IN
  FoldLeft(LAMBDA acc, i :
    FoldLeft(LAMBDA acc2, j :
      LET I == (b1[i][1] * m2) + b2[j][1]
          J == (b1[i][2] * n2) + b2[j][2]
      IN IF ~lw \/ J <= I THEN Append(acc2, <<I, J>>) ELSE acc2,
      acc, Idx(Len(b2))),
    <<>>, Idx(Len(b1)))

Nonzero3D(S, lw) ==
  LET b1 == S[1].bidx  b2 == S[2].bidx  b3 == S[3].bidx
      m2 == S[2].m  n2 == S[2].n  m3 == S[3].m  n3 == S[3].n IN
  FoldLeft(LAMBDA acc, i :
    FoldLeft(LAMBDA acc2, j :
      FoldLeft(LAMBDA acc3, k :
        LET I == ((((b1[i][1] * m2) + b2[j][1]) * m3) + b3[k][1])
            J == ((((b1[i][2] * n2) + b2[j][2]) * n3) + b3[k][2])
        IN IF ~lw \/ J <= I THEN Append(acc3, <<I, J>>) ELSE acc3,
        acc2, Idx(Len(b3))),
      acc, Idx(Len(b2))),
    <<>>, Idx(Len(b1)))

\* y[I] += X[i,j(,k)] * x[J]; a write beyond the allocated y is recorded, not performed
YLen(S) == IF BuggyY THEN NC(S) ELSE MM(S)
Upd(acc, I, v) == IF I < Len(acc.y) THEN [acc EXCEPT !.y[I + 1] = @ + v] ELSE [acc EXCEPT !.oob = TRUE]
Matvec2D(S, dat, x) ==
  LET b1 == S[1].bidx  b2 == S[2].bidx  m2 == S[2].m  n2 == S[2].n  N2 == Len(b2) IN
  FoldLeft(LAMBDA acc, i :
    FoldLeft(LAMBDA acc2, j :
      Upd(acc2, (b1[i][1] * m2) + b2[j][1],
          dat[((i - 1) * N2) + j] * x[((b1[i][2] * n2) + b2[j][2]) + 1]),
      acc, Idx(N2)),
    [y |-> Rep(0, YLen(S)), oob |-> FALSE], Idx(Len(b1)))
Matvec3D(S, dat, x) ==
  LET b1 == S[1].bidx  b2 == S[2].bidx  b3 == S[3].bidx
      m2 == S[2].m  n2 == S[2].n  m3 == S[3].m  n3 == S[3].n
      N2 == Len(b2)  N3 == Len(b3) IN
  FoldLeft(LAMBDA acc, i :
    FoldLeft(LAMBDA acc2, j :
      FoldLeft(LAMBDA acc3, k :
        Upd(acc3, (((b1[i][1] * m2) + b2[j][1]) * m3) + b3[k][1],
            dat[((((i - 1) * N2) + (j - 1)) * N3) + k]
              * x[((((b1[i][2] * n2) + b2[j][2]) * n3) + b3[k][2]) + 1]),
        acc2, Idx(N3)),
      acc, Idx(N2)),
    [y |-> Rep(0, YLen(S)), oob |-> FALSE], Idx(Len(b1)))

\* MLStructure.reorder / MLMatrix.reorder: levels permuted, data = np.transpose(data, axes)
ReorderS(S, ax) == [j \in 1..Len(S) |-> S[ax[j]]]
ReorderData(S, dat, ax) ==
  LET nn == NNs(S)
      nn2 == [j \in 1..Len(S) |-> nn[ax[j]]]
      inv == [k \in 1..Len(S) |-> CHOOSE j \in 1..Len(S) : ax[j] = k]
  IN [t \in 1..Len(dat) |-> LET q == Unravel(t - 1, nn2) IN
        dat[Ravel([k \in 1..Len(S) |-> q[inv[k]]], nn) + 1]]

\* sequential_bidx as the property needs it (ravel of (i,j) within the m x n block)
SeqBidx(S) == [k \in 1..Len(S) |-> [p \in 1..Len(S[k].bidx) |-> (S[k].bidx[p][1] * S[k].n) + S[k].bidx[p][2]]]

Dispatch(S) == CASE Len(S) = 1 -> "1d" [] Len(S) = 2 -> "2d" [] Len(S) = 3 -> "3d" [] OTHER -> "nd"

-----------------------------------------------------------------------------
(* test data attached to a structure: all derived from a hash of the structure and Seed *)
Hash(S) == FoldLeft(LAMBDA a, k : ((a * 31) + (Len(S[k].bidx) * 5) + (S[k].bidx[1][2] * 3) + S[k].bidx[1][1]
                                    + (S[k].m * 7) + S[k].n) % 1009,
                    Seed % 1009, Idx(Len(S)))
DataOf(S, h)  == [t \in 1..NNZ(S) |-> ((h + (7 * t)) % 9) + 1]                       \* 1..9
AvalsOf(S, h) == [k \in 1..Len(S) |-> [p \in 1..Len(S[k].bidx) |-> ((h + (2 * k) + (3 * p)) % 3) + 1]]
Rank1Data(S, av) == LET nn == NNs(S) IN
  [t \in 1..Prod(nn) |-> LET pos == Unravel(t - 1, nn) IN
      FoldLeft(LAMBDA a, k : a * av[k][pos[k] + 1], 1, Idx(Len(S)))]
XOf(n, h) == [J \in 1..n |-> (((J * 5) + h) % 7) - 3]                                 \* -3..3

\* orderings of an ascending sequence: 0 ascending, 1 descending, 2 rotated by one
Variant(s, v) == IF Len(s) < 2 \/ v = 0 THEN s ELSE IF v = 1 THEN Reverse(s) ELSE Tail(s) \o <<Head(s)>>
AscSeq(T) == SetToSortSeq(T, <)
SubsetSeqs(n, h) ==      \* set of sequences over 0..n-1 without repetitions
  CASE Subsets = "perm" ->
         {s \in UNION {[1..q -> 0..(n - 1)] : q \in 0..n} : \A a, b \in DOMAIN s : a # b => s[a] # s[b]}
    [] Subsets = "all" ->
         {Variant(AscSeq({r \in 0..(n - 1) : Bit(mask, r) = 1}), (mask + h) % 3) : mask \in 0..(Pow2[n + 1] - 1)}
    [] Subsets = "few" ->
         {<<>>, Variant(AscSeq({r \in 0..(n - 1) : (((r * 3) + h) % 7) < 4}), h % 3)}
    [] OTHER ->
         {<<>>, [t \in 1..n |-> t - 1], [t \in 1..n |-> n - t]}
         \cup {Variant(AscSeq({r \in 0..(n - 1) : (((r * ((2 * a) + 1)) + h + a) % 7) < 3}), (h + a) % 3) : a \in 0..2}

PermSet(n, h) ==
  IF Perms = "few" THEN {[j \in 1..n |-> n + 1 - j]}
  ELSE IF n <= 3 THEN Permutations(1..n)
  ELSE {[j \in 1..n |-> n + 1 - j], [j \in 1..n |-> (j % n) + 1],
        [j \in 1..n |-> IF j = 1 THEN n ELSE IF j = n THEN 1 ELSE j],
        [j \in 1..n |-> IF j = (h % (n - 1)) + 1 THEN j + 1 ELSE IF j = (h % (n - 1)) + 2 THEN j - 1 ELSE j]}

-----------------------------------------------------------------------------
(* "ml" mode: building structures, the odometer machine of ml_nonzero_nd *)
InitML ==
  /\ st = <<>> /\ pc = "build" /\ lower = FALSE
  /\ cur = <<>> /\ bi = <<>> /\ bj = <<>> /\ kk = 0 /\ out = <<>>

AddLevel(p) ==
  /\ pc = "build" /\ Len(st) < L
  /\ (Len(st) = 0) => ((p % NParts) = Part)
  /\ st' = Append(st, Level(Len(st) + 1, p))
  /\ UNCHANGED <<fam, pc, lower, cur, bi, bj, kk, out>>

\* mlmatrix_cy.pyx 346-357: the initialisation loop (done = (N == 0) is impossible: patterns non-empty)
Begin(lw) ==
  /\ RunLoop /\ pc = "build" /\ Len(st) = L
  /\ lower' = lw
  /\ cur' = [i \in 1..L |-> 0]
  /\ bi' = [i \in 1..L |-> st[i].bidx[1][1]]
  /\ bj' = [i \in 1..L |-> IF Buggy THEN st[1].bidx[1][2] ELSE st[i].bidx[1][2]]
  /\ out' = <<>> /\ kk' = 0 /\ pc' = "emit"
  /\ UNCHANGED <<fam, st>>

\* 366-375: head of the while loop
CurI == Ravel(bi, Ms(st))
CurJ == Ravel(bj, Ns(st))
EmitStep ==
  /\ pc = "emit"
  /\ out' = IF ~lower \/ CurJ <= CurI THEN Append(out, <<CurI, CurJ>>) ELSE out
  /\ kk' = L /\ pc' = "carry"
  /\ UNCHANGED <<fam, st, lower, cur, bi, bj>>

\* 378-390: one iteration of `for k in reversed(range(L))` (kk = k + 1)
CarryStep ==
  /\ pc = "carry"
  /\ LET c == cur[kk] + 1 IN
     IF c < Len(st[kk].bidx) THEN
          /\ cur' = [cur EXCEPT ![kk] = c]
          /\ bi' = [bi EXCEPT ![kk] = st[kk].bidx[c + 1][1]]
          /\ bj' = [bj EXCEPT ![kk] = st[kk].bidx[c + 1][2]]
          /\ pc' = "emit" /\ kk' = 0
     ELSE IF kk = 1 THEN
          /\ cur' = [cur EXCEPT ![kk] = c]
          /\ pc' = "done" /\ kk' = 0
          /\ UNCHANGED <<bi, bj>>
     ELSE /\ cur' = [cur EXCEPT ![kk] = 0]
          /\ bi' = [bi EXCEPT ![kk] = st[kk].bidx[1][1]]
          /\ bj' = [bj EXCEPT ![kk] = st[kk].bidx[1][2]]
          /\ kk' = kk - 1 /\ pc' = "carry"
  /\ UNCHANGED <<fam, st, lower, out>>

NextML == (\E p \in (IF pc = "build" /\ Len(st) < L THEN AlphaSet(Len(st) + 1) ELSE {}) : AddLevel(p)) \/ (\E lw \in BOOLEAN : Begin(lw)) \/ EmitStep \/ CarryStep

\* invariants of the odometer machine
CursorOK == (pc = "emit") =>
  \A k \in 1..L : /\ cur[k] \in 0..(Len(st[k].bidx) - 1)
                  /\ bi[k] = st[k].bidx[cur[k] + 1][1]
                  /\ bj[k] = st[k].bidx[cur[k] + 1][2]
InRangeOK == (pc = "emit") => (CurI \in 0..(MM(st) - 1) /\ CurJ \in 0..(NC(st) - 1))
PrefixOK == (pc = "emit") =>
  LET pre == SubSeq(NonzeroAll(st), 1, Ravel(cur, NNs(st))) IN
  out = (IF lower THEN LowerOnly(pre) ELSE pre)
DoneOK == (pc = "done") => out = Nonzero(st, lower)

-----------------------------------------------------------------------------
(* complete structures: (b) => (a) checks and emission *)
Ready == Mode = "ml" /\ pc = "build" /\ Len(st) = L

\* the two formulations of the declarative side agree
DefsAgree == Ready =>
  LET h == Hash(st)  dat == DataOf(st, h)  av == AvalsOf(st, h)
      kp == KronPos(st, Idx(L))  nz == NonzeroAll(st)  D == Den(st, dat) IN
  /\ \A t \in 1..Len(kp) : kp[t][3] = t - 1                                     \* OffsetOK
  /\ nz = NonzeroDigits(st)
  /\ Cardinality(Range(nz)) = Len(nz)                                           \* no position twice
  /\ \A e \in Range(nz) : e[1] \in 0..(MM(st) - 1) /\ e[2] \in 0..(NC(st) - 1)
  /\ Range(Nonzero(st, TRUE)) = {e \in Range(nz) : e[2] <= e[1]}
  /\ Range(KronVals(st, av)) = Triples(KronDense(st, av), MM(st), NC(st))       \* explicit dense Kronecker product
  /\ Den(st, Rank1Data(st, av)) = Range(KronVals(st, av))
  /\ \A ax \in PermSet(L, h) : DenOrd(st, dat, ax) = DenPerm(st, D, ax)         \* digits permuted

NestedLoopsOK == Ready =>
  /\ (L = 2) => \A lw \in BOOLEAN : Nonzero2D(st, lw) = Nonzero(st, lw)
  /\ (L = 3) => \A lw \in BOOLEAN : Nonzero3D(st, lw) = Nonzero(st, lw)

RowsOK == Ready =>
  LET nz == Range(NonzeroAll(st))  T == Transpose(st) IN
  /\ \A r \in 0..(MM(st) - 1) : LET f == ForRow(st, r) IN
        Range(f) = {e[2] : e \in {q \in nz : q[1] = r}} /\ Cardinality(Range(f)) = Len(f)
  /\ \A c \in 0..(NC(st) - 1) : LET f == ForRow(T, c) IN
        Range(f) = {e[1] : e \in {q \in nz : q[2] = c}} /\ Cardinality(Range(f)) = Len(f)

TransposeOK == Ready =>
  LET dat == DataOf(st, Hash(st))  T == Transpose(st) IN
  /\ Transpose(T) = st
  /\ Den(T, dat) = DenT(Den(st, dat))

\* MLMatrix.reorder (levels permuted, data transposed) denotes the Kronecker product in the new order
ReorderOK == Ready =>
  LET h == Hash(st)  dat == DataOf(st, h) IN
  \A ax \in PermSet(L, h) : Den(ReorderS(st, ax), ReorderData(st, dat, ax)) = DenOrd(st, dat, ax)

MatvecOK == (Ready /\ L \in {2, 3}) =>
  LET h == Hash(st)  dat == DataOf(st, h)  x == XOf(NC(st), h)
      r == IF L = 2 THEN Matvec2D(st, dat, x) ELSE Matvec3D(st, dat, x)
  IN ~r.oob /\ r.y = MatVec(Den(st, dat), MM(st), x)

SeqBidxOK == Ready =>
  LET sb == SeqBidx(st)  nn == NNs(st)  nz == NonzeroAll(st) IN
  \A t \in 1..Len(nz) : LET pos == Unravel(t - 1, nn) IN
     FromML([k \in 1..L |-> sb[k][pos[k] + 1]], Ms(st), Ns(st)) = nz[t]

JoinSliceOK == (Ready /\ L >= 2) =>
  \A s \in 1..(L - 1) : Slice(st, 0, s) \o Slice(st, s, L) = st

EmitCase == (Ready /\ DoEmit) =>
  LET S == st  h == Hash(S)  M == MM(S)  N == NC(S)
      dat == DataOf(S, h)  av == AvalsOf(S, h)  x == XOf(N, h)
      kp == KronPos(S, Idx(L))
      nz == [t \in 1..Len(kp) |-> <<kp[t][1], kp[t][2]>>]
      D == [t \in 1..Len(kp) |-> <<kp[t][1], kp[t][2], dat[kp[t][3] + 1]>>]
      T == Transpose(S)
      tnz == NonzeroAll(T)
      rowtab == [r \in 1..M |-> ForRow(S, r - 1)]
      coltab == [c \in 1..N |-> ForRow(T, c - 1)]
      split == (h % Max2(L - 1, 1)) + 1
  IN Emit("CASE",
       [fam |-> fam.name, L |-> L, h |-> h, path |-> Dispatch(S),
        bs |-> [k \in 1..L |-> <<S[k].m, S[k].n>>],
        bidx |-> [k \in 1..L |-> S[k].bidx],
        nz0 |-> nz,
        nz1 |-> IF L >= 2 THEN LowerOnly(nz) ELSE <<>>,
        data |-> dat, den |-> Range(D),
        avals |-> av, kden |-> Range(KronVals(S, av)),
        x |-> x, y |-> MatVecSeq(D, M, x),
        tnz0 |-> tnz,
        tnz1 |-> IF L >= 2 THEN LowerOnly(tnz) ELSE <<>>,
        perms |-> SetToSeq({[ax |-> [j \in 1..L |-> ax[j] - 1], den |-> DenOrd(S, dat, ax)] : ax \in PermSet(L, h)}),
        rows |-> SetToSeq({[R |-> R, exp |-> [t \in 1..Len(R) |-> rowtab[R[t] + 1]]] : R \in SubsetSeqs(M, h)}),
        cols |-> SetToSeq({[R |-> C, exp |-> [t \in 1..Len(C) |-> coltab[C[t] + 1]]] : C \in SubsetSeqs(N, h + 1)}),
        seqb |-> SeqBidx(S),
        split |-> split,
        nzA |-> IF L >= 2 THEN NonzeroAll(Slice(S, 0, split)) ELSE <<>>,
        nzB |-> IF L >= 2 THEN NonzeroAll(Slice(S, split, L)) ELSE <<>>])

-----------------------------------------------------------------------------
(* "kv" mode: compute_sparsity_ij.  A knot vector is <<p, a, b, c>>: degree p, open on [0,4],
   interior breakpoints 1,2,3 with multiplicities a,b,c (0 = absent). *)
KVIds == {id \in (0..3) \X (0..2) \X (0..2) \X (0..2) :
            LET mx == IF id[1] = 0 THEN 1 ELSE id[1] IN id[2] <= mx /\ id[3] <= mx /\ id[4] <= mx}
Knots(id) == Rep(0, id[1] + 1) \o Rep(1, id[2]) \o Rep(2, id[3]) \o Rep(3, id[4]) \o Rep(4, id[1] + 1)
NumDofs(id) == Len(Knots(id)) - id[1] - 1
Supp(id, i) == <<Knots(id)[i + 1], Knots(id)[i + id[1] + 2]>>          \* i 0-based, knot VALUES
Overlap(s, t) == Max2(s[1], t[1]) < Min2(s[2], t[2])
\* rows: functions of kv2, columns: functions of kv1 (as compute_sparsity_ij(kv1, kv2))
SparsityIJ(id1, id2) ==
  {q \in (0..(NumDofs(id2) - 1)) \X (0..(NumDofs(id1) - 1)) : Overlap(Supp(id2, q[1]), Supp(id1, q[2]))}
MeshOf(id) == Range(Knots(id))
\* code-shaped (mlmatrix.py 420-440): supports as indices into the own mesh, searchsorted + while
MeshIdx(id, v) == Cardinality({w \in MeshOf(id) : w < v})
MeshSupp(id, i) == <<MeshIdx(id, Supp(id, i)[1]), MeshIdx(id, Supp(id, i)[2])>>
SparsityCode(id1, id2) ==
  LET n1 == NumDofs(id1)
      ms1 == [j \in 1..n1 |-> MeshSupp(id1, j - 1)]
      row(i) == LET s2 == MeshSupp(id2, i)
                    j0 == Cardinality({j \in 1..n1 : ms1[j][2] <= s2[1]})          \* searchsorted(.., side='right')
                    hit == [j \in 1..n1 |-> Overlap(s2, ms1[j])]
                IN {j - 1 : j \in {q \in (j0 + 1)..n1 : \A r \in (j0 + 1)..q : hit[r]}}  \* while j < n and intersect
  IN UNION {{<<i, j>> : j \in row(i)} : i \in 0..(NumDofs(id2) - 1)}
KVUse == IF Alpha = "reduced" THEN {id \in KVIds : id[1] \in 1..2} ELSE KVIds
InitKV == /\ st \in KVUse \X KVUse /\ pc = "kv" /\ lower = FALSE
          /\ cur = <<>> /\ bi = <<>> /\ bj = <<>> /\ kk = 0 /\ out = <<>>
KVSameMeshOK == (Mode = "kv" /\ MeshOf(st[1]) = MeshOf(st[2])) => SparsityCode(st[1], st[2]) = SparsityIJ(st[1], st[2])
KVAnyMeshOK  == (Mode = "kv") => SparsityCode(st[1], st[2]) = SparsityIJ(st[1], st[2])     \* negative control
KVSymmetricOK == (Mode = "kv") => SparsityIJ(st[2], st[1]) = {<<q[2], q[1]>> : q \in SparsityIJ(st[1], st[2])}
EmitKV == (Mode = "kv" /\ DoEmit) =>
  Emit("KV", [p1 |-> st[1][1], kv1 |-> Knots(st[1]), p2 |-> st[2][1], kv2 |-> Knots(st[2]),
              n1 |-> NumDofs(st[1]), n2 |-> NumDofs(st[2]),
              samemesh |-> (MeshOf(st[1]) = MeshOf(st[2])),
              ij |-> SparsityIJ(st[1], st[2])])

-----------------------------------------------------------------------------
(* "reidx" mode: reindex_to_multilevel / reindex_from_multilevel / reindex_from_reordered / reorder.
   Case = sequence of <<m,n>> block sizes. *)
Sizes12 == (1..2) \X (1..2)
Sizes13 == (1..3) \X (1..3)
ReidxCases == {<<a>> : a \in Sizes13} \cup {<<a, b>> : a \in Sizes13, b \in Sizes13}
              \cup {<<a, b, c>> : a \in Sizes12, b \in Sizes12, c \in Sizes12}
              \cup {<<a, b, <<3, 2>>, c>> : a \in Sizes12, b \in {<<1, 2>>, <<2, 1>>}, c \in {<<2, 3>>, <<1, 1>>}}
InitReidx == /\ st \in ReidxCases /\ pc = "reidx" /\ lower = FALSE
             /\ cur = <<>> /\ bi = <<>> /\ bj = <<>> /\ kk = 0 /\ out = <<>>
RMs == [k \in 1..Len(st) |-> st[k][1]]
RNs == [k \in 1..Len(st) |-> st[k][2]]
\* Van Loan-Pitsianis: row = block (row-major over the m1 x n1 blocks), column = C-order vec of the block
FromReordered(i, j, m1, n1, m2, n2) == <<((i \div n1) * m2) + (j \div n2), ((i % n1) * n2) + (j % n2)>>
ReidxOK == (Mode = "reidx") =>
  LET M == Prod(RMs)  N == Prod(RNs)
      all == (0..(M - 1)) \X (0..(N - 1))
      img == {ToML(q[1], q[2], RMs, RNs) : q \in all}
  IN /\ \A q \in all : FromML(ToML(q[1], q[2], RMs, RNs), RMs, RNs) = q
     /\ Cardinality(img) = M * N
     /\ \A mi \in img : \A k \in 1..Len(st) : mi[k] \in 0..((RMs[k] * RNs[k]) - 1)
     /\ (Len(st) = 2) =>
          \A i \in 0..((RMs[1] * RNs[1]) - 1) : \A j \in 0..((RMs[2] * RNs[2]) - 1) :
             FromReordered(i, j, RMs[1], RNs[1], RMs[2], RNs[2]) = FromML(<<i, j>>, RMs, RNs)
EmitReidx == (Mode = "reidx" /\ DoEmit) =>
  LET M == Prod(RMs)  N == Prod(RNs) IN
  Emit("REIDX", [bs |-> st, M |-> M, N |-> N,
                 to |-> [i \in 1..M |-> [j \in 1..N |-> ToML(i - 1, j - 1, RMs, RNs)]],
                 ro |-> IF Len(st) = 2
                        THEN [i \in 1..(RMs[1] * RNs[1]) |-> [j \in 1..(RMs[2] * RNs[2]) |->
                                FromReordered(i - 1, j - 1, RMs[1], RNs[1], RMs[2], RNs[2])]]
                        ELSE <<>>])

-----------------------------------------------------------------------------
(* "pat" mode: get_transpose_idx_for_bidx on symmetric patterns; banded and dense index lists.
   Case = <<"sym", n, mask>> | <<"band", n, bw>> | <<"dense", m, n>> *)
SymMasks(n) == {mask \in AllMasks(n, n) :
                  \A i, j \in 0..(n - 1) : Bit(mask, (i * n) + j) = Bit(mask, (j * n) + i)}
PatCases == {<<"sym", n, mask>> : n \in {2}, mask \in SymMasks(2)}
            \cup {<<"sym", 3, mask>> : mask \in SymMasks(3)}
            \cup {<<"band", q[1], q[2]>> : q \in (1..5) \X (0..4)}
            \cup {<<"dense", q[1], q[2]>> : q \in (1..3) \X (1..3)}
InitPat == /\ st \in PatCases /\ pc = "pat" /\ lower = FALSE
           /\ cur = <<>> /\ bi = <<>> /\ bj = <<>> /\ kk = 0 /\ out = <<>>
TransposeIdx(b) == [p \in 1..Len(b) |-> (CHOOSE q \in 1..Len(b) : b[q] = <<b[p][2], b[p][1]>>) - 1]
Banded(n, bw) == SelectSeq(CellsRow(n, n), LAMBDA c : c[1] - c[2] <= bw /\ c[2] - c[1] <= bw)
PatOK == (Mode = "pat" /\ st[1] = "sym") =>
  LET b == PatBidx(st[2], st[2], st[3])  tr == TransposeIdx(b) IN
  \A p \in 1..Len(b) : tr[tr[p] + 1] = p - 1
EmitPat == (Mode = "pat" /\ DoEmit) =>
  CASE st[1] = "sym" -> LET b == PatBidx(st[2], st[2], st[3]) IN
                        Emit("PAT", [kind |-> "sym", n |-> st[2], bidx |-> b, tr |-> TransposeIdx(b)])
    [] st[1] = "band" -> Emit("PAT", [kind |-> "band", n |-> st[2], bw |-> st[3], ij |-> Banded(st[2], st[3])])
    [] OTHER -> Emit("PAT", [kind |-> "dense", m |-> st[2], n |-> st[3], ij |-> CellsRow(st[2], st[3])])

-----------------------------------------------------------------------------
Init == /\ fam \in Families
        /\ CASE Mode = "ml" -> InitML [] Mode = "kv" -> InitKV [] Mode = "reidx" -> InitReidx [] OTHER -> InitPat
Next == Mode = "ml" /\ NextML
Spec == Init /\ [][Next]_vars
=============================================================================
