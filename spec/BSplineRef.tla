------------------------------ MODULE BSplineRef ------------------------------
(* Exact reference for univariate and tensor-product B-splines (shared by C02, C05, C09, C17, C19 ...).

   Conventions
     * A knot vector `kv` is a TLA+ sequence of INTEGERS (breakpoints on an integer grid), `p` the degree.
       All knot / function / span / mesh indices are 0-BASED exactly as in pyiga: knot j is Kn(kv,j) = kv[j+1],
       B-spline i (0 <= i < NumDofs) has the knots Kn(kv,i) .. Kn(kv,i+p+1).
     * Evaluation points are rationals of module Rat (normalised pairs <<n,d>>).
     * Functions are right-continuous; at the right end of the knot vector they are left-continuous
       (the last non-empty span is closed).  This is the convention of the library (pyx_findspan).
     * Vectors of values indexed by the B-spline number are TLA+ sequences: entry i+1 belongs to B-spline i.
     * Tensor products: kvs = <<kv_1, .., kv_d>> in pyiga's axis order -- the LAST axis is x.  A point given in
       xyz order therefore feeds axis a (1-based) with its coordinate number d - a + 1 (1-based; 1 = x).
       Coefficient arrays are flat sequences in C order (last axis fastest).

   Two layers
     (a) the declarative textbook definitions  NB, DNB  (Cox--de Boor recursion and the derivative recursion);
     (b) row-wise tables  BasisRow / DerivRow / DerivTable  that compute the same numbers for all B-splines at once in
         O(p * Len(kv)) rational operations (use these from other modules; BSplineEval checks (b) = (a)).
   TLC evaluates [j \in 1..n |-> e] lazily and WITHOUT memoisation, hence every row is materialised by Tab
   (a fold with Append, which yields an explicit tuple).                                                          *)
EXTENDS Integers, Sequences, FiniteSets, SequencesExt, FiniteSetsExt, Rat

-------------------------------------------------------------------------------
(* small helpers *)
Ints(n)        == [j \in 1..n |-> j]
Tab(n, F(_))   == FoldLeft(LAMBDA acc, j : Append(acc, F(j)), <<>>, Ints(n))      \* explicit tuple <<F(1),..,F(n)>>
ZeroRow(n)     == Tab(n, LAMBDA j : Zero)
SeqSet(s)      == {s[j] : j \in 1..Len(s)}
SortedSeq(S)   == SetToSortSeq(S, <)
IntMax(a, b)   == IF a < b THEN b ELSE a
IntMin(a, b)   == IF a < b THEN a ELSE b
RECURSIVE IPow(_, _)
IPow(b, e)     == IF e = 0 THEN 1 ELSE b * IPow(b, e - 1)

-------------------------------------------------------------------------------
(* knot vectors *)
Kn(kv, j)       == kv[j + 1]                         \* 0-based knot
NumKnots(kv)    == Len(kv)
NumDofs(kv, p)  == Len(kv) - p - 1
KFirst(kv)      == kv[1]
KLast(kv)       == kv[Len(kv)]
KMult(kv, t)    == Cardinality({j \in 1..Len(kv) : kv[j] = t})

IsKnotVector(kv, p) ==          \* non-decreasing, enough knots for at least one B-spline
  /\ p >= 0 /\ Len(kv) >= 2 * p + 2
  /\ \A j \in 1..(Len(kv) - 1) : kv[j] <= kv[j + 1]

IsOpen(kv, p) ==                \* open: end knots p+1 times, interior knots at most max(p,1) times
  /\ IsKnotVector(kv, p)
  /\ KFirst(kv) < KLast(kv)
  /\ KMult(kv, KFirst(kv)) = p + 1 /\ KMult(kv, KLast(kv)) = p + 1
  /\ \A j \in 1..Len(kv) : (kv[j] # KFirst(kv) /\ kv[j] # KLast(kv)) => KMult(kv, kv[j]) <= IntMax(p, 1)

(* mesh = distinct knots; all indices 0-based like KnotVector.mesh / _knots_to_mesh / mesh_support_idx *)
Mesh(kv)           == SortedSeq(SeqSet(kv))
NumSpans(kv)       == Len(Mesh(kv)) - 1
KnotToMesh(kv, j)  == Cardinality({t \in SeqSet(kv) : t < Kn(kv, j)})
MeshSupport(kv, p, i) == <<KnotToMesh(kv, i), KnotToMesh(kv, i + p + 1)>>      \* cells m0 .. m1-1
SpanIndices(kv)    == SortedSeq({j \in 0..(Len(kv) - 2) : Kn(kv, j) < Kn(kv, j + 1)})   \* mesh_span_indices
Support(kv, p, i)  == <<Kn(kv, i), Kn(kv, i + p + 1)>>

(* the non-empty knot span k (0-based: [Kn(k), Kn(k+1)) ) containing u; the last non-empty span is closed *)
InSpan(kv, k, u) ==
  /\ Kn(kv, k) < Kn(kv, k + 1)
  /\ Le(R(Kn(kv, k)), u)
  /\ \/ Lt(u, R(Kn(kv, k + 1)))
     \/ (u = R(KLast(kv)) /\ Kn(kv, k + 1) = KLast(kv))
InDomain(kv, u)   == Le(R(KFirst(kv)), u) /\ Le(u, R(KLast(kv)))
Span(kv, u)       == CHOOSE k \in 0..(Len(kv) - 2) : InSpan(kv, k, u)       \* declarative findspan
FirstActive(kv, p, u) == Span(kv, u) - p
MeshCell(kv, u)   == KnotToMesh(kv, Span(kv, u))                              \* 0-based mesh cell containing u

Greville(kv, p) ==      \* Greville abscissae (cell midpoints for p = 0, as in KnotVector.greville)
  Tab(NumDofs(kv, p), LAMBDA j :
      IF p = 0 THEN Q(Kn(kv, j - 1) + Kn(kv, j), 2)
      ELSE Q(FoldLeft(LAMBDA a, m : a + Kn(kv, j - 1 + m), 0, Ints(p)), p))

Mirror(kv) == [j \in 1..Len(kv) |-> -kv[Len(kv) + 1 - j]]      \* knot vector of x |-> -x

-------------------------------------------------------------------------------
(* (a) declarative definitions: Cox--de Boor values and the derivative recursion.
       A term whose knot difference vanishes is 0.  i is 0-based, q is the degree of the function evaluated
       (any 0 <= q with i + q + 1 <= Len(kv) - 1), independent of the degree of "the space".                       *)
RECURSIVE NB(_, _, _, _)
NB(kv, i, q, u) ==
  IF q = 0 THEN (IF InSpan(kv, i, u) THEN One ELSE Zero)
  ELSE LET d1 == Kn(kv, i + q) - Kn(kv, i)
           d2 == Kn(kv, i + q + 1) - Kn(kv, i + 1)
           t1 == IF d1 = 0 THEN Zero
                 ELSE Mul(Div(Sub(u, R(Kn(kv, i))), R(d1)), NB(kv, i, q - 1, u))
           t2 == IF d2 = 0 THEN Zero
                 ELSE Mul(Div(Sub(R(Kn(kv, i + q + 1)), u), R(d2)), NB(kv, i + 1, q - 1, u))
       IN Add(t1, t2)

RECURSIVE DNB(_, _, _, _, _)
DNB(kv, i, q, k, u) ==         \* k-th derivative of N_{i,q} at u
  IF k = 0 THEN NB(kv, i, q, u)
  ELSE IF q = 0 THEN Zero
  ELSE LET d1 == Kn(kv, i + q) - Kn(kv, i)
           d2 == Kn(kv, i + q + 1) - Kn(kv, i + 1)
           t1 == IF d1 = 0 THEN Zero ELSE Div(DNB(kv, i, q - 1, k - 1, u), R(d1))
           t2 == IF d2 = 0 THEN Zero ELSE Div(DNB(kv, i + 1, q - 1, k - 1, u), R(d2))
       IN Mul(R(q), Sub(t1, t2))

-------------------------------------------------------------------------------
(* (b) the same numbers row-wise.  A "row of degree q" has Len(kv) - q - 1 entries, entry i+1 = (D^k) N_{i,q}(u). *)
Row0(kv, u) == Tab(Len(kv) - 1, LAMBDA j : IF InSpan(kv, j - 1, u) THEN One ELSE Zero)

RaiseVal(kv, q, u, row) ==      \* values of degree q-1  ->  values of degree q
  Tab(Len(kv) - q - 1, LAMBDA j :
      LET i  == j - 1
          d1 == Kn(kv, i + q) - Kn(kv, i)
          d2 == Kn(kv, i + q + 1) - Kn(kv, i + 1)
          t1 == IF d1 = 0 \/ IsZero(row[j]) THEN Zero            \* (u - t_i)/d1 = (u1 - u2 t_i)/(u2 d1), u = u1/u2
                ELSE Mul(Q(u[1] - u[2] * Kn(kv, i), u[2] * d1), row[j])
          t2 == IF d2 = 0 \/ IsZero(row[j + 1]) THEN Zero
                ELSE Mul(Q(u[2] * Kn(kv, i + q + 1) - u[1], u[2] * d2), row[j + 1])
      IN Add(t1, t2))

RaiseDer(kv, q, row) ==         \* (k-1)-th derivatives of degree q-1  ->  k-th derivatives of degree q
  Tab(Len(kv) - q - 1, LAMBDA j :
      LET i  == j - 1
          d1 == Kn(kv, i + q) - Kn(kv, i)
          d2 == Kn(kv, i + q + 1) - Kn(kv, i + 1)
          t1 == IF d1 = 0 \/ IsZero(row[j]) THEN Zero ELSE Mul(row[j], Q(q, d1))
          t2 == IF d2 = 0 \/ IsZero(row[j + 1]) THEN Zero ELSE Mul(row[j + 1], Q(q, d2))
      IN Sub(t1, t2))

BasisRow(kv, q, u) ==           \* <<N_{0,q}(u), .., N_{n-1,q}(u)>>
  FoldLeft(LAMBDA r, m : RaiseVal(kv, m, u, r), Row0(kv, u), Ints(q))

DerivRow(kv, p, k, u) ==        \* <<D^k N_{0,p}(u), ..>>   (zero row for k > p)
  IF k > p THEN ZeroRow(NumDofs(kv, p))
  ELSE FoldLeft(LAMBDA r, m : RaiseDer(kv, p - k + m, r), BasisRow(kv, p - k, u), Ints(k))

BasisRows(kv, p, u) ==          \* entry [q+1] = BasisRow(kv, q, u), q = 0..p
  FoldLeft(LAMBDA rows, m : Append(rows, RaiseVal(kv, m, u, rows[m])), <<Row0(kv, u)>>, Ints(p))

DerivTable(kv, p, maxk, u) ==   \* entry [k+1][i+1] = D^k N_{i,p}(u), k = 0..maxk
  LET rows == BasisRows(kv, p, u) IN
  Tab(maxk + 1, LAMBDA kk :
      LET k == kk - 1 IN
      IF k > p THEN ZeroRow(NumDofs(kv, p))
      ELSE FoldLeft(LAMBDA r, m : RaiseDer(kv, p - k + m, r), rows[p - k + 1], Ints(k)))

ActiveWindow(row, first, p) == SubSeq(row, first + 1, first + p + 1)     \* the p+1 entries first..first+p

(* one-sided limit from the left, u > KFirst(kv): mirror the knot vector.  D^k N_i(u-) = (-1)^k D^k N~_{n-1-i}(-u) *)
DerivRowLeft(kv, p, k, u) ==
  LET n == NumDofs(kv, p)
      r == DerivRow(Mirror(kv), p, k, Neg(u))
  IN Tab(n, LAMBDA j : IF (k % 2) = 1 THEN Neg(r[n + 1 - j]) ELSE r[n + 1 - j])
DerivTableLeft(kv, p, maxk, u) ==      \* entry [k+1][i+1] = D^k N_{i,p}(u-)
  LET n == NumDofs(kv, p)
      T == DerivTable(Mirror(kv), p, maxk, Neg(u))
  IN Tab(maxk + 1, LAMBDA kk : Tab(n, LAMBDA j : IF (kk % 2) = 0 THEN Neg(T[kk][n + 1 - j]) ELSE T[kk][n + 1 - j]))
SpanLeft(kv, u) ==             \* the non-empty span (k: Kn(k) < u <= Kn(k+1)) used by the limit from the left
  CHOOSE k \in 0..(Len(kv) - 2) : Kn(kv, k) < Kn(kv, k + 1) /\ Lt(R(Kn(kv, k)), u) /\ Le(u, R(Kn(kv, k + 1)))

(* collocation-type tables for a sequence of points: entry [pt][k+1][i+1] *)
PointTables(kv, p, maxk, pts) == Tab(Len(pts), LAMBDA m : DerivTable(kv, p, maxk, pts[m]))
Colloc(kv, p, k, pts)         == Tab(Len(pts), LAMBDA m : DerivRow(kv, p, k, pts[m]))     \* matrix points x dofs

SplineEval(kv, p, k, coeffs, u) == Dot(coeffs, DerivRow(kv, p, k, u))      \* D^k of sum_i coeffs[i+1] N_i at u

-------------------------------------------------------------------------------
(* knot insertion (Boehm) and prolongation between nested knot vectors *)
InsertKnot(kv, t) ==            \* kv with the integer knot t inserted (sorted)
  LET c == Cardinality({j \in 1..Len(kv) : kv[j] <= t})
  IN Tab(Len(kv) + 1, LAMBDA j : IF j <= c THEN kv[j] ELSE IF j = c + 1 THEN t ELSE kv[j - 1])

(* (n+1) x n matrix (sequence of rows) mapping coefficients w.r.t. kv to coefficients w.r.t. InsertKnot(kv,t):
   new_i = a_i old_i + (1 - a_i) old_{i-1},  a_i = 1 (i <= k-p), (t - t_i)/(t_{i+p} - t_i) (k-p < i <= k), 0 (i > k),
   k = Span(kv, t).  KFirst(kv) < t < KLast(kv).                                                                     *)
InsAlpha(kv, p, t, i) ==
  LET k == Span(kv, R(t)) IN
  IF i <= k - p THEN One ELSE IF i > k THEN Zero
  ELSE Q(t - Kn(kv, i), Kn(kv, i + p) - Kn(kv, i))
InsMat(kv, p, t) ==
  LET n == NumDofs(kv, p) IN
  Tab(n + 1, LAMBDA r : Tab(n, LAMBDA c :
      LET i == r - 1  j == c - 1 IN
      IF j = i     THEN (IF i <= n - 1 THEN InsAlpha(kv, p, t, i) ELSE Zero)
      ELSE IF j = i - 1 THEN Sub(One, IF i <= n - 1 THEN InsAlpha(kv, p, t, i) ELSE Zero)
      ELSE Zero))

IsRefinement(kv1, kv2) ==       \* kv2 contains every knot of kv1 at least as often
  \A t \in SeqSet(kv1) : KMult(kv1, t) <= KMult(kv2, t)
NewKnots(kv1, kv2) ==           \* the knots to insert, ascending, with repetition
  LET S == SeqSet(kv2)
      ts == SortedSeq(S)
  IN FoldLeft(LAMBDA acc, m : acc \o [x \in 1..(KMult(kv2, ts[m]) - KMult(kv1, ts[m])) |-> ts[m]], <<>>, Ints(Len(ts)))

(* prolongation matrix NumDofs(kv2) x NumDofs(kv1): composition of Boehm steps, knots inserted in ascending order *)
MatMulT(A, B) ==            \* A * B as explicit tuples (Rat.MatMul is lazy: repeated products would recompute)
  Tab(Len(A), LAMBDA i : Tab(Len(B[1]), LAMBDA j :
      FoldLeft(LAMBDA acc, r : IF IsZero(A[i][r]) \/ IsZero(B[r][j]) THEN acc ELSE Add(acc, Mul(A[i][r], B[r][j])),
               Zero, Ints(Len(B)))))
ProlongState(kv1, p, ts) ==
  FoldLeft(LAMBDA st, m : [kv |-> InsertKnot(st.kv, ts[m]),
                           P |-> MatMulT(InsMat(st.kv, p, ts[m]), st.P)],
           [kv |-> kv1, P |-> Tab(NumDofs(kv1, p), LAMBDA i : Tab(NumDofs(kv1, p), LAMBDA j : IF i = j THEN One ELSE Zero))],
           Ints(Len(ts)))
Prolong(kv1, kv2, p) == ProlongState(kv1, p, NewKnots(kv1, kv2)).P

-------------------------------------------------------------------------------
(* tensor products, pyiga axis convention (axis 1 = slowest = z or y, LAST axis = x) *)
TPShape(kvs, ps)   == [a \in 1..Len(kvs) |-> NumDofs(kvs[a], ps[a])]
ShapeSize(shape)   == FoldLeft(LAMBDA acc, a : acc * shape[a], 1, Ints(Len(shape)))
TPNumDofs(kvs, ps) == ShapeSize(TPShape(kvs, ps))
Stride(shape, a)   == FoldLeft(LAMBDA acc, b : acc * shape[a + b], 1, Ints(Len(shape) - a))
UnravelC(I, shape) == [a \in 1..Len(shape) |-> (I \div Stride(shape, a)) % shape[a]]     \* 0-based flat -> 0-based multi
RavelC(mi, shape)  == FoldLeft(LAMBDA acc, a : acc * shape[a] + mi[a], 0, Ints(Len(shape)))
AxisOfCoord(d, c)  == d - c + 1          \* coordinate c (1 = x, 2 = y, 3 = z)  <->  axis (1-based) d - c + 1
CoordOfAxis(d, a)  == d - a + 1
ToAxisOrder(X)     == [a \in 1..Len(X) |-> X[Len(X) + 1 - a]]       \* xyz point -> per-axis parameters (and back)

(* D^ks of the tensor-product spline with flat coefficients `coeffs`, at the point whose axis-a parameter is us[a];
   ks[a] = derivative order along axis a.  rows[a] = DerivRow(kvs[a], ps[a], ks[a], us[a]).                        *)
MultiIndices(shape) == Tab(ShapeSize(shape), LAMBDA I : UnravelC(I - 1, shape))     \* [I] = 0-based multi-index of flat I
TPContractMI(rows, mis, coeffs) ==      \* mis = MultiIndices(shape), precomputed by the caller
  FoldLeft(LAMBDA acc, I :
             IF IsZero(coeffs[I]) THEN acc ELSE
             LET w == FoldLeft(LAMBDA pr, a : IF IsZero(pr) THEN pr ELSE Mul(pr, rows[a][mis[I][a] + 1]), One, Ints(Len(rows)))
             IN IF IsZero(w) THEN acc ELSE Add(acc, Mul(coeffs[I], w)),
           Zero, Ints(Len(mis)))
TPContract(rows, shape, coeffs) == TPContractMI(rows, MultiIndices(shape), coeffs)
TPEval(kvs, ps, coeffs, ks, us) ==
  TPContract(Tab(Len(kvs), LAMBDA a : DerivRow(kvs[a], ps[a], ks[a], us[a])), TPShape(kvs, ps), coeffs)
TPBasis(kvs, ps, mi, ks, us) ==   \* D^ks of the tensor-product basis function with 0-based multi-index mi
  FoldLeft(LAMBDA pr, a : Mul(pr, DNB(kvs[a], mi[a], ps[a], ks[a], us[a])), One, Ints(Len(kvs)))

-------------------------------------------------------------------------------
(* enumeration of open knot vectors and of sample points (used by the *Eval / *PC modules and their cfgs) *)
BreakSets(bmax, maxgap, maxspans) ==    \* breakpoint sets {0 = b0 < b1 < ..} within 0..bmax, gaps <= maxgap
  {S \in SUBSET (0..bmax) :
     /\ 0 \in S /\ Cardinality(S) >= 2 /\ Cardinality(S) <= maxspans + 1
     /\ \A b \in S : b = 0 \/ \E a \in S : a < b /\ b - a <= maxgap /\ \A c \in S : ~(a < c /\ c < b)}

KVFrom(bs, mu, p) ==      \* bs: ascending breakpoints, mu: multiplicities of the interior ones (mu[j] for bs[j+1])
  LET m == Len(bs) IN
  FoldLeft(LAMBDA acc, j : acc \o [x \in 1..(IF j = 1 \/ j = m THEN p + 1 ELSE mu[j - 1]) |-> bs[j]], <<>>, Ints(m))

RECURSIVE MultSeqs(_, _)
MultSeqs(n, mmax) ==      \* all sequences of length n over 1..mmax
  IF n = 0 THEN {<<>>} ELSE {Append(s, x) : s \in MultSeqs(n - 1, mmax), x \in 1..mmax}

OpenKVs(p, bmax, maxgap, maxspans, maxmult) ==    \* interior multiplicities 1..min(maxmult, max(p,1))
  UNION {{KVFrom(SortedSeq(S), mu, p) : mu \in MultSeqs(Cardinality(S) - 2, IntMin(maxmult, IntMax(p, 1)))}
          : S \in BreakSets(bmax, maxgap, maxspans)}

(* every breakpoint, and in every span the quarter points and the midpoint; ascending *)
SamplePoints(kv) ==
  LET ms == Mesh(kv) IN
  FoldLeft(LAMBDA acc, m :
             LET a == ms[m]  h == ms[m + 1] - ms[m] IN
             acc \o <<R(a), Q(4 * a + h, 4), Q(2 * a + h, 2), Q(4 * a + 3 * h, 4)>>,
           <<>>, Ints(Len(ms) - 1)) \o <<R(KLast(kv))>>
HalfPoints(kv) ==       \* breakpoints and span midpoints only; ascending
  LET ms == Mesh(kv) IN
  FoldLeft(LAMBDA acc, m : acc \o <<R(ms[m]), Q(ms[m] + ms[m + 1], 2)>>, <<>>, Ints(Len(ms) - 1)) \o <<R(KLast(kv))>>
IsBreakpoint(kv, u) == u[2] = 1 /\ u[1] \in SeqSet(kv)
===============================================================================
