--------------------------- MODULE FindSpanProof ---------------------------
(* C19 / C02 -- pyx_findspan (pyiga/bspline_cy.pyx), for ALL knot vectors, degrees and parameter values.

       if u >= kv[n - p - 1]: return n - p - 2
       a = 0; b = n - 1
       while b - a > 1:
           c = a + (b - a) // 2
           if kv[c] > u: b = c  else: a = c
       return a

   The TLC models (FindSpanPC.tla, KnotVec.tla) check the PlusCal transcription of this loop on every small open knot
   vector.  Here the same three-label algorithm is proved correct without bounds with TLAPS: only the ORDER of the knots
   matters, so knots and the parameter are integers (any finite set of rationals embeds order-isomorphically).
   FindSpanPC.tla instantiates this module (knots and sample points scaled by 4) and TLC checks there that every step of
   the PlusCal transcription is a step of the algorithm proved here (property Proved!Spec).

   Assumptions (an open knot vector of degree p with n knots): non-decreasing, kv[p] <= u <= kv[n-p-1], and the last
   interior knot lies strictly left of the right end (end multiplicity exactly p + 1).
   Proved: the loop invariant is inductive; on termination  p <= res <= n-p-2,  kv[res] < kv[res+1]  (non-empty span),
   kv[res] <= u, and u < kv[res+1] unless u is the right end, where res is the last non-empty span; the span with these
   properties is unique; b - a decreases strictly in every iteration (termination).                                  *)
EXTENDS Integers, TLAPS

VARIABLES len, p, kv, u,         \* the input: never changed
          pc, lo, hi, res

vars == <<len, p, kv, u, pc, lo, hi, res>>

Input == /\ len \in Nat /\ p \in Nat /\ len >= 2 * p + 2
         /\ kv \in [0 .. len - 1 -> Int]
         /\ \A i, j \in 0 .. len - 1 : i <= j => kv[i] <= kv[j]
         /\ u \in Int /\ kv[p] <= u /\ u <= kv[len - p - 1]
         /\ kv[len - p - 2] < kv[len - p - 1]

Init == Input /\ lo = 0 /\ hi = 0 /\ res = -1 /\ pc = "Start"

Start == /\ pc = "Start"
         /\ IF kv[len - p - 1] <= u
               THEN res' = len - p - 2 /\ pc' = "Done" /\ UNCHANGED <<lo, hi>>
               ELSE lo' = 0 /\ hi' = len - 1 /\ pc' = "Loop" /\ res' = res
         /\ UNCHANGED <<len, p, kv, u>>

Mid == lo + ((hi - lo) \div 2)

Loop == /\ pc = "Loop"
        /\ IF hi - lo > 1
              THEN /\ IF u < kv[Mid] THEN hi' = Mid /\ lo' = lo
                                     ELSE lo' = Mid /\ hi' = hi
                   /\ pc' = "Loop" /\ res' = res
              ELSE res' = lo /\ pc' = "Done" /\ UNCHANGED <<lo, hi>>
        /\ UNCHANGED <<len, p, kv, u>>

Next == Start \/ Loop
Spec == Init /\ [][Next]_vars

-----------------------------------------------------------------------------
IsSpan(r) == /\ r \in Int /\ p <= r /\ r <= len - p - 2
             /\ kv[r] < kv[r + 1] /\ kv[r] <= u
             /\ (u < kv[r + 1] \/ (u = kv[len - p - 1] /\ r = len - p - 2))

Correct == pc = "Done" => IsSpan(res)

LoopInv == pc = "Loop" => /\ 0 <= lo /\ lo < hi /\ hi <= len - 1
                          /\ kv[lo] <= u /\ u < kv[hi] /\ u < kv[len - p - 1]

TypeOK == /\ pc \in {"Start", "Loop", "Done"}
          /\ lo \in Int /\ hi \in Int /\ res \in Int

Inv == Input /\ TypeOK /\ LoopInv /\ Correct

-----------------------------------------------------------------------------
LEMMA InitInv == Init => Inv
  BY DEF Init, Inv, Input, TypeOK, LoopInv, Correct

Same == len' = len /\ p' = p /\ kv' = kv /\ u' = u

LEMMA InputStable == Input /\ Same => Input'
  BY DEF Input, Same

LEMMA SpanStable == ASSUME NEW r \in Int, IsSpan(r), Same, res' = r PROVE IsSpan(res)'
  BY DEF IsSpan, Same

LEMMA StartInv == Inv /\ Start => Inv'
  <1> SUFFICES ASSUME Inv, Start PROVE Inv'
    OBVIOUS
  <1> USE DEF Inv
  <1>s. Same /\ pc = "Start"
    BY DEF Start, Same
  <1>i. Input /\ TypeOK
    OBVIOUS
  <1>1. Input'
    BY <1>s, <1>i, InputStable
  <1>n. len \in Nat /\ p \in Nat /\ len >= 2 * p + 2
    BY <1>i DEF Input
  <1>2. CASE kv[len - p - 1] <= u
    <2>1. pc' = "Done" /\ res' = len - p - 2 /\ lo' = lo /\ hi' = hi
      BY <1>2 DEF Start
    <2>2. len - p - 2 \in Int
      BY <1>n
    <2>3. IsSpan(len - p - 2)
      <3>1. u = kv[len - p - 1]
        BY <1>2, <1>i, <1>n DEF Input
      <3>2. len - p - 2 \in 0 .. len - 1 /\ len - p - 1 \in 0 .. len - 1 /\ (len - p - 2) + 1 = len - p - 1
        BY <1>n
      <3>3. kv[len - p - 2] <= kv[len - p - 1]
        BY <3>2, <1>i DEF Input
      <3>4. kv[len - p - 2] < kv[len - p - 1]
        BY <1>i DEF Input
      <3>5. kv[len - p - 2] \in Int /\ kv[len - p - 1] \in Int
        BY <3>2, <1>i DEF Input
      <3> QED BY <1>n, <3>1, <3>2, <3>4, <3>5 DEF IsSpan
    <2>4. IsSpan(res)'
      BY <2>1, <2>2, <2>3, <1>s, SpanStable
    <2>5. TypeOK'
      BY <2>1, <2>2, <1>i DEF TypeOK
    <2>6. LoopInv'
      BY <2>1 DEF LoopInv
    <2> QED BY <1>1, <2>4, <2>5, <2>6 DEF Correct
  <1>3. CASE ~(kv[len - p - 1] <= u)
    <2>1. pc' = "Loop" /\ lo' = 0 /\ hi' = len - 1 /\ res' = res
      BY <1>3 DEF Start
    <2>2. 0 \in 0 .. len - 1 /\ p \in 0 .. len - 1 /\ len - p - 1 \in 0 .. len - 1 /\ len - 1 \in 0 .. len - 1
      BY <1>n
    <2>3. kv[0] <= kv[p] /\ kv[len - p - 1] <= kv[len - 1]
      BY <2>2, <1>n, <1>i DEF Input
    <2>4. kv[0] \in Int /\ kv[p] \in Int /\ kv[len - p - 1] \in Int /\ kv[len - 1] \in Int /\ u \in Int
      BY <2>2, <1>i DEF Input
    <2>5. kv[0] <= u /\ u < kv[len - 1] /\ u < kv[len - p - 1]
      BY <1>3, <2>3, <2>4, <1>i DEF Input
    <2>6. (0 <= lo /\ lo < hi /\ hi <= len - 1 /\ kv[lo] <= u /\ u < kv[hi] /\ u < kv[len - p - 1])'
      BY <2>1, <2>5, <1>n, <1>s DEF Same
    <2>7. TypeOK'
      BY <2>1, <1>n, <1>i DEF TypeOK
    <2> QED BY <1>1, <2>1, <2>6, <2>7 DEF LoopInv, Correct
  <1> QED BY <1>2, <1>3

LEMMA HalfFacts == \A d \in Int : d > 1 => (d \div 2) \in Int /\ (d \div 2) >= 1 /\ (d \div 2) < d
  OBVIOUS

LEMMA MidFacts == ASSUME lo \in Int, hi \in Int, hi - lo > 1
                  PROVE  Mid \in Int /\ lo < Mid /\ Mid < hi
  <1> DEFINE d == hi - lo
  <1>1. d \in Int /\ d > 1
    OBVIOUS
  <1>2. (d \div 2) \in Int /\ (d \div 2) >= 1 /\ (d \div 2) < d
    BY <1>1, HalfFacts
  <1>3. Mid = lo + (d \div 2)
    BY DEF Mid
  <1>4. hi = lo + d
    OBVIOUS
  <1> HIDE DEF d
  <1> QED BY <1>1, <1>2, <1>3, <1>4

LEMMA SpanFromBracket == ASSUME Input, NEW a \in Int, 0 <= a, a + 1 <= len - 1,
                                 kv[a] <= u, u < kv[a + 1], u < kv[len - p - 1]
                          PROVE  IsSpan(a)
  <1>n. len \in Nat /\ p \in Nat /\ len >= 2 * p + 2 /\ u \in Int
    BY DEF Input
  <1>m. \A i, j \in 0 .. len - 1 : i <= j => kv[i] <= kv[j]
    BY DEF Input
  <1>3. a \in 0 .. len - 1 /\ a + 1 \in 0 .. len - 1 /\ p \in 0 .. len - 1 /\ len - p - 1 \in 0 .. len - 1
    BY <1>n
  <1>3a. kv[a] \in Int /\ kv[a + 1] \in Int /\ kv[p] \in Int /\ kv[len - p - 1] \in Int
    BY <1>3 DEF Input
  <1>3b. kv[p] <= u /\ u <= kv[len - p - 1]
    BY DEF Input
  <1>4. kv[a] < kv[a + 1]
    BY <1>3a, <1>n
  <1>5. p <= a
    <2> SUFFICES ASSUME a + 1 <= p PROVE FALSE
      BY <1>n
    <2>1. kv[a + 1] <= kv[p]
      BY <1>3, <1>m
    <2> QED BY <2>1, <1>3a, <1>3b, <1>n
  <1>6. a <= len - p - 2
    <2> SUFFICES ASSUME len - p - 1 <= a PROVE FALSE
      BY <1>n
    <2>1. kv[len - p - 1] <= kv[a]
      BY <1>3, <1>m
    <2> QED BY <2>1, <1>3a, <1>n
  <1> QED BY <1>4, <1>5, <1>6 DEF IsSpan

LEMMA LoopStepInv == Inv /\ Loop => Inv'
  <1> SUFFICES ASSUME Inv, Loop PROVE Inv'
    OBVIOUS
  <1> USE DEF Inv
  <1>s. Same /\ pc = "Loop"
    BY DEF Loop, Same
  <1>i. Input /\ TypeOK /\ LoopInv
    OBVIOUS
  <1>t. lo \in Int /\ hi \in Int /\ res \in Int
    BY <1>i DEF TypeOK
  <1>0. 0 <= lo /\ lo < hi /\ hi <= len - 1 /\ kv[lo] <= u /\ u < kv[hi] /\ u < kv[len - p - 1]
    BY <1>s, <1>i DEF LoopInv
  <1>1. Input'
    BY <1>s, <1>i, InputStable
  <1>n. len \in Nat /\ p \in Nat /\ len >= 2 * p + 2 /\ u \in Int
    BY <1>i DEF Input
  <1>2. CASE hi - lo > 1
    <2>1. Mid \in Int /\ lo < Mid /\ Mid < hi
      BY <1>t, <1>2, MidFacts
    <2>2. pc' = "Loop" /\ res' = res
      BY <1>2 DEF Loop
    <2>3. Mid \in 0 .. len - 1
      BY <1>0, <1>t, <1>n, <2>1
    <2>3a. kv[Mid] \in Int
      BY <2>3, <1>i DEF Input
    <2>4. CASE u < kv[Mid]
      <3>1. hi' = Mid /\ lo' = lo
        BY <1>2, <2>4 DEF Loop
      <3>2. (0 <= lo /\ lo < hi /\ hi <= len - 1 /\ kv[lo] <= u /\ u < kv[hi] /\ u < kv[len - p - 1])'
        BY <3>1, <1>0, <1>t, <1>n, <2>1, <2>4, <1>s DEF Same
      <3>3. TypeOK'
        BY <3>1, <2>1, <2>2, <1>t DEF TypeOK
      <3> QED BY <1>1, <2>2, <3>2, <3>3 DEF LoopInv, Correct
    <2>5. CASE ~(u < kv[Mid])
      <3>1. lo' = Mid /\ hi' = hi
        BY <1>2, <2>5 DEF Loop
      <3>2. kv[Mid] <= u
        BY <2>3a, <2>5, <1>n
      <3>3. (0 <= lo /\ lo < hi /\ hi <= len - 1 /\ kv[lo] <= u /\ u < kv[hi] /\ u < kv[len - p - 1])'
        BY <3>1, <3>2, <1>0, <1>t, <1>n, <2>1, <1>s DEF Same
      <3>4. TypeOK'
        BY <3>1, <2>1, <2>2, <1>t DEF TypeOK
      <3> QED BY <1>1, <2>2, <3>3, <3>4 DEF LoopInv, Correct
    <2> QED BY <2>4, <2>5
  <1>3. CASE ~(hi - lo > 1)
    <2>1. pc' = "Done" /\ res' = lo /\ lo' = lo /\ hi' = hi
      BY <1>3 DEF Loop
    <2>2. hi = lo + 1
      <3>1. lo < hi /\ ~(hi - lo > 1)
        BY <1>0, <1>3
      <3> QED BY <3>1, <1>t
    <2>7. IsSpan(lo)
      BY <1>0, <1>t, <1>i, <2>2, SpanFromBracket
    <2>8. IsSpan(res)'
      BY <2>1, <2>7, <1>t, <1>s, SpanStable
    <2>9. TypeOK' /\ LoopInv'
      BY <2>1, <1>t DEF TypeOK, LoopInv
    <2> QED BY <1>1, <2>8, <2>9 DEF Correct
  <1> QED BY <1>2, <1>3

THEOREM Safety == Spec => []Inv
  <1>1. Inv /\ UNCHANGED vars => Inv'
    BY DEF Inv, Input, TypeOK, LoopInv, Correct, IsSpan, vars
  <1>2. Inv /\ [Next]_vars => Inv'
    BY <1>1, StartInv, LoopStepInv DEF Next
  <1> QED BY InitInv, <1>2, PTL DEF Spec

(* the span found is THE span: at most one r satisfies IsSpan *)
THEOREM Unique == ASSUME Input, NEW r \in Int, NEW s \in Int, IsSpan(r), IsSpan(s)
                  PROVE  r = s
  <1>1. r \in 0 .. len - 1 /\ r + 1 \in 0 .. len - 1 /\ s \in 0 .. len - 1 /\ s + 1 \in 0 .. len - 1
    BY DEF Input, IsSpan
  <1>2. ASSUME NEW a \in Int, NEW b \in Int, IsSpan(a), IsSpan(b), a < b,
               a \in 0 .. len - 1, a + 1 \in 0 .. len - 1, b \in 0 .. len - 1, b + 1 \in 0 .. len - 1
        PROVE  FALSE
    <2>1. kv[a + 1] <= kv[b]
      BY <1>2 DEF Input
    <2>2. kv[b] <= u
      BY <1>2 DEF IsSpan
    <2>3. u < kv[a + 1] \/ (u = kv[len - p - 1] /\ a = len - p - 2)
      BY <1>2 DEF IsSpan
    <2>4. b <= len - p - 2
      BY <1>2 DEF IsSpan
    <2>5. kv[a + 1] \in Int /\ kv[b] \in Int
      BY <1>2 DEF Input
    <2> QED BY <1>2, <2>1, <2>2, <2>3, <2>4, <2>5 DEF Input
  <1> QED BY <1>1, <1>2

(* termination: every iteration that stays in the loop shrinks the bracket *)
THEOREM Variant == Inv /\ Loop /\ pc' = "Loop" => hi' - lo' < hi - lo /\ hi' - lo' >= 1
  <1> SUFFICES ASSUME Inv, Loop, pc' = "Loop" PROVE hi' - lo' < hi - lo /\ hi' - lo' >= 1
    OBVIOUS
  <1>0. lo \in Int /\ hi \in Int /\ pc = "Loop"
    BY DEF Inv, TypeOK, Loop
  <1>1. hi - lo > 1
    BY DEF Loop
  <1>2. Mid \in Int /\ lo < Mid /\ Mid < hi
    BY <1>0, <1>1, MidFacts
  <1> QED BY <1>0, <1>1, <1>2 DEF Loop
=============================================================================
