---------------------------- MODULE CompileCache ----------------------------
(* C20 (and the disk half of C13) -- the on-disk cache of compiled form modules
   (pyiga/compile.py: compile_cython_module / _compile_cython_module_nocache).

   Several OS processes share one cache directory.  A module name is the digest of its
   generated source, so the *content* a complete artefact of name m must have is m itself;
   what can go wrong is partial (torn/truncated) artefacts under names other processes read.

   Legacy = FALSE : the protocol after the "fix:" commit -- every intermediate artefact lives in a
                    private build directory, the finished .so is published with link(2)
                    (atomic, fails if the name exists), then imported.
   Legacy = TRUE  : the protocol as it stood -- .pyx/.c/.o/.so are written in place under their final
                    names (open(...,'w+') truncates a file another process may be reading).
                    Kept as negative control.

   One action per linearisation point; Crash(p) is enabled in every program counter.          *)
EXTENDS Integers, Sequences, FiniteSets, TLC

CONSTANTS Procs,       \* process ids
          Srcs,        \* module digests (generated sources)
          MaxCrash,    \* bound on the number of crashes (outside fairness)
          MaxReq,      \* requests per process slot (a crashed process is replaced by a fresh one)
          Legacy

VARIABLES pc,          \* per process: program counter
          want,        \* per process: the module it is compiling
          fin,         \* shared final-path artefacts: [m -> [pyx, c, o, so]] each in {"absent","partial","complete"}
          priv,        \* per process: stage reached inside its private build directory (fixed protocol)
          readok,      \* per process: did every input it read so far come from a complete file? (legacy)
          loaded,      \* per process: module loaded into the interpreter ("none" or m)
          crashes,     \* number of crashes so far
          dead,        \* processes whose interpreter was killed by importing a partial .so
          failed,      \* processes whose request ended in an error (ImportError / compile error)
          reqs         \* requests started per process slot

vars == <<pc, want, fin, priv, readok, loaded, crashes, dead, failed, reqs>>

Absent == "absent"   Partial == "partial"   Complete == "complete"
Files  == {"pyx", "c", "o", "so"}

Init ==
  /\ pc = [p \in Procs |-> "idle"]
  /\ want = [p \in Procs |-> CHOOSE m \in Srcs : TRUE]
  /\ fin = [m \in Srcs |-> [f \in Files |-> Absent]]
  /\ priv = [p \in Procs |-> "none"]
  /\ readok = [p \in Procs |-> TRUE]
  /\ loaded = [p \in Procs |-> "none"]
  /\ crashes = 0
  /\ dead = {}
  /\ failed = {}
  /\ reqs = [p \in Procs |-> 0]

SetFin(m, f, v) == fin' = [fin EXCEPT ![m][f] = v]

(* compile_vform -> compile_cython_module: a (fresh) process asks for module m *)
Request(p, m) ==
  /\ pc[p] = "idle" /\ reqs[p] < MaxReq
  /\ want' = [want EXCEPT ![p] = m]
  /\ pc' = [pc EXCEPT ![p] = "import1"]
  /\ reqs' = [reqs EXCEPT ![p] = @ + 1]
  /\ loaded' = [loaded EXCEPT ![p] = "none"]
  /\ readok' = [readok EXCEPT ![p] = TRUE]
  /\ UNCHANGED <<fin, priv, crashes, dead, failed>>

(* importlib.import_module(modname): absent -> ImportError; complete -> loaded;
   partial -> ImportError (most truncations) OR the interpreter dies (SIGBUS/SIGSEGV in dlopen) *)
Import(p, stage, next) ==
  /\ pc[p] = stage
  /\ LET m == want[p]  s == fin[m]["so"] IN
     \/ /\ s = Absent
        /\ pc' = [pc EXCEPT ![p] = next]
        /\ IF next = "error" THEN failed' = failed \cup {p} ELSE UNCHANGED failed
        /\ UNCHANGED <<loaded, dead>>
     \/ /\ s = Complete
        /\ loaded' = [loaded EXCEPT ![p] = m]
        /\ pc' = [pc EXCEPT ![p] = "done"]
        /\ UNCHANGED <<dead, failed>>
     \/ /\ s = Partial
        /\ \/ /\ pc' = [pc EXCEPT ![p] = next]
              /\ IF next = "error" THEN failed' = failed \cup {p} ELSE UNCHANGED failed
              /\ UNCHANGED <<loaded, dead>>
           \/ /\ pc' = [pc EXCEPT ![p] = "killed"]
              /\ dead' = dead \cup {p}
              /\ UNCHANGED <<loaded, failed>>
  /\ UNCHANGED <<want, fin, priv, readok, crashes, reqs>>

Import1(p) == Import(p, "import1", IF Legacy THEN "l_trunc" ELSE "mkdir")
Import2(p) == Import(p, "import2", "error")

-----------------------------------------------------------------------------
(* fixed protocol: everything inside tempfile.mkdtemp(dir=MODDIR) *)
Step(p, from, to, pv) ==
  /\ pc[p] = from
  /\ pc' = [pc EXCEPT ![p] = to]
  /\ priv' = [priv EXCEPT ![p] = pv]
  /\ UNCHANGED <<want, fin, readok, loaded, crashes, dead, failed, reqs>>

MkDir(p)      == Step(p, "mkdir",     "pyx_open",  "dir")
PyxOpen(p)    == Step(p, "pyx_open",  "pyx_write", "pyx_partial")
PyxWrite(p)   == Step(p, "pyx_write", "cythonize", "pyx")
Cythonize(p)  == Step(p, "cythonize", "build",     "c")
Build(p)      == Step(p, "build",     "publish",   "so")          \* cc + ld inside the private directory

Publish(p) ==                      \* os.link(private .so, final name); FileExistsError is ignored
  /\ pc[p] = "publish"
  /\ priv[p] = "so"
  /\ LET m == want[p] IN
     IF fin[m]["so"] = Absent THEN SetFin(m, "so", Complete) ELSE UNCHANGED fin
  /\ pc' = [pc EXCEPT ![p] = "cleanup"]
  /\ UNCHANGED <<want, priv, readok, loaded, crashes, dead, failed, reqs>>

Cleanup(p)    == Step(p, "cleanup", "import2", "none")              \* shutil.rmtree(builddir)

-----------------------------------------------------------------------------
(* legacy protocol: in place under the final names *)
LStep(p, from, to) ==
  /\ pc[p] = from
  /\ pc' = [pc EXCEPT ![p] = to]

LTrunc(p) ==                       \* open(modfile, 'w+'): truncates whatever is there
  /\ LStep(p, "l_trunc", "l_write")
  /\ SetFin(want[p], "pyx", Partial)
  /\ UNCHANGED <<want, priv, readok, loaded, crashes, dead, failed, reqs>>
LWrite(p) ==
  /\ LStep(p, "l_write", "l_cy0")
  /\ SetFin(want[p], "pyx", Complete)
  /\ UNCHANGED <<want, priv, readok, loaded, crashes, dead, failed, reqs>>
LCy0(p) ==                         \* cythonize reads the .pyx (torn if another process truncated it) and starts the .c
  /\ LStep(p, "l_cy0", "l_cy1")
  /\ readok' = [readok EXCEPT ![p] = @ /\ fin[want[p]]["pyx"] = Complete]
  /\ SetFin(want[p], "c", Partial)
  /\ UNCHANGED <<want, priv, loaded, crashes, dead, failed, reqs>>
LCy1(p) ==
  /\ pc[p] = "l_cy1"
  /\ IF readok[p]
     THEN /\ pc' = [pc EXCEPT ![p] = "l_cc0"] /\ SetFin(want[p], "c", Complete) /\ UNCHANGED failed
     ELSE /\ pc' = [pc EXCEPT ![p] = "error"] /\ failed' = failed \cup {p} /\ UNCHANGED fin   \* Cython compile error
  /\ UNCHANGED <<want, priv, readok, loaded, crashes, dead, reqs>>
LCc0(p) ==                         \* cc reads the .c and starts the .o
  /\ LStep(p, "l_cc0", "l_cc1")
  /\ readok' = [readok EXCEPT ![p] = @ /\ fin[want[p]]["c"] = Complete]
  /\ SetFin(want[p], "o", Partial)
  /\ UNCHANGED <<want, priv, loaded, crashes, dead, failed, reqs>>
LCc1(p) ==
  /\ pc[p] = "l_cc1"
  /\ IF readok[p]
     THEN /\ pc' = [pc EXCEPT ![p] = "l_ld0"] /\ SetFin(want[p], "o", Complete) /\ UNCHANGED failed
     ELSE /\ pc' = [pc EXCEPT ![p] = "error"] /\ failed' = failed \cup {p} /\ UNCHANGED fin
  /\ UNCHANGED <<want, priv, readok, loaded, crashes, dead, reqs>>
LLd0(p) ==                         \* ld opens the .so under its FINAL name
  /\ LStep(p, "l_ld0", "l_ld1")
  /\ readok' = [readok EXCEPT ![p] = @ /\ fin[want[p]]["o"] = Complete]
  /\ SetFin(want[p], "so", Partial)
  /\ UNCHANGED <<want, priv, loaded, crashes, dead, failed, reqs>>
LLd1(p) ==
  /\ pc[p] = "l_ld1"
  /\ IF readok[p]
     THEN /\ pc' = [pc EXCEPT ![p] = "import2"] /\ SetFin(want[p], "so", Complete) /\ UNCHANGED failed
     ELSE /\ pc' = [pc EXCEPT ![p] = "error"] /\ failed' = failed \cup {p} /\ UNCHANGED fin
  /\ UNCHANGED <<want, priv, readok, loaded, crashes, dead, reqs>>

-----------------------------------------------------------------------------
Running(p) == pc[p] \notin {"idle", "done", "error", "killed", "toolerror"}

Crash(p) ==                        \* SIGKILL / power loss: shared files stay as they are, private state is garbage
  /\ Running(p)
  /\ crashes < MaxCrash
  /\ crashes' = crashes + 1
  /\ pc' = [pc EXCEPT ![p] = "idle"]
  /\ priv' = [priv EXCEPT ![p] = "none"]
  /\ loaded' = [loaded EXCEPT ![p] = "none"]
  /\ UNCHANGED <<want, fin, readok, dead, failed, reqs>>

ToolFails(p) ==                    \* cython / cc / ld ends with an error although its input is fine (killed by the OOM
  /\ ~Legacy                       \* killer, disk full): the request of THIS process ends with an exception, the
  /\ pc[p] \in {"cythonize", "build"}   \* interpreter lives on, nothing shared was touched; like a crash it is an
  /\ crashes < MaxCrash            \* interruption, so the request is allowed to fail -- the NEXT one is not
  /\ crashes' = crashes + 1
  /\ pc' = [pc EXCEPT ![p] = "toolerror"]
  /\ priv' = [priv EXCEPT ![p] = "none"]
  /\ UNCHANGED <<want, fin, readok, loaded, dead, failed, reqs>>

TimePasses == UNCHANGED vars     \* builds may take arbitrarily long: the protocol has no timing assumption (the
                                 \* harness ages every artefact by an hour in the middle of a race)

(* scripts/clear-cache.py, run by the user while no build is in progress: the whole cache directory disappears; live
   interpreters keep the modules they have loaded and may request further forms afterwards *)
ClearCache ==
  /\ \A p \in Procs : ~Running(p)
  /\ \E m \in Srcs : fin[m]["so"] # Absent
  /\ fin' = [m \in Srcs |-> [f \in Files |-> Absent]]
  /\ UNCHANGED <<pc, want, priv, readok, loaded, crashes, dead, failed, reqs>>

Restart(p) ==                      \* the slot of a finished process is taken by a fresh interpreter
  /\ pc[p] \in {"done", "toolerror"} /\ reqs[p] < MaxReq
  /\ pc' = [pc EXCEPT ![p] = "idle"]
  /\ UNCHANGED <<want, fin, priv, readok, loaded, crashes, dead, failed, reqs>>

Fixed(p)  == MkDir(p) \/ PyxOpen(p) \/ PyxWrite(p) \/ Cythonize(p) \/ Build(p) \/ Publish(p) \/ Cleanup(p)
Leg(p)    == LTrunc(p) \/ LWrite(p) \/ LCy0(p) \/ LCy1(p) \/ LCc0(p) \/ LCc1(p) \/ LLd0(p) \/ LLd1(p)
Work(p)   == Import1(p) \/ Import2(p) \/ (IF Legacy THEN Leg(p) ELSE Fixed(p))

Next == TimePasses \/ ClearCache
        \/ \E p \in Procs : (\E m \in Srcs : Request(p, m)) \/ Work(p) \/ Crash(p) \/ ToolFails(p) \/ Restart(p)

Spec     == Init /\ [][Next]_vars
FairSpec == Spec /\ \A p \in Procs : WF_vars(Work(p))

-----------------------------------------------------------------------------
NoPartialVisible   == \A m \in Srcs : fin[m]["so"] # Partial
NoInterpreterDeath == dead = {}
NoFailedRequest    == failed = {}
LoadedRight        == \A p \in Procs : pc[p] = "done" => loaded[p] = want[p]
NoOverwrite        == [][(\A m \in Srcs : fin[m]["so"] = Complete => fin'[m]["so"] = Complete)
                         \/ (\A m \in Srcs : fin'[m]["so"] = Absent)]_vars       \* ... except by clearing the whole cache
Recovery           == \A p \in Procs : (pc[p] = "import1") ~> (pc[p] \in {"done", "idle", "toolerror"})
                      \* every started request ends with the module loaded, unless the process is crashed
                      \* (-> idle) or one of its build tools was interrupted (-> toolerror); with
                      \* NoFailedRequest/NoInterpreterDeath this excludes error/killed
=============================================================================
