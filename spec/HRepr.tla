-------------------------------- MODULE HRepr --------------------------------
(* Exact representation of the HB and THB bases of a reachable HSpace state on the finest created
   tensor-product level (C04 clauses on the bases; reference for C03, C05, C17).

   Level-l knot vector along axis a (degree p, N*2^l spans) lives on the integer grid of the finest
   model level: breakpoints k * 2^(MaxLev-1-l).  Two-scale matrices come from Boehm knot insertion
   in exact rationals (Rat).  The THB basis is defined by the textbook truncation: when a function is
   expressed on level l+1, the components along level-(l+1) B-splines whose support lies in the
   level-(l+1) region are dropped.                                                              *)
EXTENDS HSpace, Boehm

M == MaxLev - 1
Knots(l, a) ==           \* open knot vector of level l, axis a, as a sequence of integers
  LET p == PP[a]  n == NC(l, a)  h == Pow2(M - l) IN
  [i \in 1..(n + 2 * p + 1) |-> IF i <= p + 1 THEN 0 ELSE IF i > n + p THEN n * h ELSE (i - p - 1) * h]

TwoScale1(l, a) ==       \* B^l_j = SUM_i T[i][j] B^{l+1}_i   (rows: fine, 1-indexed)
  LET p == PP[a]  kv0 == Knots(l, a)  h == Pow2(M - l)
      mids == [m \in 1..NC(l, a) |-> (2 * m - 1) * (h \div 2)]
      st == FoldLeft(LAMBDA s, t : [kv |-> InsKnot(s.kv, t), T |-> InsApply(InsMat(s.kv, p, t), s.T)],
                     [kv |-> kv0, T |-> IdMat(Len(kv0) - p - 1)], mids)
  IN st.T

TS == [l \in 0..(M - 1) |-> [a \in Axes |-> TwoScale1(l, a)]]           \* evaluated once
\* parents of fine function i (0-based) along axis a: coarse functions with nonzero two-scale entry
Par == [l \in 0..(M - 1) |-> [a \in Axes |-> [i \in 0..(NF(l + 1, a) - 1) |->
          {j \in 0..(NF(l, a) - 1) : ~IsZero(TS[l][a][i + 1][j + 1])}]]]

\* coefficient vectors are functions Funs(l) -> Rat
Prolong(l, c) ==         \* level l -> l+1
  [i \in Funs(l + 1) |->
     IF D = 1 THEN SumSeq([n \in 1..Cardinality(Par[l][1][i[1]]) |->
                      LET j == SetToSortSeq(Par[l][1][i[1]], <)[n] IN Mul(TS[l][1][i[1] + 1][j + 1], c[<<j>>])])
     ELSE LET J1 == SetToSortSeq(Par[l][1][i[1]], <)  J2 == SetToSortSeq(Par[l][2][i[2]], <) IN
          SumSeq([n \in 1..(Len(J1) * Len(J2)) |->
             LET j1 == J1[((n - 1) \div Len(J2)) + 1]  j2 == J2[((n - 1) % Len(J2)) + 1] IN
             Mul(Mul(TS[l][1][i[1] + 1][j1 + 1], TS[l][2][i[2] + 1][j2 + 1]), c[<<j1, j2>>])])]

InRegion(l) == {j \in Funs(l) : Supp(l, j) \subseteq Exists(l)}          \* B-splines living in Omega^l

RECURSIVE Lift(_, _, _, _)
Lift(l, c, trunc, top) ==                \* express on level `top`
  IF l = top THEN c
  ELSE LET c1 == Prolong(l, c)
           c2 == IF trunc THEN [i \in Funs(l + 1) |-> IF i \in InRegion(l + 1) THEN Zero ELSE c1[i]] ELSE c1
       IN Lift(l + 1, c2, trunc, top)

Unit(l, j) == [i \in Funs(l) |-> IF i = j THEN One ELSE Zero]
FineSeq(top) == SetToSortSeq(Funs(top), LexLt)                            \* C-order ravel of the fine functions

\* representation matrix: rows = fine functions of level top = L-1 (C order), columns = canonical order
Repr(trunc) ==
  LET top == L - 1  F == Canon(actfun)  RS == FineSeq(top) IN
  [n \in 1..Len(F) |-> LET v == Lift(F[n].l, Unit(F[n].l, F[n].x), trunc, top) IN [r \in 1..Len(RS) |-> v[RS[r]]]]
  \* NB: a sequence of COLUMNS (column n = active function n)

Sparse(cols) ==          \* <<row, col, num, den>> of the nonzeros, 0-based
  LET nr == Len(cols[1]) IN
  SelectSeq([q \in 1..(Len(cols) * nr) |->
               LET c == ((q - 1) \div nr) + 1  r == ((q - 1) % nr) + 1 IN <<r - 1, c - 1, cols[c][r][1], cols[c][r][2]>>],
            LAMBDA e : e[3] # 0)

\* the properties of the bases, evaluated in every reachable state (one evaluation of both matrices per state)
BasisClauses(H, T) ==
  LET nr == Len(H[1])  nc == Len(H) IN
  /\ \A c \in 1..nc : \A r \in 1..nr : T[c][r][1] >= 0                                  \* THB non-negative
  /\ \A r \in 1..nr : SumSeq([c \in 1..nc |-> T[c][r]]) = One                           \* THB partition of unity
  /\ Rank(H) = nc                                                                        \* HB linearly independent
  /\ Rank(T) = nc
  /\ Rank(H \o T) = nc                                                                   \* same space

EmitTS ==        \* once, in the initial state: the exact two-scale matrices (rows fine, columns coarse)
  (DoEmit /\ hist = <<>>) =>
     Emit("TS", [ts |-> [l \in 1..M |-> [a \in Axes |-> TS[l - 1][a]]],
                 nf |-> [l \in 1..MaxLev |-> [a \in Axes |-> NF(l - 1, a)]]])

BasisOK ==
  LET H == Repr(FALSE)  T == Repr(TRUE) IN
  /\ BasisClauses(H, T)
  /\ (DoEmit /\ Len(hist) > 0) =>
        Emit("REPR", [hist |-> hist, L |-> L, nfine |-> Len(FineSeq(L - 1)),
                      canonF |-> Canon(actfun), hb |-> Sparse(H), thb |-> Sparse(T)])
=============================================================================
