---------------------------- MODULE GeoFuncComp ----------------------------
(* C07 -- user-defined (polynomial) functions, compositions geo2 o geo1 and physical gradients.
   One TLC state per case.  TLC checks on the reference itself: Euler's identity sum_b x_b d_b m = deg(m) m for every
   monomial (derivatives of the polynomial maps), that the inner map of a composition stays inside the domain of the
   outer map, det J > 0 and J^T (J^-T grad u) = grad u for the physical gradients; and emits the exact values /
   Jacobians (chain rule J2(G1(u)) J1(u)) for the replay through UserFunction, ComposedFunction, _BoundaryFunction and
   PhysicalGradientFunc.                                                                                             *)
EXTENDS GeoFunc, Emit

CONSTANTS Thorough, NParts, Part, Seed
VARIABLE cid

KV(i) ==
  CASE i = 1 -> [kv |-> <<0,0,2,2>>,         den |-> 1, p |-> 1]       \* [0,2]
    [] i = 2 -> [kv |-> <<0,0,0,1,3,3,3>>,   den |-> 1, p |-> 2]       \* [0,3]
    [] i = 3 -> [kv |-> <<0,0,1,2,2>>,       den |-> 1, p |-> 1]       \* [0,2]
    [] i = 4 -> [kv |-> <<0,0,0,2,2,2>>,     den |-> 1, p |-> 2]       \* [0,2]
Hash(a, b, c) == ((a + 1) * (a + 3) * 5 + 11 * b + 3 * a + 7 * c * c + c + Seed) % 7
KVS(sel)  == Tab(Len(sel), LAMBDA a : KV(sel[a]).kv)
DNS(sel)  == Tab(Len(sel), LAMBDA a : KV(sel[a]).den)
PSS(sel)  == Tab(Len(sel), LAMBDA a : KV(sel[a]).p)
NOf(sel)  == ShapeSize(Tab(Len(sel), LAMBDA a : NumDofs(KV(sel[a]).kv, KV(sel[a]).p)))
Weights(sel, sd) == Tab(NOf(sel), LAMBDA I : Q((Hash(I, 5, sd + 2) % 3) + 1, 2))          \* 1/2, 1, 3/2

Obj(kind, sel, osh, sd) ==        \* coefficients -3..3
  LET P == Tab(NComp(osh), LAMBDA c : Tab(NOf(sel), LAMBDA I : R(Hash(I, c, sd) - 3))) IN
  IF kind = "bsp" THEN MkBsp(KVS(sel), DNS(sel), PSS(sel), osh, P)
  ELSE MkNurbs(KVS(sel), DNS(sel), PSS(sel), osh, P, Weights(sel, sd))

(* an inner map whose image lies in the box  prod_c [0, hi[c]]  (c = 1 is x): control points inside the box *)
Inner(kind, sel, hi, sd) ==
  LET P == Tab(Len(hi), LAMBDA c : Tab(NOf(sel), LAMBDA I : Q(Hash(I, c, sd) % (2 * hi[c] + 1), 2))) IN
  IF kind = "bsp" THEN MkBsp(KVS(sel), DNS(sel), PSS(sel), <<Len(hi)>>, P)
  ELSE MkNurbs(KVS(sel), DNS(sel), PSS(sel), <<Len(hi)>>, P, Weights(sel, sd))
InnerScalar(kind, sel, hi, sd) == [Inner(kind, sel, <<hi>>, sd) EXCEPT !.osh = <<>>]

(* a geometry D -> D close to the identity: Greville lattice + perturbations of size <= 1/8 *)
NearIdentity(kind, sel, sd) ==
  LET D   == Len(sel)
      sh  == Tab(D, LAMBDA a : NumDofs(KV(sel[a]).kv, KV(sel[a]).p))
      mis == MultiIndices(sh)
      gv  == Tab(D, LAMBDA a : Greville(KV(sel[a]).kv, KV(sel[a]).p))
      P   == Tab(D, LAMBDA c : Tab(Len(mis), LAMBDA I :          \* component c (x first) follows axis D - c + 1
                   Add(gv[D - c + 1][mis[I][D - c + 1] + 1], Q((Hash(I, c, sd) % 3) - 1, 8))))
  IN IF kind = "bsp" THEN MkBsp(KVS(sel), DNS(sel), PSS(sel), <<D>>, P)
     ELSE MkNurbs(KVS(sel), DNS(sel), PSS(sel), <<D>>, P, Weights(sel, sd))

M(k, e) == [k |-> R(k), e |-> e]
Polys ==     \* [sup: support per AXIS (integers lo,hi), comps, vec: vector valued]
  << [sup |-> << <<0, 2>> >>, vec |-> FALSE, comps |-> << <<M(1, <<2>>), M(-3, <<1>>), M(2, <<0>>)>> >>],
     [sup |-> << <<-1, 1>> >>, vec |-> TRUE, comps |-> << <<M(1, <<1>>)>>, <<M(2, <<3>>), M(-1, <<0>>)>> >>],
     [sup |-> << <<0, 1>>, <<0, 2>> >>, vec |-> TRUE,
      comps |-> << <<M(1, <<1, 0>>), M(2, <<0, 1>>)>>, <<M(1, <<1, 1>>)>> >>],
     [sup |-> << <<1, 3>>, <<-1, 1>> >>, vec |-> FALSE, comps |-> << <<M(1, <<2, 0>>), M(-1, <<1, 2>>), M(3, <<0, 0>>)>> >>],
     [sup |-> << <<0, 2>>, <<0, 1>> >>, vec |-> TRUE,          \* first component ignores y, second ignores x, third is constant
      comps |-> << <<M(2, <<1, 0>>)>>, <<M(1, <<0, 2>>)>>, <<M(5, <<0, 0>>)>> >>],
     [sup |-> << <<0, 1>>, <<1, 2>>, <<-1, 0>> >>, vec |-> TRUE,
      comps |-> << <<M(1, <<1, 0, 0>>), M(1, <<0, 1, 1>>)>>, <<M(2, <<0, 2, 0>>), M(-1, <<1, 0, 1>>)>>, <<M(1, <<1, 1, 1>>)>> >>],
     [sup |-> << <<0, 2>>, <<0, 1>>, <<0, 3>> >>, vec |-> FALSE, comps |-> << <<M(1, <<0, 0, 2>>), M(2, <<1, 1, 0>>)>> >>],
     \* constant maps: every component ignores every argument (the callable returns plain numbers)
     [sup |-> << <<0, 1>>, <<0, 2>> >>, vec |-> TRUE, comps |-> << <<M(3, <<0, 0>>)>>, <<M(-1, <<0, 0>>)>> >>],
     [sup |-> << <<0, 2>> >>, vec |-> TRUE, comps |-> << <<M(2, <<0>>)>>, <<M(5, <<0>>)>> >>],
     [sup |-> << <<0, 1>>, <<0, 1>> >>, vec |-> FALSE, comps |-> << <<M(4, <<0, 0>>)>> >>],
     [sup |-> << <<0, 1>>, <<0, 1>>, <<0, 1>> >>, vec |-> TRUE, comps |-> << <<M(1, <<0, 0, 0>>)>>, <<M(2, <<0, 0, 0>>)>>, <<M(3, <<0, 0, 0>>)>> >>] >>

(* polynomial inner maps into [0,2] x [0,3]-like boxes, for compositions with a user-defined geo1 *)
InnerPolys ==
  << [sup |-> << <<0, 1>> >>, vec |-> TRUE, comps |-> << <<M(2, <<1>>)>>, <<M(3, <<2>>)>> >>],                   \* t -> (2t, 3t^2)
     [sup |-> << <<0, 1>>, <<0, 1>> >>, vec |-> TRUE,
      comps |-> << <<M(1, <<1, 0>>), M(1, <<0, 1>>)>>, <<M(3, <<1, 1>>)>> >>] >>                                   \* (x+y, 3xy)

BoxGrid(sup, n) ==      \* per axis n+1 equispaced points lo .. hi, shifted per axis so that axes differ
  Tab(Len(sup), LAMBDA a : Tab(n + 1, LAMBDA j : Add(R(sup[a][1]), Q((sup[a][2] - sup[a][1]) * (j - 1), n))))

PolySheet(poly, grid) ==
  LET D == Len(grid)  np == ShapeSize(GridSizes(grid))  nc == Len(poly.comps) IN
  [val |-> Tab(nc, LAMBDA c : Tab(np, LAMBDA J : PolyD(poly.comps[c], GridPoint(grid, J), UnitDs(D, <<>>)))),
   jac |-> Tab(D, LAMBDA b : Tab(nc, LAMBDA c : Tab(np, LAMBDA J : PolyD(poly.comps[c], GridPoint(grid, J), UnitDs(D, <<b>>))))),
   npts |-> np]

ObjGrid(G) == Tab(SDim(G), LAMBDA a : LET hp == HalfPoints(G.kvs[a]) IN Tab(Len(hp), LAMBDA j : Div(hp[j], R(G.dens[a]))))

(* composition: values G2(G1(u)), Jacobians J2(G1(u)) J1(u) *)
ComposeSheet(G2, S1, nc1, D1) ==
  LET np == S1.npts  nc2 == Len(G2.C)
      X(J)  == Tab(nc1, LAMBDA c : S1.val[c][J])
      V  == Tab(np, LAMBDA J : EvalAt(G2, X(J)))               \* [J][c]
      JJ == Tab(np, LAMBDA J : JacAt(G2, X(J)))                \* [J][c][k]
  IN [val |-> Tab(nc2, LAMBDA c : Tab(np, LAMBDA J : V[J][c])),
      jac |-> Tab(D1, LAMBDA b : Tab(nc2, LAMBDA c : Tab(np, LAMBDA J :
                 FoldLeft(LAMBDA acc, k : Add(acc, Mul(JJ[J][c][k], S1.jac[b][k][J])), Zero, Ints(nc1))))),
      npts |-> np]

Kinds == <<"bsp", "nurbs">>
CompCases ==     \* [g1: "obj"|"poly", ...]
  LET box2 == <<2, 3>>          \* geo2 over kvs <<2, 1>>: x in [0,2] (KV 1, last axis), y in [0,3] (KV 2)
      g2s(k, sd) == << Obj(Kinds[k], <<2, 1>>, <<2>>, sd), Obj(Kinds[k], <<2, 1>>, <<>>, sd + 1) >>
      a == FlattenSeq(Tab(2, LAMBDA k1 : FlattenSeq(Tab(2, LAMBDA k2 :
             << [g1 |-> "obj", geo1 |-> Inner(Kinds[k1], <<3, 4>>, box2, 10 * k1 + k2), geo2 |-> g2s(IF k1 = 2 THEN 1 ELSE k2, 3 * k1 + k2)[1]],
                [g1 |-> "obj", geo1 |-> Inner(Kinds[k1], <<4>>, box2, 20 * k1 + k2), geo2 |-> g2s(IF k1 = 2 THEN 1 ELSE k2, 5 * k1 + k2)[2]] >>))))
           \* (a NURBS inner map is combined with B-spline outer maps only: 32-bit rationals)
      b == << [g1 |-> "obj", geo1 |-> Inner("bsp", <<3>>, <<2>>, 31), geo2 |-> Obj("bsp", <<1>>, <<2>>, 32)],          \* 1 -> 1 -> 2
              [g1 |-> "obj", geo1 |-> Inner("nurbs", <<1, 3>>, <<3>>, 33), geo2 |-> Obj("nurbs", <<2>>, <<2>>, 34)],   \* 2 -> 1 -> 2
              [g1 |-> "obj", geo1 |-> InnerScalar("bsp", <<3>>, 2, 35), geo2 |-> Obj("bsp", <<1>>, <<2>>, 36)],        \* scalar geo1
              [g1 |-> "obj", geo1 |-> Inner("bsp", <<3>>, <<2, 3, 2>>, 37), geo2 |-> Obj("nurbs", <<3, 2, 1>>, <<3>>, 38)],  \* 1 -> 3 -> 3
              [g1 |-> "poly", poly |-> InnerPolys[1], geo2 |-> Obj("nurbs", <<2, 1>>, <<2>>, 41)],
              [g1 |-> "poly", poly |-> InnerPolys[2], geo2 |-> Obj("bsp", <<2, 1>>, <<2>>, 42)] >>
  IN a \o b

PGCases ==
  << [u |-> Obj("bsp", <<2>>, <<>>, 51), geo |-> NearIdentity("bsp", <<2>>, 61)],
     [u |-> Obj("bsp", <<3, 4>>, <<>>, 53), geo |-> NearIdentity("bsp", <<3, 4>>, 63)],
     [u |-> Obj("bsp", <<1, 4, 3>>, <<>>, 55), geo |-> NearIdentity("bsp", <<1, 4, 3>>, 65)],
     [u |-> Obj("bsp", <<2>>, <<>>, 52), geo |-> NearIdentity("nurbs", <<2>>, 62)],
     [u |-> Obj("bsp", <<1, 3>>, <<>>, 54), geo |-> NearIdentity("nurbs", <<1, 3>>, 64)] >>

NU == Len(Polys)
NC == Len(CompCases)
NP == Len(PGCases)
Total == NU + NC + NP

Init == cid = 0
Next == cid = 0 /\ cid' \in {i \in 1..Total : (i % NParts) = Part}
Spec == Init /\ [][Next]_cid

UserOK(i) ==
  LET poly == Polys[i]
      grid == BoxGrid(poly.sup, 3)
      S    == PolySheet(poly, grid)
      D    == Len(grid)
  IN \* Euler-type identity as an independent check of the derivative: for every monomial  sum_b x_b d/dx_b m = deg(m) m
     /\ \A c \in 1..Len(poly.comps) : \A m \in 1..Len(poly.comps[c]) : \A J \in {1, S.npts} :
          LET mono == poly.comps[c][m]  X == GridPoint(grid, J)
              deg  == FoldLeft(LAMBDA acc, b : acc + mono.e[b], 0, Ints(D))
          IN FoldLeft(LAMBDA acc, b : Add(acc, Mul(X[b], MonoD(mono, X, UnitDs(D, <<b>>)))), Zero, Ints(D))
             = Mul(R(deg), MonoD(mono, X, UnitDs(D, <<>>)))
     /\ Emit("USER", [id |-> i, poly |-> poly, grid |-> grid, val |-> S.val, jac |-> S.jac])

CompOK(i) ==
  LET cs   == CompCases[i]
      isobj == cs.g1 = "obj"
      grid == IF isobj THEN ObjGrid(cs.geo1) ELSE BoxGrid(cs.poly.sup, 2)
      S1   == IF isobj THEN SheetD(cs.geo1, grid, 1) ELSE PolySheet(cs.poly, grid)
      nc1  == IF isobj THEN Len(cs.geo1.C) ELSE Len(cs.poly.comps)
      D1   == Len(grid)
      G2   == cs.geo2
      S    == ComposeSheet(G2, S1, nc1, D1)
      sup2 == SupportOf(G2)
  IN /\ nc1 = SDim(G2)
     /\ \A J \in 1..S1.npts : \A c \in 1..nc1 :             \* the inner map stays inside the domain of the outer map
          LET s == sup2[nc1 - c + 1] IN Le(s[1], S1.val[c][J]) /\ Le(S1.val[c][J], s[2])
     /\ Emit("COMP", [id |-> i, g1 |-> cs.g1, geo1 |-> IF isobj THEN cs.geo1 ELSE cs.poly, geo2 |-> G2, grid |-> grid,
                      osh |-> G2.osh, val |-> S.val, jac |-> S.jac, inner |-> S1.val])

Det(A) == IF Len(A) = 1 THEN A[1][1]
          ELSE IF Len(A) = 2 THEN Sub(Mul(A[1][1], A[2][2]), Mul(A[1][2], A[2][1]))
          ELSE Add(Sub(Mul(A[1][1], Sub(Mul(A[2][2], A[3][3]), Mul(A[2][3], A[3][2]))),
                       Mul(A[1][2], Sub(Mul(A[2][1], A[3][3]), Mul(A[2][3], A[3][1])))),
                   Mul(A[1][3], Sub(Mul(A[2][1], A[3][2]), Mul(A[2][2], A[3][1]))))
PGOK(i) ==
  LET cs   == PGCases[i]
      grid == ObjGrid(cs.geo)
      Su   == SheetD(cs.u, grid, 1)
      Sg   == SheetD(cs.geo, grid, 1)
      D    == SDim(cs.geo)
      JT(J) == Tab(D, LAMBDA r : Tab(D, LAMBDA c : Sg.jac[r][c][J]))          \* transpose of the Jacobian: [b][c]
      gu(J) == Tab(D, LAMBDA b : Su.jac[b][1][J])
      pg   == Tab(Sg.npts, LAMBDA J : Solve(JT(J), gu(J)))                     \* J^{-T} grad u
  IN /\ \A J \in 1..Sg.npts : Sign(Det(JT(J))) = 1                             \* orientation preserving, invertible
     /\ \A J \in 1..Sg.npts : MatVecT(JT(J), pg[J]) = gu(J)
     /\ Emit("PG", [id |-> i, u |-> cs.u, geo |-> cs.geo, grid |-> grid,
                    val |-> Tab(D, LAMBDA b : Tab(Sg.npts, LAMBDA J : pg[J][b]))])

CaseOK ==
  cid # 0 => IF cid <= NU THEN UserOK(cid) ELSE IF cid <= NU + NC THEN CompOK(cid - NU) ELSE PGOK(cid - NU - NC)
===============================================================================
