---------------------------- MODULE IterDrivers ----------------------------
(* C11 -- the stopping rules of the iterative drivers of pyiga/solvers.py, with the residual norms the loop
   observes chosen nondeterministically from a finite alphabet (scripted callbacks in the replay).

   Driver = "iterative"   iterative_solve(step, A, f, x0, active_dofs, tol, maxiter)  (also the loop behind
                          solve_hmultigrid):
                              res0 = |f - A x0| on the active dofs
                              loop:  x = step(x); res = |f - A x|; iterations += 1
                                     if res / res0 < tol:        return x, iterations
                                     elif iterations >= maxiter: warn; return x, inf
                              if res0 == 0: return x, 0        (start at the exact solution: nothing to do,
                                                                step is not called; since fix 0c60b12)
   Driver = "twogrid"     twogrid(A, f, P, smoother, u0, tol, smooth_steps, maxiter):
                              loop:  smooth_steps x smoother; res = |f - A u|; coarse correction; numiter += 1
                                     if res < tol*res0: break
                                     elif res > 20*res0: print Diverged; break
                                     elif numiter > maxiter: print too many iterations; break
                          (the limit exit is taken after maxiter + 1 iterations -- the code's convention,
                          recorded here as it is; the property only constrains the generic/hierarchical drivers).

   Declarative side (invariants): a driver reports convergence only in a state whose residual meets the
   requested reduction; it never continues after the reduction was met; otherwise it stops exactly at the
   iteration limit and reports it (iterations = infinity for iterative_solve); the number of step / smoother
   calls equals the number of iterations (times smooth_steps).                                            *)
EXTENDS Integers, Sequences, SequencesExt, TLC, Rat, Emit

CONSTANTS Driver, Grid, DoEmit

VARIABLES pc, par, st, hist
vars == <<pc, par, st, hist>>

LtS(a, b) == Sub(a, b)[1] < 0

ResAlphabet == {Zero, Q(1, 4096), Q(1, 1024), Q(1, 256), Q(1, 2), One, R(2), R(32), R(64)}
Res0Alphabet == {Zero, Q(1, 2), One, R(2)}
Tols == {Q(1, 2), Q(1, 1024)}

Params ==
  IF Driver = "iterative"
  THEN { [tol |-> t, maxiter |-> m, smooth |-> 0] : t \in Tols, m \in (IF Grid = 1 THEN {1, 2, 3} ELSE {1, 2, 3, 4}) }
  ELSE { [tol |-> t, maxiter |-> m, smooth |-> s] : t \in Tols, m \in (IF Grid = 1 THEN {0, 1, 2} ELSE {0, 1, 2, 3}),
                                                   s \in {1, 2} }

\* `res / res0 < tol`  (res0 > 0)
Reduced(res, res0, tol) == ~IsZero(res0) /\ LtS(Div(res, res0), tol)

Init ==
  /\ par \in Params
  /\ \E r0 \in Res0Alphabet : st = [it |-> 0, res |-> r0, res0 |-> r0, calls |-> 0]
  /\ pc = "loop"
  /\ hist = <<>>

\* ---------------------------------------------------------------- iterative_solve
ZeroStart ==        \* if res0 == 0: return x, 0
  /\ Driver = "iterative" /\ pc = "loop" /\ st.it = 0 /\ IsZero(st.res0)
  /\ pc' = "converged" /\ UNCHANGED <<par, st, hist>>

IterStep(rho) ==
  /\ Driver = "iterative" /\ pc = "loop" /\ ~IsZero(st.res0)
  /\ LET it == st.it + 1 IN
     /\ st' = [st EXCEPT !.it = it, !.res = rho, !.calls = @ + 1]
     /\ pc' = IF Reduced(rho, st.res0, par.tol) THEN "converged"
              ELSE IF it >= par.maxiter THEN "limit" ELSE "loop"
  /\ hist' = Append(hist, rho)
  /\ UNCHANGED par

\* ---------------------------------------------------------------- twogrid
TwoGridIter(rho) ==
  /\ Driver = "twogrid" /\ pc = "loop"
  /\ LET n == st.it + 1 IN
     /\ st' = [st EXCEPT !.it = n, !.res = rho, !.calls = @ + par.smooth]
     /\ pc' = IF LtS(rho, Mul(par.tol, st.res0)) THEN "converged"
              ELSE IF LtS(Mul(R(20), st.res0), rho) THEN "diverged"
              ELSE IF n > par.maxiter THEN "limit" ELSE "loop"
  /\ hist' = Append(hist, rho)
  /\ UNCHANGED par

Next == ZeroStart \/ \E rho \in ResAlphabet : IterStep(rho) \/ TwoGridIter(rho)
Spec == Init /\ [][Next]_vars

-----------------------------------------------------------------------------
\* reported outcome
Reported == IF pc = "converged" THEN st.it ELSE -1          \* -1 stands for numpy.inf

ConvergedMeansReduced ==
  pc = "converged" =>
     IF Driver = "iterative" THEN \/ IsZero(st.res0) /\ st.it = 0 /\ st.calls = 0       \* already solved
                                  \/ /\ ~IsZero(st.res0) /\ LtS(st.res, Mul(par.tol, st.res0))
                                     /\ 1 <= st.it /\ st.it <= par.maxiter
     ELSE LtS(st.res, Mul(par.tol, st.res0))

\* the loop does not run past a state that met the reduction, and stops at the limit otherwise
NoEarlierStop ==
  \A k \in 1..(Len(hist) - 1) :
     IF Driver = "iterative" THEN ~Reduced(hist[k], st.res0, par.tol)
     ELSE /\ ~LtS(hist[k], Mul(par.tol, st.res0)) /\ ~LtS(Mul(R(20), st.res0), hist[k])

LimitReported ==
  /\ pc = "limit" => /\ st.it = (IF Driver = "iterative" THEN par.maxiter ELSE par.maxiter + 1)
                     /\ Reported = -1
  /\ pc = "loop"  => st.it < (IF Driver = "iterative" THEN par.maxiter ELSE par.maxiter + 1)
  /\ pc = "diverged" => LtS(Mul(R(20), st.res0), st.res)

CallsCounted == st.calls = st.it * (IF Driver = "iterative" THEN 1 ELSE par.smooth)

EmitBeh ==
  (DoEmit /\ pc # "loop") =>
     Emit("BEH", [driver |-> Driver, par |-> par, res0 |-> st.res0, script |-> hist, outcome |-> pc,
                  iterations |-> st.it, calls |-> st.calls])
=============================================================================
