----------------------------- MODULE HSpaceTrace -----------------------------
(* M2 for C04: events recorded from the real HSpace.refine (by the driver and, with PYIGA_VERIF=1, by the
   hook inside HSpace.refine while the repository's own tests run) are checked against HSpace.
   One batch = events of ONE configuration (D, degrees, coarse cells, disparity = the cfg constants).
   Every event carries the projected state before and after the call, the marks passed in and the
   marks returned.  Per event two steps: LoadPre (state := pre), ApplyPost (state' := post) and the
   property-level clauses are evaluated on both; a verdict record is emitted for every event, so the
   harness can require one verdict per event (totality).
   The code-shaped model's prediction (RefineResult) is compared too, but reported as its own clause
   "ModelEq": a different admissible closure is not a violation of the property.               *)
EXTENDS HSpace, Json, IOUtils

Batch  == JsonDeserialize(IOEnv.TRACE_FILE)       \* [events |-> << ev, ... >>]
Events == Batch.events

VARIABLES k, phase
tvars == <<vars, k, phase>>

ToSets(x) == [i \in 1..MaxLev |-> IF i <= Len(x) THEN {x[i][j] : j \in 1..Len(x[i])} ELSE {}]

Load(st) ==
  /\ active' = ToSets(st.active) /\ deact' = ToSets(st.deact)
  /\ actfun' = ToSets(st.actfun) /\ deactfun' = ToSets(st.deactfun)
  /\ L' = st.L

Clauses == [FunChar |-> FunChar, Disjoint |-> Disjoint, Nested |-> Nested, Tiling |-> Tiling,
            DisparityOK |-> DisparityOK, LevelsOK |-> LevelsOK]

StepOK(e) ==          \* the mesh changed by exactly the returned marks, which contain the given marks
  LET m  == ToSets(e.marks_out)
      mi == ToSets(e.marks_in) IN
  /\ \A i \in 1..MaxLev : mi[i] \subseteq m[i]
  /\ \A i \in 1..MaxLev : m[i] \subseteq active[i]
  /\ \A i \in 1..MaxLev : deact'[i] = deact[i] \cup m[i]
  /\ \A i \in 1..MaxLev : active'[i] = (active[i] \ m[i]) \cup (IF i = 1 THEN {} ELSE Children(m[i - 1]))
  /\ (Disp = 0) => (m = mi)

ModelEq(e) ==
  LET r == RefineResult(ToSets(e.marks_in)) IN
  /\ r.active = active' /\ r.deact = deact' /\ r.actfun = actfun' /\ r.deactfun = deactfun'
  /\ r.m = ToSets(e.marks_out)

LoadPre ==
  /\ phase = "post" /\ k < Len(Events)
  /\ k' = k + 1 /\ phase' = "pre"
  /\ Load(Events[k + 1].pre)
  /\ hist' = hist

ApplyPost ==
  /\ phase = "pre"
  /\ k' = k /\ phase' = "post"
  /\ Load(Events[k].post)
  /\ hist' = hist
  /\ Emit("EV", [k |-> k, id |-> Events[k].id, pre |-> Clauses, post |-> Clauses',
                 StepOK |-> StepOK(Events[k]), ModelEq |-> ModelEq(Events[k])])

TraceInit == Init /\ k = 0 /\ phase = "post"
TraceNext == LoadPre \/ ApplyPost
TraceSpec == TraceInit /\ [][TraceNext]_tvars
Consumed  == TLCGet("stats").diameter - 1 = 2 * Len(Events)
=============================================================================
