----------------------------- MODULE GeoFuncOps -----------------------------
(* C07 -- "no operation on an existing geometry object alters that object".

   State:   live = the sequence of geometry objects created so far (their control nets = fingerprints),
            hist = the operations applied so far (history variable, hidden by the VIEW).
   Actions: every operation of the library picks its operand(s) among the live objects and APPENDS its result.
   Property (action property OperandsUnchanged): an action never changes an existing entry of `live`; plus the state
   invariant that every live object is a well-formed control net.  In the model this holds by construction (the
   operations are functions of control nets); the content of the check is the BINDING: the driver replays every
   emitted transition on real pyiga objects and compares byte fingerprints (knots, coefficients, support override) of
   ALL live objects before and after each real operation and each evaluation, and the result with the control net
   (values on a small grid) this module computes.                                                                   *)
EXTENDS GeoFunc, Emit

CONSTANTS Universe,     \* selects the initial objects
          MaxSteps,     \* bound on the number of operations in a history
          MaxLive,      \* bound on the number of live objects
          DoEmit

VARIABLES live, hist,
          origin        \* origin[k] = j if live[k] was made by copy() of live[j], else 0
vars == <<live, hist, origin>>
View == <<live, origin, Len(hist)>>    \* the step bound depends on Len(hist)

K1 == <<0,0,2,2>>          \* p = 1, 2 dofs
K2 == <<0,0,1,2,2>>        \* p = 1, 3 dofs
K3 == <<0,0,0,1,1,1>>      \* p = 2, 3 dofs
RR(s) == [i \in 1..Len(s) |-> R(s[i])]

InitObjs ==
  CASE Universe = 1 ->       \* curves
         << MkBsp(<<K2>>, <<1>>, <<1>>, <<2>>, << RR(<<0,1,3>>), RR(<<1,-1,2>>) >>),
            MkNurbs(<<K3>>, <<1>>, <<2>>, <<2>>, << RR(<<1,2,0>>), RR(<<0,2,3>>) >>, <<One, Q(1,2), R(2)>>),
            MkBsp(<<K1>>, <<1>>, <<1>>, <<>>, << RR(<<2,-1>>) >>) >>
    [] Universe = 4 ->       \* two curves (quick tier, depth 2)
         << MkBsp(<<K2>>, <<1>>, <<1>>, <<2>>, << RR(<<0,1,3>>), RR(<<1,-1,2>>) >>),
            MkNurbs(<<K3>>, <<1>>, <<2>>, <<>>, << RR(<<1,2,0>>) >>, <<One, Q(1,2), R(2)>>) >>
    [] Universe = 2 ->       \* a surface, a curve and a scalar NURBS curve
         << MkBsp(<<K1, K2>>, <<1,1>>, <<1,1>>, <<2>>, << RR(<<0,1,2,0,1,3>>), RR(<<0,0,1,2,2,2>>) >>),
            MkBsp(<<K3>>, <<1>>, <<2>>, <<2>>, << RR(<<1,0,-1>>), RR(<<0,2,1>>) >>),
            MkNurbs(<<K1>>, <<1>>, <<1>>, <<>>, << RR(<<1,3>>) >>, <<One, R(2)>>) >>
    [] Universe = 3 ->       \* a NURBS surface and a B-spline curve with three components
         << MkNurbs(<<K2, K1>>, <<1,1>>, <<1,1>>, <<2>>, << RR(<<0,2,0,2,1,3>>), RR(<<0,0,1,1,3,2>>) >>,
                    <<One, R(2), One, Q(1,2), One, One>>),
            MkBsp(<<K1>>, <<1>>, <<1>>, <<3>>, << RR(<<0,1>>), RR(<<2,2>>), RR(<<-1,0>>) >>) >>

Leaf(i) == [op |-> "obj", obj |-> live[i]]
Dim(G)  == IF Len(G.osh) = 0 THEN 1 ELSE G.osh[1]

(* the step records are recipes whose operands are indices into `live` (a, b) -- the driver applies them to the real
   objects with the same indices; StepRecipe turns one into a recipe over control nets for GeoFunc!Build *)
StepRecipe(st) ==
  IF "b" \in DOMAIN st THEN [st EXCEPT !.a = Leaf(st.a), !.b = Leaf(st.b)] ELSE [st EXCEPT !.a = Leaf(st.a)]

UnarySteps(i) ==       \* the unary operations applicable to live[i], one parameter choice each
  LET G == live[i]  nc == Len(G.C)  D == SDim(G)  vec == Len(G.osh) = 1 IN
  {[op |-> "translate", a |-> i, arg |-> <<Q(3, 2)>>, sc |-> TRUE],
   [op |-> "scale", a |-> i, arg |-> <<R(-2)>>, sc |-> TRUE],
   [op |-> "copy", a |-> i], [op |-> "asnurbs", a |-> i], [op |-> "asvector", a |-> i]}
  \cup (IF vec /\ nc >= 2 THEN {[op |-> "translate", a |-> i, arg |-> [c \in 1..nc |-> R(c - 2)], sc |-> FALSE],
                                [op |-> "scale", a |-> i, arg |-> [c \in 1..nc |-> Q(c, 2)], sc |-> FALSE],
                                [op |-> "getint", a |-> i, i |-> nc - 1],
                                [op |-> "getlist", a |-> i, is |-> <<1, 0>>]} ELSE {})
  \cup (IF vec /\ nc = 2 THEN {[op |-> "rotate", a |-> i, cs |-> <<Q(3, 5), Q(4, 5)>>],
                               [op |-> "matrix", a |-> i, A |-> << <<One, R(2)>>, <<Zero, One>>, <<R(-1), One>> >>]} ELSE {})
  \cup (IF vec /\ nc = 3 THEN {[op |-> "matrix", a |-> i, A |-> << <<One, Zero, R(2)>>, <<Zero, R(-1), One>> >>]} ELSE {})
  \cup (IF D >= 2 THEN {[op |-> "boundary", a |-> i, ax |-> ax, side |-> sd, byname |-> (sd = 1)] : ax \in 0..(D - 1), sd \in {0, 1}}
        ELSE {})
  \cup (IF D <= 2 /\ ~IsNurbs(G) /\ Len(G.osh) <= 1
        THEN {[op |-> "cyl", a |-> i, z0 |-> Zero, z1 |-> R(2), s0 |-> Zero, s1 |-> One]} ELSE {})

BinarySteps(i, j) ==
  LET G1 == live[i]  G2 == live[j] IN
  IF SDim(G1) + SDim(G2) > 3 \/ Len(G1.osh) > 1 \/ Len(G2.osh) > 1 THEN {}
  ELSE {[op |-> "tp", a |-> i, b |-> j]}
       \cup (IF G1.osh = G2.osh THEN {[op |-> "osum", a |-> i, b |-> j], [op |-> "oprod", a |-> i, b |-> j]} ELSE {})

(* The one mutation a user can perform: editing a control point through the documented `coeffs` attribute.  It is offered
   on the two sides of a copy() only (copies are independent objects by contract; other results may legitimately be
   views).  "poke" edits the copy, "pokesrc" the object it was copied from; in both cases exactly that object becomes
   the poked net and the other side stays what it was. *)
Poked(G) == [G EXCEPT !.C[1][1] = Add(@, IF IsNurbs(G) THEN G.W[1] ELSE One)]
PokeSteps == {[op |-> "poke", a |-> k, other |-> origin[k]] : k \in {k \in 1..Len(live) : origin[k] > 0}}
             \cup {[op |-> "pokesrc", a |-> origin[k], other |-> k] : k \in {k \in 1..Len(live) : origin[k] > 0}}

Steps == UNION {UnarySteps(i) : i \in 1..Len(live)} \cup UNION {BinarySteps(i, j) : i \in 1..Len(live), j \in 1..Len(live)}

SmallGrid(G) ==       \* first, middle and last half point per axis
  Tab(SDim(G), LAMBDA a : LET hp == HalfPoints(G.kvs[a])  L == Len(hp) IN
                          <<Div(hp[1], R(G.dens[a])), Div(hp[IF L = 3 THEN 2 ELSE 2 + (a % (L - 2))], R(G.dens[a])), Div(hp[L], R(G.dens[a]))>>)

Init == live = InitObjs /\ hist = <<>> /\ origin = [k \in 1..Len(InitObjs) |-> 0]

Do(st) ==
  LET G == Build(StepRecipe(st)) IN
  /\ live' = Append(live, G)
  /\ origin' = Append(origin, IF st.op = "copy" THEN st.a ELSE 0)
  /\ hist' = Append(hist, st)
  /\ DoEmit => LET grid == SmallGrid(G)  S == SheetD(G, grid, 1) IN
               Emit("STEP", [hist |-> hist', res |-> [kind |-> G.kind, sdim |-> SDim(G), osh |-> G.osh], grid |-> grid,
                             val |-> S.val, jac |-> S.jac])

Poke(st) ==
  LET G == Poked(live[st.a]) IN
  /\ live' = [live EXCEPT ![st.a] = G]
  /\ UNCHANGED origin
  /\ hist' = Append(hist, st)
  /\ DoEmit => LET grid == SmallGrid(G)  S == SheetD(G, grid, 1) IN
               Emit("STEP", [hist |-> hist', res |-> [kind |-> G.kind, sdim |-> SDim(G), osh |-> G.osh], grid |-> grid,
                             val |-> S.val, jac |-> S.jac])

Next == /\ Len(hist) < MaxSteps /\ Len(live) < MaxLive
        /\ \/ \E st \in Steps : Do(st)
           \/ \E st \in PokeSteps : Poke(st)
Spec == Init /\ [][Next]_vars

-------------------------------------------------------------------------------
AllWellFormed == \A k \in 1..Len(live) : WellFormed(live[k])
(* the clause itself: every existing object is the same after any operation *)
OperandsUnchanged == [][\/ /\ Len(live') = Len(live) + 1
                           /\ \A k \in 1..Len(live) : live'[k] = live[k]
                        \/ /\ Len(hist') = Len(hist) + 1 /\ hist'[Len(hist')].op \in {"poke", "pokesrc"}
                           /\ Len(live') = Len(live)
                           /\ \A k \in 1..Len(live) : k # hist'[Len(hist')].a => live'[k] = live[k]]_vars
EmitInit == (DoEmit /\ hist = <<>>) => Emit("INIT", [universe |-> Universe, objs |-> live])
===============================================================================
