------------------------- MODULE CompileCacheProof -------------------------
(* C20 -- the safety half of the compile-cache protocol of spec/CompileCache.tla (the module TLC explores with <= 3
   processes), proved with TLAPS for ANY set of processes, ANY set of module digests, ANY number of crashes and
   requests:  with the repaired protocol (Legacy = FALSE)

       NoPartialVisible, NoInterpreterDeath, NoFailedRequest, LoadedRight   are invariants, and
       NoOverwrite                                                           is an action invariant.

   The proof is by the inductive invariant IndInv below.  Its key conjunct is that a process between its publication
   and its second import (pc in {"cleanup", "import2"}) always finds the complete shared object of the module it wants:
   link(2) either created it or found it, nothing but ClearCache removes it, and ClearCache is not enabled while any
   process is running.  TLC checks IndInv on the bounded model as well (config invariant `IndInv`), so a change of
   CompileCache.tla that breaks the proof is also seen by the model checker.                                        *)
EXTENDS CompileCache, TLAPS

ASSUME NotLegacy == Legacy = FALSE
ASSUME SrcsNonEmpty == Srcs # {}

PCs   == {"idle", "import1", "mkdir", "pyx_open", "pyx_write", "cythonize", "build", "publish", "cleanup", "import2", "done",
          "toolerror"}
Privs == {"none", "dir", "pyx_partial", "pyx", "c", "so"}

IndInv ==
  /\ pc \in [Procs -> PCs]
  /\ want \in [Procs -> Srcs]
  /\ fin \in [Srcs -> [Files -> {Absent, Complete}]]
  /\ priv \in [Procs -> Privs]
  /\ loaded \in [Procs -> Srcs \cup {"none"}]
  /\ dead = {}
  /\ failed = {}
  /\ \A p \in Procs : pc[p] \in {"cleanup", "import2"} => fin[want[p]]["so"] = Complete
  /\ \A p \in Procs : pc[p] = "done" => loaded[p] = want[p]

Safe == NoPartialVisible /\ NoInterpreterDeath /\ NoFailedRequest /\ LoadedRight

LEMMA FilesFacts == "so" \in Files /\ Absent # Complete /\ Absent # Partial /\ Complete # Partial
  BY DEF Files, Absent, Complete, Partial

LEMMA IndImpliesSafe == IndInv => Safe
  BY FilesFacts DEF IndInv, Safe, NoPartialVisible, NoInterpreterDeath, NoFailedRequest, LoadedRight

LEMMA InitInd == Init => IndInv
  <1> SUFFICES ASSUME Init PROVE IndInv
    OBVIOUS
  <1>1. (CHOOSE m \in Srcs : TRUE) \in Srcs
    BY SrcsNonEmpty
  <1> QED BY <1>1 DEF Init, IndInv, PCs, Privs, Absent, Complete

LEMMA RequestInd == ASSUME IndInv, NEW p \in Procs, NEW m \in Srcs, Request(p, m) PROVE IndInv'
  BY DEF IndInv, Request, PCs

LEMMA ImportInd == ASSUME IndInv, NEW p \in Procs, NEW stage \in {"import1", "import2"}, NEW next \in {"mkdir", "error"},
                          Import(p, stage, next), stage = "import2" <=> next = "error"
                   PROVE  IndInv'
  <1> USE DEF IndInv
  <1>0. pc[p] = stage /\ want[p] \in Srcs /\ UNCHANGED <<want, fin, priv, readok, crashes, reqs>>
    BY DEF Import
  <1>1. fin[want[p]]["so"] \in {Absent, Complete}
    BY <1>0, FilesFacts
  <1>2. fin[want[p]]["so"] # Partial
    BY <1>1, FilesFacts
  <1>3. CASE fin[want[p]]["so"] = Complete
    <2>1. loaded' = [loaded EXCEPT ![p] = want[p]] /\ pc' = [pc EXCEPT ![p] = "done"] /\ UNCHANGED <<dead, failed>>
      BY <1>3, <1>2, FilesFacts DEF Import
    <2> QED BY <2>1, <1>0 DEF PCs
  <1>4. CASE fin[want[p]]["so"] = Absent
    <2>1. stage = "import1" /\ next = "mkdir"
      BY <1>4, <1>0, FilesFacts
    <2>2. pc' = [pc EXCEPT ![p] = next] /\ failed' = failed /\ UNCHANGED <<loaded, dead>>
      BY <1>4, <1>2, <2>1, FilesFacts DEF Import
    <2> QED BY <2>1, <2>2, <1>0 DEF PCs
  <1> QED BY <1>1, <1>3, <1>4

LEMMA StepInd == ASSUME IndInv, NEW p \in Procs, NEW from \in PCs, NEW to \in PCs, NEW pv \in Privs,
                        Step(p, from, to, pv),
                        to \in {"cleanup", "import2"} => from \in {"cleanup", "import2"},
                        to # "done"
                 PROVE  IndInv'
  BY DEF IndInv, Step

LEMMA PublishInd == ASSUME IndInv, NEW p \in Procs, Publish(p) PROVE IndInv'
  <1> USE DEF IndInv
  <1>0. pc[p] = "publish" /\ want[p] \in Srcs /\ pc' = [pc EXCEPT ![p] = "cleanup"]
        /\ UNCHANGED <<want, priv, readok, loaded, crashes, dead, failed, reqs>>
    BY DEF Publish
  <1>1. fin' = IF fin[want[p]]["so"] = Absent THEN [fin EXCEPT ![want[p]]["so"] = Complete] ELSE fin
    BY DEF Publish, SetFin
  <1>2. fin' \in [Srcs -> [Files -> {Absent, Complete}]]
    BY <1>0, <1>1, FilesFacts
  <1>3. \A m \in Srcs : fin[m]["so"] = Complete => fin'[m]["so"] = Complete
    BY <1>0, <1>1, FilesFacts
  <1>4. fin'[want[p]]["so"] = Complete
    BY <1>0, <1>1, FilesFacts
  <1>5. \A q \in Procs : pc'[q] \in {"cleanup", "import2"} => fin'[want'[q]]["so"] = Complete
    BY <1>0, <1>3, <1>4
  <1> QED BY <1>0, <1>2, <1>5 DEF PCs

LEMMA CrashInd == ASSUME IndInv, NEW p \in Procs, Crash(p) PROVE IndInv'
  BY DEF IndInv, Crash, PCs, Privs

LEMMA ToolFailsInd == ASSUME IndInv, NEW p \in Procs, ToolFails(p) PROVE IndInv'
  BY DEF IndInv, ToolFails, PCs, Privs

LEMMA RestartInd == ASSUME IndInv, NEW p \in Procs, Restart(p) PROVE IndInv'
  BY DEF IndInv, Restart, PCs

LEMMA ClearInd == ASSUME IndInv, ClearCache PROVE IndInv'
  <1> USE DEF IndInv
  <1>1. \A p \in Procs : pc[p] \notin {"cleanup", "import2"}
    BY DEF ClearCache, Running
  <1>2. fin' \in [Srcs -> [Files -> {Absent, Complete}]]
    BY DEF ClearCache
  <1> QED BY <1>1, <1>2 DEF ClearCache

LEMMA PCFacts == /\ {"mkdir", "pyx_open", "pyx_write", "cythonize", "build", "publish", "cleanup", "import2"} \subseteq PCs
                 /\ {"none", "dir", "pyx_partial", "pyx", "c", "so"} \subseteq Privs
  BY DEF PCs, Privs

LEMMA WorkInd == ASSUME IndInv, NEW p \in Procs, Work(p) PROVE IndInv'
  <1>1. CASE Import1(p)
    BY <1>1, NotLegacy, ImportInd DEF Import1
  <1>2. CASE Import2(p)
    BY <1>2, ImportInd DEF Import2
  <1>3. CASE MkDir(p)
    BY <1>3, StepInd, PCFacts DEF MkDir
  <1>4. CASE PyxOpen(p)
    BY <1>4, StepInd, PCFacts DEF PyxOpen
  <1>5. CASE PyxWrite(p)
    BY <1>5, StepInd, PCFacts DEF PyxWrite
  <1>6. CASE Cythonize(p)
    BY <1>6, StepInd, PCFacts DEF Cythonize
  <1>7. CASE Build(p)
    BY <1>7, StepInd, PCFacts DEF Build
  <1>8. CASE Publish(p)
    BY <1>8, PublishInd
  <1>9. CASE Cleanup(p)
    BY <1>9, StepInd, PCFacts DEF Cleanup
  <1> QED BY <1>1, <1>2, <1>3, <1>4, <1>5, <1>6, <1>7, <1>8, <1>9, NotLegacy DEF Work, Fixed

LEMMA NextInd == IndInv /\ [Next]_vars => IndInv'
  <1> SUFFICES ASSUME IndInv, [Next]_vars PROVE IndInv'
    OBVIOUS
  <1>1. CASE UNCHANGED vars
    BY <1>1 DEF IndInv, vars
  <1>2. CASE TimePasses
    BY <1>2 DEF IndInv, vars, TimePasses
  <1>3. CASE ClearCache
    BY <1>3, ClearInd
  <1>4. ASSUME NEW p \in Procs, (\E m \in Srcs : Request(p, m)) \/ Work(p) \/ Crash(p) \/ ToolFails(p) \/ Restart(p)
        PROVE IndInv'
    BY <1>4, RequestInd, WorkInd, CrashInd, ToolFailsInd, RestartInd
  <1> QED BY <1>1, <1>2, <1>3, <1>4 DEF Next

THEOREM SafetyForAnyNumberOfProcesses == Spec => []Safe
  <1>1. Spec => []IndInv
    BY InitInd, NextInd, PTL DEF Spec
  <1> QED BY <1>1, IndImpliesSafe, PTL

(* a completed entry stays complete unless the whole cache is cleared *)
LEMMA NoOverwriteStep == IndInv /\ [Next]_vars =>
                           \/ \A m \in Srcs : fin[m]["so"] = Complete => fin'[m]["so"] = Complete
                           \/ \A m \in Srcs : fin'[m]["so"] = Absent
  <1> SUFFICES ASSUME IndInv, [Next]_vars
               PROVE  \/ \A m \in Srcs : fin[m]["so"] = Complete => fin'[m]["so"] = Complete
                      \/ \A m \in Srcs : fin'[m]["so"] = Absent
    OBVIOUS
  <1>1. CASE UNCHANGED vars \/ TimePasses
    BY <1>1 DEF vars, TimePasses
  <1>2. CASE ClearCache
    BY <1>2, FilesFacts DEF ClearCache
  <1>3. ASSUME NEW p \in Procs, NEW m \in Srcs, Request(p, m) PROVE fin' = fin
    BY <1>3 DEF Request
  <1>4. ASSUME NEW p \in Procs, Crash(p) \/ ToolFails(p) \/ Restart(p) PROVE fin' = fin
    BY <1>4 DEF Crash, ToolFails, Restart
  <1>5. ASSUME NEW p \in Procs, Work(p) PROVE \A m \in Srcs : fin[m]["so"] = Complete => fin'[m]["so"] = Complete
    <2>1. CASE Import1(p) \/ Import2(p)
      BY <2>1 DEF Import1, Import2, Import
    <2>2. CASE MkDir(p) \/ PyxOpen(p) \/ PyxWrite(p) \/ Cythonize(p) \/ Build(p) \/ Cleanup(p)
      BY <2>2 DEF MkDir, PyxOpen, PyxWrite, Cythonize, Build, Cleanup, Step
    <2>3. CASE Publish(p)
      <3>1. want[p] \in Srcs
        BY DEF IndInv
      <3>2. fin' = IF fin[want[p]]["so"] = Absent THEN [fin EXCEPT ![want[p]]["so"] = Complete] ELSE fin
        BY <2>3 DEF Publish, SetFin
      <3> QED BY <3>1, <3>2, FilesFacts DEF IndInv
    <2> QED BY <1>5, <2>1, <2>2, <2>3, NotLegacy DEF Work, Fixed
  <1> QED BY <1>1, <1>2, <1>3, <1>4, <1>5 DEF Next

THEOREM NoOverwriteForAnyNumberOfProcesses == Spec => NoOverwrite
  <1>1. Spec => []IndInv
    BY InitInd, NextInd, PTL DEF Spec
  <1> QED BY <1>1, NoOverwriteStep, PTL DEF Spec, NoOverwrite
=============================================================================
