--------------------------- MODULE KnotInsertCases ---------------------------
(* C05, first clause: knot insertion and prolongation between nested knot vectors.
   Cases: every open knot vector of degree 1..PMax with breakpoints in 0..BMax (non-uniform, interior
   multiplicities 1..p), scaled by 2 so that span midpoints are integers, x every ascending sequence of
   1 or 2 knots to insert (new knots, knots coinciding with existing ones, the same knot twice) that
   keeps all multiplicities <= p.  For each case the exact matrix of BSplineRef (composition of Boehm
   steps) is checked to preserve every basis function at every sample point, and emitted.          *)
EXTENDS BSplineRef, TLC, Emit

CONSTANTS PMax, BMax, Step

Scale2(kv) == [j \in 1..Len(kv) |-> 2 * kv[j]]
KVs(p) == {Scale2(kv) : kv \in OpenKVs(p, BMax, 3, 3, p)}

OkInsert(kv, p, ts) ==
  /\ \A j \in 1..Len(ts) : ts[j] > kv[1] /\ ts[j] < kv[Len(kv)]
  /\ \A j \in 1..(Len(ts) - 1) : ts[j] <= ts[j + 1]
  /\ \A t \in SeqSet(ts) : KMult(kv, t) + Cardinality({j \in 1..Len(ts) : ts[j] = t}) <= p

InsertSeqs(kv, p) ==
  {s \in ({<<a>> : a \in 1..(2 * BMax - 1)} \cup {<<a, b>> : a \in 1..(2 * BMax - 1), b \in 1..(2 * BMax - 1)}) :
       OkInsert(kv, p, s)}
CaseSet ==
  UNION {UNION {{<<p, kv, ts>> : ts \in InsertSeqs(kv, p)} : kv \in KVs(p)} : p \in 1..PMax}
Cases == SetToSeq(CaseSet)

VARIABLE c
Init == c \in {i \in 1..Len(Cases) : i % Step = 0}
Next == UNCHANGED c
Spec == Init /\ [][Next]_c

Result(k) == LET cs == Cases[k] IN ProlongState(cs[2], cs[1], cs[3])

Preserves ==      \* sum_i T[i][j] N^fine_i(x) = N^coarse_j(x) at every sample point of the fine knot vector
  LET cs == Cases[c]  p == cs[1]  kv == cs[2]  st == Result(c)  pts == HalfPoints(st.kv) IN
  \A m \in 1..Len(pts) :
    LET fine == BasisRow(st.kv, p, pts[m])
        coarse == BasisRow(kv, p, pts[m])
    IN \A j \in 1..Len(coarse) : Dot([i \in 1..Len(fine) |-> st.P[i][j]], fine) = coarse[j]

EmitCase ==
  LET cs == Cases[c]  st == Result(c) IN
  Emit("KI", [p |-> cs[1], kv |-> cs[2], ts |-> cs[3], kv2 |-> st.kv, T |-> st.P])
=============================================================================
