------------------------------- MODULE GeoFunc -------------------------------
(* C07 -- exact reference for geometry maps (pyiga.bspline.BSplineFunc, the module pyiga.geometry).

   A GEOMETRY OBJECT is a record
       [kind |-> "bsp" | "nurbs",
        kvs  |-> <<kv_1, .., kv_D>>      integer knot sequences, pyiga axis order (LAST axis = x),
        dens |-> <<den_1, .., den_D>>    positive integers: the real knots of axis a are kvs[a][j] / dens[a],
        ps   |-> <<p_1, .., p_D>>        degrees,
        osh  |-> <<>> | <<n>> | <<m,n>>  output shape (scalar / vector / matrix valued),
        C    |-> <<C_1, .., C_nc>>       nc = product of osh components (C order); C_c = flat C-order sequence of the
                                         rational coefficients of component c; for NURBS the PREMULTIPLIED numerators,
        W    |-> flat sequence of the (positive rational) weights; <<>> for a B-spline function]
   The function it denotes:  bsp:  G_c(xi) = sum_I C_c[I] B_I(xi);   nurbs:  G_c = N_c / w,  N_c = sum C_c[I] B_I,
   w = sum W[I] B_I  (the quotient of the weighted numerator spline and the weight spline).

   Layers
     (a) declarative: what a value / Jacobian / Hessian / operation / constructor IS (documentation level):
         Sheet (derivatives of the quotient by the Leibniz rule applied to N = G w), the Decl operators of GeoFuncCases;
     (b) control-net models of the operations and constructors, written from the anchored code
         (Translate .. Cylinderize, LineSegment, UnitCube, Identity, Arc).
   GeoFuncCases checks (b) against (a) on every enumerated case and emits Sheet(result) for the replay through the
   real code.  Coordinates are numbered x-first (1 = x, 2 = y, 3 = z); coordinate b belongs to axis D - b + 1.
   Jacobian column b = derivative w.r.t. coordinate b; Hessians are packed (xx, xy, xz, yy, yz, zz).               *)
EXTENDS BSplineRef, TLC

-------------------------------------------------------------------------------
(* objects *)
SDim(G)      == Len(G.kvs)
GShape(G)    == Tab(SDim(G), LAMBDA a : NumDofs(G.kvs[a], G.ps[a]))
GN(G)        == ShapeSize(GShape(G))
NComp(osh)   == ShapeSize(osh)
IsNurbs(G)   == G.kind = "nurbs"
OnesRow(n)   == Tab(n, LAMBDA j : One)
WOf(G)       == IF IsNurbs(G) THEN G.W ELSE OnesRow(GN(G))            \* weights (1 for a B-spline function)
Ctrl(G)      == IF IsNurbs(G)                                          \* control points (not premultiplied) [c][I]
                THEN Tab(Len(G.C), LAMBDA c : Tab(GN(G), LAMBDA I : Div(G.C[c][I], G.W[I])))
                ELSE G.C
SupportOf(G) == Tab(SDim(G), LAMBDA a : <<Q(KFirst(G.kvs[a]), G.dens[a]), Q(KLast(G.kvs[a]), G.dens[a])>>)

MkBsp(kvs, dens, ps, osh, P) ==
  [kind |-> "bsp", kvs |-> kvs, dens |-> dens, ps |-> ps, osh |-> osh, C |-> P, W |-> <<>>]
MkNurbs(kvs, dens, ps, osh, P, W) ==        \* from control points P and weights W: premultiply
  [kind |-> "nurbs", kvs |-> kvs, dens |-> dens, ps |-> ps, osh |-> osh,
   C |-> Tab(Len(P), LAMBDA c : Tab(Len(W), LAMBDA I : Mul(P[c][I], W[I]))), W |-> W]
MkLike(G, osh, P) ==                         \* same space, same weights, new control points
  IF IsNurbs(G) THEN MkNurbs(G.kvs, G.dens, G.ps, osh, P, G.W) ELSE MkBsp(G.kvs, G.dens, G.ps, osh, P)

WellFormed(G) ==
  /\ G.kind \in {"bsp", "nurbs"}
  /\ Len(G.dens) = SDim(G) /\ Len(G.ps) = SDim(G) /\ Len(G.osh) <= 2
  /\ \A a \in 1..SDim(G) : IsOpen(G.kvs[a], G.ps[a]) /\ G.dens[a] >= 1
  /\ Len(G.C) = NComp(G.osh) /\ \A c \in 1..Len(G.C) : Len(G.C[c]) = GN(G)
  /\ IF IsNurbs(G) THEN Len(G.W) = GN(G) /\ Len(G.osh) <= 1 /\ \A I \in 1..GN(G) : Sign(G.W[I]) = 1
     ELSE G.W = <<>>

-------------------------------------------------------------------------------
(* evaluation: all derivatives of total order <= 2 on a tensor grid.  grid[a] = points of axis a (real parameters) *)
AxisTab(kv, den, p, pts) ==      \* [m][k+1][i+1] = D^k N_i at pts[m] w.r.t. the real parameter t = s / den
  Tab(Len(pts), LAMBDA m :
      LET T == DerivTable(kv, p, 2, Mul(pts[m], R(den))) IN
      IF den = 1 THEN T
      ELSE Tab(3, LAMBDA kk : IF kk = 1 THEN T[1]
                              ELSE LET f == R(IPow(den, kk - 1)) IN Tab(Len(T[kk]), LAMBDA i : Mul(T[kk][i], f))))

KsOf(D, bs) ==                   \* coordinates bs (x = 1) -> derivative order per axis
  Tab(D, LAMBDA a : Cardinality({i \in 1..Len(bs) : D - bs[i] + 1 = a}))
HessPairs(D) ==                  \* the library's packed order
  IF D = 0 THEN <<>> ELSE IF D = 1 THEN << <<1,1>> >>
  ELSE IF D = 2 THEN << <<1,1>>, <<1,2>>, <<2,2>> >>
  ELSE << <<1,1>>, <<1,2>>, <<1,3>>, <<2,2>>, <<2,3>>, <<3,3>> >>
HessIndex(D, b1, b2) ==          \* position (1-based) of the pair {b1,b2} in the packed order
  LET lo == IntMin(b1, b2)  hi == IntMax(b1, b2)  hp == HessPairs(D)
  IN CHOOSE h \in 1..Len(hp) : hp[h] = <<lo, hi>>

BasisVec(rows, mis) ==           \* [I] = prod_a rows[a][I_a]
  Tab(Len(mis), LAMBDA I :
      FoldLeft(LAMBDA pr, a : IF IsZero(pr) THEN pr ELSE Mul(pr, rows[a][mis[I][a] + 1]), One, Ints(Len(rows))))
DotNZ(w, c) ==
  FoldLeft(LAMBDA acc, I : IF IsZero(w[I]) \/ IsZero(c[I]) THEN acc ELSE Add(acc, Mul(w[I], c[I])), Zero, Ints(Len(w)))

GridSizes(grid) == Tab(Len(grid), LAMBDA a : Len(grid[a]))

(* derivatives of the coefficient splines themselves (numerators and, as the last component, the weight) *)
RawSheetD(G, grid, md) ==     \* md = highest derivative order computed (1 or 2); d2 = <<>> for md = 1
  LET D    == SDim(G)
      AxT  == Tab(D, LAMBDA a : AxisTab(G.kvs[a], G.dens[a], G.ps[a], grid[a]))
      gs   == GridSizes(grid)
      gmi  == MultiIndices(gs)
      npts == Len(gmi)
      mis  == MultiIndices(GShape(G))
      CC   == IF IsNurbs(G) THEN Append(G.C, G.W) ELSE G.C
      hp   == HessPairs(D)
      Der(bs) ==
        LET ks == KsOf(D, bs)
            BV == Tab(npts, LAMBDA J : BasisVec(Tab(D, LAMBDA a : AxT[a][gmi[J][a] + 1][ks[a] + 1]), mis))
        IN Tab(Len(CC), LAMBDA c : Tab(npts, LAMBDA J : DotNZ(BV[J], CC[c])))
  IN [d0 |-> Der(<<>>), d1 |-> Tab(D, LAMBDA b : Der(<<b>>)),
      d2 |-> IF md >= 2 THEN Tab(Len(hp), LAMBDA h : Der(hp[h])) ELSE <<>>,
      npts |-> npts, gs |-> gs]
RawSheet(G, grid) == RawSheetD(G, grid, 2)

(* the function itself: val[c][J], jac[b][c][J], hess[h][c][J].  NURBS: G w = N differentiated by the Leibniz rule:
     N_b  = G_b w + G w_b ,   N_bc = G_bc w + G_b w_c + G_c w_b + G w_bc                                          *)
SheetD(G, grid, md) ==
  LET raw == RawSheetD(G, grid, md)
      D   == SDim(G)
      nc  == Len(G.C)
      np  == raw.npts
      hp  == IF md >= 2 THEN HessPairs(D) ELSE <<>>
  IN IF ~IsNurbs(G) THEN [val |-> raw.d0, jac |-> raw.d1, hess |-> raw.d2, npts |-> np, gs |-> raw.gs]
     ELSE
     LET w   == raw.d0[nc + 1]
         wb  == Tab(D, LAMBDA b : raw.d1[b][nc + 1])
         wh  == Tab(Len(hp), LAMBDA h : raw.d2[h][nc + 1])
         val == Tab(nc, LAMBDA c : Tab(np, LAMBDA J : Div(raw.d0[c][J], w[J])))
         jac == Tab(D, LAMBDA b : Tab(nc, LAMBDA c : Tab(np, LAMBDA J :
                    Div(Sub(raw.d1[b][c][J], Mul(val[c][J], wb[b][J])), w[J]))))
         hes == Tab(Len(hp), LAMBDA h : LET b1 == hp[h][1]  b2 == hp[h][2] IN
                  Tab(nc, LAMBDA c : Tab(np, LAMBDA J :
                    Div(Sub(Sub(Sub(raw.d2[h][c][J], Mul(jac[b1][c][J], wb[b2][J])), Mul(jac[b2][c][J], wb[b1][J])),
                            Mul(val[c][J], wh[h][J])), w[J]))))
     IN [val |-> val, jac |-> jac, hess |-> hes, npts |-> np, gs |-> raw.gs]
Sheet(G, grid) == SheetD(G, grid, 2)

(* evaluation of one object at one point given in xyz order (a 1-point grid) *)
PointGrid(X) == LET D == Len(X) IN Tab(D, LAMBDA a : <<X[D - a + 1]>>)
EvalAt(G, X)  == LET S == SheetD(G, PointGrid(X), 1) IN Tab(Len(G.C), LAMBDA c : S.val[c][1])
JacAt(G, X)   == LET S == SheetD(G, PointGrid(X), 1) IN        \* [c][b]
                 Tab(Len(G.C), LAMBDA c : Tab(SDim(G), LAMBDA b : S.jac[b][c][1]))

-------------------------------------------------------------------------------
(* (b) operations as operations on control nets *)
FlatOf(mi, sh) == RavelC(mi, sh) + 1                       \* 0-based multi-index -> 1-based flat index

Translate(G, off) ==       \* off[c]: offset of component c (after numpy broadcasting against the output shape)
  LET P == Ctrl(G) IN MkLike(G, G.osh, Tab(Len(P), LAMBDA c : Tab(GN(G), LAMBDA I : Add(P[c][I], off[c]))))
Scale(G, fac) ==
  LET P == Ctrl(G) IN MkLike(G, G.osh, Tab(Len(P), LAMBDA c : Tab(GN(G), LAMBDA I : Mul(P[c][I], fac[c]))))
ApplyMatrix(G, A) ==       \* A: m x n (sequence of rows), G vector valued with n components
  LET P == Ctrl(G) IN
  MkLike(G, <<Len(A)>>, Tab(Len(A), LAMBDA r : Tab(GN(G), LAMBDA I :
           FoldLeft(LAMBDA acc, c : Add(acc, Mul(A[r][c], P[c][I])), Zero, Ints(Len(P))))))
RotMat(cs) == << <<cs[1], Neg(cs[2])>>, <<cs[2], cs[1]>> >>     \* cs = <<cos, sin>>
Rotate2D(G, cs) == ApplyMatrix(G, RotMat(cs))
GetItemInt(G, i) ==        \* vector valued G, 0-based component i -> scalar function
  LET P == Ctrl(G) IN MkLike(G, <<>>, <<P[i + 1]>>)
GetItemList(G, is) ==      \* 0-based components -> vector function (python slice or index list)
  LET P == Ctrl(G) IN MkLike(G, <<Len(is)>>, Tab(Len(is), LAMBDA k : P[is[k] + 1]))
AsNurbs(G)  == IF IsNurbs(G) THEN G ELSE MkNurbs(G.kvs, G.dens, G.ps, G.osh, G.C, OnesRow(GN(G)))
AsVector(G) == IF Len(G.osh) = 0 THEN [G EXCEPT !.osh = <<1>>] ELSE G
CopyOf(G)   == G

Boundary(G, ax0, side) ==  \* restriction to the face  axis ax0 (0-based) = lower (side 0) / upper (side 1) end
  LET ax  == ax0 + 1
      sh  == GShape(G)
      shb == RemoveAt(sh, ax)
      mib == MultiIndices(shb)
      pick == Tab(Len(mib), LAMBDA I : FlatOf(InsertAt(mib[I], ax, IF side = 0 THEN 0 ELSE sh[ax] - 1), sh))
      sel(row) == Tab(Len(pick), LAMBDA I : row[pick[I]])
  IN [kind |-> G.kind, kvs |-> RemoveAt(G.kvs, ax), dens |-> RemoveAt(G.dens, ax), ps |-> RemoveAt(G.ps, ax),
      osh |-> G.osh, C |-> Tab(Len(G.C), LAMBDA c : sel(G.C[c])), W |-> IF IsNurbs(G) THEN sel(G.W) ELSE <<>>]
BdSpecOfName(D, name) ==   \* 'left','right' = x axis; 'bottom','top' = y; 'front','back' = z (see _parse_bdspec)
  CASE name = "left"   -> <<D - 1, 0>>  [] name = "right" -> <<D - 1, 1>>
    [] name = "bottom" -> <<D - 2, 0>>  [] name = "top"   -> <<D - 2, 1>>
    [] name = "front"  -> <<D - 3, 0>>  [] name = "back"  -> <<D - 3, 1>>

(* G(x, y) built from G1(y) (slow axes) and G2(x) (fast axes): flat index of (I1, I2) is (I1-1) N2 + I2 *)
I1Of(I, n2) == ((I - 1) \div n2) + 1
I2Of(I, n2) == ((I - 1) % n2) + 1
JoinSpace(G1, G2) == [kvs |-> G1.kvs \o G2.kvs, dens |-> G1.dens \o G2.dens, ps |-> G1.ps \o G2.ps]
MkJoined(G1, G2, osh, P) ==       \* NURBS iff one of the two is; weights multiply
  LET sp == JoinSpace(G1, G2)  n2 == GN(G2)  n == GN(G1) * n2 IN
  IF IsNurbs(G1) \/ IsNurbs(G2)
  THEN LET W1 == WOf(G1)  W2 == WOf(G2) IN
       MkNurbs(sp.kvs, sp.dens, sp.ps, osh, P, Tab(n, LAMBDA I : Mul(W1[I1Of(I, n2)], W2[I2Of(I, n2)])))
  ELSE MkBsp(sp.kvs, sp.dens, sp.ps, osh, P)

TensorProduct(G1, G2) ==          \* components: those of G2 (the x part) first, then those of G1
  LET P1 == Ctrl(G1)  P2 == Ctrl(G2)  n2 == GN(G2)  n == GN(G1) * n2  c2 == Len(P2) IN
  MkJoined(G1, G2, <<Len(P1) + c2>>,
           Tab(Len(P1) + c2, LAMBDA c : Tab(n, LAMBDA I :
               IF c <= c2 THEN P2[c][I2Of(I, n2)] ELSE P1[c - c2][I1Of(I, n2)])))

BroadcastShape(o1, o2) ==         \* numpy broadcasting of the output shapes <<>>, <<1>>, <<k>>
  IF Len(o1) = 0 THEN o2 ELSE IF Len(o2) = 0 THEN o1 ELSE <<IntMax(o1[1], o2[1])>>
OuterCombine(G1, G2, op(_, _)) ==
  LET P1 == Ctrl(G1)  P2 == Ctrl(G2)  n2 == GN(G2)  n == GN(G1) * n2
      osh == BroadcastShape(G1.osh, G2.osh)
      nc  == NComp(osh)
  IN MkJoined(G1, G2, osh, Tab(nc, LAMBDA c : Tab(n, LAMBDA I :
         op(P1[IF Len(P1) = 1 THEN 1 ELSE c][I1Of(I, n2)], P2[IF Len(P2) = 1 THEN 1 ELSE c][I2Of(I, n2)]))))
OuterSum(G1, G2)     == OuterCombine(G1, G2, Add)
OuterProduct(G1, G2) == OuterCombine(G1, G2, Mul)

(* constructors.  A linear spline space with n intervals on [a, b] (integers or rationals a = an/ad ...):
   knots (a n + j (b - a)) / n  ->  integer knots with denominator den *)
LinKV(a, b, n) ==          \* a, b rationals, a < b; returns [kv, den] with kv[j]/den = a + j (b-a)/n, ends doubled
  LET den == n * a[2] * b[2]
      t(j) == (a[1] * b[2] * (n - j)) + (b[1] * a[2] * j)            \* = den * (a + j (b-a)/n)
  IN [kv |-> <<t(0)>> \o Tab(n + 1, LAMBDA jj : t(jj - 1)) \o <<t(n)>>, den |-> den]
LineSegment(x0, x1, a, b, n) ==    \* x0, x1: sequences of rationals; coefficient j = (1 - j/n) x0 + (j/n) x1
  LET lk == LinKV(a, b, n) IN
  MkBsp(<<lk.kv>>, <<lk.den>>, <<1>>, <<Len(x0)>>,
        Tab(Len(x0), LAMBDA c : Tab(n + 1, LAMBDA jj :
            Add(Mul(Q(n - (jj - 1), n), x0[c]), Mul(Q(jj - 1, n), x1[c])))))
RECURSIVE TPReduce(_)
TPReduce(Gs) ==            \* functools.reduce(tensor_product, Gs)
  IF Len(Gs) = 1 THEN Gs[1] ELSE TensorProduct(TPReduce(SubSeq(Gs, 1, Len(Gs) - 1)), Gs[Len(Gs)])
UnitCube(dim, n) == TPReduce(Tab(dim, LAMBDA a : LineSegment(<<Zero>>, <<One>>, Zero, One, n)))
Identity(ext)    == TPReduce(Tab(Len(ext), LAMBDA a : LineSegment(<<ext[a][1]>>, <<ext[a][2]>>, ext[a][1], ext[a][2], 1)))
Cylinderize(G, z0, z1, a, b) == TensorProduct(LineSegment(<<z0>>, <<z1>>, a, b, 1), G)

(* circular arcs: m rational quadratic segments, half opening angle theta per segment (alpha = 2 m theta);
   cs = <<cos theta, sin theta>>.  Homogeneous control points r (cos k theta, sin k theta), weights 1, cos theta, 1, ..*)
RotCS(a, b) == <<Sub(Mul(a[1], b[1]), Mul(a[2], b[2])), Add(Mul(a[2], b[1]), Mul(a[1], b[2]))>>   \* angle addition
MultCS(cs, k) == FoldLeft(LAMBDA acc, j : RotCS(acc, cs), <<One, Zero>>, Ints(k))       \* <<cos k theta, sin k theta>>
IsCS(cs) == Add(Mul(cs[1], cs[1]), Mul(cs[2], cs[2])) = One
ArcKV(m) == <<0, 0, 0>> \o FlattenSeq(Tab(m - 1, LAMBDA j : <<j, j>>)) \o <<m, m, m>>
Arc(m, cs, r) ==
  LET n == 2 * m + 1
      A == Tab(n, LAMBDA k : MultCS(cs, k - 1))
  IN [kind |-> "nurbs", kvs |-> <<ArcKV(m)>>, dens |-> <<m>>, ps |-> <<2>>, osh |-> <<2>>,
      C |-> <<Tab(n, LAMBDA k : Mul(r, A[k][1])), Tab(n, LAMBDA k : Mul(r, A[k][2]))>>,
      W |-> Tab(n, LAMBDA k : IF (k % 2) = 1 THEN One ELSE cs[1])]

-------------------------------------------------------------------------------
(* RECIPES: expressions over constructors and operations; leaves [op |-> "obj", obj |-> G] are explicit control nets.
   Build(r) = the object a recipe denotes, by the control-net models above. *)
ArgAt(arg, c) == IF Len(arg) = 1 THEN arg[1] ELSE arg[((c - 1) % Len(arg)) + 1]     \* numpy broadcasting (last axis)
ArgVec(arg, nc) == Tab(nc, LAMBDA c : ArgAt(arg, c))

RECURSIVE Build(_)
Build(r) ==
  CASE r.op = "obj"       -> r.obj
    [] r.op = "translate" -> LET G == Build(r.a) IN Translate(G, ArgVec(r.arg, Len(G.C)))
    [] r.op = "scale"     -> LET G == Build(r.a) IN Scale(G, ArgVec(r.arg, Len(G.C)))
    [] r.op = "matrix"    -> ApplyMatrix(Build(r.a), r.A)
    [] r.op = "rotate"    -> Rotate2D(Build(r.a), r.cs)
    [] r.op = "getint"    -> GetItemInt(Build(r.a), r.i)
    [] r.op = "getlist"   -> GetItemList(Build(r.a), r.is)
    [] r.op = "asnurbs"   -> AsNurbs(Build(r.a))
    [] r.op = "asvector"  -> AsVector(Build(r.a))
    [] r.op = "copy"      -> CopyOf(Build(r.a))
    [] r.op = "boundary"  -> Boundary(Build(r.a), r.ax, r.side)
    [] r.op = "tp"        -> TensorProduct(AsVector(Build(r.a)), AsVector(Build(r.b)))
    [] r.op = "osum"      -> OuterSum(Build(r.a), Build(r.b))
    [] r.op = "oprod"     -> OuterProduct(Build(r.a), Build(r.b))
    [] r.op = "cyl"       -> Cylinderize(AsVector(Build(r.a)), r.z0, r.z1, r.s0, r.s1)
    [] r.op = "line"      -> LET L == LineSegment(r.x0, r.x1, r.s0, r.s1, r.n) IN L
    [] r.op = "unitcube"  -> UnitCube(r.dim, r.n)
    [] r.op = "identity"  -> Identity(r.ext)
    [] r.op = "arc"       -> Arc(r.m, r.cs, r.r)

-------------------------------------------------------------------------------
(* polynomial maps (user-defined functions): comps[c] = sequence of monomials [k |-> rational, e |-> <<ex, ey, ez>>] *)
RECURSIVE Falling(_, _)
Falling(n, k) == IF k = 0 THEN 1 ELSE n * Falling(n - 1, k - 1)
MonoD(mono, X, ds) ==      \* D^ds (per coordinate, x first) of k x^ex y^ey z^ez at X
  FoldLeft(LAMBDA acc, b : IF IsZero(acc) \/ mono.e[b] < ds[b] THEN Zero
                           ELSE Mul(acc, Mul(R(Falling(mono.e[b], ds[b])), PowR(X[b], mono.e[b] - ds[b]))),
           mono.k, Ints(Len(X)))
PolyD(poly, X, ds) == FoldLeft(LAMBDA acc, m : Add(acc, MonoD(poly[m], X, ds)), Zero, Ints(Len(poly)))
UnitDs(D, bs) == Tab(D, LAMBDA b : Cardinality({i \in 1..Len(bs) : bs[i] = b}))
PolyEval(comps, X) == Tab(Len(comps), LAMBDA c : PolyD(comps[c], X, UnitDs(Len(X), <<>>)))
PolyJac(comps, X)  == Tab(Len(comps), LAMBDA c : Tab(Len(X), LAMBDA b : PolyD(comps[c], X, UnitDs(Len(X), <<b>>))))

(* small dense helpers on explicit tuples *)
MatVecT(M, x) == Tab(Len(M), LAMBDA i : FoldLeft(LAMBDA acc, j : Add(acc, Mul(M[i][j], x[j])), Zero, Ints(Len(x))))
GridPoint(grid, J) ==      \* xyz coordinates of the grid point with 1-based flat index J
  LET D == Len(grid)  mi == UnravelC(J - 1, GridSizes(grid)) IN Tab(D, LAMBDA b : grid[D - b + 1][mi[D - b + 1] + 1])
===============================================================================
