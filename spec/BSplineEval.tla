------------------------------ MODULE BSplineEval ------------------------------
(* C02 -- B-spline basis evaluation.

   State space: root -> one state per (degree, open knot vector) of the tier's profile (breakpoints 0 = b0 < b1 < ..
   on the integer grid, gaps <= 4, every pattern of interior multiplicities 1..max(p,1)) -> one state per (knot
   vector, sample point): every breakpoint, both ends, the midpoint and the quarter points of every span.

   Checked on every (kv, u) state (invariant PtOK), derivative orders 0..p+Extra:
     reference (module BSplineRef):  non-negativity, partition of unity, derivative sums zero, orders > p vanish,
       support inside first_active..first_active+p, all p+1 active functions positive inside a span, row tables =
       Cox--de Boor / derivative recursion, one-sided limits from the left consistent with the continuity class;
     code-shaped model A23: a transcription of bspline_active_deriv_single (NURBS-book A2.3, bspline_cy.pyx:42-120) in
       exact arithmetic, where uninitialised memory, out-of-range table reads and x/0 are "poison": with
       numderiv = p+Extra every entry is defined (so the kernel never reads NDU out of range, also for orders > p)
       and equals the reference.  Mut = 1 is an off-by-one mutant (`if r < pk` for `if r <= pk`; negative control).
   Checked on every kv state (KvOK): the enumerated objects are open knot vectors; Greville abscissae; mesh supports;
     Boehm knot insertion and the two-level prolongation matrix reproduce every basis function, rows sum to one.
   Emits one PT record per (kv, u) with the expected rationals (active window per order, one-sided limits).        *)
EXTENDS BSplineRef, TLC, Emit

CONSTANTS Tier,       \* "quick" | "thorough" | "neg": the enumeration bounds per degree (Profiles below)
          Degrees,    \* the degrees of the profile explored by this run (lets a tier be split over several TLC runs)
          Extra,      \* derivative orders 0..p+Extra are tabulated; the A23 model is run with numderiv = p+Extra
          Mut,        \* 0; 1 = off-by-one mutant of the A23 model (negative control: PtOK must be violated)
          DoEmit

(* per degree: breakpoints in 0..bmax, at most `spans` spans, interior multiplicities <= min(mmult, max(p,1));
   rec: compare the row tables with the recursive definitions for 0 = no, 1 = the functions around the active window,
   2 = all functions; ins: check knot insertion / prolongation on the knot-vector states *)
Prof(pp, bmax, spans, mmult, rec, ins) == [p |-> pp, bmax |-> bmax, spans |-> spans, mmult |-> mmult, rec |-> rec, ins |-> ins]
Profiles ==
  CASE Tier = "quick"    -> <<Prof(0, 4, 4, 9, 2, TRUE), Prof(1, 4, 4, 9, 2, TRUE), Prof(2, 4, 3, 9, 2, TRUE), Prof(3, 4, 3, 9, 1, TRUE)>>
    [] Tier = "thorough" -> <<Prof(0, 6, 6, 9, 2, TRUE), Prof(1, 6, 6, 9, 2, TRUE), Prof(2, 6, 5, 9, 2, TRUE), Prof(3, 6, 4, 9, 1, TRUE),
                              Prof(4, 6, 3, 9, 1, TRUE), Prof(5, 5, 3, 9, 0, FALSE)>>
    [] Tier = "neg"      -> <<Prof(0, 3, 2, 9, 0, FALSE), Prof(1, 3, 2, 9, 0, FALSE), Prof(2, 3, 2, 9, 0, FALSE), Prof(3, 3, 2, 9, 0, FALSE)>>
PF(pp) == Profiles[pp + 1]

VARIABLES ph, deg, kv, u
vars == <<ph, deg, kv, u>>

KVS(pp) == OpenKVs(pp, PF(pp).bmax, 4, PF(pp).spans, PF(pp).mmult)

Init == ph = "root" /\ deg = 0 /\ kv = <<>> /\ u = Zero
PickKV == ph = "root" /\ \E pp \in Degrees : \E v \in KVS(pp) : deg' = pp /\ kv' = v /\ ph' = "kv" /\ u' = Zero
PickPt == ph = "kv" /\ \E pt \in SeqSet(SamplePoints(kv)) : u' = pt /\ ph' = "pt" /\ UNCHANGED <<deg, kv>>
Next == PickKV \/ PickPt
Spec == Init /\ [][Next]_vars

P        == deg
ND       == deg + Extra
CheckRec == PF(deg).rec
CheckIns == PF(deg).ins

-------------------------------------------------------------------------------
(* code-shaped model of bspline_active_deriv_single *)
Poison     == <<0, 0>>                   \* garbage / NaN: uninitialised memory, out-of-range read, x/0
IsP(x)     == x[2] = 0
PAdd(x, y) == IF IsP(x) \/ IsP(y) THEN Poison ELSE Add(x, y)
PSub(x, y) == IF IsP(x) \/ IsP(y) THEN Poison ELSE Sub(x, y)
PMul(x, y) == IF IsP(x) \/ IsP(y) THEN Poison ELSE Mul(x, y)
PDiv(x, y) == IF IsP(x) \/ IsP(y) THEN Poison ELSE IF IsZero(y) THEN Poison ELSE Div(x, y)
PNeg(x)    == IF IsP(x) THEN Poison ELSE Neg(x)
Interval(a, b) == [j \in 1..(b - a + 1) |-> a + j - 1]       \* the sequence a, a+1, .., b (empty if b < a)

RdN(T, a, b) == IF a \in 0..P /\ b \in 0..P THEN T[a][b] ELSE Poison      \* NDU[a, b], boundscheck/wraparound off

A23Ndu(span) ==       \* lines 66-80: the triangular table (upper part: values, lower part: knot differences)
  LET left(m)  == Sub(u, R(Kn(kv, span - m)))            \* left[m]  = u - kv[span+1-(m+1)]
      right(m) == Sub(R(Kn(kv, span + m + 1)), u)        \* right[m] = kv[span+(m+1)] - u
      T0 == [[a \in 0..P |-> [b \in 0..P |-> Poison]] EXCEPT ![0][0] = One]      \* np.empty, NDU[0,0] = 1
      inner(T, j) ==
        LET s == FoldLeft(LAMBDA st, r :
                   LET den  == PAdd(right(r), left(j - r - 1))
                       temp == PDiv(RdN(st.T, r, j - 1), den)
                   IN [T |-> [st.T EXCEPT ![j][r] = den, ![r][j] = PAdd(st.saved, PMul(right(r), temp))],
                       saved |-> PMul(left(j - r - 1), temp)],
                   [T |-> T, saved |-> Zero], Interval(0, j - 1))
        IN [s.T EXCEPT ![j][j] = s.saved]
  IN FoldLeft(inner, T0, Interval(1, P))

A23StepK(T, r, st, k) ==     \* lines 93-119: body of the loop over k for basis function r
  LET rk == r - k
      pk == P - k
      s0 == IF r >= k
            THEN LET v == PDiv(st.a1[0], RdN(T, pk + 1, rk))
                 IN [a2 |-> [st.a2 EXCEPT ![0] = v], d |-> PMul(v, RdN(T, rk, pk))]
            ELSE [a2 |-> st.a2, d |-> Zero]
      j1 == IF rk >= -1 THEN 1 ELSE -rk
      j2 == IF r - 1 <= pk THEN k - 1 ELSE P - r
      s1 == FoldLeft(LAMBDA s, j :
              LET v == PDiv(PSub(st.a1[j], st.a1[j - 1]), RdN(T, pk + 1, rk + j))
              IN [a2 |-> [s.a2 EXCEPT ![j] = v], d |-> PAdd(s.d, PMul(v, RdN(T, rk + j, pk)))],
              s0, Interval(j1, j2))
      s2 == IF (IF Mut = 1 THEN r < pk ELSE r <= pk)      \* Mut = 1: `r < pk` (negative control)
            THEN LET v == PDiv(PNeg(st.a1[k - 1]), RdN(T, pk + 1, r))
                 IN [a2 |-> [s1.a2 EXCEPT ![k] = v], d |-> PAdd(s1.d, PMul(v, RdN(T, r, pk)))]
            ELSE s1
  IN [a1 |-> s2.a2, a2 |-> st.a1, fac |-> st.fac * pk, out |-> Append(st.out, PMul(s2.d, R(st.fac)))]

A23Derivs(T, r) ==           \* <<result[1,r], .., result[ND,r]>>
  LET buf == [j \in 0..(ND + P + 2) |-> Poison] IN
  FoldLeft(LAMBDA st, k : A23StepK(T, r, st, k),
           [a1 |-> [buf EXCEPT ![0] = One], a2 |-> buf, fac |-> P, out |-> <<>>], Interval(1, ND)).out

A23 ==        \* entry [k+1][r+1] = result[k, r]   (explicit tuples)
  LET T  == A23Ndu(Span(kv, u))
      DD == Tab(P + 1, LAMBDA rr : A23Derivs(T, rr - 1))
  IN Tab(ND + 1, LAMBDA kk : Tab(P + 1, LAMBDA rr : IF kk = 1 THEN RdN(T, rr - 1, P) ELSE DD[rr][kk - 1]))

-------------------------------------------------------------------------------
(* invariants on (kv, u) states *)
MaxK  == P + Extra
n     == NumDofs(kv, P)

PtOK ==
  ph = "pt" =>
  LET T     == DerivTable(kv, P, MaxK, u)                 \* T[k+1][i+1]
      first == FirstActive(kv, P, u)
      bp    == IsBreakpoint(kv, u)
      left  == bp /\ u # R(KFirst(kv))
      LT    == IF left THEN DerivTableLeft(kv, P, P, u) ELSE <<>>
      lfirst == IF left THEN SpanLeft(kv, u) - P ELSE -1
      rowsum(k) == SumSeq(T[k + 1])
      model == A23
      recset == IF CheckRec = 2 THEN 1..n ELSE IF CheckRec = 1 THEN {i \in 1..n : i >= first /\ i <= first + P + 2} ELSE {}
  IN /\ InDomain(kv, u) /\ first >= 0 /\ first + P <= n - 1
     /\ Kn(kv, first + P) < Kn(kv, first + P + 1)                                       \* the span is non-empty
     /\ \A i \in 1..n : Sign(T[1][i]) >= 0                                              \* non-negativity
     /\ rowsum(0) = One                                                                 \* partition of unity
     /\ \A k \in 1..MaxK : rowsum(k) = Zero                                             \* derivative sums
     /\ \A k \in (P + 1)..MaxK : \A i \in 1..n : T[k + 1][i] = Zero                     \* orders > P vanish
     /\ \A k \in 0..MaxK : \A i \in 1..n : ~IsZero(T[k + 1][i]) => (i - 1) \in first..(first + P)   \* locality
     /\ ~bp => \A i \in (first + 1)..(first + P + 1) : Sign(T[1][i]) > 0                \* exactly P+1 active
     /\ \A k \in 0..MaxK : \A i \in recset : T[k + 1][i] = DNB(kv, i - 1, P, k, u)       \* tables = recursion
     \* one-sided limits: the derivative of order k is continuous at a breakpoint of multiplicity m if k <= P - m
     /\ left => \A k \in 0..P :
              /\ (u = R(KLast(kv)) \/ k <= P - KMult(kv, u[1])) => LT[k + 1] = T[k + 1]
              /\ SumSeq(LT[k + 1]) = (IF k = 0 THEN One ELSE Zero)
              /\ \A i \in 1..n : ~IsZero(LT[k + 1][i]) => (i - 1) \in lfirst..(lfirst + P)
     \* code-shaped model
     /\ \A k \in 0..ND : \A r \in 0..P : ~IsP(model[k + 1][r + 1]) /\ model[k + 1][r + 1] = T[k + 1][first + r + 1]
     /\ DoEmit =>
          Emit("PT", [kv |-> kv, p |-> P, u |-> u, span |-> Span(kv, u), first |-> first, bp |-> bp,
                      mult |-> IF bp THEN KMult(kv, u[1]) ELSE 0,
                      D |-> [k \in 1..(MaxK + 1) |-> ActiveWindow(T[k], first, P)],
                      lfirst |-> lfirst,
                      L |-> IF left THEN [k \in 1..(P + 1) |-> ActiveWindow(LT[k], lfirst, P)] ELSE <<>>])

-------------------------------------------------------------------------------
(* invariants on kv states: the enumerated objects are open knot vectors; Boehm insertion and prolongation *)
ScaleKV(v, c)   == [j \in 1..Len(v) |-> c * v[j]]
Refine2(v)      == \* 2*v with the midpoint of every span inserted once (uniform refinement on the integer grid)
  LET w == ScaleKV(v, 2)
      mids == {Mesh(w)[m] + ((Mesh(w)[m + 1] - Mesh(w)[m]) \div 2) : m \in 1..(Len(Mesh(w)) - 1)}
      ms == SortedSeq(mids)
  IN FoldLeft(LAMBDA acc, m : InsertKnot(acc, ms[m]), w, Ints(Len(ms)))
RowTimesMat(row, M) == Tab(Len(M[1]), LAMBDA c : SumSeq([r \in 1..Len(M) |-> Mul(row[r], M[r][c])]))

KvOK ==
  ph = "kv" =>
  /\ IsOpen(kv, P)
  /\ LET g == Greville(kv, P) IN
       /\ Len(g) = n
       /\ \A i \in 1..n : Le(R(Kn(kv, i - 1)), g[i]) /\ Le(g[i], R(Kn(kv, i + P)))
       /\ \A i \in 1..(n - 1) : Le(g[i], g[i + 1])
  /\ \A i \in 0..(n - 1) : LET ms == MeshSupport(kv, P, i) IN
        Mesh(kv)[ms[1] + 1] = Kn(kv, i) /\ Mesh(kv)[ms[2] + 1] = Kn(kv, i + P + 1)
  /\ CheckIns =>
       /\ \A t \in (KFirst(kv) + 1)..(KLast(kv) - 1) : KMult(kv, t) < IntMax(P, 1) =>
            LET kv2 == InsertKnot(kv, t)
                M   == InsMat(kv, P, t)
                pts == HalfPoints(kv2)
            IN /\ IsOpen(kv2, P)
               /\ \A m \in 1..Len(pts) : RowTimesMat(BasisRow(kv2, P, pts[m]), M) = BasisRow(kv, P, pts[m])
       /\ LET kvc == ScaleKV(kv, 2)
              kvf == Refine2(kv)
              M   == Prolong(kvc, kvf, P)
              pts == HalfPoints(kvf)
          IN /\ IsOpen(kvf, P) /\ IsRefinement(kvc, kvf)
             /\ Len(M) = NumDofs(kvf, P)
             /\ \A m \in 1..Len(pts) : RowTimesMat(BasisRow(kvf, P, pts[m]), M) = BasisRow(kvc, P, pts[m])
             /\ \A r \in 1..Len(M) : SumSeq(M[r]) = One /\ \A c \in 1..Len(M[r]) : Sign(M[r][c]) >= 0
===============================================================================
