------------------------------ MODULE HAssemble ------------------------------
(* C03 -- hierarchical assembly is the level-wise Galerkin restriction of tensor-product assembly.

   For a reachable HSpace state the matrix of a bilinear form over the hierarchical basis is
         Repr^T  A_fine  Repr          (HB: Repr = Repr(FALSE),  THB: Repr = Repr(TRUE))
   with A_fine the tensor-product matrix on the finest created level, whenever the integrand is a
   piecewise polynomial within the exactness of the quadrature.  HRepr supplies Repr exactly; this
   module supplies the exact 1-D Galerkin matrices of every level (Galerkin1D: monomial-wise exact
   integration) from which A_fine is a Kronecker expression:
       mass      = M_1 (x) .. (x) M_d           stiffness = SUM_a  M .. K_a .. M
       conv_x    = M_1 (x) .. (x) C_d           (int  d_x u  v :  C[i][j] = int B_j' B_i, last axis = x)
       wmass     = Mw_1 (x) .. (x) Mw_d         (coefficient (1 + x_a / S_a) per axis, separable)
       load      = b_1 (x) .. (x) b_d           (f = PROD_a (1 + x_a^2 / S_a^2), separable polynomial)
   The domain is the integer grid [0, N_a 2^(MaxLev-1)] per axis (the driver builds the real space on
   exactly this domain, so no scaling enters).  The Kronecker products and the congruence are carried
   out by the harness from these exact rational pieces.                                          *)
EXTENDS HRepr

G == INSTANCE Galerkin1D

SA(a)  == NC(M, a)                             \* length of the domain along axis a
Wt(a)  == <<One, Q(1, SA(a))>>                 \* 1 + x/S      (coefficient of t^0, t^1)
Ft(a)  == <<One, Zero, Q(1, SA(a) * SA(a))>>   \* 1 + x^2/S^2

Gal ==
  [l \in 1..MaxLev |-> [a \in Axes |->
     LET kv == Knots(l - 1, a)  p == PP[a] IN
     [mass  |-> G!Biform(kv, p, 0, 0),
      stiff |-> G!Biform(kv, p, 1, 1),
      conv  |-> G!Biform(kv, p, 1, 0),        \* rows: test functions, columns: trial functions (derivative on u)
      wmass |-> G!BiformW(kv, p, 0, 0, Wt(a)),
      load  |-> G!Load1D(kv, p, Ft(a))]]]

GalOK ==      \* sanity of the reference itself, evaluated once
  \A l \in 1..MaxLev : \A a \in Axes :
    /\ G!IsSymmetric(Gal[l][a].mass) /\ G!IsSymmetric(Gal[l][a].stiff)
    /\ SumSeq([i \in 1..Len(Gal[l][a].mass) |-> SumSeq(Gal[l][a].mass[i])]) = R(SA(a))
    /\ G!RowSumsZero(Gal[l][a].stiff)

EmitGal ==
  (DoEmit /\ hist = <<>>) => (GalOK /\ Emit("GAL", [gal |-> Gal, S |-> [a \in Axes |-> SA(a)]]))
=============================================================================
