------------------------------ MODULE Galerkin1D ------------------------------
(* C09 -- exact Galerkin matrices and load vectors of (tensor-product) B-spline spaces.

   Exactness without quadrature: on every cell [a, b] of a grid that refines the meshes of the knot vectors involved,
   a B-spline is a polynomial of degree <= p; its coefficients in the local variable t = x - a are the Taylor
   coefficients  D^r N_i(a+) / r!  taken from the right-continuous derivative tables of BSplineRef.  Products of such
   pieces (and of a polynomial weight) are integrated monomial by monomial.  Everything is a rational number.

   Conventions (as in pyiga.assemble):  Biform(kv1,p1,kv2,p2,du,dv,..)[j+1][i+1] = int w D^du B1_i D^dv B2_j, i.e. the
   matrix has NumDofs(kv2) rows (TEST functions, derivative dv) and NumDofs(kv1) columns (TRIAL functions, du).
   Polynomials are sequences c with c[r+1] the coefficient of t^r.  Tensor products: axis order of pyiga (last axis
   = x), Kronecker products with the first axis outermost; a geometry matrix A (d x d, x-first coordinate order, as
   returned by grid_jacobian) acts on parameters given in x-first order as well.                                    *)
EXTENDS BSplineRef

-------------------------------------------------------------------------------
(* polynomials over Rat *)
RECURSIVE Fact(_)
Fact(k)        == IF k <= 1 THEN 1 ELSE k * Fact(k - 1)
PolyEval(c, t) == FoldLeft(LAMBDA acc, m : Add(Mul(acc, t), c[Len(c) + 1 - m]), Zero, Ints(Len(c)))      \* Horner
PolyDer(c)     == IF Len(c) <= 1 THEN <<Zero>> ELSE Tab(Len(c) - 1, LAMBDA r : Mul(R(r), c[r + 1]))
PolyDerK(c, k) == FoldLeft(LAMBDA acc, m : PolyDer(acc), c, Ints(k))
PolyMul(c, d)  ==
  Tab(Len(c) + Len(d) - 1, LAMBDA m :
      FoldLeft(LAMBDA acc, r : IF m + 1 - r >= 1 /\ m + 1 - r <= Len(d) /\ ~IsZero(c[r]) /\ ~IsZero(d[m + 1 - r])
                               THEN Add(acc, Mul(c[r], d[m + 1 - r])) ELSE acc,
               Zero, Ints(Len(c))))
PolyShift(c, a) == Tab(Len(c), LAMBDA r : Div(PolyEval(PolyDerK(c, r - 1), a), R(Fact(r - 1))))    \* coefficients of c(a + t)
PolyInt0(c, h)  ==        \* int_0^h c(t) dt
  FoldLeft(LAMBDA acc, s : IF IsZero(c[s]) THEN acc ELSE Add(acc, Mul(c[s], Div(PowR(h, s), R(s)))), Zero, Ints(Len(c)))
PolyIntegral(c, a, b) == PolyInt0(PolyShift(c, a), Sub(b, a))      \* int_a^b c(x) dx
PolyOne == <<One>>

-------------------------------------------------------------------------------
(* the polynomial pieces of the active B-splines on the cell starting at a (a < KLast(kv), no knot inside the cell) *)
Pieces(kv, p, a) ==
  LET T     == DerivTable(kv, p, p, a)
      first == FirstActive(kv, p, a)
  IN [first |-> first,
      poly  |-> Tab(p + 1, LAMBDA r : Tab(p + 1, LAMBDA s : Div(T[s][first + r], R(Fact(s - 1)))))]

IsQuadGrid(grid, kv) ==      \* ascending, spans the domain of kv and contains every breakpoint of kv
  /\ Len(grid) >= 2 /\ \A c \in 1..(Len(grid) - 1) : Lt(grid[c], grid[c + 1])
  /\ grid[1] = R(KFirst(kv)) /\ grid[Len(grid)] = R(KLast(kv))
  /\ \A t \in SeqSet(kv) : \E c \in 1..Len(grid) : grid[c] = R(t)
MeshGrid(kv)      == LET ms == Mesh(kv) IN Tab(Len(ms), LAMBDA m : R(ms[m]))
UnionGrid(g1, g2) == SetToSortSeq(SeqSet(g1) \cup SeqSet(g2), Lt)
HalfGrid(g)       == UnionGrid(g, [c \in 1..(Len(g) - 1) |-> Div(Add(g[c], g[c + 1]), R(2))])

(* element matrices on every cell: E[s][r] = int_cell w D^du B1_{f1+r-1} D^dv B2_{f2+s-1} *)
CellData(kv1, p1, kv2, p2, du, dv, w, grid) ==
  Tab(Len(grid) - 1, LAMBDA c :
      LET a  == grid[c]
          h  == Sub(grid[c + 1], a)
          P1 == Pieces(kv1, p1, a)
          P2 == Pieces(kv2, p2, a)
          wl == PolyShift(w, a)
          q1 == Tab(p1 + 1, LAMBDA r : PolyMul(PolyDerK(P1.poly[r], du), wl))
          q2 == Tab(p2 + 1, LAMBDA s : PolyDerK(P2.poly[s], dv))
      IN [f1 |-> P1.first, f2 |-> P2.first,
          E  |-> Tab(p2 + 1, LAMBDA s : Tab(p1 + 1, LAMBDA r : PolyInt0(PolyMul(q1[r], q2[s]), h)))])

BiformGrid(kv1, p1, kv2, p2, du, dv, w, grid) ==
  LET cd == CellData(kv1, p1, kv2, p2, du, dv, w, grid) IN
  Tab(NumDofs(kv2, p2), LAMBDA jj : Tab(NumDofs(kv1, p1), LAMBDA ii :
      FoldLeft(LAMBDA acc, c :
                 LET r == ii - cd[c].f1  s == jj - cd[c].f2 IN       \* 1-based position inside the active window
                 IF r >= 1 /\ r <= p1 + 1 /\ s >= 1 /\ s <= p2 + 1 THEN Add(acc, cd[c].E[s][r]) ELSE acc,
               Zero, Ints(Len(cd)))))

Biform(kv, p, du, dv)   == BiformGrid(kv, p, kv, p, du, dv, PolyOne, MeshGrid(kv))
BiformW(kv, p, du, dv, w) == BiformGrid(kv, p, kv, p, du, dv, w, MeshGrid(kv))
Mass1D(kv, p)           == Biform(kv, p, 0, 0)
Stiff1D(kv, p)          == Biform(kv, p, 1, 1)

(* load vector  <<int f N_0, ..>>  and integral of a polynomial f over the domain of kv *)
Load1D(kv, p, f) ==
  LET grid == MeshGrid(kv)
      cd   == Tab(Len(grid) - 1, LAMBDA c :
                LET a == grid[c]  P1 == Pieces(kv, p, a)  fl == PolyShift(f, a) IN
                [f1 |-> P1.first, E |-> Tab(p + 1, LAMBDA r : PolyInt0(PolyMul(P1.poly[r], fl), Sub(grid[c + 1], a)))])
  IN Tab(NumDofs(kv, p), LAMBDA ii :
       FoldLeft(LAMBDA acc, c : LET r == ii - cd[c].f1 IN IF r >= 1 /\ r <= p + 1 THEN Add(acc, cd[c].E[r]) ELSE acc,
                Zero, Ints(Len(cd))))
Integral1D(kv, f) == PolyIntegral(f, R(KFirst(kv)), R(KLast(kv)))

-------------------------------------------------------------------------------
(* matrix helpers (explicit tuples) *)
MatT(M)        == Tab(Len(M[1]), LAMBDA j : Tab(Len(M), LAMBDA i : M[i][j]))
MatAdd(A, B)   == Tab(Len(A), LAMBDA i : Tab(Len(A[1]), LAMBDA j : Add(A[i][j], B[i][j])))
MatScale(s, A) == Tab(Len(A), LAMBDA i : Tab(Len(A[1]), LAMBDA j : Mul(s, A[i][j])))
MatSum(M)      == FoldLeft(LAMBDA acc, i : Add(acc, SumSeq(M[i])), Zero, Ints(Len(M)))
Kron2(A, B)    ==
  LET rb == Len(B)  cb == Len(B[1]) IN
  Tab(Len(A) * rb, LAMBDA i : Tab(Len(A[1]) * cb, LAMBDA j :
      Mul(A[((i - 1) \div rb) + 1][((j - 1) \div cb) + 1], B[((i - 1) % rb) + 1][((j - 1) % cb) + 1])))
KronSeq(Ms)    == FoldLeft(LAMBDA acc, a : Kron2(acc, Ms[a]), Ms[1], [a \in 1..(Len(Ms) - 1) |-> a + 1])
IsSymmetric(M) == \A i \in 1..Len(M) : \A j \in 1..(i - 1) : M[i][j] = M[j][i]
RowSumsZero(M) == \A i \in 1..Len(M) : SumSeq(M[i]) = Zero

(* rank by elimination modulo the prime 32749 (PP^2 < 2^31, so no overflow; denominators here are products of small
   integers, never divisible by PP).  rank over Q >= rank over GF(PP): a minor that is non-zero mod PP is non-zero.
   Together with an exactly verified null vector (K 1 = 0) the value n-1 therefore PROVES rank_Q = n-1.            *)
PP == 32749
RECURSIVE EGcd(_, _)
EGcd(a, b) == IF b = 0 THEN <<a, 1, 0>>                     \* <<g, s, t>> with s a + t b = g
              ELSE LET e == EGcd(b, a % b) IN <<e[1], e[3], e[2] - (a \div b) * e[3]>>
InvP(a)  == EGcd(a % PP, PP)[2] % PP
RatP(q)  == ((q[1] % PP) * InvP(q[2] % PP)) % PP
RECURSIVE RankPFrom(_, _, _, _)
RankPFrom(M, r, c, acc) ==
  IF r > Len(M) \/ c > Len(M[1]) THEN acc
  ELSE IF \A i \in r..Len(M) : M[i][c] = 0 THEN RankPFrom(M, r, c + 1, acc)
  ELSE LET piv == CHOOSE i \in r..Len(M) : M[i][c] # 0
           M1  == [M EXCEPT ![r] = M[piv], ![piv] = M[r]]
           iv  == InvP(M1[r][c])
           M2  == Tab(Len(M), LAMBDA i : IF i <= r THEN M1[i]
                    ELSE LET f == (M1[i][c] * iv) % PP IN
                         Tab(Len(M[1]), LAMBDA j : (M1[i][j] - ((f * M1[r][j]) % PP)) % PP))
       IN RankPFrom(M2, r + 1, c + 1, acc + 1)
RankModP(M) == RankPFrom(Tab(Len(M), LAMBDA i : Tab(Len(M[1]), LAMBDA j : RatP(M[i][j]))), 1, 1, 0)

(* tensor-product forms on the parameter domain.  tab[a][du+1][dv+1] = Biform(kvs[a], ps[a], du, dv), du, dv <= 1.
   GradGrad(tab, ca, cb)[I][J] = int d/dxi_ca B_I(test) d/dxi_cb B_J(trial), coordinates ca, cb 1-based, 1 = x. *)
BiTab(kvs, ps) == Tab(Len(kvs), LAMBDA a : Tab(2, LAMBDA x : Tab(2, LAMBDA y : Biform(kvs[a], ps[a], x - 1, y - 1))))
GradGrad(tab, ca, cb) ==
  LET d == Len(tab) IN
  KronSeq(Tab(d, LAMBDA a : tab[a][(IF AxisOfCoord(d, cb) = a THEN 2 ELSE 1)][(IF AxisOfCoord(d, ca) = a THEN 2 ELSE 1)]))
MassTP(tab)  == KronSeq(Tab(Len(tab), LAMBDA a : tab[a][1][1]))
StiffTP(tab) == FoldLeft(LAMBDA acc, c : MatAdd(acc, GradGrad(tab, c, c)), GradGrad(tab, 1, 1),
                         [c \in 1..(Len(tab) - 1) |-> c + 1])

(* small dense linear algebra for the geometry matrix (d = 1, 2, 3) *)
Det(A) ==
  IF Len(A) = 1 THEN A[1][1]
  ELSE IF Len(A) = 2 THEN Sub(Mul(A[1][1], A[2][2]), Mul(A[1][2], A[2][1]))
  ELSE Add(Sub(Mul(A[1][1], Sub(Mul(A[2][2], A[3][3]), Mul(A[2][3], A[3][2]))),
               Mul(A[1][2], Sub(Mul(A[2][1], A[3][3]), Mul(A[2][3], A[3][1])))),
           Mul(A[1][3], Sub(Mul(A[2][1], A[3][2]), Mul(A[2][2], A[3][1]))))
InvMat(A) ==     \* by exact elimination, column by column
  LET d == Len(A) IN MatT(Tab(d, LAMBDA c : Solve(A, [r \in 1..d |-> IF r = c THEN One ELSE Zero])))

(* affine geometry x = A xi + t:  mass = |det A| MassTP;  stiffness = |det A| sum_{ca,cb} (A^-1 A^-T)[ca][cb] GradGrad;
   div-div block (cv, cu) (components, 1 = x) = |det A| sum_{ca,cb} A^-1[ca][cv] A^-1[cb][cu] GradGrad(ca, cb)      *)
LinComb(tab, W) ==      \* sum_{ca,cb} W[ca][cb] GradGrad(tab, ca, cb)
  LET d   == Len(tab)
      prs == [m \in 1..(d * d) |-> <<((m - 1) \div d) + 1, ((m - 1) % d) + 1>>]
  IN FoldLeft(LAMBDA acc, m :
                IF IsZero(W[prs[m][1]][prs[m][2]]) THEN acc
                ELSE LET T == MatScale(W[prs[m][1]][prs[m][2]], GradGrad(tab, prs[m][1], prs[m][2])) IN
                     IF acc = <<>> THEN T ELSE MatAdd(acc, T),
              <<>>, Ints(d * d))
MassAffine(tab, A)  == MatScale(AbsR(Det(A)), MassTP(tab))
StiffAffine(tab, A) ==
  LET Ai == InvMat(A)  d == Len(A)
      W  == Tab(d, LAMBDA x : Tab(d, LAMBDA y : Mul(AbsR(Det(A)), Dot(Ai[x], Ai[y]))))
  IN LinComb(tab, W)
DivDivBlock(tab, A, cv, cu) ==
  LET Ai == InvMat(A)  d == Len(A)
      W  == Tab(d, LAMBDA x : Tab(d, LAMBDA y : Mul(AbsR(Det(A)), Mul(Ai[x][cv], Ai[y][cu]))))
  IN LinComb(tab, W)
===============================================================================
