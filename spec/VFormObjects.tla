----------------------------- MODULE VFormObjects -----------------------------
(* C13, history clause: a form OBJECT is requested, possibly extended (VForm.add) and requested again.
   The library memoises the structural hash of a form object at the first request ("vforms are
   considered immutable after initial setup"); soundness of the cache then depends on the object
   being frozen from that moment on: add() must be refused, or the key recomputed.
     n       number of terms the object currently has (form F_n; distinct n generate distinct sources)
     frozen  a key has been memoised
     memo    the memoised key (-1 = none)
     cache   set of <<key, source>>
   AllowMutateFrozen = TRUE models an add() that no longer refuses after the first request while the
   memoised key is kept (negative control: Sound is violated by  Request; Add; Request).            *)
EXTENDS Integers, Sequences, FiniteSets, TLC, Emit

CONSTANTS MaxLen, MaxTerms, AllowMutateFrozen, DoEmit

VARIABLES n, frozen, memo, cache, hist, bad
vars == <<n, frozen, memo, cache, hist, bad>>

Init == n = 1 /\ frozen = FALSE /\ memo = -1 /\ cache = {} /\ hist = <<>> /\ bad = FALSE

Request ==
  /\ Len(hist) < MaxLen
  /\ LET key == IF memo # -1 THEN memo ELSE n
         hit == {e \in cache : e[1] = key}
         resp == IF hit # {} THEN (CHOOSE e \in hit : TRUE)[2] ELSE n
     IN /\ memo' = key /\ frozen' = TRUE
        /\ cache' = cache \cup {<<key, resp>>}
        /\ bad' = (resp # n)
        /\ hist' = Append(hist, [a |-> "req", src |-> resp])
        /\ UNCHANGED n

AddTerm ==
  /\ Len(hist) < MaxLen /\ n < MaxTerms
  /\ IF frozen /\ ~AllowMutateFrozen
     THEN /\ hist' = Append(hist, [a |-> "add", src |-> 0])          \* refused (RuntimeError)
          /\ UNCHANGED <<n, frozen, memo, cache, bad>>
     ELSE /\ n' = n + 1
          /\ hist' = Append(hist, [a |-> "add", src |-> 1])
          /\ UNCHANGED <<frozen, memo, cache, bad>>

Next == Request \/ AddTerm
Spec == Init /\ [][Next]_vars

Sound == ~bad
FrozenMeansMemo == frozen <=> (memo # -1)
EmitBeh == (DoEmit /\ Len(hist) = MaxLen) => Emit("OBJ", hist)
=============================================================================
