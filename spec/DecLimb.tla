------------------------------ MODULE DecLimb ------------------------------
(* Exact signed decimal fixed-point arithmetic for TLC (C12, order conditions of the shipped
   Runge-Kutta / Rosenbrock tableaux).

   TLC has neither reals nor floats and its integers are 32 bit, so a 17-digit decimal constant
   such as 0.43586652150845899942 cannot be a rational <<n,d>>.  A number is a record
        [s |-> 1 | -1,  d |-> <<d_1, ..., d_NL>>]      (little endian, base 10^4 limbs)
   with value   s * SUM_k d_k * 10^(4*(k-1-FR)),   i.e. FR limbs (= 4*FR digits) after the decimal
   point and NL-FR limbs before it.  Add/Sub are exact; Mul is the schoolbook product (a raw limb is
   at most NL * (10^4-1)^2 + carry < 2^31 for NL = 12) truncated towards zero after 4*FR fractional
   digits, so one multiplication is wrong by less than 10^(-4*FR) = 1e-24.                          *)
EXTENDS Integers, Sequences, SequencesExt, FiniteSetsExt

NL == 12          \* limbs per number
FR == 6           \* fractional limbs (24 decimal digits)
BASE == 10000

IsDec(x) == /\ x.s \in {1, -1}
            /\ Len(x.d) = NL
            /\ \A k \in 1..NL : x.d[k] \in 0..(BASE - 1)

ZeroMag == [k \in 1..NL |-> 0]
DZero   == [s |-> 1, d |-> ZeroMag]
MagIsZero(a) == \A k \in 1..NL : a[k] = 0

\* small non-negative integer n (< 10^4) / small rationals are built from these
DInt(n) == [s |-> IF n < 0 THEN -1 ELSE 1,
            d |-> [k \in 1..NL |-> IF k = FR + 1 THEN (IF n < 0 THEN -n ELSE n) ELSE 0]]

\* ---------------------------------------------------------------- magnitudes (sequences of limbs)
MagLt(a, b) ==
  LET ks == {k \in 1..NL : a[k] # b[k]} IN
  ks # {} /\ a[Max(ks)] < b[Max(ks)]

\* fold state: <<carry, limbs so far>>
MagAdd(a, b) ==
  LET step(acc, k) == LET t == a[k] + b[k] + acc[1] IN <<t \div BASE, Append(acc[2], t % BASE)>>
      r == FoldLeft(step, <<0, <<>>>>, [k \in 1..NL |-> k])
  IN r[2]          \* a carry out of the top limb cannot occur for the magnitudes used (checked by AddOK)

AddOK(a, b) ==
  LET step(acc, k) == (a[k] + b[k] + acc) \div BASE
  IN FoldLeft(step, 0, [k \in 1..NL |-> k]) = 0

MagSub(a, b) ==    \* requires a >= b
  LET step(acc, k) == LET t == a[k] - b[k] - acc[1] IN
                        IF t < 0 THEN <<1, Append(acc[2], t + BASE)>> ELSE <<0, Append(acc[2], t)>>
      r == FoldLeft(step, <<0, <<>>>>, [k \in 1..NL |-> k])
  IN r[2]

\* raw product limb k (0-based, 0..2NL-2) before carry propagation
RawProd(a, b, k) ==
  LET lo == IF k - (NL - 1) > 0 THEN k - (NL - 1) ELSE 0
      hi == IF k < NL - 1 THEN k ELSE NL - 1
  IN FoldLeft(LAMBDA acc, i : acc + a[i + 1] * b[k - i + 1], 0, [j \in 1..(hi - lo + 1) |-> lo + j - 1])

\* all 2NL normalised limbs of the product (little endian, 1-based sequence of length 2NL)
FullProd(a, b) ==
  LET step(acc, k) == LET t == (IF k <= 2 * NL - 2 THEN RawProd(a, b, k) ELSE 0) + acc[1]
                      IN <<t \div BASE, Append(acc[2], t % BASE)>>
      r == FoldLeft(step, <<0, <<>>>>, [k \in 1..(2 * NL) |-> k - 1])
  IN r[2]

MagMul(a, b) == LET p == FullProd(a, b) IN [k \in 1..NL |-> p[k + FR]]
MulOK(a, b)  == LET p == FullProd(a, b) IN \A k \in (NL + FR + 1)..(2 * NL) : p[k] = 0

\* ---------------------------------------------------------------- signed numbers
DNorm(s, m) == [s |-> IF MagIsZero(m) THEN 1 ELSE s, d |-> m]

DNeg(x) == DNorm(-x.s, x.d)

DAdd(x, y) ==
  IF x.s = y.s THEN DNorm(x.s, MagAdd(x.d, y.d))
  ELSE IF MagLt(x.d, y.d) THEN DNorm(y.s, MagSub(y.d, x.d))
  ELSE DNorm(x.s, MagSub(x.d, y.d))

DSub(x, y) == DAdd(x, DNeg(y))
DMul(x, y) == DNorm(x.s * y.s, MagMul(x.d, y.d))
DAbs(x)    == [s |-> 1, d |-> x.d]
DLt(x, y)  == LET z == DSub(x, y) IN z.s = -1      \* DNorm gives zero the sign +1

DSum(seq)  == FoldLeft(DAdd, DZero, seq)
DDot(u, v) == DSum([i \in 1..Len(u) |-> DMul(u[i], v[i])])
DMatVec(M, v) == [i \in 1..Len(M) |-> DDot(M[i], v)]

\* 1/n for n in {2,3,4,6,8,12,24}, truncated after 24 digits (error < 1e-24): long division on limbs
DRecip(n) ==
  LET step(acc, k) ==     \* from the top limb down; acc = <<remainder, limbs (big endian)>>
        LET cur == acc[1] * BASE + (IF k = FR + 1 THEN 1 ELSE 0)
        IN <<cur % n, Append(acc[2], cur \div n)>>
      r  == FoldLeft(step, <<0, <<>>>>, [j \in 1..NL |-> NL + 1 - j])
  IN [s |-> 1, d |-> Reverse(r[2])]

\* 10^(-4*e) as a number (e limbs after the point), e.g. DTol(2) = 1e-8
DTol(e) == [s |-> 1, d |-> [k \in 1..NL |-> IF k = FR + 1 - e THEN 1 ELSE 0]]

\* ---------------------------------------------------------------- self tests (evaluated by TLC as ASSUMEs)
DFromDigits(s, ip, fr) ==   \* ip: integer part < 10^4, fr: FR limbs, most significant first
  [s |-> s, d |-> [k \in 1..NL |-> IF k <= FR THEN fr[FR + 1 - k] ELSE IF k = FR + 1 THEN ip ELSE 0]]

ASSUME DAdd(DInt(7), DInt(-9)) = DInt(-2)
ASSUME DMul(DInt(-12), DInt(12)) = DInt(-144)
ASSUME DMul(DRecip(4), DInt(8)) = DInt(2)
ASSUME LET h == DFromDigits(1, 0, <<5000, 0, 0, 0, 0, 0>>) IN DMul(h, h) = DRecip(4)
ASSUME LET a == DFromDigits(1, 1, <<9999, 9999, 9999, 9999, 9999, 9999>>)     \* 1.99..9 + 1e-24 = 2
           e == DFromDigits(1, 0, <<0, 0, 0, 0, 0, 1>>) IN DAdd(a, e) = DInt(2)
ASSUME LET a == DFromDigits(1, 2, <<0, 0, 0, 0, 0, 0>>)                        \* 2 - 1e-24
           e == DFromDigits(1, 0, <<0, 0, 0, 0, 0, 1>>)
       IN DSub(a, e) = DFromDigits(1, 1, <<9999, 9999, 9999, 9999, 9999, 9999>>)
ASSUME LET t == DRecip(3) IN DLt(DAbs(DSub(DMul(t, DInt(3)), DInt(1))), DTol(5))
ASSUME DLt(DInt(-1), DZero) /\ ~DLt(DZero, DZero) /\ DLt(DTol(3), DTol(2))
\* 1234.5678 * 0.0001 = 0.12345678
ASSUME DMul(DFromDigits(1, 1234, <<5678, 0, 0, 0, 0, 0>>), DFromDigits(1, 0, <<1, 0, 0, 0, 0, 0>>))
         = DFromDigits(1, 0, <<1234, 5678, 0, 0, 0, 0>>)
=============================================================================
