------------------------------ MODULE Dirichlet ------------------------------
(* C10, first part -- eliminating Dirichlet dofs from a linear system
   (pyiga/assemble.py, class RestrictedLinearSystem, lines 571-652).

   Declarative side (the reference, written from the property, not from the code):
     a case is  (idx, vals, elim, b)  over the fixed regular matrix A of size N:
       idx    an injective sequence of dofs in ANY order, vals[k] the value prescribed at idx[k],
       elim   the rows dropped from the system (default: the rows idx),
       Free   the unconstrained dofs ascending,  FRows the kept rows ascending,
       G      the full vector carrying vals at idx and 0 elsewhere,
       Ar = A[FRows][Free],  br = (b - A G)[FRows],  u = Ar^-1 br (exact, Rat!Solve),
       x  = Complete(u): x[Free[k]] = u[k], x[idx[k]] = vals[k].
     The property itself is checked on the reference (PropValues, PropRows, Consistent).

   Code-shaped side: the boolean mask and the selection matrices R_free = I[mask],
   R_elim = I[~mask] (rows of the identity, kept as row-index sequences), and
   complete(u) = R_free^T u + R_elim^T values.  Buggy = TRUE is the code as it stood before the
   "fix:" commit 436fa5c, R_elim = I[~mask] (values[k] lands on the k-th SMALLEST constrained dof) --
   kept as negative control; Buggy = FALSE takes the rows of R_elim in the order of `indices`,
   R_elim = I[indices], as the code does now.  CodeAgrees compares the model with the reference.

   State machine (one TLC behaviour = one fully specified call):
     ExtendIdx(i)  grows idx by one dof  -> every injective sequence in every order
     ChooseElim(e) elim_rows (none or an injective sequence of the same length)
     ChooseModes   values scalar 0 / scalar / per dof; rhs array / scalar 0; computes the reference
     Render(f)     dense or CSR rendering; emits the case with the expected results.          *)
EXTENDS Integers, Sequences, FiniteSets, SequencesExt, FiniteSetsExt, TLC, Rat, Emit

CONSTANTS N,          \* size of the system (1..5)
          MaxLen,     \* maximal length of idx (N: all dofs may be constrained)
          ElimMode,   \* "none" | "all" (every injective sequence of the same length) | "sets2"
          VModes,     \* subset of {"zero", "scalar", "array"}
          RModes,     \* subset of {"array", "zero"}
          Fmts,       \* subset of {"dense", "csr", "csc"}
          EVModes, ERModes, EFmts,   \* the same three, used when elim_rows is given
          Buggy,      \* code-shaped model of the pre-fix selection matrix (negative control)
          DoEmit

VARIABLES idx, phase, elim, helim, vm, rm, fmt, ref
vars == <<idx, phase, elim, helim, vm, rm, fmt, ref>>

Dofs == 0..(N - 1)

-----------------------------------------------------------------------------
(* data: a non-symmetric integer matrix all of whose square sub-matrices (any row set, any
   column set, sizes 1..5) are regular -- needed because elim_rows need not equal idx *)
AInt(i, j) == (((2 * i + 6 * j + 2 * i * j) % 10) - 5) + (IF i = j THEN 7 ELSE 0)
A    == [i \in 1..N |-> [j \in 1..N |-> R(AInt(i - 1, j - 1))]]
B2   == [i \in 1..N |-> [j \in 1..N |-> R(10 * i + j)]]            \* second matrix for restrict_matrix
BArr == [i \in 1..N |-> R((2 * (i - 1) * (i - 1)) - (7 * (i - 1)) + 3)]
WVec == [i \in 1..N |-> R(100 + i)]                                   \* a full vector
ZVec(m) == [k \in 1..m |-> R(200 + 7 * k)]                            \* a vector on the free dofs
PerDof(k) == IF (k % 2) = 1 THEN -(2 * k + 1) ELSE 2 * k + 1          \* -3, 5, -7, 9, -11
ScalarVal == 3

ValsOf(mode, m) == [k \in 1..m |-> IF mode = "array" THEN R(PerDof(k))
                                   ELSE IF mode = "scalar" THEN R(ScalarVal) ELSE Zero]
RhsOf(mode) == IF mode = "array" THEN BArr ELSE [i \in 1..N |-> Zero]

-----------------------------------------------------------------------------
(* the reference *)
SortedSeq(S) == SetToSortSeq(S, <)
SeqRange(s)  == {s[k] : k \in 1..Len(s)}
VAdd(x, y)   == [i \in 1..Len(x) |-> Add(x[i], y[i])]
VSub(x, y)   == [i \in 1..Len(x) |-> Sub(x[i], y[i])]

FreeOf(s)    == SortedSeq(Dofs \ SeqRange(s))
GOf(ix, vals) == [i \in 1..N |-> IF (i - 1) \in SeqRange(ix)
                                 THEN vals[CHOOSE k \in 1..Len(ix) : ix[k] = i - 1] ELSE Zero]
RestrictV(x, sel)      == [k \in 1..Len(sel) |-> x[sel[k] + 1]]
ExtendV(u, sel)        == [i \in 1..N |-> IF (i - 1) \in SeqRange(sel)
                                         THEN u[CHOOSE k \in 1..Len(sel) : sel[k] = i - 1] ELSE Zero]
RestrictMatrix(M, rows, cols) == [r \in 1..Len(rows) |-> [c \in 1..Len(cols) |-> M[rows[r] + 1][cols[c] + 1]]]

Reference(ix, vmode, he, el, rmode) ==
  LET vals  == ValsOf(vmode, Len(ix))
      b     == RhsOf(rmode)
      free  == FreeOf(ix)
      frows == IF he THEN FreeOf(el) ELSE free
      g     == GOf(ix, vals)
      Ar    == RestrictMatrix(A, frows, free)
      br    == RestrictV(VSub(b, MatVec(A, g)), frows)
      u     == Solve(Ar, br)
      x     == [i \in 1..N |-> IF (i - 1) \in SeqRange(ix)
                               THEN vals[CHOOSE k \in 1..Len(ix) : ix[k] = i - 1]
                               ELSE u[CHOOSE k \in 1..Len(free) : free[k] = i - 1]]
      z     == ZVec(Len(free))
  IN [vals |-> vals, b |-> b, free |-> free, frows |-> frows, g |-> g, Ar |-> Ar, br |-> br, u |-> u, x |-> x,
      rw |-> RestrictV(WVec, free), rrw |-> RestrictV(WVec, frows),
      ez |-> ExtendV(z, free), cz |-> VAdd(ExtendV(z, free), g),
      rB |-> RestrictMatrix(B2, frows, free)]

-----------------------------------------------------------------------------
(* the code-shaped model: masks and rows of the identity *)
MaskOf(S)    == [i \in 1..N |-> (i - 1) \notin S]
RowsWhere(m, v) == SelectSeq([i \in 1..N |-> i - 1], LAMBDA d : m[d + 1] = v)   \* I[mask] as row indices
CodeModel(ix, vals, he, el, b) ==
  LET mask   == MaskOf(SeqRange(ix))
      Rfree  == RowsWhere(mask, TRUE)
      Relim  == IF Buggy THEN RowsWhere(mask, FALSE) ELSE ix
      maskv  == MaskOf(SeqRange(SortedSeq(SeqRange(el))))
      RfreeV == IF he THEN RowsWhere(maskv, TRUE) ELSE Rfree
      lift   == [i \in 1..N |-> IF \E k \in 1..Len(Relim) : Relim[k] = i - 1         \* R_elim^T . values
                                THEN vals[CHOOSE k \in 1..Len(Relim) : Relim[k] = i - 1] ELSE Zero]
  IN [free |-> Rfree, frows |-> RfreeV, g |-> lift,
      br |-> RestrictV(VSub(b, MatVec(A, lift)), RfreeV)]

-----------------------------------------------------------------------------
InjSeqs(m) == {s \in [1..m -> Dofs] : \A a, b \in 1..m : a # b => s[a] # s[b]}
Reverse2(s) == [k \in 1..Len(s) |-> s[Len(s) + 1 - k]]
ElimChoices(m) ==
  IF ElimMode = "all" THEN InjSeqs(m)
  ELSE IF ElimMode = "sets2"
       THEN UNION {{SortedSeq(S), Reverse2(SortedSeq(S))} : S \in {T \in SUBSET Dofs : Cardinality(T) = m}}
  ELSE {}

Init ==
  /\ idx = <<>> /\ phase = "idx" /\ elim = <<>> /\ helim = FALSE
  /\ vm = "-" /\ rm = "-" /\ fmt = "-" /\ ref = <<>>

ExtendIdx(i) ==
  /\ phase = "idx" /\ Len(idx) < MaxLen /\ i \notin SeqRange(idx)
  /\ idx' = Append(idx, i)
  /\ UNCHANGED <<phase, elim, helim, vm, rm, fmt, ref>>

ChooseElim ==
  /\ phase = "idx"
  /\ phase' = "elim"
  /\ \/ helim' = FALSE /\ elim' = <<>> /\ ElimMode \in {"none", "all", "sets2"}
     \/ helim' = TRUE /\ elim' \in ElimChoices(Len(idx))
  /\ UNCHANGED <<idx, vm, rm, fmt, ref>>

ChooseModes ==
  /\ phase = "elim"
  /\ phase' = "case"
  /\ vm' \in (IF helim THEN EVModes ELSE VModes) /\ rm' \in (IF helim THEN ERModes ELSE RModes)
  /\ ref' = Reference(idx, vm', helim, elim, rm')
  /\ UNCHANGED <<idx, elim, helim, fmt>>

J(v)   == v[1]                               \* integer vectors/matrices cross as plain ints
IsInt(v) == v[2] = 1
Render ==
  /\ phase = "case"
  /\ phase' = "done"
  /\ fmt' \in (IF helim THEN EFmts ELSE Fmts)
  /\ UNCHANGED <<idx, elim, helim, vm, rm, ref>>
  /\ DoEmit => Emit("RLS",
       [n |-> N, idx |-> idx, vm |-> vm, vals |-> [k \in 1..Len(idx) |-> J(ref.vals[k])],
        helim |-> helim, elim |-> elim, rm |-> rm, fmt |-> fmt',
        free |-> ref.free, frows |-> ref.frows,
        Ar |-> [r \in 1..Len(ref.Ar) |-> [c \in 1..Len(ref.Ar[r]) |-> J(ref.Ar[r][c])]],
        br |-> [k \in 1..Len(ref.br) |-> J(ref.br[k])],
        u |-> ref.u, x |-> ref.x,
        rw |-> [k \in 1..Len(ref.rw) |-> J(ref.rw[k])], rrw |-> [k \in 1..Len(ref.rrw) |-> J(ref.rrw[k])],
        ez |-> [k \in 1..N |-> J(ref.ez[k])], cz |-> [k \in 1..N |-> J(ref.cz[k])],
        rB |-> [r \in 1..Len(ref.rB) |-> [c \in 1..Len(ref.rB[r]) |-> J(ref.rB[r][c])]]])

Next == (\E i \in Dofs : ExtendIdx(i)) \/ ChooseElim \/ ChooseModes \/ Render
Spec == Init /\ [][Next]_vars

-----------------------------------------------------------------------------
(* invariants; evaluated in every state in which a case is fully specified *)
HasRef == phase \in {"case", "done"}

\* the property, on the reference itself
PropValues == HasRef => \A k \in 1..Len(idx) : ref.x[idx[k] + 1] = ref.vals[k]
PropRows   == HasRef => LET Ax == MatVec(A, ref.x) IN
                        \A r \in SeqRange(ref.frows) : Ax[r + 1] = ref.b[r + 1]
Consistent == HasRef =>
  LET free == ref.free  frows == ref.frows  u == ref.u  z == ZVec(Len(free)) IN
  /\ Len(free) + Len(idx) = N /\ Len(frows) = Len(free)
  /\ SeqRange(free) \cap SeqRange(idx) = {} /\ SeqRange(free) \cup SeqRange(idx) = Dofs
  /\ RestrictV(ExtendV(z, free), free) = z                       \* restrict . extend = id
  /\ RestrictV(ref.cz, free) = z                                \* restrict . complete = id
  /\ \A k \in 1..Len(idx) : ref.cz[idx[k] + 1] = ref.vals[k]   \* complete prescribes the values for ANY z
  /\ \A k \in 1..Len(idx) : ref.ez[idx[k] + 1] = Zero          \* extend pads with zeros
  /\ MatVec(ref.Ar, z) = RestrictV(MatVec(A, ref.ez), frows)    \* restrict_matrix(A) z = restrict_rhs(A extend(z))
  /\ ref.x = VAdd(ExtendV(u, free), ref.g)
  /\ MatVec(ref.Ar, u) = ref.br
  /\ \A k \in 1..Len(ref.br) : IsInt(ref.br[k])

\* the code-shaped model agrees with the reference (violated with Buggy = TRUE)
CodeAgrees == HasRef =>
  LET c == CodeModel(idx, ref.vals, helim, elim, ref.b) IN
  /\ c.free = ref.free /\ c.frows = ref.frows /\ c.g = ref.g /\ c.br = ref.br

EmitSys == (DoEmit /\ phase = "idx" /\ idx = <<>>) =>
  Emit("SYS", [n |-> N,
               A |-> [i \in 1..N |-> [j \in 1..N |-> J(A[i][j])]],
               B |-> [i \in 1..N |-> [j \in 1..N |-> J(B2[i][j])]],
               b |-> [i \in 1..N |-> J(BArr[i])],
               w |-> [i \in 1..N |-> J(WVec[i])],
               z |-> [k \in 1..N |-> J(ZVec(N)[k])],
               scalar |-> ScalarVal])
=============================================================================
