"""Rendering of VFormGen.tla programs (postfix tokens) through pyiga's public string interface (parse_vf)."""
import numpy as np

LEAF = {
    'u': 'u', 'v': 'v', 'ux': 'Dx(u,0)', 'uy': 'Dx(u,1)', 'vx': 'Dx(v,0)', 'vy': 'Dx(v,1)',
    'uxp': 'Dx(u,0,parametric=True)', 'vyp': 'Dx(v,1,parametric=True)', 'uxx': 'Dx(u,0,2)', 'uxy': 'Dx(Dx(u,0),1)',
    'c': 'c', 'two': '2', 'three': '3', 'half': '0.5', 'tiny': '7.450580596923828125e-09', 'near1': '1.000003814697265625', 'hpar': 'h', 'hx': 'Dx(h,0)', 'gw': 'gw',
    'f': 'f', 'f2': 'f2', 'cD': 'c', 'twoD': '2',
    'gu': 'grad(u)', 'gv': 'grad(v)', 'gup': 'grad(u,parametric=True)', 'gh': 'grad(h)', 'g': 'g', 'x': 'x',
    'uvec': 'u', 'vvec': 'v', 'u0': 'u[0]', 'u1': 'u[1]', 'w0': 'v[0]', 'w1': 'v[1]', 'divu': 'div(u)', 'divv': 'div(v)',
    'Gu': 'grad(u)', 'Gv': 'grad(v)',
    'B': 'B', 'nrm': 'n', 'Ainv': 'inv(A)', 'Jinv': 'inv(jac)', 'Hu': 'hess(u)', 'Hv': 'hess(v)', 'A': 'A', 'J': 'jac', 'Gg': 'grad(g)',
}
UNARY = {
    'neg': '(-(%s))', 'sin': 'sin(%s)', 'cos': 'cos(%s)', 'exp': 'exp(%s)', 'log': 'log(%s)', 'sqrt': 'sqrt(%s)',
    'abs': 'abs(as_expr(%s))', 'tan': 'tan(%s)', 'sq': '((%s)**2)', 'cube': '((%s)**3)',
    'negD': '(-(%s))', 'dx0': 'Dx(%s,0)', 'dx1': 'Dx(%s,1)', 'val': '(%s)', 'gradD': 'grad(%s)',
    'norm': 'norm(%s)', 'v0': '(%s)[0]', 'v1': '(%s)[1]', 'det': 'det(%s)', 'tr': 'tr(%s)', 'm01': '(%s)[0,1]',
    'T': '(%s).T', 'inv': 'inv(%s)',
}
BINARY = {
    '+': '((%s)+(%s))', '-': '((%s)-(%s))', '*': '((%s)*(%s))', '/': '((%s)/(%s))',
    '+D': '((%s)+(%s))', '-D': '((%s)-(%s))', '*D': '((%s)*(%s))', '/D': '((%s)/(%s))',
    'inner': 'inner(%s,%s)', 'v+': '((%s)+(%s))', 'v-': '((%s)-(%s))', 'cross': 'cross(%s,%s)', 'sv*': '((%s)*(%s))',
    'matvec': 'dot(%s,%s)', 'matmat': 'dot(%s,%s)', 'm+': '((%s)+(%s))', 'minner': 'inner(%s,%s)', 'outer': 'outer(%s,%s)',
}


def render(tokens, measure='dx'):
    st = []
    for t in tokens:
        if t in LEAF:
            st.append(LEAF[t])
        elif t == 'sqD':
            a = st.pop()
            st.append('((%s)*(%s))' % (a, a))
        elif t in UNARY:
            st.append(UNARY[t] % st.pop())
        else:
            b = st.pop()
            a = st.pop()
            st.append(BINARY[t] % (a, b))
    assert len(st) == 1
    return '(%s)*%s' % (st[0], measure)


def make_args(dim, kvs):
    """inputs used by the generated programs: f, f2 physical scalars; h parametric scalar; g physical vector;
    A physical matrix; c scalar parameter"""
    from pyiga import bspline
    n = tuple(kv.numdofs for kv in kvs)
    return {
        'f': (lambda *X: 0.5 + 0.0 * X[0]), 'f2': (lambda *X: 0.25 + 0.0 * X[0]),
        'h': bspline.BSplineFunc(kvs, np.full(n, 0.5)),
        'g': (lambda *X: np.full(dim, 0.5)), 'A': (lambda *X: np.full((dim, dim), 0.5)),
        'B': (lambda *X: np.full((dim + 1, dim), 0.5)),
        'c': 1.5,
    }


def build(tokens, dim):
    from pyiga import bspline, vform
    kvs = dim * (bspline.make_knots(2, 0.0, 1.0, 2),)
    expr = render(tokens)
    return vform.parse_vf(expr, kvs, args=make_args(dim, kvs))
