"""Child process for C20/C13: compile one or more forms with the real pipeline into the cache given by
XDG_CACHE_HOME and print the assembled matrices (JSON, last line).  argv: form ids."""
import json
import os
import sys
import time

FORMS = {
    'mass':   ('u*v*dx', 1.0),
    'mass2':  ('2*u*v*dx', 2.0),
    'mass3':  ('3*u*v*dx', 3.0),
    'mass5':  ('5*u*v*dx', 5.0),
    'stiff':  ('inner(grad(u),grad(v))*dx', None),
}


def main():
    delay = float(os.environ.get('C20_DELAY', '0') or 0)
    if delay:
        time.sleep(delay)
    # gcc/cython chatter goes to stderr/stdout of the build; keep our result on fd 3 if given
    import numpy as np
    from pyiga import assemble, bspline, geometry
    kv = bspline.make_knots(2, 0.0, 1.0, 3)
    out = {}
    start_at = float(os.environ.get('C20_START_AT', '0') or 0)
    while start_at and time.time() < start_at:       # synchronised start of a cold-cache race (busy wait: microseconds matter)
        pass
    for n, fid in enumerate(sys.argv[1:]):
        if n > 0 and os.environ.get('C20_CLEAR_BETWEEN'):
            # what scripts/clear-cache.py does, while this interpreter stays alive
            import shutil
            shutil.rmtree(os.path.join(os.environ['XDG_CACHE_HOME'], 'pyiga'), ignore_errors=True)
        form, _ = FORMS[fid]
        A = assemble.assemble(form, (kv,), geo=geometry.line_segment(0.0, 2.0)).toarray()
        out[fid] = A.tolist()
    res = json.dumps({'ok': True, 'pid': os.getpid(), 'result': out})
    rf = os.environ.get('C20_RESULT')
    if rf:
        with open(rf, 'w') as f:
            f.write(res)
    print('C20RESULT ' + res)


if __name__ == '__main__':
    main()
