"""C18 helper: numeric predicates of the property evaluated on the cases chosen by spec/TensorAlgNum.tla.

Run as a worker:  python -m harness.c18_num IN.jsonl OUT.jsonl SEED
one JSON line per case in, one per case out: {"q":..., "fam":..., "viol": [[signature, detail], ...], "checks": n}
(the driver runs it in a subprocess so that a non-terminating approximation loop is contained)."""
import json
import sys

import numpy as np


def dense_of(case):
    sh = tuple(case['sh'])
    A = np.zeros(sh)
    for j, t in enumerate(case['terms']):
        x = np.array(t[0], dtype=float) * 10.0 ** (-case['dec'][j])
        for v in t[1:]:
            x = np.multiply.outer(x, np.array(v, dtype=float))
        A = A + x
    return A


def factors_of(case):
    d = len(case['sh'])
    Xs = []
    for k in range(d):
        cols = []
        for j, t in enumerate(case['terms']):
            v = np.array(t[k], dtype=float)
            if k == 0:
                v = v * 10.0 ** (-case['dec'][j])
            cols.append(v)
        Xs.append(np.column_stack(cols) if cols else np.zeros((case['sh'][k], 0)))
    return Xs


def nrm(X):
    return float(np.linalg.norm(np.asarray(X).ravel()))


def ev_tucker(case, viol):
    from pyiga import tensor
    A = dense_of(case)
    nA = nrm(A)
    eps = 1e-12 * max(1.0, nA)
    n = 0
    tag = 'fam=tucker'

    def orthonormal(Us):
        return all(np.abs(U.T @ U - np.eye(U.shape[1])).max() <= 1e-12 for U in Us if U.shape[1] > 0)

    # HOSVD: exact, orthonormal factors
    H = tensor.hosvd(A)
    n += 1
    if nrm(H.asarray() - A) > eps:
        viol.append(('hosvd-not-exact ' + tag, {'case': case, 'err': nrm(H.asarray() - A)}))
    if not orthonormal(H.Us):
        viol.append(('hosvd-not-orthonormal ' + tag, {'case': case}))
    if tuple(H.X.shape) != tuple(U.shape[1] for U in H.Us) or H.shape != A.shape:
        viol.append(('hosvd-shape ' + tag, {'case': case}))
    # truncation of the HOSVD at the rank found for the tolerance
    tol = 10.0 ** (-case['tolexp'])
    t_abs = tol * max(nA, 1e-300) if case['rel'] else tol
    k = tensor.find_truncation_rank(H.X, t_abs)
    Ht = H.truncate(k)
    n += 1
    if nrm(Ht.asarray() - A) > t_abs * (1 + 1e-6) + eps:
        viol.append(('truncate-exceeds-tolerance ' + tag, {'case': case, 'err': nrm(Ht.asarray() - A), 'tol': t_abs}))
    if tuple(Ht.R) != tuple(k):
        viol.append(('truncate-rank ' + tag, {'case': case, 'R': list(Ht.R), 'k': list(k)}))
    # a slowly decaying tail: three core slices of 0.6 tol each (any two may go: 0.85 tol; all three: 1.04 tol) --
    # the tolerance bounds the ACCUMULATED error of everything that is cut
    sh = tuple(case['sh'])
    ax = int(np.argmax(sh))
    osh = sh[:ax] + sh[ax + 1:]
    if sh[ax] >= 4 and int(np.prod(osh)) >= 4 and t_abs > 1e-9 * max(1.0, nA) and t_abs < 0.1:
        rng = np.random.RandomState(case['q'] + 7)
        Qs = [np.linalg.qr(rng.randn(m, m))[0] for m in sh]
        core = np.zeros(sh)
        core[(0,) * len(sh)] = 1.0
        for i in (1, 2, 3):
            ix = list(np.unravel_index(i, osh))         # pairwise different positions in every unfolding along `ax`
            ix.insert(ax, i)
            core[tuple(ix)] = 0.6 * t_abs
        B = tensor.apply_tprod(Qs, core)
        HB = tensor.hosvd(B)
        kb = tensor.find_truncation_rank(HB.X, t_abs)
        n += 1
        for nm, Tb in (('truncate', HB.truncate(kb)), ('compress', HB.compress(tol=t_abs, rtol=0.0))):
            eb = nrm(Tb.asarray() - B)
            if eb > t_abs * (1 + 1e-6) + 1e-13:
                viol.append(('%s-exceeds-tolerance accumulated-tail %s' % (nm, tag),
                             {'case': case, 'err': eb, 'tol': t_abs, 'rank': list(Tb.R)}))
    # Tucker tensor from the canonical terms
    if case['r'] == 0:
        T = tensor.TuckerTensor.zeros(tuple(case['sh']))
    else:
        T = tensor.TuckerTensor.from_tensor(tensor.CanonicalTensor(factors_of(case)))
    O = T.orthogonalize()
    n += 1
    if nrm(O.asarray() - A) > eps * 10 or not orthonormal(O.Us):
        viol.append(('orthogonalize ' + tag, {'case': case, 'err': nrm(O.asarray() - A)}))
    if abs(T.norm() - nA) > 1e-10 * max(1.0, nA):
        viol.append(('norm ' + tag, {'case': case, 'norm': float(T.norm()), 'expected': nA}))
    try:
        if case['rel']:
            C = T.compress(tol=0.0, rtol=tol)
        else:
            C = T.compress(tol=tol, rtol=0.0)
        n += 1
        err = nrm(C.asarray() - A)
        if err > t_abs * (1 + 1e-6) + eps:
            viol.append(('compress-exceeds-tolerance ' + tag + ' rel=%s' % case['rel'],
                         {'case': case, 'err': err, 'tol': t_abs}))
        if any(c > max(1, t) for c, t in zip(C.R, T.R)):
            viol.append(('compress-rank-grows ' + tag, {'case': case, 'R': list(C.R)}))
        if not orthonormal([np.linalg.qr(U)[0] for U in C.Us]):
            viol.append(('compress-basis ' + tag, {'case': case}))
    except Exception as ex:
        viol.append(('exception %s compress %s rank0=%s' % (type(ex).__name__, tag, case['r'] == 0),
                     {'case': case, 'error': repr(ex)}))
    return n


def input_unchanged(A, A0, viol, case, fam, call):
    """the approximation routines take the tensor as input only: the caller's array must not change"""
    if not np.array_equal(A, A0):
        viol.append(('input-modified fam=%s call=%s' % (fam, call), {'case': case, 'max_change': float(np.abs(A - A0).max())}))
        A[...] = A0
        return False
    return True


def ev_aca(case, viol, seed):
    from pyiga import lowrank
    A = dense_of(case)
    A0 = A.copy()
    nA = max(1.0, nrm(A))
    tag = 'fam=aca'
    n = 0
    for how in ('array', 'generator'):
        np.random.seed(seed + case['q'])
        src = A if how == 'array' else lowrank.TensorGenerator(A.shape, entryfunc=lambda I: A[tuple(I)])
        X = lowrank.aca(src, tol=1e-10, maxiter=100, verbose=0)
        input_unchanged(A, A0, viol, case, 'aca', 'aca(%s)' % how)
        n += 1
        if nrm(X - A) > 1e-9 * nA:
            viol.append(('aca-not-exact %s generic=%s' % (tag, case['generic']),
                         {'case': case, 'err': nrm(X - A), 'how': how}))
    # a matrix of the same rank with a few vanishing rows in the middle (what a kernel with local support produces):
    # B = U V^T, U (48 x r) and V (30 x r) with normally distributed entries (generic position with probability one),
    # rows 24..26 of U zero.  The start row of the cross approximation is a zero row; the algorithm must move on to a
    # row that carries information.  Its row choice is random, so the requirement is: exact for at least one of three
    # seeds (the unchanged code fails a single attempt with probability (3/48)^2, all three with 6e-8)
    if case['rank'] >= 1:
        rs = np.random.RandomState(1000 + case['q'])
        U = rs.standard_normal((48, case['rank']))
        U[24:27, :] = 0.0
        B = U @ rs.standard_normal((30, case['rank'])).T
        B0 = B.copy()
        ok = False
        for attempt in range(3):
            np.random.seed(seed + case['q'] + 1000 * attempt)
            X = lowrank.aca(B, tol=1e-10, maxiter=100, verbose=0)
            if nrm(X - B) <= 1e-8 * max(1.0, nrm(B)):
                ok = True
                break
        input_unchanged(B, B0, viol, case, 'aca', 'aca(zero-rows)')
        n += 1
        if not ok:
            viol.append(('aca-not-exact fam=aca zero-rows-in-the-middle (3 seeds)',
                         {'rank': case['rank'], 'err': nrm(X - B), 'shape': list(B.shape)}))
    np.random.seed(seed + case['q'])
    crosses = lowrank.aca_lr(A, tol=1e-10, maxiter=100, verbose=0)
    input_unchanged(A, A0, viol, case, 'aca', 'aca_lr')
    X = sum((np.outer(c, r) for c, r in crosses), np.zeros(A.shape))
    n += 1
    if nrm(X - A) > 1e-9 * nA:
        viol.append(('aca_lr-not-exact %s generic=%s' % (tag, case['generic']),
                     {'case': case, 'err': nrm(X - A)}))
    return n


def ev_aca3d(case, viol, seed):
    from pyiga import lowrank, tensor
    A = dense_of(case)
    A0 = A.copy()
    nA = max(1.0, nrm(A))
    n = 0
    for lr in (False, True):
        np.random.seed(seed + case['q'])
        X = lowrank.aca_3d(A, tol=1e-10, maxiter=100, verbose=0, lr=lr)
        input_unchanged(A, A0, viol, case, 'aca3d', 'aca_3d(lr=%s)' % lr)
        X = tensor.asarray(X)
        n += 1
        if X.shape != A.shape or nrm(X - A) > 1e-9 * nA:
            # inputs the spec proves to be in generic position keep a signature of their own
            viol.append(('aca_3d-not-exact fam=aca3d lr=%s%s' % (lr, ' generic=True' if case['generic'] else ''),
                         {'case': case, 'err': nrm(X - A) if X.shape == A.shape else None}))
    return n


def ev_greedy(case, viol, seed):
    from pyiga import tensor
    A = dense_of(case)
    A0 = A.copy()
    nA = nrm(A)
    R = case['rank']
    tol = 10.0 ** (-case['tolexp'])
    n = 0

    def history_ok(errs):
        return all(errs[i + 1] <= errs[i] * (1 + 1e-10) + 1e-14 for i in range(len(errs) - 1))
    np.random.seed(seed + case['q'])
    X, errs = tensor.grou(A, R, tol=tol, return_errors=True)
    input_unchanged(A, A0, viol, case, 'greedy', 'grou')
    n += 1
    if not history_ok(errs):
        viol.append(('grou-history-increases fam=greedy', {'case': case, 'errors': errs}))
    if not (errs[-1] < tol or len(errs) == R):
        viol.append(('grou-stops-early fam=greedy', {'case': case, 'errors': errs}))
    if abs(nrm(X.asarray() - A) - errs[-1]) > 1e-10 * max(1.0, nA) or X.R != len(errs):
        viol.append(('grou-error-misreported fam=greedy', {'case': case, 'errors': errs, 'true': nrm(X.asarray() - A)}))
    np.random.seed(seed + case['q'])
    rtol = 1e-13
    T, errs = tensor.gta(A, R, tol=tol, rtol=rtol, return_errors=True)
    input_unchanged(A, A0, viol, case, 'greedy', 'gta')
    n += 1
    if not history_ok(errs):
        viol.append(('gta-history-increases fam=greedy', {'case': case, 'errors': errs}))
    if not (errs[-1] < tol or errs[-1] < rtol * nA or len(errs) == R):
        viol.append(('gta-stops-early fam=greedy', {'case': case, 'errors': errs}))
    if abs(nrm(T.asarray() - A) - errs[-1]) > 1e-10 * max(1.0, nA):
        viol.append(('gta-error-misreported fam=greedy', {'case': case, 'errors': errs, 'true': nrm(T.asarray() - A)}))
    if any(np.abs(U.T @ U - np.eye(U.shape[1])).max() > 1e-10 for U in T.Us if U.shape[1] > 0):
        viol.append(('gta-basis-not-orthonormal fam=greedy', {'case': case}))
    return n


class Hang(Exception):
    pass


def _alarm(*a):
    raise Hang()


def evaluate(case, seed, limit=30):
    import signal
    viol = []
    signal.signal(signal.SIGALRM, _alarm)
    signal.alarm(limit)
    try:
        fam = case['fam']
        if fam == 'tucker':
            n = ev_tucker(case, viol)
        elif fam == 'aca':
            n = ev_aca(case, viol, seed)
        elif fam == 'aca3d':
            n = ev_aca3d(case, viol, seed)
        else:
            n = ev_greedy(case, viol, seed)
    except Hang:
        n = 0
        viol.append(('hang fam=%s zero_tensor=%s' % (case['fam'], not dense_of(case).any()),
                     {'case': case, 'limit_s': limit}))
    except Exception as ex:
        import traceback
        n = 0
        viol.append(('exception %s fam=%s' % (type(ex).__name__, case['fam']),
                     {'case': case, 'error': repr(ex), 'tb': traceback.format_exc()[-800:]}))
    finally:
        signal.alarm(0)
    return n, viol


def main():
    inp, out, seed = sys.argv[1], sys.argv[2], int(sys.argv[3])
    import os
    repo = os.environ.get('PYIGA_REPO', '/repo')
    if repo not in sys.path:
        sys.path.insert(0, repo)
    with open(inp) as f, open(out, 'a') as g:
        for line in f:
            case = json.loads(line)
            g.write(json.dumps({'q': case['q'], 'fam': case['fam'], 'start': True}) + '\n')
            g.flush()
            n, viol = evaluate(case, seed)
            g.write(json.dumps({'q': case['q'], 'fam': case['fam'], 'checks': n, 'viol': viol}, default=str) + '\n')
            g.flush()


if __name__ == '__main__':
    main()
