"""Setup-time sanity: every specification module parses (SANY) and MANIFEST validates."""
import json
import subprocess
import sys
from concurrent.futures import ThreadPoolExecutor
from pathlib import Path

from .common import SPEC, TLA_CP, VERIF


def sany(f):
    r = subprocess.run(['java', '-cp', TLA_CP, 'tla2sany.SANY', f.name], cwd=f.parent,
                       stdout=subprocess.PIPE, stderr=subprocess.STDOUT, text=True)
    bad = r.returncode != 0 or 'Semantic errors' in r.stdout or 'Fatal errors' in r.stdout \
        or 'Parse Error' in r.stdout or '*** Errors' in r.stdout
    return f.name, bad, r.stdout[-1500:]


def main():
    import re
    files = sorted(SPEC.glob('*.tla'))
    # modules used by claimed checks are fatal; work-in-progress modules only warn
    man = json.load(open(VERIF / 'MANIFEST.json'))
    needed = {'Rat.tla', 'Emit.tla'}
    for c in man.get('checks', []):
        drv = VERIF / 'harness' / 'drivers' / (c['property_id'].lower() + '.py')
        if drv.exists():
            for m in re.findall(r"(?:tlc|expect_violation)\(\s*'(\w+)'", drv.read_text()):
                needed.add(m + '.tla')
    bad = 0
    with ThreadPoolExecutor(8) as ex:
        for name, b, out in ex.map(sany, files):
            if b and name in needed:
                bad += 1
                print('SANY FAILED', name, '\n', out)
            elif b:
                print('[selfcheck] warning: work-in-progress module does not parse:', name)
    print('[selfcheck] %d modules parsed, %d failed' % (len(files), bad))
    try:
        import jsonschema
        schema = json.load(open('/root/.vp/MANIFEST.schema.json'))
        jsonschema.validate(json.load(open(VERIF / 'MANIFEST.json')), schema)
        print('[selfcheck] MANIFEST.json validates')
    except ImportError:
        json.load(open(VERIF / 'MANIFEST.json'))
    except FileNotFoundError:
        pass
    sys.exit(1 if bad else 0)


if __name__ == '__main__':
    main()
