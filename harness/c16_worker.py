"""C16 replay worker: drives records emitted by spec/LinOps.tla through the real operator classes.
Same protocol as c15_worker (`python -m harness.c16_worker IN OUT [START]`)."""
import hashlib
import json
import os
import sys

import numpy as np

from . import common

common.import_repo()

_stage = ['']
_fd = [None]


def stage(s):
    _stage[0] = s
    if _fd[0] is not None:
        os.pwrite(_fd[0], (s[:118] + '\n').ljust(120).encode(), 0)


class Case:
    def __init__(self):
        self.viol = []

    def v(self, sig, **detail):
        self.viol.append((sig, detail))


def mat(M, m=None, n=None):
    A = np.array(M, dtype=float)
    if m is not None:
        A = A.reshape(m, n)
    return A


def as_kind(A, kind):
    import scipy.sparse
    import scipy.sparse.linalg
    if kind == 'dense':
        return A
    if kind == 'sparse':
        return scipy.sparse.csr_matrix(A)
    if kind == 'linop':
        return scipy.sparse.linalg.aslinearoperator(A)
    raise ValueError(kind)


def arg_of(X, arg, n):
    X = mat(X, n, -1) if n > 0 else np.zeros((0, 1 if arg != 'mat' else 2))
    return X[:, 0].copy() if arg == 'vec' else X


def expect(Y, arg, m):
    Y = mat(Y, m, -1) if m > 0 else np.zeros((0, 1 if arg != 'mat' else 2))
    return Y[:, 0] if arg == 'vec' else Y


def same(got, exp, tol=None):
    got = np.asarray(got)
    if got.shape != exp.shape:
        return False
    if tol is None:
        return bool(np.array_equal(got, exp))
    return bool(np.all(np.abs(got - exp) <= tol * np.maximum(1.0, np.abs(exp))))


def opclass(kinds):
    ks = set(kinds) - {'none'}
    if 'dense' in ks or 'sparse' in ks:
        return '(ndarray or sparse operand)'
    return '(LinearOperator operands)'


def check_applications(out, name, make, c, M, N, cls='', tol=None, adjoint_cls=None, adjoint_name=None):
    """op.dot / op @ / .T / .H against the spec's Y and YT; make() builds the operator."""
    arg = c['arg']
    inp = c['d']
    stage(name + ' construct')
    try:
        op = make()
    except Exception as ex:
        out.v(('exception %s %s() %s' % (type(ex).__name__, name, cls)).strip(), d=inp, error=repr(ex))
        return None
    if tuple(int(s) for s in op.shape) != (M, N):
        out.v('%s.shape mismatch %s' % (name, cls), d=inp, got=[int(s) for s in op.shape])
        return op
    x, Y = arg_of(c['X'], arg, N), expect(c['Y'], arg, M)
    for how in ('dot', 'matmul'):
        stage('%s.%s' % (name, how))
        try:
            y = op.dot(x) if how == 'dot' else op @ x
            if not same(y, Y, tol):
                out.v('%s.%s mismatch arg=%s %s' % (name, how, arg, cls), d=inp, expected=c['Y'],
                      got=np.asarray(y).tolist())
                break
        except Exception as ex:
            out.v('exception %s %s.%s arg=%s %s' % (type(ex).__name__, name, how, arg, cls), d=inp, error=repr(ex))
            break
    # the caller owns the result: modifying it in place must not change what the operator returns next time
    stage('%s.dot (result modified in place, applied again)' % name)
    try:
        y1 = op.dot(x)
        # (an identity may hand back its argument, as scipy's own IdentityOperator does: then there is nothing to own)
        if isinstance(y1, np.ndarray) and y1.flags.writeable and y1.size and not np.shares_memory(y1, x):
            y1 += 1.0
            y2 = op.dot(x)
            if not same(y2, Y, tol):
                out.v('%s.dot returns an array it keeps using (second application differs after the first result was modified) arg=%s %s'
                      % (name, arg, cls), d=inp, expected=c['Y'], got=np.asarray(y2).tolist())
    except Exception as ex:
        out.v('exception %s %s.dot applied twice arg=%s %s' % (type(ex).__name__, name, arg, cls), d=inp, error=repr(ex))
    # ... and a result stays valid while the operator is used again: apply to x, keep the result, apply to 2x
    # (linearity gives the expected value 2Y without another reference), look at the first result again
    stage('%s.dot (applied to x, then to 2x, first result looked at again)' % name)
    try:
        y1 = op.dot(x)
        y2 = op.dot(2.0 * x)
        if not same(y2, 2.0 * Y, tol if tol is not None else 1e-12):
            out.v('%s.dot second application (to 2x) wrong arg=%s %s' % (name, arg, cls), d=inp,
                  expected=(2.0 * Y).tolist(), got=np.asarray(y2).tolist())
        elif not same(y1, Y, tol):
            out.v('%s.dot result of an earlier application changed by a later one arg=%s %s' % (name, arg, cls), d=inp,
                  expected=c['Y'], got=np.asarray(y1).tolist())
        if M == N and x.size:               # feeding a result back in: op(op(x)) against op applied to a COPY of op(x)
            z = np.array(op.dot(x), copy=True)
            w_ref = np.array(op.dot(z), copy=True)
            w = op.dot(op.dot(x))
            if not same(w, w_ref, tol if tol is not None else 1e-12):
                out.v('%s.dot(op.dot(x)) differs from op.dot(copy of op.dot(x)) arg=%s %s' % (name, arg, cls), d=inp,
                      expected=w_ref.tolist(), got=np.asarray(w).tolist())
    except Exception as ex:
        out.v('exception %s %s.dot applied to x then 2x arg=%s %s' % (type(ex).__name__, name, arg, cls), d=inp, error=repr(ex))
    # the same product with an INTEGER-typed argument (integer-valued vectors are what index computations and counting
    # arguments produce); the operator's values are real, so the result must not be computed in integer arithmetic
    if x.size and np.all(x == np.round(x)):
        stage('%s.dot(int)' % name)
        try:
            y = op.dot(x.astype(np.int64))
            if not same(y, Y, tol if tol is not None else 1e-12):
                out.v('%s.dot mismatch integer-typed argument arg=%s %s' % (name, arg, cls), d=inp, expected=c['Y'],
                      got=np.asarray(y).tolist())
        except Exception as ex:
            out.v('exception %s %s.dot integer-typed argument arg=%s %s' % (type(ex).__name__, name, arg, cls), d=inp, error=repr(ex))
    if 'YT' in c:
        xt, YT = arg_of(c.get('XT', c['X']), arg, M), expect(c['YT'], arg, N)
        for how in ('T', 'H'):
            stage('%s.%s' % (name, how))
            try:
                y = (op.T if how == 'T' else op.H).dot(xt)
                if not same(y, YT, tol):
                    out.v('%s.%s mismatch arg=%s %s' % (name, how, arg, cls), d=inp, expected=c['YT'],
                          got=np.asarray(y).tolist())
            except Exception as ex:
                acls = adjoint_cls if (adjoint_cls is not None and how == 'H') else cls
                out.v(('exception %s %s.%s %s' % (type(ex).__name__, adjoint_name or name, how, acls)).strip(),
                      d=inp, error=repr(ex), arg=arg)
    return op


def check_kron(c, out):
    from pyiga import operators, kronecker, tensor
    shapes = [tuple(s) for s in c['shapes']]
    kinds = c['kinds']
    M, N, arg = c['M'], c['N'], c['arg']
    mats = [mat(A, *sh) for A, sh in zip(c['mats'], shapes)]
    ops = [None if k == 'none' else as_kind(A, k) for A, k in zip(mats, kinds)]
    alldense = all(k == 'dense' for k in kinds)
    allsquare = all(s[0] == s[1] for s in shapes)
    branch = 'dense-path' if (alldense or not allsquare) else 'linops-path'
    cc = 2 if arg == 'mat' else 1
    if c['fam'] == 'kron':
        check_applications(out, 'KroneckerOperator', lambda: operators.KroneckerOperator(*ops), c, M, N,
                           cls=branch, adjoint_cls=opclass(kinds))
        if allsquare:
            stage('apply_kronecker')
            try:
                y = kronecker.apply_kronecker(ops, arg_of(c['X'], arg, N))
                if not same(y, expect(c['Y'], arg, M)):
                    out.v('apply_kronecker mismatch arg=%s %s' % (arg, 'all-dense' if alldense else 'linops'),
                          d=c['d'], expected=c['Y'], got=np.asarray(y).tolist())
            except Exception as ex:
                out.v('exception %s apply_kronecker arg=%s' % (type(ex).__name__, arg), d=c['d'], error=repr(ex))
    # integer-typed argument, non-integer operator: one factor halved (exact in binary), x passed as int64
    if c['fam'] == 'kron':
        x = arg_of(c['X'], arg, N)
        first = next((k for k, kd in enumerate(kinds) if kd != 'none'), None)
        if first is not None and x.size and np.all(x == np.round(x)):
            ops2 = list(ops)
            ops2[first] = as_kind(0.5 * mats[first], kinds[first])
            Yh = 0.5 * expect(c['Y'], arg, M)
            stage('KroneckerOperator(int argument)')
            try:
                routes = [('KroneckerOperator.dot', lambda: operators.KroneckerOperator(*ops2).dot(x.astype(np.int64)))]
                if allsquare:
                    routes.append(('apply_kronecker', lambda: kronecker.apply_kronecker(ops2, x.astype(np.int64))))
                for rname, f in routes:
                    y = f()
                    if not same(y, Yh):
                        out.v('%s mismatch integer-typed argument %s' % (rname, branch), d=c['d'], expected=Yh.tolist(),
                              got=np.asarray(y).tolist())
            except Exception as ex:
                out.v('exception %s Kronecker product with integer-typed argument %s' % (type(ex).__name__, branch),
                      d=c['d'], error=repr(ex))
    # tensor-product application: T[..., t] = reshape(X[:, t]); vec: no trailing axis
    X = mat(c['X'], N, cc)
    Y = mat(c['Y'], M, cc)
    sin = tuple(s[1] for s in shapes)
    sout = tuple(s[0] for s in shapes)
    if arg == 'vec':
        T, TY = X[:, 0].reshape(sin), Y[:, 0].reshape(sout)
    else:
        T, TY = X.reshape(sin + (cc,)), Y.reshape(sout + (cc,))
    nonecls = 'with-None' if 'none' in kinds else 'no-None'
    stage('apply_tprod')
    try:
        got = tensor.apply_tprod(ops, T)
        if not same(got, TY):
            out.v('apply_tprod mismatch %s trailing=%s' % (nonecls, arg != 'vec'), d=c['d'],
                  expected=TY.tolist(), got=np.asarray(got).tolist())
    except Exception as ex:
        out.v('exception %s apply_tprod %s' % (type(ex).__name__, nonecls), d=c['d'], error=repr(ex))
    live = [k for k, kd in enumerate(kinds) if kd != 'none']
    if len(live) == 1 and c['fam'] == 'tprod':
        k = live[0]
        stage('modek_tprod')
        try:
            got = tensor.modek_tprod(ops[k], k, T)
            if not same(got, TY):
                out.v('modek_tprod mismatch kind=%s' % kinds[k], d=c['d'], k=k, expected=TY.tolist(),
                      got=np.asarray(got).tolist())
        except Exception as ex:
            out.v('exception %s modek_tprod kind=%s' % (type(ex).__name__, kinds[k]), d=c['d'], error=repr(ex))


def check_block(c, out):
    from pyiga import operators
    hs, ws = c['hs'], c['ws']
    blocks = c['blocks']
    kinds = []

    def build(i, j):
        b = blocks[i][j]
        if b['null']:
            return operators.NullOperator((hs[i], ws[j]))
        kinds.append(b['kind'])
        return as_kind(mat(b['mat'], hs[i], ws[j]), b['kind'])
    if c['fam'] == 'block':
        def make():
            return operators.BlockOperator([[build(i, j) for j in range(len(ws))] for i in range(len(hs))])
        name = 'BlockOperator'
    else:
        def make():
            return operators.BlockDiagonalOperator(*[build(i, i) for i in range(len(hs))])
        name = 'BlockDiagonalOperator'
    allnull = all(b['null'] for row in blocks for b in row)
    kk = [b['kind'] for row in blocks for b in row if not b['null']]
    # BlockOperator / BlockDiagonalOperator return a BaseBlockOperator (a NullOperator if every block is null)
    check_applications(out, name, make, c, c['M'], c['N'], cls='all-null' if allnull else '',
                       adjoint_cls='' if allnull else opclass(kk),
                       adjoint_name='NullOperator' if allnull else 'BaseBlockOperator')


def check_simple(c, out):
    from pyiga import operators
    fam = c['fam']
    M, N = c['M'], c['N']
    A = mat(c['mat'], M, N)
    if fam == 'diag':
        check_applications(out, 'DiagonalOperator', lambda: operators.DiagonalOperator(np.diag(A).copy()), c, M, N)
    elif fam == 'ident':
        check_applications(out, 'IdentityOperator', lambda: operators.IdentityOperator(N), c, M, N)
    else:
        check_applications(out, 'NullOperator', lambda: operators.NullOperator((M, N)), c, M, N)


def check_subspace(c, out):
    from pyiga import operators
    n = c['n']
    Ps = [as_kind(mat(P, n, nj), k) for P, nj, k in zip(c['Ps'], c['ns'], c['pkind'])]
    Bs = [as_kind(mat(B, nj, nj), k) for B, nj, k in zip(c['Bs'], c['ns'], c['bkind'])]
    cc = dict(c, XT=c['X'])
    check_applications(out, 'SubspaceOperator', lambda: operators.SubspaceOperator(Ps, Bs), cc, n, n)


def fmt_of(A, fmt):
    import scipy.sparse
    if fmt == 'dense':
        return A
    return scipy.sparse.csr_matrix(A) if fmt == 'csr' else scipy.sparse.csc_matrix(A)


def check_solver(out, name, make, c, n, cls):
    arg = c['arg']
    b, x = arg_of(c['b'], arg, n), expect(c['x'], arg, n)
    stage(name)
    try:
        op = make()
        got = op.dot(b)
        if not same(got, x, 1e-10):
            out.v('%s mismatch %s arg=%s' % (name, cls, arg), d=c['d'], expected=c['x'], got=np.asarray(got).tolist())
        elif b.size and np.all(b == np.round(b)):
            got = op.dot(b.astype(np.int64))
            if not same(got, x, 1e-10):
                out.v('%s mismatch integer-typed right-hand side %s arg=%s' % (name, cls, arg), d=c['d'], expected=c['x'],
                      got=np.asarray(got).tolist())
    except Exception as ex:
        if n == 1 and isinstance(ex, AssertionError) and 'Diagonal must be a vector' in str(ex):
            out.v('exception AssertionError DiagonalOperator() n=1', d=c['d'], error=repr(ex), via=name)
        else:
            out.v('exception %s %s %s' % (type(ex).__name__, name, cls), d=c['d'], error=repr(ex), arg=arg)


def check_solve(c, out):
    from pyiga import operators
    n = c['n']
    A = fmt_of(mat(c['A'], n, n), c['fmt'])
    kw = {'none': {}, 'symmetric': {'symmetric': True}, 'spd': {'spd': True}}[c['flags']]
    cls = 'matrix=%s flags=%s storage=%s' % (c['type'], c['flags'], 'dense' if c['fmt'] == 'dense' else 'sparse')
    check_solver(out, 'make_solver', lambda: operators.make_solver(A, **kw), c, n, cls)
    check_saddle(c, out)


def check_saddle(c, out):
    """numeric predicate on spec-generated matrices: for the SPD matrix A of the case, the saddle-point matrix
    K = [[A, C^T], [C, -delta I]] (C fixes the first and the last dof; delta = 0, 1e-12 or 3e-13: not powers of two, so that the huge multipliers do round) is symmetric, INDEFINITE and
    well conditioned; the operator returned by make_solver(K, symmetric=True) must apply its inverse.  (Elimination
    without pivoting breaks down on the tiny diagonal block.)"""
    from pyiga import operators
    import scipy.sparse
    n = c['n']
    if c['type'] != 'spd' or n < 2 or c['flags'] == 'spd':
        return
    A = mat(c['A'], n, n)
    C = np.zeros((2, n))
    C[0, 0] = C[1, n - 1] = 1.0
    for delta in (0.0, 1e-12, 3e-13):
        K = np.block([[A, C.T], [C, -delta * np.eye(2)]])
        if np.linalg.cond(K) > 1e6:
            continue
        Kf = fmt_of(K, c['fmt'])
        x0 = np.arange(1.0, n + 3.0)
        b = K @ x0
        stage('make_solver(saddle point)')
        try:
            y = np.asarray(operators.make_solver(Kf, symmetric=True).dot(b))
            if y.shape != x0.shape or np.abs(y - x0).max() > 1e-8 * np.linalg.cond(K):
                out.v('numeric: make_solver symmetric indefinite saddle-point matrix storage=%s delta=%s' % (
                    'dense' if c['fmt'] == 'dense' else 'sparse', 'zero' if delta == 0 else 'tiny'),
                    d=c['d'], error_max=float(np.abs(y - x0).max()), cond=float(np.linalg.cond(K)))
        except Exception as ex:
            out.v('exception %s make_solver symmetric indefinite saddle-point matrix storage=%s' % (
                type(ex).__name__, 'dense' if c['fmt'] == 'dense' else 'sparse'), d=c['d'], error=repr(ex))


def check_ksolve(c, out):
    from pyiga import operators
    Bs = [fmt_of(mat(B, k, k), f) for B, k, f in zip(c['mats'], c['ns'], c['fmts'])]
    n = int(np.prod(c['ns']))
    check_solver(out, 'make_kronecker_solver', lambda: operators.make_kronecker_solver(*Bs), c, n,
                 'factors=%d' % len(Bs))


def check_fastdiag(c, out):
    from pyiga import solvers
    KM = [(fmt_of(mat(K, k, k), c['fmt']), fmt_of(mat(Mm, k, k), c['fmt'])) for K, Mm, k in zip(c['Ks'], c['Ms'], c['ns'])]
    n = int(np.prod(c['ns']))
    cls = 'storage=%s' % ('dense' if c['fmt'] == 'dense' else 'sparse')
    check_solver(out, 'fastdiag_solver', lambda: solvers.fastdiag_solver(KM), c, n, cls)


def check_csr(c, out):
    from pyiga import utils
    import scipy.sparse
    m, n = c['m'], c['n']
    A = scipy.sparse.csr_matrix(mat(c['A'], m, n))
    x1 = mat(c['X1'], n, 1)[:, 0].copy()
    X2 = mat(c['X2'], n, 2)
    for s in c['slices']:
        r0, r1 = s['r0'], s['r1']
        k = r1 - r0
        stage('CSRRowSlice')
        try:
            R = utils.CSRRowSlice(A, (r0, r1))
            e1 = mat(s['Y1'], k, 1)[:, 0] if k else np.zeros(0)
            e2 = mat(s['Y2'], k, 2) if k else np.zeros((0, 2))
            if tuple(R.shape) != (k, n) or not same(R.dot(x1), e1) or not same(R * x1, e1):
                out.v('CSRRowSlice mismatch arg=vec', d=c['d'], bounds=[r0, r1])
            if not same(R.dot(X2), e2) or not same(R.dot(np.asfortranarray(X2)), e2):
                out.v('CSRRowSlice mismatch arg=mat', d=c['d'], bounds=[r0, r1])
            if not same(R.dot(x1.reshape(-1, 1)), e1.reshape(-1, 1)):
                out.v('CSRRowSlice mismatch arg=col', d=c['d'], bounds=[r0, r1])
        except Exception as ex:
            out.v('exception %s CSRRowSlice' % type(ex).__name__, d=c['d'], bounds=[r0, r1], error=repr(ex))
    for n_, s in enumerate(c['subsets']):
        rows = s['rows']
        stage('CSRRowSubset')
        try:
            R = utils.CSRRowSubset(A, rows if n_ % 2 == 0 else np.array(rows, dtype=int))
            e1 = mat(s['Y1'], len(rows), 1)[:, 0] if rows else np.zeros(0)
            if tuple(R.shape) != (len(rows), n) or not same(R.dot(x1), e1) or not same(R * x1, e1):
                out.v('CSRRowSubset mismatch', d=c['d'], rows=rows)
        except Exception as ex:
            out.v('exception %s CSRRowSubset' % type(ex).__name__, d=c['d'], rows=rows, error=repr(ex))


CHECKS = {'KRON': check_kron, 'BLOCK': check_block, 'SIMPLE': check_simple, 'SUBSPACE': check_subspace,
          'SOLVE': check_solve, 'KSOLVE': check_ksolve, 'FASTDIAG': check_fastdiag, 'CSR': check_csr}


def nontrivial(tag, c):
    if tag == 'KRON':
        return len(c['shapes']) >= 2
    if tag == 'BLOCK':
        return len(c['hs']) * len(c['ws']) >= 2
    if tag in ('SOLVE', 'SUBSPACE'):
        return c['n'] >= 2
    if tag in ('KSOLVE', 'FASTDIAG'):
        return len(c['ns']) >= 2
    if tag == 'CSR':
        return c['m'] >= 2
    return True


def main():
    inp, outp = sys.argv[1], sys.argv[2]
    start = int(sys.argv[3]) if len(sys.argv) > 3 else 0
    _fd[0] = os.open(outp + '.stage', os.O_WRONLY | os.O_CREAT, 0o644)
    with open(inp) as f, open(outp, 'a') as o:
        for n, line in enumerate(f):
            if n < start:
                continue
            rec = json.loads(line)
            tag, c = rec['tag'], rec['v']
            o.write('B %d\n' % n)
            o.flush()
            out = Case()
            CHECKS[tag](c, out)
            key = tag[0] + hashlib.md5(json.dumps(c['d']).encode()).hexdigest()[:14]
            o.write('R ' + json.dumps({'n': n, 'key': key, 'nontrivial': nontrivial(tag, c), 'viol': out.viol},
                                      default=str) + '\n')
            o.flush()
        o.write('E\n')


if __name__ == '__main__':
    main()
