"""C18 helper: build real pyiga tensor objects from the representations emitted by spec/TensorAlg.tla and
replay one history (sequence of step records) on them.  Used by drivers/c18.py."""
import zlib

import numpy as np
import scipy.sparse as sp

NONE = 99


class Mismatch(Exception):
    def __init__(self, signature, detail):
        super().__init__(signature)
        self.signature = signature
        self.detail = detail


def _mat(rows, ncols):
    return np.array(rows, dtype=float).reshape(len(rows), ncols)


def _dense(t):
    return np.array(t['e'], dtype=float).reshape(tuple(t['sh']))


def build(rep, variant=0):
    """representation record -> real object (public constructors only)"""
    from pyiga import tensor
    k = rep['k']
    if k == 'can':
        return tensor.CanonicalTensor(tuple(_mat(X, rep['R']) for X in rep['Xs']))
    if k == 'tuck':
        X = _dense(rep['X'])
        return tensor.TuckerTensor(tuple(_mat(U, m) for U, m in zip(rep['Us'], rep['X']['sh'])), X)
    if k == 'full':
        return _dense(rep['A'])
    if k == 'scal':
        return np.float64(rep['v'])
    if k == 'sum':
        return tensor.TensorSum(*(build(t, variant) for t in rep['ts']))
    if k == 'prod':
        return tensor.TensorProd(*(build(f, variant) for f in rep['fs']))
    if k == 'op':
        if rep.get('eye'):
            return tensor.CanonicalOperator.eye(tuple(len(M) for M in rep['ts'][0]))
        fmt = ('csr', 'csc')[variant % 2]
        terms = [tuple(sp.csr_matrix(np.array(M, dtype=float)).asformat(fmt) for M in t) for t in rep['ts']]
        return tensor.CanonicalOperator(terms)
    raise ValueError(k)


def kind_of(x):
    from pyiga import tensor
    if isinstance(x, tensor.CanonicalTensor):
        return 'can'
    if isinstance(x, tensor.TuckerTensor):
        return 'tuck'
    if isinstance(x, tensor.TensorSum):
        return 'sum'
    if isinstance(x, tensor.TensorProd):
        return 'prod'
    if isinstance(x, tensor.CanonicalOperator):
        return 'op'
    if isinstance(x, np.ndarray) and x.ndim > 0:
        return 'full'
    if np.isscalar(x) or (isinstance(x, np.ndarray) and x.ndim == 0):
        return 'scal'
    return type(x).__name__


def py_index(ix, variant=0):
    out = []
    for it in ix:
        if it['t'] == 'i':
            out.append(int(it['i']) if variant % 2 == 0 else np.int64(it['i']))
        elif it['t'] == 's':
            f = lambda v: None if v == NONE else int(v)
            out.append(slice(f(it['lo']), f(it['hi']), f(it['st'])))
        else:
            l = [int(v) for v in it['l']]
            out.append(l if variant % 3 != 1 else np.array(l, dtype=int))
    if len(out) == 1 and variant % 2 == 1:
        return out[0]
    return tuple(out)


def ix_str(ix):
    parts = []
    for it in ix:
        if it['t'] == 'i':
            parts.append(str(it['i']))
        elif it['t'] == 's':
            f = lambda v: '' if v == NONE else str(v)
            parts.append('%s:%s:%s' % (f(it['lo']), f(it['hi']), f(it['st'])))
        else:
            parts.append(str(list(it['l'])))
    return '[' + ','.join(parts) + ']'


def _ops(Bs, variant):
    out = []
    for j, B in enumerate(Bs):
        if len(B) == 0:
            out.append(None)
        else:
            M = np.array(B, dtype=float)
            out.append(sp.csr_matrix(M) if (variant + j) % 3 == 1 else M)
    return out if variant % 2 else tuple(out)


def apply_step(cur, st, variant):
    """returns (new object, extra checks: list of (label, got ndarray, expected ndarray))"""
    from pyiga import tensor
    a, args = st['a'], st.get('args', {})
    extra = []
    if a == 'Add':
        new = cur + build(args['b'], variant)
    elif a == 'Sub':
        new = cur - build(args['b'], variant)
    elif a == 'Neg':
        new = -cur
    elif a == 'GetItem':
        new = cur[py_index(args['ix'], variant)]
    elif a == 'Squeeze':
        if args['all']:
            new = cur.squeeze()
        elif args['int']:
            new = cur.squeeze(int(args['ax'][0])) if variant % 2 else cur.squeeze(axis=int(args['ax'][0]))
        else:
            new = cur.squeeze(tuple(int(v) for v in args['ax']))
    elif a == 'NwayProd':
        new = tensor.apply_tprod(_ops(args['Bs'], variant), cur)
        # the same product as a chain of mode-k products of the full array, with the factor given as ndarray, sparse
        # matrix or LinearOperator (modek_tprod is public and has a separate branch for the latter two)
        try:
            import scipy.sparse.linalg as spla
            Y = np.asarray(tensor.asarray(cur), dtype=float)
            for k, B in enumerate(args['Bs']):
                if len(B) == 0:
                    continue
                M = np.array(B, dtype=float)
                form = (variant + k) % 3
                Y = tensor.modek_tprod(M if form == 0 else sp.csr_matrix(M) if form == 1 else spla.aslinearoperator(M), k, Y)
            extra.append(('modek_tprod-chain', np.asarray(Y), np.asarray(tensor.asarray(new), dtype=float)))
        except Exception as ex:
            extra.append(('modek_tprod-chain exception %s' % type(ex).__name__, np.zeros(1), np.ones(1)))
    elif a == 'Pad':
        new = tensor.pad(cur, [None if len(p) == 0 else (int(p[0]), int(p[1])) for p in args['pw']])
    elif a == 'Ravel':
        new = cur.ravel()
    elif a == 'JoinBases':
        b = build(args['b'], variant)
        U, X1, X2 = tensor.join_tucker_bases(cur, b)
        new = tensor.TuckerTensor(U, X1)
        extra.append(('second', tensor.asarray(tensor.TuckerTensor(U, X2)), _dense(args['second'])))
    elif a == 'ToCanonical':
        new = tensor.CanonicalTensor.from_tensor(cur)
    elif a == 'ToTucker':
        new = tensor.TuckerTensor.from_tensor(cur)
    elif a == 'Orthogonalize':
        new = cur.orthogonalize()
        for j, U in enumerate(new.Us):
            extra.append(('orthonormal-U%d' % j, U.T @ U, np.eye(U.shape[1])))
    elif a == 'WrapSum':
        new = tensor.TensorSum(cur)
    elif a == 'Outer':
        b = build(args['b'], variant)
        new = tensor.TensorProd(b, cur) if args['left'] else tensor.TensorProd(cur, b)
    elif a == 'ApplyOp':
        op = build(args['op'], variant)
        new = (op @ cur) if variant % 2 else op.apply(cur)
    elif a == 'OpAdd':
        new = cur + build(args['b'], variant)
    elif a == 'OpSub':
        new = cur - build(args['b'], variant)
    elif a == 'OpNeg':
        new = -cur
    elif a == 'Compose':
        b = build(args['b'], variant)
        new = (cur @ b) if variant % 2 else cur * b
    elif a == 'Transpose':
        new = cur.T
    elif a == 'KronExtend':
        new = cur.kron(build(args['b'], variant))
    elif a == 'OpSlice':
        new = cur.slice([(int(l[0]), int(l[1])) for l in args['lim']])
    elif a == 'OpApply':
        x = build(args['x'], variant)
        new = (cur @ x) if variant % 2 else cur.apply(x)
    else:
        raise ValueError('unknown action ' + a)
    return new, extra


def qualifier(st, prev):
    """action-specific part of a violation signature (kept coarse so that it is stable across seeds)"""
    a, args = st['a'], st.get('args', {})
    q = ''
    if a == 'Squeeze':
        q = ' negaxis=%s' % any(v < 0 for v in args['ax'])
    elif a in ('ToTucker', 'Add', 'Sub'):
        q = ' order=%d' % len(prev['sh'])
        if 'b' in args:
            q += ' other=%s' % args['b']['k']
    elif a == 'GetItem':
        q = ' items=%s' % ''.join(sorted(set(it['t'] for it in args['ix'])))
    elif a in ('OpNeg', 'OpSub'):
        q = ''
    return q


def _msg(ex):
    s = str(ex)
    return ''.join(ch for ch in s if not ch.isdigit())[:60]


def observe(obj, st, exact, label, prev, hist_upto):
    """compare the real object with the step record; raise Mismatch"""
    from pyiga import tensor
    tol = 0.0 if exact else 1e-10
    base = 'action=%s kind=%s%s' % (st['a'], prev['kind'], qualifier(st, prev))

    def fail(what, **kw):
        d = {'history': hist_upto, 'what': what}
        d.update(kw)
        raise Mismatch('%s %s' % (what, base), d)

    kind = st['kind']
    if kind == 'op':
        if kind_of(obj) != 'op':
            fail('kind-mismatch', got=kind_of(obj))
        exp = np.array(st['e'], dtype=float).reshape(tuple(st['sh']))
        if (tuple(obj.shape[0]), tuple(obj.shape[1])) != (tuple(st['out']), tuple(st['inn'])):
            fail('shape-mismatch', got=str(obj.shape))
        if obj.ndim != len(st['inn']):
            fail('ndim-mismatch', got=obj.ndim)
        got = obj.asmatrix().toarray()
        if got.shape != exp.shape or not np.array_equal(got, exp):
            fail('asmatrix-mismatch', got=got.tolist(), expected=exp.tolist())
        return
    exp = np.array(st['e'], dtype=float).reshape(tuple(st['sh']))
    gk = kind_of(obj)
    if kind == 'empty':
        if gk == 'scal':
            fail('kind-mismatch', got=gk)
    elif gk != kind:
        fail('kind-mismatch', got=gk, expected=kind)
    if gk == 'scal':
        got = np.asarray(float(obj))
    else:
        if tuple(obj.shape) != tuple(st['sh']) or obj.ndim != len(st['sh']):
            fail('shape-mismatch', got=str(obj.shape), expected=st['sh'])
        got = tensor.asarray(obj)
        rv = obj.ravel()
        if rv.shape != (exp.size,):
            fail('ravel-shape-mismatch', got=str(rv.shape))
    if got.shape != exp.shape:
        fail('asarray-shape-mismatch', got=str(got.shape), expected=st['sh'])
    scale = max(1.0, float(np.abs(exp).max()) if exp.size else 1.0)
    if exact:
        ok = np.array_equal(got, exp)
    else:
        ok = bool(np.all(np.abs(got - exp) <= tol * scale))
    if not ok:
        fail('asarray-mismatch', got=got.tolist(), expected=exp.tolist())
    if gk != 'scal':
        if not np.array_equal(rv, got.ravel()):
            fail('ravel-mismatch', got=rv.tolist())
        nrm = tensor.fro_norm(obj)
        want = float(np.sqrt(float(st['n2'])))
        ntol = 1e-12 if exact and gk != 'tuck' else 1e-10
        if nrm != nrm:      # NaN: independent of the action that produced the tensor
            raise Mismatch('norm-nan kind=%s' % gk, {'history': hist_upto, 'what': 'norm() is NaN', 'expected': want})
        if not abs(nrm - want) <= ntol * max(1.0, want):
            fail('norm-mismatch', got=float(nrm), expected=want)


def check_generator(prev, st, variant, hist_upto):
    """TensorGenerator.__getitem__ on the array the spec had before the step"""
    from pyiga import lowrank
    A = np.array(prev['e'], dtype=float).reshape(tuple(prev['sh']))
    exp = np.array(st['e'], dtype=float).reshape(tuple(st['sh']))
    if variant % 2 == 0:
        G = lowrank.TensorGenerator.from_array(A)
    else:
        G = lowrank.TensorGenerator(A.shape, multientryfunc=lambda I: np.array([A[tuple(i)] for i in I], dtype=float))
    ix = st['args']['ix']
    base = 'action=GetItem kind=generator items=%s' % ''.join(sorted(set(it['t'] for it in ix)))
    try:
        got = np.asarray(G[py_index(ix, variant)])
    except Exception as ex:
        raise Mismatch('exception %s %s msg=%s' % (type(ex).__name__, base, _msg(ex)),
                       {'history': hist_upto, 'error': repr(ex)})
    if got.shape != exp.shape or not np.array_equal(got, exp):
        raise Mismatch('generator-mismatch ' + base, {'history': hist_upto, 'got': got.tolist(), 'expected': exp.tolist()})


def replay(hist, variant=None):
    """Replays one history; returns number of steps driven.  Raises Mismatch on the first deviation."""
    if variant is None:
        variant = zlib.crc32(repr([(s['a'], s['sh']) for s in hist]).encode()) % 6
    init = hist[0]
    try:
        cur = build(init['rep'], variant)
    except Exception as ex:
        raise Mismatch('exception %s action=Init kind=%s msg=%s' % (type(ex).__name__, init['kind'], _msg(ex)),
                       {'history': hist[:1], 'error': repr(ex)})
    observe(cur, init, True, 'init', init, hist[:1])
    if init['kind'] != 'op':
        G_ok = True
    prev = init
    n = 0
    for k in range(1, len(hist)):
        st = hist[k]
        upto = hist[:k + 1]
        try:
            new, extra = apply_step(cur, st, variant)
        except Exception as ex:
            raise Mismatch('exception %s action=%s kind=%s%s msg=%s' % (
                type(ex).__name__, st['a'], prev['kind'], qualifier(st, prev), _msg(ex)),
                {'history': upto, 'error': repr(ex)})
        try:
            observe(new, st, st['exact'], st['a'], prev, upto)
        except Mismatch:
            raise
        except Exception as ex:
            raise Mismatch('exception %s observing action=%s kind=%s%s msg=%s' % (
                type(ex).__name__, st['a'], prev['kind'], qualifier(st, prev), _msg(ex)),
                {'history': upto, 'error': repr(ex)})
        for label, got, exp in extra:
            tol = 0.0 if st['exact'] and not label.startswith('ortho') else 1e-10
            if got.shape != exp.shape or not np.all(np.abs(got - exp) <= tol * max(1.0, np.abs(exp).max() if exp.size else 1.0)):
                raise Mismatch('%s-mismatch action=%s kind=%s' % (label.split('-')[0], st['a'], prev['kind']),
                               {'history': upto, 'got': got.tolist(), 'expected': exp.tolist()})
        if st['a'] == 'GetItem':
            check_generator(prev, st, variant, upto)
        cur, prev = new, st
        n += 1
    return n
