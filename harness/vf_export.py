"""Export of a pyiga VForm (before or after finalize()) as a flat SSA program (JSON) for spec/VFormIR.tla.

Nodes are emitted children-first; shared sub-trees once (memo by object identity).  The exporter only READS the
library's expression objects -- it performs no simplification and gives no meaning to any node; the meaning of every
node kind is defined independently in VFormIR.tla.

node kinds:  c(n,d)  vec(ch)  mat(r,cc,ch)  var(n,I,D,par,root)  neg(a)  fn(f,a)  sop(op,a,b)  top(op,a,b)
             cross(a,b) outer(a,b) matvec(a,b) matmat(a,b)  pd(bf,D,phys)  gw(ax)  dx  ds
"""
from fractions import Fraction


def _cls(e):
    return type(e).__name__


class Exporter:
    def __init__(self, vf):
        from pyiga import vform
        self.V = vform
        self.vf = vf
        self.nodes = []
        self.memo = {}
        self.vars = {}
        self.var_roots = {}

    def const(self, value):
        f = Fraction(value)
        return {'o': 'c', 'n': f.numerator, 'd': f.denominator}

    def bfkey(self, bf):
        return bf.name if bf.component is None else '%s#%d' % (bf.name, bf.component)

    def var_entry(self, var):
        V = self.V
        if var.name in self.vars:
            return
        ent = {'name': var.name, 'shape': list(var.shape), 'sym': bool(var.symmetric), 'deriv': int(var.deriv or 0)}
        if var.expr is not None:
            ent['kind'] = 'expr'
            ent['src'] = ''
            ent['phys'] = False
        elif isinstance(var.src, V.InputField):
            ent['kind'] = 'input'
            ent['src'] = var.src.name
            ent['phys'] = bool(var.src.physical)
            ent['srcshape'] = list(var.src.shape)
        elif isinstance(var.src, V.Parameter):
            ent['kind'] = 'param'
            ent['src'] = var.src.name
            ent['phys'] = False
        else:
            ent['kind'] = 'other'
            ent['src'] = str(var.src)
            ent['phys'] = False
        ent['root'] = -1
        self.vars[var.name] = ent
        if var.expr is not None:
            ent['root'] = self.emit(var.expr)

    def emit(self, e):
        k = id(e)
        if k in self.memo:
            return self.memo[k]
        V = self.V
        c = _cls(e)
        if c == 'ConstExpr':
            nd = self.const(e.value)
        elif c == 'LiteralVectorExpr':
            nd = {'o': 'vec', 'ch': [self.emit(x) for x in e.children]}
        elif c == 'LiteralMatrixExpr':
            nd = {'o': 'mat', 'r': e.shape[0], 'cc': e.shape[1], 'ch': [self.emit(x) for x in e.children]}
        elif c == 'VarRefExpr':
            self.var_entry(e.var)
            nd = {'o': 'var', 'n': e.var.name, 'I': [int(i) for i in e.I], 'D': [int(d) for d in e.D],
                  'par': bool(e.parametric)}
        elif c == 'NegExpr':
            nd = {'o': 'neg', 'a': self.emit(e.x)}
        elif c == 'BuiltinFuncExpr':
            nd = {'o': 'fn', 'f': e.funcname, 'a': self.emit(e.x)}
        elif c == 'ScalarOperExpr':
            nd = {'o': 'sop', 'op': e.oper, 'a': self.emit(e.x), 'b': self.emit(e.y)}
        elif c == 'TensorOperExpr':
            nd = {'o': 'top', 'op': e.oper, 'a': self.emit(e.x), 'b': self.emit(e.y)}
        elif c == 'VectorCrossExpr':
            nd = {'o': 'cross', 'a': self.emit(e.x), 'b': self.emit(e.y)}
        elif c == 'OuterProdExpr':
            nd = {'o': 'outer', 'a': self.emit(e.x), 'b': self.emit(e.y)}
        elif c == 'MatVecExpr':
            nd = {'o': 'matvec', 'a': self.emit(e.x), 'b': self.emit(e.y)}
        elif c == 'MatMatExpr':
            nd = {'o': 'matmat', 'a': self.emit(e.x), 'b': self.emit(e.y)}
        elif c == 'PartialDerivExpr':
            nd = {'o': 'pd', 'bf': self.bfkey(e.basisfun), 'D': [int(d) for d in e.D], 'phys': bool(e.physical)}
        elif c == 'GaussWeightExpr':
            nd = {'o': 'gw', 'ax': int(e.axis)}
        elif c == 'VolumeMeasureExpr':
            nd = {'o': 'dx'}
        elif c == 'SurfaceMeasureExpr':
            nd = {'o': 'ds'}
        else:
            raise TypeError('unknown expression class %s' % c)
        self.nodes.append(nd)
        idx = len(self.nodes)          # 1-based for TLA+
        self.memo[k] = idx
        return idx

    def direct_deps(self, root_expr):
        """names of the variables referenced by an expression tree (not following variables), and whether it
        touches a basis function"""
        deps, usesbf = [], False
        seen = set()
        stack = [root_expr]
        while stack:
            e = stack.pop()
            if id(e) in seen:
                continue
            seen.add(id(e))
            c = _cls(e)
            if c == 'VarRefExpr':
                if e.var.name not in deps:
                    deps.append(e.var.name)
            elif c == 'PartialDerivExpr':
                usesbf = True
            stack.extend(e.children)
        return deps, usesbf


def fill(nd):
    """give every node record the same set of fields (TLA+ records from JSON are easier to handle uniformly)"""
    base = {'o': '', 'n': 0, 'd': 1, 'ch': [], 'r': 0, 'cc': 0, 'nm': '', 'I': [], 'D': [], 'par': False, 'a': 0, 'b': 0,
            'f': '', 'op': '', 'bf': '', 'phys': False, 'ax': 0}
    out = dict(base)
    for k, v in nd.items():
        if k == 'n' and nd['o'] == 'var':
            out['nm'] = v
        else:
            out[k] = v
    return out


def export(vf, finalized):
    ex = Exporter(vf)
    outs = [ex.emit(e) for e in vf.exprs]
    # make sure predeclared variables that are referenced have entries (done on the fly); orders after finalize
    prog = {
        'dim': int(vf.dim), 'geo_dim': int(vf.geo_dim), 'boundary': bool(vf.is_boundary), 'spacetime': bool(vf.spacetime),
        'arity': int(vf.arity),
        'nodes': [fill(n) for n in ex.nodes],
        'outs': outs,
        'vars': [ex.vars[k] for k in ex.vars],
        'inputs': [{'name': i.name, 'shape': list(i.shape), 'phys': bool(i.physical)} for i in vf.inputs],
        'params': [{'name': p.name, 'shape': list(p.shape)} for p in vf.params],
        'bfuns': sorted({n['bf'] for n in ex.nodes if n['o'] == 'pd'}),
        'precomp': [], 'kernel': [], 'deps': [], 'outdeps': [],
    }
    if finalized:
        prog['precomp'] = [v.name for v in vf.precomp]
        prog['kernel'] = [v.name for v in vf.kernel_deps]
        deps = []
        for v in list(vf.precomp) + [w for w in vf.kernel_deps if w not in vf.precomp]:
            if v.expr is not None:
                d, ub = ex.direct_deps(v.expr)
            else:
                d, ub = [], False
            kind = 'expr' if v.expr is not None else ('input' if isinstance(v.src, ex.V.InputField) else 'param')
            deps.append({'name': v.name, 'deps': d, 'usesbf': ub, 'kind': kind})
        prog['deps'] = deps
        od = []
        for e in vf.exprs:
            d, _ = ex.direct_deps(e)
            for x in d:
                if x not in od:
                    od.append(x)
        prog['outdeps'] = od
    return prog


# ---------------------------------------------------------------------------------------------
# compact node records, environments, batches for spec/VFormIR.tla

P = 32749
INT_MAX = 2 ** 31 - 1


def compact(nd):
    o = nd['o']
    r = {'o': o, 'i': 0, 'j': 0, 's': '', 'x': [], 'y': [], 'p': False}
    if o == 'c':
        r['i'], r['j'] = nd['n'], nd['d']
    elif o == 'vec':
        r['x'] = nd['ch']
    elif o == 'mat':
        r['i'], r['j'], r['x'] = nd['r'], nd['cc'], nd['ch']
    elif o == 'var':
        r['s'], r['x'], r['y'], r['p'] = nd['nm'], nd['I'], nd['D'], nd['par']
    elif o == 'neg':
        r['i'] = nd['a']
    elif o == 'fn':
        r['s'], r['i'] = nd['f'], nd['a']
    elif o in ('sop', 'top'):
        r['s'], r['i'], r['j'] = nd['op'], nd['a'], nd['b']
    elif o in ('cross', 'outer', 'matvec', 'matmat'):
        r['i'], r['j'] = nd['a'], nd['b']
    elif o == 'pd':
        r['s'], r['y'], r['p'] = nd['bf'], nd['D'], nd['phys']
    elif o == 'gw':
        r['i'] = nd['ax']
    return r


def to_tla(prog):
    """program in the form VFormIR.tla reads; returns None if a constant does not fit TLC's 32-bit integers"""
    for n in prog['nodes']:
        if n['o'] == 'c' and (abs(n['n']) > INT_MAX or abs(n['d']) > INT_MAX):
            return None
    vars_ = [{'name': v['name'], 'kind': v['kind'], 'shape': v['shape'], 'deriv': v['deriv'], 'src': v['src'],
              'phys': v['phys'], 'root': v['root']} for v in prog['vars']]
    return {'dim': prog['dim'], 'geo_dim': prog['geo_dim'], 'boundary': prog['boundary'], 'spacetime': prog['spacetime'],
            'nodes': [compact(n) for n in prog['nodes']], 'outs': prog['outs'], 'vars': vars_,
            'precomp': prog['precomp'], 'kernel': prog['kernel'], 'deps': prog['deps'], 'outdeps': prog['outdeps']}


def all_D(d, maxord):
    import itertools
    return [D for D in itertools.product(range(maxord + 1), repeat=d) if sum(D) <= maxord]


def make_env(raw, fin, rng):
    d, gd = raw['dim'], raw['geo_dim']
    npack = d * (d + 1) // 2

    def rnd(n):
        return [rng.randrange(1, P) for _ in range(n)]
    env = {'gw': rnd(d), 'bf': {}, 'inp': {}, 'par': {}}
    keys = set(raw['bfuns']) | set(fin['bfuns'])
    for v in ('u', 'v'):
        keys.add(v)
    for k in sorted(keys):
        env['bf'][k] = {''.join(str(x) for x in D): rng.randrange(1, P) for D in all_D(d, 3)}
    for inp in raw['inputs']:
        n = 1
        for s in inp['shape']:
            n *= s
        env['inp'][inp['name']] = {'v': rnd(n), 'g': rnd(n * d), 'h': rnd(n * npack)}
    if raw['spacetime']:
        # space-time cylinder: x = x(xi_space), t = xi_t
        g = env['inp']['geo']
        for i in range(gd):
            for m in range(d):
                if (i == gd - 1) != (m == d - 1):
                    g['g'][i * d + m] = 0
        g['g'][(gd - 1) * d + (d - 1)] = 1
        import itertools
        pos = {}
        idx = 0
        for a in range(d):
            for b in range(a, d):
                pos[(a, b)] = idx
                idx += 1
        for k in range(gd):
            for (a, b), q in pos.items():
                if k == gd - 1 or a == d - 1 or b == d - 1:
                    g['h'][k * npack + q] = 0
    seenp = set()
    for par in list(raw['params']) + list(fin['params']):
        if par['name'] in seenp:
            continue
        seenp.add(par['name'])
        n = 1
        for s in par['shape']:
            n *= s
        env['par'][par['name']] = rnd(n)
    if not env['par']:
        env['par'] = {'_none': [0]}
    return env


def make_case(cid, build, rng, nenv=3):
    """build() -> fresh VForm.  Returns the batch entry or raises."""
    vf = build()
    raw = export(vf, False)
    vf2 = build()
    vf2.finalize()
    fin = export(vf2, True)
    r, f = to_tla(raw), to_tla(fin)
    if r is None or f is None:
        return None
    return {'id': cid, 'raw': r, 'fin': f, 'envs': [make_env(raw, fin, rng) for _ in range(nenv)], 'alt': EMPTY_PROG}


EMPTY_PROG = {'dim': 1, 'geo_dim': 1, 'boundary': False, 'spacetime': False, 'nodes': [], 'outs': [], 'vars': [],
              'precomp': [], 'kernel': [], 'deps': [], 'outdeps': []}


def make_pair_case(cid, build_a, build_b, rng, nenv=3):
    """two API-built forms that must denote the same integrand: raw/fin of A, raw of B as the reference"""
    c = make_case(cid, build_a, rng, nenv=nenv)
    if c is None:
        return None
    vb = build_b()
    alt = to_tla(export(vb, False))
    if alt is None:
        return None
    c['alt'] = alt
    return c
