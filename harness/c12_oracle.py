"""Harness-side exact-rational evaluation of the stage equations that spec/RKStage.tla defines.

It exists only because the shipped tableaux have 16-digit coefficients that do not fit TLC's 32-bit
rationals.  It is NOT an independent source of truth: drivers/c12.py first checks that these functions
reproduce every TLC-computed CASE record of RKStage exactly (Fraction equality) and only then uses them
with the coefficients read from the real code."""
from fractions import Fraction as Fr


def fr(x):
    """float -> the exact rational value of the float"""
    return Fr(x) if not isinstance(x, Fr) else x


def solve(A, b):
    n = len(A)
    M = [list(map(Fr, A[i])) + [Fr(b[i])] for i in range(n)]
    for k in range(n):
        piv = next(r for r in range(k, n) if M[r][k] != 0)
        M[k], M[piv] = M[piv], M[k]
        pr = [v / M[k][k] for v in M[k]]
        M[k] = pr
        for i in range(n):
            if i != k and M[i][k] != 0:
                f = M[i][k]
                M[i] = [a - f * p for a, p in zip(M[i], pr)]
    return [M[i][n] for i in range(n)]


def mv(A, x):
    return [sum(a * v for a, v in zip(row, x)) for row in A]


def lin(w, vs, m, n):
    out = [Fr(0)] * n
    for j in range(m):
        out = [o + w[j] * v for o, v in zip(out, vs[j])]
    return out


def dirk(A, b, bhat, M, L, c, x, tau):
    """Reference DIRK step for M y' = L y + c: returns (x_new, x_est | None, stages)."""
    s, n = len(b), len(x)
    Mx = mv(M, x)
    ys, Fs = [], []
    for i in range(s):
        # M Y_i = M x + tau * sum_{j<=i} a_ij (L Y_j + c)
        rhs = [m + tau * t + tau * A[i][i] * ci for m, t, ci in zip(Mx, lin(A[i], Fs, i, n), c)]
        mat = [[M[r][q] - tau * A[i][i] * L[r][q] for q in range(n)] for r in range(n)]
        y = solve(mat, rhs)
        ys.append(y)
        Fs.append([a + ci for a, ci in zip(mv(L, y), c)])
    comb = lambda w: [xi + tau * d for xi, d in zip(x, solve(M, lin(w, Fs, s, n)))]
    return comb(b), (comb(bhat) if bhat else None), ys


def ros(Al, G, b, bhat, M, L, c, x, tau):
    """Reference Rosenbrock step (J = L)."""
    s, n = len(b), len(x)
    gamma = G[0][0]
    C = [[M[r][q] - tau * gamma * L[r][q] for q in range(n)] for r in range(n)]
    ks = []
    for i in range(s):
        yi = [xi + tau * d for xi, d in zip(x, lin(Al[i], ks, i, n))]
        wi = lin(G[i], ks, i, n)
        rhs = [a + ci + tau * w for a, ci, w in zip(mv(L, yi), c, mv(L, wi))]
        ks.append(solve(C, rhs))
    comb = lambda w: [xi + tau * d for xi, d in zip(x, lin(w, ks, s, n))]
    return comb(b), (comb(bhat) if bhat else None), ks
