"""Form universe for C13 (and seeds for C06/C01): JSON-serialisable form descriptions built through the PUBLIC
pyiga.vform API (parse_vf / predefined forms).

A description is a dict:
  {name, kind: 'str'|'predef', expr, dim, args: {name: ['field', shape, physical] | ['param', shape]},
   bfuns: None | [[name, comps, space], ...], boundary: bool, updatable: [names], attr: which attribute it mutates}
"""
import numpy as np


def _kvs(dim):
    from pyiga import bspline
    return dim * (bspline.make_knots(2, 0.0, 1.0, 2),)


def make_args(desc):
    from pyiga import bspline
    dim = desc['dim']
    kvs = _kvs(dim)
    out = {}
    for nm, a in (desc.get('args') or {}).items():
        if a[0] == 'param':
            shape = tuple(a[1])
            out[nm] = 1.5 if shape == () else np.full(shape, 1.5)
        else:
            shape, physical = tuple(a[1]), bool(a[2])
            if physical:
                out[nm] = (lambda shape: (lambda *X: (0.5 if shape == () else np.full(shape, 0.5))))(shape)
            else:
                n = tuple(kv.numdofs for kv in kvs)
                out[nm] = bspline.BSplineFunc(kvs, np.full(n + shape, 0.5))
    return kvs, out


def build(desc):
    """Return a fresh, un-finalized VForm for the description."""
    from pyiga import vform
    if desc['kind'] == 'api':
        return _api_let(desc['expr'])
    if desc['kind'] == 'gen':
        from . import vf_gen
        return vf_gen.build(desc['tokens'], desc['dim'])
    if desc['kind'] == 'predef':
        f = getattr(vform, desc['expr'])
        return f(desc['dim'], **(desc.get('kwargs') or {}))
    kvs, args = make_args(desc)
    bf = desc.get('bfuns')
    if bf is not None:
        bf = [tuple(b) for b in bf]
    ns = max([b[2] for b in bf], default=0) + 1 if bf else 1
    return vform.parse_vf(desc['expr'], kvs if ns == 1 else ns * (kvs,), args=args, bfuns=bf,
                          boundary=desc.get('boundary', False), updatable=list(desc.get('updatable') or []))


def universe():
    U = []

    def add(name, expr, attr, dim=2, args=None, bfuns=None, boundary=False, updatable=None):
        U.append(dict(name=name, kind='str', expr=expr, dim=dim, args=args or {}, bfuns=bfuns, boundary=boundary,
                      updatable=updatable or [], attr=attr))

    def predef(name, fn, dim, **kw):
        U.append(dict(name=name, kind='predef', expr=fn, dim=dim, kwargs=kw, attr='predefined'))

    F = {'f': ['field', [], True]}
    Fp = {'f': ['field', [], False]}
    C = {'c': ['param', []]}
    add('mass', 'u*v*dx', 'base')
    add('mass-1d', 'u*v*dx', 'dim', dim=1)
    add('mass-3d', 'u*v*dx', 'dim', dim=3)
    add('const2', '2*u*v*dx', 'constant')
    add('const3', '3*u*v*dx', 'constant')
    add('const2.5', '2.5*u*v*dx', 'constant')
    add('const-1', '(-1)*u*v*dx', 'constant')      # CPython: hash(-1.0) == hash(-2.0)
    add('const-2', '(-2)*u*v*dx', 'constant')
    add('const-0.5', '(-0.5)*u*v*dx', 'constant')
    # twins that agree in their leading digits (a rounded coefficient later replaced by the exact one): a key made from a
    # shortened rendering of the number merges them although the generated source carries every digit
    add('const-pi', '3.141592653589793*u*v*dx', 'constant')
    add('const-pi6', '3.14159*u*v*dx', 'constant')
    add('const-third', '0.3333333333333333*u*v*dx', 'constant')
    add('const-third6', '0.333333*u*v*dx', 'constant')
    add('const-1e-7', '1e-07*u*v*dx', 'constant')
    add('const-1e-7b', '1.00000001e-07*u*v*dx', 'constant')
    # operand order of the non-commutative operators
    add('op-sub-cf', '(c - f)*u*v*dx', 'operator', args={'c': ['param', []], 'f': ['field', [], True]})
    add('op-sub-fc', '(f - c)*u*v*dx', 'operator', args={'c': ['param', []], 'f': ['field', [], True]})
    add('op-div-cf', '(c / f)*u*v*dx', 'operator', args={'c': ['param', []], 'f': ['field', [], True]})
    add('op-div-fc', '(f / c)*u*v*dx', 'operator', args={'c': ['param', []], 'f': ['field', [], True]})
    add('op-plus', '(u*v + Dx(u,0)*v)*dx', 'operator')
    add('op-minus', '(u*v - Dx(u,0)*v)*dx', 'operator')
    add('op-mul', 'c*u*v*dx', 'operator', args=C)
    add('op-div', 'u*v/c*dx', 'operator', args=C)
    add('op-pow2', 'c**2*u*v*dx', 'operator', args=C)
    add('op-pow3', 'c**3*u*v*dx', 'operator', args=C)
    for fn in ('sin', 'cos', 'tan', 'exp', 'log', 'sqrt', 'abs'):
        add('fn-' + fn, '%s(f)*u*v*dx' % fn, 'function name', args=F)
    add('fn-none', 'f*u*v*dx', 'function name', args=F)
    add('fn-sin-x', 'sin(x[0])*u*v*dx', 'function name')
    add('fn-cos-x', 'cos(x[0])*u*v*dx', 'function name')
    add('shape-vec0', 'g[0]*u*v*dx', 'shape', args={'g': ['field', [2], True]})
    add('shape-vec1', 'g[1]*u*v*dx', 'shape', args={'g': ['field', [2], True]})
    add('shape-vec3', 'g[0]*u*v*dx', 'shape', args={'g': ['field', [3], True]})
    add('shape-mat', 'g[0,0]*u*v*dx', 'shape', args={'g': ['field', [2, 2], True]})
    add('shape-mat01', 'g[0,1]*u*v*dx', 'shape', args={'g': ['field', [2, 2], True]})
    # products of non-square matrices (wide and tall left factors)
    add('mm-wide', 'tr(dot(B.T,B))*u*v*dx', 'shape', args={'B': ['field', [3, 2], True]})
    add('mm-tall', 'tr(dot(B,B.T))*u*v*dx', 'shape', args={'B': ['field', [3, 2], True]})
    add('mm-wide-grad', 'inner(dot(dot(B.T,B),grad(u)),grad(v))*dx', 'shape', args={'B': ['field', [3, 2], True]})
    add('mm-23-32', 'dot(C,B)[0,1]*u*v*dx', 'shape', args={'B': ['field', [3, 2], True], 'C': ['field', [2, 3], True]})
    add('shape-scalar', 'g*u*v*dx', 'shape', args={'g': ['field', [], True]})
    add('pshape-vec', 'c[0]*u*v*dx', 'shape', args={'c': ['param', [2]]})
    add('pshape-vec3', 'c[0]*u*v*dx', 'shape', args={'c': ['param', [3]]})
    add('deriv-x', 'Dx(u,0)*v*dx', 'derivative')
    add('deriv-y', 'Dx(u,1)*v*dx', 'derivative')
    add('deriv-xx', 'Dx(u,0,2)*v*dx', 'derivative')
    add('deriv-v', 'u*Dx(v,0)*dx', 'derivative')
    add('deriv-x-par', 'Dx(u,0,parametric=True)*v*dx', 'physical')
    add('stiff', 'inner(grad(u),grad(v))*dx', 'derivative')
    add('stiff-par', 'inner(grad(u,parametric=True),grad(v,parametric=True))*dx', 'physical')
    add('biharm', 'inner(hess(u),hess(v))*dx', 'derivative')
    add('field-grad', 'inner(grad(f),grad(v))*u*dx', 'derivative', args=Fp)
    add('field-grad-par', 'inner(grad(f,parametric=True),grad(v))*u*dx', 'physical', args=Fp)
    add('field-dx', 'Dx(f,0)*u*v*dx', 'derivative', args=Fp)
    add('field-dx-par', 'Dx(f,0,parametric=True)*u*v*dx', 'physical', args=Fp)
    add('field-hess', 'tr(hess(f))*u*v*dx', 'derivative', args=Fp)
    add('field-hess-par', 'tr(hess(f,parametric=True))*u*v*dx', 'physical', args=Fp)
    add('surf', 'u*v*ds', 'measure')
    add('bd-ds', 'u*v*ds', 'boundary flag', boundary=True)
    add('gw', 'u*v*gw', 'boundary flag')
    add('bd-gw', 'u*v*gw', 'boundary flag', boundary=True)
    add('bd-normal', 'inner(grad(u),n)*v*ds', 'boundary flag', boundary=True)
    add('lin', 'v*dx', 'arity')
    add('lin-u', 'u*dx', 'arity')
    add('lin-f', 'f*v*dx', 'arity', args=F)
    add('bilin-f', 'f*u*v*dx', 'arity', args=F)
    add('vec22', 'inner(u,v)*dx', 'component count', bfuns=[['u', 2, 0], ['v', 2, 0]])
    add('vec22-0', 'u[0]*v[0]*dx', 'component count', bfuns=[['u', 2, 0], ['v', 2, 0]])
    add('vec22-1', 'u[1]*v[0]*dx', 'component count', bfuns=[['u', 2, 0], ['v', 2, 0]])
    add('vec21', 'u[0]*v*dx', 'component count', bfuns=[['u', 2, 0], ['v', 1, 0]])
    add('vec31', 'u[0]*v*dx', 'component count', bfuns=[['u', 3, 0], ['v', 1, 0]])
    add('vec12', 'u*v[0]*dx', 'component count', bfuns=[['u', 1, 0], ['v', 2, 0]])
    add('vec11', 'u*v*dx', 'component count', bfuns=[['u', 1, 0], ['v', 1, 0]])
    add('divdiv', 'div(u)*div(v)*dx', 'component count', bfuns=[['u', 2, 0], ['v', 2, 0]])
    add('vlin2', 'inner(g,v)*dx', 'component count', bfuns=[['v', 2, 0]], args={'g': ['field', [2], True]})
    add('space01', 'u*v*dx', 'space index', bfuns=[['u', 1, 0], ['v', 1, 1]])
    add('space10', 'u*v*dx', 'space index', bfuns=[['u', 1, 1], ['v', 1, 0]])
    add('space00', 'u*v*dx', 'space index', bfuns=[['u', 1, 0], ['v', 1, 0]])
    add('upd', 'f*u*v*dx', 'updatable', args=F, updatable=['f'])
    add('upd-par', 'f*u*v*dx', 'updatable', args=Fp, updatable=['f'])
    add('phys', 'f*u*v*dx', 'physical', args=F)
    add('para', 'f*u*v*dx', 'physical', args=Fp)
    add('fname', 'h*u*v*dx', 'name', args={'h': ['field', [], True]})
    add('pname', 'd*u*v*dx', 'name', args={'d': ['param', []]})
    for dim in (2, 3):
        for fn in ('mass_vf', 'stiffness_vf', 'heat_st_vf', 'wave_st_vf', 'divdiv_vf', 'L2functional_vf'):
            predef('%s-%d' % (fn, dim), fn, dim)
        predef('L2functional_vf-phys-%d' % dim, 'L2functional_vf', dim, physical=True)
        predef('L2functional_vf-upd-%d' % dim, 'L2functional_vf', dim, updatable=True)
    add('heat-nost', '(inner(grad(u),grad(v)) + Dx(u,1)*v)*dx', 'spacetime')
    for k in API_LET:
        U.append(dict(name='api-' + k, kind='api', expr=k, dim=2, attr='let variable definition'))
    return U


SHIPPED = [('mass_vf', {}, 'MassAssembler'), ('stiffness_vf', {}, 'StiffnessAssembler'),
           ('heat_st_vf', {}, 'HeatAssembler_ST'), ('wave_st_vf', {}, 'WaveAssembler_ST'),
           ('divdiv_vf', {}, 'DivDivAssembler'), ('L2functional_vf', {}, 'L2FunctionalAssembler'),
           ('L2functional_vf', {'physical': True}, 'L2FunctionalAssemblerPhys')]


# ---------------------------------------------------------------------------------------------------------------
# forms built through the VForm API (let variables etc.) -- not expressible through parse_vf strings

def _api_base(dim=2, fields=('f', 'h')):
    from pyiga import vform
    V = vform.VForm(dim)
    u, v = V.basisfuns()
    env = {'V': V, 'u': u, 'v': v}
    if 'f' in fields:
        env['f'] = V.input('f', shape=(), physical=True)
    if 'h' in fields:
        env['h'] = V.input('h', shape=(), physical=False)
    if 'A' in fields:
        env['A'] = V.input('A', shape=(dim, dim), physical=True)
    return env


def api_pairs():
    """(name, build_A, build_B): A uses a `let` variable (or another indirection), B writes the same mathematics inline"""
    from pyiga import vform as vf
    P = []

    def pair(name, fa, fb):
        P.append((name, fa, fb))

    def mk(body_a, body_b, **kw):
        def A():
            e = _api_base(**kw)
            e['V'].add(body_a(e))
            return e['V']

        def B():
            e = _api_base(**kw)
            e['V'].add(body_b(e))
            return e['V']
        return A, B
    a, b = mk(lambda e: vf.Dx(e['V'].let('w', e['h'] * e['h'] + e['h']), 0, parametric=True) * e['u'] * e['v'] * vf.dx,
              lambda e: vf.Dx(e['h'] * e['h'] + e['h'], 0, parametric=True) * e['u'] * e['v'] * vf.dx)
    pair('let-dx-parametric', a, b)
    a, b = mk(lambda e: vf.Dx(e['V'].let('w', e['f'] * e['f'] + 2 * e['f']), 1) * e['u'] * e['v'] * vf.dx,
              lambda e: vf.Dx(e['f'] * e['f'] + 2 * e['f'], 1) * e['u'] * e['v'] * vf.dx)
    pair('let-dx-physical', a, b)
    a, b = mk(lambda e: vf.inner(vf.grad(e['V'].let('w', e['h'] * (e['h'] + 1)), parametric=True), vf.grad(e['v'], parametric=True)) * e['u'] * vf.dx,
              lambda e: vf.inner(vf.grad(e['h'] * (e['h'] + 1), parametric=True), vf.grad(e['v'], parametric=True)) * e['u'] * vf.dx)
    pair('let-grad-parametric', a, b)
    a, b = mk(lambda e: vf.inner(vf.grad(e['V'].let('w', e['f'] / (e['f'] + 3))), vf.grad(e['v'])) * e['u'] * vf.dx,
              lambda e: vf.inner(vf.grad(e['f'] / (e['f'] + 3)), vf.grad(e['v'])) * e['u'] * vf.dx)
    pair('let-grad-quotient', a, b)

    def sa(e):
        V = e['V']
        B = V.let('B', V.W * vf.dot(V.JacInv, V.JacInv.T), symmetric=True)
        return B.dot(vf.grad(e['u'], parametric=True)).dot(vf.grad(e['v'], parametric=True))
    a, b = mk(sa, lambda e: vf.inner(vf.grad(e['u']), vf.grad(e['v'])) * vf.dx)
    pair('let-symmetric-stiffness', a, b)

    def va(e):
        V = e['V']
        w = V.let('w', vf.as_vector((e['h'] * e['h'], 2 * e['h'])))
        return vf.div(w, parametric=True) * e['u'] * e['v'] * vf.dx
    a, b = mk(va, lambda e: (vf.Dx(e['h'] * e['h'], 0, parametric=True) + vf.Dx(2 * e['h'], 1, parametric=True)) * e['u'] * e['v'] * vf.dx)
    pair('let-vector-div-parametric', a, b)

    def la(e):
        V = e['V']
        w1 = V.let('w1', e['h'] + 1)
        w2 = V.let('w2', w1 * w1)
        return vf.Dx(w2, 1, parametric=True) * e['u'] * e['v'] * vf.dx
    a, b = mk(la, lambda e: vf.Dx((e['h'] + 1) * (e['h'] + 1), 1, parametric=True) * e['u'] * e['v'] * vf.dx)
    pair('let-nested-dx-parametric', a, b)
    return P


def _api_let(kind):
    """forms with `let` variables: same kernel expression and variable names, different definitions"""
    from pyiga import vform as vf
    e = _api_base(fields=('f', 'A') if 'aniso' in kind else ('f',))
    V, u, v = e['V'], e['u'], e['v']
    if kind == 'let-scalar-a':
        w = V.let('w', e['f'] + 1)
        V.add(w * u * v * vf.dx)
    elif kind == 'let-scalar-b':
        w = V.let('w', e['f'] + 2)
        V.add(w * u * v * vf.dx)
    elif kind == 'let-scalar-c':
        w = V.let('w', e['f'] * e['f'])
        V.add(w * u * v * vf.dx)
    elif kind == 'let-stiff':
        B = V.let('B', V.W * vf.dot(V.JacInv, V.JacInv.T), symmetric=True)
        V.add(B.dot(vf.grad(u, parametric=True)).dot(vf.grad(v, parametric=True)))
    elif kind == 'let-stiff-aniso':
        B = V.let('B', V.W * vf.dot(V.JacInv, vf.dot(e['A'], V.JacInv.T)), symmetric=True)
        V.add(B.dot(vf.grad(u, parametric=True)).dot(vf.grad(v, parametric=True)))
    elif kind == 'let-stiff-scaled':
        B = V.let('B', 2 * V.W * vf.dot(V.JacInv, V.JacInv.T), symmetric=True)
        V.add(B.dot(vf.grad(u, parametric=True)).dot(vf.grad(v, parametric=True)))
    else:
        raise KeyError(kind)
    return V


API_LET = ['let-scalar-a', 'let-scalar-b', 'let-scalar-c', 'let-stiff', 'let-stiff-aniso', 'let-stiff-scaled']
