"""C15 replay worker: drives records emitted by spec/MLStructure.tla through the real pyiga code.

Run as a subprocess (`python -m harness.c15_worker IN OUT [START]`): one JSON record per input line
({"tag":..., "v":...}), one JSON result per output line, flushed per case, so that a crash of the
interpreter is attributed to the case (and stage) being processed and the driver can restart behind it.
"""
import hashlib
import json
import os
import sys

import numpy as np

from . import common

common.import_repo()

_stage = ['']
_out = [None]


def stage(s):
    """Remember (and persist, one pwrite) what is being called, so that a crash can be attributed."""
    _stage[0] = s
    if _out[0] is not None:
        os.pwrite(_out[0], (s[:118] + '\n').ljust(120).encode(), 0)


def _u32(b):
    return np.ascontiguousarray(np.array(b, dtype=np.uint32).reshape(-1, 2))


def dense_from(triples, shape):
    A = np.zeros(shape)
    for i, j, v in triples:
        A[i, j] = v
    return A


def pairs(I, J):
    return sorted(zip((int(i) for i in I), (int(j) for j in J)))


MAXFORK = 6        # a fork costs ~0.1 s here: memory-unsafe calls are batched into few children


def run_deferred(deferred, report):
    """Matrix-vector products that may write out of bounds (2-/3-level kernels, more rows than columns) are run
    in a forked child, many per child; after a wrong result (memory possibly corrupted) or a crash the child is
    replaced and the batch continues behind that item.  Returns the number of items not run."""
    i, forks = 0, 0
    while i < len(deferred) and forks < MAXFORK:
        forks += 1
        r, w = os.pipe()
        pid = os.fork()
        if pid == 0:
            try:
                os.close(r)
                with os.fdopen(w, 'w') as f:
                    for k in range(i, len(deferred)):
                        A, x = deferred[k][0], deferred[k][1]
                        try:
                            val = ['ok', [float(t) for t in A.dot(x)]]
                        except BaseException as ex:      # noqa
                            val = ['exc', '%s: %s' % (type(ex).__name__, ex)]
                        f.write(json.dumps([k, val]) + '\n')
                        f.flush()
            finally:
                os._exit(0)
        os.close(w)
        restart = False
        with os.fdopen(r) as f:
            for line in f:
                k, (kind, val) = json.loads(line)
                bad = report(deferred[k], kind, val)
                i = k + 1
                if bad:          # the kernel ran before the outcome was produced: memory may be corrupted
                    restart = True
                    break
        try:
            os.kill(pid, 9)
        except OSError:
            pass
        _, status = os.waitpid(pid, 0)
        if not restart and i < len(deferred):       # the child died while working on item i
            report(deferred[i], 'crash', status)
            i += 1
    return len(deferred) - i


class Case:
    def __init__(self, deferred=None):
        self.viol = []
        self.deferred = deferred if deferred is not None else []

    def v(self, sig, **detail):
        self.viol.append((sig, detail))


ND_SIG = 'ml_nonzero_nd mismatch firstcols-differ'


def nd_suspect(Sx):
    """Attribution only (never a verdict): a failure of something computed FROM Sx.nonzero() is reported under
    the signature of the n-level routine iff that routine demonstrably returns wrong positions for Sx."""
    if Sx.L < 4:
        return False
    I = np.zeros(1, dtype=np.int64)
    J = np.zeros(1, dtype=np.int64)
    for k in range(Sx.L):
        b = np.asarray(Sx.bidx[k], dtype=np.int64)
        I = (I[:, None] * int(Sx.bs[k][0]) + b[None, :, 0]).ravel()
        J = (J[:, None] * int(Sx.bs[k][1]) + b[None, :, 1]).ravel()
    try:
        gi, gj = Sx.nonzero()
        return not (np.array_equal(np.asarray(gi, dtype=np.int64), I) and
                    np.array_equal(np.asarray(gj, dtype=np.int64), J))
    except Exception:
        return True


def shape_class(bs):
    M = int(np.prod([b[0] for b in bs]))
    N = int(np.prod([b[1] for b in bs]))
    return 'square' if M == N else ('tall' if M > N else 'wide')


def check_case(c, out):
    from pyiga import mlmatrix, utils
    import scipy.sparse
    L = c['L']
    bs = tuple((int(b[0]), int(b[1])) for b in c['bs'])
    bidx = tuple(_u32(b) for b in c['bidx'])
    M = int(np.prod([b[0] for b in bs]))
    N = int(np.prod([b[1] for b in bs]))
    path = c['path']
    inp = {'bs': bs, 'bidx': c['bidx']}
    firstcols = 'firstcols-differ' if any(c['bidx'][k][0][1] != c['bidx'][0][0][1] for k in range(1, L)) \
        else 'firstcols-equal'
    rect = shape_class(bs)
    lvrect = 'rectangular-level' if any(b[0] != b[1] for b in bs) else 'square-levels'

    stage('construct')
    try:
        S = mlmatrix.MLStructure(bs, bidx)
        if tuple(int(s) for s in S.shape) != (M, N) or S.L != L:
            out.v('MLStructure.shape mismatch', input=inp, got=[int(s) for s in S.shape])
    except Exception as ex:
        out.v('exception %s MLStructure()' % type(ex).__name__, input=inp, error=repr(ex))
        return

    # ---- nonzero positions in compact-layout order, lower-triangular filter
    for lw, key in ((False, 'nz0'), (True, 'nz1')):
        if lw and L < 2:
            continue
        stage('nonzero lower=%d' % lw)
        exp = c[key]
        try:
            I, J = S.nonzero(lower_tri=lw)
            got = [[int(i), int(j)] for i, j in zip(I, J)]
        except Exception as ex:
            out.v('exception %s MLStructure.nonzero path=%s' % (type(ex).__name__, path), input=inp, lower_tri=lw,
                  error=repr(ex))
            continue
        if got != exp:
            out.v(('ml_nonzero_nd mismatch %s' % firstcols) if path == 'nd' else
                  ('MLStructure.nonzero mismatch path=%s' % path), input=inp, lower_tri=lw, via='MLStructure.nonzero',
                  expected=exp, got=got, nnz=len(c['nz0']))
        # the generic n-level routine is reachable through nonzero() only for L >= 4; it is written for any L
        if 2 <= L <= 3 and hasattr(mlmatrix, 'ml_nonzero_nd'):
            stage('ml_nonzero_nd direct lower=%d' % lw)
            try:
                IJ = mlmatrix.ml_nonzero_nd(bidx, np.array(bs), lower_tri=lw)
                got = [[int(i), int(j)] for i, j in zip(IJ[0], IJ[1])]
                if got != exp:
                    out.v('ml_nonzero_nd mismatch %s' % firstcols, input=inp, lower_tri=lw,
                          via='direct call (L < 4)', expected=exp, got=got, nnz=len(c['nz0']))
            except Exception as ex:
                out.v('exception %s ml_nonzero_nd(direct call)' % type(ex).__name__, input=inp, error=repr(ex))

    # ---- the denoted matrix
    datashape = tuple(len(b) for b in bidx)
    data = np.array(c['data'], dtype=float).reshape(datashape)
    den = dense_from(c['den'], (M, N))
    A = None
    stage('asmatrix')
    try:
        A = mlmatrix.MLMatrix(structure=S, data=data)
        X = A.asmatrix()
        Xd = X.toarray()
        if Xd.shape != (M, N) or not np.array_equal(Xd, den):
            out.v(ND_SIG if nd_suspect(S) else 'MLMatrix.asmatrix mismatch path=%s' % path, input=inp,
                  via='MLMatrix.asmatrix', data=c['data'], expected=c['den'], nnz=len(c['nz0']))
        if int(A.nnz) != len(c['data']):
            out.v('MLMatrix.nnz mismatch', input=inp, got=int(A.nnz))
        Xc = A.asmatrix(format='csc').toarray()
        if not np.array_equal(Xc, Xd):
            out.v('MLMatrix.asmatrix format-dependence', input=inp)
    except Exception as ex:
        out.v(ND_SIG if nd_suspect(S) else 'exception %s MLMatrix.asmatrix path=%s' % (type(ex).__name__, path),
              input=inp, via='MLMatrix.asmatrix', error=repr(ex), nnz=len(c['nz0']))

    # ---- matrix-vector product
    x = np.array(c['x'], dtype=float)
    if A is not None:
        stage('dot')
        cls = 'path=%s shape=%s' % (path if L in (2, 3) else 'asmatrix', rect)

        def report(out, kind, val):
            if kind == 'ok' and len(val) == M and [float(t) for t in c['y']] == val:
                return False
            if L >= 4 and nd_suspect(S):
                sig = ND_SIG
            elif L in (2, 3) and M != N:
                sig = 'MLMatrix.dot wrong for a non-square matrix (2-/3-level kernel)'
            else:
                sig = 'MLMatrix.dot %s %s' % ('mismatch' if kind == 'ok' else kind, cls)
            out.v(sig, input=inp, via='MLMatrix.dot', outcome=kind, data=c['data'], x=c['x'], expected=c['y'], got=val,
                  nnz=len(c['nz0']))
            return True
        if L in (2, 3) and M > N:          # the 2-/3-level kernels write y[I] without bounds checks
            out.deferred.append((A, x, report))
        else:
            try:
                kind, val = 'ok', [float(t) for t in A.dot(x)]
            except Exception as ex:
                kind, val = 'exc', '%s: %s' % (type(ex).__name__, ex)
            report(out, kind, val)
            # ---- object history: product, new coefficient tensor assigned to the SAME object, product / matrix again
            if kind == 'ok':
                stage('data assignment')
                try:
                    A.data = 3.0 * data
                    y3 = [float(t) for t in A.dot(x)]
                    X3 = A.asmatrix().toarray()
                    if y3 != [3.0 * float(t) for t in c['y']] or not np.array_equal(X3, 3.0 * den):
                        out.v('MLMatrix stale after data assignment %s' % ('L=%d' % L if L < 4 else 'L>=4'), input=inp,
                              via='dot; data=3*data; dot', expected=[3.0 * float(t) for t in c['y']], got=y3)
                    A.data = data
                    if [float(t) for t in A.dot(x)] != val:
                        out.v('MLMatrix stale after data assignment %s' % ('L=%d' % L if L < 4 else 'L>=4'), input=inp,
                              via='dot; data=3*data; dot; data=data; dot')
                except Exception as ex:
                    out.v('exception %s MLMatrix.data assignment' % type(ex).__name__, input=inp, error=repr(ex))

    # ---- constructor from a matrix (dense / sparse) recovers the data tensor
    stage('from matrix')
    try:
        for mat in (den, scipy.sparse.csr_matrix(den)):
            A2 = mlmatrix.MLMatrix(structure=S, matrix=mat)
            if A2.data.shape != datashape or not np.array_equal(A2.data, data):
                out.v(ND_SIG if nd_suspect(S) else 'MLMatrix(matrix=) data mismatch path=%s' % path, input=inp,
                      via='MLMatrix(matrix=)', kind=type(mat).__name__, nnz=len(c['nz0']))
                break
    except Exception as ex:
        out.v(ND_SIG if nd_suspect(S) else 'exception %s MLMatrix(matrix=) path=%s' % (type(ex).__name__, path),
              input=inp, via='MLMatrix(matrix=)', error=repr(ex), nnz=len(c['nz0']))

    # ---- transposition
    stage('transpose')
    T = None
    try:
        T = S.transpose()
        if tuple(T.bs) != tuple((b[1], b[0]) for b in bs):
            out.v('MLStructure.transpose bs mismatch', input=inp)
        for lw, key in ((False, 'tnz0'), (True, 'tnz1')):
            if lw and L < 2:
                continue
            I, J = T.nonzero(lower_tri=lw)
            got = [[int(i), int(j)] for i, j in zip(I, J)]
            if got != c[key]:
                out.v(ND_SIG if nd_suspect(T) else 'transpose().nonzero mismatch path=%s' % path, input=inp,
                      via='transpose().nonzero', lower_tri=lw, expected=c[key], got=got, nnz=len(c['nz0']))
        At = mlmatrix.MLMatrix(structure=T, data=data).asmatrix().toarray()
        if At.shape != (N, M) or not np.array_equal(At, den.T):
            out.v(ND_SIG if nd_suspect(T) else 'transpose().asmatrix mismatch path=%s' % path, input=inp,
                  via='transpose().asmatrix', nnz=len(c['nz0']))
        TT = T.transpose()
        if tuple(TT.bs) != bs or any(not np.array_equal(a, b) for a, b in zip(TT.bidx, bidx)):
            out.v('transpose not involutive', input=inp)
    except Exception as ex:
        out.v(ND_SIG if (T is not None and nd_suspect(T)) else
              'exception %s MLStructure.transpose path=%s' % (type(ex).__name__, path), input=inp,
              via='transpose', error=repr(ex), nnz=len(c['nz0']))

    # ---- level reordering
    if A is not None:
        stage('reorder')
        for pr in c['perms']:
            ax = tuple(pr['ax'])
            R = None
            try:
                R = A.reorder(ax)
                Mp = int(np.prod([bs[a][0] for a in ax]))
                Np = int(np.prod([bs[a][1] for a in ax]))
                if tuple(R.structure.bs) != tuple(bs[a] for a in ax):
                    out.v('MLMatrix.reorder block sizes mismatch', input=inp, axes=ax)
                Rd = R.asmatrix().toarray()
                if Rd.shape != (Mp, Np) or not np.array_equal(Rd, dense_from(pr['den'], (Mp, Np))):
                    out.v(ND_SIG if nd_suspect(R.structure) else 'MLMatrix.reorder mismatch path=%s' % path, input=inp,
                          via='MLMatrix.reorder', axes=ax, data=c['data'], expected=pr['den'], nnz=len(c['nz0']))
            except Exception as ex:
                out.v(ND_SIG if (R is not None and nd_suspect(R.structure)) else
                      'exception %s MLMatrix.reorder path=%s' % (type(ex).__name__, path), input=inp,
                      via='MLMatrix.reorder', axes=ax, error=repr(ex), nnz=len(c['nz0']))

    # ---- per-row / per-column queries, partial Kronecker products
    kden = dense_from(c['kden'], (M, N))
    As = None
    for n, rr in enumerate(c['rows']):
        R = rr['R']
        exp = sorted((int(r), int(j)) for r, js in zip(R, rr['exp']) for j in js)
        if n == 0:
            stage('nonzeros_for_rows')
        try:
            arg = R if n % 2 == 0 else np.array(R, dtype=int)
            I, J = S.nonzeros_for_rows(arg)
            if pairs(I, J) != exp:
                out.v('nonzeros_for_rows mismatch', input=inp, rows=R, expected=exp, got=pairs(I, J))
            I, J, K = S.nonzeros_for_rows(arg, renumber_rows=True)
            if pairs(I, J) != exp or [int(R[k]) for k in K] != [int(i) for i in I]:
                out.v('nonzeros_for_rows(renumber_rows) mismatch', input=inp, rows=R)
        except Exception as ex:
            out.v('exception %s nonzeros_for_rows' % type(ex).__name__, input=inp, rows=R, error=repr(ex))
        if n < 4 or n % 16 == c['h'] % 16:
            stage('kron_partial/nonzeros_for_rows')
            try:
                if As is None:
                    As = []
                    for k in range(L):
                        Ak = np.zeros(bs[k])
                        for (i, j), v in zip(c['bidx'][k], c['avals'][k]):
                            Ak[i, j] = v
                        As.append(scipy.sparse.csr_matrix(Ak))
                    As = tuple(As)
                P = utils.kron_partial(As, rows=R)
                full = np.zeros((M, N))
                full[R, :] = kden[R, :]
                if P.shape != (M, N) or not np.array_equal(P.toarray(), full):
                    out.v('kron_partial mismatch', input=inp, rows=R, avals=c['avals'])
                P = utils.kron_partial(As, rows=R, restrict=True)
                if P.shape != (len(R), N) or not np.array_equal(P.toarray(), kden[R, :].reshape(len(R), N)):
                    out.v('kron_partial(restrict) mismatch', input=inp, rows=R, avals=c['avals'])
            except Exception as ex:
                out.v('exception %s kron_partial' % type(ex).__name__, input=inp, rows=R, error=repr(ex))
    for n, rr in enumerate(c['cols']):
        C = rr['R']
        exp = sorted((int(i), int(cc)) for cc, is_ in zip(C, rr['exp']) for i in is_)
        if n == 0:
            stage('nonzeros_for_columns')
        try:
            I, J = S.nonzeros_for_columns(C if n % 2 == 0 else np.array(C, dtype=int))
            if pairs(I, J) != exp:
                out.v('nonzeros_for_columns mismatch', input=inp, cols=C, expected=exp, got=pairs(I, J))
        except Exception as ex:
            out.v('exception %s nonzeros_for_columns' % type(ex).__name__, input=inp, cols=C, error=repr(ex))

    # ---- object history: structures DERIVED (transposed, levels reordered) from a structure that has by now answered
    # row and column queries answer their own row / column queries; the expectation is the pattern of the derived
    # structure's own sparse matrix with unit data (built through nonzero(), not through the row-wise tables)
    stage('row/column queries on derived structures')
    try:
        derived = [('transpose()', S.transpose())]
        for pr in c['perms']:
            derived.append(('reorder%s' % (tuple(pr['ax']),), S.reorder(tuple(pr['ax']))))
        for nm, Dv in derived:
            pat = mlmatrix.MLMatrix(structure=Dv, data=np.ones(tuple(len(b) for b in Dv.bidx))).asmatrix().toarray() != 0
            Md, Nd = pat.shape
            for rows in (list(range(Md)), list(range(Md - 1, -1, -2))):
                exp = sorted((int(r), int(j)) for r in rows for j in np.nonzero(pat[r])[0])
                I, J = Dv.nonzeros_for_rows(rows)
                if pairs(I, J) != exp:
                    out.v('nonzeros_for_rows mismatch on a derived structure (%s of a structure queried before)' % nm.split('(')[0],
                          input=inp, derived=nm, rows=rows, expected=exp, got=pairs(I, J))
                    break
            cols = list(range(Nd))
            exp = sorted((int(i), int(cc)) for cc in cols for i in np.nonzero(pat[:, cc])[0])
            I, J = Dv.nonzeros_for_columns(cols)
            if pairs(I, J) != exp:
                out.v('nonzeros_for_columns mismatch on a derived structure (%s of a structure queried before)' % nm.split('(')[0],
                      input=inp, derived=nm, expected=exp, got=pairs(I, J))
    except Exception as ex:
        out.v('exception %s row/column queries on derived structures' % type(ex).__name__, input=inp, error=repr(ex))

    # ---- Kronecker structure from the factor matrices
    if As is not None:
        stage('from_kronecker')
        try:
            SK = mlmatrix.MLStructure.from_kronecker(As)
            I, J = SK.nonzero()
            if tuple(SK.bs) != bs or pairs(I, J) != sorted((a, b) for a, b in c['nz0']):
                out.v(ND_SIG if nd_suspect(SK) else 'from_kronecker mismatch path=%s' % path, input=inp,
                      via='from_kronecker().nonzero', nnz=len(c['nz0']))
        except Exception as ex:
            out.v('exception %s from_kronecker' % type(ex).__name__, input=inp, error=repr(ex))

    # ---- sequential (ravelled) level indices and the multilevel -> sequential map
    stage('sequential_bidx')
    try:
        sb = [[int(t) for t in s] for s in S.sequential_bidx()]
        if sb != c['seqb']:
            out.v('sequential_bidx mismatch %s' % lvrect, input=inp, expected=c['seqb'], got=sb)
        bsa = np.array(bs)
        nn = [len(b) for b in c['bidx']]
        nz0 = c['nz0']
        for t in range(0, len(nz0), max(1, len(nz0) // 40)):
            pos = np.unravel_index(t, nn)
            Mi = [int(c['seqb'][k][pos[k]]) for k in range(L)]
            ij = mlmatrix.reindex_from_multilevel(Mi, bsa)
            if [int(ij[0]), int(ij[1])] != nz0[t]:
                out.v('reindex_from_multilevel(sequential bidx) mismatch', input=inp, M=Mi, expected=nz0[t],
                      got=[int(ij[0]), int(ij[1])])
                break
    except Exception as ex:
        out.v('exception %s sequential_bidx' % type(ex).__name__, input=inp, error=repr(ex))

    # ---- slice / join
    if L >= 2:
        stage('slice/join')
        try:
            sp = c['split']
            Sa, Sb = S.slice(0, sp), S.slice(sp, L)
            for Sx, key in ((Sa, 'nzA'), (Sb, 'nzB')):
                I, J = Sx.nonzero()
                got = [[int(i), int(j)] for i, j in zip(I, J)]
                if got != c[key]:
                    out.v(ND_SIG if nd_suspect(Sx) else 'slice().nonzero mismatch levels=%d' % Sx.L,
                          input=inp, via='slice().nonzero', split=sp, which=key, expected=c[key], got=got,
                          nnz=len(c['nz0']))
            Sj = Sa.join(Sb)
            if tuple(Sj.bs) != bs or any(not np.array_equal(a, b) for a, b in zip(Sj.bidx, bidx)):
                out.v('slice+join not identity', input=inp, split=sp)
            S1 = S.slice(L - 1)
            if S1.L != 1 or tuple(S1.bs) != (bs[L - 1],):
                out.v('slice(k) mismatch', input=inp)
        except Exception as ex:
            out.v('exception %s slice/join' % type(ex).__name__, input=inp, error=repr(ex))


def make_kv(p, knots):
    from pyiga import bspline
    return bspline.KnotVector(np.array(knots, dtype=float), p)


def check_kv(c, out, prev):
    from pyiga import mlmatrix
    kv1, kv2 = make_kv(c['p1'], c['kv1']), make_kv(c['p2'], c['kv2'])
    exp = sorted((int(a), int(b)) for a, b in c['ij'])
    cls = 'same-mesh' if c['samemesh'] else 'different-meshes'
    inp = {'kv1': [c['p1'], c['kv1']], 'kv2': [c['p2'], c['kv2']]}
    stage('compute_sparsity_ij')
    try:
        ij = mlmatrix.compute_sparsity_ij(kv1, kv2)
        got = [(int(a), int(b)) for a, b in ij.reshape(-1, 2)]
        bad = sorted(got) != exp or len(set(got)) != len(got)
        if bad:
            out.v('compute_sparsity_ij mismatch %s' % cls, input=inp, expected=exp, got=sorted(got), size=len(exp))
        S = mlmatrix.MLStructure.from_kvs((kv1,), (kv2,))
        I, J = S.nonzero()
        if tuple(S.bs) != ((c['n2'], c['n1']),) or (pairs(I, J) != exp and not bad):
            out.v('from_kvs mismatch %s' % cls, input=inp, size=len(exp))
        if prev is not None:
            kv1b, kv2b = make_kv(prev['p1'], prev['kv1']), make_kv(prev['p2'], prev['kv2'])
            S2 = mlmatrix.MLStructure.from_kvs((kv1b, kv1), (kv2b, kv2))
            I, J = S2.nonzero()
            m2, n2 = c['n2'], c['n1']
            exp2 = sorted((a * m2 + i, b * n2 + j) for a, b in prev['ij'] for i, j in c['ij'])
            same2 = c['samemesh'] and prev['samemesh']
            if tuple(S2.bs) != ((prev['n2'], prev['n1']), (c['n2'], c['n1'])) or pairs(I, J) != exp2:
                out.v('from_kvs(2 levels) mismatch same-mesh' if same2 else
                      'compute_sparsity_ij mismatch different-meshes', input=inp, via='from_kvs (2 levels)',
                      prev={'kv1': [prev['p1'], prev['kv1']], 'kv2': [prev['p2'], prev['kv2']]}, size=len(exp2) + 1000)
    except Exception as ex:
        out.v('exception %s compute_sparsity_ij %s' % (type(ex).__name__, cls), input=inp, error=repr(ex))


def check_reidx(c, out):
    from pyiga import mlmatrix
    bs = [tuple(b) for b in c['bs']]
    bsa = np.array(bs)
    L = len(bs)
    M, N = c['M'], c['N']
    inp = {'bs': bs}
    stage('reindex_to_multilevel')
    try:
        for i in range(M):
            for j in range(N):
                exp = [int(t) for t in c['to'][i][j]]
                got = [int(t) for t in mlmatrix.reindex_to_multilevel(i, j, bsa)]
                if got != exp:
                    out.v('reindex_to_multilevel mismatch', input=inp, ij=[i, j], expected=exp, got=got)
                    raise StopIteration
                back = mlmatrix.reindex_from_multilevel(exp, bsa)
                if (int(back[0]), int(back[1])) != (i, j):
                    out.v('reindex_from_multilevel mismatch', input=inp, M=exp, expected=[i, j],
                          got=[int(back[0]), int(back[1])])
                    raise StopIteration
    except StopIteration:
        pass
    except Exception as ex:
        out.v('exception %s reindex_to/from_multilevel' % type(ex).__name__, input=inp, error=repr(ex))
    stage('reindex_to_multilevel bs=tuple')
    try:
        got = [int(t) for t in mlmatrix.reindex_to_multilevel(M - 1, N - 1, tuple(bs))]
        if got != [int(t) for t in c['to'][M - 1][N - 1]]:
            out.v('reindex_to_multilevel(bs as tuple) mismatch', input=inp)
    except Exception as ex:
        out.v('exception %s reindex_to_multilevel bs=tuple-of-tuples' % type(ex).__name__, input=inp, error=repr(ex))
    if L == 2:
        (m1, n1), (m2, n2) = bs
        stage('reindex_from_reordered')
        try:
            X = np.arange(M * N, dtype=float).reshape(M, N)
            Y = mlmatrix.reorder(X, m1, n1)
            ok = Y.shape == (m1 * n1, m2 * n2)
            for i in range(m1 * n1):
                for j in range(m2 * n2):
                    e = c['ro'][i][j]
                    g = mlmatrix.reindex_from_reordered(i, j, m1, n1, m2, n2)
                    if (int(g[0]), int(g[1])) != (e[0], e[1]):
                        out.v('reindex_from_reordered mismatch', input=inp, ij=[i, j], expected=e,
                              got=[int(g[0]), int(g[1])])
                        raise StopIteration
                    ok = ok and Y[i, j] == X[e[0], e[1]]
            if not ok:
                out.v('reorder mismatch', input=inp)
        except StopIteration:
            pass
        except Exception as ex:
            out.v('exception %s reorder/reindex_from_reordered' % type(ex).__name__, input=inp, error=repr(ex))


def check_pat(c, out):
    from pyiga import mlmatrix
    kind = c['kind']
    try:
        if kind == 'sym':
            stage('get_transpose_idx_for_bidx')
            b = _u32(c['bidx'])
            tr = [int(t) for t in mlmatrix.get_transpose_idx_for_bidx(b)]
            if tr != c['tr']:
                out.v('get_transpose_idx_for_bidx mismatch', bidx=c['bidx'], expected=c['tr'], got=tr)
        elif kind == 'band':
            stage('banded')
            n, bw = c['n'], c['bw']
            ij = [[int(a), int(b)] for a, b in mlmatrix.compute_banded_sparsity_ij(n, bw).reshape(-1, 2)]
            fl = [int(t) for t in mlmatrix.compute_banded_sparsity(n, bw)]
            S = mlmatrix.MLStructure.multi_banded((n, n), (bw, bw))
            I, J = S.nonzero()
            exp2 = [[a * n + i, b * n + j] for a, b in c['ij'] for i, j in c['ij']]
            if ij != c['ij'] or fl != [a * n + b for a, b in c['ij']] or tuple(S.bs) != ((n, n), (n, n)) or \
                    [[int(i), int(j)] for i, j in zip(I, J)] != exp2:
                out.v('banded sparsity mismatch', n=n, bw=bw)
        else:
            stage('dense')
            m, n = c['m'], c['n']
            ij = [[int(a), int(b)] for a, b in mlmatrix.compute_dense_ij(m, n).reshape(-1, 2)]
            S = mlmatrix.MLStructure.dense((m, n))
            I, J = S.nonzero()
            if ij != c['ij'] or tuple(S.bs) != ((m, n),) or [[int(i), int(j)] for i, j in zip(I, J)] != c['ij']:
                out.v('dense sparsity mismatch', m=m, n=n)
    except Exception as ex:
        out.v('exception %s %s' % (type(ex).__name__, _stage[0]), input=c, error=repr(ex))


def case_key(tag, c):
    if tag == 'CASE':
        s = json.dumps([c['bs'], c['bidx']])
    elif tag == 'KV':
        s = json.dumps([c['p1'], c['kv1'], c['p2'], c['kv2']])
    elif tag == 'REIDX':
        s = json.dumps(c['bs'])
    else:
        s = json.dumps(c, sort_keys=True)
    return tag[0] + hashlib.md5(s.encode()).hexdigest()[:14]


def nontrivial(tag, c):
    if tag == 'CASE':
        return c['L'] >= 2 and len(c['nz0']) >= 2
    if tag == 'KV':
        return len(c['ij']) >= 2
    return True


def main():
    inp, outp = sys.argv[1], sys.argv[2]
    start = int(sys.argv[3]) if len(sys.argv) > 3 else 0
    prev_kv = None
    deferred = []
    _out[0] = os.open(outp + '.stage', os.O_WRONLY | os.O_CREAT, 0o644)
    with open(inp) as f, open(outp, 'a') as o:
        for n, line in enumerate(f):
            rec = json.loads(line)
            tag, c = rec['tag'], rec['v']
            if n < start:
                if tag == 'KV':
                    prev_kv = c
                continue
            o.write('B %d\n' % n)
            o.flush()
            out = Case(deferred)
            if tag == 'CASE':
                check_case(c, out)
            elif tag == 'KV':
                check_kv(c, out, prev_kv)
                prev_kv = c
            elif tag == 'REIDX':
                check_reidx(c, out)
            elif tag == 'PAT':
                check_pat(c, out)
            res = {'n': n, 'key': case_key(tag, c), 'nontrivial': nontrivial(tag, c), 'viol': out.viol}
            o.write('R ' + json.dumps(res, default=str) + '\n')
            o.flush()
        # the deferred (memory-unsafe) calls, in few forked children; their violations follow as V lines
        stage('deferred MLMatrix.dot (forked)')
        late = []

        def report(item, kind, val):
            case = Case()
            bad = item[2](case, kind, val)
            late.extend(case.viol)
            return bad
        notrun = run_deferred(deferred, report)
        o.write('V ' + json.dumps({'viol': late, 'deferred': len(deferred), 'notrun': notrun}, default=str) + '\n')
        o.write('E\n')


if __name__ == '__main__':
    main()
