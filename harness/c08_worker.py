"""C08 worker: runs the REAL pyiga assemblers for the configurations emitted by spec/AsmSched.tla (one OS process per
job group: contains interpreter crashes, fixes the size of pyiga's thread pool, private compile cache).

usage: python -m harness.c08_worker JOB.json OUT.json
JOB = {pool, tier, probs: [PROB records], forms: [form names] | null, hists: [...], reps, digest_only}
OUT = {cases: [[key, nontrivial, sample]], violations: [[signature, detail]], skips: [...], digests: {key: sha1}}"""
import hashlib
import json
import os
import re
import sys
import traceback

import numpy as np

TOL = 2e-12          # "to rounding accuracy", relative to the largest entry of the operator


class Out:
    def __init__(self):
        self.cases, self.violations, self.skips, self.digests = [], [], [], {}
        self.nsamples = 0

    def case(self, key, nontrivial=True, sample=None):
        if sample is not None and self.nsamples >= 1:
            sample = None
        if sample is not None:
            self.nsamples += 1
        self.cases.append([key, bool(nontrivial), sample])

    def violation(self, sig, detail):
        self.violations.append([sig, detail])

    def exception(self, ex, path, detail):
        msg = re.sub(r'\d+', '#', re.sub(r"<class '[^']*'>", '<class>', str(ex)))[:90]
        d = dict(detail)
        d['error'] = repr(ex)
        d['traceback'] = traceback.format_exc()[-1200:]
        self.violation('exception %s path=%s: %s' % (type(ex).__name__, path, msg), d)


OUT = Out()


# ----------------------------------------------------------------------------------------------------------
# forms

def geometry_for(d):
    from pyiga import geometry
    if d == 1:
        return geometry.line_segment(0.5, 2.0, intervals=2)
    if d == 2:
        return geometry.quarter_annulus()
    return geometry.twisted_box()


def field_f(d, v):
    """input fields f_0, f_1, f_2 (parametric coordinates are irrelevant: given as physical functions)"""
    a, b = [(1.0, 0.5), (-0.75, 2.0), (0.25, -1.5)][v]
    if d == 1:
        return lambda x: a + b * x
    if d == 2:
        return lambda x, y: a + b * x * y + y
    return lambda x, y, z: a + b * x * y + z


PARAM_C = [1.5, -2.0, 0.625]

# name -> (dims, (nc0, nc1), symmetric form?, kind, spec); kind: 'class' shipped assembler class, 'str' compiled from string
FORMS = {
    'mass':   dict(dims=(2, 3), comps=(0, 0), sym=True, kind='class', cls='MassAssembler%dD'),
    'stiff':  dict(dims=(2, 3), comps=(0, 0), sym=True, kind='class', cls='StiffnessAssembler%dD'),
    'heat':   dict(dims=(2, 3), comps=(0, 0), sym=False, kind='class', cls='HeatAssembler_ST%dD'),
    'wave':   dict(dims=(2, 3), comps=(0, 0), sym=False, kind='class', cls='WaveAssembler_ST%dD'),
    'divdiv2': dict(dims=(2,), comps=(2, 2), sym=True, kind='class', cls='DivDivAssembler%dD'),
    'divdiv3': dict(dims=(3,), comps=(3, 3), sym=True, kind='class', cls='DivDivAssembler%dD'),
    # compiled (thorough tier only)
    'c-reac1': dict(dims=(1,), comps=(0, 0), sym=True, kind='str', expr='u * v * dx + inner(grad(u), grad(v)) * dx',
                    bfuns=None),
    'c-vec1':  dict(dims=(1,), comps=(2, 2), sym=True, kind='str',
                    expr='inner(u, v) * dx + 0.5 * u[0] * v[1] * dx + 0.5 * u[1] * v[0] * dx', bfuns=[('u', 2), ('v', 2)]),
    'c-2x1':   dict(dims=(2,), comps=(2, 1), sym=False, kind='str', expr='c * f * inner(u, grad(v)) * dx',
                    bfuns=[('u', 2), ('v', 1)], updatable=['f'], params=True),
    # an updatable field used at two derivative orders (value and gradient): update() must refresh both
    'c-fgrad': dict(dims=(2,), comps=(0, 0), sym=False, kind='str', expr='c * (f * u * v + inner(grad(f), grad(v)) * u) * dx',
                    bfuns=None, updatable=['f'], params=True, explicit=True, spline_field=True),
    'c-1x2':   dict(dims=(2,), comps=(1, 2), sym=False, kind='str', expr='inner(grad(u), v) * dx + u * v[1] * dx',
                    bfuns=[('u', 1), ('v', 2)]),
}


def forms_for(prob, tier, only=None):
    out = []
    for name, F in FORMS.items():
        if only is not None and name not in only:
            continue
        if F['kind'] != 'class' and tier != 'thorough' and not (only is not None and F.get('explicit')):
            continue
        if F.get('explicit') and only is None:
            continue
        if prob['d'] in F['dims'] and (prob['nc0'], prob['nc1']) == F['comps']:
            out.append(name)
    return out


class Problem:
    def __init__(self, prob, form):
        from pyiga import assemblers, bspline
        self.prob, self.form, self.F = prob, form, FORMS[form]
        self.d = prob['d']
        self.kvs = tuple(bspline.KnotVector(np.array(k['knots'], dtype=float) / 4.0, int(k['p'])) for k in prob['kvs'])
        self.geo = geometry_for(self.d)
        self.vec = bool(prob['vec'])
        self.nc0, self.nc1 = prob['nc0'], prob['nc1']
        self.args = {'geo': self.geo}
        if self.F.get('params'):
            self.args.update(f=self.field(0), c=PARAM_C[0])
        if self.F['kind'] == 'class':
            self.cls = getattr(assemblers, self.F['cls'] % self.d)
        self.ident = 'form=%s d=%d comps=%dx%d' % (form, self.d, self.nc0, self.nc1)
        self.key = (form, tuple(prob['codes']), self.nc0, self.nc1)

    def field(self, v):
        """input field number v: a physical function, or (forms that differentiate it) a spline function on the space"""
        if not self.F.get('spline_field'):
            return field_f(self.d, v)
        from pyiga import bspline
        a, b = [(1.0, 0.5), (-0.75, 2.0), (0.25, -1.5)][v]
        N = tuple(kv.numdofs for kv in self.kvs)
        I = np.indices(N)
        C = a + b * np.sin(1.0 + sum((k + 1) * I[k] for k in range(len(N))))
        return bspline.BSplineFunc(self.kvs, C)

    def make(self, **override):
        """a fresh assembler object through the public API"""
        from pyiga import assemble
        args = dict(self.args)
        args.update(override)
        if self.F['kind'] == 'class':
            return assemble.instantiate_assembler(self.cls, self.kvs, args, None)
        return assemble.instantiate_assembler(self.F['expr'], self.kvs, args, self.F.get('bfuns'),
                                              updatable=self.F.get('updatable', []))

    def problem_arg(self):
        return self.cls if self.F['kind'] == 'class' else self.F['expr']


def path_of(P, cfg):
    if not P.vec:
        return 'entries'
    return 'bsr' if (cfg['lay'] == 'packed' and cfg['fmt'] == 'bsr') else 'kernel'


def to_dense(A, cfg):
    """(dense array, bytes identifying the result bitwise, stored format ok?)"""
    import scipy.sparse
    if cfg['fmt'] == 'mlb':
        from pyiga.mlmatrix import MLMatrix
        if not isinstance(A, MLMatrix):
            return None, None, 'result is %s, not MLMatrix' % type(A).__name__
        return A.asmatrix().toarray(), np.ascontiguousarray(A.data).tobytes(), None
    if not scipy.sparse.issparse(A) or A.format != cfg['fmt']:
        return None, None, 'result has format %s' % getattr(A, 'format', type(A).__name__)
    D = A.toarray()
    return D, D.tobytes(), None


def blocked_view(P, D, cfg):
    """bring a result to the blocked layout with the spec's permutation: packed[I,J] = blocked[prow[I], pcol[J]]"""
    if not P.vec or cfg['lay'] == 'blocked':
        return D
    prow, pcol = np.array(P.prob['prow']), np.array(P.prob['pcol'])
    B = np.zeros_like(D)
    B[np.ix_(prow, pcol)] = D
    return B


def expected_mask(P):
    """structure of the operator in blocked layout from the spec's nonzero list"""
    M, N = P.prob['M'], P.prob['N']
    nz = np.array(P.prob['nz'])
    base = np.zeros((M, N), dtype=bool)
    base[nz[:, 0], nz[:, 1]] = True
    if not P.vec:
        return base
    return np.kron(np.ones((P.nc1, P.nc0), dtype=bool), base)


def sha(b):
    return hashlib.sha1(b).hexdigest()


# ----------------------------------------------------------------------------------------------------------

def check_problem(P, job):
    import pyiga
    from pyiga import assemble
    prob = P.prob
    threads = prob['threads']
    reps = job.get('reps', 20)
    digest_only = job.get('digest_only', False)
    det = {'form': P.form, 'codes': prob['codes'], 'comps': [P.nc0, P.nc1]}

    # the fixed operator: fresh object, one thread, unsymmetric, csr, blocked (for vector forms, should that path
    # raise, the packed/bsr path through the spec's permutation, so that the other configurations are still judged)
    pyiga.set_max_threads(1)
    ref = None
    for rcfg in [dict(sym=False, fmt='csr', lay='blocked')] + ([dict(sym=False, fmt='bsr', lay='packed')] if P.vec else []):
        try:
            A = assemble.assemble_entries(P.make(), symmetric=False, format=rcfg['fmt'], layout=rcfg['lay'])
            ref = blocked_view(P, A.toarray(), rcfg)
            break
        except Exception as ex:
            OUT.exception(ex, path_of(P, rcfg), dict(det, cfg=rcfg, what='reference'))
    if ref is None:
        return
    scale = max(1.0, float(abs(ref).max()))
    mask = expected_mask(P)
    if ref.shape != mask.shape or np.any(ref[~mask] != 0.0):
        OUT.violation('structure reference outside the spec structure %s' % P.ident, det)
    if P.F['sym'] and abs(ref - ref.T).max() > TOL * scale:
        OUT.violation('reference-not-symmetric %s' % P.ident, det)

    try:
        asm = P.make()          # ONE object reused for every configuration, thread count and repetition
    except Exception as ex:
        OUT.exception(ex, 'instantiate', det)
        return

    for cfg in prob['cfgs']:
        if cfg['sym'] and not P.F['sym']:
            continue
        path = path_of(P, cfg)
        # signature: the code path (entries | bsr | kernel + layout), not the output format derived from it
        cid = 'sym=%s path=%s%s' % (cfg['sym'], path, '/' + cfg['lay'] if path == 'kernel' else '')
        cdet = dict(det, cfg=cfg)
        key = P.key + (cfg['sym'], cfg['fmt'], cfg['lay'])
        first = None
        ok = True
        t0 = int(job.get('pool', 16))                           # the pool is created by the first parallel call
        order = [t0] + [t for t in threads if t != t0]
        for t in (order if not digest_only else [t for t in order if t in (1, 2, 3, 16)]):
            pyiga.set_max_threads(t)
            try:
                A = assemble.assemble_entries(asm, symmetric=cfg['sym'], format=cfg['fmt'], layout=cfg['lay'])
            except Exception as ex:
                OUT.exception(ex, path, cdet)
                ok = False
                break
            D, raw, err = to_dense(A, cfg)
            if err:
                OUT.violation('wrong-format %s %s' % (P.ident, cid), dict(cdet, error=err))
                ok = False
                break
            if first is None:
                first = raw
                B = blocked_view(P, D, cfg)
                if B.shape != ref.shape or abs(B - ref).max() > TOL * scale:
                    OUT.violation('mismatch-vs-reference %s %s' % (P.ident, cid),
                                  dict(cdet, maxdiff=float(abs(B - ref).max()) if B.shape == ref.shape else 'shape'))
                    ok = False
                if B.shape == mask.shape and np.any(B[~mask] != 0.0):
                    OUT.violation('structure %s %s' % (P.ident, cid), cdet)
                    ok = False
            elif raw != first:
                OUT.violation('not-bitwise-across-threads %s %s' % (P.ident, cid), dict(cdet, threads=t))
                ok = False
                break
        if ok and not digest_only:
            pyiga.set_max_threads(16)
            for r in range(reps):
                A = assemble.assemble_entries(asm, symmetric=cfg['sym'], format=cfg['fmt'], layout=cfg['lay'])
                if to_dense(A, cfg)[1] != first:
                    OUT.violation('not-bitwise-across-repetitions %s %s' % (P.ident, cid), dict(cdet, repetition=r))
                    break
        if first is not None:
            OUT.digests[json.dumps(key)] = sha(first)
        OUT.case(list(key), nontrivial=True,
                 sample={'form': P.form, 'kvs': prob['codes'], 'comps': [P.nc0, P.nc1], 'cfg': cfg,
                         'threads': '1..16', 'reps@16': reps})
    if digest_only:
        return
    check_subsets(P, asm, ref, scale, det)
    check_wrapper(P, ref, scale, det)


def block_ref(P, ref, I, J):
    """flat block (row-major, nc1 x nc0) of the blocked reference at block position (I, J)"""
    M, N = P.prob['M'], P.prob['N']
    return np.array([[ref[r * M + I, c * N + J] for c in range(P.nc0)] for r in range(P.nc1)]).ravel()


def check_subsets(P, asm, ref, scale, det):
    """selected entries / blocks / rows: the same numbers as in the full operator, for every chunking"""
    import pyiga
    prob = P.prob
    lists = [('nz', prob['nz']), ('nzl', prob['nzl'])]
    lists += [('subset%d' % n, s) for n, s in enumerate(prob['subsets'])]
    lists += [('rows%s' % (rs['R'][:4],), rs['ij']) for rs in prob['rowsets']]
    for name, ij in lists:
        if not ij:
            continue
        ij = np.array(ij, dtype=np.uintp)
        sdet = dict(det, subset=name, n=len(ij))
        base = None
        for t in (16, 1, 2, 3, 5, 7, 16):
            pyiga.set_max_threads(t)
            try:
                if P.vec:
                    got = np.asarray(asm.multi_blocks(ij)).reshape(len(ij), -1)
                else:
                    got = np.asarray(asm.multi_entries(ij))
            except Exception as ex:
                OUT.exception(ex, 'multi_blocks' if P.vec else 'multi_entries', sdet)
                base = None
                break
            if base is None:
                base = got.copy()
                if P.vec:
                    want = np.array([block_ref(P, ref, int(i), int(j)) for i, j in ij])
                else:
                    want = ref[ij[:, 0].astype(int), ij[:, 1].astype(int)]
                if got.shape != want.shape or abs(got - want).max() > TOL * scale:
                    OUT.violation('subset-mismatch %s' % P.ident, dict(sdet, threads=t))
                    break
            elif got.tobytes() != base.tobytes():
                OUT.violation('subset-not-bitwise-across-threads %s' % P.ident, dict(sdet, threads=t))
                break
        OUT.case(list(P.key) + ['subset', name], nontrivial=len(ij) > 1)
    # single entries of scalar assemblers
    if not P.vec:
        for i, j in prob['subsets'][0][:6]:
            v = asm.entry(i, j)
            if abs(v - ref[i, j]) > TOL * scale:
                OUT.violation('entry-mismatch %s' % P.ident, dict(det, ij=[i, j]))


def check_wrapper(P, ref, scale, det):
    """the Assembler wrapper: repeated assemble() on one object, other formats in between"""
    import pyiga
    from pyiga import assemble
    pyiga.set_max_threads(4)
    for sym in ([False, True] if P.F['sym'] else [False]):
        try:
            W = assemble.Assembler(P.problem_arg(), P.kvs, args=dict(P.args), bfuns=P.F.get('bfuns'), symmetric=sym,
                                   updatable=P.F.get('updatable', []))
            A1 = W.assemble()
            W.assemble(format='csc', layout='packed')
            A2 = W.assemble()
            A3 = W.assemble(format='coo')
        except Exception as ex:
            OUT.exception(ex, 'entries' if not P.vec else 'kernel', dict(det, via='Assembler', sym=sym))
            continue
        d1, d2, d3 = A1.toarray(), A2.toarray(), A3.toarray()
        if d1.tobytes() != d2.tobytes() or d1.tobytes() != d3.tobytes():
            OUT.violation('Assembler-repeated-assemble-differs %s sym=%s' % (P.ident, sym), det)
        if abs(d1 - ref).max() > TOL * scale:
            OUT.violation('Assembler-mismatch-vs-reference %s sym=%s' % (P.ident, sym), det)
        OUT.case(list(P.key) + ['Assembler', sym])
    # documented: assemble() accepts an assembler object (kvs and args are then ignored)
    try:
        A = assemble.assemble(P.make(), P.kvs)
        if abs(A.toarray() - ref).max() > TOL * scale:
            OUT.violation('assemble(assembler-object)-mismatch %s' % P.ident, det)
    except Exception as ex:
        OUT.exception(ex, 'assemble(assembler-object)', det)


def check_anchor(P):
    """the fixed operator itself: mass matrix on the identity geometry = Kronecker product of 1-D mass matrices"""
    import scipy.sparse
    from pyiga import assemble, geometry
    geo = geometry.unit_square() if P.d == 2 else geometry.unit_cube()
    A = assemble.assemble_entries(P.cls(P.kvs, geo)).toarray()
    K = scipy.sparse.identity(1)
    for kv in P.kvs:
        K = scipy.sparse.kron(K, assemble.bsp_mass_1d(kv))
    if abs(A - K.toarray()).max() > 1e-13:
        OUT.violation('anchor mass != kron(1-D mass) d=%d' % P.d, {'codes': P.prob['codes']})
    OUT.case(list(P.key) + ['anchor'])


def check_functional(P):
    """shipped linear functionals (arity 1): assemble_vector == multi_entries == entry1, whatever the options/threads"""
    import pyiga
    from pyiga import assemble, assemblers
    cls = getattr(assemblers, 'L2FunctionalAssembler%dD' % P.d)
    f = field_f(P.d, 1)
    det = {'form': cls.__name__, 'codes': P.prob['codes']}
    try:
        pyiga.set_max_threads(1)
        asm = cls(P.kvs, P.geo, f)
        ref = np.asarray(assemble.assemble_entries(asm))
        shape = tuple(kv.numdofs for kv in P.kvs)
        if ref.shape != shape:
            OUT.violation('functional-shape d=%d' % P.d, dict(det, shape=list(ref.shape)))
            return
        N = int(np.prod(shape))
        for t in (16, 2, 1):
            pyiga.set_max_threads(t)
            for kw in (dict(), dict(symmetric=True, format='csc', layout='packed')):
                v = np.asarray(assemble.assemble_entries(asm, **kw))
                if v.tobytes() != ref.tobytes():
                    OUT.violation('functional-differs d=%d' % P.d, dict(det, threads=t, options=kw))
            w = np.asarray(asm.multi_entries(np.arange(N)))
            if w.tobytes() != ref.ravel().tobytes():
                OUT.violation('functional-multi_entries-differs d=%d' % P.d, dict(det, threads=t))
        for rs in P.prob['rowsets']:
            R = np.array(rs['R'], dtype=np.uintp)
            w = np.asarray(asm.multi_entries(R))
            if w.tobytes() != ref.ravel()[R.astype(int)].tobytes():
                OUT.violation('functional-subset-differs d=%d' % P.d, dict(det, rows=rs['R'][:8]))
        if abs(asm.entry1(N - 1) - ref.ravel()[N - 1]) != 0.0:
            OUT.violation('functional-entry1-differs d=%d' % P.d, det)
        v2 = np.asarray(assemble.assemble(cls, P.kvs, geo=P.geo, f=f))
        if v2.tobytes() != ref.tobytes():
            OUT.violation('functional-fresh-differs d=%d' % P.d, det)
    except Exception as ex:
        OUT.exception(ex, 'functional', det)
    OUT.case(['functional', P.d, P.prob['codes']])


# ----------------------------------------------------------------------------------------------------------
# thorough: update sequences, on-demand bounding boxes

def check_updates(P, hists):
    """HIST records: op 'f' -> update(f=...), 'c' -> update_params(c=...), 'asm' -> assemble(); expected = fresh(f, c)"""
    import pyiga
    from pyiga import assemble
    pyiga.set_max_threads(3)
    fresh = {}

    def fresh_op(fv, cv):
        if (fv, cv) not in fresh:
            W = assemble.Assembler(P.F['expr'], P.kvs, geo=P.geo, f=P.field(fv), c=PARAM_C[cv],
                                   bfuns=P.F['bfuns'], updatable=['f'])
            fresh[(fv, cv)] = W.assemble().toarray()
        return fresh[(fv, cv)]

    class MutableField:
        """ONE field object whose content the caller changes in place between the steps (a time-stepping loop that keeps
        its coefficient object): a plain callable with a version attribute, or a spline whose coefficient array is
        overwritten"""
        def __init__(self):
            self.obj = P.field(0)
            if not hasattr(self.obj, 'coeffs'):
                outer = self

                class F:
                    v = 0

                    def __call__(self_, *X):
                        return P.field(self_.v)(*X)
                self.obj = F()

        def set(self, v):
            if hasattr(self.obj, 'coeffs'):
                self.obj.coeffs[...] = P.field(v).coeffs
            else:
                self.obj.v = v
            return self.obj

    for n, hist in enumerate(hists):
        ops = [(h['op'], h['v']) for h in hist]
        aliased = n % 3 == 1          # every third history passes the SAME object again after changing it in place
        det = {'form': P.form, 'ops': ops, 'same_field_object_modified_in_place': aliased}
        try:
            mf = MutableField() if aliased else None
            field = (lambda v: mf.set(v)) if aliased else P.field
            W = assemble.Assembler(P.F['expr'], P.kvs, geo=P.geo, f=field(0), c=PARAM_C[0],
                                   bfuns=P.F['bfuns'], updatable=['f'])
            pending = {}
            for step, h in enumerate(hist):
                if h['op'] == 'f':
                    if (n + step) % 2 == 0:
                        pending = {}                             # superseded before it was ever passed on
                        W.update(f=field(h['v']))
                    else:
                        pending['f'] = field(h['v'])        # passed to the next assemble(**upd_fields)
                elif h['op'] == 'c':
                    W.asm.update_params(c=PARAM_C[h['v']])
                else:
                    A = W.assemble(**pending).toarray()
                    pending = {}
                    want = fresh_op(h['f'], h['c'])
                    sc = max(1.0, abs(want).max())
                    if abs(A - want).max() > TOL * sc:
                        OUT.violation('update-sequence-mismatch form=%s%s ops=%s' % (
                            P.form, ' same-object-modified-in-place' if aliased else '', ops[:step + 1]),
                                      dict(det, step=step, maxdiff=float(abs(A - want).max())))
                        break
        except Exception as ex:
            OUT.exception(ex, 'update', det)
        OUT.case(['upd', P.form] + [list(o) for o in ops], nontrivial=len(ops) >= 2,
                 sample={'form': P.form, 'ops': ops} if n == len(hists) // 2 else None)


def check_bboxes(prob):
    """on-demand assembler restricted to a bounding box of cells: rows of the functions supported inside"""
    import pyiga
    from pyiga import assemble, assemblers, bspline, compile as pcompile, vform
    d = prob['d']
    kvs = tuple(bspline.KnotVector(np.array(k['knots'], dtype=float) / 4.0, int(k['p'])) for k in prob['kvs'])
    geo = geometry_for(d)
    det = {'codes': prob['codes']}
    try:
        cls = pcompile.compile_vform(vform.stiffness_vf(d), on_demand=True)
        pyiga.set_max_threads(1)
        ref = assemble.assemble_entries(assemblers.StiffnessAssembler2D(kvs, geo)).toarray()
    except Exception as ex:
        OUT.exception(ex, 'on-demand-compile', det)
        return
    scale = max(1.0, abs(ref).max())
    for bb in prob['bboxes']:
        if not bb['ij']:
            continue
        ij = np.array(bb['ij'], dtype=np.uintp)
        bdet = dict(det, bbox=bb['bb'], nrows=len(bb['rows']))
        base = None
        for t in (1, 4, 16):
            pyiga.set_max_threads(t)
            try:
                asm = cls(kvs, geo, bbox=tuple(tuple(x) for x in bb['bb']))
                got = np.asarray(asm.multi_entries(ij))
            except Exception as ex:
                OUT.exception(ex, 'on-demand', bdet)
                break
            want = ref[ij[:, 0].astype(int), ij[:, 1].astype(int)]
            if abs(got - want).max() > TOL * scale:
                OUT.violation('bbox-mismatch d=%d' % d, dict(bdet, threads=t, maxdiff=float(abs(got - want).max())))
                break
            if base is None:
                base = got.tobytes()
            elif base != got.tobytes():
                OUT.violation('bbox-not-bitwise-across-threads d=%d' % d, dict(bdet, threads=t))
                break
        OUT.case(['bbox', prob['codes'], bb['bb']], nontrivial=len(bb['rows']) > 1,
                 sample={'kvs': prob['codes'], 'bbox': bb['bb'], 'rows': len(bb['rows'])})


# ----------------------------------------------------------------------------------------------------------

def main():
    job = json.load(open(sys.argv[1]))
    sys.path.insert(0, os.environ.get('PYIGA_REPO', '/repo'))
    import pyiga
    pyiga.set_max_threads(int(job.get('pool', 16)))
    tier = job.get('tier', 'quick')
    anchored = set()
    for prob in job['probs']:
        for form in forms_for(prob, tier, job.get('forms')):
            try:
                P = Problem(prob, form)
            except Exception as ex:
                OUT.exception(ex, 'setup', {'form': form, 'codes': prob['codes']})
                continue
            try:
                if job.get('updates_only'):
                    check_updates(P, job['hists'])
                    continue
                check_problem(P, job)
                if form == 'mass' and not job.get('digest_only'):
                    check_functional(P)
                    if P.d not in anchored:
                        anchored.add(P.d)
                        check_anchor(P)
                if job.get('hists') and FORMS[form].get('params') and not job.get('digest_only'):
                    check_updates(P, job['hists'])
            except Exception as ex:       # e.g. a result of unexpected type/shape: the real code's fault, not ours
                OUT.exception(ex, 'worker', {'form': form, 'codes': prob['codes']})
        if job.get('bboxes') and prob['nc0'] == 0 and prob['d'] == 2:
            try:
                check_bboxes(prob)
            except Exception as ex:
                OUT.exception(ex, 'worker', {'codes': prob['codes'], 'what': 'bboxes'})
    json.dump({'cases': OUT.cases, 'violations': OUT.violations, 'skips': OUT.skips, 'digests': OUT.digests},
              open(sys.argv[2], 'w'), default=str)


if __name__ == '__main__':
    main()
