"""Subprocess worker for C02: calls of the real code that read out of range by design of the input
(active_deriv / collocation_derivs with derivative order > p) and may therefore kill the interpreter.

usage: python c02_worker.py jobs.json out.jsonl
jobs: [{"id":.., "kind": "hi", "p":.., "kv":[..], "U":[floats], "nd": numderiv}          numderiv > p
       {"id":.., "kind": "splev", "p":.., "kv":[..], "U":[..], "sub": [i..], "ks": [k..]}]  ev/deriv (scipy FITPACK)
For every job one line {"start": id} is written (and flushed) BEFORE the calls and one result line after them, so
that the parent can tell which job crashed."""
import json
import sys

import numpy as np


def main():
    jobs = json.load(open(sys.argv[1]))
    out = open(sys.argv[2], 'a')
    from pyiga import bspline

    def put(obj):
        out.write(json.dumps(obj) + '\n')
        out.flush()

    for job in jobs:
        put({'start': job['id']})
        try:
            kv = bspline.KnotVector(np.array(job['kv'], dtype=float), job['p'])
            U = np.array(job['U'], dtype=float)
            if job.get('kind') == 'splev':
                n = kv.numdofs
                res = {}
                for k in job['ks']:
                    cols = []
                    for i in job['sub']:
                        c = np.zeros(n)
                        c[i] = 1.0
                        cols.append(bspline.ev(kv, c, U) if k == 0 else bspline.deriv(kv, c, k, U))
                    res[str(k)] = np.stack(cols, axis=1).tolist()
                put({'id': job['id'], 'dv': res})
                continue
            nd = job['nd']
            arr = np.asarray(bspline.active_deriv(kv, U, nd)).copy()                 # (nd+1, p+1, n)
            sc = np.stack([np.asarray(bspline.active_deriv(kv, float(u), nd)).copy() for u in U], axis=-1)
            cd = bspline.collocation_derivs(kv, U, derivs=nd)
            cd = np.stack([X.toarray() for X in cd])                                   # (nd+1, n, ndofs)
            idx, vals = bspline.collocation_derivs_info(kv, U, derivs=nd)
            put({'id': job['id'], 'arr': arr.tolist(), 'sc': sc.tolist(), 'cd': cd.tolist(),
                 'idx': np.asarray(idx).tolist(), 'info': np.asarray(vals).tolist()})
        except Exception as ex:        # a clean Python exception is a verdict too
            put({'id': job['id'], 'exc': '%s: %s' % (type(ex).__name__, ex)})
    put({'done': True})


if __name__ == '__main__':
    main()
