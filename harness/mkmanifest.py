"""Regenerate /verif/MANIFEST.json from the table below (single source of truth for what is claimed).
Usage: /venv/bin/python -m harness.mkmanifest"""
import json
import subprocess
from pathlib import Path

VERIF = Path(__file__).resolve().parents[1]

# property -> dict(text, note, technique, design_ref) ; only properties whose check passes on the
# unchanged tree are listed in CLAIMED.
CLAIMED = {
    'C14': dict(
        text='TLC explores every bounded history of interface joins (all orders, repetitions, reflected patches -> flips, '
             '2-D lattices, rings around a vertex, 3-D) of spec/Multipatch.tla and checks closure = numbering, gap-freeness '
             'and consistency of the code-shaped state in every reachable state; every Finalize transition is replayed on the '
             'real Multipatch and compared at partition level; detect_interfaces and a conforming-decomposition system '
             'comparison are bound to the same complexes. Exhaustive within the stated bounds, which is what an order/'
             'history property needs.',
        note='Bounded complexes (<= 6 patches 2-D, <= 4 patches 3-D, degree <= 2, one span per patch); only reflections as '
             'orientation changes; assembled-system equality is numeric (1e-10). The pre-fix join loop is kept as negative control.',
        technique='TLA+ state machine (Multipatch.tla) + TLC exhaustive exploration + replay of every terminal behaviour into the real code',
        design_ref='3 C14'),
    'C20': dict(
        text='spec/CompileCache.tla models the cache protocol with one action per linearisation point, <= 3 processes, 2 sources, '
             'Crash enabled in every program counter; TLC checks NoPartialVisible, NoInterpreterDeath, NoFailedRequest, '
             'LoadedRight, NoOverwrite and Recovery (liveness under weak fairness), and the pre-fix in-place protocol violates '
             'them (negative control). Bound to the code in both directions: every spec crash point is produced for real '
             '(SIGKILL at the hook of that point, SIGKILL of the process group when inotify reports an in-place write, prefixes/'
             'garbage of files observed to be written in place, random-time kills) followed by a request in a fresh '
             'interpreter; per-process hook traces of real races (2..16 processes) are validated by spec/CompileTrace.tla.',
        note='SIGKILL stands for power loss (no fsync modelling); dlopen of a truncated ELF is observed, not modelled; real '
             'schedules of the races are whatever the OS produces (validated, not enumerated); one 1-D form family.',
        technique='TLA+ protocol model + TLC (safety, liveness, negative control) + real crash injection at every modelled crash point + TLC trace validation of hook events from real concurrent compilations',
        design_ref='3 C20'),
    'C13': dict(
        text='spec/VFormCache.tla is the in-process cache as a state machine (pre-seeded shipped assemblers, key lookup per '
             'mode); TLC checks Sound/Functional over all request sequences on an abstract one-token-mutant universe (pre-fix '
             'key and mode-less key as negative controls) and, instantiated with key/source classes measured on the real code '
             '(vf.hash(), compile.generate per mode, shipped freshness), over all sequences of length <= 2 (3 thorough) of an '
             '85-form universe covering every attribute the property names; every behaviour with a cache hit is replayed on '
             'the real compile_vform (C compiler stubbed); shipped assemblers/genericasm.pxi are regenerated and compared; '
             'source -> module name is checked functional, injective and stable across PYTHONHASHSEED values.',
        note='Universe is the finite list in harness/forms.py; the identity of an assembler is its generated source up to '
             'numbering of temporaries and order of statements inside a function (the generator itself is nondeterministic '
             'in that respect); the C compiler is stubbed in replay (the disk half is C20).',
        technique='TLA+ cache state machine (VFormCache.tla) checked by TLC on abstract and measured key/source tables + replay of TLC behaviours into the real compile_vform',
        design_ref='3 C13'),
    'C04': dict(
        text='spec/HSpace.tla has the declarative characterisation (refinement regions, activation rule, tiling, disparity) '
             'and a code-shaped model of refine(); TLC checks FunChar, Disjoint, Nested, Tiling, DisparityOK, LevelsOK on every '
             'state reachable by <= 3 calls over all admissible mark families (1-D exhaustive, 2-D 2x2 with <= 2 marked cells or '
             'a whole level per call), disparity 1/2/inf, both marking modes. Every distinct reachable state is replayed on the '
             'real HSpace (marks as set/list/tuple), the recorded events are validated by spec/HSpaceTrace.tla at property '
             'level, and canonical order, incidence matrix and compute_supports are compared with the spec; spec/HRepr.tla '
             'adds the exact HB/THB representation matrices (linear independence, THB partition of unity/non-negativity, '
             'HB<->THB transforms). Thorough also validates refine events recorded from the repository tests.',
        note='Uniform dyadic refinement of open knot vectors with simple interior knots, degrees <= 4, <= 4 levels, 1-D and 2-D '
             '(no 3-D); DisparityOK is stated for the default marking only; an admissible closure different from the model is '
             'accepted (reported as a note).',
        technique='TLA+ state machine (HSpace.tla) + TLC exhaustive exploration + replay of one history per reachable state + TLC trace validation (HSpaceTrace.tla) of recorded refine events',
        design_ref='3 C04'),
    'C05': dict(
        text='spec/HRepr.tla gives, for every reachable HSpace state (TLC-enumerated histories, 1-D and 2-D, disparity 1/2/inf), '
             'the exact HB and THB representation matrices and two-scale matrices (Boehm insertion in rationals; THB partition of '
             'unity, non-negativity, rank checked by TLC); spec/KnotInsertCases.tla enumerates nested knot-vector pairs (repeated '
             'knots, coinciding insertions) and TLC checks that the exact matrix preserves every basis function. The code is bound '
             'by property-level identities with its own matrix in the middle: knot_insertion/prolongation == exact; '
             'Repr(fine)*prolongate_to == TPProlong*Repr(coarse); Repr*composed virtual prolongators == TPProlong and spans of '
             'intermediate levels; HSplineFunc values/Jacobians/Hessians == TP spline of Repr*u; boundary() traces.',
        note='Uniform dyadic hierarchies, degrees <= 3 (4 thorough), <= 4 levels, 1-D/2-D; knot vectors with integer breakpoints '
             '<= 6, degree <= 4; tensor-product evaluation on the finest level is trusted here (decided by C02); column-space '
             'equality by floating-point rank (tol 1e-9) on exact-rational references.',
        technique='TLA+ exact rational reference (HRepr.tla, KnotInsertCases.tla over Rat/BSplineRef) enumerated by TLC + function-preservation identities checked on the real matrices for every TLC-generated state',
        design_ref='3 C05'),
    'C02': dict(
        text='spec/BSplineRef.tla is an exact (rational) Cox-de Boor reference; spec/BSplineEval.tla enumerates open knot vectors '
             '(integer breakpoints, all interior multiplicities) x points (breakpoints, ends, mid/quarter points) x derivative '
             'orders 0..p+2 and TLC checks non-negativity, partition of unity, derivative sums, locality, left limits and a '
             'code-shaped exact model of the active_deriv kernel (mutant as negative control); FindSpanPC.tla is a PlusCal '
             'transcription of pyx_findspan checked against the declarative span; BSplineTP.tla covers tensor products. Every '
             'emitted case is replayed through every evaluation route of the real code.',
        note='Exact reference for p <= 3 (thorough 5), integer breakpoints 0..4 (0..6); comparison |x-q| <= 1e-11*max(1,|q|,row scale); '
             'p = 6..12 and span ratios up to 2^40 only by invariants (sum to one, derivative sums, sign, route agreement). '
             'Trusted base: TLC, Rat.tla, float(Fraction).',
        technique='TLA+ exact rational reference + PlusCal transcription of the span search, enumerated by TLC; every case replayed through all evaluation routes of the real code',
        design_ref='3 C02'),
    'C09': dict(
        text='spec/Galerkin1D.tla computes the exact integrals of products of B-spline derivatives (Taylor pieces integrated '
             'monomial by monomial, two spaces, weights, custom grids), Kronecker mass/stiffness/div-div and load vectors; '
             'spec/GalerkinEval.tla lets TLC check symmetry, sum M = |Omega|, K 1 = 0, rank K = n-1, integration by parts, grid '
             'independence and A(kv1,kv2) = A(kv2,kv2) Prolong on every enumerated case; every case is replayed through all '
             'assembling routes (1-D routines, mass/stiffness/divdiv with geo=None/identity/affine, assemble/Assembler with the '
             'shipped classes, inner_products, integrate, load_vector, fast assemblers).',
        note='Degrees <= 3 (4 thorough), integer breakpoints; affine geometries only (exactness of the quadrature rule each routine '
             'selects); tolerance 1e-10*max|entry| (fast assemblers 3e-10); positive definiteness numerically; nothing is compiled.',
        technique='TLA+ exact rational reference of the Galerkin integrals enumerated and cross-checked by TLC + replay of every case through all assembling routes',
        design_ref='3 C09'),
}

NOT_BUILT = 'specification module not built yet (see DESIGN.md section 6); not claimed with a weaker technique'

NA_REASON = {}


def hook_commits():
    try:
        out = subprocess.run(['git', '-C', '/repo', 'log', '--format=%H %s'], capture_output=True, text=True).stdout
    except Exception:
        return []
    return [l.split()[0] for l in out.splitlines() if ' hook:' in l or l.split(' ', 1)[1].startswith('hook')]


def main():
    props = [json.loads(l)['id'] for l in (VERIF / 'properties.jsonl').read_text().splitlines() if l.strip()]
    checks = []
    for pid in props:
        c = CLAIMED.get(pid)
        if not c:
            continue
        checks.append({
            'property_id': pid,
            'quick_cmd': './check %s --tier quick' % pid,
            'thorough_cmd': './check %s --tier thorough' % pid,
            'evidence_file': 'evidence/%s.json' % pid,
            'replay_cmd_template': './check %s --replay {path}' % pid,
            'engine': 'tlc+conformance',
            'level_claimed': {'category': 'model_checking', 'text': c['text'], 'design_ref': c.get('design_ref', '')},
            'level_note': c['note'],
            'technique': c['technique'],
        })
    na = [{'property_id': pid, 'reason': NA_REASON.get(pid, NOT_BUILT)} for pid in props if pid not in CLAIMED]
    man = {
        'version': 1,
        'setup_cmd': 'cd /repo && /venv/bin/python setup.py build_ext -i -q && cd /verif && ./check --selfcheck',
        'hooks': {
            'guard': 'PYIGA_VERIF',
            'enable': 'export PYIGA_VERIF=1 (runtime guard read by pyiga/_verif.py; no rebuild needed); '
                      'PYIGA_VERIF_TRACE=<file> receives one JSON event per line',
            'baseline_off_cmd': 'cd /repo && env -u PYIGA_VERIF /venv/bin/python -m pytest -ra -q -p no:cacheprovider --timeout=900 --continue-on-collection-errors',
            'source_commits': hook_commits(),
            'add_only': True,
        },
        'engines': [{
            'name': 'tlc+conformance', 'path': 'check',
            'serves_properties': [c['property_id'] for c in checks],
            'kind_free_text': 'explicit TLA+ specifications under spec/ checked by TLC 1.8; behaviours/cases generated by TLC '
                              'are replayed into the real pyiga code (M1) and events recorded from the real code are validated '
                              'by TLC trace specifications (M2); harness in harness/',
        }],
        'checks': checks,
        'notes': 'One entry point: ./check <id> --tier quick|thorough. Exit 0 held / 1 VIOLATION / 2 machinery failure. '
                 'known_findings.json lists recorded genuine defects (KNOWN-FINDING lines) and fixed ones.',
        'not_applicable': na,
    }
    (VERIF / 'MANIFEST.json').write_text(json.dumps(man, indent=1) + '\n')
    print('claimed:', [c['property_id'] for c in checks])


if __name__ == '__main__':
    main()
