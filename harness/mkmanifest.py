"""Regenerate /verif/MANIFEST.json from the table below (single source of truth for what is claimed).
Usage: /venv/bin/python -m harness.mkmanifest"""
import json
import subprocess
from pathlib import Path

VERIF = Path(__file__).resolve().parents[1]

# property -> dict(text, note, technique, design_ref) ; only properties whose check passes on the
# unchanged tree are listed in CLAIMED.
CLAIMED = {
    'C14': dict(
        text='TLC explores every bounded history of interface joins (all orders, repetitions, reflected patches -> flips, '
             '2-D lattices, rings around a vertex, 3-D) of spec/Multipatch.tla and checks closure = numbering, gap-freeness '
             'and consistency of the code-shaped state in every reachable state; every Finalize transition is replayed on the '
             'real Multipatch and compared at partition level; detect_interfaces and a conforming-decomposition system '
             'comparison are bound to the same complexes. Exhaustive within the stated bounds, which is what an order/'
             'history property needs. The 3x2 lattice of degree 2 (an interface between two interior cross points, with interior '
             'interface dofs) is explored by 1000 random walks of TLC (-simulate) in the quick tier and breadth-first over all '
             '13700 join histories in the thorough tier.',
        note='Bounded complexes (lattices <= 6 patches 2-D / <= 4 patches 3-D, vertex rings, closed bands where two patches share two faces; degree <= 2, one span per patch); finalize and numbering queries also BETWEEN the joins; only reflections as '
             'orientation changes; assembled-system equality is numeric (1e-10). The pre-fix join loop is kept as negative control.',
        technique='TLA+ state machine (Multipatch.tla) + TLC exhaustive exploration + replay of every terminal behaviour into the real code',
        design_ref='3 C14'),
    'C20': dict(
        text='spec/CompileCache.tla models the cache protocol with one action per linearisation point, <= 3 processes, 2 sources, '
             'Crash enabled in every program counter; TLC checks NoPartialVisible, NoInterpreterDeath, NoFailedRequest, '
             'LoadedRight, NoOverwrite and Recovery (liveness under weak fairness), and the pre-fix in-place protocol violates '
             'them (negative control). Bound to the code in both directions: every spec crash point is produced for real '
             '(SIGKILL at the hook of that point, SIGKILL of the process group when inotify reports an in-place write, prefixes/'
             'garbage of files observed to be written in place, random-time kills) followed by a request in a fresh '
             'interpreter; per-process hook traces of real races (2..16 processes) are validated by spec/CompileTrace.tla. '
             'The action ToolFails (a build tool is killed while the interpreter lives on) is produced for real by killing '
             'cc1 / ld below the requesting process. spec/CompileCacheProof.tla (EXTENDS CompileCache) proves the safety '
             'properties with TLAPS for ANY number of processes, digests, crashes and requests (inductive invariant IndInv, '
             'also checked by TLC on the bounded model).',
        note='SIGKILL stands for power loss (no fsync modelling); dlopen of a truncated ELF is observed, not modelled; real '
             'schedules of the races are whatever the OS produces (validated, not enumerated); one 1-D form family.',
        technique='TLA+ protocol model + TLC (safety, liveness, negative control) + TLAPS proof of the safety invariants for any number of processes + real crash injection at every modelled crash point + TLC trace validation of hook events from real concurrent compilations',
        design_ref='3 C20'),
    'C13': dict(
        text='spec/VFormCache.tla is the in-process cache as a state machine (pre-seeded shipped assemblers, key lookup per '
             'mode); TLC checks Sound/Functional over all request sequences on an abstract one-token-mutant universe (pre-fix '
             'key and mode-less key as negative controls) and, instantiated with key/source classes measured on the real code '
             '(vf.hash(), compile.generate per mode, shipped freshness), over all sequences of length <= 2 (3 thorough) of an '
             '95-form universe covering every attribute the property names; every behaviour with a cache hit is replayed on '
             'the real compile_vform (C compiler stubbed); shipped assemblers/genericasm.pxi are regenerated and compared; '
             'source -> module name is checked functional, injective and stable across PYTHONHASHSEED values.',
        note='Universe is the finite list in harness/forms.py; the identity of an assembler is its generated source up to '
             'numbering of temporaries and order of statements inside a function (the generator itself is nondeterministic '
             'in that respect); the C compiler is stubbed in replay (the disk half is C20).',
        technique='TLA+ cache state machine (VFormCache.tla) checked by TLC on abstract and measured key/source tables + replay of TLC behaviours into the real compile_vform',
        design_ref='3 C13'),
    'C04': dict(
        text='spec/HSpace.tla has the declarative characterisation (refinement regions, activation rule, tiling, disparity) '
             'and a code-shaped model of refine(); TLC checks FunChar, Disjoint, Nested, Tiling, DisparityOK, LevelsOK on every '
             'state reachable by <= 3 calls over all admissible mark families (1-D exhaustive, 2-D 2x2 with <= 2 marked cells or '
             'a whole level per call), disparity 1/2/inf, both marking modes. Every distinct reachable state is replayed on the '
             'real HSpace (marks as set/list/tuple), the recorded events are validated by spec/HSpaceTrace.tla at property '
             'level, and canonical order, incidence matrix and compute_supports are compared with the spec; spec/HRepr.tla '
             'adds the exact HB/THB representation matrices (linear independence, THB partition of unity/non-negativity, '
             'HB<->THB transforms). Thorough also validates refine events recorded from the repository tests.',
        note='Uniform dyadic refinement of open knot vectors with simple interior knots, degrees <= 4, <= 4 levels, 1-D and 2-D '
             '(no 3-D); DisparityOK is stated for the default marking only; an admissible closure different from the model is '
             'accepted (reported as a note).',
        technique='TLA+ state machine (HSpace.tla) + TLC exhaustive exploration + replay of one history per reachable state + TLC trace validation (HSpaceTrace.tla) of recorded refine events',
        design_ref='3 C04'),
    'C05': dict(
        text='spec/HRepr.tla gives, for every reachable HSpace state (TLC-enumerated histories, 1-D and 2-D, disparity 1/2/inf), '
             'the exact HB and THB representation matrices and two-scale matrices (Boehm insertion in rationals; THB partition of '
             'unity, non-negativity, rank checked by TLC); spec/KnotInsertCases.tla enumerates nested knot-vector pairs (repeated '
             'knots, coinciding insertions) and TLC checks that the exact matrix preserves every basis function. The code is bound '
             'by property-level identities with its own matrix in the middle: knot_insertion/prolongation == exact; '
             'Repr(fine)*prolongate_to == TPProlong*Repr(coarse); Repr*composed virtual prolongators == TPProlong and spans of '
             'intermediate levels; HSplineFunc values/Jacobians/Hessians == TP spline of Repr*u; boundary() traces.',
        note='Uniform dyadic hierarchies, degrees <= 3 (4 thorough), <= 4 levels, 1-D/2-D; knot vectors with integer breakpoints '
             '<= 6, degree <= 4; tensor-product evaluation on the finest level is trusted here (decided by C02); column-space '
             'equality by floating-point rank (tol 1e-9) on exact-rational references.',
        technique='TLA+ exact rational reference (HRepr.tla, KnotInsertCases.tla over Rat/BSplineRef) enumerated by TLC + function-preservation identities checked on the real matrices for every TLC-generated state',
        design_ref='3 C05'),
    'C02': dict(
        text='spec/BSplineRef.tla is an exact (rational) Cox-de Boor reference; spec/BSplineEval.tla enumerates open knot vectors '
             '(integer breakpoints, all interior multiplicities) x points (breakpoints, ends, mid/quarter points) x derivative '
             'orders 0..p+2 and TLC checks non-negativity, partition of unity, derivative sums, locality, left limits and a '
             'code-shaped exact model of the active_deriv kernel (mutant as negative control); FindSpanPC.tla is a PlusCal '
             'transcription of pyx_findspan checked against the declarative span and, as a refinement (AsProved, StepsAsProved), '
             'against spec/FindSpanProof.tla, where the same loop is proved correct for ALL knot vectors with TLAPS; BSplineTP.tla '
             'covers tensor products. Every emitted case is replayed through every evaluation route of the real code.',
        note='Exact reference for p <= 3 (thorough 5), integer breakpoints 0..4 (0..6); comparison |x-q| <= 1e-11*max(1,|q|,row scale); '
             'p = 6..12 and span ratios up to 2^40 only by invariants (sum to one, derivative sums, sign, route agreement). '
             'Trusted base: TLC, Rat.tla, float(Fraction).',
        technique='TLA+ exact rational reference + PlusCal transcription of the span search (TLC; refinement of a TLAPS-proved unbounded version), enumerated by TLC; every case replayed through all evaluation routes of the real code',
        design_ref='3 C02'),
    'C09': dict(
        text='spec/Galerkin1D.tla computes the exact integrals of products of B-spline derivatives (Taylor pieces integrated '
             'monomial by monomial, two spaces, weights, custom grids), Kronecker mass/stiffness/div-div and load vectors; '
             'spec/GalerkinEval.tla lets TLC check symmetry, sum M = |Omega|, K 1 = 0, rank K = n-1, integration by parts, grid '
             'independence and A(kv1,kv2) = A(kv2,kv2) Prolong on every enumerated case; every case is replayed through all '
             'assembling routes (1-D routines, mass/stiffness/divdiv with geo=None/identity/affine, assemble/Assembler with the '
             'shipped classes, inner_products, integrate, load_vector, fast assemblers).',
        note='Degrees <= 3 (4 thorough), integer breakpoints; affine geometries only (exactness of the quadrature rule each routine '
             'selects); tolerance 1e-10*max|entry| (fast assemblers 3e-10); positive definiteness numerically; nothing is compiled.',
        technique='TLA+ exact rational reference of the Galerkin integrals enumerated and cross-checked by TLC + replay of every case through all assembling routes',
        design_ref='3 C09'),
    'C03': dict(
        text='spec/HAssemble.tla (EXTENDS HRepr, INSTANCE Galerkin1D) gives for every TLC-enumerated reachable HSpace state the exact '
             'HB/THB representation matrices and the exact 1-D Galerkin matrices of every level; the expected hierarchical matrix '
             'Repr^T A_fine Repr is formed from these rational pieces and compared entrywise (1e-10) with the real '
             'assemble(problem, hspace), HDiscretization.assemble_matrix/assemble_rhs for mass, stiffness, d_x u v (nonsymmetric), '
             'a coefficient field and a load functional, HB and THB, symmetric=True/False, bdspecs None/[]/faces; the on-demand '
             'assemblers are really compiled.',
        note='Identity geometry on the integer-grid domain; integrands polynomial within the exactness of the quadrature (the '
             'clause about non-polynomial integrands / curved geometry is not decided); 1-D and 2-D, degrees <= 3, <= 4 levels.',
        technique='TLA+ exact rational reference (HAssemble.tla over HRepr/Galerkin1D) for TLC-enumerated refinement histories + entrywise comparison with the real hierarchical assembly',
        design_ref='3 C03'),
    'C10': dict(
        text='spec/Dirichlet.tla enumerates every injective index sequence (n <= 5, all orders, empty..all dofs) x value/rhs/elim_rows/'
             'format modes and TLC checks the elimination property (prescribed values, non-eliminated rows, mutual consistency) on '
             'an exact rational reference and on a code-shaped model (pre-fix R_elim as negative control); every case is replayed on '
             'the real RestrictedLinearSystem. DirichletBC.tla / DirichletMP.tla enumerate faces, flips, names, blocked numbering, '
             'combine_bcs, initial conditions and multipatch conditions (via Multipatch.tla) on 1-3-D spaces with boundary data in '
             'the trace space.',
        note='Affine geometries only; one matrix family per n; quick tier subsamples elim_rows orders for n = 5. Trusted base: TLC/'
             'Rat.tla, the harness Cox-de Boor evaluation defining boundary data, numpy.linalg.solve, Multipatch.tla closure.',
        technique='TLA+ exact reference + code-shaped model enumerated by TLC (all index orders) + replay of every case on the real code',
        design_ref='3 C10'),
    'C19': dict(
        text='spec/KnotVec.tla: PlusCal transcription of pyx_findspan checked against the declarative span (LoopInv, FindSpanOK, '
             'Termination; buggy comparison as negative control; AsProved = the inductive invariant of the unbounded TLAPS proof '
             'spec/FindSpanProof.tla read through a refinement mapping) on all small open knot vectors; queries/refine/eq/derivative '
             'consistency on the reference; the make_knots contract (run-length-encoded multiplicity profile, numdofs, span of '
             'breakpoint) swept for p <= 6, mult <= max(p,1), n <= 2000 over 12 rational/decimal intervals plus random float '
             'intervals; every case replayed exactly on the real KnotVector/make_knots/findspan/Spline.derivative.',
        note='Harness abstraction of the float knot array: np.unique -> profile, end points bitwise, breakpoints within 4*n*ulp; '
             'queries on the quarter-integer grid (p <= 3, 4 thorough); quick tier uses 59 values of n.',
        technique='PlusCal/TLA+ model of span search (TLC, linked to a TLAPS proof for all knot vectors) + declarative knot-vector contract enumerated by TLC, every case replayed on the real code',
        design_ref='3 C19'),
    'C12': dict(
        text='spec/TimeStep.tla transcribes the adaptive controller, the constant-step driver and Newton as state machines with an '
             'adversarial error-ratio alphabet (TLC: TimesIncrease, AcceptIffRatioLeOne, RatioBounds, EndReached, NewtonPost; '
             'liveness under r = C tau^2); spec/RKStage.tla solves the stage equations of rational DIRK/Rosenbrock tableaux exactly; '
             'spec/Tableau.tla + DecLimb.tla evaluate the order conditions (<= order 4) of all 12 shipped tableaux in exact decimal '
             'arithmetic from the real coefficients. Every behaviour/case is replayed on the real code (scripted stepper / F / J).',
        note='Controller replay with scripted stepper (x=0, tol=2^-10), q in {1,2}; stage equations on linear problems n <= 2; '
             'nonlinear problems only within dirk_step\'s Newton tolerance; documented-order table trusted. Known finding: dirk34.',
        technique='TLA+/TLC state machines of controller, Newton and exact stage equations + exact decimal order conditions; replay on the real code',
        design_ref='3 C12'),
    'C11': dict(
        text='spec/Relax.tla: textbook Gauss-Seidel in rationals with two code shapes (TLC: CodeShapesAgree, FixedPoint, per-update '
             'SPD EnergyMonotone), replayed exactly in 7 storage formats; spec/IterDrivers.tla: stopping rules of iterative_solve '
             '(incl. zero initial residual) and twogrid with scripted residuals (ConvergedMeansReduced, NoEarlierStop, LimitReported); '
             'spec/HMarks.tla enumerates 1-D mark histories from which real hierarchical spaces are built for the smoothing-set, '
             'local_mg_step fixed-point/energy and solve_hmultigrid clauses.',
        note='GS on n <= 4 dyadic families; the hierarchical clauses are numeric predicates (1e-9) on spec-generated spaces '
             '(n0=4, <= 3 levels, p <= 3, 1-D and tensorised 2-D) with the Galerkin operator R^T(K+M)R from shipped assemblers; '
             'twogrid\'s maxiter+1 limit convention recorded, not judged.',
        technique='TLA+/TLC models of Gauss-Seidel and the iterative drivers + replay with scripted callbacks; numeric predicates on TLC-generated hierarchical spaces',
        design_ref='3 C11'),
    'C06': dict(
        text='spec/VFormGen.tla is a stack machine over the vform grammar (types scalar / differentiable scalar / vector / matrix) '
             'from which TLC enumerates all well-typed programs to a token bound and samples longer ones; spec/VFormIR.tla gives '
             'every node kind of the library\'s expression DAG its meaning over GF(32749) independently of the library (chain rule '
             'for physical derivatives incl. the geometry-Hessian term and the space-time splitting, measures, normals, tensor '
             'nodes, variables and symmetric Hessian packing; builtin functions uninterpreted) plus the abstract denotation of a '
             'token program with 1-jets for product/quotient rules. For every form TLC checks abstract denotation == raw DAG == '
             'finalized program in K random environments and replays the emission order (precompute, kernel) as a '
             'def-before-use state machine. No compilation.',
        note='Polynomial/rational identity testing with K = 3 (4) random environments over GF(32749) rather than an exhaustive '
             'integer grid; about 1.5k forms per quick run (tens of thousands thorough), not 1e5; dyadic constants only (float '
             'constant folding must be exact); forms the library rejects with an explicit error are not cases.',
        technique='TLA+ grammar state machine (VFormGen.tla) + TLA+ semantics of the IR over GF(p) (VFormIR.tla): TLC evaluates denotation, raw DAG and finalized program exported from the real code and compares',
        design_ref='3 C06'),
    'C01': dict(
        text='spec/VFormGen.tla (Poly = TRUE) generates forms of the polynomial fragment with degree bookkeeping (trial, test, '
             'coefficient degree); spec/VFormSemRat.tla computes the exact entries the form DENOTES: the abstract token semantics '
             '(VFormAbs, the same module C06 uses over GF(p)) instantiated over the ring of polynomials in cell-local parameters '
             'with rational coefficients, B-spline pieces of Galerkin1D/BSplineRef, chain rule for the affine geometry, '
             'monomial-wise integration -- equal to the (p+1)-point Gauss sum for this fragment. Every form goes through the REAL '
             'pipeline (parse_vf, finalize, code generation, Cython/C compiler, import, assemble) in a subprocess and up to 11 '
             'entries per form are compared with the rationals (1e-10); entries of disjoint supports included. The rest of the '
             'grammar (builtin functions, divisions) is covered by build + load + assemble + finiteness.',
        note='Value clause decided for the polynomial fragment on affine geometries (incl. orientation-reversing ones), degrees <= 3, '
             '2-D (3-D in thorough): scalar and vector-valued trial/test functions (blocked layout, non-square component blocks), '
             'two-space Petrov-Galerkin forms (test degree above and below the trial degree), products of non-square matrices, and '
             'boundary integrals with the unit normal on all four sides (assembled one after the other with one args dict). Not '
             'decided by exact values: NURBS/curved geometries, surface integrals on embedded manifolds, 3-D boundary faces; these '
             'are covered by C06 (IR semantics) and C09/C08 (shipped assemblers). About 60 compiled forms per quick run.',
        technique='TLA+ grammar state machine + exact denotational semantics in TLA+ (VFormAbs over a polynomial ring with rational coefficients) evaluated by TLC; real compile-and-assemble of every generated form compared entrywise',
        design_ref='3 C01'),
    'C08': dict(
        text='spec/AsmSched.tla: chunk_tasks as Chunks(len,k) (partition invariant for all len <= 64, k <= 16); multi_entries/'
             'multi_blocks as one process per chunk and the symmetric vector kernels as one process per outer index with the '
             'diag tests transcribed -- TLC explores every interleaving (<= 4 resp. <= 7 active processes) on banded patterns '
             'from real knot vectors and checks disjoint write sets, every location written exactly once, a unique terminal '
             'array, symmetric == full under B(J,I) = B(I,J)^T; racy variants as negative controls; the post-processing index '
             'maps (lower-triangular + mirrored entries, BSR block transposition, blocked<->packed permutation) as bijections; '
             'update histories. Every TLC-enumerated configuration is assembled with the real code and compared bitwise across '
             'thread counts 1..16, pool sizes and repetitions, to rounding across flags/formats/layouts/subsets/updates.',
        note='Real thread interleavings are not controlled: the design is proved race-free by TLC and the implementation is '
             'bound to it through outcomes only (a race writing identical values is invisible). Quick tier uses shipped '
             'assemblers plus one compiled form with an updatable field used at two derivative orders (update histories); 1-D, '
             'non-square components and on-demand bounding boxes need further compiled forms (thorough).',
        technique='TLA+ process-per-chunk / process-per-outer-index models, all interleavings explored by TLC (with racy negative controls) + outcome conformance of the real assembly across thread counts, formats, layouts, subsets',
        design_ref='3 C08'),
    'C17': dict(
        text='spec/Approx.tla carries an exact rational reference (piecewise Cox-de Boor, Greville abscissae, collocation, mass and '
             'weighted mass, moments, Marsden coefficients, pull-backs through identity/affine/bilinear maps) and TLC checks '
             'BasisOK, MassOK, MomentOK, MarsdenOK, InSpaceOK, WeightedOK on every enumerated case; every case is replayed through '
             'approx.interpolate (arrays and functions, scalar/vector/matrix data, custom nodes, geo=), approx.project_L2 '
             '(Kronecker and CG path, physical vs pulled-back data), bspline.interpolate/project_L2.',
        note='Tensor-product spaces (degrees <= 4, <= 6 dofs per direction, twin knot vectors, orientation-reversing and bilinear maps) and hierarchical spaces from HRepr (polynomial reproduction exact; reproduction of arbitrary functions of the space is a known finding); '
             '<= 6 dofs per direction; outside-data normal equations exact from the spec, solved in big-integer arithmetic by the '
             'harness; CG early-stop clause only on well-conditioned maps.',
        technique='TLA+ exact rational reference enumerated and cross-checked by TLC + replay of every case through the real interpolation/projection routines',
        design_ref='3 C17'),
    'C18': dict(
        text='spec/TensorAlg.tla is a state machine: state = dense integer tensor value + code-shaped representation (canonical, '
             'Tucker, ndarray, sum, product, Kronecker operator); 23 actions (add, sub, neg, every index expression with Python '
             'slice semantics defined in the spec, squeeze, mode products, pad, ravel, join bases, conversions, orthogonalise, '
             'operator algebra); invariant RepOK (expanding the representation gives the value) on all histories of length <= 2 '
             'and simulated histories <= 8; pre-fix squeeze as negative control. Every history is replayed on the real classes '
             'with exact equality after each step. spec/TensorAlgNum.tla chooses the inputs of the tolerance/rank clauses and '
             'decides rank and generic position exactly.',
        note='Compression/truncation tolerances, HOSVD orthonormality, ACA exactness and greedy error histories are numeric '
             'predicates evaluated by the harness on spec-chosen inputs; orders <= 4, extents <= 4; one index list per '
             'expression. Known finding: ACA early stop on non-generic exact-rank inputs.',
        technique='TLA+ state machine over dense integer tensors with code-shaped representations (RepOK) explored/simulated by TLC + replay of every history on the real tensor classes',
        design_ref='3 C18'),
    'C15': dict(
        text='spec/MLStructure.tla: the Kronecker pattern in two cross-checked declarative formulations (recursion and index digits/'
             'dense) and code-shaped models: the odometer of ml_nonzero_nd as a micro-step state machine (CursorOK, InRangeOK, '
             'PrefixOK, DoneOK; pre-fix column cursor as negative control), the 2-/3-level nested loops, matvec kernels, reorder, '
             'sparsity-from-knot-vectors, index maps (inverse bijections). TLC enumerates all non-empty 2x2 level patterns for '
             'L <= 3 (4 thorough), 2x3/3x2/3x3 for L <= 2, all bidx orders and row subsets, random structures to L = 6; every '
             'structure is replayed on the real MLStructure/MLMatrix/utils functions with exact integer comparison in restartable '
             'subprocesses (segfaults are violations).',
        note='Expected values exact integers from the spec; data/vectors float64 with small integer entries; knot vectors open, '
             'integer breakpoints in [0,4], degree <= 3; per-row/per-column queries compared as sets (order is not part of the '
             'property), nonzero() in order. Trusted: TLC, numpy/scipy for building inputs.',
        technique='TLA+ declarative Kronecker-pattern definitions + code-shaped odometer state machine checked by TLC (negative controls) + exhaustive replay of TLC-enumerated structures on the real code',
        design_ref='3 C15'),
    'C16': dict(
        text='spec/LinOps.tla: dense definitions of Kronecker, block, block-diagonal, diagonal, identity, null and subspace operators '
             'and their transposes/adjoints, with code-shaped models of the column-major Kronecker sweeps, tensor-product '
             'contractions, block and subspace accumulation (KronOK, BlockOK, SubspaceOK; forward-order sweep as negative '
             'control); one case per TLC-enumerated descriptor (1-4 factors, shapes 1..3, dense/csr/LinearOperator/None, vector/'
             '(n,1)/(n,2) arguments, block layouts <= 2x3, CSR row slices/subsets) replayed with exact integer results; solver '
             'factories (make_solver, Kronecker solver, fastdiag dim 1-3) against exact integer solutions.',
        note='float64 operators, float64 and int64 arguments; MKL/Pardiso branch not installed; solvers/fastdiag are floating-point factorisations compared at '
             '1e-10 (numeric predicate on spec-generated cases); sampled descriptor families in quick, complete for the bounds in '
             'thorough.',
        technique='TLA+ dense definitions + code-shaped sweep models checked by TLC + replay of every TLC-enumerated descriptor on the real operators with exact integer comparison',
        design_ref='3 C16'),
    'C07': dict(
        text='spec/GeoFunc.tla (on BSplineRef) is an exact rational reference for tensor-product spline/NURBS functions (values, '
             'Jacobians in x-last column order, packed Hessians; NURBS through the Leibniz rule on G w = N) and control-net models '
             'of every constructor/operation; spec/GeoFuncCases.tla enumerates cases (sdim 1-3, degrees 0-3, scalar/vector/matrix, '
             'rational weights) and checks the declarative meaning of each operation and the circular arcs with Pythagorean '
             'opening angles exactly; spec/GeoFuncOps.tla is a state machine whose action property OperandsUnchanged is bound by '
             'byte fingerprints of every live object before/after each real operation; GeoFuncComp covers user functions, '
             'compositions and physical gradients. Every case is replayed through all evaluation routes of the real code.',
        note='Named shapes with irrational data and rotate_2d by generic angles are numeric predicates on spec-generated cases '
             '(1e-12); some Hessians are not computed by the spec (32-bit overflow: 3-D NURBS operation results, 7-point arcs, '
             'compositions); comparison |x-q| <= 1e-11*max(1,|q|,4 max|sheet|); operation histories exhaustive to depth 2, '
             'simulated to depth 4. Trusted base: numpy float arithmetic, BSplineRef, Rat.',
        technique='TLA+ exact rational reference + operation state machine (OperandsUnchanged) enumerated by TLC + replay of every case through all evaluation routes with object fingerprints',
        design_ref='3 C07'),
}

NOT_BUILT = 'specification module not built yet (see DESIGN.md section 6); not claimed with a weaker technique'

NA_REASON = {}


def hook_commits():
    try:
        out = subprocess.run(['git', '-C', '/repo', 'log', '--format=%H %s'], capture_output=True, text=True).stdout
    except Exception:
        return []
    return [l.split()[0] for l in out.splitlines() if ' hook:' in l or l.split(' ', 1)[1].startswith('hook')]


def main():
    props = [json.loads(l)['id'] for l in (VERIF / 'properties.jsonl').read_text().splitlines() if l.strip()]
    checks = []
    for pid in props:
        c = CLAIMED.get(pid)
        if not c:
            continue
        checks.append({
            'property_id': pid,
            'quick_cmd': './check %s --tier quick' % pid,
            'thorough_cmd': './check %s --tier thorough' % pid,
            'evidence_file': 'evidence/%s.json' % pid,
            'replay_cmd_template': './check %s --replay {path}' % pid,
            'engine': 'tlc+conformance',
            'level_claimed': {'category': 'model_checking', 'text': c['text'], 'design_ref': c.get('design_ref', '')},
            'level_note': c['note'],
            'technique': c['technique'],
        })
    na = [{'property_id': pid, 'reason': NA_REASON.get(pid, NOT_BUILT)} for pid in props if pid not in CLAIMED]
    man = {
        'version': 1,
        'setup_cmd': 'cd /repo && /venv/bin/python setup.py build_ext -i -q && cd /verif && ./check --selfcheck',
        'hooks': {
            'guard': 'PYIGA_VERIF',
            'enable': 'export PYIGA_VERIF=1 (runtime guard read by pyiga/_verif.py; no rebuild needed); '
                      'PYIGA_VERIF_TRACE=<file> receives one JSON event per line',
            'baseline_off_cmd': 'cd /repo && env -u PYIGA_VERIF /venv/bin/python -m pytest -ra -q -p no:cacheprovider --timeout=900 --continue-on-collection-errors',
            'source_commits': hook_commits(),
            'add_only': True,
        },
        'engines': [{
            'name': 'tlc+conformance', 'path': 'check',
            'serves_properties': [c['property_id'] for c in checks],
            'kind_free_text': 'explicit TLA+ specifications under spec/ checked by TLC 1.8; behaviours/cases generated by TLC '
                              'are replayed into the real pyiga code (M1) and events recorded from the real code are validated '
                              'by TLC trace specifications (M2); harness in harness/. One addition outside TLC: the '
                              'chunking arithmetic of C08 (spec/ChunksProof.tla) is proved for all lengths with TLAPS and tied '
                              'to the bounded model by the invariant ChunksAsProved',
        }],
        'checks': checks,
        'notes': 'One entry point: ./check <id> --tier quick|thorough. Exit 0 held / 1 VIOLATION / 2 machinery failure. '
                 'known_findings.json lists recorded genuine defects (KNOWN-FINDING lines) and fixed ones.',
        'not_applicable': na,
    }
    (VERIF / 'MANIFEST.json').write_text(json.dumps(man, indent=1) + '\n')
    print('claimed:', [c['property_id'] for c in checks])


if __name__ == '__main__':
    main()
