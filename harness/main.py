"""./check <Cxx> [--tier quick|thorough] [--replay FILE] [--no-build]"""
import argparse
import importlib
import json
import os
import sys
import traceback

from . import common


def main():
    ap = argparse.ArgumentParser()
    ap.add_argument('prop')
    ap.add_argument('--tier', default=os.environ.get('VERIF_TIER', 'quick'), choices=['quick', 'thorough'])
    ap.add_argument('--replay', default=None)
    ap.add_argument('--no-build', action='store_true')
    a = ap.parse_args()
    prop = a.prop.upper()
    seed = int(os.environ.get('VERIF_SEED', '0') or 0)
    try:
        if not a.no_build:
            common.ensure_build()
        common.import_repo()
        os.environ['PYIGA_VERIF'] = '1'
        ctx = common.Ctx(prop, a.tier, seed)
        # compiled forms of this run go to a private cache (never ~/.cache/pyiga); must be set before pyiga.compile is imported
        os.environ['XDG_CACHE_HOME'] = str(ctx.scratch / 'xdg_cache')
        (ctx.scratch / 'xdg_cache').mkdir(exist_ok=True)
        mod = importlib.import_module('harness.drivers.' + prop.lower())
        if a.replay:
            ctx.replay = json.load(open(a.replay))
            print('[replay] re-running the check; recorded violation was:', ctx.replay.get('signature'))
        mod.run(ctx)
        rc = ctx.finish()
    except common.MachineryError as ex:
        print('MACHINERY-ERROR: %s' % ex, file=sys.stderr)
        sys.exit(2)
    except Exception:
        traceback.print_exc()
        print('MACHINERY-ERROR: driver crashed', file=sys.stderr)
        sys.exit(2)
    sys.exit(rc)


if __name__ == '__main__':
    main()
