"""Shared plumbing: repo build, TLC runner + output parsers, evidence, findings, verdicts."""
import fcntl
import json
import os
import re
import shutil
import subprocess
import sys
import tempfile
import time
from fractions import Fraction
from pathlib import Path

VERIF = Path(__file__).resolve().parents[1]
REPO = Path(os.environ.get('PYIGA_REPO', '/repo'))
SPEC = VERIF / 'spec'
PY = '/venv/bin/python'
TLA_CP = '/opt/veriftools/tla/tla2tools.jar:/opt/veriftools/tla/CommunityModules-deps.jar'
NCPU = os.cpu_count() or 4

LEVEL = 'model_checking'


class MachineryError(Exception):
    """The machinery could not run (TLC missing, spec does not parse...): exit code 2."""


# ----------------------------------------------------------------------------------
# repository build

def ensure_build(log=True):
    """Bring the compiled extensions up to date with /repo's working tree (timestamp based)."""
    lockf = Path(tempfile.gettempdir()) / 'pyiga_verif_build.lock'
    t0 = time.time()
    with open(lockf, 'w') as lf:
        fcntl.flock(lf, fcntl.LOCK_EX)
        env = dict(os.environ)
        env.pop('PYIGA_VERIF', None)
        r = subprocess.run([PY, 'setup.py', 'build_ext', '-i', '-q'], cwd=REPO, env=env,
                           stdout=subprocess.PIPE, stderr=subprocess.STDOUT, text=True)
    if r.returncode != 0:
        sys.stderr.write(r.stdout[-4000:])
        raise MachineryError('build_ext failed in %s' % REPO)
    if log:
        print('[build] extensions current (%.1fs)' % (time.time() - t0), flush=True)


def repo_env(**extra):
    env = dict(os.environ)
    env['PYTHONPATH'] = str(REPO) + os.pathsep + str(VERIF)
    env.setdefault('PYTHONHASHSEED', '0')
    env.update({k: str(v) for k, v in extra.items()})
    return env


def import_repo():
    """Make `import pyiga` resolve to /repo's working tree inside this process."""
    if str(REPO) not in sys.path:
        sys.path.insert(0, str(REPO))


# ----------------------------------------------------------------------------------
# TLAPS

def run_tlaps(ctx, module, what, timeout=1500, deps=()):
    """Re-check an unbounded proof (spec/<module>.tla) with the TLA+ proof system.  The proof is part of /verif, no change
    of the code under test can invalidate it; the re-check guards the specification itself.  Back-end provers run under
    wall-clock limits, so on a loaded machine an obligation may time out: a second attempt gets four times the limits,
    and if obligations are still open the outcome is recorded as a note (no verdict either way), never as a violation."""
    key = 'tlaps_' + module
    if shutil.which('tlapm') is None:
        ctx.notes[key] = 'tlapm not installed: %s not re-checked' % what
        return None
    d = ctx.scratch / key
    d.mkdir(exist_ok=True)
    for mod in (module,) + tuple(deps):              # TLAPS.tla and the standard modules come from tlapm's own library
        shutil.copy(str(SPEC / (mod + '.tla')), str(d / (mod + '.tla')))
    last = ''
    for threads, stretch in ((4, 3), (2, 12)):
        try:
            p = subprocess.run(['tlapm', '--threads', str(threads), '--stretch', str(stretch), module + '.tla'], cwd=str(d),
                               stdout=subprocess.PIPE, stderr=subprocess.STDOUT, text=True, timeout=timeout)
        except subprocess.TimeoutExpired:
            ctx.notes[key] = 'tlapm timed out (no verdict)'
            return None
        m = re.search(r'All (\d+) obligations proved', p.stdout)
        if m:
            ctx.notes[key] = '%s.tla: all %s proof obligations proved (%s)' % (module, m.group(1), what)
            return int(m.group(1))
        last = p.stdout
        if 'obligations failed' not in last:          # parse error etc.: the specification itself is broken
            raise MachineryError('TLAPS could not process spec/%s.tla:\n%s' % (module, last[-1500:]))
    m = re.search(r'(\d+)/(\d+) obligations failed', last)
    ctx.notes[key] = ('%s.tla: %s of %s obligations not discharged within the back-end time limits on this machine '
                      '(no verdict; all were proved when the module was committed)' % ((module,) + (m.groups() if m else ('?', '?'))))
    return None


# ----------------------------------------------------------------------------------
# TLC

_SUMMARY = re.compile(r'(\d+) states generated, (\d+) distinct states found')
_SIMSUM = re.compile(r'(\d+) states checked')


def _unescape_tla(s):
    out = []
    i = 0
    while i < len(s):
        c = s[i]
        if c == '\\' and i + 1 < len(s):
            n = s[i + 1]
            out.append({'n': '\n', 't': '\t'}.get(n, n))
            i += 2
        else:
            out.append(c)
            i += 1
    return ''.join(out)


class TLCResult:
    def __init__(self):
        self.stdout = ''
        self.generated = 0
        self.distinct = 0
        self.ok = False            # finished without error
        self.violated = None       # name of violated invariant/property, if any
        self.error = None          # other error text
        self.records = {}          # tag -> list of payloads emitted with Emit(tag, v)
        self.wall = 0.0
        self.cmd = ''
        self.coverage = {}         # action name -> count (when -coverage given)

    def recs(self, tag):
        return self.records.get(tag, [])


def parse_tlc_output(text, res):
    for line in text.splitlines():
        line = line.strip()
        if len(line) >= 2 and line[0] == '"' and line[-1] == '"' and line.startswith('"{'):
            try:
                obj = json.loads(_unescape_tla(line[1:-1]))
            except Exception:
                continue
            if isinstance(obj, dict) and 'tag' in obj:
                res.records.setdefault(obj['tag'], []).append(obj.get('v'))
            continue
        m = _SUMMARY.search(line)
        if m:
            res.generated = int(m.group(1))
            res.distinct = int(m.group(2))
        m = _SIMSUM.search(line)
        if m and not res.generated:
            res.generated = int(m.group(1))
    m = re.search(r'Error: Invariant (\S+) is violated', text)
    if m:
        res.violated = m.group(1)
    m = re.search(r'Error: Action property (\S+) is violated', text)
    if m:
        res.violated = m.group(1)
    # an action property that is part of an instantiated specification (refinement check) is reported by its location
    m = re.search(r'Error: Action property line \d+, col \d+ to line \d+, col \d+ of module (\S+) is violated', text)
    if m and res.violated is None:
        res.violated = 'action-property-of-' + m.group(1)
    m = re.search(r'Error: Temporal properties were violated', text)
    if m:
        res.violated = res.violated or 'temporal'
    m = re.search(r'Error: Deadlock reached', text)
    if m:
        res.violated = res.violated or 'deadlock'
    if 'Error:' in text and res.violated is None:
        i = text.index('Error:')
        res.error = text[i:i + 1500]
    if res.violated is None and res.error is None and (
            'Model checking completed. No error has been found' in text
            or 'Finished computing initial states' in text and 'No error' in text
            or re.search(r'Finished in ', text)):
        res.ok = True
    for m in re.finditer(r'^<(\w+) line \d+, col \d+ to line \d+, col \d+ of module (\w+)>: (\d+):(\d+)', text, re.M):
        res.coverage[m.group(1)] = res.coverage.get(m.group(1), 0) + int(m.group(4))


def run_tlc(module, cfg=None, *, workers=1, scratch=None, simulate=None, depth=None, seed=None,
            env=None, timeout=1800, deadlock=False, coverage=False, xss='64m', xmx='6g',
            dfs=False, extra=()):
    """Run TLC on spec/<module>.tla with spec/<cfg>. Returns TLCResult."""
    own = scratch is None
    scratch = Path(scratch or tempfile.mkdtemp(prefix='tlc_'))
    meta = Path(tempfile.mkdtemp(prefix='meta_', dir=scratch))
    cfg = cfg or (module + '.cfg')
    cmd = ['java', '-XX:+UseParallelGC', '-Xss' + xss, '-Xmx' + xmx]
    if dfs:
        cmd.append('-Dtlc2.tool.queue.IStateQueue=StateDeque')
    cmd += ['-cp', TLA_CP, 'tlc2.TLC', '-metadir', str(meta), '-noGenerateSpecTE',
            '-config', cfg, '-workers', str(workers)]
    if deadlock:
        cmd.append('-deadlock')           # -deadlock == do NOT check deadlock
    if coverage:
        cmd += ['-coverage', '1']
    if simulate is not None:
        cmd += ['-simulate', 'num=%d' % simulate]
        if depth:
            cmd += ['-depth', str(depth)]
        if seed is not None:
            cmd += ['-seed', str(seed)]
    cmd += list(extra) + [module + '.tla']
    e = dict(os.environ)
    e.pop('JAVA_TOOL_OPTIONS', None)
    if env:
        e.update({k: str(v) for k, v in env.items()})
    res = TLCResult()
    res.cmd = ' '.join(cmd)
    t0 = time.time()
    try:
        p = subprocess.run(cmd, cwd=SPEC, env=e, stdout=subprocess.PIPE, stderr=subprocess.STDOUT,
                           text=True, timeout=timeout)
        res.stdout = p.stdout
    except subprocess.TimeoutExpired as ex:
        res.stdout = (ex.stdout or b'').decode('utf8', 'replace') if isinstance(ex.stdout, bytes) else (ex.stdout or '')
        res.error = 'timeout after %ds' % timeout
    except FileNotFoundError:
        raise MachineryError('java not found')
    res.wall = time.time() - t0
    parse_tlc_output(res.stdout, res)
    if res.error and res.error.startswith('timeout'):
        res.ok = False
    shutil.rmtree(meta, ignore_errors=True)
    if own:
        shutil.rmtree(scratch, ignore_errors=True)
    return res


def tlc_must_pass(res, what):
    """Design check must complete without error; a *violated invariant* in the design model of the
    fixed protocol is a machinery problem (the model is ours), so raise."""
    if not res.ok:
        tail = res.stdout[-3000:]
        raise MachineryError('%s: TLC did not complete cleanly (violated=%s error=%s)\n%s'
                             % (what, res.violated, res.error, tail))
    return res


# ----------------------------------------------------------------------------------
# numbers crossing the boundary

def frac(x):
    """[n,d] | int -> Fraction"""
    if isinstance(x, (list, tuple)):
        return Fraction(int(x[0]), int(x[1]))
    return Fraction(int(x))


def fl(x):
    return float(frac(x))


def close(x, q, tol=1e-11, scale=1.0):
    q = float(q)
    return abs(float(x) - q) <= tol * max(1.0, abs(q), scale)


# ----------------------------------------------------------------------------------
# known findings

class Findings:
    def __init__(self):
        p = VERIF / 'known_findings.json'
        self.data = json.loads(p.read_text()) if p.exists() else {'findings': [], 'fixed': []}

    def match(self, prop, signature):
        for f in self.data.get('findings', []):
            if f['property'] == prop and f['signature'] == signature:
                return f
        return None


# ----------------------------------------------------------------------------------
# per-run context

class Ctx:
    def __init__(self, prop, tier, seed):
        self.prop = prop
        self.tier = tier
        self.seed = seed
        self.thorough = tier == 'thorough'
        self.t0 = time.time()
        self.scratch = Path(tempfile.mkdtemp(prefix='verif_%s_' % prop))
        self.findings = Findings()
        for old in (VERIF / 'replay').glob('%s-%s-*.json' % (prop, tier)):
            old.unlink()
        self.states = 0
        self.transitions = 0
        self.traces = 0
        self.evaluations = 0
        self.nontrivial = set()
        self.nontrivial_n = 0
        self.samples = []
        self.violations = []       # (signature, detail)
        self.known = []
        self.skipped = []
        self.notes = {}
        self.tlc_runs = []
        self.rule = ''
        self.assumptions = []
        self.exhaustive = None

    # -- TLC -------------------------------------------------------------------
    def tlc(self, module, cfg=None, must_pass=True, **kw):
        kw.setdefault('scratch', self.scratch)
        res = run_tlc(module, cfg, **kw)
        self.states += res.distinct
        self.transitions += res.generated
        self.tlc_runs.append({'module': module, 'cfg': cfg or module + '.cfg',
                              'generated': res.generated, 'distinct': res.distinct,
                              'ok': res.ok, 'violated': res.violated,
                              'wall_s': round(res.wall, 2),
                              'records': {k: len(v) for k, v in res.records.items()}})
        print('[tlc] %s/%s: %d generated, %d distinct, ok=%s violated=%s (%.1fs) records=%s' % (
            module, cfg or '', res.generated, res.distinct, res.ok, res.violated, res.wall,
            {k: len(v) for k, v in res.records.items()}), flush=True)
        if must_pass:
            tlc_must_pass(res, module)
        return res

    def expect_violation(self, module, cfg, invariant=None, **kw):
        """Negative control: the legacy model must violate."""
        res = self.tlc(module, cfg, must_pass=False, **kw)
        if res.violated is None:
            raise MachineryError('negative control %s/%s did not violate anything:\n%s'
                                 % (module, cfg, res.stdout[-2000:]))
        if invariant and res.violated != invariant:
            print('[tlc] note: negative control violated %s (expected %s)' % (res.violated, invariant))
        self.notes.setdefault('negative_controls', []).append(
            {'module': module, 'cfg': cfg, 'violated': res.violated})
        return res

    # -- bookkeeping -------------------------------------------------------------
    def case(self, key=None, nontrivial=True, sample=None):
        """Count one behaviour/case driven through the implementation."""
        self.evaluations += 1
        self.traces += 1
        if nontrivial:
            if key is None:
                self.nontrivial_n += 1
            else:
                self.nontrivial.add(key if isinstance(key, (str, int, tuple)) else json.dumps(key, sort_keys=True))
        if sample is not None and len(self.samples) < 6:
            self.samples.append(sample)

    def skip(self, reason):
        self.skipped.append(str(reason)[:300])

    def violation(self, signature, detail):
        """Report a violation with a stable signature (used for known-findings matching)."""
        f = self.findings.match(self.prop, signature)
        if f is not None:
            if signature not in [k[0] for k in self.known]:
                self.known.append((signature, f.get('what', '')))
            return False
        self.violations.append((signature, detail))
        return True

    # -- end of run ----------------------------------------------------------------
    def finish(self):
        wall = time.time() - self.t0
        nontriv = len(self.nontrivial) + self.nontrivial_n
        cov = {
            'states': int(self.states), 'transitions': int(self.transitions),
            'traces_validated_against_impl': int(self.traces),
            'evaluations': int(self.evaluations), 'distinct_nontrivial': int(nontriv),
            'rule': self.rule, 'samples': self.samples or ['(no sample recorded)'],
            'tlc_runs': self.tlc_runs, 'skipped': self.skipped[:50], 'skipped_count': len(self.skipped),
            'known_findings_seen': [k[0] for k in self.known],
        }
        if self.exhaustive is not None:
            cov['exhaustive'] = bool(self.exhaustive)
        cov.update(self.notes)
        ev = {'property_id': self.prop, 'tier': self.tier, 'seed': int(self.seed), 'level': LEVEL,
              'coverage': cov, 'assumptions': self.assumptions, 'wall_s': round(wall, 2),
              'violations': len(self.violations)}
        # evidence describes runs against /repo itself; a run against another tree (PYIGA_REPO, used for the seeded
        # changes) writes next to it under evidence-alt/ (not committed)
        evdir = VERIF / ('evidence' if str(REPO) == '/repo' else 'evidence-alt')
        evdir.mkdir(exist_ok=True)
        (evdir / (self.prop + '.json')).write_text(json.dumps(ev, indent=1, default=str) + '\n')
        seen = {k[0] for k in self.known}
        for f in self.findings.data.get('findings', []):
            if f['property'] == self.prop:
                print('KNOWN-FINDING: property=%s %s -- %s [%s]' % (
                    self.prop, f['signature'], f.get('what', ''),
                    'reproduced in this run' if f['signature'] in seen else 'not exercised in this run'))
        rc = 0
        if self.violations:
            (VERIF / 'replay').mkdir(exist_ok=True)
            seen = set()
            for n, (sig, detail) in enumerate(self.violations):
                if sig in seen:
                    continue
                seen.add(sig)
                if n >= 12:
                    break
                path = VERIF / 'replay' / ('%s-%s-%d.json' % (self.prop, self.tier, n))
                path.write_text(json.dumps({'property': self.prop, 'signature': sig, 'detail': detail,
                                            'seed': self.seed, 'tier': self.tier}, indent=1, default=str))
                print('VIOLATION property=%s replay=%s' % (self.prop, path))
                print('   signature: %s' % sig)
            rc = 1
        print('[done] %s tier=%s cases=%d nontrivial=%d states=%d violations=%d known=%d skipped=%d wall=%.1fs' % (
            self.prop, self.tier, self.evaluations, nontriv, self.states, len(self.violations),
            len(self.known), len(self.skipped), wall), flush=True)
        shutil.rmtree(self.scratch, ignore_errors=True)
        return rc


# ----------------------------------------------------------------------------------
# cfg generation (constants vary per run; the module text is the single source of truth)

def tla_value(v):
    if isinstance(v, bool):
        return 'TRUE' if v else 'FALSE'
    if isinstance(v, int):
        return str(v)
    if isinstance(v, str):
        return '"%s"' % v
    if isinstance(v, (set, frozenset)):
        return '{' + ', '.join(tla_value(x) for x in sorted(v)) + '}'
    raise TypeError(v)


def write_cfg(path, constants=None, *, spec='Spec', init=None, next_=None, invariants=(), properties=(),
              view=None, constraints=(), action_constraints=(), postcondition=None, deadlock=False,
              subst=None):
    lines = []
    if init:
        lines += ['INIT ' + init, 'NEXT ' + next_]
    else:
        lines.append('SPECIFICATION ' + spec)
    if constants or subst:
        lines.append('CONSTANTS')
        for k, v in (constants or {}).items():
            lines.append('  %s = %s' % (k, tla_value(v)))
        for k, v in (subst or {}).items():
            lines.append('  %s <- %s' % (k, v))
    for i in invariants:
        lines.append('INVARIANT ' + i)
    for p in properties:
        lines.append('PROPERTY ' + p)
    if view:
        lines.append('VIEW ' + view)
    for c in constraints:
        lines.append('CONSTRAINT ' + c)
    for c in action_constraints:
        lines.append('ACTION_CONSTRAINT ' + c)
    if postcondition:
        lines.append('POSTCONDITION ' + postcondition)
    lines.append('CHECK_DEADLOCK ' + ('TRUE' if deadlock else 'FALSE'))
    Path(path).write_text('\n'.join(lines) + '\n')
    return str(path)
