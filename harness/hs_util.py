"""Shared helpers for the hierarchical-space drivers (C04, C03, C05, C11, C17): build real HSpace objects along
TLC-generated refinement histories and project them onto plain data."""
import numpy as np


def make_kvs(cfg, integer_grid=False, mult=1):
    """coarse knot vectors on [0,1], or (integer_grid) on [0, N*2^(MaxLev-1)] so that every breakpoint of every
    model level is an integer, exactly the domain of the exact references in HRepr/HAssemble"""
    from pyiga import bspline
    D = cfg['D']
    P = [cfg['P1'], cfg['P2']][:D]
    N = [cfg['N1'], cfg['N2']][:D]
    S = [float(N[a] * 2 ** (cfg['MaxLev'] - 1)) if integer_grid else 1.0 for a in range(D)]
    return tuple(bspline.make_knots(P[a], 0.0, S[a], N[a], mult=min(mult, max(P[a], 1))) for a in range(D))


def make_space(cfg, truncate=False, bdspecs=None, integer_grid=False):
    from pyiga import hierarchical
    disp = cfg['Disp'] if cfg['Disp'] > 0 else np.inf
    return hierarchical.HSpace(make_kvs(cfg, integer_grid), truncate=truncate, disparity=disp, bdspecs=bdspecs)


def project(hs):
    def lv(sets):
        return [sorted([list(map(int, t)) for t in s]) for s in sets]
    return dict(L=int(hs.numlevels), active=lv(hs.hmesh.active), deact=lv(hs.hmesh.deactivated),
                actfun=lv(hs.actfun), deactfun=lv(hs.deactfun))


def render_marks(call, how, hs=None):
    """call['marks']: per level list of cells -> dict level -> container of tuples.
    how = 'alias': where a whole level is marked, pass the LIVE set returned by hs.active_cells(l) itself."""
    out = {}
    for l, cells in enumerate(call['marks']):
        if not cells:
            continue
        cells = [tuple(c) for c in cells]
        if how == 'alias':
            live = hs.active_cells(l) if l < hs.numlevels else set()
            out[l] = live if set(cells) == set(live) else set(cells)
        else:
            out[l] = {'set': set, 'list': list, 'tuple': tuple}[how](cells)
    return out


def marks_lists(marked, nlev):
    out = [[] for _ in range(nlev)]
    for l, cells in marked.items():
        while len(out) <= l:
            out.append([])
        out[int(l)] = sorted([list(map(int, c)) for c in cells])
    return out


def probe(hs):
    """Read-only queries of an HSpace (an adaptive loop solves, then marks, then refines): they populate every
    cached table of the object.  By contract none of them may change any later answer; the replay drivers call this
    between refine() calls and before transfers, and compare with the model exactly as without the probing."""
    qs = [lambda: hs.numdofs, lambda: hs.ravel_global, hs.active_indices, hs.deactivated_indices,
          hs.global_indices, lambda: hs.represent_fine(truncate=True), lambda: hs.represent_fine(truncate=False),
          lambda: hs.virtual_hierarchy_prolongators(truncate=False), hs.incidence_matrix,
          hs.dirichlet_dofs, hs.non_dirichlet_dofs,
          lambda: [hs.indices_to_smooth(s) for s in ('new', 'trunc', 'func_supp', 'cell_supp')],
          lambda: hs.cell_dirichlet, lambda: hs.cell_global, lambda: hs.thb_to_hb(), lambda: hs.hb_to_thb()]
    if hs.dim >= 2:
        qs += [lambda: hs.boundary((0, 0)), lambda: hs.boundary((hs.dim - 1, 1))]
    n = 0
    for q in qs:
        try:
            q()
            n += 1
        except Exception:
            pass            # what a query returns (or raises) is decided where the driver checks that query
    return n


def replay_history(cfg, hist, containers=('set',), truncate=False, bdspecs=None, truncflag=False, integer_grid=False,
                   probes=False, via_copy=False):
    """probes: run the read-only queries before every refine() call; via_copy: refine a copy() of the probed object
    (the prolongate_to idiom: fine = coarse.copy(); fine.refine(...)).
    Returns (hs, events, error).  events: list of dict(pre, post, marks_in, marks_out)."""
    hs = make_space(cfg, truncate=truncate, bdspecs=bdspecs, integer_grid=integer_grid)
    events = []
    for n, call in enumerate(hist):
        how = containers[n % len(containers)]
        if probes:
            probe(hs)
            if via_copy:
                hs = hs.copy()
        marks = render_marks(call, how, hs)
        pre = project(hs)
        try:
            ret = hs.refine(marks, truncate=True) if truncflag else hs.refine(marks)
        except Exception as ex:
            return hs, events, (n, how, ex)
        events.append(dict(pre=pre, post=project(hs), marks_in=call['marks'],
                           marks_out=marks_lists(ret, len(call['marks']))))
    return hs, events, None


def same_sets(a, b):
    """compare per-level lists of cells (padding with empty levels)."""
    n = max(len(a), len(b))
    a = list(a) + [[]] * (n - len(a))
    b = list(b) + [[]] * (n - len(b))
    return all(sorted(map(tuple, x)) == sorted(map(tuple, y)) for x, y in zip(a, b))
