"""C11 -- relaxation and multigrid (pyiga/solvers.py, relaxation_cy.pyx, hierarchical.py).

  spec/Relax.tla        textbook Gauss-Seidel in exact rationals on an enumerated matrix family; TLC checks fixed
                        point, SPD energy monotonicity, code shapes == reference; every case is replayed (M1) on
                        solvers.gauss_seidel with the matrix rendered as ndarray / CSR / CSC / COO / COO with
                        duplicate entries / CSR with explicit zeros / CSR with unsorted indices -- EXACT equality
                        (the spec only emits cases whose values are exactly representable in binary64).
  spec/IterDrivers.tla  stopping rules of iterative_solve and twogrid with scripted residuals; every behaviour is
                        replayed with scripted step / smoother callbacks.
  spec/HMarks.tla       tiny generator of 1-D refinement histories.  On the HSpace objects built from them the
                        smoothing-set, fixed-point, energy and stopping predicates are evaluated NUMERICALLY
                        (case keys start with `numeric:` -- "numeric predicate on spec-generated cases").
"""
import contextlib
import io
import itertools
import json
import math
import re
import warnings
from concurrent.futures import ThreadPoolExecutor

import numpy as np
import scipy.sparse as sp

from ..common import MachineryError, frac, write_cfg

GS_INVS = ['CodeShapesAgree', 'FixedPoint', 'EnergyMonotone', 'EmitCase']
IT_INVS = ['ConvergedMeansReduced', 'NoEarlierStop', 'LimitReported', 'CallsCounted', 'EmitBeh']


class Stop(Exception):
    pass


# =====================================================================================================
# Gauss-Seidel

def renderings(A):
    """the same matrix in every storage format the property quantifies over"""
    n = A.shape[0]
    out = [('ndarray', A.copy()), ('csr', sp.csr_matrix(A)), ('csc', sp.csc_matrix(A)), ('coo', sp.coo_matrix(A))]
    # CSR storing every entry, zeros included
    full = sp.csr_matrix((A.ravel().copy(), np.tile(np.arange(n), n), np.arange(0, n * n + 1, n)), shape=(n, n))
    out.append(('csr-explicit-zeros', full))
    # CSR with the column indices of every row in descending order
    c = sp.csr_matrix(A)
    data, ind = c.data.copy(), c.indices.copy()
    for i in range(n):
        s, e = c.indptr[i], c.indptr[i + 1]
        data[s:e] = data[s:e][::-1]
        ind[s:e] = ind[s:e][::-1]
    uns = sp.csr_matrix((data, ind, c.indptr.copy()), shape=(n, n))
    out.append(('csr-unsorted', uns))
    # COO with every non-zero split into two halves (duplicates are summed by the conversion)
    r, cc = np.nonzero(A)
    v = A[r, cc] / 2
    out.append(('coo-duplicates', sp.coo_matrix((np.concatenate([v, v]), (np.concatenate([r, r]), np.concatenate([cc, cc]))),
                                               shape=(n, n))))
    return out


def replay_gs(ctx, rec, n_case):
    from pyiga import solvers
    A = np.array([[float(frac(v)) for v in r] for r in rec['A']])
    b = np.array([float(frac(v)) for v in rec['b']])
    x0 = np.array([float(frac(v)) for v in rec['x0']])
    want = np.array([float(frac(v)) for v in rec['x']])
    idx = rec['idx']
    sig0 = 'A=%s b=%s x0=%s sweep=%s iterations=%d indices=%s' % (
        A.astype(int).tolist(), b.astype(int).tolist(), x0.astype(int).tolist(), rec['sweep'], rec['iters'], idx or None)
    for fmt, M in renderings(A):
        if fmt == 'csr-unsorted' and M.has_sorted_indices and (np.count_nonzero(A, axis=1) > 1).any():
            raise MachineryError('could not build a CSR matrix with unsorted indices')
        for ikind in (('none',) if not idx else ('list', 'array')):
            indices = None if not idx else (list(idx) if ikind == 'list' else np.array(idx))
            x = x0.copy()
            try:
                with warnings.catch_warnings():
                    warnings.simplefilter('ignore')
                    ret = solvers.gauss_seidel(M, x, b.copy(), iterations=rec['iters'], indices=indices, sweep=rec['sweep'])
            except Exception as ex:
                ctx.violation('exception %s gauss_seidel format=%s indices=%s' % (type(ex).__name__, fmt, ikind),
                              {'case': sig0, 'error': repr(ex)})
                continue
            ctx.case(('gs', sig0, fmt, ikind), nontrivial=rec['nupd'] >= 2,
                     sample={'case': sig0, 'format': fmt, 'x': want.tolist()} if n_case % 997 == 3 and fmt == 'csr-unsorted' else None)
            if ret is not None or not np.array_equal(x, want):
                ctx.violation('gauss_seidel-mismatch format=%s sweep=%s indices=%s' % (fmt, rec['sweep'], ikind),
                              {'case': sig0, 'got': x.tolist(), 'expected': want.tolist()})


def replay_smoother_history(ctx, rec, n_case):
    """object history of a smoother: ONE GaussSeidelSmoother object is applied to the matrix in every storage format, and
    to each matrix object a second time after its coefficients were doubled IN PLACE (same object, same pattern -- what a
    time-stepping or Newton loop does) together with the right-hand side: Gauss-Seidel on (2A, 2f) makes exactly the
    iterates of (A, f), so the spec's result is the expectation for both applications"""
    from pyiga import solvers
    if rec['idx']:
        return
    A = np.array([[float(frac(v)) for v in r] for r in rec['A']])
    b = np.array([float(frac(v)) for v in rec['b']])
    x0 = np.array([float(frac(v)) for v in rec['x0']])
    want = np.array([float(frac(v)) for v in rec['x']])
    sig0 = 'A=%s b=%s x0=%s sweep=%s iterations=%d' % (
        A.astype(int).tolist(), b.astype(int).tolist(), x0.astype(int).tolist(), rec['sweep'], rec['iters'])
    try:
        S = solvers.GaussSeidelSmoother(iterations=rec['iters'], sweep=rec['sweep'])
        for fmt, M in renderings(A):
            for nth, scale in (('first', 1.0), ('after-in-place-rescaling', 2.0)):
                if scale != 1.0:
                    if isinstance(M, np.ndarray):
                        M *= scale
                    else:
                        M.data *= scale
                x = x0.copy()
                with warnings.catch_warnings():
                    warnings.simplefilter('ignore')
                    S(M, x, scale * b)
                ctx.case(('gs-smoother', sig0, fmt, nth), nontrivial=rec['nupd'] >= 2)
                if not np.array_equal(x, want):
                    ctx.violation('smoother-object-history-mismatch format=%s application=%s sweep=%s' % (fmt, nth, rec['sweep']),
                                  {'case': sig0, 'got': x.tolist(), 'expected': want.tolist()})
                    return
    except Exception as ex:
        ctx.violation('exception %s GaussSeidelSmoother object history' % type(ex).__name__, {'case': sig0, 'error': repr(ex)})


# =====================================================================================================
# iterative drivers

def replay_iterative(ctx, beh, variant):
    from pyiga import solvers
    par = beh['par']
    tol, maxiter = float(frac(par['tol'])), par['maxiter']
    rho0 = float(frac(beh['res0']))
    script = [float(frac(r)) for r in beh['script']]
    calls = []
    junk = 1000.0                                     # residual on the inactive dof: must be ignored
    # variant 0: x0 = None (res0 = |f|), A = identity ndarray;  variant 1: x0 given, A sparse;  variant 2: LinearOperator
    n = 2
    if variant == 0:
        A, f, x0 = np.eye(n), np.array([rho0, junk]), None
    elif variant == 1:
        A, f, x0 = sp.identity(n, format='csr'), np.zeros(n), np.array([-rho0, junk])
    else:
        import scipy.sparse.linalg as spla
        A, f, x0 = spla.aslinearoperator(np.eye(n)), np.zeros(n), np.array([-rho0, -junk])
    outputs = []

    def step(x):
        k = len(calls)
        if k >= len(script):
            raise Stop()
        calls.append(x)
        y = f - np.array([script[k], junk * (k + 2)])
        outputs.append(y)
        return y
    sig = 'iterative_solve par=%s res0=%s script=%s variant=%d' % (json.dumps(par, sort_keys=True), beh['res0'], beh['script'], variant)
    out = io.StringIO()
    try:
        with contextlib.redirect_stdout(out), np.errstate(all='ignore'), warnings.catch_warnings():
            warnings.simplefilter('ignore')
            x, its = solvers.iterative_solve(step, A, f, x0=x0, active_dofs=[0], tol=tol, maxiter=maxiter)
    except Stop:
        ctx.violation('iterative_solve continues-past-script ' + sig, {'beh': beh})
        return
    except Exception as ex:
        ctx.violation('exception %s iterative_solve' % type(ex).__name__, {'beh': beh, 'variant': variant, 'error': repr(ex)})
        return
    want_it = beh['iterations'] if beh['outcome'] == 'converged' else math.inf
    ret_ok = (x is outputs[-1]) if outputs else np.array_equal(x, x0 if x0 is not None else np.zeros(n))
    ok = (len(calls) == beh['calls'] and its == want_it and ret_ok
          and (beh['outcome'] != 'limit' or out.getvalue().strip() != ''))
    if not ok:
        ctx.violation('iterative_solve-mismatch ' + sig, {'beh': beh, 'calls': len(calls), 'iterations': repr(its),
                                                         'printed': out.getvalue()})


def check_iterative_exact_start(ctx):
    """numeric predicate: started at the exact solution (initial residual 0) iterative_solve must not raise and must
    return a solution (the exact protocol -- return (x, 0) without calling step -- is part of IterDrivers.tla)"""
    from pyiga import solvers
    A = np.array([[2.0, 1.0], [1.0, 2.0]])
    xs = np.array([1.0, -1.0])
    for name, f, x0 in (('x0=exact-solution', A @ xs, xs.copy()), ('f=0,x0=None', np.zeros(2), None)):
        key = 'numeric: iterative_solve res0=0 %s' % name
        try:
            with contextlib.redirect_stdout(io.StringIO()), np.errstate(all='ignore'), warnings.catch_warnings():
                warnings.simplefilter('ignore')
                x, its = solvers.iterative_solve(lambda x: x.copy(), A, f, x0=x0, tol=1e-8, maxiter=5)
        except Exception as ex:
            ctx.violation('exception %s iterative_solve res0=0' % type(ex).__name__, {'case': key, 'error': repr(ex)})
            continue
        ctx.case(key)
        if not np.allclose(A @ x, f, rtol=0, atol=1e-14):
            ctx.violation('iterative_solve res0=0 returns-non-solution', {'case': key, 'x': np.asarray(x).tolist()})


def replay_twogrid(ctx, beh, u0kind):
    from pyiga import solvers
    par = beh['par']
    tol, maxiter, smooth = float(frac(par['tol'])), par['maxiter'], par['smooth']
    rho0 = float(frac(beh['res0']))
    script = [float(frac(r)) for r in beh['script']]
    n = 2
    A = sp.identity(n, format='csr')
    P = sp.identity(n, format='csr')
    calls = []
    if u0kind == 'none':
        f = np.array([rho0, 0.0])
        u0 = None
    else:
        f = np.array([0.25, -0.5])
        u0v = f - np.array([rho0, 0.0])
        u0 = u0v.tolist() if u0kind == 'list' else (tuple(u0v.tolist()) if u0kind == 'tuple' else u0v.copy())

    def smoother(A_, u, f_):
        k = len(calls) // smooth
        if k >= len(script):
            raise Stop()
        calls.append(k)
        u[:] = f_ - np.array([script[k], 0.0])
    sig = 'twogrid par=%s res0=%s script=%s' % (json.dumps(par, sort_keys=True), beh['res0'], beh['script'])
    out = io.StringIO()
    try:
        with contextlib.redirect_stdout(out), warnings.catch_warnings():
            warnings.simplefilter('ignore')
            u = solvers.twogrid(A, f, P, smoother, u0=u0, tol=tol, smooth_steps=smooth, maxiter=maxiter)
    except Stop:
        ctx.violation('twogrid continues-past-script ' + sig, {'beh': beh})
        return
    except Exception as ex:
        ctx.violation('exception %s twogrid u0=%s' % (type(ex).__name__, {'array': 'ndarray'}.get(u0kind, u0kind)),
                      {'beh': beh, 'error': repr(ex)})
        return
    text = out.getvalue().lower()
    m = re.findall(r'(\d+)\s+iterations', text)
    printed_it = int(m[-1]) if m else None
    kind = 'diverged' if 'diverg' in text else ('limit' if ('too many' in text or 'abort' in text) else 'converged')
    ok = (len(calls) == beh['calls'] and np.allclose(u, f, rtol=0, atol=1e-15)
          and (printed_it is None or printed_it == beh['iterations']) and kind == beh['outcome'])
    if not ok:
        ctx.violation('twogrid-mismatch u0=%s %s' % (u0kind, sig), {'beh': beh, 'smoother_calls': len(calls), 'printed': out.getvalue(),
                                                                'u': np.asarray(u).tolist(), 'f': f.tolist()})


def check_twogrid_spd(ctx, rec, k):
    """numeric predicate: twogrid converges for SPD problems from any starting vector (list / ndarray / None)"""
    from pyiga import solvers
    A = np.array([[float(frac(v)) for v in r] for r in rec['A']])
    n = A.shape[0]
    if n < 3:
        return
    P = np.zeros((n, 2))
    P[:, 0] = np.linspace(1, 0, n)
    P[:, 1] = 1 - P[:, 0]
    f = np.arange(1.0, n + 1)
    S = solvers.GaussSeidelSmoother(sweep=('forward', 'symmetric', 'backward')[k % 3])
    start = np.linspace(-1.0, 2.0, n)
    for u0kind, u0 in (('none', None), ('list', start.tolist()), ('ndarray', start.copy())):
        key = 'numeric: twogrid-spd A=%s u0=%s' % (A.astype(int).tolist(), u0kind)
        out = io.StringIO()
        try:
            with contextlib.redirect_stdout(out):
                u = solvers.twogrid(sp.csr_matrix(A), f, sp.csr_matrix(P), S, u0=u0, tol=1e-9, maxiter=400)
        except Exception as ex:
            ctx.violation('exception %s twogrid u0=%s' % (type(ex).__name__, u0kind), {'case': key, 'error': repr(ex)})
            continue
        ctx.case(key)
        res0 = np.linalg.norm(f - (A @ (start if u0 is not None else 0 * start)))
        if res0 == 0:       # started at the exact solution: only the result is judged (the loop then runs to its limit)
            if np.linalg.norm(f - A @ u) > 1e-12 * np.linalg.norm(f):
                ctx.violation('twogrid-spd-not-converged u0=%s' % u0kind, {'case': key, 'what': 'exact start, result is not the solution'})
            continue
        res = np.linalg.norm(f - A @ u) / res0
        if res > 1e-7 or 'iverg' in out.getvalue() or 'too many' in out.getvalue():
            ctx.violation('twogrid-spd-not-converged u0=%s' % u0kind, {'case': key, 'relres': float(res), 'printed': out.getvalue()})


# =====================================================================================================
# hierarchical spaces: numeric predicates on spec-generated refinement histories

from .. import hs_util

STRATEGIES = ('new', 'trunc', 'func_supp', 'cell_supp')
SMOOTHERS = ('gs', 'forward_gs', 'backward_gs', 'symmetric_gs', 'exact')


def build_hspace(hist, p, n0, dim, truncate, disparity, bdspecs, hist2=None, probes=False):
    from pyiga import bspline, hierarchical
    kv = bspline.make_knots(p, 0.0, 1.0, n0)
    hs = hierarchical.HSpace(dim * (kv,), truncate=truncate, disparity=disparity, bdspecs=bdspecs)
    applied = []
    for k, st in enumerate(hist):
        lv = st['lv']
        if lv >= hs.numlevels:
            continue
        if dim == 1:
            cells = {(c,) for c in st['cells']}
        else:
            other = hist2[k]['cells'] if hist2 is not None and k < len(hist2) and hist2[k]['lv'] == lv else st['cells']
            cells = {(a, b) for a in st['cells'] for b in other}
        cells &= set(hs.active_cells(lv))
        if cells:
            if probes:      # the adaptive loop: solve (queries populate every cached table), mark, refine
                hs_util.probe(hs)
            hs.refine({lv: cells})
            applied.append((lv, sorted(cells)))
    return hs, applied


def on_boundary(hs, lv, mi, bdspecs):
    nd = hs.mesh(lv).numdofs
    return any(mi[ax] == (0 if side == 0 else nd[ax] - 1) for ax, side in (bdspecs or []))


def check_sets(ctx, hs, name, bd):
    L = hs.numlevels
    sigbase = 'hspace=%s' % name
    # ---- smoothing sets (property level: contains the new dofs of the level, no Dirichlet dof)
    try:
        glob = hs.global_indices()
        inds = {s: hs.indices_to_smooth(s) for s in STRATEGIES}
        dirs = [set(int(i) for i in hs.dirichlet_dofs(lv)) for lv in range(L)]
    except Exception as ex:
        ctx.violation('exception %s indices_to_smooth bdspecs=%s' % (type(ex).__name__, 'None' if bd is None else 'list'),
                      {'case': sigbase, 'error': repr(ex)})
        return None
    for lv in range(L):
        order = [(l, mi) for l in range(L) for mi in glob[lv][l]]
        mydir = {i for i, (l, mi) in enumerate(order) if on_boundary(hs, l, mi, bd)}
        new = {i for i, (l, mi) in enumerate(order) if l == lv} - mydir
        if mydir != dirs[lv]:
            ctx.violation('dirichlet_dofs-mismatch', {'case': sigbase, 'level': lv, 'got': sorted(dirs[lv]), 'expected': sorted(mydir)})
        for s in STRATEGIES:
            S = [int(i) for i in inds[s][lv]]
            ctx.case('numeric: smoothing-set %s strategy=%s level=%d' % (name, s, lv), nontrivial=lv > 0)
            if len(set(S)) != len(S) or not set(S) <= set(range(len(order))):
                ctx.violation('smoothing-set-malformed strategy=%s' % s, {'case': sigbase, 'level': lv, 'set': S})
            elif not new <= set(S):
                ctx.violation('smoothing-set-misses-new-dofs strategy=%s' % s,
                              {'case': sigbase, 'level': lv, 'missing': sorted(new - set(S))})
            elif set(S) & mydir:
                ctx.violation('smoothing-set-contains-dirichlet-dof strategy=%s' % s,
                              {'case': sigbase, 'level': lv, 'dofs': sorted(set(S) & mydir)})
    return inds


def check_hspace(ctx, hs, name, bd, thorough):
    from pyiga import assemble, solvers
    L = hs.numlevels
    sigbase = 'hspace=%s' % name
    inds = check_sets(ctx, hs, name, bd)
    if inds is None or L < 2:
        return
    # ---- Galerkin system on the hierarchical space (finest-level tensor-product operator, no form compilation)
    kvs = hs.knotvectors(L - 1)
    Af = (assemble.stiffness(kvs) + assemble.mass(kvs)).tocsr()
    R = hs.represent_fine()
    A = (R.T @ Af @ R).tocsr()
    n = hs.numdofs
    ndofs = np.array(hs.non_dirichlet_dofs(), dtype=int)
    rng = np.random.RandomState(ctx.seed + n)
    f = rng.rand(n)
    xs = np.zeros(n)
    xs[ndofs] = np.linalg.solve(A[ndofs][:, ndofs].toarray(), f[ndofs])
    x0 = np.zeros(n)
    x0[ndofs] = rng.rand(len(ndofs)) - 0.5
    try:
        Ps = hs.virtual_hierarchy_prolongators()
    except Exception as ex:
        ctx.violation('exception %s virtual_hierarchy_prolongators' % type(ex).__name__, {'case': sigbase, 'error': repr(ex)})
        return
    e0 = x0 - xs
    E0 = e0 @ (A @ e0)
    for s in STRATEGIES:
        for sm in SMOOTHERS:
            for steps in ((1, 2) if thorough else (2,)):
                key = 'numeric: local_mg_step %s strategy=%s smoother=%s steps=%d' % (name, s, sm, steps)
                try:
                    step = solvers.local_mg_step(hs, A, f, Ps, inds[s], sm, steps)
                    y = step(xs.copy())
                    y1 = step(x0.copy())
                except Exception as ex:
                    ctx.violation('exception %s local_mg_step smoother=%s' % (type(ex).__name__, sm), {'case': key, 'error': repr(ex)})
                    continue
                ctx.case(key, sample={'case': key, 'levels': L, 'dofs': n} if s == 'trunc' and sm == 'exact' and L == 3 else None)
                if not np.allclose(y, xs, rtol=0, atol=1e-9 * max(1.0, abs(xs).max())):
                    ctx.violation('local_mg_step-not-fixed-point strategy=%s smoother=%s truncate=%s' % (s, sm, hs.truncate),
                                  {'case': key, 'maxdiff': float(abs(y - xs).max())})
                e1 = y1 - xs
                E1 = e1 @ (A @ e1)
                if E1 > E0 * (1 + 1e-9) + 1e-14:
                    ctx.violation('local_mg_step-increases-energy-error strategy=%s smoother=%s truncate=%s' % (s, sm, hs.truncate),
                                  {'case': key, 'E0': float(E0), 'E1': float(E1)})
    # ---- solve_hmultigrid: stops only when the reduction is met, or at the limit, which it reports
    for (s, sm, tol, maxiter) in (('cell_supp', 'gs', 1e-8, 500), ('new', 'symmetric_gs', 1e-10, 2), ('func_supp', 'exact', 1e-6, 1)):
        key = 'numeric: solve_hmultigrid %s strategy=%s smoother=%s tol=%g maxiter=%d' % (name, s, sm, tol, maxiter)
        out = io.StringIO()
        try:
            with contextlib.redirect_stdout(out):
                x, its = solvers.solve_hmultigrid(hs, A, f, strategy=s, smoother=sm, tol=tol, maxiter=maxiter)
        except Exception as ex:
            ctx.violation('exception %s solve_hmultigrid' % type(ex).__name__, {'case': key, 'error': repr(ex)})
            continue
        ctx.case(key)
        red = np.linalg.norm((f - A @ x)[ndofs]) / np.linalg.norm(f[ndofs])
        if np.isfinite(its):
            if not (red < tol and 1 <= its <= maxiter and float(its).is_integer()):
                ctx.violation('solve_hmultigrid-reports-convergence-without-reduction', {'case': key, 'reduction': float(red), 'iterations': its})
        else:
            # limit reported: exactly maxiter cycles were made and none of them met the reduction
            step = solvers.local_mg_step(hs, A, f, Ps, inds[s], sm)
            z = np.zeros(n)
            met = False
            for _ in range(maxiter):
                z = step(z)
                met = met or np.linalg.norm((f - A @ z)[ndofs]) / np.linalg.norm(f[ndofs]) < tol * (1 - 1e-6)
            if met or not np.allclose(z, x, rtol=1e-10, atol=1e-12) or out.getvalue().strip() == '':
                ctx.violation('solve_hmultigrid-limit-misreported', {'case': key, 'met_earlier': bool(met), 'printed': out.getvalue()})


def run_hier(ctx, hists):
    if not hists:
        raise MachineryError('HMarks produced no histories')
    thorough = ctx.thorough
    rng = np.random.RandomState(ctx.seed + 11)
    pick = sorted(rng.choice(len(hists), size=min(len(hists), 60 if thorough else 8), replace=False).tolist())
    pick = sorted(set(pick) | {len(hists) - 1, len(hists) // 2})      # include a 3-level and a mid one
    n0 = 4
    bd1 = [[(0, 0), (0, 1)], [(0, 0)], [], None]
    bd2 = [[(0, 0), (0, 1), (1, 0), (1, 1)], [(1, 0), (0, 1)]]
    combos = []
    for j, hi in enumerate(pick):
        h = hists[hi]
        for p in ((1, 2, 3) if thorough else (2,) if j % 2 else (1,)):
            for trunc in (False, True):
                for disp in ((np.inf, 1) if thorough or j % 3 == 0 else (np.inf,)):
                    combos.append((1, hi, h, None, p, trunc, disp, bd1[(j + p) % 4]))
        if j % (2 if thorough else 4) == 0:
            h2 = hists[pick[(j + 1) % len(pick)]]
            for trunc in (False, True):
                combos.append((2, hi, h, h2, 2 if j % 8 else 1, trunc, np.inf if j % 8 else 1, bd2[j % 2]))
    seen = set()
    for dim, hi, h, h2, p, trunc, disp, bd in combos:
        name = 'dim=%d p=%d n0=%d hist=%s%s truncate=%s disparity=%s bd=%s' % (
            dim, p, n0, json.dumps([(s['lv'], s['cells']) for s in h], separators=(',', ':')),
            '' if h2 is None else ' x ' + json.dumps([(s['lv'], s['cells']) for s in h2], separators=(',', ':')), trunc, disp, bd)
        if name in seen:
            continue
        seen.add(name)
        try:
            hs, applied = build_hspace(h, p, n0, dim, trunc, disp, bd, h2)
        except Exception as ex:
            ctx.skip('could not build %s: %r (refinement itself is property C04)' % (name, ex))
            continue
        check_hspace(ctx, hs, name, bd, thorough)
    # the adaptive loop on every multi-step history: read-only queries between the refine() calls
    multi = [h for h in hists if len(h) >= 2]
    if not thorough:
        multi = multi[::max(1, len(multi) // 150)]
    for j, h in enumerate(multi):
        for p in (1, 2):
            bd = bd1[j % 2]
            name = 'probed dim=1 p=%d n0=%d hist=%s bd=%s' % (p, n0, json.dumps([(s['lv'], s['cells']) for s in h], separators=(',', ':')), bd)
            try:
                hs, applied = build_hspace(h, p, n0, 1, bool(j % 3 == 0), np.inf, bd, probes=True)
            except Exception as ex:
                ctx.violation('exception %s refine-after-queries' % type(ex).__name__, {'case': name, 'error': repr(ex)})
                continue
            if len(applied) >= 2:
                check_sets(ctx, hs, name, bd)
    # bdspecs=None (the constructor default): the smoothing sets must still be computable (no Dirichlet dofs)
    hs, _ = build_hspace(hists[len(hists) // 2], 2, n0, 1, False, np.inf, None)
    try:
        hs.indices_to_smooth('new')
        hs.non_dirichlet_dofs()
        ctx.case('numeric: smoothing-set bdspecs=None')
    except Exception as ex:
        ctx.violation('exception %s indices_to_smooth bdspecs=None' % type(ex).__name__, {'error': repr(ex)})


# =====================================================================================================

def run(ctx):
    ctx.rule = ('(a) Relax.tla: one case per (matrix, x0, b, sweep, iterations, index list) x storage format x index '
                'container; non-trivial = at least 2 single-unknown updates. (b) IterDrivers.tla: every behaviour of the '
                'scripted residual sequence up to the iteration limit, replayed with 3 operator kinds (iterative_solve) / '
                'u0 given as None, list, tuple, ndarray (twogrid). (c) `numeric:` cases are numeric predicates on HSpace '
                'objects built from HMarks.tla histories (sampled with the run seed) and on SPD matrices of (a).')
    ctx.assumptions = [
        'Gauss-Seidel: n <= 4, integer entries in -2..2, diagonal in {1,2,4}; only cases whose exact trajectory is '
        'representable in binary64 are emitted, so equality is exact',
        'iterative drivers: residual norms from a 9-letter alphabet, maxiter <= 4; the residual seen by the loop is '
        'scripted through the step/smoother callback with A = P = identity',
        'hierarchical part is a numeric predicate: spaces from 1-D mark sequences (n0 = 4 cells, <= 3 levels, degrees '
        '1..3) and their 2-D tensorisation, operator = R^T (K+M) R with the shipped tensor-product assemblers; '
        'tolerances 1e-9; virtual-hierarchy order taken from HSpace.global_indices()',
        'twogrid limit exit happens after maxiter+1 iterations (recorded as the code\'s convention, not judged)',
    ]
    from pyiga import solvers  # noqa: F401
    th = ctx.thorough

    def gs_run(item):
        name, consts, workers = item
        cfg = write_cfg(ctx.scratch / ('relax_%s.cfg' % name), consts, invariants=GS_INVS)
        return ctx.tlc('Relax', cfg, workers=workers, timeout=3000)

    def it_run(drv):
        cfg = write_cfg(ctx.scratch / ('iter_%s.cfg' % drv), dict(Driver=drv, Grid=2 if th else 1, DoEmit=True), invariants=IT_INVS)
        return ctx.tlc('IterDrivers', cfg, workers=2, timeout=3000)

    def hm_run(_):
        cfg = write_cfg(ctx.scratch / 'hmarks.cfg', dict(N0=4, MaxLevel=2, MaxSteps=3 if th else 2, DoEmit=True),
                        invariants=['Partition', 'EmitHist'], view='View')
        return ctx.tlc('HMarks', cfg, workers=2, timeout=3000)

    gs_jobs = [('grid2', dict(N=2, Kind='grid', NSeeds=0, DoEmit=True), 3),
               ('lcg3', dict(N=3, Kind='lcg', NSeeds=1500 if th else 300, DoEmit=True), 3),
               ('lcg4', dict(N=4, Kind='lcg', NSeeds=1200 if th else 200, DoEmit=True), 3)]
    with ThreadPoolExecutor(3) as ex:
        f_gs = [ex.submit(gs_run, j) for j in gs_jobs]
        f_it = {d: ex.submit(it_run, d) for d in ('iterative', 'twogrid')}
        f_hm = ex.submit(hm_run, None)
        gs_res = [f.result() for f in f_gs]
        it_res = {d: f.result() for d, f in f_it.items()}
        hm_res = f_hm.result()

    # ---- Gauss-Seidel
    recs = [r for res in gs_res for r in res.recs('GS')]
    if not recs or not any(r['energy'] for r in recs):
        raise MachineryError('Relax produced no (SPD) cases')
    ctx.notes['relax'] = {'cases': len(recs), 'spd': sum(1 for r in recs if r['spd']),
                          'energy_invariant_evaluated': sum(1 for r in recs if r['energy'])}
    for k, rec in enumerate(recs):
        replay_gs(ctx, rec, k)
        if th or k % 5 == 0:
            replay_smoother_history(ctx, rec, k)
    spd = [r for r in recs if r['spd'] and len(r['A']) >= 3]
    seen = set()
    for k, rec in enumerate(spd):
        key = json.dumps(rec['A'])
        if key in seen or len(seen) >= (60 if th else 12):
            continue
        seen.add(key)
        check_twogrid_spd(ctx, rec, k)

    # ---- iterative drivers
    behs = it_res['iterative'].recs('BEH')
    if not behs or not it_res['twogrid'].recs('BEH'):
        raise MachineryError('IterDrivers produced no behaviours')
    for k, beh in enumerate(behs):
        replay_iterative(ctx, beh, k % 3)
        ctx.case(('iterative', json.dumps(beh, sort_keys=True)), nontrivial=len(beh['script']) >= 2,
                 sample={'driver': 'iterative_solve', 'par': beh['par'], 'res0': beh['res0'], 'script': beh['script'],
                         'outcome': beh['outcome']} if k == 1234 else None)
    check_iterative_exact_start(ctx)
    kinds = ('none', 'list', 'array', 'tuple')
    for k, beh in enumerate(it_res['twogrid'].recs('BEH')):
        replay_twogrid(ctx, beh, kinds[k % 4])
        ctx.case(('twogrid', kinds[k % 4], json.dumps(beh, sort_keys=True)), nontrivial=len(beh['script']) >= 2,
                 sample={'driver': 'twogrid', 'par': beh['par'], 'res0': beh['res0'], 'script': beh['script'],
                         'outcome': beh['outcome'], 'u0': kinds[k % 4]} if k == 2001 else None)

    # ---- hierarchical spaces
    run_hier(ctx, hm_res.recs('HIST'))
    ctx.exhaustive = True
