"""C03 -- hierarchical assembly is the level-wise Galerkin restriction of tensor-product assembly.

spec/HAssemble.tla (EXTENDS HRepr): for every reachable HSpace state the exact HB/THB representation matrices, and the
exact 1-D Galerkin matrices of every level; the expected hierarchical matrix is Repr^T A_fine Repr (Kronecker products
and congruence carried out by the harness from the exact rational pieces).  The real assemble(problem, hspace, ...),
HDiscretization.assemble_matrix / assemble_rhs / assemble_functional are compared entrywise, for symmetric and
nonsymmetric forms, a form with an input field, functionals, HB and THB, symmetric=True/False, bdspecs in
{None, [], faces}."""
import json
import os
import subprocess
import sys
from concurrent.futures import ThreadPoolExecutor
from fractions import Fraction
from functools import reduce

import numpy as np

from ..common import PY, REPO, VERIF, MachineryError, write_cfg
from .. import hs_util

INVS = ['FunChar', 'BasisOK', 'EmitGal']

FORMS = {
    'mass':  dict(expr='u*v*dx', sym=True, field=None),
    'stiff': dict(expr='inner(grad(u),grad(v))*dx', sym=True, field=None),
    'conv':  dict(expr='Dx(u,0)*v*dx', sym=False, field=None),
    'wmass': dict(expr='c*u*v*dx', sym=True, field='c'),
    'load':  dict(expr='f*v*dx', sym=None, field='f'),
}


LOAD2 = '2*f*v*dx'      # a second, different functional with the same inputs: expected vector = 2 x load


def configs(ctx):
    base = dict(D=1, P1=2, P2=0, N1=3, N2=0, MaxLev=3, Disp=0, TruncMark=False, MaxCalls=2, MarkCap=0, DoEmit=True)
    out = []

    def add(name, forms, workers=3, **kw):
        c = dict(base)
        c.update(kw)
        out.append((name, c, workers, forms))
    add('1d-p2-n3-inf', ['mass', 'stiff', 'conv', 'wmass', 'load'], MarkCap=2)
    add('1d-p1-n2-L4-d1', ['mass', 'stiff', 'conv', 'load'], P1=1, N1=2, MaxLev=4, Disp=1, MaxCalls=3, MarkCap=1)
    # three calls with single-cell marks: histories whose last call only ACTIVATES functions on an existing level below a
    # finer one (replayed with queries between the calls)
    add('1d-p1-n4-c3', ['mass'], P1=1, N1=4, MaxCalls=3, MarkCap=1, workers=6)
    add('2d-p12-2x2-inf', ['mass', 'conv'], D=2, P1=1, P2=2, N1=2, N2=2, MarkCap=1, workers=10)
    if ctx.thorough:
        add('1d-p3-n3-d1', ['mass', 'stiff', 'conv', 'wmass', 'load'], P1=3, Disp=1, MaxCalls=3, MarkCap=2, workers=4)
        add('1d-p2-n4-d2-L4', ['mass', 'stiff', 'wmass', 'load'], N1=4, MaxLev=4, Disp=2, MaxCalls=3, MarkCap=2, workers=4)
        add('2d-p2-2x2-d1', ['mass', 'stiff', 'conv', 'wmass', 'load'], D=2, P1=2, P2=2, N1=2, N2=2, Disp=1, MarkCap=2, workers=8)
        add('2d-p21-3x2-inf', ['stiff', 'wmass', 'load'], D=2, P1=2, P2=1, N1=3, N2=2, MarkCap=1, workers=6)
    return out


def rat(m):
    m = np.array([[Fraction(e[0], e[1]) for e in row] for row in m], dtype=object)
    return m.astype(float)


def ratv(v):
    return np.array([float(Fraction(e[0], e[1])) for e in v])


def kron_all(ms):
    return reduce(np.kron, ms)


def fine_matrix(gal, lt, form, D):
    g = gal[lt]
    if form == 'mass':
        return kron_all([rat(g[a]['mass']) for a in range(D)])
    if form == 'wmass':
        return kron_all([rat(g[a]['wmass']) for a in range(D)])
    if form == 'stiff':
        tot = 0
        for b in range(D):
            tot = tot + kron_all([rat(g[a]['stiff' if a == b else 'mass']) for a in range(D)])
        return tot
    if form == 'conv':      # d/dx = derivative along the LAST axis
        return kron_all([rat(g[a]['conv' if a == D - 1 else 'mass']) for a in range(D)])
    if form == 'load':
        return kron_all([ratv(g[a]['load']).reshape(-1, 1) for a in range(D)]).ravel()
    raise KeyError(form)


def dense(sp, nr, nc):
    A = np.zeros((nr, nc))
    for r, c, n, d in sp:
        A[r, c] = float(Fraction(n, d))
    return A


def field_args(form, S, D, kvs):
    """input fields of the forms: separable polynomials matching HAssemble's Wt / Ft (x <-> last axis)"""
    from pyiga import geometry
    args = {'geo': geometry.identity(kvs)}
    Sx = S[::-1]        # x-first order
    if form == 'wmass':
        args['c'] = (lambda *X: np.prod([1.0 + X[i] / Sx[i] for i in range(D)], axis=0))
    if form == 'load':
        args['f'] = (lambda *X: np.prod([1.0 + X[i] ** 2 / Sx[i] ** 2 for i in range(D)], axis=0))
    return args


PREWARM = r'''
import sys, json
sys.path.insert(0, %(repo)r); sys.path.insert(0, %(verif)r)
import numpy as np
from harness import hs_util
from harness.drivers import c03
from pyiga import assemble
cfg = json.loads(%(cfg)r)
form = %(form)r
hs = hs_util.make_space(cfg, integer_grid=True)
S = [float(kv.kv[-1]) for kv in hs.knotvectors(0)]
args = c03.field_args(form, S, cfg['D'], hs.knotvectors(0))
assemble.assemble(c03.FORMS[form]['expr'], hs, args=args)
if form == 'load':
    from pyiga.hierarchical import HDiscretization
    from pyiga import vform
    hd = HDiscretization(hs, None, args)
    hd.assemble_rhs()
    hd.assemble_functional(vform.parse_vf(c03.LOAD2, hs.knotvectors(0), args=args))
print('ok')
'''


def prewarm(ctx, cfg, form):
    """compile the on-demand assembler of (form, dim) in a subprocess into this run's private cache"""
    code = PREWARM % dict(repo=str(REPO), verif=str(VERIF), cfg=json.dumps(cfg), form=form)
    r = subprocess.run([PY, '-c', code], env=dict(os.environ), stdout=subprocess.PIPE, stderr=subprocess.PIPE,
                       text=True, timeout=1800)
    return form, cfg['D'], r.returncode, r.stderr[-800:]


def check_state(ctx, name, consts, forms, gal, rp, n_state):
    from pyiga import assemble
    from pyiga.hierarchical import HDiscretization
    D = consts['D']
    hist = rp['hist']
    marks = [c['marks'] for c in hist]
    key = json.dumps(marks)
    bdvariants = [None, [], ['left'] if D == 1 else ['left', 'top']]
    bds = bdvariants[n_state % 3]
    for trunc in (False, True):
        # every second state: the adaptive loop -- read-only queries (they fill the index caches) between the refine() calls
        hs, _, err = hs_util.replay_history(consts, hist, truncate=trunc, bdspecs=bds, truncflag=consts['TruncMark'],
                                            integer_grid=True, probes=n_state % 2 == 1 or name.endswith('-c3'))
        if err is not None:
            ctx.skip('refine raised (reported by C04)')
            return
        F = [(l, tuple(x)) for l, x in hs.active_functions(flat=True)]
        if F != [(e['l'], tuple(e['x'])) for e in rp['canonF']]:
            ctx.skip('admissible closure differs from the model')
            return
        n = len(F)
        lt = hs.numlevels - 1
        R = dense(rp['thb' if trunc else 'hb'], rp['nfine'], n)
        kvs0 = hs.knotvectors(0)
        S = [float(kv.kv[-1]) for kv in kvs0]
        for form in forms:
            spec = FORMS[form]
            sig = 'form=%s truncate=%s bdspecs=%s config=%s marks=%s' % (form, trunc, bds, name, key)
            args = field_args(form, S, D, kvs0)
            Afine = fine_matrix(gal, lt, form, D)
            try:
                if form == 'load':
                    exp = R.T @ Afine
                    got = assemble.assemble(spec['expr'], hs, args=dict(args))
                    # ONE discretization object, several functionals one after the other (each must be the one asked for)
                    from pyiga import vform
                    hd = HDiscretization(hs, None, dict(args))
                    got2 = hd.assemble_rhs()
                    got3 = hd.assemble_functional(vform.parse_vf(LOAD2, kvs0, args=dict(args)))
                    got4 = hd.assemble_rhs()
                    outs = [('assemble', np.asarray(got).ravel()), ('assemble_rhs', np.asarray(got2).ravel()),
                            ('assemble_functional-second-functional-on-same-object', np.asarray(got3).ravel() / 2.0),
                            ('assemble_rhs-after-other-functional', np.asarray(got4).ravel())]
                else:
                    exp = R.T @ Afine @ R
                    outs = [('assemble', assemble.assemble(spec['expr'], hs, args=dict(args)).toarray())]
                    if spec['sym']:
                        outs.append(('assemble-symmetric', assemble.assemble(spec['expr'], hs, args=dict(args), symmetric=True).toarray()))
                    if n_state % 4 == 0 or spec['field']:
                        from pyiga import vform
                        vf = vform.parse_vf(spec['expr'], kvs0, args=dict(args))
                        hd = HDiscretization(hs, vf, dict(args))
                        if spec['field']:
                            # a failing user callback in the first attempt, then the corrected arguments on the SAME object
                            def boom(*X):
                                raise FloatingPointError('coefficient callback failed')
                            hd.asm_args = dict(args, **{spec['field']: boom})
                            try:
                                hd.assemble_matrix()
                                outs.append(('failing-callback-not-propagated', None))
                            except FloatingPointError:
                                pass
                            hd.asm_args = dict(args)
                            outs.append(('HDiscretization.assemble_matrix-after-failed-attempt', hd.assemble_matrix().toarray()))
                            # ... and an UPDATED coefficient on the same object (a fixed-point / Newton loop replaces an entry of
                            # asm_args between two assemblies): the form is linear in the field, twice the field gives twice
                            # the matrix; then the original field again
                            f0 = args[spec['field']]
                            hd.asm_args = dict(args, **{spec['field']: (lambda *X, _f=f0: 2.0 * _f(*X))})
                            outs.append(('HDiscretization.assemble_matrix-after-input-update-on-same-object',
                                         hd.assemble_matrix().toarray() / 2.0))
                            hd.asm_args = dict(args)
                            outs.append(('HDiscretization.assemble_matrix-after-input-restored-on-same-object',
                                         hd.assemble_matrix().toarray()))
                        else:
                            outs.append(('HDiscretization.assemble_matrix', hd.assemble_matrix().toarray()))
            except Exception as ex:
                ctx.violation('exception %s %s' % (type(ex).__name__, sig), {'error': repr(ex)})
                continue
            scale = max(1.0, float(np.abs(exp).max()))
            for route, A in outs:
                if A is None or A.shape != exp.shape or np.abs(A - exp).max() > 1e-10 * scale:
                    ctx.violation('mismatch route=%s %s' % (route, sig),
                                  {'maxdiff': float(np.abs(A - exp).max()) if A is not None and A.shape == exp.shape else 'shape',
                                   'numdofs': n, 'levels': lt + 1})
                    break
            ctx.case((name, key, form, trunc), nontrivial=lt >= 1,
                     sample={'config': name, 'marks_per_call': marks, 'form': spec['expr'], 'truncate': trunc,
                             'bdspecs': bds, 'numdofs': n, 'levels': lt + 1} if len(ctx.samples) < 4 and lt >= 2 else None)


def check_repeated_knots(ctx, name, consts, hist, n_state):
    """Coarse knot vectors with interior knots of multiplicity 2 (outside the HSpace model, whose levels have simple knots):
    the same refinement history on the real code; numeric predicate A_hier = R^T A_fine R with R = represent_fine() of the
    same object (the representation itself is the subject of C04/C05) and A_fine the tensor-product matrix of the finest
    level."""
    from pyiga import assemble, bspline, hierarchical, geometry
    D = consts['D']
    if min([consts['P1'], consts['P2']][:D]) < 2:
        return
    disp = consts['Disp'] if consts['Disp'] > 0 else np.inf
    kvs = hs_util.make_kvs(consts, integer_grid=True, mult=2)
    marks = [c['marks'] for c in hist]
    sig = 'repeated-interior-knots config=%s marks=%s' % (name, json.dumps(marks))
    for trunc in (False, True):
        try:
            hs = hierarchical.HSpace(kvs, truncate=trunc, disparity=disp)
            for call in hist:
                hs.refine(hs_util.render_marks(call, 'set', hs))
            geo = geometry.identity(kvs)
            A = assemble.assemble('u*v*dx', hs, args={'geo': geo}).toarray()
            R = hs.represent_fine().toarray()
            Af = assemble.mass(hs.knotvectors(hs.numlevels - 1)).toarray()
            want = R.T @ Af @ R
            ctx.case((name, json.dumps(marks), 'mult2', trunc), nontrivial=hs.numlevels >= 2)
            if A.shape != want.shape or np.abs(A - want).max() > 1e-10 * max(1.0, np.abs(want).max()):
                ctx.violation('numeric: hierarchical mass matrix differs from R^T M_fine R truncate=%s %s' % (trunc, sig),
                              {'maxdiff': float(np.abs(A - want).max()) if A.shape == want.shape else 'shape'})
        except Exception as ex:
            ctx.violation('exception %s %s truncate=%s' % (type(ex).__name__, sig, trunc), {'error': repr(ex)})


def run(ctx):
    ctx.rule = ('one case = (reachable HSpace state from HAssemble/HRepr, form, HB|THB): the real hierarchical matrix/vector '
                'against Repr^T A_fine Repr from exact rational pieces; non-trivial = space with >= 2 levels')
    ctx.assumptions = ['identity geometry on the integer grid domain; integrands polynomial within the exactness of the '
                       'quadrature (mass, stiffness, d_x u v, linear coefficient field, quadratic load)',
                       'the C compiler builds the on-demand assemblers for real (private cache per run)']
    todo = configs(ctx)
    pool = ThreadPoolExecutor(12)
    # compile the needed (form, dim) assemblers in parallel while TLC runs
    need = {}
    for name, consts, workers, forms in todo:
        for f in forms:
            need.setdefault((f, consts['D']), consts)
    pw = [pool.submit(prewarm, ctx, cfg, f) for (f, d), cfg in need.items()]

    def one(item):
        name, consts, workers, forms = item
        # the '-c3' configuration is explored WITHOUT a view: every history (every order of the calls) is a state of its
        # own and is replayed, not only one history per reachable space
        cfg = write_cfg(ctx.scratch / ('ha_%s.cfg' % name), consts, invariants=INVS, view=None if name.endswith('-c3') else 'View')
        return name, consts, forms, ctx.tlc('HAssemble', cfg, workers=workers, timeout=3000)
    runs = [pool.submit(one, it) for it in todo]
    for f in pw:
        form, d, rc, err = f.result()
        if rc != 0:
            # the real pipeline failed to build/run this form: that is a finding of its own, reported per state below
            print('[prewarm] form=%s dim=%d failed: %s' % (form, d, err[-300:]))
    for r in runs:
        name, consts, forms, res = r.result()
        gal = res.recs('GAL')
        reps = res.recs('REPR')
        if len(gal) != 1 or not reps:
            raise MachineryError('HAssemble emitted nothing for %s' % name)
        g = gal[0]['gal']
        for n_state, rp in enumerate(reps):
            check_state(ctx, name, consts, forms, g, rp, n_state)
            if n_state % 3 == 0 and not name.endswith('-c3'):
                check_repeated_knots(ctx, name, consts, rp['hist'], n_state)
    pool.shutdown()
    ctx.exhaustive = True
