"""C05 -- every transfer between nested spline spaces preserves the function.

Reference: spec/HRepr.tla (exact HB/THB representation matrices of every reachable HSpace state, exact two-scale
matrices) and spec/KnotInsertCases.tla (Boehm insertion / prolongation between nested knot vectors, BSplineRef).
Property-level identities with the code's matrix in the middle and the spec's matrices outside:
   bspline.prolongation / knot_insertion               == Prolong / InsMat
   Repr(fine) * prolongate_to                          == TPProlong * Repr(coarse)
   Repr(trunc) * (all virtual-hierarchy prolongators)  == TPProlong(0 -> finest)
   columns of Repr * (prolongators from level k)       span the virtual level-k space
   HSplineFunc values / Jacobians / Hessians           == tensor-product spline with coefficients Repr * u
   boundary(bdspec)                                    : trace of function idx[k] == boundary function k."""
import json
from concurrent.futures import ThreadPoolExecutor
from fractions import Fraction
from functools import reduce

import itertools
import numpy as np

from ..common import MachineryError, write_cfg
from .. import hs_util

INVS = ['FunChar', 'BasisOK', 'EmitTS']


def configs(ctx):
    base = dict(D=1, P1=2, P2=0, N1=3, N2=0, MaxLev=3, Disp=0, TruncMark=False, MaxCalls=2, MarkCap=0, DoEmit=True)
    out = []

    def add(name, workers=3, **kw):
        c = dict(base)
        c.update(kw)
        out.append((name, c, workers))
    add('1d-p2-n3-inf')
    add('1d-p2-n4-d1', N1=4, Disp=1, MarkCap=2)
    add('1d-p1-n2-L4-d1', P1=1, N1=2, MaxLev=4, Disp=1, MaxCalls=3, MarkCap=1)
    add('1d-p1-n5-inf', P1=1, N1=5, MarkCap=1)     # interior single cells: refinements that only ACTIVATE functions
    add('2d-p12-2x2-inf', D=2, P1=1, P2=2, N1=2, N2=2, MarkCap=1, workers=10)
    import os
    if os.environ.get('VERIF_ONLY_CONFIG'):      # debugging aid: restrict to one configuration
        out = [o for o in out if o[0] == os.environ['VERIF_ONLY_CONFIG']]
        return out
    if ctx.thorough:
        add('1d-p3-n3-inf-c3', P1=3, MaxCalls=3, MarkCap=2, workers=4)
        add('1d-p2-n3-d2-L4', MaxLev=4, Disp=2, MaxCalls=3, MarkCap=2, workers=4)
        add('1d-p1-n3-inf-L4', P1=1, MaxLev=4, MaxCalls=3, MarkCap=1, workers=4)
        add('2d-p2-2x2-d1', D=2, P1=2, P2=2, N1=2, N2=2, Disp=1, MarkCap=2, workers=8)
        add('2d-p1-3x2-inf', D=2, P1=1, P2=1, N1=3, N2=2, MarkCap=2, workers=8)
    return out


def rat(m):
    return np.array([[float(Fraction(e[0], e[1])) for e in row] for row in m])


def kron_all(ms):
    return reduce(np.kron, ms)


class Ref:
    """exact two-scale data of one configuration"""

    def __init__(self, ts):
        self.ts = [[rat(a) for a in lvl] for lvl in ts['ts']]       # [l][axis] -> (fine x coarse)
        self.nf = ts['nf']

    def tp(self, l0, l1):
        """tensor-product prolongation level l0 -> l1 (C order, last axis fastest)"""
        n0 = int(np.prod(self.nf[l0]))
        P = np.eye(n0)
        for l in range(l0, l1):
            P = kron_all(self.ts[l]) @ P
        return P


def dense(sp, nr, nc):
    A = np.zeros((nr, nc))
    for r, c, n, d in sp:
        A[r, c] = float(Fraction(n, d))
    return A


def colspace_equal(A, B, tol=1e-9):
    ra = np.linalg.matrix_rank(A, tol)
    rb = np.linalg.matrix_rank(B, tol)
    rab = np.linalg.matrix_rank(np.hstack([A, B]), tol)
    return ra == rb == rab


def check_state(ctx, name, consts, ref, rp, by_hist):
    from pyiga import bspline, hierarchical
    hist = rp['hist']
    marks = [c['marks'] for c in hist]
    key = json.dumps(marks)
    sig = 'config=%s marks=%s' % (name, key)
    probed = len(key) % 2 == 1     # half of the histories with read-only queries between the refine() calls
    hs, _, err = hs_util.replay_history(consts, hist, truncflag=consts['TruncMark'], probes=probed)
    if err is not None:
        ctx.skip('refine raised (reported by C04)')
        return
    if probed:
        hs_util.probe(hs)
    F = [(l, tuple(x)) for l, x in hs.active_functions(flat=True)]
    if F != [(e['l'], tuple(e['x'])) for e in rp['canonF']]:
        ctx.skip('admissible closure differs from the model')
        return
    n = len(F)
    Lc = hs.numlevels
    H = dense(rp['hb'], rp['nfine'], n)
    T = dense(rp['thb'], rp['nfine'], n)
    nontriv = Lc >= 3 or len(hist) >= 2
    ctx.case((name, key), nontrivial=nontriv,
             sample={'config': name, 'marks_per_call': marks, 'levels': Lc, 'numdofs': n} if len(ctx.samples) < 3 and nontriv else None)

    # (i) tensor-product prolongators of the level hierarchy
    try:
        for l in range(Lc - 1):
            Pc = kron_all([p.toarray() for p in hs.tp_prolongation(l)])
            if abs(Pc - ref.tp(l, l + 1)).max() > 1e-13:
                ctx.violation('tp_prolongation level=%d %s' % (l, sig), {})
                return
    except Exception as ex:
        ctx.violation('exception %s in tp_prolongation %s' % (type(ex).__name__, sig), {'error': repr(ex)})
        return

    # (ii) virtual hierarchy prolongators
    for trunc, R in ((False, H), (True, T)):
        try:
            Ps = [P.toarray() for P in hs.virtual_hierarchy_prolongators(truncate=trunc)]
        except Exception as ex:
            ctx.violation('exception %s in virtual_hierarchy_prolongators truncate=%s %s' % (type(ex).__name__, trunc, sig),
                          {'error': repr(ex)})
            continue
        if not Ps:
            continue
        comp = [None] * len(Ps)          # comp[k] = P_{L-2} ... P_k
        acc = np.eye(Ps[-1].shape[0])
        for k in reversed(range(len(Ps))):
            acc = acc @ Ps[k]
            comp[k] = acc
        bad = None
        # dofs of virtual level 0 are numbered: active functions of level 0, then the deactivated ones
        perm0 = np.concatenate([hs.active_indices()[0], hs.deactivated_indices()[0]]).astype(int)
        want = ref.tp(0, Lc - 1)[:, perm0]
        if comp[0].shape != (n, int(np.prod(ref.nf[0]))):
            bad = 'shape'
        elif abs(R @ comp[0] - want).max() > 1e-11:
            bad = 'function-not-preserved maxdiff=%.2e' % abs(R @ comp[0] - want).max()
        else:
            for k in range(1, len(Ps)):
                # virtual level-k space: active functions of levels < k, active + deactivated ones on level k
                cols = []
                for l in range(k + 1):
                    fs = sorted(hs.actfun[l] | (hs.deactfun[l] if l == k else set()))
                    if not fs:
                        continue
                    idx = np.ravel_multi_index(np.array(fs).T, hs.mesh(l).numdofs)
                    cols.append(ref.tp(l, Lc - 1)[:, idx])
                V = np.hstack(cols)
                if comp[k].shape[1] != V.shape[1] or not colspace_equal(R @ comp[k], V):
                    bad = 'span-of-level-%d' % k
                    break
        if bad:
            ctx.violation('virtual_hierarchy_prolongators truncate=%s numlevels%s3' % (trunc, '>=' if Lc >= 3 else '<'),
                          {'config': name, 'marks_per_call': marks, 'what': bad})

    hs_fine = hs
    # (iii) prolongate_to from the parent state (history without the last call)
    parent = by_hist.get(json.dumps(marks[:-1])) if len(marks) >= 2 else 'init'
    if parent is not None:
        hc, _, err = hs_util.replay_history(consts, hist[:-1], truncflag=consts['TruncMark'], probes=probed)
        if err is None and probed:
            # the documented idiom: query the coarse space, then fine = coarse.copy(); fine.refine(marks)
            hs_util.probe(hc)
            try:
                fine = hc.copy()
                m = hs_util.render_marks(hist[-1], 'set', fine)
                fine.refine(m, truncate=True) if consts['TruncMark'] else fine.refine(m)
                if hs_util.project(fine) == hs_util.project(hs):
                    hs_fine = fine
                else:
                    ctx.violation('copy-then-refine differs from direct history %s' % sig, {})
                    hs_fine = hs
            except Exception as ex:
                ctx.violation('exception %s in copy-then-refine %s' % (type(ex).__name__, sig), {'error': repr(ex)})
                hs_fine = hs
        else:
            hs_fine = hs
        if err is None:
            if parent == 'init':
                Hc = np.eye(int(np.prod(ref.nf[0])))
                okp = True
            else:
                Fp = [(l, tuple(x)) for l, x in hc.active_functions(flat=True)]
                okp = Fp == [(e['l'], tuple(e['x'])) for e in parent['canonF']]
                Hc = dense(parent['hb'], parent['nfine'], len(Fp)) if okp else None
            if okp:
                try:
                    P = hc.prolongate_to(hs_fine).toarray()
                    lhs = H @ P
                    rhs = ref.tp(hc.numlevels - 1, Lc - 1) @ Hc
                    if P.shape != (n, Hc.shape[1]) or abs(lhs - rhs).max() > 1e-11:
                        ctx.violation('prolongate_to disparity=%s' % (consts['Disp'] or 'inf'),
                                      {'config': name, 'marks_per_call': marks,
                                       'maxdiff': float(abs(lhs - rhs).max()) if lhs.shape == rhs.shape else 'shape'})
                except Exception as ex:
                    ctx.violation('exception %s in prolongate_to %s' % (type(ex).__name__, sig), {'error': repr(ex)})

    # (iii'') prolongate_to from every EARLIER ancestor (in particular the tensor-product space the history started from):
    # levels in between may have no active function left
    for k in range(0, len(marks) - 1):
        anc = 'init' if k == 0 else by_hist.get(json.dumps(marks[:k]))
        if anc is None:
            continue
        try:
            ha, _, erra = hs_util.replay_history(consts, hist[:k], truncflag=consts['TruncMark'])
            if erra is not None:
                continue
            if anc == 'init':
                Ha = np.eye(int(np.prod(ref.nf[0])))
            else:
                Fa = [(l, tuple(x)) for l, x in ha.active_functions(flat=True)]
                if Fa != [(e['l'], tuple(e['x'])) for e in anc['canonF']]:
                    continue
                Ha = dense(anc['hb'], anc['nfine'], len(Fa))
            P = ha.prolongate_to(hs_fine).toarray()
            lhs = H @ P
            rhs = ref.tp(ha.numlevels - 1, Lc - 1) @ Ha
            if P.shape != (n, Ha.shape[1]) or abs(lhs - rhs).max() > 1e-11:
                ctx.violation('prolongate_to disparity=%s from-ancestor steps-back=%d' % (consts['Disp'] or 'inf', len(marks) - k),
                              {'config': name, 'marks_per_call': marks, 'ancestor_calls': k,
                               'maxdiff': float(abs(lhs - rhs).max()) if lhs.shape == rhs.shape else 'shape'})
        except Exception as ex:
            ctx.violation('exception %s in prolongate_to from-ancestor %s' % (type(ex).__name__, sig), {'error': repr(ex)})

    # (iii') the two calls in the other order (one history per reachable state is emitted, so the reverse order of a
    # commuting pair is otherwise never replayed): same space, and prolongate_to from the other intermediate space
    if len(marks) == 2 and consts['Disp'] == 0 and all(not lv for lv in marks[1][1:]) and all(not lv for lv in marks[0][1:]):
        parent2 = by_hist.get(json.dumps([marks[1]]))
        if parent2 is not None:
            try:
                hc2, _, err2 = hs_util.replay_history(consts, [hist[1]], probes=True)
                hs_util.probe(hc2)
                fine2 = hc2.copy()
                fine2.refine(hs_util.render_marks(hist[0], 'set', fine2))
                Fp = [(l, tuple(x)) for l, x in hc2.active_functions(flat=True)]
                if err2 is None and hs_util.project(fine2) == hs_util.project(hs_fine) and \
                        Fp == [(e['l'], tuple(e['x'])) for e in parent2['canonF']]:
                    Hc2 = dense(parent2['hb'], parent2['nfine'], len(Fp))
                    P = hc2.prolongate_to(fine2).toarray()
                    lhs = H @ P
                    rhs = ref.tp(hc2.numlevels - 1, Lc - 1) @ Hc2
                    if P.shape != (n, Hc2.shape[1]) or abs(lhs - rhs).max() > 1e-11:
                        ctx.violation('prolongate_to disparity=inf after-queries reversed-order',
                                      {'config': name, 'marks_per_call': [marks[1], marks[0]],
                                       'maxdiff': float(abs(lhs - rhs).max()) if lhs.shape == rhs.shape else 'shape'})
                    if probed:
                        hs_fine = fine2
                elif err2 is None and hs_util.project(fine2) != hs_util.project(hs_fine):
                    ctx.violation('refinement-not-commutative ' + sig, {})
            except Exception as ex:
                ctx.violation('exception %s in reversed-order prolongate_to %s' % (type(ex).__name__, sig), {'error': repr(ex)})

    hs = hs_fine        # (probed histories: the copy()-then-refine object, with whatever tables it inherited)
    # (iv) HSplineFunc evaluation vs. the tensor-product spline with coefficients Repr * u
    rng = np.random.RandomState(ctx.seed + n)
    u = rng.randint(-3, 4, size=n).astype(float)
    kvf = hs.knotvectors(Lc - 1)
    grid = tuple(np.unique(np.concatenate([np.linspace(0, 1, 7), kv.mesh[:3], [0.3, 0.77]])) for kv in kvf)
    for trunc, R in ((False, H), (True, T)):
        try:
            f = hierarchical.HSplineFunc(hs, u, truncate=trunc)
            g = bspline.BSplineFunc(kvf, (R @ u).reshape(tuple(kv.numdofs for kv in kvf)))
            checks = [('grid_eval', f.grid_eval(grid), g.grid_eval(grid)),
                      ('grid_jacobian', f.grid_jacobian(grid), g.grid_jacobian(grid)),
                      ('grid_hessian', f.grid_hessian(grid), g.grid_hessian(grid))]
            pt = tuple(0.3 + 0.1 * a for a in range(len(kvf)))
            checks.append(('call', np.asarray(f(*pt)), np.asarray(g(*pt))))
            # single points at every combination of: both ends of the parameter interval (the upper end belongs to the last
            # cell of every level), the first and the last interior breakpoint of the finest mesh, an interior point
            axes_pts = [sorted({float(kv.kv[0]), float(kv.kv[-1]), float(kv.mesh[1]), float(kv.mesh[-2]), 0.3 + 0.1 * a})
                        for a, kv in enumerate(kvf)]
            P = list(itertools.product(*axes_pts))
            checks.append(('call(at ends, breakpoints and interior points)',
                           np.array([np.asarray(f(*[q[len(kvf) - 1 - c] for c in range(len(kvf))]), dtype=float) for q in P]),
                           np.array([np.asarray(g(*[q[len(kvf) - 1 - c] for c in range(len(kvf))]), dtype=float) for q in P])))
            for nm, a, b in checks:
                a, b = np.asarray(a, dtype=float), np.asarray(b, dtype=float)
                scale = max(1.0, abs(b).max())
                if a.shape != b.shape or abs(a - b).max() > 1e-10 * scale * (4 ** (Lc - 1)) ** 2:
                    ctx.violation('HSplineFunc.%s truncate=%s %s' % (nm, trunc, sig),
                                  {'maxdiff': float(abs(a - b).max()) if a.shape == b.shape else 'shape'})
                    break
        except Exception as ex:
            ctx.violation('exception %s in HSplineFunc truncate=%s %s' % (type(ex).__name__, trunc, sig), {'error': repr(ex)})

    # (iv'') the flag of the function against the flag of the space: a space built with truncate=True/False and the argument
    # truncate=None (inherit from the space) / False / True -- the explicit argument wins, None inherits
    try:
        hs_thb, _, errt2 = hs_util.replay_history(consts, hist, truncate=True, truncflag=consts['TruncMark'])
        if errt2 is None and hs_util.project(hs_thb) == hs_util.project(hs):
            for space, sflag in ((hs, False), (hs_thb, True)):
                for arg in (None, False, True):
                    if space is hs and arg is not None:
                        continue                      # done above
                    eff = sflag if arg is None else arg
                    f = hierarchical.HSplineFunc(space, u) if arg is None else hierarchical.HSplineFunc(space, u, truncate=arg)
                    g = bspline.BSplineFunc(kvf, ((T if eff else H) @ u).reshape(tuple(kv.numdofs for kv in kvf)))
                    a, b = np.asarray(f.grid_eval(grid), dtype=float), np.asarray(g.grid_eval(grid), dtype=float)
                    if a.shape != b.shape or abs(a - b).max() > 1e-10 * max(1.0, abs(b).max()) * (4 ** (Lc - 1)) ** 2:
                        ctx.violation('HSplineFunc.grid_eval space-truncate=%s argument-truncate=%s %s' % (sflag, arg, sig),
                                      {'maxdiff': float(abs(a - b).max()) if a.shape == b.shape else 'shape'})
    except Exception as ex:
        ctx.violation('exception %s in HSplineFunc flag combinations %s' % (type(ex).__name__, sig), {'error': repr(ex)})

    # (iv') directions that differ ONLY in the position of their knots (same degree, size, interval): uniform along one axis,
    # graded along the other -- outside the HSpace model (uniform levels), so a numeric predicate on the same history:
    # level-wise evaluation of random coefficients = the finest tensor-product spline with coefficients represent_fine() u
    if hs.dim == 2 and len(hist) >= 1:
        try:
            pg = max(consts['P1'], consts['P2'])
            kvu = bspline.make_knots(pg, 0.0, 1.0, consts['N1'])
            br = np.linspace(0.0, 1.0, consts['N2'] + 1) ** 2            # graded breakpoints, same count if N1 == N2
            kvg = bspline.KnotVector(np.concatenate([np.zeros(pg), br, np.ones(pg)]), pg)
            if consts['N1'] == consts['N2']:
                for trunc in (False, True):
                    hg = hierarchical.HSpace((kvu, kvg), truncate=trunc, disparity=(consts['Disp'] or np.inf))
                    for call in hist:
                        hg.refine(hs_util.render_marks(call, 'set', hg))
                    ug = np.random.RandomState(7 + n).randint(-3, 4, size=hg.numdofs).astype(float)
                    fg = hierarchical.HSplineFunc(hg, ug)
                    kvf2 = hg.knotvectors(hg.numlevels - 1)
                    gg = bspline.BSplineFunc(kvf2, (hg.represent_fine() @ ug).reshape(tuple(kv.numdofs for kv in kvf2)))
                    grid2 = (np.linspace(0, 1, 9), np.linspace(0, 1, 11))
                    a, b = np.asarray(fg.grid_eval(grid2)), np.asarray(gg.grid_eval(grid2))
                    if a.shape != b.shape or abs(a - b).max() > 1e-10 * max(1.0, abs(b).max()):
                        ctx.violation('numeric: level-wise evaluation differs from represent_fine on uniform x graded directions truncate=%s'
                                      % trunc, {'config': name, 'marks_per_call': marks, 'maxdiff': float(abs(a - b).max())})
        except Exception as ex:
            ctx.violation('exception %s uniform x graded directions %s' % (type(ex).__name__, sig), {'error': repr(ex)})

    # (v') a THB space restricts to a THB space: the trace of sum_i u_i T_i is sum_k u_idx[k] T^b_k in the face space's OWN
    # (default) basis
    if hs.dim == 2:
        hs_t, _, errt = hs_util.replay_history(consts, hist, truncate=True, truncflag=consts['TruncMark'])
        if errt is None and hs_util.project(hs_t) == hs_util.project(hs):
            nfine_ = tuple(kv.numdofs for kv in hs.knotvectors(Lc - 1))
            for bd in ((0, 0), (1, 1)):
                try:
                    bhs, idx = hs_t.boundary(bd)
                    idx = np.asarray(idx)
                    Tb = bhs.represent_fine().toarray()          # the face space's default basis
                    Pb = np.eye(Tb.shape[0])
                    for l in range(bhs.numlevels - 1, Lc - 1):
                        Pb = ref.ts[l][1 - bd[0]] @ Pb
                    Tb = Pb @ Tb
                    Tfull = T.reshape(nfine_ + (n,))
                    tr = Tfull[0 if bd[1] == 0 else -1, :, :] if bd[0] == 0 else Tfull[:, 0 if bd[1] == 0 else -1, :]
                    if not bool(getattr(bhs, 'truncate', False)) or tr[:, idx].shape != Tb.shape or abs(tr[:, idx] - Tb).max() > 1e-11:
                        ctx.violation('boundary of a THB space: trace not preserved in the face space basis bdspec=%s' % (bd,),
                                      {'config': name, 'marks_per_call': marks, 'face_space_truncate': bool(getattr(bhs, 'truncate', False))})
                except Exception as ex:
                    ctx.violation('exception %s in boundary (THB) bdspec=%s %s' % (type(ex).__name__, bd, sig), {'error': repr(ex)})

    # (v) restriction to boundary faces (2-D)
    if hs.dim == 2:
        nfine = tuple(kv.numdofs for kv in kvf)
        for bd in ('left', 'right', 'bottom', 'top', (0, 1), (1, 0)):
            try:
                bhs, idx = hs.boundary(bd)
                ax, side = bspline._parse_bdspec(bd, 2)
                idx = np.asarray(idx)
                Hb = bhs.represent_fine(truncate=False).toarray()
                # bring the boundary representation to the finest level of the full space
                Pb = np.eye(Hb.shape[0])
                for l in range(bhs.numlevels - 1, Lc - 1):
                    Pb = ref.ts[l][1 - ax] @ Pb
                Hb = Pb @ Hb
                Hfull = H.reshape(nfine + (n,))
                tr = Hfull[0 if side == 0 else -1, :, :] if ax == 0 else Hfull[:, 0 if side == 0 else -1, :]
                ok = len(idx) == bhs.numdofs and len(set(idx.tolist())) == len(idx) and \
                    tr[:, idx].shape == Hb.shape and abs(tr[:, idx] - Hb).max() < 1e-11
                others = np.setdiff1d(np.arange(n), idx)
                ok = ok and (len(others) == 0 or abs(tr[:, others]).max() < 1e-13)
                if not ok:
                    ctx.violation('boundary bdspec=%s %s' % (bd, sig), {'idx': idx.tolist()})
            except Exception as ex:
                ctx.violation('exception %s in boundary bdspec=%s %s' % (type(ex).__name__, bd, sig), {'error': repr(ex)})


def knot_insertion_cases(ctx):
    """nested knot vectors (non-uniform, repeated knots, inserted knots coinciding with existing ones)"""
    from pyiga import bspline
    consts = dict(PMax=3 if not ctx.thorough else 4, BMax=4 if not ctx.thorough else 5, Step=25 if not ctx.thorough else 7)
    cfg = write_cfg(ctx.scratch / 'ki.cfg', consts, invariants=['Preserves', 'EmitCase'])
    res = ctx.tlc('KnotInsertCases', cfg, workers=4 if not ctx.thorough else 12, timeout=6000)
    cases = res.recs('KI')
    if not cases:
        raise MachineryError('KnotInsertCases emitted nothing')
    for c in cases:
        p = c['p']
        kv = bspline.KnotVector(np.array(c['kv'], dtype=float), p)
        ts = [float(t) for t in c['ts']]
        A = rat(c['T'])
        key = ('ki', p, tuple(c['kv']), tuple(c['ts']))
        sig = 'p=%d kv=%s insert=%s' % (p, c['kv'], c['ts'])
        ctx.case(key, nontrivial=len(ts) >= 1, sample={'p': p, 'kv': c['kv'], 'insert': c['ts']} if len(ctx.samples) < 5 else None)
        try:
            kv2 = kv
            M = np.eye(kv.numdofs)
            for t in ts:
                M = bspline.knot_insertion(kv2, t).toarray() @ M
                kv2 = bspline.KnotVector(np.sort(np.concatenate([kv2.kv, [t]])), p)
            if M.shape != A.shape or abs(M - A).max() > 1e-13:
                ctx.violation('knot_insertion ' + sig, {'maxdiff': float(abs(M - A).max()) if M.shape == A.shape else 'shape'})
                continue
            P = bspline.prolongation(kv, kv2).toarray()
            if P.shape != A.shape or abs(P - A).max() > 1e-12:
                ctx.violation('prolongation ' + sig, {'maxdiff': float(abs(P - A).max()) if P.shape == A.shape else 'shape'})
            # knot insertion is invariant under affine maps of the parameter axis: the same case on a dyadic image far from
            # the origin relative to the knot spacing (x -> 2^20 + 2^-10 x, exact in binary floating point) has the same
            # matrix -- there all knots lie within the default tolerances of np.isclose / allclose of each other
            sh, scl = 1048576.0, 0.0009765625
            kvi = bspline.KnotVector(sh + scl * np.array(c['kv'], dtype=float), p)
            kv2i, Mi = kvi, np.eye(kvi.numdofs)
            for t in ts:
                Mi = bspline.knot_insertion(kv2i, sh + scl * t).toarray() @ Mi
                kv2i = bspline.KnotVector(np.sort(np.concatenate([kv2i.kv, [sh + scl * t]])), p)
            if Mi.shape != A.shape or abs(Mi - A).max() > 1e-12:
                ctx.violation('knot_insertion far-from-origin-image ' + sig,
                              {'maxdiff': float(abs(Mi - A).max()) if Mi.shape == A.shape else 'shape', 'image': [sh, scl]})
        except Exception as ex:
            ctx.violation('exception %s in knot_insertion/prolongation %s' % (type(ex).__name__, sig), {'error': repr(ex)})


def run(ctx):
    ctx.rule = ('one case = one reachable HSpace state (BFS history from HRepr.tla) with all transfers into/out of it, or one '
                '(knot vector, inserted knots) pair; non-trivial = >= 3 levels or >= 2 refine calls / >= 1 inserted knot')
    ctx.assumptions = ['tensor-product evaluation of the finest level (BSplineFunc) is trusted here and decided by C02',
                       'uniform dyadic levels; degrees <= 3 (4 thorough); 1-D and 2-D']
    todo = configs(ctx)

    def one(item):
        name, consts, workers = item
        cfg = write_cfg(ctx.scratch / ('hr_%s.cfg' % name), consts, invariants=INVS, view='View')
        return name, consts, ctx.tlc('HRepr', cfg, workers=workers, timeout=3000)
    with ThreadPoolExecutor(4) as ex:
        futs = [ex.submit(one, it) for it in todo]
        knot_insertion_cases(ctx)
        results = [f.result() for f in futs]
    for name, consts, res in results:
        ts = res.recs('TS')
        reps = res.recs('REPR')
        if len(ts) != 1 or not reps:
            raise MachineryError('HRepr emitted nothing for %s' % name)
        ref = Ref(ts[0])
        by_hist = {json.dumps([c['marks'] for c in r['hist']]): r for r in reps}
        for rp in reps:
            check_state(ctx, name, consts, ref, rp, by_hist)
    ctx.exhaustive = True
