"""C15 -- multi-level structured matrices: spec/MLStructure.tla enumerates structures (level patterns, orders,
block shapes), knot-vector pairs, block-size tuples and symmetric patterns, computes the expected results, and
every emitted record is replayed on the real MLStructure / MLMatrix / utils functions (M1, exact integers).
The replay runs in restartable worker subprocesses (harness/c15_worker.py) so that a crash of the interpreter
inside a Cython kernel is contained and attributed to the case."""
import json
import subprocess
import threading
from concurrent.futures import ThreadPoolExecutor

from ..common import PY, VERIF, MachineryError, repo_env, write_cfg

BASE = dict(Mode='ml', L=1, ShapeRows=2, ShapeCols=2, Alpha='all', Order='row', Buggy=False, BuggyY=False,
            RunLoop=False, DoEmit=True, Subsets='sample', Perms='all', Part=0, NParts=1, Seed=0)

DESIGN_INVS = ['DefsAgree', 'NestedLoopsOK', 'RowsOK', 'TransposeOK', 'ReorderOK', 'MatvecOK', 'SeqBidxOK',
               'JoinSliceOK']
LOOP_INVS = ['CursorOK', 'InRangeOK', 'PrefixOK', 'DoneOK']


def rep(d, n):
    return int(str(d) * n)


def plan(ctx):
    """List of runs: (name, constants, invariants, tlc kwargs, kind) with kind in gen|design|negative."""
    runs = []
    seed = ctx.seed % 1000

    def gen(name, workers=2, invs=('EmitCase',), sim=None, **kw):
        """sim = (wanted records, size of the last level's alphabet): TLC's simulator evaluates the invariants on
        ALL successors of the states it walks through, so one trace yields |alphabet of the last level| cases."""
        c = dict(BASE, Seed=seed)
        c.update(kw)
        tk = dict(workers=workers)
        if sim:
            tk.update(simulate=max(1, sim[0] // sim[1]), depth=c['L'] + 1, seed=ctx.seed + 17, workers=1)
        runs.append((name, c, list(invs), tk, 'gen'))

    def design(name, workers=2, invs=DESIGN_INVS, **kw):
        c = dict(BASE, Seed=seed, DoEmit=False)
        c.update(kw)
        runs.append((name, c, list(invs), dict(workers=workers), 'design'))

    def negative(name, invs, **kw):
        c = dict(BASE, Seed=seed, DoEmit=False)
        c.update(kw)
        runs.append((name, c, list(invs), dict(workers=1), 'negative'))

    T = ctx.thorough
    GI = ['EmitCase', 'NestedLoopsOK', 'MatvecOK']
    # ---- the big exhaustive runs first (longest jobs first)
    nparts = 6 if T else 3
    for part in range(nparts):
        gen('2x2-L3-p%d' % part, L=3, ShapeRows=222, ShapeCols=222, Subsets='all' if T else 'sample',
            Part=part, NParts=nparts, workers=4 if T else 3, invs=GI)
    if T:
        for part in range(6):
            gen('2x2-L4-p%d' % part, L=4, ShapeRows=2222, ShapeCols=2222, Subsets='few', Perms='few',
                Part=part, NParts=6, workers=4)
        for part in range(16):
            gen('3x3.3x3-L2-p%d' % part, L=2, ShapeRows=33, ShapeCols=33, Part=part, NParts=16, workers=4,
                Subsets='few', Perms='few', invs=GI)
    gen('2x2-L4-reduced', L=4, ShapeRows=2222, ShapeCols=2222, Alpha='reduced', workers=3)
    # ---- design checks: odometer machine of ml_nonzero_nd, cross-checks of the definitions
    design('odo-2x2-L3' + ('' if T else '-reduced'), L=3, ShapeRows=222, ShapeCols=222, RunLoop=True,
           Alpha='all' if T else 'reduced', invs=LOOP_INVS, workers=4 if T else 2)
    design('odo-2x2-L4-reduced', L=4, ShapeRows=2222, ShapeCols=2222, RunLoop=True, Alpha='reduced',
           NParts=1 if T else 3, Part=0, invs=LOOP_INVS, workers=4 if T else 3)
    design('defs-2x2-L3' + ('' if T else '-reduced'), L=3, ShapeRows=222, ShapeCols=222,
           Alpha='all' if T else 'reduced', workers=4 if T else 2)
    design('odo-2x3.3x2-L2-reduced', L=2, ShapeRows=23, ShapeCols=32, Alpha='reduced', RunLoop=True, invs=LOOP_INVS)
    design('defs-2x3.3x2-L2' + ('' if T else '-reduced'), L=2, ShapeRows=23, ShapeCols=32,
           Alpha='all' if T else 'reduced', workers=4 if T else 2)
    if T:
        design('odo-2x2-L2', L=2, ShapeRows=22, ShapeCols=22, RunLoop=True, invs=LOOP_INVS)
        design('defs-2x2-L4-reduced', L=4, ShapeRows=2222, ShapeCols=2222, Alpha='reduced', workers=4)
        design('odo-mixed-L4-reduced', L=4, ShapeRows=2312, ShapeCols=3221, Alpha='reduced', RunLoop=True,
               invs=LOOP_INVS, workers=4)
    # ---- exhaustive small families, with the cross-check invariants evaluated on every structure
    gen('2x2-L1', L=1, ShapeRows=2, ShapeCols=2, Subsets='perm', invs=['EmitCase'] + DESIGN_INVS)
    gen('2x2-L2', L=2, ShapeRows=22, ShapeCols=22, Subsets='perm', invs=['EmitCase'] + DESIGN_INVS)
    gen('2x3-L1', L=1, ShapeRows=2, ShapeCols=3, Subsets='perm', invs=['EmitCase'] + DESIGN_INVS)
    gen('3x3-L1', L=1, ShapeRows=3, ShapeCols=3, Subsets='perm', invs=['EmitCase'] + DESIGN_INVS)
    if T:
        gen('3x2-L1', L=1, ShapeRows=3, ShapeCols=2, Subsets='perm', invs=['EmitCase'] + DESIGN_INVS)
    # ---- two levels of larger / rectangular blocks
    two = [('2x3.3x2', 23, 32, 63), ('3x2.3x2', 33, 22, 63), ('2x3.2x3', 22, 33, 63), ('3x3.2x2', 32, 32, 15),
           ('3x2.2x3', 32, 23, 63), ('2x2.3x2', 23, 22, 63), ('2x3.2x2', 22, 32, 15)]
    for n, (name, rr, cc, last) in enumerate(two):
        if T:
            gen('%s-L2' % name, L=2, ShapeRows=rr, ShapeCols=cc, workers=4, invs=GI)
        elif n < 4:
            gen('%s-L2-sim' % name, L=2, ShapeRows=rr, ShapeCols=cc, sim=(250, last), invs=GI)
    if not T:
        gen('3x3.3x3-L2-sim', L=2, ShapeRows=33, ShapeCols=33, sim=(1, 511), Subsets='few', Perms='few', invs=GI)
    # ---- other bidx orders (the compact layout follows the order of bidx, whatever it is)
    for order in ('col', 'rev'):
        if T:
            gen('2x2-L3-%s' % order, L=3, ShapeRows=222, ShapeCols=222, Order=order, workers=4, invs=GI)
            gen('2x2-L4-%s-reduced' % order, L=4, ShapeRows=2222, ShapeCols=2222, Order=order, Alpha='reduced',
                Subsets='few', Perms='few', workers=4)
    if not T:
        gen('2x2-L2-col', L=2, ShapeRows=22, ShapeCols=22, Order='col', Subsets='perm',
            invs=['EmitCase'] + DESIGN_INVS)
        gen('2x2-L3-rev-sim', L=3, ShapeRows=222, ShapeCols=222, Order='rev', sim=(200, 15), invs=GI)
        gen('2x2-L4-col-sim', L=4, ShapeRows=2222, ShapeCols=2222, Order='col', sim=(100, 15))
    # ---- random structures beyond the exhaustive bounds (TLC -simulate), L <= 6, mixed block shapes
    k = 10 if T else 1
    gen('2x2-L4-sim', L=4, ShapeRows=2222, ShapeCols=2222, sim=(300 * k, 15))
    gen('mixed-L4-sim', L=4, ShapeRows=2312, ShapeCols=3221, sim=(100 * k, 3))
    gen('2x2-L5-sim', L=5, ShapeRows=22222, ShapeCols=22222, sim=(90 * k, 15))
    gen('mixed-L5-sim', L=5, ShapeRows=21322, ShapeCols=22231, sim=(60 * k, 3))
    gen('2x2-L6-sim', L=6, ShapeRows=222222, ShapeCols=222222, sim=(45 * k, 15), Subsets='few', Perms='few')
    gen('mixed-L6-sim', L=6, ShapeRows=221322, ShapeCols=232212, sim=(45 * k, 15), Subsets='few', Perms='few')
    gen('mixed-L3-sim', L=3, ShapeRows=232, ShapeCols=323, sim=(250 * k, 63), invs=GI)
    gen('tall-L3-sim', L=3, ShapeRows=322, ShapeCols=221, sim=(90 * k, 3), invs=GI)
    # ---- knot-vector pairs, block-size tuples, symmetric patterns / banded / dense
    gen('kv', Mode='kv', Alpha='all' if T else 'reduced', invs=['EmitKV', 'KVSameMeshOK', 'KVSymmetricOK'], workers=3)
    gen('reidx', Mode='reidx', invs=['EmitReidx', 'ReidxOK'])
    gen('pat', Mode='pat', invs=['EmitPat', 'PatOK'])
    # ---- negative controls: the code as it stands today violates the invariants of the design check
    negative('neg-odometer', ['CursorOK', 'DoneOK'], L=3, ShapeRows=222, ShapeCols=222, Alpha='reduced', RunLoop=True,
             Buggy=True)
    negative('neg-matvec-ylen', ['MatvecOK'], L=2, ShapeRows=32, ShapeCols=22, Alpha='reduced', BuggyY=True)
    negative('neg-sparsity-mesh-index', ['KVAnyMeshOK'], Mode='kv', Alpha='reduced')
    return runs


def run_worker(ctx, name, recs):
    """Replay (tag, record) pairs in a restartable subprocess. Returns (results, crashes)."""
    inp = ctx.scratch / ('c15_%s.in.jsonl' % name)
    outp = ctx.scratch / ('c15_%s.out' % name)
    with open(inp, 'w') as f:
        for tag, v in recs:
            f.write(json.dumps({'tag': tag, 'v': v}) + '\n')
    if outp.exists():
        outp.unlink()
    start, crashes, restarts = 0, [], 0
    while True:
        p = subprocess.run([PY, '-m', 'harness.c15_worker', str(inp), str(outp), str(start)], cwd=VERIF,
                           env=repo_env(), stdout=subprocess.PIPE, stderr=subprocess.STDOUT, text=True)
        lines = outp.read_text().splitlines() if outp.exists() else []
        if lines and lines[-1] == 'E' and p.returncode == 0:
            break
        begun = [int(l[2:]) for l in lines if l.startswith('B ')]
        done = {json.loads(l[2:])['n'] for l in lines if l.startswith('R ')}
        if not begun:
            raise MachineryError('replay worker for %s did not start:\n%s' % (name, p.stdout[-3000:]))
        cur = begun[-1]
        if cur in done:          # died between cases: not attributable to the code under test
            raise MachineryError('replay worker for %s failed outside a case (rc=%s):\n%s'
                                 % (name, p.returncode, p.stdout[-3000:]))
        st = ''
        try:
            st = open(str(outp) + '.stage').read().strip()
        except OSError:
            pass
        crashes.append((cur, p.returncode, st, p.stdout[-1500:]))
        start = cur + 1
        restarts += 1
        if restarts > 25:
            raise MachineryError('replay worker for %s keeps dying:\n%s' % (name, p.stdout[-3000:]))
    results = [json.loads(l[2:]) for l in lines if l.startswith('R ')]
    late = [json.loads(l[2:]) for l in lines if l.startswith('V ')]
    inp.unlink()
    outp.unlink()
    return results, late, crashes


def detail_size(d):
    for k in ('nnz', 'size'):
        if k in d:
            return (d[k], len(json.dumps(d, default=str)))
    return (10 ** 6, len(json.dumps(d, default=str)))


def run(ctx):
    ctx.rule = ('TLC builds structures level by level (BFS = every structure over the pattern alphabet; -simulate = '
                'random structures for 4..6 levels and mixed block shapes); one case = one complete structure '
                '(or knot-vector pair / block-size tuple / symmetric pattern) whose spec-computed results '
                '(nonzero arrays, dense matrix, matvec, transposes, level permutations, row/column subsets, partial '
                'Kronecker products, index maps) are compared exactly with the real code; non-trivial = >= 2 levels '
                'and >= 2 nonzeros (knot-vector pairs: >= 2 interacting pairs)')
    ctx.assumptions = ['bidx arrays are uint32, C-contiguous, duplicate-free, non-empty; data and vectors are float64 '
                       'with small integer values (all arithmetic exact)',
                       'per-row/per-column queries are compared as sets of positions (their order is not part of the '
                       'property); nonzero() is compared in order (compact data layout)',
                       'knot vectors: open, integer breakpoints in [0,4], degree <= 3, interior multiplicity <= 2']
    runs = plan(ctx)
    lock = threading.Lock()
    viol = {}          # signature -> [count, smallest detail]
    samples = {}
    totals = {'cases': 0}

    def record(sig, detail, run_name):
        with lock:
            detail = dict(detail, run=run_name)
            if sig not in viol:
                viol[sig] = [1, detail]
            else:
                viol[sig][0] += 1
                if detail_size(detail) < detail_size(viol[sig][1]):
                    viol[sig][1] = detail

    def one(item):
        name, consts, invs, tk, kind = item
        cfg = write_cfg(ctx.scratch / ('mls_%s.cfg' % name), consts, invariants=invs)
        if kind == 'negative':
            ctx.expect_violation('MLStructure', cfg, invariant=invs[0], **tk)
            return
        res = ctx.tlc('MLStructure', cfg, timeout=6000, **tk)
        if kind == 'design':
            if res.distinct < 2:
                raise MachineryError('design check %s explored nothing' % name)
            return
        recs = [(tag, v) for tag in ('CASE', 'KV', 'REIDX', 'PAT') for v in res.recs(tag)]
        res.records.clear()
        res.stdout = ''
        if not recs:
            raise MachineryError('no cases generated by %s' % name)
        if consts['Mode'] == 'ml':       # simulation may visit a structure twice
            seen, uniq = set(), []
            for tag, v in recs:
                k = json.dumps([v['bs'], v['bidx']])
                if k not in seen:
                    seen.add(k)
                    uniq.append((tag, v))
            recs = uniq
        results, late, crashes = run_worker(ctx, name, recs)
        for lt in late:
            for sig, detail in lt['viol']:
                record(sig, detail, name)
            if lt['notrun']:
                ctx.skip('%s: %d of %d memory-unsafe MLMatrix.dot calls not run (fork budget used up after '
                         'violations)' % (name, lt['notrun'], lt['deferred']))
        for n, rc, st, tail in crashes:
            tag, v = recs[n]
            record('crash(rc=%s) in %s' % (rc, st or 'unknown call'),
                   {'input': {k: v.get(k) for k in ('bs', 'bidx', 'kv1', 'kv2', 'p1', 'p2') if k in v},
                    'output': tail}, name)
        with lock:
            for r in results:
                ctx.case(r['key'], nontrivial=r['nontrivial'])
            totals['cases'] += len(results)
            if name not in samples and recs:
                tag, v = recs[len(recs) // 2]
                samples[name] = {'run': name, 'tag': tag,
                                 **{k: v[k] for k in ('bs', 'bidx', 'nz1', 'kv1', 'kv2', 'ij') if k in v}}
        for r in results:
            for sig, detail in r['viol']:
                record(sig, detail, name)

    with ThreadPoolExecutor(4 if ctx.thorough else 5) as ex:
        list(ex.map(one, runs))

    for name in ('2x2-L4-reduced', '2x3.3x2-L2-sim', '2x3.3x2-L2-p0', 'kv', 'mixed-L5-sim', '2x2-L3-p0'):
        if name in samples and len(ctx.samples) < 6:
            ctx.samples.append(samples[name])
    for sig in sorted(viol):
        cnt, detail = viol[sig]
        ctx.violation(sig, dict(detail, occurrences=cnt))
    ctx.notes['violating_cases_by_signature'] = {s: v[0] for s, v in viol.items()}
    ctx.exhaustive = True
