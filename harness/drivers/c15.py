"""C15 -- multi-level structured matrices: spec/MLStructure.tla enumerates structures (level patterns, orders,
block shapes), knot-vector pairs, block-size tuples and symmetric patterns, computes the expected results, and
every emitted record is replayed on the real MLStructure / MLMatrix / utils functions (M1, exact integers).
The replay runs in restartable worker subprocesses (harness/c15_worker.py) so that a crash of the interpreter
inside a Cython kernel is contained and attributed to the case."""
import json
import subprocess
import threading
from concurrent.futures import ThreadPoolExecutor

from ..common import PY, VERIF, MachineryError, repo_env, write_cfg

BASE = dict(Suite='small', Buggy=False, BuggyY=False, DoEmit=True, Part=0, NParts=1, Seed=0)

EMIT_INVS = ['EmitCase', 'EmitKV', 'EmitReidx', 'EmitPat']
DESIGN_INVS = ['DefsAgree', 'NestedLoopsOK', 'RowsOK', 'TransposeOK', 'ReorderOK', 'MatvecOK', 'SeqBidxOK',
               'JoinSliceOK', 'ReidxOK', 'PatOK', 'KVSameMeshOK', 'KVSymmetricOK']
GEN_INVS = ['EmitCase', 'NestedLoopsOK', 'MatvecOK']
LOOP_INVS = ['CursorOK', 'InRangeOK', 'PrefixOK', 'DoneOK']


def plan(ctx):
    """List of runs: (name, constants, invariants, tlc kwargs, kind) with kind in gen|design|negative.
    The families behind a suite name are defined in spec/MLStructure.tla (Families)."""
    runs = []
    seed = ctx.seed % 1000

    def gen(name, suite, invs=GEN_INVS, workers=2, parts=1, sim=None, depth=None):
        """sim = number of random walks; TLC's simulator evaluates the invariants on ALL successors of the
        states it walks through, so one walk yields |alphabet of the last level| cases."""
        for part in range(parts):
            c = dict(BASE, Seed=seed, Suite=suite, Part=part, NParts=parts)
            tk = dict(workers=workers)
            if sim:
                tk.update(simulate=sim, depth=depth, seed=ctx.seed + 17, workers=1)
            runs.append((name if parts == 1 else '%s-p%d' % (name, part), c, list(invs), tk, 'gen'))

    def design(name, suite, invs, workers=2, parts=1, only_part=None):
        for part in range(parts):
            if only_part is not None and part != only_part:
                continue
            c = dict(BASE, Seed=seed, Suite=suite, DoEmit=False, Part=part, NParts=parts)
            runs.append((name if parts == 1 else '%s-p%d' % (name, part), c, list(invs), dict(workers=workers),
                         'design'))

    def negative(name, suite, invs, **kw):
        c = dict(BASE, Seed=seed, Suite=suite, DoEmit=False)
        c.update(kw)
        runs.append((name, c, list(invs), dict(workers=1), 'negative'))

    if ctx.thorough:
        # exhaustive: 2x2 patterns L <= 4 (15^3 with all 256 row subsets, 15^4), 3x3 L = 2 (511^2), every pair of
        # 2x2/2x3/3x2/3x3 two-level shapes, column-major / reversed bidx orders
        gen('3x3.3x3-L2', '3x3.3x3', workers=4, parts=16)
        gen('2x2-L4', 'L4-all', invs=['EmitCase'], workers=4, parts=8)
        gen('2x2-L3', 'L3-all', workers=4, parts=6)
        gen('two-level', 'two-level', workers=4, parts=6)
        gen('2x2-L3-orders', 'L3-orders', workers=4, parts=3)
        gen('2x2-L4-orders-reduced', 'L4-orders', invs=['EmitCase'], workers=4)
        gen('2x2-L4-reduced', 'L4-reduced', invs=['EmitCase'], workers=4)
        design('odometer', 'odo-thorough', LOOP_INVS, workers=4, parts=3)
        design('odometer-L4-reduced', 'odo-L4', LOOP_INVS, workers=4, parts=3)
        design('definitions', 'defs-thorough', DESIGN_INVS, workers=4, parts=5)
        gen('random-L3..6', 'sim', sim=1500, depth=7)
        gen('knot-vector-pairs', 'kv', invs=['EmitKV', 'KVSameMeshOK', 'KVSymmetricOK'], workers=4)
    else:
        gen('2x2-L3', 'L3-sample', workers=3, parts=3)
        gen('2x2-L4-reduced', 'L4-reduced', invs=['EmitCase'], workers=3)
        design('odometer-L4-reduced', 'odo-L4', LOOP_INVS, workers=3, parts=3, only_part=0)
        design('odometer', 'odo-quick', LOOP_INVS, workers=2)
        design('definitions', 'defs-quick', DESIGN_INVS, workers=2)
        gen('random-L3..6', 'sim', sim=100, depth=7)
        gen('random-two-level', 'two-level-sim', sim=24, depth=3)
        gen('knot-vector-pairs', 'kv-reduced', invs=['EmitKV', 'KVSameMeshOK', 'KVSymmetricOK'], workers=2)
    gen('small', 'small', invs=EMIT_INVS + DESIGN_INVS, workers=3)
    # negative controls: the code as it stands today violates the invariants of the design check
    negative('neg-odometer', 'odo-quick', ['CursorOK', 'DoneOK'], Buggy=True)
    negative('neg-matvec-ylen', 'neg-matvec', ['MatvecOK'], BuggyY=True)
    negative('neg-sparsity-mesh-index', 'kv-reduced', ['KVAnyMeshOK'])
    return runs


def run_worker(ctx, name, recs, module='harness.c15_worker'):
    """Replay (tag, record) pairs in a restartable subprocess. Returns (results, late, crashes)."""
    inp = ctx.scratch / ('w_%s.in.jsonl' % name)
    outp = ctx.scratch / ('w_%s.out' % name)
    with open(inp, 'w') as f:
        for tag, v in recs:
            f.write(json.dumps({'tag': tag, 'v': v}) + '\n')
    if outp.exists():
        outp.unlink()
    start, crashes, restarts = 0, [], 0
    while True:
        p = subprocess.run([PY, '-m', module, str(inp), str(outp), str(start)], cwd=VERIF,
                           env=repo_env(), stdout=subprocess.PIPE, stderr=subprocess.STDOUT, text=True)
        lines = outp.read_text().splitlines() if outp.exists() else []
        if lines and lines[-1] == 'E' and p.returncode == 0:
            break
        begun = [int(l[2:]) for l in lines if l.startswith('B ')]
        done = {json.loads(l[2:])['n'] for l in lines if l.startswith('R ')}
        if not begun:
            raise MachineryError('replay worker for %s did not start:\n%s' % (name, p.stdout[-3000:]))
        cur = begun[-1]
        if p.returncode > 0:     # a Python-level failure of the worker itself (signals give negative codes)
            raise MachineryError('replay worker for %s failed (rc=%s):\n%s' % (name, p.returncode, p.stdout[-3000:]))
        if cur in done:          # died between cases: not attributable to the code under test
            raise MachineryError('replay worker for %s failed outside a case (rc=%s):\n%s'
                                 % (name, p.returncode, p.stdout[-3000:]))
        st = ''
        try:
            st = open(str(outp) + '.stage').read().strip()
        except OSError:
            pass
        crashes.append((cur, p.returncode, st, p.stdout[-1500:]))
        start = cur + 1
        restarts += 1
        if restarts > 12:      # every one of them is reported as a violation; the rest of this run is dropped
            ctx.skip('%s: replay stopped after %d interpreter crashes, %d cases not replayed'
                     % (name, restarts, len(recs) - start))
            lines = outp.read_text().splitlines()
            break
    results = [json.loads(l[2:]) for l in lines if l.startswith('R ')]
    late = [json.loads(l[2:]) for l in lines if l.startswith('V ')]
    inp.unlink()
    outp.unlink()
    return results, late, crashes


def detail_size(d):
    """Order in which failing inputs are preferred as THE reported example of a signature."""
    direct = 0 if d.get('via') in (None, 'MLStructure.nonzero', 'MLMatrix.dot') else 1
    for k in ('nnz', 'size'):
        if k in d:
            return (direct, d[k], len(json.dumps(d, default=str)))
    return (direct, 10 ** 6, len(json.dumps(d, default=str)))


def run(ctx):
    ctx.rule = ('TLC builds structures level by level (BFS = every structure over the pattern alphabet; -simulate = '
                'random structures for 4..6 levels and mixed block shapes); one case = one complete structure '
                '(or knot-vector pair / block-size tuple / symmetric pattern) whose spec-computed results '
                '(nonzero arrays, dense matrix, matvec, transposes, level permutations, row/column subsets, partial '
                'Kronecker products, index maps) are compared exactly with the real code; non-trivial = >= 2 levels '
                'and >= 2 nonzeros (knot-vector pairs: >= 2 interacting pairs)')
    ctx.assumptions = ['bidx arrays are uint32, C-contiguous, duplicate-free, non-empty; data and vectors are float64 '
                       'with small integer values (all arithmetic exact)',
                       'per-row/per-column queries are compared as sets of positions (their order is not part of the '
                       'property); nonzero() is compared in order (compact data layout)',
                       'knot vectors: open, integer breakpoints in [0,4], degree <= 3, interior multiplicity <= 2']
    runs = plan(ctx)
    lock = threading.Lock()
    viol = {}          # signature -> [count, smallest detail]
    samples = {}
    totals = {'cases': 0}

    def record(sig, detail, run_name):
        with lock:
            detail = dict(detail, run=run_name)
            if sig not in viol:
                viol[sig] = [1, detail]
            else:
                viol[sig][0] += 1
                if detail_size(detail) < detail_size(viol[sig][1]):
                    viol[sig][1] = detail

    def one(item):
        name, consts, invs, tk, kind = item
        cfg = write_cfg(ctx.scratch / ('mls_%s.cfg' % name), consts, invariants=invs)
        if kind == 'negative':
            ctx.expect_violation('MLStructure', cfg, invariant=invs[0], **tk)
            return
        res = ctx.tlc('MLStructure', cfg, timeout=6000, **tk)
        if kind == 'design':
            if res.distinct < 2:
                raise MachineryError('design check %s explored nothing' % name)
            return
        recs = [(tag, v) for tag in ('CASE', 'KV', 'REIDX', 'PAT') for v in res.recs(tag)]
        res.records.clear()
        res.stdout = ''
        if not recs:
            raise MachineryError('no cases generated by %s' % name)
        seen, uniq = set(), []           # simulation may visit a structure twice
        for tag, v in recs:
            k = json.dumps([v['bs'], v['bidx']]) if tag == 'CASE' else None
            if k is None or k not in seen:
                seen.add(k)
                uniq.append((tag, v))
        recs = uniq
        results, late, crashes = run_worker(ctx, name, recs)
        for lt in late:
            for sig, detail in lt['viol']:
                record(sig, detail, name)
            if lt['notrun']:
                ctx.skip('%s: %d of %d memory-unsafe MLMatrix.dot calls not run (fork budget used up after '
                         'violations)' % (name, lt['notrun'], lt['deferred']))
        for n, rc, st, tail in crashes:
            tag, v = recs[n]
            record('crash(rc=%s) in %s' % (rc, st or 'unknown call'),
                   {'input': {k: v.get(k) for k in ('bs', 'bidx', 'kv1', 'kv2', 'p1', 'p2') if k in v},
                    'output': tail}, name)
        with lock:
            for r in results:
                ctx.case(r['key'], nontrivial=r['nontrivial'])
            totals['cases'] += len(results)
            if name not in samples and recs:
                tag, v = recs[len(recs) // 2]
                samples[name] = {'run': name, 'tag': tag,
                                 **{k: v[k] for k in ('fam', 'bs', 'bidx', 'nz1', 'kv1', 'kv2', 'ij') if k in v}}
        for r in results:
            for sig, detail in r['viol']:
                record(sig, detail, name)

    with ThreadPoolExecutor(4 if ctx.thorough else 5) as ex:
        list(ex.map(one, runs))

    for name in ('2x2-L4-reduced', 'random-L3..6', 'knot-vector-pairs', '2x2-L3-p0', 'random-two-level',
                 'two-level-p0', 'small'):
        if name in samples and len(ctx.samples) < 6:
            ctx.samples.append(samples[name])
    for sig in sorted(viol):
        cnt, detail = viol[sig]
        ctx.violation(sig, dict(detail, occurrences=cnt))
    ctx.notes['violating_cases_by_signature'] = {s: v[0] for s, v in viol.items()}
    ctx.exhaustive = True
