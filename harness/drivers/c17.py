"""C17 -- interpolation and L2 projection are projections onto the spline space (tensor-product spaces).

spec/Approx.tla enumerates cases (space tuple, node grids, data in / outside the space, affine geometry) and
emits, in exact rationals, what the property requires; this driver runs approx.interpolate, approx.project_L2,
bspline.interpolate and bspline.project_L2 on every case and compares (M1).

Extension point: EXTRA_SPACE_BUILDERS -- a list of callables  f(ctx, case, api) -> None  that drive further
kinds of spaces (e.g. hierarchical ones) through the same comparisons; see `Api` below."""
import contextlib
import functools
import io
import itertools
from concurrent.futures import ThreadPoolExecutor
from fractions import Fraction

import numpy as np

from ..common import MachineryError, frac, write_cfg

INVS = ['BasisOK', 'MassOK', 'MomentOK', 'MarsdenOK', 'InSpaceOK', 'WeightedOK', 'EmitCase']
EXTRA_SPACE_BUILDERS = []       # appended to by later drivers (hierarchical path of C17)

TOL_DIRECT = 1e-10              # direct solvers (collocation / Kronecker mass)
TOL_CG = 1e-8                   # geometry path: preconditioned CG with rtol 1e-12


# --------------------------------------------------------------------------------------------------
# exact helpers (big integers, no overflow): the normal equations come from the spec, the solve is here

def ftensor(t):
    """{'sh':..., 'e': [[n,d]|int,...]} -> object ndarray of Fractions"""
    a = np.empty(len(t['e']), dtype=object)
    for i, x in enumerate(t['e']):
        a[i] = frac(x)
    return a.reshape(tuple(t['sh']))


def to_float(a):
    return np.array([float(x) for x in a.ravel()], dtype=float).reshape(a.shape)


def finv(M):
    n = len(M)
    A = [[Fraction(M[i][j]) for j in range(n)] + [Fraction(int(i == j)) for j in range(n)] for i in range(n)]
    for k in range(n):
        piv = next(r for r in range(k, n) if A[r][k] != 0)
        A[k], A[piv] = A[piv], A[k]
        pk = A[k][k]
        A[k] = [x / pk for x in A[k]]
        for r in range(n):
            if r != k and A[r][k] != 0:
                f = A[r][k]
                A[r] = [x - f * y for x, y in zip(A[r], A[k])]
    return np.array([[A[i][n + j] for j in range(n)] for i in range(n)], dtype=object)


def fsolve(M, rhs):
    """exact solution of M x = rhs (Fractions) by fraction-free (Bareiss) elimination on integers"""
    from math import lcm
    n = len(M)
    A = []
    for i in range(n):
        row = [Fraction(x) for x in M[i]] + [Fraction(rhs[i])]
        L = 1
        for x in row:
            L = lcm(L, x.denominator)
        A.append([int(x * L) for x in row])
    prev = 1
    for k in range(n - 1):
        if A[k][k] == 0:
            piv = next(r for r in range(k + 1, n) if A[r][k] != 0)
            A[k], A[piv] = A[piv], A[k]
        akk = A[k][k]
        rowk = A[k]
        for i in range(k + 1, n):
            aik = A[i][k]
            rowi = A[i]
            A[i] = [0] * (k + 1) + [(akk * rowi[j] - aik * rowk[j]) // prev for j in range(k + 1, n + 1)]
        prev = akk
    x = [Fraction(0)] * n
    for i in range(n - 1, -1, -1):
        s = Fraction(A[i][n]) - sum(A[i][j] * x[j] for j in range(i + 1, n))
        x[i] = s / A[i][i]
    return np.array(x, dtype=object)


def mode_apply(T, k, A):
    """mode-k product of the object tensor T with the object matrix A"""
    return np.moveaxis(np.tensordot(A, T, axes=([1], [k])), 0, k)


def poly_func(a, sh):
    """integer coefficient tensor a (exponents per argument) -> callable f(*args) with numpy broadcasting"""
    a = np.array(a, dtype=float).reshape(tuple(sh))
    d = a.ndim
    terms = [(ex, a[ex]) for ex in itertools.product(*(range(n) for n in a.shape)) if a[ex] != 0]

    def f(*args):
        assert len(args) == d
        r = 0.0
        for ex, co in terms:
            t = co
            for x, e in zip(args, ex):
                if e:
                    t = t * x ** e
            r = r + t
        return r
    return f


class Api:
    """what a space builder needs: the real calls wrapped so that exceptions / stderr are observed"""

    def __init__(self, ctx, case, found):
        self.ctx, self.case, self.found = ctx, case, found
        self.calls = 0
        self.cg_warnings = 0
        self.weighted = {}

    def sig(self, what, call):
        c = self.case
        return '%s call=%s dim=%d degrees=%s' % (what, call, c['d'], '-'.join(str(D['p']) for D in c['dirs']))

    def fail(self, what, call, **detail):
        detail['case'] = {'dt': self.case['dt'], 'v': self.case['v'], 'geo': self.case['geo']}
        f = self.found.setdefault(self.sig(what, call), [0, detail])
        f[0] += 1

    def run(self, call, fn):
        """returns the result or None (exception -> violation)"""
        self.calls += 1
        err = io.StringIO()
        try:
            with contextlib.redirect_stderr(err):
                r = fn()
        except Exception as ex:
            self.fail('exception %s' % type(ex).__name__, call, error=repr(ex))
            return None
        if 'did not converge' in err.getvalue():
            self.cg_warnings += 1       # observation only; wrong coefficients are caught by the comparison
        return r

    def compare(self, call, got, exp, tol):
        if got is None:
            return
        got = np.asarray(got)
        if got.shape != exp.shape:
            self.fail('shape-mismatch', call, got=list(got.shape), expected=list(exp.shape))
            return
        scale = max(1.0, float(np.abs(exp).max()))
        err = float(np.abs(got - exp).max())
        if not err <= tol * scale:
            self.fail('coefficients-mismatch', call, maxerr=err, tol=tol * scale)


# --------------------------------------------------------------------------------------------------

def build_space(case):
    from pyiga import bspline
    kvs = tuple(bspline.KnotVector(np.array(D['kv'], dtype=float), int(D['p'])) for D in case['dirs'])
    nodes_exact = [[frac(x) for x in D['nodes']] for D in case['dirs']]
    nodes = [np.array([float(x) for x in nd]) for nd in nodes_exact]
    custom = any(D['custom'] for D in case['dirs'])
    return kvs, nodes, custom


def build_geo(case, kvs):
    """the affine map of the case as a degree-1 BSplineFunc on the parameter domain (None for the identity)"""
    from pyiga import bspline
    g = case['geo']
    if g['id']:
        return None
    d = case['d']
    lin = tuple(bspline.make_knots(1, float(kv.kv[0]), float(kv.kv[-1]), 1) for kv in kvs)
    A = np.array(g['A'], dtype=float)
    b = np.array(g['b'], dtype=float)
    B = np.array(g['B'], dtype=float)
    coeffs = np.zeros(d * (2,) + (d,))
    for corner in itertools.product((0, 1), repeat=d):
        xi = np.array([kvs[k].kv[0] if corner[k] == 0 else kvs[k].kv[-1] for k in range(d)], dtype=float)
        # a multilinear spline through the corner values IS the map (degree <= 1 in every parameter)
        coeffs[corner] = A @ xi + b + (B * xi[0] * xi[1] if d >= 2 else 0.0)
    return bspline.BSplineFunc(lin, coeffs)


def phys_map(case):
    """X(xi): parameters given in FUNCTION ARGUMENT order (x = last knot-vector axis first)"""
    g = case['geo']
    d = case['d']
    A = np.array(g['A'], dtype=float)
    b = np.array(g['b'], dtype=float)
    B = np.array(g['B'], dtype=float)

    def X(*args):            # args[c] = xi_{d-c} (0-based axes)
        xi = [args[d - 1 - k] for k in range(d)]
        return tuple(sum(A[c][k] * xi[k] for k in range(d)) + b[c] + (B[c] * xi[0] * xi[1] if d >= 2 else 0.0)
                     for c in range(d))
    return X


def drive_tensor_product(ctx, case, api):
    from pyiga import approx, bspline, geometry
    d = case['d']
    kvs, nodes, custom = build_space(case)
    kv_arg = kvs[0] if (d == 1 and case['v'] % 2 == 0) else kvs
    ns = tuple(case['ns'])

    # Greville abscissae of the library vs the spec's (only where the case uses them)
    for k, D in enumerate(case['dirs']):
        if not D['custom']:
            g = kvs[k].greville()
            api.calls += 1
            if g.shape != nodes[k].shape or np.abs(g - nodes[k]).max() > 1e-13:
                api.fail('greville-mismatch', 'KnotVector.greville', got=g.tolist(), expected=nodes[k].tolist())

    # (1) value arrays of data in the space: scalar / vector / matrix valued
    c = np.array(case['c']['e'], dtype=float).reshape(tuple(case['c']['sh']))
    V = to_float(ftensor(case['V']))
    r = api.run('interpolate(array)', lambda: approx.interpolate(kv_arg, V, nodes=None if not custom else nodes))
    api.compare('interpolate(array)', r, c, TOL_DIRECT)
    if not custom:
        r = api.run('interpolate(array,nodes=greville)', lambda: approx.interpolate(kvs, V, nodes=nodes))
        api.compare('interpolate(array,nodes=greville)', r, c, TOL_DIRECT)
    # the same values with another memory layout (same shape, other strides): Fortran order, and -- for vector / matrix
    # valued data -- stored component-first and viewed component-last; the result depends on the values only
    layouts = []
    if V.ndim >= 2:
        layouts.append(('fortran-order', np.asfortranarray(V)))
        layouts.append(('reversed-axes-storage', np.ascontiguousarray(V.transpose()).transpose()))
    if V.ndim > d:
        layouts.append(('component-first-storage', np.moveaxis(np.ascontiguousarray(np.moveaxis(V, -1, 0)), 0, -1)))
    for lname, VL in layouts:
        assert VL.shape == V.shape and (VL == V).all()
        call = 'interpolate(array[%s])' % lname
        rl = api.run(call, lambda: approx.interpolate(kv_arg, VL, nodes=None if not custom else nodes))
        api.compare(call, rl, c, TOL_DIRECT)
    # the data matched at the nodes: evaluate the interpolant with the library and compare with V
    if r is not None and np.asarray(r).shape == c.shape:
        api.calls += 1
        vals = bspline.BSplineFunc(kvs, np.asarray(r)).grid_eval(nodes)
        if vals.shape != V.shape or np.abs(vals - V).max() > 1e-10 * max(1.0, np.abs(V).max()):
            api.fail('interpolant-misses-data', 'interpolate(array)+grid_eval')

    # (2) polynomial data in the space, physical coordinates + geometry
    geo = build_geo(case, kvs)
    X = phys_map(case)
    comps = [poly_func(f['e'], f['sh']) for f in case['fin']]
    cin = [to_float(ftensor(t)) for t in case['cin']]
    nodes_arg = None if not custom else nodes

    def variants(fs):
        """(label, physical function, pulled-back function, expected) for scalar / tuple / array valued data"""
        out = [('scalar', fs[0], (lambda *a: fs[0](*X(*a))), cin[0])]
        if len(fs) > 1:
            exp = np.stack(cin, axis=-1)
            out.append(('tuple', (lambda *a: tuple(f(*a) for f in fs)),
                        (lambda *a: tuple(f(*X(*a)) for f in fs)), exp))
            # matrix valued: [[f1, f2], [f2, f1]] as one array with two trailing axes
            exm = np.stack([np.stack([cin[0], cin[1]], axis=-1), np.stack([cin[1], cin[0]], axis=-1)], axis=-2)

            def mat(fa):
                def g(*a):
                    v = [np.asarray(f(*a)) + 0.0 * sum(np.asarray(x) for x in a) for f in fa]
                    return np.stack([np.stack([v[0], v[1]], axis=-1), np.stack([v[1], v[0]], axis=-1)], axis=-2)
                return g
            out.append(('matrix', mat(fs), mat([(lambda *a, f=f: f(*X(*a))) for f in fs]), exm))
        return out

    for label, fphys, fpull, exp in variants(comps):
        if geo is None:
            call = 'interpolate(func,%s)' % label
            r = api.run(call, lambda: approx.interpolate(kv_arg, fphys, nodes=nodes_arg))
            api.compare(call, r, exp, TOL_DIRECT)
        else:
            call = 'interpolate(func,%s,geo)' % label
            r1 = api.run(call, lambda: approx.interpolate(kvs, fphys, geo=geo, nodes=nodes_arg))
            api.compare(call, r1, exp, TOL_DIRECT)
            call = 'interpolate(pullback,%s)' % label
            r2 = api.run(call, lambda: approx.interpolate(kvs, fpull, nodes=nodes_arg))
            api.compare(call, r2, exp, TOL_DIRECT)
            if r1 is not None and r2 is not None and np.shape(r1) == np.shape(r2):
                api.calls += 1
                if np.abs(np.asarray(r1) - np.asarray(r2)).max() > 1e-11 * max(1.0, np.abs(exp).max()):
                    api.fail('physical-vs-pullback', 'interpolate(%s)' % label)
        # L2 projection, Kronecker path (parameter domain): data = pull-back
        call = 'project_L2(pullback,%s)' % label
        r = api.run(call, lambda: approx.project_L2(kv_arg, fpull))
        api.compare(call, r, exp, TOL_DIRECT)

    # L2 projection with geometry (library: dim 2 and 3, scalar data)
    fin0 = comps[0]
    pull0 = lambda *a: fin0(*X(*a))
    if d >= 2:
        G = geo if geo is not None else geometry.identity(kvs) if hasattr(geometry, 'identity') else None
        if G is not None:
            gl = ('bilinear' if any(case['geo']['B']) else 'affine') if geo is not None else 'identity'
            call = 'project_L2(physical,geo=%s)' % gl
            r1 = api.run(call, lambda: approx.project_L2(kvs, fin0 if geo is not None else pull0, f_physical=True, geo=G))
            api.compare(call, r1, cin[0], TOL_CG)
            call = 'project_L2(pullback,geo=%s)' % gl
            r2 = api.run(call, lambda: approx.project_L2(kvs, pull0, f_physical=False, geo=G))
            api.compare(call, r2, cin[0], TOL_CG)
            if r1 is not None and r2 is not None:
                api.calls += 1
                if np.abs(r1 - r2).max() > TOL_CG * max(1.0, np.abs(cin[0]).max()):
                    api.fail('physical-vs-pullback', 'project_L2(geo=%s)' % gl)

    # (3) data in the space that is not a polynomial: the spline with the integer coefficients c
    if len(case['vsh']) <= 1:
        fs = bspline.BSplineFunc(kvs, c)
        call = 'project_L2(spline,%s)' % ('scalar' if not case['vsh'] else 'vector')
        r = api.run(call, lambda: approx.project_L2(kvs, fs))
        api.compare(call, r, c, TOL_DIRECT)
        call = 'interpolate(spline)'
        r = api.run(call, lambda: approx.interpolate(kvs, fs, nodes=nodes_arg))
        api.compare(call, r, c, TOL_DIRECT)

    # (4) data outside the space: exact normal equations from the spec, exact solve here
    fout = poly_func(case['fout']['e'], case['fout']['sh'])
    pullout = lambda *a: fout(*X(*a))
    b = ftensor(case['bout'])
    Ms = [np.array([[frac(x) for x in row] for row in D['M']], dtype=object) for D in case['dirs']]
    cex = b
    for k in range(d):
        cex = mode_apply(cex, k, finv(Ms[k]))
    cexf = to_float(cex)
    bscale = max(1.0, max(abs(float(x)) for x in b.ravel()))

    def residual_ok(call, got, tol):
        """residual orthogonal to the space: b - (M_1 x ... x M_d) c = 0, evaluated exactly on the returned floats"""
        if got is None or np.shape(got) != ns:
            return
        cf = np.empty(ns, dtype=object)
        for i, x in np.ndenumerate(np.asarray(got, dtype=float)):
            cf[i] = Fraction(float(x))
        Mc = cf
        for k in range(d):
            Mc = mode_apply(Mc, k, Ms[k])
        res = max(abs(float(x - y)) for x, y in zip(b.ravel(), Mc.ravel()))
        api.calls += 1
        if not res <= tol * bscale:
            api.fail('residual-not-orthogonal', call, residual=res, tol=tol * bscale)

    call = 'project_L2(outside,pullback)'
    r = api.run(call, lambda: approx.project_L2(kv_arg, pullout))
    api.compare(call, r, cexf, TOL_DIRECT)
    residual_ok(call, r, TOL_DIRECT)
    if d >= 2 and geo is not None:
        # geometry-weighted normal equations  (sum_e W_e M^(e_1) x .. x M^(e_d)) c = bw, assembled and solved exactly
        W = ftensor(case['W'])
        M1s = [np.array([[frac(x) for x in row] for row in D['M1']], dtype=object) for D in case['dirs']]
        bw = ftensor(case['bwout'])
        N = int(np.prod(ns))
        Mw = np.zeros((N, N), dtype=object)
        for ex in itertools.product((0, 1), repeat=d):
            if W[ex] != 0:
                K = np.array([[Fraction(1)]], dtype=object)
                for k in range(d):
                    K = np.kron(K, M1s[k] if ex[k] else Ms[k])
                Mw = Mw + W[ex] * K
        cw = fsolve(Mw.tolist(), list(bw.ravel())).reshape(ns)
        cwf = to_float(cw)
        kind = 'bilinear' if any(case['geo']['B']) else 'affine'
        call = 'project_L2(outside,physical,geo=%s)' % kind
        r = api.run(call, lambda: approx.project_L2(kvs, fout, f_physical=True, geo=geo))
        r2 = api.run(call + '/pullback', lambda: approx.project_L2(kvs, pullout, f_physical=False, geo=geo))
        if r is not None and r2 is not None:
            api.calls += 1
            if np.shape(r) != np.shape(r2) or np.abs(r - r2).max() > TOL_CG * max(1.0, np.abs(cwf).max()):
                api.fail('physical-vs-pullback', call)
        # the exact comparison needs the library's Gauss rule to integrate the weighted right-hand side exactly;
        # the spec decides that from the degrees (`wexact`)
        api.weighted[(kind, bool(case['wexact']))] = api.weighted.get((kind, bool(case['wexact'])), 0) + 1
        if case['wexact']:
            api.compare(call, r, cwf, TOL_CG)
        if case['wexact'] and r is not None and np.shape(r) == ns:
            cf = np.array([Fraction(float(x)) for x in np.asarray(r, dtype=float).ravel()], dtype=object)
            res = max(abs(float(x)) for x in (bw.ravel() - Mw.dot(cf)))
            api.calls += 1
            wscale = max(1.0, max(abs(float(x)) for x in bw.ravel()))
            if not res <= TOL_CG * wscale:
                api.fail('residual-not-orthogonal', call, residual=res, tol=TOL_CG * wscale)
        if kind == 'affine':
            # constant weight: the weighted projection is the projection of the pull-back
            api.calls += 1
            if np.abs(cwf - cexf).max() > 1e-12 * max(1.0, np.abs(cexf).max()):
                raise MachineryError('spec inconsistency: affine weighted and unweighted normal equations differ')

    # (5) the 1-D functions of bspline.py
    if d == 1:
        kv = kvs[0]
        f1 = lambda x: comps[0](*X(x))
        call = 'bspline.interpolate'
        r = api.run(call, lambda: bspline.interpolate(kv, lambda x: f1(x) + 0.0 * x, nodes=nodes_arg[0] if custom else None))
        api.compare(call, r, cin[0], TOL_DIRECT)
        call = 'bspline.project_L2(in)'
        r = api.run(call, lambda: bspline.project_L2(kv, lambda x: f1(x) + 0.0 * x))
        api.compare(call, r, cin[0], TOL_DIRECT)
        call = 'bspline.project_L2(outside)'
        r = api.run(call, lambda: bspline.project_L2(kv, lambda x: pullout(x) + 0.0 * x))
        api.compare(call, r, cexf, TOL_DIRECT)
        residual_ok(call, r, TOL_DIRECT)


HPREWARM = r'''
import sys
sys.path.insert(0, %(repo)r); sys.path.insert(0, %(verif)r)
import json, numpy as np
from harness import hs_util
from pyiga import approx
cfg = json.loads(%(cfg)r)
hs = hs_util.make_space(cfg, integer_grid=True)
approx.project_L2(hs, lambda *X: 1.0 + 0 * X[0])
print('ok')
'''


def hierarchical_part(ctx):
    """L2 projection into hierarchical spaces (HB and THB) reproduces every function of the space: spaces = reachable
    states of spec/HRepr.tla, functions = integer combinations of the (T)HB basis, built with HSplineFunc."""
    import json
    import os
    import subprocess
    from concurrent.futures import ThreadPoolExecutor as TPE
    from ..common import PY, REPO, VERIF
    from .. import hs_util
    from pyiga import approx, hierarchical
    base = dict(D=1, P1=2, P2=0, N1=3, N2=0, MaxLev=3, Disp=0, TruncMark=False, MaxCalls=2, MarkCap=2, DoEmit=True)
    cfgs = [('h1d-p2-n3', dict(base)), ('h2d-p12-2x2', dict(base, D=2, P1=1, P2=2, N1=2, N2=2, MarkCap=1))]
    if ctx.thorough:
        cfgs.append(('h1d-p3-n3-d1', dict(base, P1=3, Disp=1, MaxCalls=3)))
        cfgs.append(('h2d-p2-2x2-d1', dict(base, D=2, P1=2, P2=2, N1=2, N2=2, Disp=1, MarkCap=2)))
    pool = TPE(6)
    warm = []
    for d in sorted({c['D'] for _, c in cfgs}):
        c0 = next(c for _, c in cfgs if c['D'] == d)
        code = HPREWARM % dict(repo=str(REPO), verif=str(VERIF), cfg=json.dumps(c0))
        warm.append(pool.submit(subprocess.run, [PY, '-c', code], env=dict(os.environ), stdout=subprocess.PIPE,
                                stderr=subprocess.PIPE, text=True, timeout=1800))

    def one(item):
        name, consts = item
        cfg = write_cfg(ctx.scratch / ('hr17_%s.cfg' % name), consts, invariants=['FunChar', 'BasisOK'], view='View')
        return name, consts, ctx.tlc('HRepr', cfg, workers=10 if consts['D'] == 2 else 3, timeout=3000)
    runs = [pool.submit(one, it) for it in cfgs]
    for w in warm:
        w.result()
    rng = np.random.RandomState(ctx.seed + 5)
    for r in runs:
        name, consts, res = r.result()
        reps = res.recs('REPR')
        if not reps:
            raise MachineryError('HRepr emitted nothing for %s' % name)
        step = 1 if ctx.thorough else max(1, len(reps) // 12)
        for rp in reps[::step]:
            marks = [c['marks'] for c in rp['hist']]
            for trunc in (False, True):
                hs, _, err = hs_util.replay_history(consts, rp['hist'], truncate=trunc, integer_grid=True)
                if err is not None:
                    continue
                if [(l, tuple(x)) for l, x in hs.active_functions(flat=True)] != [(e['l'], tuple(e['x'])) for e in rp['canonF']]:
                    continue
                n = hs.numdofs
                from fractions import Fraction as _F
                R = np.zeros((rp['nfine'], n))
                for r_, c_, nn_, dd_ in rp['thb' if trunc else 'hb']:
                    R[r_, c_] = float(_F(nn_, dd_))
                kvf = hs.knotvectors(hs.numlevels - 1)
                S = [float(kv.kv[-1]) for kv in kvf]
                pmin = min(kv.p for kv in kvf)
                sigb = 'truncate=%s config=%s marks=%s' % (trunc, name, json.dumps(marks))
                # (a) a global polynomial of degree <= p lies in every hierarchical space and is integrated exactly on
                #     every level: the projection must reproduce it; checked through the exact representation matrix
                poly = (lambda *X: functools.reduce(np.multiply, [1.0 + (X[i] / S[::-1][i]) ** pmin for i in range(len(S))]))
                try:
                    got = np.asarray(approx.project_L2(hs, poly)).ravel()
                    from pyiga import bspline as _b
                    cf = _b.interpolate(kvf[0], lambda x: 1.0 + (x / S[0]) ** pmin) if len(kvf) == 1 else \
                        approx.interpolate(kvf, poly)
                    cf = np.asarray(cf).ravel()
                except Exception as ex:
                    ctx.violation('exception %s hierarchical project_L2 %s' % (type(ex).__name__, sigb), {'error': repr(ex)})
                    continue
                ctx.case(('hproj', name, json.dumps(marks), trunc), nontrivial=hs.numlevels >= 2,
                         sample={'hierarchical space': name, 'marks_per_call': marks, 'truncate': trunc, 'numdofs': n}
                         if hs.numlevels >= 3 and len(ctx.samples) < 6 else None)
                if got.shape != (n,) or np.abs(R @ got - cf).max() > 1e-8 * max(1.0, np.abs(cf).max()):
                    ctx.violation('hierarchical project_L2 does not reproduce a global polynomial ' + sigb,
                                  {'maxdiff': float(np.abs(R @ got - cf).max()) if got.shape == (n,) else 'shape'})
                # (a') the same history on coarse knot vectors whose interior knots have multiplicity 2 (outside the HSpace
                #      model, whose levels have simple knots): numeric predicate with the object's own represent_fine()
                if min(consts['P1'], consts['P2'] if consts['D'] == 2 else consts['P1']) >= 2:
                    try:
                        kvs2 = hs_util.make_kvs(consts, integer_grid=True, mult=2)
                        hs2 = hierarchical.HSpace(kvs2, truncate=trunc, disparity=consts['Disp'] if consts['Disp'] > 0 else np.inf)
                        for call in rp['hist']:
                            hs2.refine(hs_util.render_marks(call, 'set', hs2))
                        kvf2 = hs2.knotvectors(hs2.numlevels - 1)
                        got3 = np.asarray(approx.project_L2(hs2, poly)).ravel()
                        cf3 = _b.interpolate(kvf2[0], lambda x: 1.0 + (x / S[0]) ** pmin) if len(kvf2) == 1 else \
                            approx.interpolate(kvf2, poly)
                        cf3 = np.asarray(cf3).ravel()
                        R3 = hs2.represent_fine().toarray()
                        ctx.case(('hproj-mult2', name, json.dumps(marks), trunc), nontrivial=hs2.numlevels >= 2)
                        if got3.shape != (hs2.numdofs,) or not np.all(np.isfinite(got3)) or \
                                np.abs(R3 @ got3 - cf3).max() > 1e-8 * max(1.0, np.abs(cf3).max()):
                            ctx.violation('numeric: hierarchical project_L2 does not reproduce a global polynomial '
                                          'repeated-interior-knots ' + sigb,
                                          {'maxdiff': float(np.abs(R3 @ got3 - cf3).max()) if got3.shape == (hs2.numdofs,) else 'shape'})
                    except Exception as ex:
                        ctx.violation('exception %s hierarchical project_L2 repeated-interior-knots %s' % (type(ex).__name__, sigb),
                                      {'error': repr(ex)})
                # (b) a function of the space with kinks inside coarse cells (integer combination of the basis)
                c = rng.randint(-3, 4, size=n).astype(float)
                try:
                    f = hierarchical.HSplineFunc(hs, c, truncate=trunc)
                    got2 = np.asarray(approx.project_L2(hs, f)).ravel()
                except Exception as ex:
                    ctx.violation('exception %s hierarchical project_L2 of HSplineFunc %s' % (type(ex).__name__, sigb), {'error': repr(ex)})
                    continue
                if hs.numlevels >= 2 and (got2.shape != c.shape or np.abs(got2 - c).max() > 1e-8 * max(1.0, np.abs(c).max())):
                    ctx.violation('hierarchical project_L2 does not reproduce a function of the space with kinks inside coarse cells',
                                  {'config': name, 'marks_per_call': marks, 'truncate': trunc,
                                   'maxdiff': float(np.abs(got2 - c).max()) if got2.shape == c.shape else 'shape'})
    pool.shutdown()


def run(ctx):
    ctx.rule = ('TLC enumerates spec/Approx.tla: one case per (tuple of 1-3 knot vectors out of 12 with degrees 0..4, '
                'non-uniform / repeated knots, Greville or shifted unisolvent nodes, data variant, affine geometry); '
                'every case is driven through approx.interpolate / project_L2 (arrays, functions, scalar / vector / '
                'matrix valued, geo=, physical vs pull-back, Kronecker and CG path) and bspline.interpolate / '
                'project_L2; non-trivial = dim >= 2, or custom nodes, or a non-identity geometry')
    ctx.assumptions = [
        'integer knots, degrees 0..4, at most 6 dofs per direction (exact rational arithmetic inside 32-bit TLC integers)',
        'geometries are identity, affine (shear / anisotropic scaling / axis permutation) or bilinear B-spline maps (polynomial, '
        'non-constant |det J| as weight); NURBS geometries and hierarchical spaces are not covered by this driver',
        'coefficients compared to 1e-10 (direct solvers) / 1e-8 (CG path) relative to max|c|; for data outside the space '
        'the exact normal equations come from the spec and are solved / checked with Python Fractions in the harness',
        'approx.project_L2 with geometry exists for dim 2, 3 and scalar data only (library assertion); uses the shipped '
        'mass assemblers, no on-demand compilation']
    nvar = 12 if ctx.thorough else 2
    salt = 1 + ctx.seed % 200

    def tlc_cases(name, d, variants, must_pass):
        consts = dict(Dims=frozenset({d}), Vars=frozenset(variants), Salt=salt, Big=bool(ctx.thorough))
        cfg = write_cfg(ctx.scratch / ('approx_%s.cfg' % name), consts, invariants=INVS)
        res = ctx.tlc('Approx', cfg, workers=4, timeout=1500, must_pass=False)
        if not res.ok and must_pass and 'Overflow' not in (res.stdout or ''):
            raise MachineryError('Approx %s: TLC did not complete (violated=%s error=%s)\n%s'
                                 % (name, res.violated, res.error, res.stdout[-2000:]))
        return res

    def one(d):
        """all cases of dimension d; a 32-bit overflow inside one case (TLC aborts the whole run) is contained by
        re-running variant by variant and dropping the offending variants as skipped"""
        res = tlc_cases('d%d' % d, d, range(1, nvar + 1), True)
        if res.ok:
            cases = res.recs('CASE')
        else:
            cases = []
            for v in range(1, nvar + 1):
                r = tlc_cases('d%d_v%d' % (d, v), d, [v], True)
                if r.ok:
                    cases += r.recs('CASE')
                else:
                    ctx.skip('Approx dim=%d variant=%d salt=%d: integer overflow inside TLC (32 bit); variant dropped' % (d, v, salt))
        if not cases:
            raise MachineryError('Approx d=%d emitted no case' % d)
        return cases

    with ThreadPoolExecutor(3) as ex:
        allcases = [c for cs in ex.map(one, (1, 2, 3)) for c in cs]

    found = {}
    calls = 0
    warnings = 0
    weighted = {}
    for case in allcases:
        api = Api(ctx, case, found)
        try:
            drive_tensor_product(ctx, case, api)
            for builder in EXTRA_SPACE_BUILDERS:
                builder(ctx, case, api)
        except Exception as ex:         # a bug of the harness itself must not look like a pass
            raise MachineryError('driver error on case %s/%s: %r' % (case['dt'], case['v'], ex))
        calls += api.calls
        warnings += api.cg_warnings
        for k, n in api.weighted.items():
            weighted['%s geometry, weighted rhs integrated %s' % (k[0], 'exactly' if k[1] else 'inexactly (only physical==pullback checked)')] = \
                weighted.get('%s geometry, weighted rhs integrated %s' % (k[0], 'exactly' if k[1] else 'inexactly (only physical==pullback checked)'), 0) + n
        nontriv = case['d'] >= 2 or any(D['custom'] for D in case['dirs']) or not case['geo']['id']
        ctx.case((tuple(case['dt']), case['v']), nontrivial=nontriv,
                 sample={'dirs': [[D['p'], D['kv']] for D in case['dirs']], 'geo': case['geo'], 'valshape': case['vsh'],
                         'degree_in': case['mIn'], 'degree_out': case['mOut']} if len(ctx.samples) < 4 else None)
    hierarchical_part(ctx)
    ctx.notes['library_calls_compared'] = calls
    ctx.notes['cg_not_converged_warnings'] = warnings
    ctx.notes['weighted_outside_cases'] = weighted
    for sig in sorted(found):
        cnt, detail = found[sig]
        detail = dict(detail)
        detail['occurrences'] = cnt
        ctx.violation(sig, detail)
    ctx.exhaustive = True
