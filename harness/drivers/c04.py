"""C04 -- hierarchical spaces stay well-formed under every refinement history.

spec/HSpace.tla: declarative characterisation + code-shaped refine(); TLC checks FunChar, Disjoint, Nested, Tiling,
DisparityOK, LevelsOK on every reachable state and emits one history per distinct state (M1).  Each history is
replayed on the real HSpace with marks rendered as set/list/tuple; the recorded events (pre, post, marks in/out) are
validated by spec/HSpaceTrace.tla at property level (M2); incidence matrix, canonical order and support queries are
compared with the spec's incidence.  Thorough: the repository's own hierarchical tests run with the refine hook on and
their events go through the same trace specification."""
import json
import os
import subprocess
from concurrent.futures import ThreadPoolExecutor

import numpy as np

from ..common import PY, REPO, MachineryError, write_cfg
from .. import hs_util

INVS = ['FunChar', 'Disjoint', 'Nested', 'Tiling', 'DisparityOK', 'LevelsOK', 'EmitState']
CLAUSES = ['FunChar', 'Disjoint', 'Nested', 'Tiling', 'DisparityOK', 'LevelsOK']


def configs(ctx):
    base = dict(D=1, P1=2, P2=0, N1=3, N2=0, MaxLev=3, Disp=0, TruncMark=False, MaxCalls=3, MarkCap=0, DoEmit=True)
    out = []

    def add(name, workers=2, repr=False, sim=None, **kw):
        c = dict(base)
        c.update(kw)
        out.append((name, c, workers, repr, sim))
    add('1d-p2-n3-inf', repr=True, MaxCalls=2)
    add('1d-p2-n3-d1', Disp=1, repr=True)
    add('1d-p1-n4-d1', P1=1, N1=4, Disp=1)
    add('1d-p3-n2-d1', P1=3, N1=2, Disp=1, repr=True)
    add('1d-p2-n2-L4-d1', N1=2, MaxLev=4, Disp=1, MaxCalls=3, MarkCap=2)
    add('1d-p2-n3-d1-trunc', Disp=1, TruncMark=True)
    # four levels, marks on several levels in one call; explored WITHOUT a view: every history is replayed, not one per space
    add('1d-p1-n4-L4-d1-allhist', P1=1, N1=4, MaxLev=4, Disp=1, MaxCalls=3, MarkCap=2, workers=6)
    add('2d-p1-2x2-inf', D=2, P1=1, P2=1, N1=2, N2=2, MaxCalls=2, MarkCap=2, workers=4)
    add('2d-p1-2x2-inf-repr', D=2, P1=1, P2=1, N1=2, N2=2, MaxCalls=2, MarkCap=1, workers=4, repr=True)
    add('2d-p12-2x2-d1', D=2, P1=1, P2=2, N1=2, N2=2, Disp=1, MaxCalls=2, MarkCap=2, workers=4)
    # deep random histories (TLC -simulate, one RandomElement successor per state): interval marks on one level per call
    add('sim-1d-p1-n4-d2-L6', P1=1, N1=4, MaxLev=6, Disp=2, MaxCalls=6, MarkCap=91, workers=4,
        sim=(120 if not ctx.thorough else 1500, 8))
    if ctx.thorough:
        add('sim-1d-p2-n5-d2-L6', P1=2, N1=5, MaxLev=6, Disp=2, MaxCalls=6, MarkCap=91, workers=4, sim=(600, 8))
        add('sim-1d-p1-n3-d3-L7', P1=1, N1=3, MaxLev=7, Disp=3, MaxCalls=7, MarkCap=91, workers=4, sim=(400, 9))
        add('sim-1d-p2-n4-d1-L5', P1=2, N1=4, MaxLev=5, Disp=1, MaxCalls=6, MarkCap=91, workers=4, sim=(600, 8))
        add('1d-p2-n3-inf-c3', repr=True, workers=4)
        add('1d-p1-n2-L4-d1-repr', P1=1, N1=2, MaxLev=4, Disp=1, MarkCap=2, repr=True, workers=4)
        add('2d-p21-2x2-d1-repr', D=2, P1=2, P2=1, N1=2, N2=2, Disp=1, MaxCalls=2, MarkCap=2, workers=8, repr=True)
        add('1d-p2-n4-d2-L4', N1=4, MaxLev=4, Disp=2, MarkCap=3, workers=4)
        add('1d-p1-n3-inf-L4', P1=1, N1=3, MaxLev=4, MarkCap=3, workers=4)
        add('1d-p3-n3-d1-trunc', P1=3, N1=3, Disp=1, TruncMark=True)
        add('1d-p4-n2-d1', P1=4, N1=2, Disp=1)
        add('2d-p2-2x2-d1-c3', D=2, P1=2, P2=2, N1=2, N2=2, Disp=1, MaxCalls=3, MarkCap=2, workers=8)
        add('2d-p1-2x2-inf-c3', D=2, P1=1, P2=1, N1=2, N2=2, MaxCalls=3, MarkCap=2, workers=8)
        add('2d-p21-3x2-d1-trunc', D=2, P1=2, P2=1, N1=3, N2=2, Disp=1, TruncMark=True, MaxCalls=2, MarkCap=2, workers=6)
        add('2d-p1-2x2-d2-L4', D=2, P1=1, P2=1, N1=2, N2=2, MaxLev=4, Disp=2, MaxCalls=2, MarkCap=2, workers=8)
    return out


CONTAINERS = [('set',), ('list',), ('tuple',), ('list', 'tuple', 'set'), ('alias',)]


def check_queries(ctx, name, st, hs):
    """incidence matrix, canonical order, compute_supports against the spec's incidence."""
    inc = st['inc']
    sig = 'config=%s hist=%s' % (name, json.dumps([c['marks'] for c in st['hist']]))
    try:
        F = hs.active_functions(flat=True)
        C = hs.active_cells(flat=True)
        Z = hs.incidence_matrix().toarray()
    except Exception as ex:
        ctx.violation('exception %s in queries %s' % (type(ex).__name__, sig), {'error': repr(ex)})
        return
    expF = [(e['l'], tuple(e['x'])) for e in inc['canonF']]
    expC = [(e['l'], tuple(e['x'])) for e in inc['canonC']]
    if [(l, tuple(x)) for l, x in F] != expF or [(l, tuple(x)) for l, x in C] != expC:
        ctx.violation('canonical-order ' + sig, {'functions': str(F), 'expected': str(expF)})
        return
    E = np.zeros((len(expF), len(expC)), dtype=int)
    for ci, fi in inc['pairs']:
        E[fi - 1, ci - 1] = 1
    if Z.shape != E.shape or not np.array_equal((Z != 0).astype(int), E):
        ctx.violation('incidence-matrix ' + sig, {'got': Z.tolist(), 'expected': E.tolist()})
        return
    # compute_supports of single functions = row of the incidence
    for fi, (l, x) in enumerate(expF[:12]):
        funcs = [[] for _ in range(hs.numlevels)]
        funcs[l] = [x]
        try:
            sup = hs.compute_supports(funcs)
        except Exception as ex:
            ctx.violation('exception %s in compute_supports %s' % (type(ex).__name__, sig), {'error': repr(ex)})
            return
        got = {(lv, tuple(c)) for lv, cs in sup.items() for c in cs}
        exp = {expC[ci] for ci in range(len(expC)) if E[fi, ci]}
        if got != exp:
            ctx.violation('compute_supports ' + sig, {'function': [l, x], 'got': sorted(got), 'expected': sorted(exp)})
            return


def dense(sp, nr, nc):
    from fractions import Fraction
    A = np.zeros((nr, nc))
    for r, c, n, d in sp:
        A[r, c] = float(Fraction(n, d))
    return A


def check_repr(ctx, name, consts, rp):
    """exact HB/THB representation matrices of the spec vs represent_fine, thb_to_hb, hb_to_thb."""
    hist = rp['hist']
    marks = [c['marks'] for c in hist]
    sig = 'config=%s marks=%s' % (name, json.dumps(marks))
    order = len(json.dumps(marks)) % 3      # 0: HB first, 1: THB first, 2: probed history (queries between refines)
    hs, events, err = hs_util.replay_history(consts, hist, containers=('set',), truncflag=consts['TruncMark'],
                                             probes=order == 2)
    if err is not None:
        return      # reported by the main replay
    F = [(l, tuple(x)) for l, x in hs.active_functions(flat=True)]
    if F != [(e['l'], tuple(e['x'])) for e in rp['canonF']]:
        return      # admissible closure different from the model: the spec's matrices do not apply
    nc = len(F)
    H = dense(rp['hb'], rp['nfine'], nc)
    T = dense(rp['thb'], rp['nfine'], nc)
    try:
        if order == 1:
            Tc = hs.represent_fine(truncate=True).toarray()
            Hc = hs.represent_fine(truncate=False).toarray()
        else:
            Hc = hs.represent_fine(truncate=False).toarray()
            Tc = hs.represent_fine(truncate=True).toarray()
        t2h = hs.thb_to_hb().toarray()
        h2t = hs.hb_to_thb().toarray()
        # the queries are read-only: asking again (in the other order) gives the same matrices
        Tc2 = hs.represent_fine(truncate=True).toarray()
        Hc2 = hs.represent_fine(truncate=False).toarray()
        if Hc2.shape != Hc.shape or abs(Hc2 - Hc).max() > 0 or abs(Tc2 - Tc).max() > 0:
            ctx.violation('represent_fine-not-read-only ' + sig, {})
            return
    except Exception as ex:
        ctx.violation('exception %s in represent_fine/thb_to_hb %s' % (type(ex).__name__, sig), {'error': repr(ex)})
        return
    ctx.case(('repr', name, json.dumps(marks)), nontrivial=hs.numlevels >= 2,
             sample={'config': name, 'marks_per_call': marks, 'repr_shape': list(H.shape),
                     'thb_nonzeros': len(rp['thb'])} if len(hist) == 2 and len(ctx.samples) < 5 else None)
    tol = 1e-12
    if Hc.shape != H.shape or abs(Hc - H).max() > tol:
        ctx.violation('represent_fine-HB ' + sig, {'maxdiff': float(abs(Hc - H).max()) if Hc.shape == H.shape else 'shape'})
    elif abs(Tc - T).max() > tol:
        ctx.violation('represent_fine-THB ' + sig, {'maxdiff': float(abs(Tc - T).max())})
    elif abs(H @ t2h - T).max() > 1e-11:
        ctx.violation('thb_to_hb-not-same-function ' + sig, {'maxdiff': float(abs(H @ t2h - T).max())})
    elif abs(T @ h2t - H).max() > 1e-11:
        ctx.violation('hb_to_thb-not-same-function ' + sig, {'maxdiff': float(abs(T @ h2t - H).max())})
    elif abs(t2h @ h2t - np.eye(nc)).max() > 1e-11:
        ctx.violation('thb_hb-transforms-not-inverse ' + sig, {})


def validate_events(ctx, name, cfg, events, origin):
    """Run HSpaceTrace on a batch of events of one configuration; returns number validated."""
    if not events:
        return 0
    maxlev = max(max(e['pre']['L'], e['post']['L']) for e in events)
    maxlev = max(maxlev, 2)
    c = dict(cfg)
    c.update(MaxLev=maxlev, DoEmit=False, MaxCalls=0, MarkCap=0)

    def pad(st):
        return dict(L=st['L'], active=st['active'], deact=st['deact'], actfun=st['actfun'], deactfun=st['deactfun'])
    batch = {'events': [dict(id=i, pre=pad(e['pre']), post=pad(e['post']),
                             marks_in=e['marks_in'] if e['marks_in'] else [[]],
                             marks_out=e['marks_out'] if e['marks_out'] else [[]]) for i, e in enumerate(events)]}
    tf = ctx.scratch / ('hs_trace_%s_%s.json' % (origin, name))
    tf.write_text(json.dumps(batch))
    cfgp = write_cfg(ctx.scratch / ('hs_trace_%s_%s.cfg' % (origin, name)), c, spec='TraceSpec', postcondition='Consumed')
    res = ctx.tlc('HSpaceTrace', cfgp, workers=1, env={'TRACE_FILE': str(tf)}, must_pass=False, timeout=1800)
    evs = res.recs('EV')
    if len(evs) != len(events):
        raise MachineryError('HSpaceTrace gave %d verdicts for %d events (%s)\n%s' % (
            len(evs), len(events), res.error or res.violated, res.stdout[-2000:]))
    diverged = 0
    for v in evs:
        e = events[v['id']]
        bad = [c + '(pre)' for c in CLAUSES if not v['pre'][c]]
        bad += [c for c in CLAUSES if not v['post'][c]]
        if not v['StepOK']:
            bad.append('StepOK')
        if bad:
            ctx.violation('trace-rejected clause=%s origin=%s config=%s marks=%s' % (
                '+'.join(bad), origin, name, json.dumps(e['marks_in'])),
                {'event': e, 'failed_clauses': bad})
        elif not v['ModelEq']:
            diverged += 1
    if diverged:
        ctx.notes.setdefault('admissible_closures_differing_from_model', 0)
        ctx.notes['admissible_closures_differing_from_model'] += diverged
    return len(evs)


def run_repo_tests(ctx):
    """The repository's own tests with the refine hook on -> events grouped by configuration."""
    tr = ctx.scratch / 'repo_refine.ndjson'
    env = dict(os.environ)
    env.update(PYIGA_VERIF='1', PYIGA_VERIF_TRACE=str(tr), XDG_CACHE_HOME=str(ctx.scratch / 'xdg_repo'),
               PYTHONPATH=str(REPO))
    r = subprocess.run([PY, '-m', 'pytest', '-q', '-x', '-p', 'no:cacheprovider', 'test/test_hierarchical.py',
                        'test/test_localmg.py', '-k', 'not assemble and not project'],
                       cwd=str(REPO), env=env, stdout=subprocess.PIPE, stderr=subprocess.STDOUT, text=True, timeout=3000)
    if not tr.exists():
        ctx.skip('repo tests produced no refine events: ' + r.stdout[-300:])
        return
    groups = {}
    n = 0
    for line in tr.read_text().splitlines():
        e = json.loads(line)
        if e.get('ev') != 'Refine':
            continue
        n += 1
        pre = e['pre']
        if not pre['simple'] or pre['dim'] > 2 or max(pre['L'], e['post']['L']) > 5:
            ctx.skip('repo event outside the model (dim %d, repeated knots or > 5 levels)' % pre['dim'])
            continue
        nlev = e['post']['L']
        mi = [[] for _ in range(nlev)]
        mo = [[] for _ in range(nlev)]
        for k, v in e['marks_in'].items():
            if int(k) < nlev:
                mi[int(k)] = v
        for k, v in e['marks_out'].items():
            if int(k) < nlev:
                mo[int(k)] = v
        p, n0 = pre['p'], pre['n0']
        cfg = dict(D=pre['dim'], P1=p[0], P2=p[1] if pre['dim'] > 1 else 0, N1=n0[0], N2=n0[1] if pre['dim'] > 1 else 0,
                   Disp=pre['disp'], TruncMark=bool(e.get('truncate', False)))
        key = json.dumps(cfg, sort_keys=True)
        groups.setdefault(key, (cfg, []))[1].append(dict(pre=pre, post=e['post'], marks_in=mi, marks_out=mo))
    tot = 0
    for i, (key, (cfg, evs)) in enumerate(sorted(groups.items())):
        if sum(len(x) for e in evs for x in e['post']['active']) > 40000:
            ctx.skip('repo event group too large for TLC')
            continue
        tot += validate_events(ctx, 'repo%d' % i, cfg, evs, 'repotests')
    ctx.notes['repo_test_refine_events'] = {'recorded': n, 'validated': tot, 'pytest_tail': r.stdout[-120:]}
    ctx.traces += tot


def run(ctx):
    ctx.rule = ('TLC enumerates every history of <= MaxCalls refine calls over the admissible mark families of each '
                'configuration; one case = the BFS history of one distinct reachable state, replayed on the real HSpace; '
                'non-trivial = >= 2 calls or marks on >= 2 levels')
    ctx.assumptions = ['open knot vectors with simple interior knots, uniform dyadic refinement (what HSpace builds)',
                       'comparison at property level: an admissible closure different from the model is accepted']
    todo = configs(ctx)

    def one(item):
        name, consts, workers, rep, sim = item
        cfg = write_cfg(ctx.scratch / ('hs_%s.cfg' % name), consts, invariants=INVS + (['BasisOK'] if rep else []),
                        view=None if name.endswith('-allhist') else 'View')
        if sim:
            return name, consts, ctx.tlc('HSpace', cfg, workers=workers, timeout=3000, simulate=sim[0], depth=sim[1],
                                         seed=ctx.seed + 17)
        return name, consts, ctx.tlc('HRepr' if rep else 'HSpace', cfg, workers=workers, timeout=3000)
    with ThreadPoolExecutor(4) as ex:
        results = list(ex.map(one, todo))

    for name, consts, res in results:
        sts = res.recs('ST')
        if not sts:
            raise MachineryError('no states emitted for %s' % name)
        if name.startswith('sim-'):      # simulation prints every prefix of every trace: keep each history once
            uniq = {}
            for st in sts:
                uniq.setdefault(json.dumps([c['marks'] for c in st['hist']]), st)
            sts = list(uniq.values())
        events_all = []
        for n, st in enumerate(sts):
            hist = st['hist']
            cont = CONTAINERS[n % len(CONTAINERS)]
            hs, events, err = hs_util.replay_history(consts, hist, containers=cont, truncflag=consts['TruncMark'])
            marks = [c['marks'] for c in hist]
            nontriv = len(hist) >= 2 or sum(1 for lv in hist[0]['marks'] if lv) >= 2
            ctx.case((name, json.dumps(marks)), nontrivial=nontriv,
                     sample={'config': name, 'marks_per_call': marks, 'containers': cont,
                             'numactive': list(hs.numactive)} if n == len(sts) // 2 else None)
            if err is not None:
                k, how, ex = err
                ctx.violation('exception %s in refine container=%s disparity=%s' % (type(ex).__name__, how, consts['Disp']),
                              {'config': name, 'marks_per_call': marks, 'failing_call': k, 'error': repr(ex)})
                events_all += events
                continue
            events_all += events
            light = name.endswith('-allhist') and n % 7 != 0       # all-histories configuration: the events are what counts
            if consts['Disp'] > 0 and not consts['TruncMark'] and n % 2 == 0 and not light:
                # the same history on a THB space (truncate=True) with the DEFAULT marking: the mesh and the
                # activation sets must not depend on the basis flag
                hs_t, ev_t, err_t = hs_util.replay_history(consts, hist, containers=('set',), truncate=True)
                if err_t is None:
                    events_all += ev_t
                    if hs_util.project(hs_t) != hs_util.project(hs):
                        ctx.violation('mesh-depends-on-truncate-flag config=%s marks=%s' % (name, json.dumps(marks)),
                                      {'hb': hs_util.project(hs), 'thb': hs_util.project(hs_t)})
            if len(hist) >= 2 and n % 3 != 2 and not light:
                # the adaptive loop: read-only queries (solve / mark) between the refine() calls, alternately on the
                # object itself and on copy()s of it.  Same state, same answers.
                hs_p, ev_p, err_p = hs_util.replay_history(consts, hist, containers=('set',), truncflag=consts['TruncMark'],
                                                           probes=True, via_copy=n % 3 == 1)
                hs_util.probe(hs_p)
                if err_p is not None or hs_util.project(hs_p) != hs_util.project(hs):
                    ctx.violation('state-depends-on-read-only-queries config=%s marks=%s' % (name, json.dumps(marks)),
                                  {'error': repr(err_p), 'plain': hs_util.project(hs), 'probed': hs_util.project(hs_p)})
                else:
                    hs = hs_p       # everything below is checked on the probed object
            got = hs_util.project(hs)
            same = all(hs_util.same_sets(got[k], st[k]) for k in ('active', 'deact', 'actfun', 'deactfun'))
            if not same and consts['Disp'] == 0:
                # without disparity the state is fully determined by the marks
                ctx.violation('state-mismatch config=%s marks=%s' % (name, json.dumps(marks)), {'got': got, 'expected': {
                    k: st[k] for k in ('active', 'deact', 'actfun', 'deactfun')}})
                continue
            if same and not light:
                check_queries(ctx, name, st, hs)
        for rp in res.recs('REPR'):
            check_repr(ctx, name, consts, rp)
        # M2: all recorded events of this configuration in one TLC run
        # de-duplicate identical events (shared prefixes of histories)
        seen, uniq = set(), []
        for e in events_all:
            k = json.dumps([e['pre'], e['marks_in']], sort_keys=True)
            if k not in seen:
                seen.add(k)
                uniq.append(e)
        validate_events(ctx, name, {k: consts[k] for k in ('D', 'P1', 'P2', 'N1', 'N2', 'Disp', 'TruncMark')}, uniq, 'driver')
    if ctx.thorough:
        run_repo_tests(ctx)
    ctx.exhaustive = True
