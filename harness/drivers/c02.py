"""C02 -- B-spline basis evaluation.

spec/BSplineRef.tla (exact reference), spec/BSplineEval.tla (enumeration of open knot vectors x sample points x
derivative orders; invariants of the reference; code-shaped model of the A2.3 kernel), spec/FindSpanPC.tla (PlusCal
transcription of pyx_findspan), spec/BSplineTP.tla (tensor-product cases).  TLC emits the expected rationals, this
driver runs every evaluation route of the real code on the same inputs (M1) and compares with
|x - q| <= 1e-11 * max(1, |q|, row scale)."""
import itertools
import json
import subprocess
from concurrent.futures import ThreadPoolExecutor

import numpy as np

from ..common import MachineryError, PY, VERIF, frac, repo_env, run_tlaps, write_cfg

TOL = 1e-11


# ----------------------------------------------------------------------------------
# TLC configurations

def eval_cfgs(ctx):
    """(name, constants, workers): the tier's profile (spec/BSplineEval.tla, Profiles) split by degree over TLC runs"""
    base = dict(Extra=2, Mut=0, DoEmit=True)
    if not ctx.thorough:
        return [('q', dict(base, Tier='quick', Degrees={0, 1, 2, 3}), 4)]
    return [('t012', dict(base, Tier='thorough', Degrees={0, 1, 2}), 4),
            ('t3', dict(base, Tier='thorough', Degrees={3}), 4),
            ('t4', dict(base, Tier='thorough', Degrees={4}), 4),
            ('t5', dict(base, Tier='thorough', Degrees={5}), 4)]


def findspan_cfgs(ctx):
    if not ctx.thorough:
        return [('fs', dict(Degrees={0, 1, 2, 3}, BMax=4, MaxSpans=4, NoEndCase=False), 2)]
    return [('fs', dict(Degrees={0, 1, 2, 3, 4, 5}, BMax=6, MaxSpans=5, NoEndCase=False), 4)]


# ----------------------------------------------------------------------------------
# violations are aggregated per signature (first failing input kept as detail)

class Agg:
    def __init__(self, ctx):
        self.ctx = ctx
        self.v = {}

    def add(self, sig, **detail):
        e = self.v.get(sig)
        if e is None:
            self.v[sig] = {'count': 1, 'first': detail}
        else:
            e['count'] += 1

    def flush(self):
        for sig, e in self.v.items():
            self.ctx.violation(sig, e)


def fr(x):
    return float(frac(x))


def bad(X, E, scale=None, tol=TOL):
    """boolean mask of entries violating |x - q| <= tol * max(1, |q|, scale); NaN/inf always violate."""
    X = np.asarray(X, dtype=float)
    E = np.asarray(E, dtype=float)
    s = np.maximum(1.0, np.abs(E))
    if scale is not None:
        s = np.maximum(s, scale)
    with np.errstate(invalid='ignore'):
        return ~(np.abs(X - E) <= tol * s)


class Group:
    """all sample points of one knot vector, with the expected tables of the spec"""

    def __init__(self, p, kv, recs):
        self.p = p
        self.kvl = list(kv)
        recs = sorted(recs, key=lambda r: frac(r['u']))
        self.recs = recs
        self.U = np.array([fr(r['u']) for r in recs])
        self.n = len(kv) - p - 1
        self.first = np.array([r['first'] for r in recs])
        self.span = np.array([r['span'] for r in recs])
        self.maxk = len(recs[0]['D']) - 1
        # W[k, m, r]: active window;  F[k, m, i]: full rows
        self.W = np.array([[[fr(v) for v in r['D'][k]] for r in recs] for k in range(self.maxk + 1)])
        self.F = np.zeros((self.maxk + 1, len(recs), self.n))
        for m, f in enumerate(self.first):
            self.F[:, m, f:f + p + 1] = self.W[:, m, :]
        self.scale = np.abs(self.W).max(axis=2)           # [k, m] row scale

    def sig(self):
        return 'p=%d kv=%s' % (self.p, self.kvl)


def check_tiny_twins(ctx, agg, groups):
    """Route agreement on knot vectors that a tolerance-based comparison cannot tell apart: every spec knot vector scaled
    (exactly, by 2^-34) into a domain of length ~1e-10, all knot vectors of one (degree, length) class evaluated one after
    the other on ONE common grid.  B-spline values are invariant under the scaling, derivatives scale by 2^(34 k)."""
    from pyiga import bspline, assemble_tools
    s = 2.0 ** -34
    classes = {}
    for g in groups:
        classes.setdefault((g.p, len(g.kvl)), []).append(g)
    for (p, nk), gs in sorted(classes.items()):
        if len(gs) < 2 or p > 5:
            continue
        T = min(g.kvl[-1] - g.kvl[0] for g in gs)
        G = s * T * np.array([0.0, 0.125, 0.3125, 0.5, 0.75, 0.9375])
        for g in gs[:12]:
            kv = bspline.KnotVector(s * (np.array(g.kvl, dtype=float) - g.kvl[0]), p)
            try:
                A = np.asarray(assemble_tools.compute_values_derivs(kv, G, p))              # (function, point, order)
                B = np.stack([M.toarray() for M in bspline.collocation_derivs(kv, G, derivs=p)])   # (order, point, function)
                C = np.asarray(bspline.active_deriv(kv, G, p))
                first = np.asarray(bspline.collocation_derivs_info(kv, G, derivs=p)[0])
            except Exception as ex:
                agg.add('tiny domain: exception %s' % type(ex).__name__, kv=g.kvl, p=p, error=repr(ex))
                continue
            A = np.transpose(A, (2, 1, 0))
            scale = np.maximum(np.abs(B).max(axis=2, keepdims=True), 1e-300)
            okAB = A.shape == B.shape and bool(np.all(np.abs(A - B) <= 1e-9 * scale))
            # active_deriv: (order, window, point) against the window of the collocation rows
            okC = True
            for m in range(len(G)):
                w = B[:, m, first[m]:first[m] + p + 1]
                if C.shape[0] != p + 1 or np.any(np.abs(C[:, :, m] - w) > 1e-9 * np.maximum(np.abs(w).max(axis=1, keepdims=True), 1e-300)):
                    okC = False
            ctx.case(('tiny', p, tuple(g.kvl)), nontrivial=True)
            if not okAB:
                agg.add('routes disagree on a tiny domain: compute_values_derivs vs collocation_derivs', kv=g.kvl, p=p, scale=s)
            if not okC:
                agg.add('routes disagree on a tiny domain: active_deriv vs collocation_derivs', kv=g.kvl, p=p, scale=s)


def check_group(ctx, agg, g):
    from pyiga import bspline, assemble_tools
    p, n, U = g.p, g.n, g.U
    kv = bspline.KnotVector(np.array(g.kvl, dtype=float), p)

    def cmp(route, X, E, scale, what='value mismatch order<=p'):
        X = np.asarray(X, dtype=float)
        if X.shape != np.shape(E):
            agg.add('%s: wrong shape' % route, kv=g.kvl, p=p, got=list(X.shape), expected=list(np.shape(E)))
            return
        b = bad(X, E, scale)
        if b.any():
            ix = tuple(int(t[0]) for t in np.nonzero(b))
            agg.add('%s: %s' % (route, what), kv=g.kvl, p=p, index=ix, got=float(X[ix]), expected=float(np.asarray(E)[ix]),
                    points=U.tolist(), nbad=int(b.sum()))

    def guarded(route, f):
        try:
            return f()
        except Exception as ex:
            agg.add('%s: exception %s' % (route, type(ex).__name__), kv=g.kvl, p=p, error=repr(ex))
            return None

    Wp = g.W[:p + 1]                     # orders 0..p, [k, m, r]
    Fp = g.F[:p + 1]
    sc = g.scale[:p + 1]

    # -- active_deriv, array and scalar argument ------------------------------------------------
    X = guarded('active_deriv(array)', lambda: np.asarray(bspline.active_deriv(kv, U, p)))
    if X is not None:
        cmp('active_deriv(array)', np.swapaxes(X, 1, 2), Wp, sc[:, :, None])
    X = guarded('active_deriv(scalar)', lambda: np.stack([np.asarray(bspline.active_deriv(kv, float(u), p)) for u in U], axis=1))
    if X is not None:
        cmp('active_deriv(scalar)', X, Wp, sc[:, :, None])
    for nd in range(p):                  # fewer derivatives requested than the degree
        X = guarded('active_deriv(array)', lambda: np.asarray(bspline.active_deriv(kv, U, nd)))
        if X is not None:
            cmp('active_deriv(array)', np.swapaxes(X, 1, 2), Wp[:nd + 1], sc[:nd + 1, :, None])

    # -- active_ev ------------------------------------------------------------------------------
    X = guarded('active_ev(array)', lambda: np.asarray(bspline.active_ev(kv, U)))
    if X is not None:
        cmp('active_ev(array)', X.T, Wp[0], 1.0)
    X = guarded('active_ev(scalar)', lambda: np.stack([np.asarray(bspline.active_ev(kv, float(u))) for u in U]))
    if X is not None:
        cmp('active_ev(scalar)', X, Wp[0], 1.0)

    # -- span / first active index ----------------------------------------------------------------
    X = guarded('findspan', lambda: np.array([kv.findspan(float(u)) for u in U]))
    if X is not None and not np.array_equal(X, g.span):
        agg.add('findspan: index mismatch', kv=g.kvl, p=p, got=X.tolist(), expected=g.span.tolist(), points=U.tolist())
    X = guarded('first_active_at', lambda: np.array([kv.first_active_at(float(u)) for u in U]))
    if X is not None and not np.array_equal(X, g.first):
        agg.add('first_active_at: index mismatch', kv=g.kvl, p=p, got=X.tolist(), expected=g.first.tolist(), points=U.tolist())

    # -- single_ev ----------------------------------------------------------------------------------
    X = guarded('single_ev(array)', lambda: np.stack([bspline.single_ev(kv, i, U) for i in range(n)], axis=1))
    if X is not None:
        cmp('single_ev(array)', X, Fp[0], 1.0)
    X = guarded('single_ev(scalar)', lambda: np.array([[bspline.single_ev(kv, i, float(u)) for i in range(n)] for u in U]))
    if X is not None:
        cmp('single_ev(scalar)', X, Fp[0], 1.0)

    # -- collocation / collocation_info -----------------------------------------------------------
    X = guarded('collocation', lambda: bspline.collocation(kv, U).toarray())
    if X is not None:
        cmp('collocation', X, Fp[0], 1.0)
    r = guarded('collocation_info', lambda: bspline.collocation_info(kv, U))
    if r is not None:
        if not np.array_equal(np.asarray(r[0]), g.first):
            agg.add('collocation_info: first-active index mismatch', kv=g.kvl, p=p, got=np.asarray(r[0]).tolist(),
                    expected=g.first.tolist())
        cmp('collocation_info', r[1], Wp[0], 1.0)

    # -- collocation_derivs / _info / compute_values_derivs ---------------------------------------
    for nd in sorted({p, min(p, 1), min(p, 2)}):
        X = guarded('collocation_derivs', lambda: np.stack([M.toarray() for M in bspline.collocation_derivs(kv, U, derivs=nd)]))
        if X is not None:
            cmp('collocation_derivs', X, Fp[:nd + 1], sc[:nd + 1, :, None])
    r = guarded('collocation_derivs_info', lambda: bspline.collocation_derivs_info(kv, U, derivs=p))
    if r is not None:
        if not np.array_equal(np.asarray(r[0]), g.first):
            agg.add('collocation_derivs_info: first-active index mismatch', kv=g.kvl, p=p, got=np.asarray(r[0]).tolist(),
                    expected=g.first.tolist())
        cmp('collocation_derivs_info', r[1], Wp, sc[:, :, None])
    X = guarded('compute_values_derivs', lambda: assemble_tools.compute_values_derivs(kv, U, p))
    if X is not None:                   # axes (basis function, grid point, derivative)
        cmp('compute_values_derivs', np.transpose(X, (2, 1, 0)), Fp, sc[:, :, None])

    # -- ev / deriv (scipy splev route): unit coefficient vectors and one dense integer vector ------
    cvecs = [np.eye(n)[i] for i in range(n)] + [np.array([((3 * i * i + 5 * i + 1) % 7) - 3 for i in range(n)], dtype=float)]
    E0 = np.stack([Fp[0] @ c for c in cvecs])
    X = guarded('ev', lambda: np.stack([bspline.ev(kv, c, U) for c in cvecs]))
    if X is not None:
        cmp('ev', X, E0, 3.0)
    X = guarded('ev(scalar)', lambda: np.array([[float(bspline.ev(kv, c, float(u))) for u in U] for c in cvecs[-1:]]))
    if X is not None:
        cmp('ev(scalar)', X, E0[-1:], 3.0)
    for k in range(p + 1):
        Ek = np.stack([Fp[k] @ c for c in cvecs])
        X = guarded('deriv', lambda: np.stack([bspline.deriv(kv, c, k, U) for c in cvecs]))
        if X is not None:
            cmp('deriv', X, Ek, 3.0 * sc[k][None, :])

    # -- the two floats adjacent to every breakpoint: one-sided limits ------------------------------
    Ur, Er, Fr_, Ul, El, Fl = [], [], [], [], [], []
    for m, rec in enumerate(g.recs):
        if not rec['bp']:
            continue
        b = U[m]
        if b < g.kvl[-1]:
            Ur.append(np.nextafter(b, np.inf)); Er.append(Wp[:, m, :]); Fr_.append(g.first[m])
        if rec['lfirst'] >= 0 and b > g.kvl[0]:
            Ul.append(np.nextafter(b, -np.inf)); Fl.append(rec['lfirst'])
            El.append(np.array([[fr(v) for v in row] for row in rec['L']]))
    for side, UU, EE, FF in (('right', Ur, Er, Fr_), ('left', Ul, El, Fl)):
        if not UU:
            continue
        UU = np.array(UU)
        EE = np.stack(EE, axis=1)           # [k, m, r]
        r = guarded('collocation_derivs_info(adjacent float)', lambda: bspline.collocation_derivs_info(kv, UU, derivs=p))
        if r is None:
            continue
        if not np.array_equal(np.asarray(r[0]), np.array(FF)):
            agg.add('adjacent float %s of a breakpoint: first-active index mismatch' % side, kv=g.kvl, p=p,
                    points=UU.tolist(), got=np.asarray(r[0]).tolist(), expected=list(map(int, FF)))
            continue
        b = bad(r[1], EE, scale=np.abs(EE).max(), tol=1e-9)
        if b.any():
            ix = tuple(int(t[0]) for t in np.nonzero(b))
            agg.add('adjacent float %s of a breakpoint: one-sided limit mismatch' % side, kv=g.kvl, p=p, index=ix,
                    got=float(np.asarray(r[1])[ix]), expected=float(EE[ix]), points=UU.tolist())

    for m, rec in enumerate(g.recs):
        ctx.case(('pt', p, tuple(g.kvl), rec['u'][0], rec['u'][1]), nontrivial=len(set(g.kvl)) > 2,
                 sample={'kv': g.kvl, 'p': p, 'u': rec['u'], 'first': rec['first'], 'D': rec['D'][:2]}
                 if (m == 1 and p == 2 and len(g.kvl) == 8) else None)


# ----------------------------------------------------------------------------------
# derivative order > p: subprocess

def run_worker(ctx, jobs, tag, skip_rule=None):
    """Run jobs in subprocesses of harness/c02_worker.py.  A job that kills the interpreter gets the result
    {'crash': returncode}; the worker is restarted with the jobs behind it.  skip_rule(crashed_job, job) -> True drops a
    later job that would only crash again (counted as skipped)."""
    worker = str(VERIF / 'harness' / 'c02_worker.py')
    results = {}
    remaining = list(jobs)
    attempt = 0
    while remaining:
        attempt += 1
        jf = ctx.scratch / ('c02_%s_jobs_%d.json' % (tag, attempt))
        of = ctx.scratch / ('c02_%s_out_%d.jsonl' % (tag, attempt))
        jf.write_text(json.dumps(remaining))
        pr = subprocess.run([PY, worker, str(jf), str(of)], env=repo_env(), stdout=subprocess.PIPE,
                            stderr=subprocess.STDOUT, text=True, timeout=3600)
        started, done = None, False
        lines = of.read_text().splitlines() if of.exists() else []
        for ln in lines:
            try:
                o = json.loads(ln)
            except Exception:
                continue
            if 'start' in o:
                started = o['start']
            elif 'id' in o:
                results[o['id']] = o
                started = None
            elif o.get('done'):
                done = True
        if done:
            break
        if started is None:
            raise MachineryError('c02 worker died before starting a job (rc=%s):\n%s' % (pr.returncode, pr.stdout[-2000:]))
        # the interpreter died inside job `started`
        results[started] = {'id': started, 'crash': pr.returncode}
        ids = [j['id'] for j in remaining]
        crashed = remaining[ids.index(started)]
        remaining = remaining[ids.index(started) + 1:]
        if skip_rule is not None:
            keep = []
            for j in remaining:
                if skip_rule(crashed, j):
                    results[j['id']] = {'id': j['id'], 'skipped': True}
                    ctx.skip('%s job %s: an equivalent call already killed the interpreter' % (tag, j['id']))
                else:
                    keep.append(j)
            remaining = keep
        if attempt > 40:
            raise MachineryError('c02 worker keeps crashing')
    return results


def run_high_orders(ctx, agg, groups):
    jobs = []
    for gi, g in enumerate(groups):
        for nd in (g.p + 1, g.p + 2):
            jobs.append({'id': '%d:%d' % (gi, nd), 'kind': 'hi', 'p': g.p, 'kv': g.kvl, 'U': g.U.tolist(), 'nd': nd})
    results = run_worker(ctx, jobs, 'hi')
    ncase = 0
    for gi, g in enumerate(groups):
        p = g.p
        for nd in (p + 1, p + 2):
            o = results.get('%d:%d' % (gi, nd))
            if o is None:
                raise MachineryError('no worker result for %s nd=%d' % (g.sig(), nd))
            ncase += 1
            ctx.case(('order>p', p, tuple(g.kvl), nd), nontrivial=True,
                     sample={'kv': g.kvl, 'p': p, 'numderiv': nd, 'expected': 'orders > p identically zero'} if ncase == 7 else None)
            if 'crash' in o:
                agg.add('active_deriv numderiv>p: interpreter crash', kv=g.kvl, p=p, numderiv=nd, returncode=o['crash'])
                continue
            if 'exc' in o:
                agg.add('active_deriv numderiv>p: exception %s' % o['exc'].split(':')[0], kv=g.kvl, p=p, numderiv=nd, error=o['exc'])
                continue
            E = g.W[:nd + 1]                       # [k, m, r], zero rows for k > p
            Fk = g.F[:nd + 1]
            sc = np.maximum(g.scale[:nd + 1], 0)[:, :, None]
            for route, X, EE in (('active_deriv(array)', np.swapaxes(np.array(o['arr'], dtype=float), 1, 2), E),
                                 ('active_deriv(scalar)', np.swapaxes(np.array(o['sc'], dtype=float), 1, 2), E),
                                 ('collocation_derivs', np.array(o['cd'], dtype=float), Fk),
                                 ('collocation_derivs_info', np.array(o['info'], dtype=float), E)):
                if X.shape != EE.shape:
                    agg.add('%s numderiv>p: wrong shape' % route, kv=g.kvl, p=p, numderiv=nd, got=list(X.shape), expected=list(EE.shape))
                    continue
                lo = bad(X[:p + 1], EE[:p + 1], sc[:p + 1])
                if lo.any():
                    ix = tuple(int(t[0]) for t in np.nonzero(lo))
                    agg.add('%s numderiv>p: value mismatch order<=p' % route, kv=g.kvl, p=p, numderiv=nd, index=ix,
                            got=float(X[ix]), expected=float(EE[ix]))
                hi = X[p + 1:]
                if np.isnan(hi).any() or np.isinf(hi).any():
                    ix = tuple(int(t[0]) for t in np.nonzero(~np.isfinite(hi)))
                    agg.add('%s numderiv>p: NaN/inf in an order > p' % route, kv=g.kvl, p=p, numderiv=nd,
                            order=p + 1 + ix[0], u=float(g.U[ix[1]]), points=g.U.tolist())
                elif (np.abs(hi) > TOL).any():
                    ix = tuple(int(t[0]) for t in np.nonzero(np.abs(hi) > TOL))
                    agg.add('%s numderiv>p: non-zero in an order > p' % route, kv=g.kvl, p=p, numderiv=nd,
                            order=p + 1 + ix[0], u=float(g.U[ix[1]]), got=float(hi[ix]))
            if not np.array_equal(np.array(o['idx']), g.first):
                agg.add('collocation_derivs_info numderiv>p: first-active index mismatch', kv=g.kvl, p=p, numderiv=nd)


# ----------------------------------------------------------------------------------
# degrees 6..12 and spans differing by many orders of magnitude: rational-free invariants only

def check_highdeg(ctx, agg, groups):
    from pyiga import bspline
    rng = np.random.RandomState(ctx.seed + 202)
    structs = [g for g in groups if g.p in (2, 3) and len(set(g.kvl)) >= 3]
    if not structs:
        return
    pick = rng.choice(len(structs), size=min(len(structs), 60 if ctx.thorough else 12), replace=False)
    jobs, want = [], {}
    for si in pick:
        g = structs[si]
        bps = sorted(set(g.kvl))
        mult0 = [g.kvl.count(b) for b in bps]
        for pn in ((6, 9, 12) if ctx.thorough else (6, 12)):
            gaps = 2.0 ** rng.randint(-20, 21, size=len(bps) - 1)
            newb = np.concatenate(([0.0], np.cumsum(gaps))) - float(2.0 ** rng.randint(-3, 4))
            mult = [pn + 1] + [min(pn, max(1, m * pn // g.p)) for m in mult0[1:-1]] + [pn + 1]
            kvarr = np.repeat(newb, mult)
            kv = bspline.KnotVector(kvarr, pn)
            n = kv.numdofs
            mids = (newb[1:] + newb[:-1]) / 2
            inner = newb[1:-1]
            U = np.unique(np.concatenate((newb, mids, np.nextafter(inner, np.inf), np.nextafter(inner, -np.inf),
                                          newb[:-1] + 0.3 * gaps)))
            U = U[(U >= newb[0]) & (U <= newb[-1])]
            key = ('highdeg', pn, tuple(kvarr.tolist()))
            jid = 'splev:%d:%d' % (si, pn)
            ctx.case(key, nontrivial=True, sample={'p': pn, 'kv': kvarr.tolist(), 'invariants': 'PU, derivative sums, route agreement'}
                     if pn == 12 and si == pick[0] else None)
            try:
                A = np.asarray(bspline.active_deriv(kv, U, pn))            # (pn+1, pn+1, npts)
                first = np.array([kv.first_active_at(float(u)) for u in U])
                C = [M.toarray() for M in bspline.collocation_derivs(kv, U, derivs=pn)]
                S = np.stack([bspline.single_ev(kv, i, U) for i in range(n)], axis=1)
                sub = sorted(set([0, 1, n // 2, n - 2, n - 1]) & set(range(n)))
            except Exception as ex:
                agg.add('high degree: exception %s' % type(ex).__name__, p=pn, kv=kvarr.tolist(), error=repr(ex))
                continue
            info = dict(p=pn, kv=kvarr.tolist())
            ratio = 'span ratio >= 2^24' if gaps.max() / gaps.min() >= 2.0 ** 24 else 'span ratio < 2^24'
            if not np.isfinite(A).all():
                agg.add('high degree: NaN/inf from active_deriv', **info)
                continue
            if (A[0] < 0).any():
                agg.add('high degree: negative basis value', min=float(A[0].min()), **info)
            if (np.abs(A[0].sum(axis=0) - 1) > 1e-12).any():
                agg.add('high degree: partition of unity', err=float(np.abs(A[0].sum(axis=0) - 1).max()), **info)
            for k in range(1, pn + 1):
                tot = np.abs(A[k]).sum(axis=0)
                if (np.abs(A[k].sum(axis=0)) > 1e-9 * np.maximum(tot, 1e-300)).any():
                    agg.add('high degree: derivative sum not zero (relative 1e-9, %s)' % ratio, order=k,
                            rel=float((np.abs(A[k].sum(axis=0)) / np.maximum(tot, 1e-300)).max()), **info)
                    break
            if (first < 0).any() or (first + pn > n - 1).any():
                agg.add('high degree: first active index out of range', **info)
                continue
            # routes: full rows from the active values
            for k in range(pn + 1):
                Fk = np.zeros((len(U), n))
                for m, f in enumerate(first):
                    Fk[m, f:f + pn + 1] = A[k, :, m]
                rs = np.abs(Fk).max(axis=1, keepdims=True)
                if (np.abs(C[k] - Fk) > 1e-12 * np.maximum(rs, 1e-300)).any():
                    agg.add('high degree: collocation_derivs differs from active_deriv', order=k, **info)
                    break
                if k == 0 and (np.abs(S - Fk) > 1e-9).any():
                    agg.add('high degree: single_ev differs from active_deriv', err=float(np.abs(S - Fk).max()), **info)
                if k in (0, 1, 2, pn):
                    want.setdefault(jid, {'info': info, 'E': {}})['E'][k] = (Fk[:, sub], rs)
            if jid in want:
                jobs.append({'id': jid, 'kind': 'splev', 'p': pn, 'kv': kvarr.tolist(), 'U': U.tolist(), 'sub': sub,
                             'ks': sorted(want[jid]['E'])})
    # ev / deriv go through scipy's FITPACK wrappers, whose work arrays are sized for low degrees: subprocess
    results = run_worker(ctx, jobs, 'splev', skip_rule=lambda crashed, j: j['p'] >= crashed['p'])
    for jid, w in want.items():
        o = results.get(jid)
        if o is None:
            raise MachineryError('no worker result for splev job %s' % jid)
        if o.get('skipped'):
            continue
        if 'crash' in o:
            agg.add('high degree: bspline.ev/deriv (scipy splev) kills the interpreter', returncode=o['crash'], **w['info'])
            continue
        if 'exc' in o:
            agg.add('high degree: bspline.ev/deriv exception %s' % o['exc'].split(':')[0], error=o['exc'], **w['info'])
            continue
        for k, (Ek, rs) in w['E'].items():
            X = np.array(o['dv'][str(k)], dtype=float)
            if X.shape != Ek.shape or not np.isfinite(X).all() or (np.abs(X - Ek) > 1e-6 * np.maximum(rs, 1e-300)).any():
                agg.add('high degree: bspline.%s (scipy splev) differs from active_deriv' % ('ev' if k == 0 else 'deriv'),
                        order=k, **w['info'])
                break


# ----------------------------------------------------------------------------------
# tensor-product evaluators

def check_tp(ctx, agg, rec):
    from pyiga import bspline
    sdim = len(rec['kvs'])
    vd = rec['vd']
    kvs = tuple(bspline.KnotVector(np.array(k, dtype=float), p) for k, p in zip(rec['kvs'], rec['ps']))
    shape = tuple(rec['shape'])
    coeffs = np.stack([np.array(c, dtype=float).reshape(shape) for c in rec['coeffs']], axis=-1)   # shape + (vd,)
    scalar = vd == 1
    if scalar:
        coeffs = coeffs[..., 0]
    grid = [np.array([fr(x) for x in ax]) for ax in rec['grid']]
    gs = tuple(len(a) for a in grid)
    E = {}
    for d in rec['derivs']:
        vals = np.stack([np.array([fr(v) for v in comp]).reshape(gs) for comp in d['vals']], axis=-1)   # gs + (vd,)
        E[tuple(d['ks'])] = vals[..., 0] if scalar else vals
    zero = (0,) * sdim
    tag = 'sdim=%d' % sdim
    info = dict(case=rec['id'], kvs=rec['kvs'], ps=rec['ps'], vd=vd)
    ctx.case(('tp', rec['id'], vd), nontrivial=sdim >= 2,
             sample={'tp_case': rec['id'], 'kvs': rec['kvs'], 'ps': rec['ps'], 'grid_sizes': gs} if rec['id'] == 2 else None)

    def unit(axis, k=1):
        ks = [0] * sdim
        ks[axis] = k
        return ks

    def cmp(route, X, EE, scale):
        X = np.asarray(X, dtype=float)
        if X.shape != EE.shape:
            agg.add('%s %s: wrong shape' % (route, tag), got=list(X.shape), expected=list(EE.shape), **info)
            return
        b = bad(X, EE, scale)
        if b.any():
            ix = tuple(int(t[0]) for t in np.nonzero(b))
            agg.add('%s %s: value mismatch' % (route, tag), index=ix, got=float(X[ix]), expected=float(EE[ix]),
                    nbad=int(b.sum()), **info)

    def guarded(route, f):
        try:
            return f()
        except Exception as ex:
            agg.add('%s %s: exception %s' % (route, tag, type(ex).__name__), error=repr(ex), **info)
            return None

    f = guarded('BSplineFunc', lambda: bspline.BSplineFunc(kvs, coeffs))
    if f is None:
        return
    cs = 3.0 * np.prod([p + 1 for p in rec['ps']])
    # expected jacobian: last axis = coordinate (x first) <-> knot vector axis sdim-1-b
    Ejac = np.stack([E[tuple(unit(sdim - 1 - b))] for b in range(sdim)], axis=-1)
    hs = []
    for ca in range(sdim):
        for cb in range(ca, sdim):
            ks = [0] * sdim
            ks[sdim - 1 - ca] += 1
            ks[sdim - 1 - cb] += 1
            hs.append(E[tuple(ks)])
    Ehess = np.stack(hs, axis=-1)
    dscale = cs * max(1.0, np.abs(Ejac).max(), np.abs(Ehess).max())

    X = guarded('grid_eval', lambda: f.grid_eval(grid))
    if X is not None:
        cmp('grid_eval', X, E[zero], cs)
    X = guarded('grid_jacobian', lambda: f.grid_jacobian(grid))
    if X is not None:
        cmp('grid_jacobian', X, Ejac, dscale)
    X = guarded('grid_hessian', lambda: f.grid_hessian(grid))
    if X is not None:
        cmp('grid_hessian', X, Ehess, dscale)
    # eval at single points (xyz order), scalar arguments
    pts = list(itertools.product(*[range(n) for n in gs]))[::max(1, int(np.prod(gs)) // 7)]
    X = guarded('BSplineFunc.__call__', lambda: np.array([f(*[grid[sdim - 1 - c][mi[sdim - 1 - c]] for c in range(sdim)]) for mi in pts]))
    if X is not None:
        cmp('BSplineFunc.__call__', X, np.array([E[zero][mi] for mi in pts]), cs)
    # pointwise evaluators: the full tensor grid as an unstructured point list, coordinates in xyz order
    M = np.meshgrid(*grid, indexing='ij')
    P = [M[sdim - 1 - c] for c in range(sdim)]
    X = guarded('tp_bsp_eval_pointwise', lambda: bspline.tp_bsp_eval_pointwise(kvs, coeffs, P))
    if X is not None:
        cmp('tp_bsp_eval_pointwise', X, E[zero], cs)
    X = guarded('tp_bsp_eval_pointwise', lambda: f.pointwise_eval([q.ravel() for q in P]))
    if X is not None:
        cmp('tp_bsp_eval_pointwise', X, E[zero].reshape((-1,) + E[zero].shape[sdim:]), cs)
    if not scalar:      # the pointwise Jacobian routines write result[k, :, j]: vector-valued functions only
        X = guarded('tp_bsp_jac_pointwise', lambda: bspline.tp_bsp_jac_pointwise(kvs, coeffs, P))
        if X is not None:
            cmp('tp_bsp_jac_pointwise', X, Ejac, dscale)
        r = guarded('tp_bsp_eval_with_jac_pointwise', lambda: bspline.tp_bsp_eval_with_jac_pointwise(kvs, coeffs, P))
        if r is not None:
            cmp('tp_bsp_eval_with_jac_pointwise', r[0], E[zero], cs)
            cmp('tp_bsp_eval_with_jac_pointwise', r[1], Ejac, dscale)


# ----------------------------------------------------------------------------------

EVAL_INVS = ['PtOK', 'KvOK']
FS_INVS = ['SpanOK', 'RangeOK', 'LoopInv', 'AsProved']


def run(ctx):
    ctx.rule = ('TLC enumerates every open knot vector of degree p (integer breakpoints, all interior multiplicity patterns, '
                'bounds per tier) and every sample point (all breakpoints, both ends, mid and quarter points of every span); '
                'one case = one (knot vector, point) with derivative orders 0..p+2 driven through every evaluation route of '
                'pyiga.bspline (non-trivial = knot vector with >= 2 spans); plus one case per (knot vector, numderiv > p) run '
                'in a subprocess, per tensor-product space, and per high-degree/badly scaled knot vector (invariants only)')
    ctx.assumptions = ['expected values are exact rationals of spec/BSplineRef.tla (Cox-de Boor, right-continuous, left-continuous at the right end); '
                       'float comparison |x-q| <= 1e-11 max(1,|q|,row scale)',
                       'degrees 6..12 and span ratios up to 2^40 are checked for partition of unity, derivative sums, sign and route '
                       'agreement only (no exact reference: 32-bit rationals overflow)',
                       'bspline.deriv (scipy splev) raises ValueError for orders > p by contract of scipy; not counted as a violation']
    agg = Agg(ctx)
    ecfgs = eval_cfgs(ctx)
    fcfgs = findspan_cfgs(ctx)
    tpsets = [{1, 2, 4, 7}, {3, 5, 6, 8}] if ctx.thorough else [{1, 2, 3, 4}]

    def run_eval(item):
        name, consts, workers = item
        cfg = write_cfg(ctx.scratch / ('bse_%s.cfg' % name), consts, invariants=EVAL_INVS)
        return name, ctx.tlc('BSplineEval', cfg, workers=workers, timeout=7200)

    def run_fs(item):
        name, consts, workers = item
        # StepsAsProved: every step of the transcription is a step of the algorithm proved in FindSpanProof.tla (TLAPS);
        # liveness only in the thorough tier
        cfg = write_cfg(ctx.scratch / ('%s.cfg' % name), consts, invariants=FS_INVS,
                        properties=['StepsAsProved'] + (['Termination'] if ctx.thorough else []))
        return name, ctx.tlc('FindSpanPC', cfg, workers=workers, timeout=7200)

    def run_tp(ids):
        cfg = write_cfg(ctx.scratch / ('tp_%d.cfg' % min(ids)), dict(CaseIds=set(ids), Seed=int(ctx.seed) % 1000),
                        invariants=['TPOK'])
        return 'tp', ctx.tlc('BSplineTP', cfg, workers=len(ids), timeout=7200)

    # negative controls: an off-by-one mutant of the A2.3 model must disagree with the reference; findspan needs its
    # right-end special case
    def neg_eval():
        cfg = write_cfg(ctx.scratch / 'bse_neg.cfg', dict(Tier='neg', Degrees={1, 2, 3}, Extra=2, Mut=1, DoEmit=False),
                        invariants=['PtOK'])
        ctx.expect_violation('BSplineEval', cfg, invariant='PtOK', workers=1)

    def neg_fs():
        cfg = write_cfg(ctx.scratch / 'fs_neg.cfg', dict(Degrees={2}, BMax=3, MaxSpans=2, NoEndCase=True), invariants=FS_INVS)
        ctx.expect_violation('FindSpanPC', cfg, invariant='SpanOK', workers=1)

    def neg_fs_steps():      # without the end case the transcription is NOT the proved algorithm
        cfg = write_cfg(ctx.scratch / 'fs_neg2.cfg', dict(Degrees={1}, BMax=2, MaxSpans=2, NoEndCase=True),
                        properties=['StepsAsProved'])
        ctx.expect_violation('FindSpanPC', cfg, invariant='action-property-of-FindSpanProof', workers=1)

    with ThreadPoolExecutor(4) as ex:
        tl = ex.submit(run_tlaps, ctx, 'FindSpanProof',
                       'pyx_findspan for ALL knot vectors: inductive loop invariant, result is the unique non-empty span, '
                       'bracket shrinks in every iteration')
        futs = [ex.submit(run_eval, it) for it in reversed(ecfgs)]
        futs += [ex.submit(run_tp, ids) for ids in tpsets]
        futs += [ex.submit(run_fs, it) for it in fcfgs]
        negs = [ex.submit(neg_eval), ex.submit(neg_fs), ex.submit(neg_fs_steps)]
        results = [f.result() for f in futs]
        tl.result()
        for f in negs:
            f.result()

    groups = []
    for name, res in results:
        if name == 'tp':
            recs = res.recs('TP')
            if not recs:
                raise MachineryError('BSplineTP emitted nothing')
            for rec in recs:
                check_tp(ctx, agg, rec)
            continue
        if name == 'fs':
            if res.distinct == 0:
                raise MachineryError('FindSpanPC explored nothing')
            continue
        recs = res.recs('PT')
        if not recs:
            raise MachineryError('BSplineEval %s emitted nothing' % name)
        bykv = {}
        for r in recs:
            bykv.setdefault((r['p'], tuple(r['kv'])), {})[tuple(r['u'])] = r      # duplicates collapse
        for (p, kv), rr in sorted(bykv.items()):
            g = Group(p, kv, list(rr.values()))
            groups.append(g)
            check_group(ctx, agg, g)
    run_high_orders(ctx, agg, groups)
    check_highdeg(ctx, agg, groups)
    check_tiny_twins(ctx, agg, groups)
    agg.flush()
    ctx.notes['knot_vectors'] = len(groups)
    ctx.exhaustive = True
