"""C06 -- form rewriting and differentiation passes preserve the integrand's value.

spec/VFormGen.tla  generates well-typed forms (stack machine over the vform grammar; exhaustive to a token bound,
                   -simulate beyond);
spec/VFormIR.tla   gives every node kind of the library's expression DAG its meaning over GF(32749) with
                   uninterpreted builtin functions, and the abstract denotation of a generated token program.
For every form:  abstract denotation == raw tree (as built by the public API) == program after finalize(), in K random
environments; plus the emission order (precompute / kernel) replayed as a def-before-use state machine."""
import json
import os
import random
from concurrent.futures import ProcessPoolExecutor, ThreadPoolExecutor

from ..common import MachineryError, write_cfg, REPO
from .. import forms

REJECT = (TypeError, NotImplementedError, ValueError, RuntimeError, AssertionError, ZeroDivisionError)   # IndexError etc. are failures


def _export_chunk(args):
    """worker: build + export a list of form descriptions; returns (cases, rejected, failures)"""
    import sys
    sys.path.insert(0, str(REPO))
    from harness import vf_export, vf_gen, forms as F
    items, seed, nenv = args
    rng = random.Random(seed)
    cases, rejected, failures = [], [], []
    for it in items:
        cid = it['cid']
        try:
            if it['kind'] == 'pair':
                _, fa, fb = F.api_pairs()[it['pair']]
                c = vf_export.make_pair_case(cid, fa, fb, rng, nenv=nenv)
                if c is None:
                    rejected.append((cid, 'constant-too-large'))
                    continue
                c['abs'] = []
                c['vname'] = 'v'
                cases.append(c)
                continue
            if it['kind'] == 'gen':
                b = (lambda it=it: vf_gen.build(it['tokens'], it['dim']))
            else:
                b = (lambda it=it: F.build(it['desc']))
            try:
                b()
            except REJECT as ex:
                rejected.append((cid, 'build:' + type(ex).__name__))
                continue
            try:
                c = vf_export.make_case(cid, b, rng, nenv=nenv)
            except REJECT as ex:
                rejected.append((cid, 'finalize:' + type(ex).__name__ + ':' + str(ex)[:60]))
                continue
            if c is None:
                rejected.append((cid, 'constant-too-large'))
                continue
            c['abs'] = it.get('tokens', []) if it['kind'] == 'gen' else []
            c['vname'] = 'v' if it.get('bilinear', True) else 'u'
            cases.append(c)
        except Exception as ex:
            failures.append((cid, '%s: %s' % (type(ex).__name__, str(ex)[:200])))
    return cases, rejected, failures


def extra_forms():
    """pass-specific forms beyond the one-token-mutant universe"""
    E = []

    def add(name, expr, dim=2, args=None, bfuns=None, boundary=False):
        E.append(dict(name=name, kind='str', expr=expr, dim=dim, args=args or {}, bfuns=bfuns, boundary=boundary,
                      updatable=[], attr='pass'))
    F = {'f': ['field', [], True]}
    add('cse-sin-cos', '(sin(x[0]*x[1]+2)+cos(x[0]*x[1]+2))*u*v*dx')
    add('cse-exp-log', '(exp(f*f+1)*log(f*f+1) + sqrt(f*f+1)/tan(f*f+1))*u*v*dx', args=F)
    add('cse-repeated', '((f+1)*(f+1)*(f+1) + (f+1)*(f+1))*u*v*dx + (f+1)*(f+1)*Dx(u,0)*v*dx', args=F)
    # both orientations of a non-commutative operation on the same (large) operands in one form: a common-subexpression
    # pass that identifies them computes one of the two terms with the wrong coefficient
    FG = {'f': ['field', [], True], 'g': ['field', [], True]}
    add('cse-mirror-div', '((1+f*f)/(1+g*g))*inner(grad(u),grad(v))*dx + ((1+g*g)/(1+f*f))*u*v*dx', args=FG)
    add('cse-mirror-sub', '((f*f+g) - (g*g+f))*u*v*dx + ((g*g+f) - (f*f+g))*Dx(u,0)*v*dx', args=FG)
    add('cse-mirror-cross', '(inner(cross(p, q), grad(u))*v + inner(cross(q, p), grad(v))*u)*dx', dim=3,
        args={'p': ['field', [3], True], 'q': ['field', [3], True]})
    add('const-fold', '((0*f + 1*u) * (v/1) - 0 + (-1)*u*v + u*v*(-1) + (2*3)*u*v)*dx', args=F)
    add('neg-fold', '(u - (-v))*(v + (-u))*dx')
    add('hess-3d', 'inner(hess(u),hess(v))*dx', dim=3)
    add('stiff-3d', 'inner(grad(u),grad(v))*dx', dim=3)
    add('mixed-par-phys', '(Dx(u,0,parametric=True)*Dx(v,1) + Dx(u,1)*Dx(v,0,parametric=True))*dx')
    add('field-phys-deriv', '(Dx(f,0)*u*Dx(v,1) + Dx(f,1)*Dx(u,0)*v)*dx', args=F)
    add('field-par-hess', 'inner(hess(h), hess(u))*v*dx', args={'h': ['field', [], False]})
    add('vecfield-div', 'div(g)*u*v*dx', args={'g': ['field', [2], False]})
    add('matfield', 'inner(dot(A, grad(u)), grad(v))*dx', args={'A': ['field', [2, 2], True]})
    add('det-inv', '(det(A)*tr(inv(A)) + inner(inv(A).T, A))*u*v*dx', args={'A': ['field', [2, 2], True]})
    add('det-inv-3d', '(det(A)*tr(inv(A)))*u*v*dx', dim=3, args={'A': ['field', [3, 3], True]})
    add('cross-3d', 'inner(cross(grad(u), g), grad(v))*dx', dim=3, args={'g': ['field', [3], True]})
    add('curl-3d', 'inner(curl(u), curl(v))*dx', dim=3, bfuns=[['u', 3, 0], ['v', 3, 0]])
    add('outer', 'inner(outer(grad(u), g), outer(g, grad(v)))*dx', args={'g': ['field', [2], True]})
    add('vec-stokes', '(inner(grad(u), grad(v)) + div(u)*div(v))*dx', bfuns=[['u', 2, 0], ['v', 2, 0]])
    add('vec-21', '(u[0]*Dx(v,0) + u[1]*Dx(v,1))*dx', bfuns=[['u', 2, 0], ['v', 1, 0]])
    add('vec-lin', 'inner(g, v)*dx', bfuns=[['v', 2, 0]], args={'g': ['field', [2], True]})
    add('surf-normal', 'inner(n, n)*u*v*ds')
    add('surf-3d', 'u*v*ds', dim=2)
    add('bd-flux', 'inner(grad(u), n)*v*ds', boundary=True)
    add('bd-flux-3d', 'inner(grad(u), n)*v*ds', dim=3, boundary=True)
    add('bd-field', 'f*inner(grad(v), n)*ds', boundary=True, args=F)
    add('param-vec', 'inner(c, grad(u))*v*dx', args={'c': ['param', [2]]})
    add('param-mat', 'inner(dot(c, grad(u)), grad(v))*dx', args={'c': ['param', [2, 2]]})
    add('pow', '(f**3 + f**(-2))*u*v*dx', args=F)
    add('norm', 'norm(grad(u))*norm(grad(v))*dx')
    add('1d-stiff', 'Dx(u,0)*Dx(v,0)*dx', dim=1)
    add('1d-hess', 'Dx(u,0,2)*Dx(v,0,2)*dx', dim=1)
    return E


FIXED_TOKENS = [
    ['B', 'T', 'B', 'matmat', 'gu', 'matvec', 'gv', 'inner'],       # wide x tall matrix product
    ['B', 'B', 'T', 'matmat', 'tr', 'u', '*', 'v', '*'],            # tall x wide
    ['B', 'T', 'B', 'matmat', 'det', 'u', '*', 'v', '*'],
    ['B', 'gu', 'matvec', 'B', 'gv', 'matvec', 'inner'],            # (B grad u) . (B grad v): vectors of length Dim+1
    ['B', 'T', 'B', 'T', 'minner', 'v', '*'],
    ['A', 'J', 'matmat', 'Jinv', 'matmat', 'tr', 'u', '*', 'v', '*'],
    ['gu', 'gv', 'outer', 'A', 'minner'],
    ['Hu', 'Hv', 'matmat', 'tr'],
    ['tiny', 'u', '*', 'v', '*'],                                   # 2^-27 u v: not zero
    ['u', 'v', '*', 'tiny', 'gu', 'gv', 'inner', '*', '+'],
    ['near1', 'u', '*', 'v', '*', 'u', 'v', '*', '-'],              # (1 + 2^-18) u v - u v: not zero either
    ['f', 'val', 'near1', '-', 'u', '*', 'v', '*'],
]


def run(ctx):
    ctx.rule = ('one case = one variational form (TLC-generated token program, universe form or pass-specific form) whose '
                'abstract denotation, raw expression DAG and finalized program are evaluated by TLC in K random GF(p) '
                'environments; non-trivial = the finalized program has >= 20 nodes')
    ctx.assumptions = ['polynomial/rational identity testing over GF(32749) with K = 3 (4 thorough) random environments '
                       '(Schwartz-Zippel: a false accept needs the difference polynomial to vanish in all of them)',
                       'builtin functions are uninterpreted; constants are dyadic so that float constant folding is exact',
                       'forms rejected by the library with an explicit error are not cases']
    nenv = 4 if ctx.thorough else 3
    # 1. generation
    gens = []

    def gen(name, consts, simulate=None, depth=None, workers=4):
        cfg = write_cfg(ctx.scratch / ('gen_%s.cfg' % name), consts, invariants=['TypeOK'])
        return ctx.tlc('VFormGen', cfg, workers=workers, simulate=simulate, depth=depth, seed=ctx.seed + 11, timeout=1800)
    pool = ThreadPoolExecutor(6)
    jobs = [pool.submit(gen, 'core4', dict(Dim=2, MaxTok=4, MaxStack=3, Rich=False, Poly=False, NcU=1, NcV=1, Bnd=False)),
            pool.submit(gen, 'rich2', dict(Dim=2, MaxTok=2, MaxStack=2, Rich=True, Poly=False, NcU=1, NcV=1, Bnd=False)),
            pool.submit(gen, 'sim2', dict(Dim=2, MaxTok=9, MaxStack=3, Rich=True, Poly=False, NcU=1, NcV=1, Bnd=False), 20000 if not ctx.thorough else 150000, 14),
            pool.submit(gen, 'sim3', dict(Dim=3, MaxTok=8, MaxStack=3, Rich=True, Poly=False, NcU=1, NcV=1, Bnd=False), 8000 if not ctx.thorough else 60000, 13)]
    if ctx.thorough:
        jobs.append(pool.submit(gen, 'core5', dict(Dim=2, MaxTok=5, MaxStack=3, Rich=False, Poly=False, NcU=1, NcV=1, Bnd=False), None, None, 8))
        jobs.append(pool.submit(gen, 'rich3', dict(Dim=3, MaxTok=3, MaxStack=2, Rich=True, Poly=False, NcU=1, NcV=1, Bnd=False), None, None, 8))
    items = []
    seen = set()
    for j in jobs:
        res = j.result()
        for f in res.recs('FORM'):
            key = (f['dim'], tuple(f['tokens']))
            if key in seen:
                continue
            seen.add(key)
            items.append({'kind': 'gen', 'tokens': f['tokens'], 'dim': f['dim'], 'bilinear': f['bilinear']})
    # named token programs that must always be in the sample (the generator's random walk may miss them)
    for t in FIXED_TOKENS:
        key = (2, tuple(t))
        if key not in seen:
            seen.add(key)
            items.append({'kind': 'gen', 'tokens': list(t), 'dim': 2,
                          'bilinear': any(x in ('u', 'ux', 'uy', 'uxp', 'uxx', 'uxy', 'gu', 'gup', 'Hu') for x in t)})
    cap = 60000 if ctx.thorough else 2500
    if len(items) > cap:
        rng = random.Random(ctx.seed)
        # keep all short programs, sample the long ones
        short = [it for it in items if len(it['tokens']) <= 4]
        longer = [it for it in items if len(it['tokens']) > 4]
        rng.shuffle(longer)
        items = short + longer[:max(0, cap - len(short))]
    for d in forms.universe() + extra_forms():
        items.append({'kind': 'desc', 'desc': d})
    for n, (pname, _, _) in enumerate(forms.api_pairs()):
        items.append({'kind': 'pair', 'pair': n, 'name': pname})
    for i, it in enumerate(items):
        it['cid'] = i

    from .. import vf_gen

    def label(it):
        if it['kind'] == 'pair':
            return 'api-pair:%s (let variable vs. inlined expression)' % it['name']
        return vf_gen.render(it['tokens']) + ' [dim %d]' % it['dim'] if it['kind'] == 'gen' else \
            '%s: %s [dim %d]' % (it['desc']['name'], it['desc']['expr'], it['desc']['dim'])

    # 2. build + export in worker processes
    nproc = 12
    chunks = [items[i::nproc * 4] for i in range(nproc * 4)]
    cases, rejected, failures = [], [], []
    with ProcessPoolExecutor(nproc) as ex:
        for c, r, f in ex.map(_export_chunk, [(ch, ctx.seed * 1000 + n, nenv) for n, ch in enumerate(chunks) if ch]):
            cases += c
            rejected += r
            failures += f
    for cid, msg in failures:
        ctx.violation('exception in finalize/export: %s form=%s' % (msg.split(':')[0], label(items[cid])), {'error': msg})
    ctx.notes['forms_generated'] = len(items)
    ctx.notes['forms_rejected_by_library'] = len(rejected)
    rej = {}
    for cid, why in rejected:
        rej[why] = rej.get(why, 0) + 1
    ctx.notes['rejection_reasons'] = dict(sorted(rej.items(), key=lambda kv: -kv[1])[:12])
    if not cases:
        raise MachineryError('no form could be exported')

    # 3. TLC evaluation in batches
    bsize = 150
    batches = [cases[i:i + bsize] for i in range(0, len(cases), bsize)]
    cfg = write_cfg(ctx.scratch / 'ir.cfg', None, invariants=['Verdict'])

    def evalbatch(nb):
        n, b = nb
        b = list(b)
        out = []
        for attempt in range(6):
            if not b:
                break
            f = ctx.scratch / ('ir_%d_%d.json' % (n, attempt))
            f.write_text(json.dumps({'progs': b}))
            res = ctx.tlc('VFormIR', cfg, workers=2, env={'IR_FILE': str(f)}, must_pass=False, timeout=1800)
            out += res.recs('IR')
            os.unlink(f)
            if res.ok:
                return out, []
            # an evaluation error aborts the batch: identify the program, report it, and go on without it
            import re
            m = re.search(r'k = (\d+)', res.stdout)
            done = {v['id'] for v in out}
            if m:
                bad = b[int(m.group(1)) - 1]
                err = re.search(r'Error: (.*)', res.stdout)
                ctx.skip('TLC could not evaluate form %s: %s' % (label(items[bad['id']]), (err.group(1) if err else '')[:120]))
                b = [p for p in b if p['id'] != bad['id'] and p['id'] not in done]
            else:
                raise MachineryError('VFormIR failed: %s\n%s' % (res.error, res.stdout[-1500:]))
        return out, b
    verdicts = []
    with ThreadPoolExecutor(8) as ex:
        for out, left in ex.map(evalbatch, list(enumerate(batches))):
            verdicts += out
    got = {v['id'] for v in verdicts}
    if len(got) + len(ctx.skipped) < len(cases):
        raise MachineryError('verdicts missing: %d of %d' % (len(got), len(cases)))
    nodes = {c['id']: len(c['fin']['nodes']) for c in cases}
    for v in verdicts:
        it = items[v['id']]
        lab = label(it)
        envs = v['envs']
        defined = [e for e in envs if e['defined']]
        ctx.case(v['id'], nontrivial=nodes[v['id']] >= 20 and len(defined) >= 2,
                 sample={'form': lab, 'finalized_nodes': nodes[v['id']], 'environments_defined': len(defined),
                         'all_equal': all(e['equal'] and e['absequal'] for e in defined)} if len(ctx.samples) < 5 and nodes[v['id']] >= 60 else None)
        if not defined:
            ctx.skip('no environment in which the form is defined (division by zero): ' + lab[:80])
            continue
        if any(not e['equal'] for e in defined):
            e = next(e for e in defined if not e['equal'])
            ctx.violation('value-changed-by-finalize form=' + lab, {'raw': e['raw'], 'finalized': e['fin']})
        if any(not e['absequal'] for e in defined):
            e = next(e for e in defined if not e['absequal'])
            ctx.violation('raw-tree-differs-from-denotation form=' + lab, {'abstract': e['abs'], 'raw': e['raw']})
        for ph, ok in v['order'].items():
            if not ok:
                ctx.violation('use-before-definition phase=%s form=%s' % (ph, lab), {})
    ctx.notes['programs_evaluated'] = len(verdicts)
